/-
Helper lemmas for Props/C09Extra.lean: the degree-raised partial sums of `BSplines._build_integrals` are antiderivatives of
the basis functions (de Boor: `d/dx Σ_{j≥i} N_{j,p+1} = (p+1)/(t_{i+p+1}-t_i) · N_{i,p}`).

  * `sumFrom_eq_sum_Ico`, `sum_Ico_telescope`       list tails as finite sums, telescoping
  * `coxPoly`, `coxPoly_eval_cell`                  Cox–de Boor carried out in `K[X]` on one cell; its values on the cell are `N`
  * `tailPoly`, `tailPoly_eval`, `tailPoly_derivative_eval`
                                                    `Σ_{r≥m}` of the A2.2 cell polynomials, its values (= `np.sum(values[m:])`) and its
                                                    derivative (telescoped degree-lowering formula)
  * `sumFrom_shiftCont`                             the tails are continuous across a simple knot
  * `extKnots_succ`, `extKnots_mono`, `basisFuns_extKnots`
                                                    the padded knot vector `[t_0, *t, t_{nk-1}]`
  * `cell_antiderivative`                           `d/dx (c · tailPoly) = coxPoly` on every cell of the domain
  * `cell_increment`                                increments of any formal antiderivative of the cell polynomial
  * `partialSum_upper`, `partialSum_lower`          what the two span searches of `_build_integrals` return
  * `integralGeneral_eq_cells`                      the stored value is the sum over the cells of the antiderivative increments
  * `integralGeneral_eq_tailVal`, `tailVal_first_eq_zero`, `tailVal_last_eq_one`, `integralGeneral_interior`
                                                    closed form of the stored value; full integral for interior functions
  * `antideriv`, `derivative_antideriv`             formal antiderivatives exist
  * `seamKnots`, `tailVal_seam`                     periodic knots: the tail of `B_{n+i}` at `xmax` is the tail of `B_i` at `xmin`
-/
import PygyroVerif.Model.BSpline
import PygyroVerif.Model.Interp
import PygyroVerif.Lemmas.BSpline
import PygyroVerif.Lemmas.Interp
import PygyroVerif.Props.C07
import Mathlib.Algebra.Polynomial.Derivative
import Mathlib.Algebra.Polynomial.Eval.Defs
import Mathlib.Algebra.Polynomial.Roots
import Mathlib.Algebra.BigOperators.Intervals
import Mathlib.Order.Interval.Set.Infinite
import Mathlib.Tactic.Ring
import Mathlib.Tactic.FieldSimp
import Mathlib.Tactic.Linarith
import Mathlib.Tactic.ByContra
import Mathlib.Tactic.Set
import Mathlib.Logic.Basic

set_option linter.unusedSectionVars false
set_option linter.unusedVariables false

namespace PygyroVerif.SplineIntegrals
open PygyroVerif.BSpline PygyroVerif.Interp Polynomial Finset

variable {K : Type*} [Field K] [LinearOrder K] [IsStrictOrderedRing K]

/-! ### tails of lists as finite sums -/

/-- `np.sum(l[k:]) = Σ_{k ≤ r < len(l)} l[r]` -/
theorem sumFrom_eq_sum_Ico : ∀ (l : List K) (k : ℕ), sumFrom l k = ∑ r ∈ Ico k l.length, l.getD r 0
  | [], k => by simp [sumFrom]
  | a :: l, 0 => by
    have ih := sumFrom_eq_sum_Ico l 0
    simp only [sumFrom, List.drop_zero] at ih
    simp only [sumFrom, List.drop_zero, List.sum_cons, List.length_cons]
    rw [ih, ← Finset.range_eq_Ico, ← Finset.range_eq_Ico, Finset.sum_range_succ']
    simp only [List.getD_cons_succ, List.getD_cons_zero]
    ring
  | a :: l, k+1 => by
    have ih := sumFrom_eq_sum_Ico l k
    simp only [sumFrom] at ih
    simp only [sumFrom, List.drop_succ_cons, List.length_cons]
    rw [ih, ← Finset.sum_Ico_add' (fun r => (a :: l).getD r 0) k l.length 1]
    simp only [List.getD_cons_succ]

/-- telescoping: `Σ_{m ≤ r < n} (φ r − φ (r+1)) = φ m − φ n` -/
theorem sum_Ico_telescope (φ : ℕ → K) (m n : ℕ) (h : m ≤ n) : ∑ r ∈ Ico m n, (φ r - φ (r + 1)) = φ m - φ n := by
  induction n, h using Nat.le_induction with
  | base => simp
  | succ n hmn ih => rw [Finset.sum_Ico_succ_top hmn, ih]; ring

/-! ### Cox–de Boor in `K[X]` on one cell -/

/-- Cox–de Boor recursion on the cell `[t_s, t_{s+1})` carried out in `K[X]`: the cell polynomial of `N_{i,p}`
    (the definition of `C09.cellPoly`) -/
noncomputable def coxPoly (t : ℕ → K) (s : ℕ) : ℕ → ℕ → K[X]
  | 0, i => if i = s then 1 else 0
  | p+1, i =>
      (if t (i+p+1) - t i = 0 then 0 else C (1 / (t (i+p+1) - t i)) * (X - C (t i)) * coxPoly t s p i) +
      (if t (i+p+2) - t (i+1) = 0 then 0 else C (1 / (t (i+p+2) - t (i+1))) * (C (t (i+p+2)) - X) * coxPoly t s p (i+1))

/-- on its cell the Cox–de Boor cell polynomial takes the values of `N_{i,p}` -/
theorem coxPoly_eval_cell (t : ℕ → K) (ht : Monotone t) (s : ℕ) (x : K) (hx1 : t s ≤ x) (hx2 : x < t (s + 1)) :
    ∀ (p i : ℕ), (coxPoly t s p i).eval x = N t p i x
  | 0, i => by
    simp only [coxPoly, N]
    by_cases his : i = s
    · subst his; rw [if_pos rfl, if_pos ⟨hx1, hx2⟩, eval_one]
    · rw [if_neg his, if_neg, eval_zero]
      intro ⟨a, b⟩
      rcases Nat.lt_or_ge i s with h | h
      · exact absurd (lt_of_lt_of_le b (ht (by omega : i + 1 ≤ s))) (not_lt.mpr hx1)
      · have : t (s + 1) ≤ t i := ht (by omega)
        exact absurd (lt_of_lt_of_le hx2 this) (not_lt.mpr a)
  | p+1, i => by
    simp only [coxPoly, N, eval_add]
    congr 1
    · split_ifs
      · simp
      · simp only [eval_mul, eval_C, eval_sub, eval_X, coxPoly_eval_cell t ht s x hx1 hx2 p i]
        ring
    · split_ifs
      · simp
      · simp only [eval_mul, eval_C, eval_sub, eval_X, coxPoly_eval_cell t ht s x hx1 hx2 p (i+1)]
        ring

/-! ### tails of the A2.2 cell polynomials -/

/-- `Σ_{m ≤ r ≤ p}` of the polynomials of the active basis functions on the cell `span` -/
noncomputable def tailPoly (t : ℕ → K) (span p m : ℕ) : K[X] := ∑ r ∈ Ico m (p + 1), cellPoly t span p r

/-- the values of the tail polynomial are `np.sum(values[m:])` -/
theorem tailPoly_eval (t : ℕ → K) (span p m : ℕ) (x : K) :
    (tailPoly t span p m).eval x = sumFrom (basisFuns t p x span) m := by
  rw [sumFrom_eq_sum_Ico, BSpline.basisFuns_length]
  unfold tailPoly
  rw [eval_finsetSum]
  apply sum_congr rfl
  intro r hr
  exact cellPoly_eval t span p r (by have := (mem_Ico.mp hr).2; omega) x

/-- derivative of the tail: only the first `saved` term of the degree-lowering formula survives -/
theorem tailPoly_derivative_eval (t : ℕ → K) (ht : Monotone t) (span p m : ℕ) (hcell : t span < t (span + 1)) (x : K) :
    (derivative (tailPoly t span p m)).eval x =
      if m = 0 then 0 else if m ≤ p then derSaved t p span (basisFuns t (p - 1) x span) (m - 1) else 0 := by
  set φ : ℕ → K := fun r =>
    if r = 0 then 0 else if r ≤ p then derSaved t p span (basisFuns t (p - 1) x span) (r - 1) else 0 with hφ
  unfold tailPoly
  rw [derivative_sum, eval_finsetSum]
  have hterm : ∀ r ∈ Ico m (p + 1), (derivative (cellPoly t span p r)).eval x = φ r - φ (r + 1) := by
    intro r hr
    have hr' : r ≤ p := by have := (mem_Ico.mp hr).2; omega
    rw [cellPoly_derivative_eval t ht span p r hcell hr' x, basisFunsDer, getD_map_range _ _ _ (by omega)]
    simp only [hφ, Nat.add_sub_cancel]
    rw [if_pos hr', if_neg (Nat.succ_ne_zero r)]
    rfl
  rw [sum_congr rfl hterm]
  by_cases hm : m ≤ p + 1
  · rw [sum_Ico_telescope φ m (p + 1) hm]
    have : φ (p + 1) = 0 := by simp [hφ]
    rw [this, sub_zero]
  · rw [Finset.Ico_eq_empty (by omega), sum_empty]
    have h1 : ¬ (m = 0) := by omega
    have h2 : ¬ (m ≤ p) := by omega
    simp [h1, h2]

/-! ### continuity of the tails across a simple knot -/

/-- `Σ_{r≥m} A_r = Σ_{r≥m-1} B_r` for value lists of neighbouring cells at the common simple knot (`ShiftCont`) -/
theorem sumFrom_shiftCont (A B : List K) (p : ℕ) (h : ShiftCont A B p) (hA : A.length = p + 1) (hB : B.length = p + 1)
    (m : ℕ) : sumFrom A m = sumFrom B (m - 1) := by
  obtain ⟨h1, h2, h3⟩ := h
  rw [sumFrom_eq_sum_Ico, sumFrom_eq_sum_Ico, hA, hB]
  have hshift : ∀ k, ∑ r ∈ Ico (k + 1) (p + 1), A.getD r 0 = ∑ r ∈ Ico k (p + 1), B.getD r 0 := by
    intro k
    rw [← Finset.sum_Ico_add' (fun r => A.getD r 0) k p 1]
    by_cases hk : k ≤ p
    · rw [Finset.sum_Ico_succ_top hk, h3, add_zero]
      apply sum_congr rfl
      intro r hr
      exact h1 r (mem_Ico.mp hr).2
    · rw [Finset.Ico_eq_empty (by omega), Finset.Ico_eq_empty (by omega), sum_empty, sum_empty]
  cases m with
  | zero =>
    rw [Nat.zero_sub, Finset.sum_eq_sum_Ico_succ_bot (by omega), h2, zero_add]
    exact hshift 0
  | succ k => exact hshift k

/-! ### the padded knot vector `[t_0, *t, t_{nk-1}]` -/

theorem extKnots_eq_min (t : ℕ → K) (nk i : ℕ) : extKnots t nk i = t (min (i - 1) (nk - 1)) := by
  unfold extKnots
  split_ifs with h1 h2
  · subst h1; simp
  · congr 1; omega
  · congr 1; omega

theorem extKnots_succ (t : ℕ → K) (nk j : ℕ) (hj : j < nk) : extKnots t nk (j + 1) = t j := by
  rw [extKnots_eq_min]; congr 1; omega

theorem extKnots_mono (t : ℕ → K) (ht : Monotone t) (nk : ℕ) : Monotone (extKnots t nk) := by
  intro a b hab
  rw [extKnots_eq_min, extKnots_eq_min]
  apply ht
  omega

/-- on the padded knots the A2.2 triangle of cell `s+1` is the triangle of the original knots in cell `s`, as long as it only reads
    original knots -/
theorem basisFuns_extKnots (t : ℕ → K) (nk q s : ℕ) (hq : q ≤ s + 1) (hs : s + 1 + q ≤ nk) (x : K) :
    basisFuns (extKnots t nk) q x (s + 1) = basisFuns t q x s := by
  unfold basisFuns
  apply BSpline.levels_congr
  · intro k hk
    simp only [leftOf]
    have : s + 1 - k = (s - k) + 1 := by omega
    rw [this, extKnots_succ t nk _ (by omega)]
  · intro k hk
    simp only [rightOf]
    have : s + 1 + 1 + k = (s + 1 + k) + 1 := by omega
    rw [this, extKnots_succ t nk _ (by omega)]

/-! ### de Boor's antiderivative on one cell -/

/-- **the degree-raised tail is an antiderivative of the basis function** on every cell `s` of the domain:
    `d/dx [ (t_{i+d+1}-t_i)/(d+1) · Σ_{j ≥ i+1} N^{ext}_{j,d+1} ] = N_{i,d}` as polynomials on the cell -/
theorem cell_antiderivative (t : ℕ → K) (ht : Monotone t) (nk d i s : ℕ) (hds : d ≤ s) (hs : s + d + 2 ≤ nk)
    (hcell : t s < t (s + 1)) (hi : i + d + 2 ≤ nk) (hΔ : t (i + d + 1) - t i ≠ 0) :
    derivative (C ((t (i + d + 1) - t i) * (1 / ((d : K) + 1))) * tailPoly (extKnots t nk) (s + 1) (d + 1) (i + d + 1 - s))
      = coxPoly t s d i := by
  have hd1 : ((d : K) + 1) ≠ 0 := Nat.cast_add_one_ne_zero d
  apply eq_of_infinite_eval_eq
  apply Set.Infinite.mono _ (Set.Ico_infinite hcell)
  intro x hx
  obtain ⟨hx1, hx2⟩ := hx
  simp only [Set.mem_ofPred_eq]
  rw [coxPoly_eval_cell t ht s x hx1 hx2, derivative_C_mul, eval_mul, eval_C,
    tailPoly_derivative_eval (extKnots t nk) (extKnots_mono t ht nk) (s + 1) (d + 1) _
      (by rw [extKnots_succ t nk s (by omega), extKnots_succ t nk (s + 1) (by omega)]; exact hcell)]
  by_cases hm0 : i + d + 1 - s = 0
  · rw [if_pos hm0, mul_zero]
    symm
    apply N_support t ht
    right
    exact le_trans (ht (by omega)) hx1
  · rw [if_neg hm0]
    by_cases hm1 : i + d + 1 - s ≤ d + 1
    · rw [if_pos hm1]
      simp only [Nat.add_sub_cancel, derSaved]
      rw [basisFuns_extKnots t nk d s (by omega) (by omega)]
      have e1 : s + 1 + (i + d + 1 - s - 1) + 1 = (i + d + 1) + 1 := by omega
      have e2 : i + d + 1 + 1 - (d + 1) = i + 1 := by omega
      rw [e1, e2, extKnots_succ t nk _ (by omega), extKnots_succ t nk _ (by omega)]
      have hN := levels_eq_N t ht s x hx1 hx2 d hds (i + d + 1 - s - 1) (by omega)
      have e3 : s - d + (i + d + 1 - s - 1) = i := by omega
      rw [e3] at hN
      unfold basisFuns
      rw [hN]
      push_cast
      field_simp
    · rw [if_neg hm1, mul_zero]
      symm
      apply N_support t ht
      left
      exact lt_of_lt_of_le hx2 (ht (by omega))

/-- increments of *any* formal antiderivative of the cell polynomial of `N_{i,d}` on the cell `s`, in terms of the degree-raised
    partial sums `np.sum(values[min_idx:])` that `_build_integrals` forms -/
theorem cell_increment (t : ℕ → K) (ht : Monotone t) (nk d i s : ℕ) (hds : d ≤ s) (hs : s + d + 2 ≤ nk)
    (hcell : t s < t (s + 1)) (hi : i + d + 2 ≤ nk) (hΔ : t (i + d + 1) - t i ≠ 0)
    (F : K[X]) (hF : derivative F = coxPoly t s d i) (a b : K) :
    F.eval b - F.eval a = (t (i + d + 1) - t i) * (1 / ((d : K) + 1)) *
      (sumFrom (basisFuns (extKnots t nk) (d + 1) b (s + 1)) (i + d + 1 - s)
        - sumFrom (basisFuns (extKnots t nk) (d + 1) a (s + 1)) (i + d + 1 - s)) := by
  have hP := cell_antiderivative t ht nk d i s hds hs hcell hi hΔ
  set P := C ((t (i + d + 1) - t i) * (1 / ((d : K) + 1))) * tailPoly (extKnots t nk) (s + 1) (d + 1) (i + d + 1 - s) with hPdef
  have h0 : derivative (F - P) = 0 := by rw [derivative_sub, hF, hP, sub_self]
  have hc := eq_C_of_derivative_eq_zero h0
  have hFP : F = P + C ((F - P).coeff 0) := by rw [← hc]; ring
  rw [hFP]
  simp only [eval_add, eval_C, hPdef, eval_mul, tailPoly_eval]
  ring

/-! ### gluing the cells -/

/-- `Σ_{a ≤ s ≤ n} (R_s − L_s) = R_n − L_a` when the right value of each cell is the left value of the next -/
theorem sum_Ico_glue (L R : ℕ → K) (a n : ℕ) (han : a ≤ n) (hglue : ∀ s, a ≤ s → s < n → R s = L (s + 1)) :
    ∑ s ∈ Ico a (n + 1), (R s - L s) = R n - L a := by
  induction n, han using Nat.le_induction with
  | base => simp
  | succ n han ih =>
    rw [Finset.sum_Ico_succ_top (by omega), ih (fun s h1 h2 => hglue s h1 (by omega)), hglue n han (by omega)]
    ring

/-- the quantity `np.sum(values[min_idx:])` for basis function `i`, evaluated at `x` with the cell `s` (padded cell `s+1`) -/
def tailVal (t : ℕ → K) (nk d i s : ℕ) (x : K) : K :=
  sumFrom (basisFuns (extKnots t nk) (d + 1) x (s + 1)) (i + d + 1 - s)

/-- continuity of the degree-raised tail across the simple knot `t_{s+1}` -/
theorem tailVal_continuous (t : ℕ → K) (ht : Monotone t) (nk d i s : ℕ) (hds : d ≤ s) (hs : s + d + 3 ≤ nk)
    (h1 : t s < t (s + 1)) (h2 : t (s + 1) < t (s + 2)) :
    tailVal t nk d i s (t (s + 1)) = tailVal t nk d i (s + 1) (t (s + 1)) := by
  have hc := basis_continuous_at_knot (extKnots t nk) (extKnots_mono t ht nk) (s + 1) (d + 1) (by omega) (by omega)
    (by rw [extKnots_succ t nk s (by omega), extKnots_succ t nk (s + 1) (by omega)]; exact h1)
    (by rw [extKnots_succ t nk (s + 1) (by omega), extKnots_succ t nk (s + 1 + 1) (by omega)]; exact h2)
  rw [extKnots_succ t nk (s + 1) (by omega)] at hc
  unfold tailVal
  rw [sumFrom_shiftCont _ _ (d + 1) hc (BSpline.basisFuns_length _ _ _ _) (BSpline.basisFuns_length _ _ _ _)]
  congr 1

/-- sum over the cells `d ≤ s ≤ last` of the increments of antiderivatives of the cell polynomials of `N_{i,d}` -/
theorem cells_sum (t : ℕ → K) (ht : Monotone t) (nk d i last : ℕ) (hlast : d ≤ last) (hnk : last + d + 2 ≤ nk)
    (hcell : ∀ s, d ≤ s → s ≤ last → t s < t (s + 1)) (hi : i + d + 2 ≤ nk) (hΔ : t (i + d + 1) - t i ≠ 0)
    (F : ℕ → K[X]) (hF : ∀ s, derivative (F s) = coxPoly t s d i) :
    ∑ s ∈ Ico d (last + 1), ((F s).eval (t (s + 1)) - (F s).eval (t s)) =
      (t (i + d + 1) - t i) * (1 / ((d : K) + 1)) * (tailVal t nk d i last (t (last + 1)) - tailVal t nk d i d (t d)) := by
  have hcellinc : ∀ s ∈ Ico d (last + 1), ((F s).eval (t (s + 1)) - (F s).eval (t s)) =
      (t (i + d + 1) - t i) * (1 / ((d : K) + 1)) * tailVal t nk d i s (t (s + 1))
        - (t (i + d + 1) - t i) * (1 / ((d : K) + 1)) * tailVal t nk d i s (t s) := by
    intro s hs
    obtain ⟨hs1, hs2⟩ := mem_Ico.mp hs
    rw [cell_increment t ht nk d i s hs1 (by omega) (hcell s hs1 (by omega)) hi hΔ (F s) (hF s)]
    unfold tailVal
    ring
  rw [sum_congr rfl hcellinc,
    sum_Ico_glue (fun s => (t (i + d + 1) - t i) * (1 / ((d : K) + 1)) * tailVal t nk d i s (t s))
      (fun s => (t (i + d + 1) - t i) * (1 / ((d : K) + 1)) * tailVal t nk d i s (t (s + 1))) d last hlast]
  · ring
  · intro s hs1 hs2
    show _ * tailVal t nk d i s (t (s + 1)) = _ * tailVal t nk d i (s + 1) (t (s + 1))
    rw [tailVal_continuous t ht nk d i s hs1 (by omega) (hcell s hs1 (by omega)) (hcell (s + 1) (by omega) (by omega))]

/-! ### the two span searches of `_build_integrals` -/

theorem extKnots_dom (t : ℕ → K) (ht : Monotone t) (nk d : ℕ) (hnk : 2 * d + 2 ≤ nk) (h0 : t d < t (d + 1)) :
    extKnots t nk (d + 1) < extKnots t nk (nk + 2 - 1 - (d + 1)) := by
  have e : nk + 2 - 1 - (d + 1) = (nk - d - 1) + 1 := by omega
  rw [e, extKnots_succ t nk d (by omega), extKnots_succ t nk _ (by omega)]
  exact lt_of_lt_of_le h0 (ht (by omega))

/-- the tail is empty when `min_idx` is past the end: `np.sum(values[d+2:]) = 0` -/
theorem sumFrom_of_length_le (l : List K) (k : ℕ) (h : l.length ≤ k) : sumFrom l k = 0 := by
  rw [sumFrom_eq_sum_Ico, Finset.Ico_eq_empty (by omega), sum_empty]

theorem sumFrom_zero (l : List K) : sumFrom l 0 = l.sum := by simp [sumFrom]

/-- **lower end.** The partial sum at `lbound = max(xmin, t_i)` is the value of the tail at `xmin` (computed in the first cell):
    for `t_i ≤ xmin` the search returns the first cell; for an interior simple knot `t_i` both are zero -/
theorem partialSum_lower (t : ℕ → K) (ht : Monotone t) (nk d i : ℕ) (hnk : 2 * d + 2 ≤ nk)
    (hcell : ∀ s, d ≤ s → s + d + 2 ≤ nk → t s < t (s + 1)) (hi : i + d + 2 ≤ nk) :
    partialSum (extKnots t nk) (nk + 2) d i (max (t d) (t i)) = some (tailVal t nk d i d (t d)) := by
  have hkm := extKnots_mono t ht nk
  have hdom := extKnots_dom t ht nk d hnk (hcell d (le_refl _) (by omega))
  by_cases h : t i ≤ t d
  · rw [max_eq_left h]
    unfold partialSum findSpan
    simp only
    rw [if_pos (by rw [extKnots_succ t nk d (by omega)])]
    simp only [Option.map_some, tailVal]
    congr 2
    omega
  · have h' : t d < t i := not_le.mp h
    rw [max_eq_right (le_of_lt h')]
    have hdi : d < i := by
      by_contra hc
      exact absurd (ht (not_lt.mp hc)) (not_le.mpr h')
    have hxmax : t i < t (nk - d - 1) := lt_of_lt_of_le (hcell i (by omega) hi) (ht (by omega))
    have hspan : findSpan (extKnots t nk) (nk + 2) (d + 1) (t i) = some (i + 1) := by
      apply C07.findSpan_unique (extKnots t nk) hkm (nk + 2) (d + 1) (t i) hdom
      · rw [extKnots_succ t nk d (by omega)]; exact h'
      · have e : nk + 2 - 1 - (d + 1) = (nk - d - 1) + 1 := by omega
        rw [e, extKnots_succ t nk _ (by omega)]; exact hxmax
      · rw [extKnots_succ t nk i (by omega)]
      · rw [extKnots_succ t nk (i + 1) (by omega)]; exact hcell i (by omega) hi
    unfold partialSum
    rw [hspan]
    simp only [Option.map_some, tailVal]
    congr 1
    rw [sumFrom_of_length_le _ (i + d + 1 - d) (by rw [BSpline.basisFuns_length]; omega)]
    have e : i + 1 - (i + 1 - (d + 1)) = d + 1 := by omega
    rw [e, sumFrom_eq_sum_Ico, BSpline.basisFuns_length]
    have hc := basis_continuous_at_knot (extKnots t nk) hkm i (d + 1) (by omega) (by omega)
      (by
        have e1 : i = (i - 1) + 1 := by omega
        rw [extKnots_succ t nk i (by omega)]
        conv_lhs => rw [e1]
        rw [extKnots_succ t nk (i - 1) (by omega)]
        have := hcell (i - 1) (by omega) (by omega)
        rwa [← e1] at this)
      (by rw [extKnots_succ t nk i (by omega), extKnots_succ t nk (i + 1) (by omega)]; exact hcell i (by omega) hi)
    rw [extKnots_succ t nk i (by omega)] at hc
    rw [Finset.sum_Ico_succ_top (by omega), Finset.Ico_self, sum_empty, zero_add]
    exact hc.2.2

/-- **upper end.** The partial sum at `ubound = min(xmax, t_{i+d+1})` is the value of the tail at `xmax` (computed in the last cell,
    left limit): for `t_{i+d+1} ≥ xmax` the search returns the last cell; for an interior simple knot both are one -/
theorem partialSum_upper (t : ℕ → K) (ht : Monotone t) (nk d i : ℕ) (hnk : 2 * d + 2 ≤ nk)
    (hcell : ∀ s, d ≤ s → s + d + 2 ≤ nk → t s < t (s + 1)) (hi : i + d + 2 ≤ nk) :
    partialSum (extKnots t nk) (nk + 2) d i (min (t (nk - d - 1)) (t (i + d + 1)))
      = some (tailVal t nk d i (nk - d - 2) (t (nk - d - 1))) := by
  have hkm := extKnots_mono t ht nk
  have h0 := hcell d (le_refl _) (by omega)
  have hdom := extKnots_dom t ht nk d hnk h0
  have ehigh : nk + 2 - 1 - (d + 1) = (nk - d - 1) + 1 := by omega
  have hlastcell : t (nk - d - 2) < t (nk - d - 2 + 1) := hcell (nk - d - 2) (by omega) (by omega)
  by_cases h : t (nk - d - 1) ≤ t (i + d + 1)
  · rw [min_eq_left h]
    unfold partialSum findSpan
    simp only
    rw [if_neg (by rw [extKnots_succ t nk d (by omega)]; exact not_le.mpr (lt_of_lt_of_le h0 (ht (by omega)))),
      if_pos (by rw [ehigh, extKnots_succ t nk _ (by omega)])]
    simp only [Option.map_some, tailVal]
    have e1 : nk + 2 - 1 - (d + 1) - 1 = nk - d - 2 + 1 := by omega
    rw [e1]
    congr 2
    omega
  · have h' : t (i + d + 1) < t (nk - d - 1) := not_le.mp h
    rw [min_eq_right (le_of_lt h')]
    have hlt : i + d + 1 < nk - d - 1 := by
      by_contra hc
      exact absurd (ht (not_lt.mp hc)) (not_le.mpr h')
    have hcl := hcell (i + d + 1) (by omega) (by omega)
    have hspan : findSpan (extKnots t nk) (nk + 2) (d + 1) (t (i + d + 1)) = some (i + d + 1 + 1) := by
      apply C07.findSpan_unique (extKnots t nk) hkm (nk + 2) (d + 1) _ hdom
      · rw [extKnots_succ t nk d (by omega)]; exact lt_of_lt_of_le h0 (ht (by omega))
      · rw [ehigh, extKnots_succ t nk _ (by omega)]; exact h'
      · rw [extKnots_succ t nk _ (by omega)]
      · rw [extKnots_succ t nk (i + d + 1 + 1) (by omega)]; exact hcl
    unfold partialSum
    rw [hspan]
    simp only [Option.map_some, tailVal]
    congr 1
    have e1 : i + 1 - (i + d + 1 + 1 - (d + 1)) = 0 := by omega
    have e2 : i + d + 1 - (nk - d - 2) = 0 := by omega
    rw [e1, e2, sumFrom_zero, sumFrom_zero,
      Interp.basisFuns_sum_one (extKnots t nk) hkm (d + 1) _ _
        (by rw [extKnots_succ t nk _ (by omega), extKnots_succ t nk (i + d + 1 + 1) (by omega)]; exact hcl),
      Interp.basisFuns_sum_one (extKnots t nk) hkm (d + 1) _ _
        (by rw [extKnots_succ t nk _ (by omega), extKnots_succ t nk (nk - d - 2 + 1) (by omega)]; exact hlastcell)]

/-! ### the stored value is the integral -/

theorem knot_span_pos (t : ℕ → K) (ht : Monotone t) (nk d i : ℕ)
    (hcell : ∀ s, d ≤ s → s + d + 2 ≤ nk → t s < t (s + 1)) (hnk : 2 * d + 2 ≤ nk) (hi : i + d + 2 ≤ nk) :
    t i < t (i + d + 1) := by
  rcases Nat.lt_or_ge d i with h | h
  · exact lt_of_lt_of_le (hcell i (by omega) hi) (ht (by omega))
  · exact lt_of_le_of_lt (ht h) (lt_of_lt_of_le (hcell d (le_refl _) (by omega)) (ht (by omega)))

/-- **integrals_antiderivative** (general branch of `_build_integrals`).  For every admissible space with sorted knots whose cells
    inside the domain are non-degenerate (the breakpoints are strictly increasing: *simple interior knots*; the `degree` knots
    before and after the domain are arbitrary sorted values — clamped or periodic as `make_knots` builds them, or anything else),
    the value stored for basis function `i < nbasis` equals the sum over the cells of the domain of the increments of any
    formal antiderivatives of the cell polynomials of `N_{i,degree}`. -/
theorem integralGeneral_eq_cells (S : Space K) (hadm : S.Admissible) (ht : Monotone S.t)
    (hcell : ∀ s, S.degree ≤ s → s + S.degree + 2 ≤ S.nk → S.t s < S.t (s + 1))
    (i : ℕ) (hi : i < S.nbasis) (v : K) (hv : integralGeneral S i = some v)
    (F : ℕ → K[X]) (hF : ∀ s, derivative (F s) = coxPoly S.t s S.degree i) :
    v = ∑ s ∈ Ico S.degree (S.degree + S.ncells), ((F s).eval (S.t (s + 1)) - (F s).eval (S.t s)) := by
  obtain ⟨hd, hnk, _⟩ := hadm
  have hi' : i + S.degree + 2 ≤ S.nk := by
    have : S.nbasis ≤ S.ncells + S.degree := by unfold Space.nbasis; split_ifs <;> omega
    unfold Space.ncells at this
    omega
  have hpos := knot_span_pos S.t ht S.nk S.degree i hcell hnk hi'
  have e1 : extKnots S.t S.nk (i + 1) = S.t i := extKnots_succ S.t S.nk i (by omega)
  have e2 : extKnots S.t S.nk (S.degree + 2 + i) = S.t (i + S.degree + 1) := by
    have : S.degree + 2 + i = (i + S.degree + 1) + 1 := by omega
    rw [this, extKnots_succ S.t S.nk _ (by omega)]
  unfold integralGeneral at hv
  simp only [Space.xmin, Space.xmax, e1, e2] at hv
  have e3 : S.nk - S.degree - 1 = S.nk - S.degree - 1 := rfl
  rw [partialSum_lower S.t ht S.nk S.degree i hnk hcell hi'] at hv
  have hup := partialSum_upper S.t ht S.nk S.degree i hnk hcell hi'
  rw [hup] at hv
  simp only [Option.some.injEq] at hv
  have hlast : S.degree + S.ncells = (S.nk - S.degree - 2) + 1 := by unfold Space.ncells; omega
  rw [hlast, cells_sum S.t ht S.nk S.degree i (S.nk - S.degree - 2) (by omega) (by omega)
    (fun s h1 h2 => hcell s h1 (by omega)) hi' (ne_of_gt (by linarith)) F hF, ← hv]
  have : S.nk - S.degree - 2 + 1 = S.nk - S.degree - 1 := by omega
  rw [this]

/-- the general branch of `_build_integrals` returns a value (both span searches succeed) and the value is
    `(t_{i+d+1}-t_i)/(d+1) · (tail(xmax) − tail(xmin))` -/
theorem integralGeneral_eq_tailVal (S : Space K) (hadm : S.Admissible) (ht : Monotone S.t)
    (hcell : ∀ s, S.degree ≤ s → s + S.degree + 2 ≤ S.nk → S.t s < S.t (s + 1)) (i : ℕ) (hi : i + S.degree + 2 ≤ S.nk) :
    integralGeneral S i = some ((S.t (i + S.degree + 1) - S.t i) * (1 / ((S.degree : K) + 1)) *
      (tailVal S.t S.nk S.degree i (S.nk - S.degree - 2) (S.t (S.nk - S.degree - 1))
        - tailVal S.t S.nk S.degree i S.degree (S.t S.degree))) := by
  obtain ⟨hd, hnk, _⟩ := hadm
  have e1 : extKnots S.t S.nk (i + 1) = S.t i := extKnots_succ S.t S.nk i (by omega)
  have e2 : extKnots S.t S.nk (S.degree + 2 + i) = S.t (i + S.degree + 1) := by
    have : S.degree + 2 + i = (i + S.degree + 1) + 1 := by omega
    rw [this, extKnots_succ S.t S.nk _ (by omega)]
  unfold integralGeneral
  simp only [Space.xmin, Space.xmax, e1, e2]
  rw [partialSum_lower S.t ht S.nk S.degree i hnk hcell hi, partialSum_upper S.t ht S.nk S.degree i hnk hcell hi]

/-- the last active basis function vanishes at the left end of its cell when that knot is simple -/
theorem last_value_zero_at_left_knot (τ : ℕ → K) (hτ : Monotone τ) (s p : ℕ) (hp1 : 1 ≤ p) (hps : p ≤ s + 1)
    (h1 : τ s < τ (s + 1)) (h2 : τ (s + 1) < τ (s + 2)) : (basisFuns τ p (τ (s + 1)) (s + 1)).getD p 0 = 0 := by
  show (levels _ _ p).getD p 0 = 0
  rw [levels_eq_N τ hτ (s + 1) (τ (s + 1)) (le_refl _) h2 p hps p (le_refl _),
    N_eq_Nleft_at_simple_knot τ hτ s h1 h2 p hp1]
  apply Nleft_support τ hτ
  left
  have : s + 1 - p + p = s + 1 := by omega
  rw [this]

/-- the tail vanishes at `xmin` for a basis function that starts at or after `xmin` (simple knot at `xmin`) -/
theorem tailVal_first_eq_zero (t : ℕ → K) (ht : Monotone t) (nk d i : ℕ) (hd : 0 < d) (hnk : 2 * d + 2 ≤ nk) (hdi : d ≤ i)
    (h1 : t (d - 1) < t d) (h2 : t d < t (d + 1)) : tailVal t nk d i d (t d) = 0 := by
  unfold tailVal
  rcases Nat.lt_or_ge d i with h | h
  · exact sumFrom_of_length_le _ _ (by rw [BSpline.basisFuns_length]; omega)
  · have hid : i = d := by omega
    subst hid
    have e : i + i + 1 - i = i + 1 := by omega
    rw [e, sumFrom_eq_sum_Ico, BSpline.basisFuns_length, Finset.sum_Ico_succ_top (by omega), Finset.Ico_self, sum_empty,
      zero_add]
    have hc := last_value_zero_at_left_knot (extKnots t nk) (extKnots_mono t ht nk) i (i + 1) (by omega) (by omega)
      (by
        have e1 : i = (i - 1) + 1 := by omega
        rw [extKnots_succ t nk i (by omega)]
        conv_lhs => rw [e1]
        rw [extKnots_succ t nk (i - 1) (by omega)]
        exact h1)
      (by rw [extKnots_succ t nk i (by omega), extKnots_succ t nk (i + 1) (by omega)]; exact h2)
    rw [extKnots_succ t nk i (by omega)] at hc
    exact hc

/-- the tail is one at `xmax = t_{last+1}` for a basis function that ends at or before `xmax` (simple knot at `xmax`) -/
theorem tailVal_last_eq_one (t : ℕ → K) (ht : Monotone t) (nk d i last : ℕ) (hlast : last + d + 2 ≤ nk) (hdl : d ≤ last)
    (hi : i + d ≤ last) (h1 : t last < t (last + 1)) (h2 : t (last + 1) < t (last + 2)) (hnk : last + 3 ≤ nk) :
    tailVal t nk d i last (t (last + 1)) = 1 := by
  have hkm := extKnots_mono t ht nk
  have hk1 : extKnots t nk (last + 1) < extKnots t nk (last + 1 + 1) := by
    rw [extKnots_succ t nk _ (by omega), extKnots_succ t nk (last + 1) (by omega)]; exact h1
  have hsum : (basisFuns (extKnots t nk) (d + 1) (t (last + 1)) (last + 1)).sum = 1 :=
    Interp.basisFuns_sum_one (extKnots t nk) hkm (d + 1) _ _ hk1
  unfold tailVal
  rcases Nat.lt_or_ge (i + d) last with h | h
  · have e : i + d + 1 - last = 0 := by omega
    rw [e, sumFrom_zero, hsum]
  · have e : i + d + 1 - last = 1 := by omega
    rw [e, ← hsum, ← sumFrom_zero, sumFrom_eq_sum_Ico, sumFrom_eq_sum_Ico, BSpline.basisFuns_length,
      Finset.sum_eq_sum_Ico_succ_bot (by omega : 0 < d + 1 + 1)]
    have hc := basis_continuous_at_knot (extKnots t nk) hkm (last + 1) (d + 1) (by omega) (by omega) hk1
      (by rw [extKnots_succ t nk (last + 1) (by omega), extKnots_succ t nk (last + 1 + 1) (by omega)]; exact h2)
    rw [extKnots_succ t nk (last + 1) (by omega)] at hc
    rw [hc.2.1, zero_add]

/-- a basis function whose support lies inside the domain (simple knots at both ends of the domain) gets the full integral -/
theorem integralGeneral_interior (S : Space K) (hadm : S.Admissible) (ht : Monotone S.t)
    (hcell : ∀ s, S.degree ≤ s → s + S.degree + 2 ≤ S.nk → S.t s < S.t (s + 1))
    (i : ℕ) (hdi : S.degree ≤ i) (hi : i + 2 * S.degree + 2 ≤ S.nk)
    (hL : S.t (S.degree - 1) < S.t S.degree) (hR : S.t (S.nk - S.degree - 1) < S.t (S.nk - S.degree)) :
    integralGeneral S i = some ((S.t (i + S.degree + 1) - S.t i) * (1 / ((S.degree : K) + 1))) := by
  obtain ⟨hd, hnk, hper⟩ := hadm
  rw [integralGeneral_eq_tailVal S ⟨hd, hnk, hper⟩ ht hcell i (by omega)]
  have e1 : S.nk - S.degree - 1 = (S.nk - S.degree - 2) + 1 := by omega
  have hR' : S.t (S.nk - S.degree - 2 + 1) < S.t (S.nk - S.degree - 2 + 2) := by
    have e2 : S.nk - S.degree - 2 + 2 = S.nk - S.degree := by omega
    rw [← e1, e2]; exact hR
  rw [tailVal_first_eq_zero S.t ht S.nk S.degree i hd hnk hdi hL (hcell _ (le_refl _) (by omega)), e1,
    tailVal_last_eq_one S.t ht S.nk S.degree i (S.nk - S.degree - 2) (by omega) (by omega) (by omega)
      (hcell _ (by omega) (by omega)) hR' (by omega)]
  congr 1
  ring

/-! ### formal antiderivatives exist (characteristic zero) -/

/-- term-wise antiderivative `Σ a_k X^{k+1}/(k+1)` -/
noncomputable def antideriv (P : K[X]) : K[X] := ∑ k ∈ P.support, C (P.coeff k / ((k : K) + 1)) * X ^ (k + 1)

theorem derivative_antideriv (P : K[X]) : derivative (antideriv P) = P := by
  unfold antideriv
  rw [derivative_sum]
  conv_rhs => rw [P.as_sum_support_C_mul_X_pow]
  apply sum_congr rfl
  intro k _
  rw [derivative_C_mul_X_pow, Nat.add_sub_cancel]
  congr 2
  have : ((k : K) + 1) ≠ 0 := Nat.cast_add_one_ne_zero k
  push_cast
  field_simp

/-! ### the periodic seam: the wrapped basis functions `B_{n+i}` -/

/-- the padded knots with one more *periodic* knot appended (`t_{2d+1} + L` at index `nk+1` instead of the pad `t_{nk-1}`) -/
def seamKnots (t : ℕ → K) (nk d : ℕ) (L : K) : ℕ → K := fun j => if j ≤ nk then extKnots t nk j else t (2 * d + 1) + L

theorem seamKnots_mono (t : ℕ → K) (ht : Monotone t) (nk d n : ℕ) (hnk : nk = n + 2 * d + 1) (L : K)
    (hper : ∀ j, j ≤ 2 * d → t (j + n) = t j + L) : Monotone (seamKnots t nk d L) := by
  intro a b hab
  unfold seamKnots
  by_cases hb : b ≤ nk
  · rw [if_pos (by omega), if_pos hb]; exact extKnots_mono t ht nk hab
  · rw [if_neg hb]
    split_ifs with ha
    · have h1 : extKnots t nk a ≤ extKnots t nk nk := extKnots_mono t ht nk ha
      have e : nk = (2 * d + n) + 1 := by omega
      have h2 : extKnots t nk nk = t (2 * d) + L := by
        have h4 := extKnots_succ t nk (2 * d + n) (by omega)
        rw [← e] at h4
        rw [h4, hper (2 * d) (le_refl _)]
      have h3 : t (2 * d) ≤ t (2 * d + 1) := ht (by omega)
      linarith
    · exact le_refl _

/-- **seam continuity**: for exactly periodic simple knots the degree-raised tail of the wrapped function `B_{n+i}` at `xmax` (last cell)
    equals the tail of `B_i` at `xmin` (first cell) -/
theorem tailVal_seam (t : ℕ → K) (ht : Monotone t) (nk d n i last : ℕ) (hnk : nk = n + 2 * d + 1) (hd : 0 < d) (hdn : d ≤ n)
    (hlast : last + 1 = n + d) (L : K) (hper : ∀ j, j ≤ 2 * d → t (j + n) = t j + L)
    (hst : ∀ j, j + 1 < nk → t j < t (j + 1)) :
    tailVal t nk d (n + i) last (t (last + 1)) = tailVal t nk d i d (t d) := by
  set τ := seamKnots t nk d L with hτ
  have hτmono := seamKnots_mono t ht nk d n hnk L hper
  have hτle : ∀ j, j ≤ nk → τ j = extKnots t nk j := fun j hj => by rw [hτ]; unfold seamKnots; rw [if_pos hj]
  have hτsucc : ∀ j, j < nk → τ (j + 1) = t j := fun j hj => by rw [hτle (j + 1) (by omega), extKnots_succ t nk j hj]
  have hxmax : t (last + 1) = t d + L := by rw [hlast, add_comm n d, hper d (by omega)]
  -- the values in the last cell, read from τ
  have hR : basisFuns (extKnots t nk) (d + 1) (t (last + 1)) (last + 1) = basisFuns τ (d + 1) (t (last + 1)) (last + 1) := by
    unfold basisFuns
    apply BSpline.levels_congr
    · intro k hk
      simp only [leftOf]
      rw [hτle _ (by omega)]
    · intro k hk
      simp only [rightOf]
      rw [hτle _ (by omega)]
  -- the values in the first cell at xmin are the values of τ in the cell after the last one at xmax
  have hLv : basisFuns (extKnots t nk) (d + 1) (t d) (d + 1) = basisFuns τ (d + 1) (t (last + 1)) (last + 1 + 1) := by
    unfold basisFuns
    apply BSpline.levels_congr
    · intro k hk
      simp only [leftOf]
      have e1 : d + 1 - k = (d - k) + 1 := by omega
      have e2 : last + 1 + 1 - k = (d - k + n) + 1 := by omega
      rw [e1, e2, extKnots_succ t nk _ (by omega), hτsucc _ (by omega), hper (d - k) (by omega), hxmax]
      ring
    · intro k hk
      simp only [rightOf]
      have e1 : d + 1 + 1 + k = (d + 1 + k) + 1 := by omega
      rw [e1, extKnots_succ t nk _ (by omega), hxmax]
      rcases Nat.lt_or_ge k d with hkd | hkd
      · have e2 : last + 1 + 1 + 1 + k = (d + 1 + k + n) + 1 := by omega
        rw [e2, hτsucc _ (by omega), hper (d + 1 + k) (by omega)]
        ring
      · have hk' : k = d := by omega
        have e2 : last + 1 + 1 + 1 + k = nk + 1 := by omega
        rw [e2, hτ]
        unfold seamKnots
        rw [if_neg (by omega)]
        have e3 : d + 1 + k = 2 * d + 1 := by omega
        rw [e3]
        ring
  have hc := basis_continuous_at_knot τ hτmono (last + 1) (d + 1) (by omega) (by omega)
    (by rw [hτsucc last (by omega), hτsucc (last + 1) (by omega)]; exact hst last (by omega))
    (by rw [hτsucc (last + 1) (by omega), hτsucc (last + 1 + 1) (by omega)]; exact hst (last + 1) (by omega))
  rw [hτsucc (last + 1) (by omega)] at hc
  unfold tailVal
  rw [hR, hLv, sumFrom_shiftCont _ _ (d + 1) hc (BSpline.basisFuns_length _ _ _ _) (BSpline.basisFuns_length _ _ _ _)]
  congr 1
  omega

end PygyroVerif.SplineIntegrals
