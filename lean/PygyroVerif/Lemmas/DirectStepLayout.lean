/-
Layout-level vocabulary for the bridge theorem of C01:

* explicit, decidable well-formedness of the data of a layout pair (`LayoutOK`, `PairOK`, `CoordsOK`);
* the local extent / global start of a *dimension* on a rank (`lenD`, `startD`), `shape` and `toGlobal` in that form;
* `HoldsBlock` / `HoldsWorld`: "this flat buffer holds the block of the global field `G` that layout `L` assigns to the
  rank with coordinates `c`";
* what `compatible` implies: every axis on which the two orderings disagree, except the swapped one, is undistributed.
-/
import PygyroVerif.Model.Handler
import PygyroVerif.Lemmas.Blocks
import PygyroVerif.Lemmas.DirectStepBase
import Mathlib.Tactic.ByContra
import Mathlib.Tactic.Set

namespace PygyroVerif.DS
open PygyroVerif PygyroVerif.Handler PygyroVerif.CopyBox

/-! ### well-formedness -/

/-- what the constructor of `Layout` is given: `ord` is a permutation of `0..ndims-1`, there is an extent for every
    dimension, at most `ndims` process axes, and every process count is ≥ 1 and ≤ the extent it splits -/
def LayoutOK (nprocs ord ext : List Nat) : Prop :=
  ord.Perm (List.range ord.length) ∧ ext.length = ord.length ∧ nprocs.length ≤ ord.length ∧
  ∀ i, i < nprocs.length → 1 ≤ nprocs.getD i 1 ∧ nprocs.getD i 1 ≤ ext.getD (ord.getD i 0) 0

instance (nprocs ord ext : List Nat) : Decidable (LayoutOK nprocs ord ext) := by
  unfold LayoutOK; infer_instance

/-- a pair of layouts of the same handler -/
def PairOK (nprocs oS oD ext : List Nat) : Prop :=
  LayoutOK nprocs oS ext ∧ LayoutOK nprocs oD ext ∧ oS.length = oD.length

instance (nprocs oS oD ext : List Nat) : Decidable (PairOK nprocs oS oD ext) := by
  unfold PairOK; infer_instance

/-- process coordinates of a rank: one per process axis, in range -/
def CoordsOK (nprocs c : List Nat) : Prop :=
  c.length = nprocs.length ∧ ∀ i, i < nprocs.length → c.getD i 0 < nprocs.getD i 1

instance (nprocs c : List Nat) : Decidable (CoordsOK nprocs c) := by
  unfold CoordsOK; infer_instance

/-- the poloidal → flux-surface pair of the 4-D simulation on a 2 × 3 process grid -/
example : PairOK [2, 3] [3, 2, 1, 0] [3, 0, 1, 2] [8, 6, 5, 7] ∧ CoordsOK [2, 3] [1, 2] := by decide

theorem LayoutOK.nodup {np ord ext : List Nat} (h : LayoutOK np ord ext) : ord.Nodup :=
  (h.1.nodup_iff).mpr List.nodup_range

theorem LayoutOK.mem_iff {np ord ext : List Nat} (h : LayoutOK np ord ext) (d : Nat) : d ∈ ord ↔ d < ord.length := by
  rw [h.1.mem_iff, List.mem_range]

theorem PairOK.perm {np oS oD ext : List Nat} (h : PairOK np oS oD ext) : oD.Perm oS := by
  have := h.2.1.1
  rw [← h.2.2] at this
  exact this.trans h.1.1.symm

/-! ### per-dimension extents and starts -/

theorem padTo_getD (l : List Nat) (n i : Nat) : (padTo l n 1).getD i 1 = l.getD i 1 := by
  unfold padTo
  simp only [List.getD_eq_getElem?_getD, List.getElem?_append, List.getElem?_replicate]
  by_cases h : i < l.length
  · simp [h]
  · have hn : l[i]? = none := List.getElem?_eq_none (by omega)
    simp only [h, if_false, hn, Option.getD_none]
    split <;> rfl

theorem procsAt_make (np ord ext : List Nat) (i : Nat) : (Layout.make np ord ext).procsAt i = np.getD i 1 := by
  unfold Layout.procsAt Layout.make
  exact padTo_getD np ord.length i

theorem ndims_make (np ord ext : List Nat) : (Layout.make np ord ext).ndims = ord.length := rfl
theorem ord_make (np ord ext : List Nat) : (Layout.make np ord ext).ord = ord := rfl

/-- local extent of dimension `d` on the rank with coordinates `c` -/
def lenD (L : Layout) (c : List Nat) (d : Nat) : Nat := L.endAt c (L.ord.idxOf d) - L.startAt c (L.ord.idxOf d)
/-- global index of the first locally stored element of dimension `d` -/
def startD (L : Layout) (c : List Nat) (d : Nat) : Nat := L.startAt c (L.ord.idxOf d)

theorem map_range_idxOf {β : Type} (lab : List Nat) (hnd : lab.Nodup) (f : Nat → β) :
    (List.range lab.length).map f = lab.map (fun d => f (lab.idxOf d)) := by
  apply List.ext_getElem (by simp)
  intro i h1 h2
  have hi : i < lab.length := by simpa using h2
  simp only [List.getElem_map, List.getElem_range, hnd.idxOf_getElem i hi]

theorem shape_eq_map (L : Layout) (hnd : L.ord.Nodup) (c : List Nat) : L.shape c = L.ord.map (lenD L c) := by
  unfold Layout.shape Layout.ndims
  rw [map_range_idxOf L.ord hnd]
  rfl

theorem toGlobal_map (L : Layout) (hmem : ∀ d, d < L.ndims → d ∈ L.ord) (c : List Nat) (u : Nat → Nat) :
    L.toGlobal c (L.ord.map u) = (List.range L.ndims).map (fun d => u d + startD L c d) := by
  unfold Layout.toGlobal
  apply List.map_congr_left
  intro d hd
  simp only [startD]
  rw [getD_map_idxOf 0 L.ord u d (hmem d (List.mem_range.mp hd))]

/-! ### the field held by a buffer -/

/-- the flat buffer `buf` holds, in C order of `L.shape c`, the values of the global field `G` (a function of the
    global multi-index, listed by dimension id) on the block that `L` assigns to the rank with coordinates `c` -/
def HoldsBlock {α : Type} (L : Layout) (c : List Nat) (G : List Nat → α) (buf : Array α) : Prop :=
  ∀ idx, InBox idx (L.shape c) → buf[Addr.ravel idx (L.shape c)]? = some (G (L.toGlobal c idx))

/-- every rank of the topology holds its block (`arrs[rank]` = the flat buffer of that rank) -/
def HoldsWorld {α : Type} (T : Topo) (L : Layout) (G : List Nat → α) (arrs : Array (Array α)) : Prop :=
  ∀ rank, rank < T.nRanks → HoldsBlock L (T.coords rank) G (arrs.getD rank #[])

/-- `HoldsBlock` with dimension-indexed multi-indices -/
theorem holdsBlock_iff {α : Type} (L : Layout) (hnd : L.ord.Nodup) (hmem : ∀ d, d < L.ndims → d ∈ L.ord)
    (c : List Nat) (G : List Nat → α) (buf : Array α) :
    HoldsBlock L c G buf ↔
      ∀ u : Nat → Nat, (∀ d ∈ L.ord, u d < lenD L c d) →
        buf[Addr.ravelD L.ord u (lenD L c)]? = some (G ((List.range L.ndims).map (fun d => u d + startD L c d))) := by
  unfold HoldsBlock
  rw [shape_eq_map L hnd c]
  constructor
  · intro h u hu
    have := h (L.ord.map u) ((inBox_map_iff _ _ _).mpr hu)
    rw [toGlobal_map L hmem] at this
    exact this
  · intro h idx hidx
    obtain ⟨u, hu⟩ : ∃ u : Nat → Nat, idx = L.ord.map u := ⟨_, inBox_eq_map L.ord hnd _ idx hidx⟩
    subst hu
    rw [toGlobal_map L hmem]
    exact h _ ((inBox_map_iff _ _ _).mp hidx)

/-! ### blocks -/

theorem blockLen_le_maxBlock (n p k : Nat) (hp : 0 < p) : blockStart n p (k+1) - blockStart n p k ≤ maxBlock n p := by
  unfold maxBlock
  split
  · have := blockStart_succ_le n p k hp
    generalize n / p = s at *
    omega
  · rename_i h
    have hb : n % p = 0 := by omega
    have h0 : blockStart n p (k+1) = n / p * (k+1) := by simp [blockStart, hb]
    have h1 : blockStart n p k = n / p * k := by simp [blockStart, hb]
    rw [h0, h1, Nat.mul_succ]; generalize n / p * k = a; generalize n / p = s; omega

theorem blockStart_one (n k : Nat) : blockStart n 1 k = n * k := by
  simp [blockStart, Nat.mod_one]

/-- even split: every block has length `n / p` and starts at `k · (n / p)` -/
theorem blockStart_even (n p k : Nat) (h : n % p = 0) : blockStart n p k = n / p * k := by
  simp [blockStart, h]

theorem maxBlock_even (n p : Nat) (h : n % p = 0) : maxBlock n p = n / p := by
  simp [maxBlock, h]

/-! ### layouts made by a handler -/

section Make
variable (np ord ext : List Nat)

theorem extAt_make (i : Nat) : (Layout.make np ord ext).extAt i = ext.getD (ord.getD i 0) 0 := rfl

theorem startAt_make (c : List Nat) (i : Nat) :
    (Layout.make np ord ext).startAt c i = blockStart (ext.getD (ord.getD i 0) 0) (np.getD i 1) (c.getD i 0) := by
  unfold Layout.startAt
  rw [procsAt_make, extAt_make]

theorem endAt_make (c : List Nat) (i : Nat) :
    (Layout.make np ord ext).endAt c i = blockStart (ext.getD (ord.getD i 0) 0) (np.getD i 1) (c.getD i 0 + 1) := by
  unfold Layout.endAt
  rw [procsAt_make, extAt_make]

theorem getD_idxOf (d : Nat) (hd : d ∈ ord) : ord.getD (ord.idxOf d) 0 = d := by
  have hlt : ord.idxOf d < ord.length := List.idxOf_lt_length_iff.mpr hd
  rw [getD_lt ord _ hlt 0, List.getElem_idxOf hlt]

theorem startD_make (c : List Nat) (d : Nat) (hd : d ∈ ord) :
    startD (Layout.make np ord ext) c d =
      blockStart (ext.getD d 0) (np.getD (ord.idxOf d) 1) (c.getD (ord.idxOf d) 0) := by
  unfold startD
  rw [ord_make, startAt_make, getD_idxOf ord d hd]

theorem lenD_make (c : List Nat) (d : Nat) (hd : d ∈ ord) :
    lenD (Layout.make np ord ext) c d =
      blockStart (ext.getD d 0) (np.getD (ord.idxOf d) 1) (c.getD (ord.idxOf d) 0 + 1)
        - blockStart (ext.getD d 0) (np.getD (ord.idxOf d) 1) (c.getD (ord.idxOf d) 0) := by
  unfold lenD
  rw [ord_make, startAt_make, endAt_make, getD_idxOf ord d hd]

end Make

/-! ### what `compatible` means -/

theorem mem_diffAxes (np oS oD : List Nat) (i : Nat) :
    i ∈ diffAxes np oS oD ↔ i < np.length ∧ np.getD i 1 > 1 ∧ oS.getD i 0 ≠ oD.getD i 0 := by
  unfold diffAxes
  simp only [List.mem_filter, List.mem_range, Bool.and_eq_true, decide_eq_true_eq]

/-- an axis that is not a differing distributed axis but holds different dimensions in the two layouts has a single process -/
theorem procs_one_of_not_diff (np oS oD : List Nat) (hpos : ∀ i, i < np.length → 1 ≤ np.getD i 1) (i : Nat)
    (hi : i ∉ diffAxes np oS oD) (hne : oS.getD i 0 ≠ oD.getD i 0) : np.getD i 1 = 1 := by
  by_cases hlt : i < np.length
  · have h1 := hpos i hlt
    have : ¬ np.getD i 1 > 1 := fun h => hi ((mem_diffAxes np oS oD i).mpr ⟨hlt, h, hne⟩)
    omega
  · rw [List.getD_eq_getElem?_getD, List.getElem?_eq_none (by omega)]
    rfl

theorem coord_zero_of_procs_one (np c : List Nat) (hc : CoordsOK np c) (i : Nat) (h1 : np.getD i 1 = 1) : c.getD i 0 = 0 := by
  by_cases hlt : i < np.length
  · have := hc.2 i hlt; omega
  · rw [List.getD_eq_getElem?_getD, List.getElem?_eq_none (by rw [hc.1]; omega)]
    rfl

/-- a dimension that sits on an axis with a single process is stored whole -/
theorem whole_of_procs_one (np ord ext c : List Nat) (hc : CoordsOK np c) (d : Nat) (hd : d ∈ ord)
    (h1 : np.getD (ord.idxOf d) 1 = 1) :
    lenD (Layout.make np ord ext) c d = ext.getD d 0 ∧ startD (Layout.make np ord ext) c d = 0 := by
  rw [lenD_make np ord ext c d hd, startD_make np ord ext c d hd, h1, coord_zero_of_procs_one np c hc _ h1]
  simp [blockStart_one]

/-- a dimension whose two positions are both outside the differing distributed axes has the same local extent and
    the same start in both layouts (on the same rank) -/
theorem same_of_not_diff (np oS oD ext c : List Nat) (hpos : ∀ i, i < np.length → 1 ≤ np.getD i 1) (hc : CoordsOK np c)
    (hndS : oS.Nodup) (hndD : oD.Nodup) (hlen : oS.length = oD.length) (d : Nat) (hdS : d ∈ oS) (hdD : d ∈ oD)
    (h1 : oS.idxOf d ∉ diffAxes np oS oD) (h2 : oD.idxOf d ∉ diffAxes np oS oD) :
    lenD (Layout.make np oS ext) c d = lenD (Layout.make np oD ext) c d ∧
    startD (Layout.make np oS ext) c d = startD (Layout.make np oD ext) c d := by
  by_cases he : oS.idxOf d = oD.idxOf d
  · rw [lenD_make np oS ext c d hdS, lenD_make np oD ext c d hdD, startD_make np oS ext c d hdS,
      startD_make np oD ext c d hdD, he]
    exact ⟨rfl, rfl⟩
  · have hltS : oS.idxOf d < oS.length := List.idxOf_lt_length_iff.mpr hdS
    have hltD : oD.idxOf d < oD.length := List.idxOf_lt_length_iff.mpr hdD
    -- at the source position the destination holds another dimension
    have hneS : oS.getD (oS.idxOf d) 0 ≠ oD.getD (oS.idxOf d) 0 := by
      rw [getD_idxOf oS d hdS]
      intro e
      have hlt : oS.idxOf d < oD.length := by omega
      rw [getD_lt oD _ hlt 0] at e
      have := hndD.idxOf_getElem _ hlt
      rw [← e] at this
      exact he this.symm
    have hneD : oS.getD (oD.idxOf d) 0 ≠ oD.getD (oD.idxOf d) 0 := by
      rw [getD_idxOf oD d hdD]
      intro e
      have hlt : oD.idxOf d < oS.length := by omega
      rw [getD_lt oS _ hlt 0] at e
      have := hndS.idxOf_getElem _ hlt
      rw [e] at this
      exact he this
    have pS := procs_one_of_not_diff np oS oD hpos _ h1 hneS
    have pD := procs_one_of_not_diff np oS oD hpos _ h2 hneD
    have wS := whole_of_procs_one np oS ext c hc d hdS pS
    have wD := whole_of_procs_one np oD ext c hc d hdD pD
    rw [wS.1, wS.2, wD.1, wD.2]
    exact ⟨rfl, rfl⟩

end PygyroVerif.DS
