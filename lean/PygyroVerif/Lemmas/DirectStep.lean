/-
Bridge theorem of C01, world level: the executable `Alltoall`, the communicating case of `directStepT`, the general
`directStepT_correct`, the Cartesian topology, and the route-following contract with role bounds.
-/
import PygyroVerif.Lemmas.DirectStepAssemble
import PygyroVerif.Lemmas.Route
import PygyroVerif.Lemmas.Buffers

namespace PygyroVerif.DS
open PygyroVerif PygyroVerif.Handler PygyroVerif.CopyBox

variable {α : Type}

/-! ### segments written by the Alltoall -/

/-- `rb[base : base+cs] = f[0 : cs]` -/
def segWrite (rb : Array α) (base : Nat) (f : Nat → α) (cs : Nat) : Array α :=
  (List.range cs).foldl (fun rb j => rb.setIfInBounds (base + j) (f j)) rb

theorem segWrite_size (rb : Array α) (base : Nat) (f : Nat → α) (cs : Nat) : (segWrite rb base f cs).size = rb.size := by
  unfold segWrite
  induction cs with
  | zero => rfl
  | succ n ih => rw [List.range_succ, List.foldl_append]; simp only [List.foldl_cons, List.foldl_nil, Array.size_setIfInBounds, ih]

theorem segWrite_get (rb : Array α) (base : Nat) (f : Nat → α) (cs k : Nat) :
    (segWrite rb base f cs)[k]? = if base ≤ k ∧ k < base + cs ∧ k < rb.size then some (f (k - base)) else rb[k]? := by
  induction cs with
  | zero =>
    have : ¬ (base ≤ k ∧ k < base + 0 ∧ k < rb.size) := by omega
    rw [if_neg this]; rfl
  | succ n ih =>
    have hs := segWrite_size rb base f n
    unfold segWrite at ih hs ⊢
    rw [List.range_succ, List.foldl_append]
    simp only [List.foldl_cons, List.foldl_nil, Array.getElem?_setIfInBounds, hs]
    by_cases hk : base + n = k
    · subst hk
      by_cases hb : base + n < rb.size
      · have h1 : base ≤ base + n ∧ base + n < base + (n + 1) ∧ base + n < rb.size := ⟨by omega, by omega, hb⟩
        rw [if_pos rfl, if_pos hb, if_pos h1]
        congr 2; omega
      · have h1 : ¬ (base ≤ base + n ∧ base + n < base + (n + 1) ∧ base + n < rb.size) := fun hh => hb hh.2.2
        rw [if_pos rfl, if_neg hb, if_neg h1, Array.getElem?_eq_none (by omega)]
    · rw [if_neg hk, ih]
      by_cases h1 : base ≤ k ∧ k < base + n ∧ k < rb.size
      · have h2 : base ≤ k ∧ k < base + (n + 1) ∧ k < rb.size := ⟨h1.1, by omega, h1.2.2⟩
        rw [if_pos h1, if_pos h2]
      · have h2 : ¬ (base ≤ k ∧ k < base + (n + 1) ∧ k < rb.size) := by
          intro hh; apply h1; exact ⟨hh.1, by omega, hh.2.2⟩
        rw [if_neg h1, if_neg h2]

variable [Inhabited α]

/-- the receive buffer of one rank after `Alltoall`: chunk `q` comes from chunk `me` of the send buffer `sb q` -/
def a2aRecv (p cs me : Nat) (sb : Nat → Array α) (rcv0 : Array α) : Array α :=
  (List.range p).foldl (fun rb q =>
    (List.range cs).foldl (fun rb j => rb.setIfInBounds (q * cs + j) ((sb q).getD (me * cs + j) default)) rb) rcv0

theorem a2aRecv_succ (p cs me : Nat) (sb : Nat → Array α) (rcv0 : Array α) :
    a2aRecv (p+1) cs me sb rcv0 = segWrite (a2aRecv p cs me sb rcv0) (p * cs) (fun j => (sb p).getD (me * cs + j) default) cs := by
  unfold a2aRecv segWrite
  rw [List.range_succ, List.foldl_append]
  rfl

theorem a2aRecv_size (p cs me : Nat) (sb : Nat → Array α) (rcv0 : Array α) : (a2aRecv p cs me sb rcv0).size = rcv0.size := by
  induction p with
  | zero => rfl
  | succ p ih => rw [a2aRecv_succ, segWrite_size, ih]

theorem a2aRecv_get (cs me : Nat) (sb : Nat → Array α) (rcv0 : Array α) :
    ∀ p, p * cs ≤ rcv0.size → ∀ q, q < p → ∀ j, j < cs →
      (a2aRecv p cs me sb rcv0)[q * cs + j]? = some ((sb q).getD (me * cs + j) default) := by
  intro p
  induction p with
  | zero => intro _ q hq; omega
  | succ p ih =>
    intro hfit q hq j hj
    have hpc : (p + 1) * cs = p * cs + cs := by rw [Nat.add_mul, Nat.one_mul]
    rw [a2aRecv_succ, segWrite_get, a2aRecv_size]
    by_cases hqp : q = p
    · subst hqp
      have h1 : q * cs ≤ q * cs + j ∧ q * cs + j < q * cs + cs ∧ q * cs + j < rcv0.size := ⟨by omega, by omega, by omega⟩
      rw [if_pos h1]
      congr 3
      omega
    · have hqlt : q < p := by omega
      have : (q + 1) * cs ≤ p * cs := Nat.mul_le_mul_right _ hqlt
      rw [Nat.add_mul, Nat.one_mul] at this
      have h1 : ¬ (p * cs ≤ q * cs + j ∧ q * cs + j < p * cs + cs ∧ q * cs + j < rcv0.size) := by omega
      rw [if_neg h1]
      exact ih (by omega) q hqlt j hj

/-- **stage 2, `comm.Alltoall(sendBuf, rcvBuf)`** on the sub-communicators of process axis `a0`, executable model on all
    ranks at once: if on every rank the exchanged size is `p · cs rank` and the receive buffer is long enough, nothing is
    raised, only the buffers of role `z` change, and chunk `q` of the receive buffer of a rank is chunk `me` (its own
    coordinate on the axis) of the send buffer of its partner `q`. -/
theorem alltoallAxis_spec (T : Topo) (p a0 : Nat) (sizeOf : Nat → Nat) (w : World α) (y z : Nat) (hp : 0 < p)
    (hz : z < w.size) (hzn : T.nRanks ≤ (w.getD z #[]).size) (cs : Nat → Nat)
    (hsize : ∀ rank, rank < T.nRanks → sizeOf rank = p * cs rank)
    (hrcv : ∀ rank, rank < T.nRanks → p * cs rank ≤ (World.get w z rank).size) :
    ∃ w', alltoallAxis T p a0 sizeOf w y z = .ok w' ∧ w'.size = w.size ∧
      (∀ role, role ≠ z → w'.getD role #[] = w.getD role #[]) ∧
      (w'.getD z #[]).size = (w.getD z #[]).size ∧
      (∀ rank, (World.get w' z rank).size = (World.get w z rank).size) ∧
      (∀ rank, rank < T.nRanks → ∀ q, q < p → ∀ j, j < cs rank →
        (World.get w' z rank)[q * cs rank + j]? =
          some ((World.get w y (T.partner rank a0 q)).getD ((T.coords rank).getD a0 0 * cs rank + j) default)) := by
  let out : Nat → Array α := fun rank =>
    a2aRecv p (cs rank) ((T.coords rank).getD a0 0) (fun q => World.get w y (T.partner rank a0 q)) (World.get w z rank)
  have hfold : alltoallAxis T p a0 sizeOf w y z = .ok (setAll T.nRanks z out w) := by
    unfold alltoallAxis
    apply foldRanks_ok z _ w out hz T.nRanks hzn
    intro acc rank hr _ _ hsame
    have hmod : sizeOf rank % p = 0 := by rw [hsize rank hr]; exact Nat.mul_mod_right _ _
    have hdiv : sizeOf rank / p = cs rank := by rw [hsize rank hr]; exact Nat.mul_div_cancel_left _ hp
    have hnlt : ¬ (World.get w z rank).size < sizeOf rank := by
      have := hrcv rank hr; rw [hsize rank hr]; omega
    simp only [hsame, hmod, hdiv, hnlt, ne_eq, not_true_eq_false, if_false]
    rfl
  obtain ⟨h1, h2, h3, h4⟩ := setAll_spec z out w hz T.nRanks hzn
  refine ⟨_, hfold, h1, h2, h3, ?_, ?_⟩
  · intro rank
    rw [h4 rank]
    split
    · exact a2aRecv_size _ _ _ _ _
    · rfl
  · intro rank hr q hq j hj
    rw [h4 rank, if_pos hr]
    exact a2aRecv_get (cs rank) _ _ _ p (hrcv rank hr) q hq j hj

/-! ### the communicating case on all ranks -/

omit [Inhabited α] in
theorem World.get_of_getD_eq (w w' : World α) (role : Nat) (h : w'.getD role #[] = w.getD role #[]) (rank : Nat) :
    World.get w' role rank = World.get w role rank := by
  rw [World.get_def, World.get_def, h]

/-- **communicating case of one direct change of layout** (`_transpose` / `_transpose_source_intact` with one differing
    distributed axis: `_extract_from_source`, `Alltoall`, `_rearrange_from_buffer`), executable model, all ranks at once.
    If role `x` holds the field `G` in the source layout on every rank, and the buffers of roles `y` (send / destination)
    and `z` (receive) can take the `p` padded blocks (and `y` the destination block), the step raises nothing, role `y`
    then holds `G` in the destination layout, roles other than `y`, `z` are unchanged, and no buffer changes length. -/
theorem directStepT_comm (T : Topo) (h : Handler) (iS iD x y z : Nat) (w : World α) (G : List Nat → α) (a0 : Nat)
    (H : Comm h.nprocs (h.orders.getD iS []) (h.orders.getD iD []) h.ext a0) (hT : TopoOK T h.nprocs)
    (hyx : y ≠ x) (hyz : y ≠ z) (hy : y < w.size) (hz : z < w.size)
    (hyn : T.nRanks ≤ (w.getD y #[]).size) (hzn : T.nRanks ≤ (w.getD z #[]).size)
    (hszy : ∀ rank, rank < T.nRanks →
      h.nprocs.getD a0 1 * packSize h.nprocs (h.orders.getD iS []) (h.orders.getD iD []) h.ext a0 (T.coords rank)
        ≤ (World.get w y rank).size ∧
      ((h.layoutAt iD).shape (T.coords rank)).prod ≤ (World.get w y rank).size)
    (hszz : ∀ rank, rank < T.nRanks →
      h.nprocs.getD a0 1 * packSize h.nprocs (h.orders.getD iS []) (h.orders.getD iD []) h.ext a0 (T.coords rank)
        ≤ (World.get w z rank).size)
    (hsrc : HoldsWorld T (h.layoutAt iS) G (w.getD x #[])) :
    ∃ w', directStepT true T h iS iD x y z w = .ok w' ∧
      HoldsWorld T (h.layoutAt iD) G (w'.getD y #[]) ∧
      (∀ r, r ≠ y → r ≠ z → w'.getD r #[] = w.getD r #[]) ∧
      w'.size = w.size ∧ (∀ role, (w'.getD role #[]).size = (w.getD role #[]).size) ∧
      (∀ role rank, (World.get w' role rank).size = (World.get w role rank).size) := by
  have hp0 : 0 < h.nprocs.getD a0 1 := by have := H.mem.2.1; omega
  have hLS : h.layoutAt iS = Layout.make h.nprocs (h.orders.getD iS []) h.ext := rfl
  have hLD : h.layoutAt iD = Layout.make h.nprocs (h.orders.getD iD []) h.ext := rfl
  have hax : swapAxes h.nprocs (h.layoutAt iS).ord (h.layoutAt iD).ord =
      swapAxes h.nprocs (h.orders.getD iS []) (h.orders.getD iD []) := rfl
  -- stage 1 on every rank
  have hst1 : ∀ rank, ∃ out, rank < T.nRanks →
      extractFromSource true (h.layoutAt iS) (h.layoutAt iD) (T.coords rank)
        (swapAxes h.nprocs (h.layoutAt iS).ord (h.layoutAt iD).ord) (World.get w x rank) (World.get w y rank) = .ok out ∧
      out.size = (World.get w y rank).size ∧
      ∀ j, j < h.nprocs.getD a0 1 → ∀ u : Nat → Nat,
        (∀ d ∈ h.orders.getD iS [], u d < Function.update (lenD (Layout.make h.nprocs (h.orders.getD iS []) h.ext) (T.coords rank))
            ((h.orders.getD iD []).getD a0 0)
            (blockLen (h.ext.getD ((h.orders.getD iD []).getD a0 0) 0) (h.nprocs.getD a0 1) j) d) →
        out[j * packSize h.nprocs (h.orders.getD iS []) (h.orders.getD iD []) h.ext a0 (T.coords rank) +
            Addr.ravelD (swapL (h.orders.getD iS []) 0 a0) u
              (packBlk h.nprocs (h.orders.getD iS []) (h.orders.getD iD []) h.ext a0 (T.coords rank))]? =
          some ((World.get w x rank).getD (Addr.ravelD (h.orders.getD iS [])
            (Function.update u ((h.orders.getD iD []).getD a0 0)
              (blockStart (h.ext.getD ((h.orders.getD iD []).getD a0 0) 0) (h.nprocs.getD a0 1) j + u ((h.orders.getD iD []).getD a0 0)))
            (lenD (Layout.make h.nprocs (h.orders.getD iS []) h.ext) (T.coords rank))) default) := by
    intro rank
    by_cases hr : rank < T.nRanks
    · obtain ⟨out, h1, h2, h3⟩ := extractFromSource_spec H (T.coords rank) (hT.coords rank hr) (World.get w x rank)
        (World.get w y rank) (holdsBlock_size _ _ G _ (hsrc rank hr)) (hszy rank hr).1
      exact ⟨out, fun _ => ⟨h1, h2, h3⟩⟩
    · exact ⟨#[], fun hh => absurd hh hr⟩
  choose pack hpack using hst1
  obtain ⟨s1, s2, s3, s4⟩ := setAll_spec y pack w hy T.nRanks hyn
  have hfold1 : (List.range T.nRanks).foldlM (fun (acc : World α) rank => do
        let out ← extractFromSource true (h.layoutAt iS) (h.layoutAt iD) (T.coords rank)
          (swapAxes h.nprocs (h.layoutAt iS).ord (h.layoutAt iD).ord) (World.get acc x rank) (World.get acc y rank)
        pure (World.set acc y rank out)) w = .ok (setAll T.nRanks y pack w) := by
    apply foldRanks_ok y _ w pack hy T.nRanks hyn
    intro acc rank hr _ hother hsame
    rw [World.get_of_getD_eq w acc x (hother x (Ne.symm hyx)), hsame, (hpack rank hr).1]
    rfl
  set w1 := setAll T.nRanks y pack w with hw1
  have hw1y : ∀ rank, rank < T.nRanks → World.get w1 y rank = pack rank := fun rank hr => by rw [s4 rank, if_pos hr]
  have hw1z : ∀ rank, World.get w1 z rank = World.get w z rank :=
    fun rank => World.get_of_getD_eq w w1 z (s2 z (Ne.symm hyz)) rank
  -- stage 2
  obtain ⟨w2, ha2a, t1, t2, t3, t4, t5⟩ := alltoallAxis_spec T (h.nprocs.getD a0 1) a0
    (fun rank => prodL (exchangeShape (h.layoutAt iS) (h.layoutAt iD) (T.coords rank)
      (swapAxes h.nprocs (h.layoutAt iS).ord (h.layoutAt iD).ord) (h.nprocs.getD a0 1)))
    w1 y z hp0 (by rw [s1]; exact hz) (by rw [s2 z (Ne.symm hyz)]; exact hzn)
    (fun rank => packSize h.nprocs (h.orders.getD iS []) (h.orders.getD iD []) h.ext a0 (T.coords rank))
    (fun rank _ => exchangeShape_prod H (T.coords rank))
    (fun rank hr => by rw [hw1z rank]; exact hszz rank hr)
  have hw2y : ∀ rank, World.get w2 y rank = World.get w1 y rank :=
    fun rank => World.get_of_getD_eq w1 w2 y (t2 y hyz) rank
  -- stage 3 on every rank
  have hst3 : ∀ rank, ∃ out, rank < T.nRanks →
      rearrangeFromBuffer true (h.layoutAt iS) (h.layoutAt iD) (T.coords rank)
        (swapAxes h.nprocs (h.layoutAt iS).ord (h.layoutAt iD).ord) (h.nprocs.getD a0 1) (pack rank) (World.get w2 z rank) = .ok out ∧
      out.size = (pack rank).size ∧ HoldsBlock (h.layoutAt iD) (T.coords rank) G out := by
    intro rank
    by_cases hr : rank < T.nRanks
    · obtain ⟨out, h1, h2, h3⟩ := rearrangeFromBuffer_spec H (T.coords rank) (hT.coords rank hr) (pack rank)
        (World.get w2 z rank) (by rw [(hpack rank hr).2.1]; exact (hszy rank hr).2)
        (by rw [t4 rank, hw1z rank]; exact hszz rank hr)
      refine ⟨out, fun _ => ⟨h1, h2, ?_⟩⟩
      exact comm_rank_correct H T hT G rank hr (fun r => World.get w x r) pack (World.get w2 z rank) out
        (fun r hr' => hsrc r hr')
        (fun r hr' => (hpack r hr').2.2)
        (fun q hq j hj => by
          have := t5 rank hr q hq j hj
          rw [hw1y _ (hT.partner_lt rank hr a0 H.mem.1 q hq)] at this
          exact this)
        h3
    · exact ⟨#[], fun hh => absurd hh hr⟩
  choose dst hdst using hst3
  have hy2 : y < w2.size := by rw [t1, s1]; exact hy
  have hyn2 : T.nRanks ≤ (w2.getD y #[]).size := by rw [t2 y hyz, s3]; exact hyn
  obtain ⟨r1, r2, r3, r4⟩ := setAll_spec y dst w2 hy2 T.nRanks hyn2
  have hfold3 : (List.range T.nRanks).foldlM (fun (acc : World α) rank => do
        let out ← rearrangeFromBuffer true (h.layoutAt iS) (h.layoutAt iD) (T.coords rank)
          (swapAxes h.nprocs (h.layoutAt iS).ord (h.layoutAt iD).ord) (h.nprocs.getD a0 1) (World.get acc y rank)
          (World.get acc z rank)
        pure (World.set acc y rank out)) w2 = .ok (setAll T.nRanks y dst w2) := by
    apply foldRanks_ok y _ w2 dst hy2 T.nRanks hyn2
    intro acc rank hr _ hother hsame
    rw [World.get_of_getD_eq w2 acc z (hother z (Ne.symm hyz)), hsame, hw2y rank, hw1y rank hr, (hdst rank hr).1]
    rfl
  refine ⟨setAll T.nRanks y dst w2, ?_, ?_, ?_, ?_, ?_, ?_⟩
  · unfold directStepT
    have hl : ¬ (swapAxes h.nprocs (h.layoutAt iS).ord (h.layoutAt iD).ord).length = 0 := by
      rw [hax, H.swapAxes_eq]; simp
    have h0 : (swapAxes h.nprocs (h.layoutAt iS).ord (h.layoutAt iD).ord).getD 0 0 = a0 := by
      rw [hax, H.swapAxes_eq]; rfl
    simp only [hl, if_false, h0]
    rw [hfold1]
    simp only [bind, Except.bind]
    rw [ha2a]
    exact hfold3
  · intro rank hr
    show HoldsBlock _ _ G (World.get (setAll T.nRanks y dst w2) y rank)
    rw [r4 rank, if_pos hr]
    exact (hdst rank hr).2.2
  · intro r hry hrz
    rw [r2 r hry, t2 r hrz, s2 r hry]
  · rw [r1, t1, s1]
  · intro role
    by_cases hry : role = y
    · subst hry; rw [r3, t2 role hyz, s3]
    · rw [r2 role hry]
      by_cases hrz : role = z
      · subst hrz; rw [t3, s2 role hry]
      · rw [t2 role hrz, s2 role hry]
  · intro role rank
    by_cases hry : role = y
    · subst hry
      rw [r4 rank]
      split
      · rename_i hr
        rw [(hdst rank hr).2.1, (hpack rank hr).2.1]
      · rename_i hr
        rw [hw2y rank, s4 rank, if_neg hr]
    · rw [World.get_of_getD_eq w2 _ role (r2 role hry) rank]
      by_cases hrz : role = z
      · subst hrz; rw [t4 rank, hw1z rank]
      · rw [World.get_of_getD_eq w1 w2 role (t2 role hrz) rank, World.get_of_getD_eq w w1 role (s2 role hry) rank]

/-! ### one direct change of layout, both cases -/

/-- number of cells the step `oS → oD` needs in the buffers of roles `y` and `z` on the rank with coordinates `c`:
    the destination block and, when data is exchanged, `p` padded blocks (this is the quantity the constructor's
    `bufferSize` maximises over all connected pairs, layout.py:431-462) -/
def needSize (np oS oD ext c : List Nat) : Nat :=
  max ((Layout.make np oD ext).shape c).prod
    (match diffAxes np oS oD with
     | a0 :: _ => np.getD a0 1 * packSize np oS oD ext a0 c
     | [] => 0)

/-- **one direct change of layout, executable model** (`LayoutHandler._transpose` when `z = x`,
    `_transpose_source_intact` otherwise; layout.py:627-686 with the repaired `_extract_from_source` /
    `_rearrange_from_buffer`): for every pair of layouts that `compatible` accepts, on every well-formed process
    topology, if role `x` holds the global field `G` in the source layout on every rank and the buffers of roles `y`
    and `z` are long enough, then the step raises nothing, role `y` holds `G` in the destination layout on every rank,
    roles other than `y` and `z` are untouched and no buffer changes its length. -/
theorem directStepT_correct (T : Topo) (h : Handler) (iS iD x y z : Nat) (w : World α) (G : List Nat → α)
    (hpair : PairOK h.nprocs (h.orders.getD iS []) (h.orders.getD iD []) h.ext)
    (hcompat : compatible h.nprocs (h.orders.getD iS []) (h.orders.getD iD []) = true)
    (hT : TopoOK T h.nprocs)
    (hyx : y ≠ x) (hyz : y ≠ z) (hy : y < w.size) (hz : z < w.size)
    (hyn : T.nRanks ≤ (w.getD y #[]).size) (hzn : T.nRanks ≤ (w.getD z #[]).size)
    (hszy : ∀ rank, rank < T.nRanks →
      needSize h.nprocs (h.orders.getD iS []) (h.orders.getD iD []) h.ext (T.coords rank) ≤ (World.get w y rank).size)
    (hszz : ∀ rank, rank < T.nRanks →
      needSize h.nprocs (h.orders.getD iS []) (h.orders.getD iD []) h.ext (T.coords rank) ≤ (World.get w z rank).size)
    (hsrc : HoldsWorld T (h.layoutAt iS) G (w.getD x #[])) :
    ∃ w', directStepT true T h iS iD x y z w = .ok w' ∧
      HoldsWorld T (h.layoutAt iD) G (w'.getD y #[]) ∧
      (∀ r, r ≠ y → r ≠ z → w'.getD r #[] = w.getD r #[]) ∧
      w'.size = w.size ∧ (∀ role, (w'.getD role #[]).size = (w.getD role #[]).size) ∧
      (∀ role rank, (World.get w' role rank).size = (World.get w role rank).size) := by
  by_cases hax : swapAxes h.nprocs (h.orders.getD iS []) (h.orders.getD iD []) = []
  · -- local case
    obtain ⟨w', h1, h2, h3, h4, h5, h6⟩ := directStepT_local T h iS iD x y z w G hpair hT.coords hax (Ne.symm hyx) hy hyn
      (fun rank hr => by
        rw [size_eq_prod]
        exact Nat.le_trans (Nat.le_max_left _ _) (hszy rank hr)) hsrc
    refine ⟨w', h1, h2, fun r hr _ => h3 r hr, h4, ?_, ?_⟩
    · intro role
      by_cases hry : role = y
      · subst hry; exact h5
      · rw [h3 role hry]
    · intro role rank
      by_cases hry : role = y
      · subst hry; exact h6 rank
      · rw [World.get_of_getD_eq w w' role (h3 role hry) rank]
  · obtain ⟨a0, H⟩ := comm_of_compatible _ _ _ _ hpair hcompat hax
    have hneed : ∀ c, needSize h.nprocs (h.orders.getD iS []) (h.orders.getD iD []) h.ext c =
        max ((Layout.make h.nprocs (h.orders.getD iD []) h.ext).shape c).prod
          (h.nprocs.getD a0 1 * packSize h.nprocs (h.orders.getD iS []) (h.orders.getD iD []) h.ext a0 c) := by
      intro c; unfold needSize; rw [H.diff]
    exact directStepT_comm T h iS iD x y z w G a0 H hT hyx hyz hy hz hyn hzn
      (fun rank hr => by
        have := hszy rank hr
        rw [hneed] at this
        exact ⟨Nat.le_trans (Nat.le_max_right _ _) this, Nat.le_trans (Nat.le_max_left _ _) this⟩)
      (fun rank hr => by
        have := hszz rank hr
        rw [hneed] at this
        exact Nat.le_trans (Nat.le_max_right _ _) this)
      hsrc

/-! ### the Cartesian topology of `getLayoutHandler` -/

theorem prodL_cons (d : Nat) (ds : List Nat) : prodL (d :: ds) = d * prodL ds := by
  rw [prodL_eq_prod, prodL_eq_prod, List.prod_cons]

omit [Inhabited α] in
theorem coordsOf_length : ∀ (dims : List Nat) (r : Nat), (coordsOf dims r).length = dims.length
  | [], _ => rfl
  | _ :: ds, r => by simp [coordsOf, coordsOf_length ds]

theorem coordsOf_ok : ∀ (dims : List Nat) (r : Nat), r < prodL dims → CoordsOK dims (coordsOf dims r)
  | [], _, _ => ⟨rfl, fun i hi => by simp at hi⟩
  | d :: ds, r, hr => by
    rw [prodL_cons] at hr
    have hP : 0 < prodL ds := by
      rcases Nat.eq_zero_or_pos (prodL ds) with h | h
      · rw [h] at hr; omega
      · exact h
    have ih := coordsOf_ok ds (r % prodL ds) (Nat.mod_lt _ hP)
    refine ⟨by simp [coordsOf, ih.1], ?_⟩
    intro i hi
    cases i with
    | zero =>
      simp only [coordsOf, List.getD_cons_zero]
      rw [Nat.div_lt_iff_lt_mul hP]; exact hr
    | succ i =>
      simp only [coordsOf, List.getD_cons_succ]
      exact ih.2 i (by simpa using hi)

theorem coordsOf_rankOf : ∀ (dims cs : List Nat), CoordsOK dims cs →
    rankOf dims cs < prodL dims ∧ coordsOf dims (rankOf dims cs) = cs
  | [], cs, h => by
    have : cs = [] := List.eq_nil_of_length_eq_zero h.1
    subst this
    exact ⟨by simp [rankOf, prodL], rfl⟩
  | d :: ds, [], h => by have := h.1; simp at this
  | d :: ds, c :: cs, h => by
    have hc : c < d := by have := h.2 0 (by simp); simpa using this
    have hrest : CoordsOK ds cs := by
      refine ⟨by have := h.1; simpa using this, ?_⟩
      intro i hi
      have := h.2 (i+1) (by simpa using hi)
      simpa using this
    obtain ⟨ih1, ih2⟩ := coordsOf_rankOf ds cs hrest
    have hP : 0 < prodL ds := by omega
    constructor
    · rw [prodL_cons]
      simp only [rankOf]
      calc c * prodL ds + rankOf ds cs < c * prodL ds + prodL ds := by omega
        _ = (c + 1) * prodL ds := by rw [Nat.add_mul, Nat.one_mul]
        _ ≤ d * prodL ds := Nat.mul_le_mul_right _ hc
    · simp only [rankOf, coordsOf]
      rw [Nat.add_comm, Nat.add_mul_div_right _ _ hP, Nat.div_eq_of_lt ih1, Nat.zero_add,
        Nat.add_mul_mod_self_right, Nat.mod_eq_of_lt ih1, ih2]

/-- the topology `getLayoutHandler` builds (`Create_cart(nprocs)` and one `Sub` per axis) is well formed -/
theorem cartTopo_ok (dims : List Nat) : TopoOK (cartTopo dims) dims where
  coords := fun r hr => coordsOf_ok dims r hr
  partner_lt := fun r hr a ha q hq =>
    (coordsOf_rankOf dims _ (coordsOK_set dims _ (coordsOf_ok dims r hr) a q ha hq)).1
  partner_coords := fun r hr a ha q hq =>
    (coordsOf_rankOf dims _ (coordsOK_set dims _ (coordsOf_ok dims r hr) a q ha hq)).2

end PygyroVerif.DS
