/-
Helper lemmas for Props/C06SwapperTraces.lean: the per-rank traces of collective calls that Model/Traces.lean predicts
for `LayoutSwapper.transpose` (pygyro/model/layout.py:1212-1553) are the projections of ONE global event list over the
world ranks of the swapper's Cartesian communicator (`S.dims`).

  * A  the constructor's choice of communicators (`Swapper.commAxes`): world axes inside the topology, the handler's
       `nprocs` entry is the size of the chosen world axis
  * B  handler coordinates of a world rank; two world ranks in one instance of `sub{axes[a0]}` have handler coordinates
       that differ on handler axis `a0` only
  * C  generic "world steps": a step is local or one collective on the `Sub` communicator of a world axis; its events
       (one per instance), projection on a rank
  * D  the steps of a swapper transpose (`swapperW`) and `swapperTrace = flatMap wTrace`
  * E  every step of a swapper transpose is well formed (`WStepOK`): members of an instance issue the same call
  * F  the global event list of a sequence of swapper transposes and its projection
-/
import PygyroVerif.Lemmas.TraceMatch
import PygyroVerif.Lemmas.SwapperCompat

namespace PygyroVerif.SwapperTraceMatch
open PygyroVerif PygyroVerif.Handler PygyroVerif.Traces PygyroVerif.BufferSize PygyroVerif.TraceMatch
open PygyroVerif.Swapper PygyroVerif.SwapperCompat

/-! ### A. the communicators the constructor chooses -/

theorem getD_irrel (l : List Nat) (i d d' : Nat) (hi : i < l.length) : l.getD i d = l.getD i d' := by
  simp only [List.getD_eq_getElem?_getD, List.getElem?_eq_getElem hi, Option.getD_some]

theorem getD_mem (l : List Nat) (i d : Nat) (hi : i < l.length) : l.getD i d ∈ l := by
  simp only [List.getD_eq_getElem?_getD, List.getElem?_eq_getElem hi, Option.getD_some]
  exact List.getElem_mem hi

theorem dims_length (S : Swapper) : S.dims.length = S.maxDims := by
  unfold Swapper.dims Swapper.nprocsPadded
  rw [padTo_length]
  have := raw_length_le_maxDims S S.maxIdx
  omega

/-- invariant of the choice loop after `n` rounds: the available list is the world topology with entries crossed out,
    `n` communicators have been chosen, and the `j`-th one is a world axis with `raw[j]` processes -/
def ChoiceSpec (D : List (Option Nat)) (raw : List Nat) (n : Nat) (st : Option (List (Option Nat) × List Nat)) : Prop :=
  ∀ a ch, st = some (a, ch) → Sub D a ∧ ch.length = n ∧ ∀ j, j < n → ent D (ch.getD j 0) = some (raw.getD j 0)

theorem choose_fold_spec (oM oI : List (List Nat)) (raw : List Nat) (D : List (Option Nat)) :
    ∀ n, ChoiceSpec D raw n ((List.range n).foldl (chooseStep oM oI raw) (some (D, []))) := by
  intro n
  induction n with
  | zero =>
    intro a ch h
    simp only [List.range_zero, List.foldl_nil, Option.some.injEq, Prod.mk.injEq] at h
    rw [← h.1, ← h.2]
    exact ⟨Sub.refl D, rfl, fun j hj => by omega⟩
  | succ n ih =>
    intro a ch h
    rw [List.range_succ, List.foldl_append, List.foldl_cons, List.foldl_nil] at h
    generalize (List.range n).foldl (chooseStep oM oI raw) (some (D, [])) = st at ih h
    cases st with
    | none => simp [chooseStep] at h
    | some st0 =>
      obtain ⟨a0, ch0⟩ := st0
      obtain ⟨hsub, hlen, hj⟩ := ih a0 ch0 rfl
      unfold chooseStep at h
      simp only at h
      cases hc : chooseAxis a0 oM oI n (raw.getD n 0) with
      | none => rw [hc] at h; cases h
      | some axis =>
        rw [hc] at h
        simp only [Option.some.injEq, Prod.mk.injEq] at h
        obtain ⟨ha, hch⟩ := h
        have hav := chooseAxis_spec _ _ _ _ _ _ hc
        subst ha; subst hch
        refine ⟨hsub.trans (Sub.set_none a0 axis), by rw [List.length_append, hlen]; rfl, fun j hjn => ?_⟩
        by_cases hlt : j < n
        · have : (ch0 ++ [axis]).getD j 0 = ch0.getD j 0 := by
            simp only [List.getD_eq_getElem?_getD]
            rw [List.getElem?_append_left (by omega)]
          rw [this]; exact hj j hlt
        · have e : j = n := by omega
          subst e
          have : (ch0 ++ [axis]).getD j 0 = axis := by
            simp only [List.getD_eq_getElem?_getD]
            rw [List.getElem?_append_right (by omega), hlen]
            simp
          rw [this]; exact hsub.some_eq hav

/-- what the constructor guarantees about the communicators of handler `h` -/
structure AxesOK (S : Swapper) (h : Nat) (axes : List Nat) : Prop where
  /-- no communicator twice -/
  nodup : axes.Nodup
  /-- every communicator is a `Sub` of the world topology -/
  lt : ∀ x ∈ axes, x < S.dims.length
  /-- one communicator per entry of the handler's `nprocs` -/
  len : axes.length = (S.handlerNprocs h).length
  /-- the handler's `nprocs[a]` is the size of its `a`-th communicator -/
  procs : ∀ a, a < axes.length → (S.handlerNprocs h).getD a 1 = S.dims.getD (axes.getD a 0) 1

instance (S : Swapper) (h : Nat) (axes : List Nat) : Decidable (AxesOK S h axes) :=
  decidable_of_iff (axes.Nodup ∧ (∀ x ∈ axes, x < S.dims.length) ∧ axes.length = (S.handlerNprocs h).length ∧
      ∀ a, a < axes.length → (S.handlerNprocs h).getD a 1 = S.dims.getD (axes.getD a 0) 1)
    ⟨fun ⟨a, b, c, d⟩ => ⟨a, b, c, d⟩, fun ⟨a, b, c, d⟩ => ⟨a, b, c, d⟩⟩

theorem range_getD (n a : Nat) (ha : a < n) : (List.range n).getD a 0 = a := by
  simp [List.getD_eq_getElem?_getD, ha]

theorem commAxes_spec (S : Swapper) (h : Nat) (axes : List Nat) (hc : S.commAxes h = some axes) :
    (∀ x ∈ axes, x < S.dims.length) ∧
    ∀ a, a < axes.length → (S.handlerNprocs h).getD a 1 = S.dims.getD (axes.getD a 0) 1 := by
  have hlen := commAxes_length S h axes hc
  unfold Swapper.commAxes at hc
  by_cases hm : h = S.maxIdx
  · rw [if_pos hm, Option.some.injEq] at hc
    subst hc
    refine ⟨fun x hx => by rw [dims_length]; exact List.mem_range.1 hx, fun a ha => ?_⟩
    rw [List.length_range] at ha
    rw [range_getD _ _ ha]
    unfold Swapper.handlerNprocs Swapper.dims
    rw [if_pos hm, hm]
  · rw [if_neg hm] at hc
    have hnp : S.handlerNprocs h = S.nprocsRaw.getD h [] := by unfold Swapper.handlerNprocs; rw [if_neg hm]
    unfold Swapper.chooseAxes at hc
    simp only [Option.map_eq_some_iff] at hc
    obtain ⟨⟨a, ch⟩, hf, hch⟩ := hc
    simp only at hch
    subst hch
    obtain ⟨_, hl, hj⟩ := choose_fold_spec _ _ _ _ _ a ch hf
    have key : ∀ j, j < ch.length → ch.getD j 0 < S.dims.length ∧
        S.dims.getD (ch.getD j 0) 0 = (S.nprocsRaw.getD h []).getD j 0 := by
      intro j hjl
      exact (ent_map_some S.dims _ _).1 (hj j (by omega))
    refine ⟨fun x hx => ?_, fun j hjl => ?_⟩
    · obtain ⟨j, hjl, rfl⟩ := List.getElem_of_mem hx
      have := (key j hjl).1
      simpa [List.getD_eq_getElem?_getD, hjl] using this
    · obtain ⟨k1, k2⟩ := key j hjl
      rw [hnp, getD_irrel _ j 1 0 (by omega), getD_irrel _ _ 1 0 k1, k2]

/-- everything the swapper's traces need follows from `commAxes h = some axes`, i.e. from the success of the
    constructor's choice loop -/
theorem axesOK_of_commAxes (S : Swapper) (h : Nat) (axes : List Nat) (hc : S.commAxes h = some axes) :
    AxesOK S h axes :=
  ⟨commAxes_nodup S h axes hc, (commAxes_spec S h axes hc).1, commAxes_length S h axes hc,
    (commAxes_spec S h axes hc).2⟩

/-- the constructor's choice succeeds for every handler (no `assert len(res) > 0` fails) -/
def CommOK (S : Swapper) : Prop := ∀ h, ∃ axes, S.commAxes h = some axes

/-- it is enough to check the handlers that exist -/
theorem commOK_of_lt (S : Swapper) (hc : ∀ h, h < S.nprocsRaw.length → (S.commAxes h).isSome = true) : CommOK S := by
  intro h
  by_cases hlt : h < S.nprocsRaw.length
  · exact Option.isSome_iff_exists.1 (hc h hlt)
  · unfold Swapper.commAxes
    by_cases hm : h = S.maxIdx
    · rw [if_pos hm]; exact ⟨_, rfl⟩
    · rw [if_neg hm]
      refine ⟨[], ?_⟩
      unfold Swapper.chooseAxes
      have : S.nprocsRaw.getD h [] = [] := by
        rw [List.getD_eq_getElem?_getD, List.getElem?_eq_none (by omega)]; rfl
      rw [this]
      rfl

/-! ### B. handler coordinates of a world rank -/

theorem topo_coords (S : Swapper) (h : Nat) (r : Nat) :
    (S.topo h).coords r = ((S.commAxes h).getD []).map (fun a => (coordsOf S.dims r).getD a 0) := rfl

theorem map_getD (axes : List Nat) (f : Nat → Nat) (k : Nat) (hk : k < axes.length) :
    (axes.map f).getD k 0 = f (axes.getD k 0) := by
  simp [List.getD_eq_getElem?_getD, hk]

theorem map_getD_ge (axes : List Nat) (f : Nat → Nat) (k : Nat) (hk : ¬ k < axes.length) :
    (axes.map f).getD k 0 = 0 := by
  rw [List.getD_eq_getElem?_getD, List.getElem?_eq_none (by rw [List.length_map]; omega)]; rfl

theorem nodup_getD_ne (axes : List Nat) (hnd : axes.Nodup) (k a : Nat) (hk : k < axes.length) (ha : a < axes.length)
    (hne : k ≠ a) : axes.getD k 0 ≠ axes.getD a 0 := by
  simp only [List.getD_eq_getElem?_getD, List.getElem?_eq_getElem hk, List.getElem?_eq_getElem ha, Option.getD_some]
  intro e
  exact hne ((List.Nodup.getElem_inj_iff hnd).1 e)

/-- **world instance → handler instance**: two world coordinate vectors that differ on world axis `axes[a0]` only are
    mapped to handler coordinates that differ on handler axis `a0` only -/
theorem handlerCoords_agreeOff (axes : List Nat) (hnd : axes.Nodup) (a0 : Nat) (ha0 : a0 < axes.length)
    {w w' : List Nat} (hcc : AgreeOff (axes.getD a0 0) w w') :
    AgreeOff a0 (axes.map (fun a => w.getD a 0)) (axes.map (fun a => w'.getD a 0)) := by
  intro k hk
  by_cases hkl : k < axes.length
  · rw [map_getD _ _ _ hkl, map_getD _ _ _ hkl]
    exact hcc _ (nodup_getD_ne axes hnd k a0 hkl ha0 hk)
  · rw [map_getD_ge _ _ _ hkl, map_getD_ge _ _ _ hkl]

theorem topo_coords_agreeOff (S : Swapper) (h : Nat) (axes : List Nat) (hc : S.commAxes h = some axes)
    (a0 : Nat) (ha0 : a0 < axes.length) {r r' : Nat}
    (hcc : AgreeOff (axes.getD a0 0) (coordsOf S.dims r) (coordsOf S.dims r')) :
    AgreeOff a0 ((S.topo h).coords r) ((S.topo h).coords r') := by
  rw [topo_coords, topo_coords, hc]
  exact handlerCoords_agreeOff axes (commAxes_nodup S h axes hc) a0 ha0 hcc

/-- the handler coordinates of a world rank lie inside the handler's process grid -/
theorem topo_coords_ok (S : Swapper) (h : Nat) (axes : List Nat) (hc : S.commAxes h = some axes) (r : Nat)
    (hr : r < prodL S.dims) : DS.CoordsOK (S.handlerNprocs h) ((S.topo h).coords r) := by
  have hok := axesOK_of_commAxes S h axes hc
  have hw := DS.coordsOf_ok S.dims r hr
  rw [topo_coords, hc]
  refine ⟨by rw [Option.getD_some, List.length_map]; exact hok.len, fun i hi => ?_⟩
  have hi' : i < axes.length := by rw [hok.len]; exact hi
  rw [Option.getD_some, map_getD _ _ _ hi', hok.procs i hi']
  exact hw.2 _ (hok.lt _ (getD_mem axes i 0 hi'))

/-! ### C. world steps: local, or one collective on the `Sub` communicator of a world axis -/

/-- one step of a transpose seen from the world: `none` = no communication; `some (ax, f)` = every world rank `r`
    issues the call `f r` on its instance of the `Sub` communicator that keeps world axis `ax` -/
abbrev WStep := Option (Nat × (Nat → Call))

/-- the calls world rank `r` issues in a step -/
def wTrace (r : Nat) : WStep → List Call
  | none => []
  | some (_, f) => [f r]

/-- the event of the instance of `sub{ax}` whose member with coordinate 0 on axis `ax` is world rank `r0` -/
def wEventAt (dims : List Nat) (ax : Nat) (f : Nat → Call) (r0 : Nat) : Option GEvent :=
  if (coordsOf dims r0).getD ax 0 = 0 then some (instMembers dims ax (coordsOf dims r0), f r0) else none

/-- the events of a step: one per instance of the step's communicator (instances = the world coordinates on all
    OTHER world axes, enumerated through their member with coordinate 0 on `ax`) -/
def wEvents (dims : List Nat) : WStep → List GEvent
  | none => []
  | some (ax, f) => (List.range (prodL dims)).filterMap (wEventAt dims ax f)

/-- a step is well formed: its axis is an axis of the world topology and all members of an instance issue the same
    call -/
def WStepOK (dims : List Nat) : WStep → Prop
  | none => True
  | some (ax, f) => ax < dims.length ∧
      ∀ r r', r < prodL dims → r' < prodL dims → AgreeOff ax (coordsOf dims r) (coordsOf dims r') → f r = f r'

/-- **projection of one world step** -/
theorem proj_wEvents (dims : List Nat) (w : WStep) (hok : WStepOK dims w) (r : Nat) (hr : r < prodL dims) :
    proj (wEvents dims w) r = wTrace r w := by
  cases w with
  | none => rfl
  | some w =>
    obtain ⟨ax, f⟩ := w
    obtain ⟨ha, hinv⟩ := hok
    have hc := DS.coordsOf_ok dims r hr
    generalize hcdef : coordsOf dims r = c at hc
    have hcl : ax < c.length := by rw [hc.1]; exact ha
    have hp : 0 < dims.getD ax 1 := by have := hc.2 ax ha; omega
    have hc0 : DS.CoordsOK dims (c.set ax 0) := DS.coordsOK_set dims c hc _ 0 ha hp
    obtain ⟨hx0, hcx0⟩ := DS.coordsOf_rankOf dims _ hc0
    simp only [wEvents, wTrace]
    rw [proj_filterMap, filterMap_range_single _ (rankOf dims (c.set ax 0)) _ hx0]
    · unfold wEventAt
      rw [hcx0, getD_set_self c _ 0 hcl, if_pos rfl]
      have hmem : r ∈ instMembers dims ax (c.set ax 0) := by
        rw [mem_instMembers dims _ _ hc0 ha r hr]
        refine ⟨c.getD ax 0, hc.2 _ ha, ?_⟩
        rw [hcdef, List.set_set, set_getD_self c _ hcl]
      have hcont : (instMembers dims ax (c.set ax 0)).contains r = true := List.contains_iff_mem.2 hmem
      have hf : f (rankOf dims (c.set ax 0)) = f r := by
        apply hinv _ _ hx0 hr
        rw [hcx0, hcdef]
        exact (agreeOff_set c ax 0).symm
      simp only [Option.bind_some, sel, hcont, ↓reduceIte, Option.toList_some, hf]
    · intro x hx hne
      unfold wEventAt
      split
      · rename_i hcond
        simp only [Option.bind_some, sel]
        rw [if_neg]
        intro hcont
        apply hne
        have hxc := DS.coordsOf_ok dims x hx
        have hmem := List.contains_iff_mem.1 hcont
        rw [mem_instMembers dims _ _ hxc ha r hr] at hmem
        obtain ⟨q, _, hq⟩ := hmem
        rw [hcdef] at hq
        have hxl : ax < (coordsOf dims x).length := by rw [hxc.1]; exact ha
        have : c.set ax 0 = coordsOf dims x := by
          rw [hq, List.set_set]
          have := set_getD_self (coordsOf dims x) _ hxl
          rw [hcond] at this
          exact this
        rw [this, rankOf_coordsOf dims x hx]
      · rfl

/-- **the events of a world step are complete communicator instances whose members agree** -/
theorem wEvents_spec (dims : List Nat) (ax : Nat) (f : Nat → Call) (hok : WStepOK dims (some (ax, f))) (g : GEvent)
    (hg : g ∈ wEvents dims (some (ax, f))) :
    ∃ r0, r0 < prodL dims ∧ g.1 = instMembers dims ax (coordsOf dims r0) ∧
      ∀ r ∈ g.1, r < prodL dims ∧ AgreeOff ax (coordsOf dims r0) (coordsOf dims r) ∧ f r = g.2 := by
  obtain ⟨ha, hinv⟩ := hok
  simp only [wEvents, List.mem_filterMap, List.mem_range] at hg
  obtain ⟨r0, hr0, he⟩ := hg
  have hc0 := DS.coordsOf_ok dims r0 hr0
  unfold wEventAt at he
  split at he
  · have hg' := Option.some.inj he
    subst hg'
    refine ⟨r0, hr0, rfl, ?_⟩
    intro r hr
    simp only [instMembers, List.mem_map, List.mem_range] at hr
    obtain ⟨q, hq, rfl⟩ := hr
    obtain ⟨h1, h2⟩ := DS.coordsOf_rankOf dims _ (DS.coordsOK_set dims _ hc0 _ q ha hq)
    refine ⟨h1, by rw [h2]; exact agreeOff_set _ _ _, ?_⟩
    apply hinv _ _ h1 hr0
    rw [h2]; exact (agreeOff_set _ _ _).symm
  · cases he

/-- the events of a list of steps, in order -/
def wsEvents (dims : List Nat) (ws : List WStep) : List GEvent := ws.flatMap (wEvents dims)

theorem proj_wsEvents (dims : List Nat) (ws : List WStep) (hok : ∀ w ∈ ws, WStepOK dims w) (r : Nat)
    (hr : r < prodL dims) : proj (wsEvents dims ws) r = ws.flatMap (wTrace r) := by
  unfold wsEvents
  rw [proj_flatMap]
  apply List.flatMap_congr
  intro w hw
  exact proj_wEvents dims w (hok w hw) r hr

/-! ### D. the steps of a swapper transpose -/

/-- steps chained along a route: `one now next` for every hop -/
def chain {β : Type} (one : Nat → Nat → List β) : Nat → List Nat → List β
  | _, [] => []
  | now, next :: rest => one now next ++ chain one next rest

theorem foldl_chain_eq {β : Type} (one : Nat → Nat → List β) :
    ∀ (steps : List Nat) (acc : List β) (now : Nat),
      (steps.foldl (fun (st : List β × Nat) next => (st.1 ++ one st.2 next, next)) (acc, now)).1 =
        acc ++ chain one now steps
  | [], acc, now => by simp [chain]
  | next :: rest, acc, now => by
    rw [List.foldl_cons, foldl_chain_eq one rest _ next]
    simp only [chain, List.append_assoc]

theorem chain_flatMap {β γ : Type} (one : Nat → Nat → List β) (one' : Nat → Nat → List γ) (t : β → List γ)
    (h : ∀ a b, (one a b).flatMap t = one' a b) :
    ∀ (steps : List Nat) (now : Nat), (chain one now steps).flatMap t = chain one' now steps
  | [], _ => rfl
  | next :: rest, now => by
    simp only [chain]
    rw [List.flatMap_append, h, chain_flatMap one one' t h rest next]

theorem chain_forall {β : Type} (one : Nat → Nat → List β) (P : β → Prop) (h : ∀ a b, ∀ x ∈ one a b, P x) :
    ∀ (steps : List Nat) (now : Nat), ∀ x ∈ chain one now steps, P x
  | [], _, x, hx => by cases hx
  | next :: rest, now, x, hx => by
    simp only [chain, List.mem_append] at hx
    rcases hx with hx | hx
    · exact h now next x hx
    · exact chain_forall one P h rest next x hx

/-- name of the communicator of handler axis `a` of handler `h`: the `Sub` of the world axis the constructor chose -/
def subName (S : Swapper) (h : Nat) (a : Nat) : String := s!"sub{((S.commAxes h).getD []).getD a 0}"

/-- a direct step `i → j` inside handler `h`, seen from the world -/
def directW (S : Swapper) (h i j : Nat) : WStep :=
  if stepComm (S.handler h) i j then
    some (((S.commAxes h).getD []).getD (stepAxis (S.handler h) i j) 0,
      fun r => directCall (S.handler h) ((S.topo h).coords r) (subName S h) i j)
  else none

theorem wTrace_directW (S : Swapper) (h i j r : Nat) :
    wTrace r (directW S h i j) = directTrace (S.handler h) ((S.topo h).coords r) (subName S h) i j := by
  rw [directTrace_eq]
  unfold directW
  by_cases hs : stepComm (S.handler h) i j
  · rw [if_pos hs, if_pos hs]; rfl
  · rw [if_neg hs, if_neg hs]; rfl

/-- `LayoutHandler.transpose(i → j)` of handler `h` of the swapper, seen from the world -/
def handlerW (S : Swapper) (hrm : Nat → RouteMap) (h i j : Nat) : List WStep :=
  if S.ext.any (· == 0) then [] else if i = j then [] else
    chain (fun a b => [directW S h a b]) i ((hrm h).r i j)

theorem routeTrace_eq_chain (h : Handler) (c : List Nat) (axisName : Nat → String) :
    ∀ (steps : List Nat) (now : Nat),
      routeTrace h c axisName now steps = chain (fun a b => directTrace h c axisName a b) now steps
  | [], _ => rfl
  | next :: rest, now => by simp only [routeTrace, chain]; rw [routeTrace_eq_chain h c axisName rest next]

theorem handlerW_trace (S : Swapper) (hrm : Nat → RouteMap) (h i j r : Nat) :
    (handlerW S hrm h i j).flatMap (wTrace r) =
      handlerTrace (S.handler h) (hrm h) ((S.topo h).coords r) (subName S h) i j := by
  unfold handlerTrace handlerW
  rw [handlerTraceF_eq, earlyExit_fixed]
  have e : (S.handler h).ext = S.ext := rfl
  rw [e]
  by_cases h0 : S.ext.any (· == 0) = true
  · rw [if_pos h0, if_pos h0]; rfl
  · rw [if_neg h0, if_neg h0]
    by_cases hij : i = j
    · rw [if_pos hij, if_pos hij]; rfl
    · rw [if_neg hij, if_neg hij, routeTrace_eq_chain]
      apply chain_flatMap
      intro a b
      rw [List.flatMap_cons, List.flatMap_nil, List.append_nil]
      exact wTrace_directW S h a b r

/-- the gather step `kS → kD` communicates: the destination's handler is LESS distributed than the source's -/
def crossComm (S : Swapper) (kS kD : Nat) : Prop :=
  nDistributed (S.handlerNprocs (S.locate kD).1) < nDistributed (S.handlerNprocs (S.locate kS).1)

instance (S : Swapper) (kS kD : Nat) : Decidable (crossComm S kS kD) := by unfold crossComm; infer_instance

/-- `idx_s` of `getAxes(layout_dest, layout_source)`: the source handler's axis that is gathered -/
def crossIdx (S : Swapper) (kS kD : Nat) : Nat :=
  (S.getAxes (S.locate kD).1 (S.locate kS).1 (S.layoutOf kD) (S.layoutOf kS)).2

/-- the world axis whose `Sub` communicator the gather uses -/
def crossAxis (S : Swapper) (kS kD : Nat) : Nat :=
  ((S.commAxes (S.locate kS).1).getD []).getD (crossIdx S kS kD) 0

/-- `blockSize`: the source block padded on the gathered axis -/
def crossCount (S : Swapper) (rank kS kD : Nat) : Nat :=
  prodL (((S.layoutOf kS).shape ((S.topo (S.locate kS).1).coords rank)).set (crossIdx S kS kD)
    ((S.layoutOf kS).maxShape.getD (crossIdx S kS kD) 0))

/-- the one call of a gather step -/
def crossCall (S : Swapper) (rank kS kD : Nat) : Call :=
  { comm := s!"sub{crossAxis S kS kD}", op := "Allgather", send := crossCount S rank kS kD,
    recv := crossCount S rank kS kD * (S.handlerNprocs (S.locate kS).1).getD (crossIdx S kS kD) 1 }

theorem crossTrace_unfold (S : Swapper) (rank kS kD : Nat) :
    crossTrace S rank kS kD =
      if nDistributed (S.handlerNprocs (S.locate kD).1) ≥ nDistributed (S.handlerNprocs (S.locate kS).1) then []
      else [crossCall S rank kS kD] := rfl

theorem crossTrace_eq (S : Swapper) (rank kS kD : Nat) :
    crossTrace S rank kS kD = if crossComm S kS kD then [crossCall S rank kS kD] else [] := by
  rw [crossTrace_unfold]
  by_cases hc : crossComm S kS kD
  · have hc' := hc
    unfold crossComm at hc'
    rw [if_pos hc, if_neg (by omega)]
  · have hc' := hc
    unfold crossComm at hc'
    rw [if_neg hc, if_pos (by omega)]

/-- a direct step between layouts of different handlers, seen from the world -/
def crossW (S : Swapper) (kS kD : Nat) : WStep :=
  if crossComm S kS kD then some (crossAxis S kS kD, fun r => crossCall S r kS kD) else none

theorem wTrace_crossW (S : Swapper) (kS kD r : Nat) : wTrace r (crossW S kS kD) = crossTrace S r kS kD := by
  rw [crossTrace_eq]
  unfold crossW
  by_cases hs : crossComm S kS kD
  · rw [if_pos hs, if_pos hs]; rfl
  · rw [if_neg hs, if_neg hs]; rfl

/-- one hop `a → b` of a swapper route, as the model predicts it on world rank `rank` -/
def oneT (S : Swapper) (hrm : Nat → RouteMap) (rank a b : Nat) : List Call :=
  if (S.locate a).1 = (S.locate b).1 then
    handlerTrace (S.handler (S.locate a).1) (hrm (S.locate a).1) ((S.topo (S.locate a).1).coords rank)
      (subName S (S.locate a).1) (S.locate a).2 (S.locate b).2
  else crossTrace S rank a b

/-- one hop of a swapper route, seen from the world -/
def oneW (S : Swapper) (hrm : Nat → RouteMap) (a b : Nat) : List WStep :=
  if (S.locate a).1 = (S.locate b).1 then handlerW S hrm (S.locate a).1 (S.locate a).2 (S.locate b).2
  else [crossW S a b]

theorem oneW_trace (S : Swapper) (hrm : Nat → RouteMap) (r a b : Nat) :
    (oneW S hrm a b).flatMap (wTrace r) = oneT S hrm r a b := by
  unfold oneW oneT
  by_cases hh : (S.locate a).1 = (S.locate b).1
  · rw [if_pos hh, if_pos hh]; exact handlerW_trace S hrm _ _ _ r
  · rw [if_neg hh, if_neg hh, List.flatMap_cons, List.flatMap_nil, List.append_nil]
    exact wTrace_crossW S a b r

theorem swapperTrace_unfold (S : Swapper) (rm : RouteMap) (hrm : Nat → RouteMap) (rank kS kD : Nat) :
    swapperTrace S rm hrm rank kS kD =
      if S.ext.any (· == 0) then [] else
      if (S.locate kS).1 = (S.locate kD).1 then
        handlerTrace (S.handler (S.locate kS).1) (hrm (S.locate kS).1) ((S.topo (S.locate kS).1).coords rank)
          (subName S (S.locate kS).1) (S.locate kS).2 (S.locate kD).2
      else
        ((rm.r kS kD).foldl (fun (st : List Call × Nat) next => (st.1 ++ oneT S hrm rank st.2 next, next))
          ([], kS)).1 := rfl

/-- `LayoutSwapper.transpose(kS → kD)` seen from the world: the list of its steps (the same on every rank) -/
def swapperW (S : Swapper) (rm : RouteMap) (hrm : Nat → RouteMap) (kS kD : Nat) : List WStep :=
  if S.ext.any (· == 0) then [] else
  if (S.locate kS).1 = (S.locate kD).1 then handlerW S hrm (S.locate kS).1 (S.locate kS).2 (S.locate kD).2
  else chain (oneW S hrm) kS (rm.r kS kD)

/-- the model's prediction for a world rank is the concatenation of its calls in the steps -/
theorem swapperTrace_eq (S : Swapper) (rm : RouteMap) (hrm : Nat → RouteMap) (r kS kD : Nat) :
    swapperTrace S rm hrm r kS kD = (swapperW S rm hrm kS kD).flatMap (wTrace r) := by
  rw [swapperTrace_unfold]
  unfold swapperW
  by_cases h0 : S.ext.any (· == 0) = true
  · rw [if_pos h0, if_pos h0]; rfl
  · rw [if_neg h0, if_neg h0]
    by_cases hh : (S.locate kS).1 = (S.locate kD).1
    · rw [if_pos hh, if_pos hh]; exact (handlerW_trace S hrm _ _ _ r).symm
    · rw [if_neg hh, if_neg hh, foldl_chain_eq, List.nil_append]
      exact (chain_flatMap (oneW S hrm) (oneT S hrm r) (wTrace r) (fun a b => oneW_trace S hrm r a b) _ _).symm

/-! ### E. every step of a swapper transpose is well formed -/

theorem shape_set_agree (L : Layout) (a x : Nat) {c c' : List Nat} (h : AgreeOff a c c') :
    (L.shape c).set a x = (L.shape c').set a x := by
  rw [shape_eq, shape_eq, map_range_set, map_range_set]
  apply List.map_congr_left
  intro k _
  by_cases hk : k = a
  · rw [if_pos hk, if_pos hk]
  · rw [if_neg hk, if_neg hk, shp_agree L h k hk]

/-- a communicating direct step of handler `h` uses one of the handler's axes -/
theorem stepAxis_lt_axes (S : Swapper) (h : Nat) (axes : List Nat) (hc : S.commAxes h = some axes) (i j : Nat)
    (hs : stepComm (S.handler h) i j) : stepAxis (S.handler h) i j < axes.length := by
  rw [(axesOK_of_commAxes S h axes hc).len]
  exact stepAxis_lt (S.handler h) i j hs

theorem directW_ok (S : Swapper) (h : Nat) (axes : List Nat) (hc : S.commAxes h = some axes) (i j : Nat) :
    WStepOK S.dims (directW S h i j) := by
  unfold directW
  by_cases hs : stepComm (S.handler h) i j
  · rw [if_pos hs]
    have hok := axesOK_of_commAxes S h axes hc
    have ha := stepAxis_lt_axes S h axes hc i j hs
    refine ⟨?_, ?_⟩
    · rw [hc, Option.getD_some]; exact hok.lt _ (getD_mem _ _ _ ha)
    · intro r r' _ _ hcc
      rw [hc, Option.getD_some] at hcc
      exact directCall_agree _ _ i j (topo_coords_agreeOff S h axes hc _ ha hcc)
  · rw [if_neg hs]; trivial

theorem eraseStep_length (p : List (Option Nat)) (c : Nat) : (eraseStep p c).length = p.length := by
  unfold eraseStep
  simp only []
  split
  · exact List.length_set
  · rfl

theorem erased_length (cG cS : List Nat) : (erased cG cS).length = cS.length := by
  unfold erased
  have : ∀ (l : List Nat) (p : List (Option Nat)), (l.foldl eraseStep p).length = p.length := by
    intro l
    induction l with
    | nil => intro p; rfl
    | cons c l ih => intro p; rw [List.foldl_cons, ih, eraseStep_length]
  rw [this, List.length_map]

theorem firstSome_lt (p : List (Option Nat)) (hp : 0 < p.length) : firstSome p < p.length := by
  unfold firstSome
  cases hf : (List.range p.length).find? (fun i => (p.getD i none).isSome) with
  | none => exact hp
  | some i => exact List.mem_range.1 (List.mem_of_find?_eq_some hf)

theorem nDistributed_le (n : List Nat) : nDistributed n ≤ n.length := by
  unfold nDistributed; omega

/-- a communicating gather step gathers along one of the source handler's axes -/
theorem crossIdx_lt (S : Swapper) (kS kD : Nat) (axes : List Nat) (hc : S.commAxes (S.locate kS).1 = some axes)
    (hs : crossComm S kS kD) : crossIdx S kS kD < axes.length := by
  have hok := axesOK_of_commAxes S _ axes hc
  unfold crossComm at hs
  have hpos : 0 < axes.length := by
    have := nDistributed_le (S.handlerNprocs (S.locate kS).1)
    rw [hok.len]; omega
  unfold crossIdx
  rw [getAxes_eq]
  simp only []
  rw [hc, Option.getD_some]
  have hl := erased_length ((S.commAxes (S.locate kD).1).getD []) axes
  have := firstSome_lt (erased ((S.commAxes (S.locate kD).1).getD []) axes) (by rw [hl]; exact hpos)
  rw [hl] at this
  exact this

theorem crossAxis_eq (S : Swapper) (kS kD : Nat) (axes : List Nat) (hc : S.commAxes (S.locate kS).1 = some axes) :
    crossAxis S kS kD = axes.getD (crossIdx S kS kD) 0 := by
  unfold crossAxis; rw [hc, Option.getD_some]

/-- the padded block of a gather step does not depend on the coordinate along the gathered axis -/
theorem crossCount_agree (S : Swapper) (kS kD : Nat) (axes : List Nat) (hc : S.commAxes (S.locate kS).1 = some axes)
    (hs : crossComm S kS kD) {r r' : Nat}
    (hcc : AgreeOff (crossAxis S kS kD) (coordsOf S.dims r) (coordsOf S.dims r')) :
    crossCount S r kS kD = crossCount S r' kS kD := by
  rw [crossAxis_eq S kS kD axes hc] at hcc
  unfold crossCount
  rw [shape_set_agree _ _ _ (topo_coords_agreeOff S _ axes hc _ (crossIdx_lt S kS kD axes hc hs) hcc)]

theorem crossCall_agree (S : Swapper) (kS kD : Nat) (axes : List Nat) (hc : S.commAxes (S.locate kS).1 = some axes)
    (hs : crossComm S kS kD) {r r' : Nat}
    (hcc : AgreeOff (crossAxis S kS kD) (coordsOf S.dims r) (coordsOf S.dims r')) :
    crossCall S r kS kD = crossCall S r' kS kD := by
  unfold crossCall
  rw [crossCount_agree S kS kD axes hc hs hcc]

theorem crossAxis_lt (S : Swapper) (kS kD : Nat) (axes : List Nat) (hc : S.commAxes (S.locate kS).1 = some axes)
    (hs : crossComm S kS kD) : crossAxis S kS kD < S.dims.length := by
  rw [crossAxis_eq S kS kD axes hc]
  exact (axesOK_of_commAxes S _ axes hc).lt _ (getD_mem _ _ _ (crossIdx_lt S kS kD axes hc hs))

/-- the factor `p` of the receive count is the size of the communicator the gather runs on -/
theorem crossProcs_eq (S : Swapper) (kS kD : Nat) (axes : List Nat) (hc : S.commAxes (S.locate kS).1 = some axes)
    (hs : crossComm S kS kD) :
    (S.handlerNprocs (S.locate kS).1).getD (crossIdx S kS kD) 1 = S.dims.getD (crossAxis S kS kD) 1 := by
  rw [crossAxis_eq S kS kD axes hc]
  exact (axesOK_of_commAxes S _ axes hc).procs _ (crossIdx_lt S kS kD axes hc hs)

theorem crossW_ok (S : Swapper) (kS kD : Nat) (axes : List Nat) (hc : S.commAxes (S.locate kS).1 = some axes) :
    WStepOK S.dims (crossW S kS kD) := by
  unfold crossW
  by_cases hs : crossComm S kS kD
  · rw [if_pos hs]
    exact ⟨crossAxis_lt S kS kD axes hc hs, fun r r' _ _ hcc => crossCall_agree S kS kD axes hc hs hcc⟩
  · rw [if_neg hs]; trivial

theorem handlerW_ok (S : Swapper) (hC : CommOK S) (hrm : Nat → RouteMap) (h i j : Nat) :
    ∀ w ∈ handlerW S hrm h i j, WStepOK S.dims w := by
  obtain ⟨axes, hc⟩ := hC h
  unfold handlerW
  intro w hw
  split at hw
  · cases hw
  · split at hw
    · cases hw
    · refine chain_forall _ (WStepOK S.dims) ?_ _ _ w hw
      intro a b x hx
      rw [List.mem_singleton] at hx
      subst hx
      exact directW_ok S h axes hc a b

theorem oneW_ok (S : Swapper) (hC : CommOK S) (hrm : Nat → RouteMap) (a b : Nat) :
    ∀ w ∈ oneW S hrm a b, WStepOK S.dims w := by
  unfold oneW
  intro w hw
  split at hw
  · exact handlerW_ok S hC hrm _ _ _ w hw
  · rw [List.mem_singleton] at hw
    subst hw
    obtain ⟨axes, hc⟩ := hC (S.locate a).1
    exact crossW_ok S a b axes hc

/-- **every step of `LayoutSwapper.transpose` is well formed**: it runs on the `Sub` communicator of a world axis and
    the members of every instance issue the same call -/
theorem swapperW_ok (S : Swapper) (hC : CommOK S) (rm : RouteMap) (hrm : Nat → RouteMap) (kS kD : Nat) :
    ∀ w ∈ swapperW S rm hrm kS kD, WStepOK S.dims w := by
  unfold swapperW
  intro w hw
  split at hw
  · cases hw
  · split at hw
    · exact handlerW_ok S hC hrm _ _ _ w hw
    · exact chain_forall _ (WStepOK S.dims) (fun a b => oneW_ok S hC hrm a b) _ _ w hw

/-! ### F. the global event list of a sequence of swapper transposes -/

/-- the global events of one call of `LayoutSwapper.transpose`: for each step in order, one event per instance of the
    step's communicator -/
def swapperEvents (S : Swapper) (rm : RouteMap) (hrm : Nat → RouteMap) (kS kD : Nat) : List GEvent :=
  wsEvents S.dims (swapperW S rm hrm kS kD)

/-- the global events of a sequence of calls of `LayoutSwapper.transpose` (pairs source, destination) -/
def swapperSeqEvents (S : Swapper) (rm : RouteMap) (hrm : Nat → RouteMap) (seq : List (Nat × Nat)) : List GEvent :=
  seq.flatMap (fun p => swapperEvents S rm hrm p.1 p.2)

theorem proj_swapperEvents (S : Swapper) (hC : CommOK S) (rm : RouteMap) (hrm : Nat → RouteMap) (kS kD : Nat)
    (r : Nat) (hr : r < prodL S.dims) :
    proj (swapperEvents S rm hrm kS kD) r = swapperTrace S rm hrm r kS kD := by
  unfold swapperEvents
  rw [proj_wsEvents S.dims _ (swapperW_ok S hC rm hrm kS kD) r hr, swapperTrace_eq]

theorem proj_swapperSeqEvents (S : Swapper) (hC : CommOK S) (rm : RouteMap) (hrm : Nat → RouteMap)
    (seq : List (Nat × Nat)) (r : Nat) (hr : r < prodL S.dims) :
    proj (swapperSeqEvents S rm hrm seq) r = seq.flatMap (fun p => swapperTrace S rm hrm r p.1 p.2) := by
  unfold swapperSeqEvents
  rw [proj_flatMap]
  apply List.flatMap_congr
  intro p _
  exact proj_swapperEvents S hC rm hrm p.1 p.2 r hr

/-- every event of a swapper transpose belongs to one of its steps and is a complete instance of that step's
    communicator; every member is a world rank whose call in that step is the event's call -/
theorem swapperEvents_spec (S : Swapper) (hC : CommOK S) (rm : RouteMap) (hrm : Nat → RouteMap) (kS kD : Nat)
    (g : GEvent) (hg : g ∈ swapperEvents S rm hrm kS kD) :
    ∃ ax f, some (ax, f) ∈ swapperW S rm hrm kS kD ∧ ax < S.dims.length ∧
      ∃ r0, r0 < prodL S.dims ∧ g.1 = instMembers S.dims ax (coordsOf S.dims r0) ∧
        ∀ r ∈ g.1, r < prodL S.dims ∧ AgreeOff ax (coordsOf S.dims r0) (coordsOf S.dims r) ∧
          wTrace r (some (ax, f)) = [g.2] := by
  unfold swapperEvents wsEvents at hg
  rw [List.mem_flatMap] at hg
  obtain ⟨w, hw, hgw⟩ := hg
  cases w with
  | none => cases hgw
  | some w =>
    obtain ⟨ax, f⟩ := w
    have hok := swapperW_ok S hC rm hrm kS kD _ hw
    obtain ⟨r0, hr0, hm, hall⟩ := wEvents_spec S.dims ax f hok g hgw
    refine ⟨ax, f, hw, hok.1, r0, hr0, hm, fun r hr => ?_⟩
    obtain ⟨h1, h2, h3⟩ := hall r hr
    exact ⟨h1, h2, by simp only [wTrace, h3]⟩

end PygyroVerif.SwapperTraceMatch
