/-
Bridge theorem of C03, part 6: the executable `Swapper.crossStep` on all world ranks at once, the gather branch
(destination LESS distributed): `Allgather` of the padded blocks on the sub-communicator the destination does not have,
per-rank unpack, and — without spare buffer — the final `dest[:] = source[:]`.
-/
import PygyroVerif.Lemmas.CrossStepWorld

namespace PygyroVerif.CS
open PygyroVerif PygyroVerif.Handler PygyroVerif.DS PygyroVerif.Swapper PygyroVerif.SwapperCompat
open PygyroVerif.SwapperTraceMatch

variable {α : Type} [Inhabited α]

/-! ### the stages as the model writes them -/

/-- the body of the unpack loop in the model's own notation -/
def unpackIter' (LS : Layout) (cS : List Nat) (idxS idxD bs : Nat) (tr : List Nat) (rcv : Array α) (dv : View)
    (o : Array α) (i : Nat) : Except String (Array α) := do
  let len := (LS.mpiLengthsAt idxS).getD i 0
  let st := (LS.mpiStartsAt idxS).getD i 0
  let bshape := (LS.shape cS).set idxS len
  let some bv := View.chunk rcv.size (i * bs) bshape | throw "value-error: block reshape"
  match assignView o (dv.slice idxD st (st + len)) rcv (bv.transpose tr) with
  | none => throw "value-error: could not broadcast (gather)"
  | some o' => pure o'

theorem unpackIter'_eq (LS : Layout) (cS : List Nat) (idxS idxD bs : Nat) (tr : List Nat) (rcv : Array α) (dv : View) :
    unpackIter' LS cS idxS idxD bs tr rcv dv = unpackIter LS cS idxS idxD bs tr rcv dv := by
  funext o i
  unfold unpackIter' unpackIter
  dsimp only
  cases View.chunk rcv.size (i * bs) ((LS.shape cS).set idxS ((LS.mpiLengthsAt idxS).getD i 0)) <;> rfl

/-- `Allgather` on world rank `rank` (:1352-1358): `jS` the gathered axis of the source handler, `p` its size -/
def agBody (S : Swapper) (kS x rcvRole jS p : Nat) (w : World α) (acc : World α) (rank : Nat) :
    Except String (World α) := do
  let cS := (S.topo (S.locate kS).1).coords rank
  let blockSize := prodL (((S.layoutOf kS).shape cS).set jS ((S.layoutOf kS).maxShape.getD jS 0))
  let rcv0 := acc.get rcvRole rank
  if rcv0.size < blockSize * p then throw "value-error: gather buffer too small"
  let rcv := (List.range p).foldl (fun (rb : Array α) q =>
    let other := (S.topo (S.locate kS).1).partner rank jS q
    let sb := w.get x other
    (List.range blockSize).foldl (fun rb j => rb.setIfInBounds (q * blockSize + j) (sb.getD j default)) rb) rcv0
  pure (acc.set rcvRole rank rcv)

/-- the unpack loop on world rank `rank` (:1360-1383) -/
def unpackBody (S : Swapper) (kS kD rcvRole outRole idxD jS p : Nat) (acc : World α) (rank : Nat) :
    Except String (World α) := do
  let cS := (S.topo (S.locate kS).1).coords rank; let cD := (S.topo (S.locate kD).1).coords rank
  let rcv := acc.get rcvRole rank
  let out0 := acc.get outRole rank
  let some dv := View.chunk out0.size 0 ((S.layoutOf kD).shape cD) | throw "value-error: dest reshape"
  let out ← (List.range p).foldlM (unpackIter' (S.layoutOf kS) cS jS idxD (padSize (S.layoutOf kS) cS jS)
    ((S.layoutOf kD).ord.map (fun d => (S.layoutOf kS).ord.idxOf d)) rcv dv) out0
  pure (acc.set outRole rank out)

theorem crossStep_gather_unfold (S : Swapper) (kS kD x y z : Nat) (w : World α)
    (h : nDistributed (S.handlerNprocs (S.locate kD).1) < nDistributed (S.handlerNprocs (S.locate kS).1)) :
    crossStep S kS kD x y z w =
      (do
        let ax := S.getAxes (S.locate kD).1 (S.locate kS).1 (S.layoutOf kD) (S.layoutOf kS)
        let p := (S.handlerNprocs (S.locate kS).1).getD ax.2 1
        let rcvRole := if z = x then y else z
        let outRole := if z = x then x else y
        let w1 ← (List.range (prodL S.dims)).foldlM (agBody S kS x rcvRole ax.2 p w) w
        let w2 ← (List.range (prodL S.dims)).foldlM (unpackBody S kS kD rcvRole outRole ax.1 ax.2 p) w1
        pure (if z = x then copyWhole (prodL S.dims) w2 x y else w2)) := by
  unfold crossStep
  have h1 : ¬ nDistributed (S.handlerNprocs (S.locate kD).1) = nDistributed (S.handlerNprocs (S.locate kS).1) := by omega
  have h2 : ¬ nDistributed (S.handlerNprocs (S.locate kD).1) > nDistributed (S.handlerNprocs (S.locate kS).1) := by omega
  simp only [h1, h2, if_false]
  rfl

/-! ### `dest[:] = source[:]` between two roles -/

omit [Inhabited α] in
theorem copyWhole_getD_ne [Inhabited α] (n : Nat) (w : World α) (a b r : Nat) (h : r ≠ b) :
    (copyWhole n w a b).getD r #[] = w.getD r #[] := by
  unfold copyWhole
  rw [Array.getD_eq_getD_getElem?, Array.getD_eq_getD_getElem?, Array.getElem?_setIfInBounds]
  simp [Ne.symm h]

theorem copyWhole_size (n : Nat) (w : World α) (a b : Nat) : (copyWhole n w a b).size = w.size := by
  unfold copyWhole; simp

theorem copyWhole_getD_same (n : Nat) (w : World α) (a b : Nat) (hb : b < w.size) :
    (copyWhole n w a b).getD b #[] =
      ((List.range n).map (fun rank => copyPrefix (w.get b rank) (w.get a rank) (w.get a rank).size)).toArray := by
  unfold copyWhole
  rw [Array.getD_eq_getD_getElem?, Array.getElem?_setIfInBounds]
  simp [hb]

theorem copyWhole_get (n : Nat) (w : World α) (a b : Nat) (hb : b < w.size) (rank : Nat) :
    World.get (copyWhole n w a b) b rank =
      if rank < n then copyPrefix (w.get b rank) (w.get a rank) (w.get a rank).size else #[] := by
  rw [World.get_def, copyWhole_getD_same n w a b hb, Array.getD_eq_getD_getElem?]
  by_cases hr : rank < n
  · rw [if_pos hr]
    simp [hr]
  · rw [if_neg hr]
    have : ((List.range n).map (fun rank => copyPrefix (w.get b rank) (w.get a rank) (w.get a rank).size)).toArray[rank]? =
        none := by
      rw [Array.getElem?_eq_none]; simp; omega
    rw [this]; rfl

theorem copyPrefix_size (dst src : Array α) (n : Nat) : (copyPrefix dst src n).size = dst.size := by
  rw [Buffers.copyPrefix_eq, Buffers.writeRange_size]

/-- `dest[:] = source[:]` keeps a block that the source holds, provided `dest` can take it -/
theorem holdsBlock_copyAll (L : Layout) (c : List Nat) (G : List Nat → α) (src dst : Array α)
    (hsrc : HoldsBlock L c G src) (hsz : (L.shape c).prod ≤ dst.size) :
    HoldsBlock L c G (copyPrefix dst src src.size) := by
  intro idx hidx
  have hlt := Addr.ravel_lt idx (L.shape c) ((inBox_iff_addr _ _).mp hidx)
  have hfit := holdsBlock_size L c G src hsrc
  rw [Buffers.copyPrefix_eq, Buffers.writeRange_get?, if_pos ⟨by omega, by omega⟩, Array.getD_eq_getD_getElem?,
    hsrc idx hidx, Option.getD_some]

/-! ### memory needed by a cross step -/

/-- number of cells the step `kS → kD` needs in the buffers of roles `y` and `z` on world rank `rank`: the destination
    block and, when the destination is less distributed, the `p` padded blocks received by the `Allgather` -/
def crossNeed (S : Swapper) (kS kD rank : Nat) : Nat :=
  max (((S.layoutOf kD).shape ((S.topo (S.locate kD).1).coords rank)).prod)
    (if nDistributed (S.handlerNprocs (S.locate kD).1) < nDistributed (S.handlerNprocs (S.locate kS).1) then
      padSize (S.layoutOf kS) ((S.topo (S.locate kS).1).coords rank)
          (S.getAxes (S.locate kD).1 (S.locate kS).1 (S.layoutOf kD) (S.layoutOf kS)).2 *
        (S.handlerNprocs (S.locate kS).1).getD
          (S.getAxes (S.locate kD).1 (S.locate kS).1 (S.layoutOf kD) (S.layoutOf kS)).2 1
    else 0)

/-! ### the gather branch on all ranks -/

/-- **destination less distributed, all ranks** (`_transpose` when `z = x`, `_transpose_source_intact` otherwise).
    If role `x` holds `G` in the source layout on every world rank and the buffers of roles `y`, `z` have `crossNeed`
    cells, nothing is raised, role `y` holds `G` in the destination layout on every world rank, roles other than `y`,
    `z` are untouched (with a spare buffer `z ≠ x` the source is intact) and no buffer changes its length. -/
theorem crossStep_gather_world (S : Swapper) (hS : SwapperOK S) (kS kD : Nat) (hkS : kS < S.allNames.length)
    (hkD : kD < S.allNames.length) (hh : (S.locate kS).1 ≠ (S.locate kD).1)
    (hacc : S.compatibleLayout kS kD = true ∨ S.compatibleLayout kD kS = true)
    (hlt : nDistributed (S.handlerNprocs (S.locate kD).1) < nDistributed (S.handlerNprocs (S.locate kS).1))
    (x y z : Nat) (w : World α) (G : List Nat → α) (hyx : y ≠ x) (hyz : y ≠ z) (hy : y < w.size) (hz : z < w.size)
    (hyn : (w.getD y #[]).size = prodL S.dims) (hzn : (w.getD z #[]).size = prodL S.dims)
    (hszy : ∀ rank, rank < prodL S.dims → crossNeed S kS kD rank ≤ (World.get w y rank).size)
    (hszz : ∀ rank, rank < prodL S.dims → crossNeed S kS kD rank ≤ (World.get w z rank).size)
    (hsrc : HoldsWorld (S.topo (S.locate kS).1) (S.layoutOf kS) G (w.getD x #[])) :
    ∃ w', crossStep S kS kD x y z w = .ok w' ∧
      HoldsWorld (S.topo (S.locate kD).1) (S.layoutOf kD) G (w'.getD y #[]) ∧
      (∀ r, r ≠ y → r ≠ z → w'.getD r #[] = w.getD r #[]) ∧ w'.size = w.size ∧
      (∀ role, (w'.getD role #[]).size = (w.getD role #[]).size) ∧
      (∀ role rank, (World.get w' role rank).size = (World.get w role rank).size) := by
  obtain ⟨hoS, hlS⟩ := layoutOf_ordOK S hS kS hkS
  obtain ⟨hoD, hlD⟩ := layoutOf_ordOK S hS kD hkD
  obtain ⟨cS, hcS⟩ := hS.comm (S.locate kS).1
  have hT := topo_ok S _ cS hcS
  obtain ⟨jS, hjS, hjSo, hG, hidx, hgeo⟩ := geom_diff S hS kD kS hkD hkS (fun e => hh e.symm) hacc.symm hlt
  set A := (S.layoutOf kS).ord.getD jS 0 with hA
  set n := prodL S.dims with hn
  set p := (S.handlerNprocs (S.locate kS).1).getD jS 1 with hp
  have hperm : (S.layoutOf kD).ord.Perm (S.layoutOf kS).ord := OrdOK.perm hoS hoD (by rw [hlS, hlD])
  set rcvRole := if z = x then y else z with hrcv
  set outRole := if z = x then x else y with hout
  have hroles : (z = x ∧ rcvRole = y ∧ outRole = x) ∨ (z ≠ x ∧ rcvRole = z ∧ outRole = y) := by
    by_cases e : z = x
    · left; exact ⟨e, by rw [hrcv, if_pos e], by rw [hout, if_pos e]⟩
    · right; exact ⟨e, by rw [hrcv, if_neg e], by rw [hout, if_neg e]⟩
  have hro : rcvRole ≠ outRole := by
    rcases hroles with ⟨_, e1, e2⟩ | ⟨_, e1, e2⟩
    · rw [e1, e2]; exact hyx
    · rw [e1, e2]; exact fun e => hyz e.symm
  have hrlt : rcvRole < w.size := by
    rcases hroles with ⟨_, e1, _⟩ | ⟨_, e1, _⟩ <;> rw [e1] <;> assumption
  have holt : outRole < w.size := by
    rcases hroles with ⟨e, _, e2⟩ | ⟨_, _, e2⟩
    · rw [e2, ← e]; exact hz
    · rw [e2]; exact hy
  have hrn : (w.getD rcvRole #[]).size = n := by
    rcases hroles with ⟨_, e1, _⟩ | ⟨_, e1, _⟩ <;> rw [e1] <;> assumption
  have hon : (w.getD outRole #[]).size = n := by
    rcases hroles with ⟨e, _, e2⟩ | ⟨_, _, e2⟩
    · rw [e2, ← e]; exact hzn
    · rw [e2]; exact hyn
  have hneed : ∀ rank, rank < n → crossNeed S kS kD rank =
      max (((S.layoutOf kD).shape ((S.topo (S.locate kD).1).coords rank)).prod)
        (padSize (S.layoutOf kS) ((S.topo (S.locate kS).1).coords rank) jS * p) := by
    intro rank _
    unfold crossNeed
    rw [if_pos hlt, hG]
  have hrsz : ∀ rank, rank < n → crossNeed S kS kD rank ≤ (World.get w rcvRole rank).size := by
    intro rank hr
    rcases hroles with ⟨_, e1, _⟩ | ⟨_, e1, _⟩
    · rw [e1]; exact hszy rank hr
    · rw [e1]; exact hszz rank hr
  have hosz : ∀ rank, rank < n → crossNeed S kS kD rank ≤ (World.get w outRole rank).size := by
    intro rank hr
    rcases hroles with ⟨e, _, e2⟩ | ⟨_, _, e2⟩
    · rw [e2, ← e]; exact hszz rank hr
    · rw [e2]; exact hszy rank hr
  have hppos : ∀ rank, rank < n → 0 < p := by
    intro rank hr
    have := (hT.coords rank hr).2 jS hjS
    omega
  -- stage 1: Allgather
  obtain ⟨w1, hw1, a2, a3, a4, a5, a6⟩ := ranks_step n rcvRole (agBody S kS x rcvRole jS p w) w hrlt (by rw [hrn])
    (fun rank out => ∀ q, q < p → ∀ j, j < padSize (S.layoutOf kS) ((S.topo (S.locate kS).1).coords rank) jS →
      out[q * padSize (S.layoutOf kS) ((S.topo (S.locate kS).1).coords rank) jS + j]? =
        some ((World.get w x ((S.topo (S.locate kS).1).partner rank jS q)).getD j default))
    (by
      intro rank hr
      have hfit : p * padSize (S.layoutOf kS) ((S.topo (S.locate kS).1).coords rank) jS ≤
          (World.get w rcvRole rank).size := by
        have := hrsz rank hr
        rw [hneed rank hr, Nat.mul_comm] at this
        exact Nat.le_trans (Nat.le_max_right _ _) this
      refine ⟨agRecv p (padSize (S.layoutOf kS) ((S.topo (S.locate kS).1).coords rank) jS)
        (fun q => World.get w x ((S.topo (S.locate kS).1).partner rank jS q)) (World.get w rcvRole rank), ?_,
        agRecv_size _ _ _ _, fun q hq j hj => agRecv_get _ _ _ p hfit q hq j hj⟩
      intro acc _ _ hsame
      unfold agBody
      have hnlt : ¬ (World.get w rcvRole rank).size <
          prodL (((S.layoutOf kS).shape ((S.topo (S.locate kS).1).coords rank)).set jS
            ((S.layoutOf kS).maxShape.getD jS 0)) * p := by
        have : prodL (((S.layoutOf kS).shape ((S.topo (S.locate kS).1).coords rank)).set jS
            ((S.layoutOf kS).maxShape.getD jS 0)) = padSize (S.layoutOf kS) ((S.topo (S.locate kS).1).coords rank) jS := rfl
        rw [this, Nat.mul_comm]; omega
      simp only [hsame, hnlt, if_false]
      rfl)
  have hw1x : ∀ rank, World.get w1 outRole rank = World.get w outRole rank :=
    fun rank => World.get_of_getD_eq w w1 outRole (a3 outRole (Ne.symm hro)) rank
  -- stage 2: unpack
  obtain ⟨w2, hw2, b2, b3, b4, b5, b6⟩ := ranks_step n outRole
    (unpackBody S kS kD rcvRole outRole ((S.layoutOf kD).ord.idxOf A) jS p) w1 (by rw [a4]; exact holt)
    (by rw [a3 outRole (Ne.symm hro), hon])
    (fun rank out => HoldsBlock (S.layoutOf kD) ((S.topo (S.locate kD).1).coords rank) G out)
    (by
      intro rank hr
      obtain ⟨hsame, hwhole⟩ := hgeo rank hr
      have hco := hT.coords rank hr
      obtain ⟨dv, out, e1, e2, e3, e4⟩ := gather_rank_correct (S.handlerNprocs (S.locate kS).1)
        (S.handlerNprocs (S.locate kD).1) (S.layoutOf kS).ord (S.layoutOf kD).ord S.ext
        ((S.topo (S.locate kS).1).coords rank) ((S.topo (S.locate kD).1).coords rank) hoS hoD (by rw [hlS, hlD])
        jS hjSo (by rw [hco.1]; exact hjS) (hppos rank hr)
        (fun d hd hdA => by
          have := hsame d ((hperm.mem_iff).mp hd) hdA
          exact ⟨this.1.symm, this.2.symm⟩)
        hwhole G (fun q => World.get w x ((S.topo (S.locate kS).1).partner rank jS q))
        (World.get w1 rcvRole rank) (World.get w1 outRole rank)
        (fun q hq => by
          have h1 := hT.partner_lt rank hr jS hjS q hq
          have h2 := hT.partner_coords rank hr jS hjS q hq
          have := hsrc _ h1
          rw [h2] at this
          exact this)
        (a2 rank hr)
        (by
          rw [hw1x rank]
          have := hosz rank hr
          rw [hneed rank hr] at this
          exact Nat.le_trans (Nat.le_max_left _ _) this)
      refine ⟨out, ?_, e3, e4⟩
      intro acc _ hother hsame'
      have hr' : World.get acc rcvRole rank = World.get w1 rcvRole rank := by
        rw [World.get_def, World.get_def, hother rcvRole hro]
      have e1' : View.chunk (World.get w1 outRole rank).size 0
          ((S.layoutOf kD).shape ((S.topo (S.locate kD).1).coords rank)) = some dv := e1
      unfold unpackBody
      simp only [hr', hsame', e1', unpackIter'_eq]
      have e2' : (List.range p).foldlM (unpackIter (S.layoutOf kS) ((S.topo (S.locate kS).1).coords rank) jS
          ((S.layoutOf kD).ord.idxOf A) (padSize (S.layoutOf kS) ((S.topo (S.locate kS).1).coords rank) jS)
          ((S.layoutOf kD).ord.map (fun d => (S.layoutOf kS).ord.idxOf d)) (World.get w1 rcvRole rank) dv)
          (World.get w1 outRole rank) = .ok out := e2
      rw [e2']
      rfl)
  rw [crossStep_gather_unfold S kS kD x y z w hlt, hG]
  simp only [bind, Except.bind]
  rw [hw1]
  simp only []
  rw [hw2]
  simp only [pure, Except.pure]
  -- sizes through both stages
  have hsz2 : ∀ role rank, (World.get w2 role rank).size = (World.get w role rank).size := by
    intro role rank
    by_cases h1 : role = outRole
    · rw [h1, b6 rank, hw1x rank]
    · rw [World.get_of_getD_eq w1 w2 role (b3 role h1) rank]
      by_cases h2 : role = rcvRole
      · rw [h2, a6 rank]
      · rw [World.get_of_getD_eq w w1 role (a3 role h2) rank]
  have hrow2 : ∀ role, (w2.getD role #[]).size = (w.getD role #[]).size := by
    intro role
    by_cases h1 : role = outRole
    · rw [h1, b5, a3 outRole (Ne.symm hro)]
    · rw [b3 role h1]
      by_cases h2 : role = rcvRole
      · rw [h2, a5]
      · rw [a3 role h2]
  by_cases hzx : z = x
  · -- no spare buffer: unpacked into the source, then `dest[:] = source[:]`
    have hrcvy : rcvRole = y := by rw [hrcv, if_pos hzx]
    have houtx : outRole = x := by rw [hout, if_pos hzx]
    have hy2 : y < w2.size := by rw [b4, a4]; exact hy
    refine ⟨copyWhole n w2 x y, by rw [if_pos hzx], ?_, ?_, ?_, ?_, ?_⟩
    · intro rank hr
      have hr' : rank < n := hr
      show HoldsBlock _ _ G (World.get (copyWhole n w2 x y) y rank)
      rw [copyWhole_get n w2 x y hy2 rank, if_pos hr']
      apply holdsBlock_copyAll
      · have := b2 rank hr
        rwa [houtx] at this
      · rw [hsz2 y rank]
        have := hszy rank hr
        rw [hneed rank hr] at this
        exact Nat.le_trans (Nat.le_max_left _ _) this
    · intro r hry hrz
      rw [copyWhole_getD_ne n w2 x y r hry, b3 r (by rw [houtx, ← hzx]; exact hrz), a3 r (by rw [hrcvy]; exact hry)]
    · rw [copyWhole_size, b4, a4]
    · intro role
      by_cases hry : role = y
      · rw [hry, copyWhole_getD_same n w2 x y hy2, hyn]; simp
      · rw [copyWhole_getD_ne n w2 x y role hry, hrow2 role]
    · intro role rank
      by_cases hry : role = y
      · rw [hry, copyWhole_get n w2 x y hy2 rank]
        split
        · rw [copyPrefix_size, hsz2 y rank]
        · rename_i hr
          rw [World.get_def w y rank, Array.getD_eq_getD_getElem?, Array.getElem?_eq_none (by rw [hyn]; omega)]
          rfl
      · rw [World.get_of_getD_eq w2 _ role (copyWhole_getD_ne n w2 x y role hry) rank, hsz2 role rank]
  · -- spare buffer: received into `z`, unpacked into `dest`
    have hrcvz : rcvRole = z := by rw [hrcv, if_neg hzx]
    have houty : outRole = y := by rw [hout, if_neg hzx]
    refine ⟨w2, by rw [if_neg hzx], ?_, ?_, by rw [b4, a4], hrow2, hsz2⟩
    · intro rank hr
      have := b2 rank hr
      rw [houty] at this
      exact this
    · intro r hry hrz
      rw [b3 r (by rw [houty]; exact hry), a3 r (by rw [hrcvz]; exact hrz)]

end PygyroVerif.CS
