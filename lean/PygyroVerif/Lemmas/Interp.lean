/-
Helper lemmas for Props/C08.lean and Props/C09.lean (model: Model/Interp.lean).

The three facts about Algorithm A2.2 needed here (`innerLoop_sum`, `levels_length`, `levels_sum`: partition of unity)
are re-proved in this namespace (proofs from the design-phase spike /verif/notes/lean_spike_bspline.lean.txt) so that
this file depends only on the *model* files of the B-spline kernels.
-/
import PygyroVerif.Model.Interp
import Mathlib.Algebra.BigOperators.Group.Finset.Basic
import Mathlib.Algebra.BigOperators.Group.Finset.Sigma
import Mathlib.Algebra.BigOperators.Group.Finset.Piecewise
import Mathlib.Algebra.BigOperators.Ring.Finset
import Mathlib.Algebra.BigOperators.Group.List.Basic
import Mathlib.Algebra.Order.Ring.Nat
import Mathlib.Tactic.Ring
import Mathlib.Tactic.FieldSimp
import Mathlib.Tactic.Linarith
import Mathlib.Tactic.IntervalCases
import Mathlib.Algebra.Order.Field.Rat
import Mathlib.Algebra.Group.Units.Equiv
import Mathlib.Algebra.Group.Fin.Basic
import Mathlib.Algebra.BigOperators.Group.Finset.Defs
import Mathlib.Algebra.BigOperators.Fin

set_option linter.unusedSectionVars false
set_option linter.unusedVariables false

namespace PygyroVerif.Interp
open PygyroVerif.BSpline PygyroVerif.CubicUniform Finset

variable {K : Type*} [Field K] [LinearOrder K]

/-! ### folds and sums -/

theorem foldl_add_eq_sum {α : Type*} (f : α → K) (l : List α) (a : K) :
    l.foldl (fun acc x => acc + f x) a = a + (l.map f).sum := by
  induction l generalizing a with
  | nil => simp
  | cons x xs ih => simp only [List.foldl_cons, List.map_cons, List.sum_cons]; rw [ih]; ring

/-- the accumulation loop of the evaluation kernels as a sum -/
theorem dotFrom_eq_sum (c : ℕ → K) (start : ℕ) (basis : List K) :
    dotFrom c start basis = (basis.zipIdx.map (fun bs : K × ℕ => c (start + bs.2) * bs.1)).sum := by
  unfold dotFrom
  rw [foldl_add_eq_sum (fun bs : K × ℕ => c (start + bs.2) * bs.1)]
  ring

theorem dotFrom_congr (c c' : ℕ → K) (start : ℕ) (basis : List K)
    (h : ∀ s, s < basis.length → c (start + s) = c' (start + s)) :
    dotFrom c start basis = dotFrom c' start basis := by
  rw [dotFrom_eq_sum, dotFrom_eq_sum]
  congr 1
  apply List.map_congr_left
  intro bs hbs
  have := List.snd_lt_add_of_mem_zipIdx hbs
  rw [h bs.2 (by omega)]

/-- `Σ_j (Σ_{(b,s)} [col s = j] b) · c_j = Σ_{(b,s)} b · c_{col s}` when every column index is `< nb` -/
theorem sum_indicator_mul (nb : ℕ) (col : ℕ → ℕ) (c : ℕ → K) (l : List (K × ℕ))
    (hcol : ∀ bs ∈ l, col bs.2 < nb) :
    ∑ j ∈ range nb, (l.map (fun bs : K × ℕ => if col bs.2 = j then bs.1 else 0)).sum * c j
      = (l.map (fun bs : K × ℕ => bs.1 * c (col bs.2))).sum := by
  induction l with
  | nil => simp
  | cons x xs ih =>
    simp only [List.map_cons, List.sum_cons, add_mul, sum_add_distrib]
    rw [ih (fun bs h => hcol bs (List.mem_cons_of_mem _ h))]
    congr 1
    have hx : col x.2 < nb := hcol x (List.mem_cons_self)
    have : ∀ j ∈ range nb, (if col x.2 = j then x.1 else 0) * c j = if col x.2 = j then x.1 * c (col x.2) else 0 := by
      intro j _
      split_ifs with h
      · rw [h]
      · ring
    rw [sum_congr rfl this, sum_ite_eq]
    simp [hx]

/-- row sums: `Σ_j rowOf j = Σ basis` when every column index is `< nb` -/
theorem sum_indicator (nb : ℕ) (col : ℕ → ℕ) (l : List (K × ℕ)) (hcol : ∀ bs ∈ l, col bs.2 < nb) :
    ∑ j ∈ range nb, (l.map (fun bs : K × ℕ => if col bs.2 = j then bs.1 else 0)).sum = (l.map Prod.fst).sum := by
  have := sum_indicator_mul nb col (fun _ => (1 : K)) l hcol
  simpa using this

theorem zipIdx_map_fst_sum (l : List K) (k : ℕ) : ((l.zipIdx k).map Prod.fst).sum = l.sum := by
  rw [List.zipIdx_map_fst]

/-! ### reading wrapped coefficients -/

theorem wrapped_read (periodic : Bool) (n p : ℕ) (c : ℕ → K) (hw : Wrapped periodic n p c)
    (hper : periodic = true) (hpn : p ≤ n) (k : ℕ) (hk : k < n + p) : c k = c (k % n) := by
  by_cases h : k < n
  · rw [Nat.mod_eq_of_lt h]
  · have h1 : k = n + (k - n) := by omega
    have h2 : k - n < p := by omega
    have h3 : k % n = k - n := by
      rw [Nat.mod_eq_sub_mod (by omega)]
      exact Nat.mod_eq_of_lt (by omega)
    rw [h3]
    conv_lhs => rw [h1]
    exact hw hper _ h2

theorem colIdx_lt (periodic : Bool) (nb degree span s : ℕ) (hs : s ≤ degree) (hspan : degree ≤ span)
    (hnb : 0 < nb) (hb : periodic = false → span < nb) : colIdx periodic nb degree span s < nb := by
  unfold colIdx
  cases periodic with
  | true => simpa using Nat.mod_lt _ hnb
  | false => have := hb rfl; simp; omega

/-- **index bookkeeping between collocation columns, wrap and evaluation**: the sum the evaluation kernel forms from the
    coefficient array equals the collocation row times the first `nb` coefficients -/
theorem dotFrom_eq_rowOf (periodic : Bool) (nb degree span : ℕ) (basis : List K) (c : ℕ → K)
    (hlen : basis.length = degree + 1) (hspan : degree ≤ span) (hnb : 0 < nb)
    (hclamped : periodic = false → span < nb)
    (hper : periodic = true → degree ≤ nb ∧ span < nb + degree)
    (hw : Wrapped periodic nb degree c) :
    dotFrom c (span - degree) basis = ∑ j ∈ range nb, rowOf periodic nb degree span basis j * c j := by
  rw [dotFrom_eq_sum]
  unfold rowOf
  have hmem : ∀ bs ∈ basis.zipIdx, bs.2 ≤ degree := by
    intro bs hbs
    have := List.snd_lt_add_of_mem_zipIdx hbs
    omega
  rw [sum_indicator_mul nb (colIdx periodic nb degree span) c basis.zipIdx
    (fun bs hbs => colIdx_lt periodic nb degree span bs.2 (hmem bs hbs) hspan hnb hclamped)]
  congr 1
  apply List.map_congr_left
  intro bs hbs
  have hs := hmem bs hbs
  rw [mul_comm]
  congr 1
  unfold colIdx
  cases hp : periodic with
  | false => simp
  | true =>
    simp only [if_true]
    obtain ⟨h1, h2⟩ := hper hp
    exact wrapped_read periodic nb degree c hw hp h1 _ (by omega)

/-! ### the span search stays inside the knot vector -/

theorem findSpanLoop_bounds (t : ℕ → K) (x : K) (D H : ℕ) :
    ∀ (fuel low high span : ℕ), D ≤ low → low ≤ high → high ≤ H → low < H →
      findSpanLoop t x fuel low high = some span → D ≤ span ∧ span < H := by
  intro fuel
  induction fuel with
  | zero => intro low high span _ _ _ _ h; simp [findSpanLoop] at h
  | succ fuel ih =>
    intro low high span hD hlh hhH hlH h
    simp only [findSpanLoop] at h
    have hm1 : low ≤ (low + high) / 2 := by omega
    have hm2 : (low + high) / 2 ≤ high := by omega
    have hm3 : (low + high) / 2 < H := by omega
    split_ifs at h with h1 h2
    · exact ih low ((low + high) / 2) span hD hm1 (by omega) hlH h
    · exact ih ((low + high) / 2) high span (by omega) hm2 hhH hm3 h
    · simp only [Option.some.injEq] at h
      subst h
      exact ⟨by omega, hm3⟩

/-- `degree ≤ span` and `span + degree + 2 ≤ nk`: all `degree+1` coefficient / knot accesses are in range -/
theorem findSpan_bounds (t : ℕ → K) (nk degree : ℕ) (x : K) (span : ℕ) (hnk : 2 * degree + 2 ≤ nk)
    (h : findSpan t nk degree x = some span) : degree ≤ span ∧ span + degree + 2 ≤ nk := by
  unfold findSpan at h
  simp only at h
  split_ifs at h with h1 h2
  · simp only [Option.some.injEq] at h; omega
  · simp only [Option.some.injEq] at h; omega
  · have := findSpanLoop_bounds t x degree (nk - 1 - degree) _ degree (nk - 1 - degree) span
      (le_refl _) (by omega) (le_refl _) (by omega) h
    omega

/-! ### partition of unity of Algorithm A2.2 (from the design-phase spike) -/

theorem innerLoop_length (left right : ℕ → K) (j r : ℕ) (vs : List K) (s : K) :
    (innerLoop left right j r vs s).length = vs.length + 1 := by
  induction vs generalizing r s with
  | nil => rfl
  | cons v vs ih => simp [innerLoop, ih]

theorem levels_length (left right : ℕ → K) (j : ℕ) : (levels left right j).length = j + 1 := by
  induction j with
  | zero => rfl
  | succ j ih => simp only [levels]; rw [innerLoop_length, ih]

theorem basisFuns_length (t : ℕ → K) (p : ℕ) (x : K) (span : ℕ) : (basisFuns t p x span).length = p + 1 :=
  levels_length _ _ p

theorem innerLoop_sum (left right : ℕ → K) (j : ℕ) (r : ℕ) (vs : List K) (saved : K)
    (h : ∀ i, r ≤ i → i < r + vs.length → right i + left (j - i) ≠ 0) :
    (innerLoop left right j r vs saved).sum = saved + vs.sum := by
  induction vs generalizing r saved with
  | nil => simp [innerLoop]
  | cons v vs ih =>
    have h0 : right r + left (j - r) ≠ 0 := h r (le_refl _) (by simp)
    simp only [innerLoop, List.sum_cons]
    rw [ih (r+1) _ (fun i hi hlt => h i (by omega) (by simp at hlt ⊢; omega))]
    field_simp
    ring

theorem levels_sum (left right : ℕ → K) (p : ℕ)
    (h : ∀ j i, j < p → i ≤ j → right i + left (j - i) ≠ 0) :
    (levels left right p).sum = 1 := by
  induction p with
  | zero => simp [levels]
  | succ p ih =>
    simp only [levels]
    rw [innerLoop_sum]
    · rw [ih (fun j i hj hi => h j i (by omega) hi)]; ring
    · intro i _ hi
      rw [levels_length] at hi
      exact h p i (by omega) (by omega)

/-! ### storing the solution and the periodic wrap -/

theorem wrap_consistent' (n p : ℕ) (hpn : p ≤ n) (sol c0 : ℕ → K) :
    let c := computeInterpolant1D true n p sol c0
    (∀ i, i < p → c (n + i) = c i) ∧ (∀ k, k < n → c k = sol k) ∧ (∀ k, n + p ≤ k → c k = c0 k) ∧
    (∀ k, k < n + p → c k = sol (k % n)) := by
  intro c
  have hc : ∀ k, c k = if n ≤ k ∧ k < n + p then (if k - n < n then sol (k - n) else c0 (k - n))
      else (if k < n then sol k else c0 k) := by
    intro k; simp [c, computeInterpolant1D, wrapCoeffs, storeSolution]
  have hlow : ∀ k, k < n → c k = sol k := by
    intro k hk
    rw [hc, if_neg (by omega), if_pos hk]
  have hwrap : ∀ i, i < p → c (n + i) = c i := by
    intro i hi
    rw [hlow i (by omega), hc, if_pos (by omega)]
    have : n + i - n = i := by omega
    rw [this, if_pos (by omega)]
  refine ⟨hwrap, hlow, ?_, ?_⟩
  · intro k hk
    rw [hc, if_neg (by omega), if_neg (by omega)]
  · intro k hk
    have hW : Wrapped true n p c := fun _ i hi => hwrap i hi
    rw [wrapped_read true n p c hW rfl hpn k hk]
    by_cases hn : n = 0
    · omega
    · exact hlow _ (Nat.mod_lt _ (by omega))

theorem computeInterpolant1D_spec' (periodic : Bool) (n p : ℕ) (hpn : periodic = true → p ≤ n) (sol c0 : ℕ → K) :
    Wrapped periodic n p (computeInterpolant1D periodic n p sol c0) ∧
    ∀ k, k < n → computeInterpolant1D periodic n p sol c0 k = sol k := by
  cases periodic with
  | true =>
    have h := wrap_consistent' n p (hpn rfl) sol c0
    exact ⟨fun _ i hi => h.1 i hi, h.2.1⟩
  | false =>
    refine ⟨fun h => Bool.noConfusion h, fun k hk => ?_⟩
    simp [computeInterpolant1D, storeSolution, hk]

/-! ### 1-D evaluation = collocation row · coefficients -/

theorem space_bounds (S : Space K) (hadm : S.Admissible) (span : ℕ)
    (hs : S.degree ≤ span ∧ span + S.degree + 2 ≤ S.nk) :
    0 < S.nbasis ∧ (S.periodic = false → span < S.nbasis) ∧
    (S.periodic = true → S.degree ≤ S.nbasis ∧ span < S.nbasis + S.degree) := by
  obtain ⟨_, hnk, hper⟩ := hadm
  unfold Space.nbasis
  unfold Space.ncells at *
  cases hp : S.periodic with
  | true => have := hper hp; simp; omega
  | false => simp; omega

theorem eval_eq_collocRow' (S : Space K) (hadm : S.Admissible) (x : K) (row : ℕ → K)
    (hrow : collocRow S x = some row) (c : ℕ → K) (hw : Wrapped S.periodic S.nbasis S.degree c) :
    evalSpline1D S.t S.nk S.degree c x false = some (∑ j ∈ range S.nbasis, row j * c j) := by
  unfold collocRow at hrow
  unfold evalSpline1D
  cases hfs : findSpan S.t S.nk S.degree x with
  | none => rw [hfs] at hrow; simp at hrow
  | some span =>
    rw [hfs] at hrow
    simp only [Option.map_some, Option.some.injEq] at hrow ⊢
    subst hrow
    have hb := findSpan_bounds S.t S.nk S.degree x span hadm.2.1 hfs
    obtain ⟨h0, hcl, hpe⟩ := space_bounds S hadm span hb
    simp only [basisOrDer, Bool.false_eq_true, if_false]
    exact dotFrom_eq_rowOf S.periodic S.nbasis S.degree span _ c (basisFuns_length _ _ _ _) hb.1 h0 hcl hpe hw

/-! ### 2-D -/

theorem interpolate2D_apply (per1 : Bool) (n1 p1 : ℕ) (per2 : Bool) (n2 p2 : ℕ) (sol2 sol1 w0 : ℕ → ℕ → K) (k1 k2 : ℕ) :
    interpolate2D per1 n1 p1 per2 n2 p2 sol2 sol1 w0 k1 k2 =
      wrapRows per1 n1 p1 (transpose (wrapRows per2 n2 p2
        (sweepSecond per1 n1 p1 n2 sol1 (transpose (sweepFirst n1 per2 n2 p2 sol2 w0))))) k1 k2 := rfl

theorem wrapRows_low (per : Bool) (n p : ℕ) (a : ℕ → ℕ → K) (r c : ℕ) (h : r < n) : wrapRows per n p a r c = a r c := by
  unfold wrapRows; rw [if_neg (by omega)]

theorem wrapRows_wrap (per : Bool) (n p : ℕ) (a : ℕ → ℕ → K) (hper : per = true) (hpn : p ≤ n) (i c : ℕ) (hi : i < p) :
    wrapRows per n p a (n + i) c = wrapRows per n p a i c := by
  rw [wrapRows_low per n p a i c (by omega)]
  unfold wrapRows
  rw [if_pos ⟨hper, by omega, by omega⟩]
  have : n + i - n = i := by omega
  rw [this]

theorem interpolate2D_inner (per1 : Bool) (n1 p1 : ℕ) (per2 : Bool) (n2 p2 : ℕ) (sol2 sol1 w0 : ℕ → ℕ → K)
    (hp1 : per1 = true → p1 ≤ n1) (j1 j2 : ℕ) (h1 : j1 < n1) (h2 : j2 < n2) :
    interpolate2D per1 n1 p1 per2 n2 p2 sol2 sol1 w0 j1 j2 = sol1 j2 j1 := by
  rw [interpolate2D_apply, wrapRows_low _ _ _ _ _ _ h1]
  unfold transpose
  rw [wrapRows_low _ _ _ _ _ _ h2]
  unfold sweepSecond
  rw [if_pos h2]
  exact (computeInterpolant1D_spec' per1 n1 p1 hp1 (sol1 j2) _).2 j1 h1

theorem interp_reproduces_2d'' (per1 : Bool) (n1 p1 : ℕ) (per2 : Bool) (n2 p2 : ℕ) (M1 M2 : ℕ → ℕ → K)
    (U sol2 sol1 : ℕ → ℕ → K) (W : ℕ → ℕ → K)
    (hW : ∀ j1, j1 < n1 → ∀ j2, j2 < n2 → W j1 j2 = sol1 j2 j1)
    (h2 : ∀ i1, i1 < n1 → ∀ i2, i2 < n2 → matVec M2 n2 (sol2 i1) i2 = U i1 i2)
    (h1 : ∀ i2, i2 < n2 → ∀ i1, i1 < n1 → matVec M1 n1 (sol1 i2) i1 = sweep1Data sol2 i2 i1) :
    ∀ i1, i1 < n1 → ∀ i2, i2 < n2 →
      ∑ j1 ∈ range n1, ∑ j2 ∈ range n2, M1 i1 j1 * W j1 j2 * M2 i2 j2 = U i1 i2 := by
  intro i1 hi1 i2 hi2
  rw [sum_comm]
  rw [← h2 i1 hi1 i2 hi2]
  unfold matVec
  apply sum_congr rfl
  intro j2 hj2
  have := h1 j2 (mem_range.mp hj2) i1 hi1
  unfold sweep1Data matVec at this
  rw [← this, mul_sum]
  apply sum_congr rfl
  intro j1 hj1
  rw [hW j1 (mem_range.mp hj1) j2 (mem_range.mp hj2)]
  ring

/-- wraps of the array the two sweeps leave behind -/
theorem interpolate2D_wrapped (per1 : Bool) (n1 p1 : ℕ) (per2 : Bool) (n2 p2 : ℕ) (sol2 sol1 w0 : ℕ → ℕ → K)
    (hp1 : per1 = true → p1 ≤ n1) (hp2 : per2 = true → p2 ≤ n2) :
    let W := interpolate2D per1 n1 p1 per2 n2 p2 sol2 sol1 w0
    (per1 = true → ∀ i, i < p1 → ∀ k2, W (n1 + i) k2 = W i k2) ∧
    (per2 = true → ∀ k1, ∀ i, i < p2 → W k1 (n2 + i) = W k1 i) := by
  intro W
  constructor
  · intro h1 i hi k2
    simp only [W, interpolate2D_apply]
    exact wrapRows_wrap per1 n1 p1 _ h1 (hp1 h1) i k2 hi
  · intro h2 k1 i hi
    simp only [W, interpolate2D_apply]
    -- whichever row of the transposed array the outer wrap reads, the inner wrap makes columns n2+i and i agree
    have key : ∀ r, transpose (wrapRows per2 n2 p2
        (sweepSecond per1 n1 p1 n2 sol1 (transpose (sweepFirst n1 per2 n2 p2 sol2 w0)))) r (n2 + i)
        = transpose (wrapRows per2 n2 p2
        (sweepSecond per1 n1 p1 n2 sol1 (transpose (sweepFirst n1 per2 n2 p2 sol2 w0)))) r i := by
      intro r
      unfold transpose
      exact wrapRows_wrap per2 n2 p2 _ h2 (hp2 h2) i r hi
    unfold wrapRows
    split_ifs
    · exact key _
    · exact key _

theorem evalSpline2D_eq_dotFrom (t1 : ℕ → K) (nk1 deg1 : ℕ) (t2 : ℕ → K) (nk2 deg2 : ℕ) (c : ℕ → ℕ → K)
    (x y : K) (s1 s2 : ℕ) (hs1 : findSpan t1 nk1 deg1 x = some s1) (hs2 : findSpan t2 nk2 deg2 y = some s2) :
    evalSpline2D t1 nk1 deg1 t2 nk2 deg2 c x y false false =
      some (dotFrom (fun k1 => dotFrom (c k1) (s2 - deg2) (basisFuns t2 deg2 y s2)) (s1 - deg1) (basisFuns t1 deg1 x s1)) := by
  unfold evalSpline2D
  rw [hs1, hs2]
  simp only [basisOrDer, Bool.false_eq_true, if_false]
  rfl

theorem interp_reproduces_2d_eval' (S1 S2 : Space K) (h1adm : S1.Admissible) (h2adm : S2.Admissible)
    (x1 x2 : ℕ → K) (M1 M2 : ℕ → ℕ → K)
    (hM1 : ∀ i, i < S1.nbasis → collocationMatrix S1 x1 i = some (M1 i))
    (hM2 : ∀ i, i < S2.nbasis → collocationMatrix S2 x2 i = some (M2 i))
    (U sol2 sol1 w0 : ℕ → ℕ → K)
    (h2 : ∀ i1, i1 < S1.nbasis → ∀ i2, i2 < S2.nbasis → matVec M2 S2.nbasis (sol2 i1) i2 = U i1 i2)
    (h1 : ∀ i2, i2 < S2.nbasis → ∀ i1, i1 < S1.nbasis → matVec M1 S1.nbasis (sol1 i2) i1 = sweep1Data sol2 i2 i1) :
    ∀ i1, i1 < S1.nbasis → ∀ i2, i2 < S2.nbasis →
      evalSpline2D S1.t S1.nk S1.degree S2.t S2.nk S2.degree
        (interpolate2D S1.periodic S1.nbasis S1.degree S2.periodic S2.nbasis S2.degree sol2 sol1 w0)
        (x1 i1) (x2 i2) false false = some (U i1 i2) := by
  intro i1 hi1 i2 hi2
  set W := interpolate2D S1.periodic S1.nbasis S1.degree S2.periodic S2.nbasis S2.degree sol2 sol1 w0 with hWdef
  have hp1 : S1.periodic = true → S1.degree ≤ S1.nbasis := fun h => by
    have := h1adm.2.2 h; simpa [Space.nbasis, h] using this
  have hp2 : S2.periodic = true → S2.degree ≤ S2.nbasis := fun h => by
    have := h2adm.2.2 h; simpa [Space.nbasis, h] using this
  have hwr := interpolate2D_wrapped S1.periodic S1.nbasis S1.degree S2.periodic S2.nbasis S2.degree sol2 sol1 w0 hp1 hp2
  -- spans
  have hr1 := hM1 i1 hi1
  have hr2 := hM2 i2 hi2
  unfold collocationMatrix collocRow at hr1 hr2
  cases hs1 : findSpan S1.t S1.nk S1.degree (x1 i1) with
  | none => rw [hs1] at hr1; simp at hr1
  | some s1 =>
  cases hs2 : findSpan S2.t S2.nk S2.degree (x2 i2) with
  | none => rw [hs2] at hr2; simp at hr2
  | some s2 =>
    rw [hs1] at hr1; rw [hs2] at hr2
    simp only [Option.map_some, Option.some.injEq] at hr1 hr2
    rw [evalSpline2D_eq_dotFrom _ _ _ _ _ _ _ _ _ s1 s2 hs1 hs2]
    have hb1 := findSpan_bounds S1.t S1.nk S1.degree (x1 i1) s1 h1adm.2.1 hs1
    have hb2 := findSpan_bounds S2.t S2.nk S2.degree (x2 i2) s2 h2adm.2.1 hs2
    obtain ⟨h10, h1cl, h1pe⟩ := space_bounds S1 h1adm s1 hb1
    obtain ⟨h20, h2cl, h2pe⟩ := space_bounds S2 h2adm s2 hb2
    -- inner contraction for every row the outer loop reads
    have hinner : ∀ s, s < (basisFuns S1.t S1.degree (x1 i1) s1).length →
        (fun k1 => dotFrom (W k1) (s2 - S2.degree) (basisFuns S2.t S2.degree (x2 i2) s2)) (s1 - S1.degree + s)
          = (fun k1 => ∑ j2 ∈ range S2.nbasis, M2 i2 j2 * W k1 j2) (s1 - S1.degree + s) := by
      intro s hs
      rw [basisFuns_length] at hs
      simp only
      rw [dotFrom_eq_rowOf S2.periodic S2.nbasis S2.degree s2 _ (W (s1 - S1.degree + s)) (basisFuns_length _ _ _ _)
        hb2.1 h20 h2cl h2pe ?_, hr2]
      intro hper i hi
      exact hwr.2 hper _ i hi
    rw [dotFrom_congr _ (fun k1 => ∑ j2 ∈ range S2.nbasis, M2 i2 j2 * W k1 j2) _ _ hinner]
    rw [dotFrom_eq_rowOf S1.periodic S1.nbasis S1.degree s1 _ _ (basisFuns_length _ _ _ _) hb1.1 h10 h1cl h1pe ?_, hr1]
    · congr 1
      have hmat := interp_reproduces_2d'' S1.periodic S1.nbasis S1.degree S2.periodic S2.nbasis S2.degree M1 M2 U sol2 sol1 W
        (fun j1 hj1 j2 hj2 => interpolate2D_inner _ _ _ _ _ _ sol2 sol1 w0 hp1 j1 j2 hj1 hj2) h2 h1 i1 hi1 i2 hi2
      rw [← hmat]
      apply sum_congr rfl
      intro j1 _
      rw [mul_sum]
      apply sum_congr rfl
      intro j2 _
      ring
    · intro hper i hi
      simp only
      apply sum_congr rfl
      intro j2 _
      exact congrArg (fun z => M2 i2 j2 * z) (hwr.1 hper i hi j2)

/-! ### polynomial reproduction under unisolvence -/

theorem poly_reproduction_partial' (S : Space K) (hadm : S.Admissible) (hper : S.periodic = false)
    (xs : ℕ → K) (M : ℕ → ℕ → K)
    (hM : ∀ i, i < S.nbasis → collocationMatrix S xs i = some (M i))
    (hinj : ∀ v : ℕ → K, (∀ i, i < S.nbasis → matVec M S.nbasis v i = 0) → ∀ j, j < S.nbasis → v j = 0)
    (q : K → K) (γ : ℕ → K) (dom : K → Prop)
    (hγ : ∀ x, dom x → evalSpline1D S.t S.nk S.degree γ x false = some (q x))
    (hxs : ∀ i, i < S.nbasis → dom (xs i))
    (sol c0 : ℕ → K) (hsol : ∀ i, i < S.nbasis → matVec M S.nbasis sol i = q (xs i)) :
    ∀ x, dom x →
      evalSpline1D S.t S.nk S.degree (computeInterpolant1D false S.nbasis S.degree sol c0) x false = some (q x) := by
  have hwγ : Wrapped S.periodic S.nbasis S.degree γ := fun h => by rw [hper] at h; cases h
  -- M γ = q(x_i)
  have hMγ : ∀ i, i < S.nbasis → matVec M S.nbasis γ i = q (xs i) := by
    intro i hi
    have h1 := eval_eq_collocRow' S hadm (xs i) (M i) (hM i hi) γ hwγ
    rw [hγ (xs i) (hxs i hi)] at h1
    simp only [Option.some.injEq] at h1
    exact h1.symm
  have heq : ∀ j, j < S.nbasis → sol j = γ j := by
    intro j hj
    have := hinj (fun k => sol k - γ k) (fun i hi => by
      have a := hsol i hi
      have b := hMγ i hi
      unfold matVec at a b ⊢
      simp only [mul_sub, sum_sub_distrib, a, b, sub_self]) j hj
    simpa [sub_eq_zero] using this
  intro x hx
  rw [← hγ x hx]
  unfold evalSpline1D
  cases hfs : findSpan S.t S.nk S.degree x with
  | none => rfl
  | some span =>
    simp only [Option.map_some, Option.some.injEq, basisOrDer, Bool.false_eq_true, if_false]
    have hb := findSpan_bounds S.t S.nk S.degree x span hadm.2.1 hfs
    obtain ⟨_, hcl, _⟩ := space_bounds S hadm span hb
    apply dotFrom_congr
    intro s hs
    rw [basisFuns_length] at hs
    have hlt : span - S.degree + s < S.nbasis := by have := hcl hper; omega
    simp only [computeInterpolant1D, Bool.false_eq_true, if_false, storeSolution, hlt, if_true]
    exact heq _ hlt


/-! ### quadrature (C09) -/

theorem quad_duality' (M : ℕ → ℕ → K) (n : ℕ) (w I c u : ℕ → K)
    (hw : ∀ j, j < n → matTVec M n w j = I j)
    (hc : ∀ i, i < n → matVec M n c i = u i) :
    dot n w u = dot n I c := by
  unfold dot matTVec matVec at *
  calc ∑ i ∈ range n, w i * u i = ∑ i ∈ range n, w i * ∑ j ∈ range n, M i j * c j := by
        apply sum_congr rfl; intro i hi; rw [hc i (mem_range.mp hi)]
    _ = ∑ i ∈ range n, ∑ j ∈ range n, w i * (M i j * c j) := by
        apply sum_congr rfl; intro i _; rw [mul_sum]
    _ = ∑ j ∈ range n, ∑ i ∈ range n, w i * (M i j * c j) := sum_comm
    _ = ∑ j ∈ range n, (∑ i ∈ range n, M i j * w i) * c j := by
        apply sum_congr rfl; intro j _; rw [sum_mul]; apply sum_congr rfl; intro i _; ring
    _ = ∑ j ∈ range n, I j * c j := by
        apply sum_congr rfl; intro j hj; rw [hw j (mem_range.mp hj)]

/-- `Σ_{j<n} [j<p] a_j = Σ_{j<p} a_j` for `p ≤ n` -/
theorem sum_range_ite_lt (a : ℕ → K) (n p : ℕ) (hpn : p ≤ n) :
    ∑ j ∈ range n, (if j < p then a j else 0) = ∑ j ∈ range p, a j := by
  obtain ⟨m, rfl⟩ : ∃ m, n = p + m := ⟨n - p, by omega⟩
  rw [sum_range_add]
  have h1 : ∑ j ∈ range p, (if j < p then a j else 0) = ∑ j ∈ range p, a j :=
    sum_congr rfl (fun j hj => by rw [if_pos (mem_range.mp hj)])
  have h2 : ∑ x ∈ range m, (if p + x < p then a (p + x) else 0) = 0 :=
    sum_eq_zero (fun j _ => by rw [if_neg (by omega)])
  rw [h1, h2, add_zero]

/-- the fold `basis_quads[:p] += integrals[n:]` is the adjoint of the wrap `c[n:n+p] = c[0:p]` -/
theorem basisQuads_dot_eq (n p : ℕ) (hpn : p ≤ n) (I sol c0 : ℕ → K) :
    dot n (basisQuads true n p I) sol = dot (n + p) I (computeInterpolant1D true n p sol c0) := by
  have hc := wrap_consistent' n p hpn sol c0
  simp only at hc
  obtain ⟨hwrap, hlow, _, _⟩ := hc
  unfold dot
  rw [sum_range_add]
  have e1 : ∑ x ∈ range n, I x * computeInterpolant1D true n p sol c0 x = ∑ x ∈ range n, I x * sol x :=
    sum_congr rfl (fun j hj => by rw [hlow j (mem_range.mp hj)])
  have e2 : ∑ x ∈ range p, I (n + x) * computeInterpolant1D true n p sol c0 (n + x) = ∑ x ∈ range p, I (n + x) * sol x :=
    sum_congr rfl (fun j hj => by
      have := mem_range.mp hj
      rw [hwrap j this, hlow j (by omega)])
  rw [e1, e2, ← sum_range_ite_lt (fun j => I (n + j) * sol j) n p hpn, ← sum_add_distrib]
  apply sum_congr rfl
  intro j _
  unfold basisQuads
  by_cases h : j < p
  · simp [h]; ring
  · simp [h]

theorem weights_sum' (M : ℕ → ℕ → K) (n : ℕ) (w I : ℕ → K) (L : K)
    (hw : ∀ j, j < n → matTVec M n w j = I j)
    (hrow : ∀ i, i < n → ∑ j ∈ range n, M i j = 1)
    (hI : ∑ j ∈ range n, I j = L) :
    ∑ i ∈ range n, w i = L := by
  have h := quad_duality' M n w I (fun _ => 1) (fun _ => 1) hw (fun i hi => by simp [matVec, hrow i hi])
  simpa [dot, hI] using h

/-- telescoping: `Σ_{i<n} (t_{i+d+1} - t_i) = Σ_{k≤d} (t_{n+k} - t_k)` -/
theorem sum_knot_diffs (t : ℕ → K) (d n : ℕ) :
    ∑ i ∈ range n, (t (i + d + 1) - t i) = ∑ k ∈ range (d + 1), (t (n + k) - t k) := by
  induction n with
  | zero => simp
  | succ n ih =>
    rw [sum_range_succ, ih]
    have e1 : ∑ k ∈ range (d + 1), (t (n + 1 + k) - t k) = ∑ k ∈ range (d + 1), t (n + 1 + k) - ∑ k ∈ range (d + 1), t k :=
      sum_sub_distrib _ _
    have e2 : ∑ k ∈ range (d + 1), (t (n + k) - t k) = ∑ k ∈ range (d + 1), t (n + k) - ∑ k ∈ range (d + 1), t k :=
      sum_sub_distrib _ _
    rw [e1, e2, sum_range_succ (fun k => t (n + 1 + k)), sum_range_succ' (fun k => t (n + k))]
    have e3 : ∑ k ∈ range d, t (n + 1 + k) = ∑ k ∈ range d, t (n + (k + 1)) :=
      sum_congr rfl (fun k _ => by congr 1; omega)
    rw [e3]
    have e4 : n + 1 + d = n + d + 1 := by omega
    rw [e4]
    simp only [add_zero]
    ring


/-! ### circulant systems with a constant right-hand side have constant solutions -/

theorem fin_val_succ (n : ℕ) [NeZero n] (i : Fin n) : (i + 1).val = (i.val + 1) % n := by
  rw [Fin.val_add, Fin.val_one', Nat.add_mod_mod]

theorem circulant_equal (n : ℕ) [NeZero n] (M : Fin n → Fin n → K) (w : Fin n → K) (Ic : K)
    (hcirc : ∀ i j, M (i + 1) (j + 1) = M i j)
    (hinj : ∀ v : Fin n → K, (∀ j, ∑ i, M i j * v i = 0) → ∀ i, v i = 0)
    (hw : ∀ j, ∑ i, M i j * w i = Ic) :
    ∀ i, w (i + 1) = w i := by
  -- the shifted vector solves the same system
  have hshift : ∀ j, ∑ i, M i j * w (i + 1) = Ic := by
    intro j
    have : ∑ i, M i j * w (i + 1) = ∑ i, M (i + 1) (j + 1) * w (i + 1) :=
      Fintype.sum_congr _ _ (fun i => by rw [hcirc])
    rw [this]
    have := Equiv.sum_comp (Equiv.addRight (1 : Fin n)) (fun i => M i (j + 1) * w i)
    simp only [Equiv.coe_addRight] at this
    rw [this]
    exact hw (j + 1)
  have := hinj (fun i => w (i + 1) - w i) (fun j => by
    simp only [mul_sub, Finset.sum_sub_distrib, hshift j, hw j, sub_self])
  intro i
  have := this i
  simpa [sub_eq_zero] using this

theorem circulant_equal_nat (n : ℕ) (hn : 0 < n) (M : ℕ → ℕ → K) (w : ℕ → K) (Ic : K)
    (hcirc : ∀ i j, i < n → j < n → M ((i + 1) % n) ((j + 1) % n) = M i j)
    (hinj : ∀ v : ℕ → K, (∀ j, j < n → matTVec M n v j = 0) → ∀ i, i < n → v i = 0)
    (hw : ∀ j, j < n → matTVec M n w j = Ic) :
    ∀ i, i < n → w i = w 0 := by
  have : NeZero n := ⟨by omega⟩
  have hsum : ∀ (f : ℕ → K), ∑ i : Fin n, f i.val = ∑ i ∈ range n, f i := fun f => Fin.sum_univ_eq_sum_range f n
  have key := circulant_equal n (fun i j => M i.val j.val) (fun i => w i.val) Ic
    (fun i j => by simp only [fin_val_succ]; exact hcirc _ _ i.isLt j.isLt)
    (fun v hv i => by
      have := hinj (fun k => if h : k < n then v ⟨k, h⟩ else 0) (fun j hj => by
        refine Eq.trans ?_ (hv ⟨j, hj⟩)
        unfold matTVec
        rw [← hsum (fun i => M i j * (if h : i < n then v ⟨i, h⟩ else 0))]
        apply Fintype.sum_congr
        intro i
        simp [i.isLt]) i.val i.isLt
      simpa [i.isLt] using this)
    (fun j => by
      have := hw j.val j.isLt
      unfold matTVec at this
      rw [← this, ← hsum (fun i => M i j.val * w i)])
  have step : ∀ i, i + 1 < n → w (i + 1) = w i := by
    intro i hi
    have := key ⟨i, by omega⟩
    simp only [fin_val_succ] at this
    rwa [Nat.mod_eq_of_lt hi] at this
  intro i hi
  induction i with
  | zero => rfl
  | succ i ih => rw [step i hi, ih (by omega)]

/-! ### partition of unity of the collocation rows -/

theorem basisFuns_sum_one [IsStrictOrderedRing K] (t : ℕ → K) (ht : Monotone t) (p span : ℕ) (x : K)
    (hcell : t span < t (span + 1)) : (basisFuns t p x span).sum = 1 := by
  unfold basisFuns
  apply levels_sum
  intro j i _ _
  unfold rightOf leftOf
  have h1 : t (span - (j - i)) ≤ t span := ht (by omega)
  have h2 : t (span + 1) ≤ t (span + 1 + i) := ht (by omega)
  have : 0 < t (span + 1 + i) - x + (x - t (span - (j - i))) := by linarith
  exact ne_of_gt this

theorem collocRow_sum_one [IsStrictOrderedRing K] (S : Space K) (hadm : S.Admissible) (ht : Monotone S.t)
    (hcell : ∀ s, S.degree ≤ s → s + S.degree + 2 ≤ S.nk → S.t s < S.t (s + 1))
    (x : K) (row : ℕ → K) (hrow : collocRow S x = some row) : ∑ j ∈ range S.nbasis, row j = 1 := by
  unfold collocRow at hrow
  cases hfs : findSpan S.t S.nk S.degree x with
  | none => rw [hfs] at hrow; simp at hrow
  | some span =>
    rw [hfs] at hrow
    simp only [Option.map_some, Option.some.injEq] at hrow
    subst hrow
    have hb := findSpan_bounds S.t S.nk S.degree x span hadm.2.1 hfs
    obtain ⟨h0, hcl, hpe⟩ := space_bounds S hadm span hb
    unfold rowOf
    rw [sum_indicator S.nbasis (colIdx S.periodic S.nbasis S.degree span) _ (fun bs hbs => by
      have := List.snd_lt_add_of_mem_zipIdx hbs
      rw [basisFuns_length] at this
      exact colIdx_lt S.periodic S.nbasis S.degree span bs.2 (by omega) hb.1 h0 hcl)]
    rw [zipIdx_map_fst_sum]
    exact basisFuns_sum_one S.t ht S.degree span x (hcell span hb.1 hb.2)

/-! ### the uniform-cubic path -/

theorem cuFindSpan_bounds (trunc : K → ℤ) (xmin dx x : K) (ncells : ℕ)
    (h0 : 0 ≤ trunc ((x - xmin) / dx)) (h1 : trunc ((x - xmin) / dx) ≤ ncells) (hnc : 0 < ncells) :
    3 ≤ (cuFindSpan trunc xmin dx x (ncells : ℤ)).1.toNat ∧ (cuFindSpan trunc xmin dx x (ncells : ℤ)).1.toNat < ncells + 3 ∧
    ((cuFindSpan trunc xmin dx x (ncells : ℤ)).1 - 3).toNat = (cuFindSpan trunc xmin dx x (ncells : ℤ)).1.toNat - 3 := by
  unfold cuFindSpan
  simp only
  split_ifs with h
  · simp only; omega
  · simp only; omega

theorem cuEval_eq_collocRow (trunc : K → ℤ) (xmin dx x : K) (ncells : ℕ) (periodic : Bool)
    (h0 : 0 ≤ trunc ((x - xmin) / dx)) (h1 : trunc ((x - xmin) / dx) ≤ ncells) (hnc : 0 < ncells)
    (hper : periodic = true → 3 ≤ ncells) (c : ℕ → K) (hw : Wrapped periodic (cuNb ncells periodic) 3 c) :
    cuEvalSpline1D trunc xmin dx (ncells : ℤ) c x false
      = ∑ j ∈ range (cuNb ncells periodic), cuCollocRow trunc xmin dx ncells (cuNb ncells periodic) periodic x j * c j := by
  obtain ⟨b1, b2, b3⟩ := cuFindSpan_bounds trunc xmin dx x ncells h0 h1 hnc
  unfold cuEvalSpline1D cuCollocRow
  simp only [cuBasisOrDer, Bool.false_eq_true, if_false]
  rw [b3]
  apply dotFrom_eq_rowOf periodic (cuNb ncells periodic) 3 _ _ c (by simp [cuBasisFuns]) b1
  · unfold cuNb; split_ifs <;> omega
  · intro h; unfold cuNb; rw [h]; simp; omega
  · intro h; have := hper h; unfold cuNb; rw [h]; simp; omega
  · exact hw

/-! ### translation invariance on uniform knots; circulance of the periodic collocation matrix -/

theorem innerLoop_congr (left right left' right' : ℕ → K) (j : ℕ) :
    ∀ (vs : List K) (r : ℕ) (s : K), r + vs.length ≤ j + 1 →
      (∀ k, k ≤ j → left k = left' k) → (∀ k, k ≤ j → right k = right' k) →
      innerLoop left right j r vs s = innerLoop left' right' j r vs s
  | [], _, _, _, _, _ => rfl
  | v :: vs, r, s, hlen, hl, hr => by
    simp only [List.length_cons] at hlen
    simp only [innerLoop]
    rw [hl (j - r) (by omega), hr r (by omega)]
    rw [innerLoop_congr left right left' right' j vs (r + 1) _ (by omega) hl hr]

theorem levels_congr (left right left' right' : ℕ → K) (p : ℕ)
    (hl : ∀ k, k < p → left k = left' k) (hr : ∀ k, k < p → right k = right' k) :
    levels left right p = levels left' right' p := by
  induction p with
  | zero => rfl
  | succ p ih =>
    simp only [levels]
    rw [ih (fun k hk => hl k (by omega)) (fun k hk => hr k (by omega))]
    apply innerLoop_congr
    · rw [levels_length]; omega
    · intro k hk; exact hl k (by omega)
    · intro k hk; exact hr k (by omega)

/-- translation invariance on uniform knots: the basis values at `x + m·h` in cell `span + m` are those at `x` in cell `span` -/
theorem basisFuns_uniform_shift (a h : K) (t : ℕ → K) (ht : ∀ i, t i = a + (i : K) * h) (p span m : ℕ) (x : K)
    (hspan : p ≤ span + 1) :
    basisFuns t p (x + (m : K) * h) (span + m) = basisFuns t p x span := by
  unfold basisFuns
  apply levels_congr
  · intro k hk
    unfold leftOf
    rw [ht, ht]
    have e : ((span + m - k : ℕ) : K) = ((span - k : ℕ) : K) + (m : K) := by
      have : span + m - k = span - k + m := by omega
      rw [this]; push_cast; ring
    rw [e]; ring
  · intro k _
    unfold rightOf
    rw [ht, ht]
    have : span + m + 1 + k = span + 1 + k + m := by omega
    rw [this]; push_cast; ring

theorem succ_mod_inj (nb r j : ℕ) (hr : r < nb) (hj : j < nb) : (r + 1) % nb = (j + 1) % nb ↔ r = j := by
  constructor
  · intro h
    by_cases h1 : r + 1 < nb <;> by_cases h2 : j + 1 < nb
    · rw [Nat.mod_eq_of_lt h1, Nat.mod_eq_of_lt h2] at h; omega
    · have : j + 1 = nb := by omega
      rw [Nat.mod_eq_of_lt h1, this, Nat.mod_self] at h; omega
    · have : r + 1 = nb := by omega
      rw [Nat.mod_eq_of_lt h2, this, Nat.mod_self] at h; omega
    · omega
  · intro h; rw [h]

/-- shifting the span by one shifts the periodic columns by one -/
theorem rowOf_shift (nb p span : ℕ) (hnb : 0 < nb) (hp : p ≤ span) (basis : List K) (j : ℕ) (hj : j < nb) :
    rowOf true nb p (span + 1) basis ((j + 1) % nb) = rowOf true nb p span basis j := by
  unfold rowOf
  congr 1
  apply List.map_congr_left
  intro bs _
  unfold colIdx
  simp only [if_true]
  have e : span + 1 - p + bs.2 = (span - p + bs.2) + 1 := by omega
  rw [e]
  have key : ((span - p + bs.2 + 1) % nb = (j + 1) % nb) ↔ ((span - p + bs.2) % nb = j) := by
    rw [← Nat.mod_add_mod (span - p + bs.2) nb 1]
    exact succ_mod_inj nb _ j (Nat.mod_lt _ hnb) hj
  by_cases hc : (span - p + bs.2) % nb = j
  · rw [if_pos hc, if_pos (key.mpr hc)]
  · rw [if_neg hc, if_neg (fun h => hc (key.mp h))]

/-- the same row read `nb` spans earlier (the seam): columns are taken mod `nb` -/
theorem rowOf_sub_period (nb p span : ℕ) (hp : p + nb ≤ span) (basis : List K) (j : ℕ) :
    rowOf true nb p (span - nb) basis j = rowOf true nb p span basis j := by
  unfold rowOf
  congr 1
  apply List.map_congr_left
  intro bs _
  unfold colIdx
  simp only [if_true]
  have e : span - p + bs.2 = (span - nb - p + bs.2) + nb := by omega
  rw [e, Nat.add_mod_right]

/-- **circulance of the collocation matrix on uniform periodic knots**, given where the span search lands:
    knots `t_i = a + i·h`, points `x_i = x₀ + i·h` found in cell `s₀ + i` (`i < n`) -/
theorem uniform_periodic_circulant (a h x0 : K) (t : ℕ → K) (ht : ∀ i, t i = a + (i : K) * h) (n p s0 : ℕ) (hn : 0 < n)
    (hs0 : p ≤ s0) (M : ℕ → ℕ → K)
    (hM : ∀ i, i < n → M i = rowOf true n p (s0 + i) (basisFuns t p (x0 + (i : K) * h) (s0 + i))) :
    ∀ i j, i < n → j < n → M ((i + 1) % n) ((j + 1) % n) = M i j := by
  intro i j hi hj
  have hB : ∀ m : ℕ, basisFuns t p (x0 + (m : K) * h) (s0 + m) = basisFuns t p x0 s0 :=
    fun m => basisFuns_uniform_shift a h t ht p s0 m x0 (by omega)
  rw [hM i hi, hM _ (Nat.mod_lt _ hn), hB, hB]
  by_cases h1 : i + 1 < n
  · rw [Nat.mod_eq_of_lt h1]
    exact rowOf_shift n p (s0 + i) hn (by omega) _ j hj
  · have hin : i + 1 = n := by omega
    rw [hin, Nat.mod_self, Nat.add_zero]
    have := rowOf_shift (K := K) n p (s0 + i) hn (by omega) (basisFuns t p x0 s0) j hj
    rw [← this, ← rowOf_sub_period n p (s0 + i + 1) (by omega)]
    congr 2
    omega

/-! ### a concrete instance (non-vacuity of the C08/C09 hypotheses): degree 2, periodic, 3 uniform cells on [0,3] -/
namespace Inst
def S : Space ℚ := ⟨fun i => (i : ℚ) - 2, 8, 2, true⟩
/-- the Greville points `BSplines.greville` computes for `S`: 1/2, 3/2, 5/2 -/
def xs : ℕ → ℚ := fun i => (i : ℚ) + 1/2
def M : ℕ → ℕ → ℚ := fun i => rowOf true 3 2 (i + 2) (basisFuns S.t 2 (xs i) (i + 2))
def sol : ℕ → ℚ := fun j => (j : ℚ) + 1
def u : ℕ → ℚ := fun i => if i = 0 then 2 else if i = 1 then 21/8 else 11/8

theorem hadm : S.Admissible := ⟨by decide, by decide, fun _ => by decide⟩
theorem hnb : S.nbasis = 3 := by decide
theorem hM : ∀ i, i < S.nbasis → collocationMatrix S xs i = some (M i) := by
  intro i hi
  rw [hnb] at hi
  have hspan : findSpan S.t S.nk S.degree (xs i) = some (i + 2) := by
    interval_cases i <;> norm_num [findSpan, findSpanLoop, S, xs]
  unfold collocationMatrix collocRow
  rw [hspan]
  rfl
theorem hsol : ∀ i, i < S.nbasis → matVec M S.nbasis sol i = u i := by
  intro i hi
  rw [hnb] at hi ⊢
  interval_cases i <;>
    norm_num [matVec, M, sol, u, S, xs, sum_range_succ, rowOf, colIdx, basisFuns, levels, innerLoop, leftOf, rightOf]
theorem hM_entries : M 0 0 = 1/8 ∧ M 0 1 = 3/4 ∧ M 0 2 = 1/8 ∧ M 1 0 = 1/8 ∧ M 1 1 = 1/8 ∧ M 1 2 = 3/4 ∧
    M 2 0 = 3/4 ∧ M 2 1 = 1/8 ∧ M 2 2 = 1/8 := by
  refine ⟨?_, ?_, ?_, ?_, ?_, ?_, ?_, ?_, ?_⟩ <;>
    norm_num [M, S, xs, rowOf, colIdx, basisFuns, levels, innerLoop, leftOf, rightOf]

theorem matVec_smul (M : ℕ → ℕ → ℚ) (n : ℕ) (a : ℚ) (v : ℕ → ℚ) (i : ℕ) :
    matVec M n (fun j => a * v j) i = a * matVec M n v i := by
  unfold matVec; rw [mul_sum]; apply sum_congr rfl; intro j _; ring

/-- rank-one 2-D instance on `S × S`: `U = u ⊗ u`, first sweep returns `u_{i1}·sol`, second sweep `sol_{i2}·sol` -/
def sol2 : ℕ → ℕ → ℚ := fun i1 j2 => u i1 * sol j2
def sol1 : ℕ → ℕ → ℚ := fun i2 j1 => sol i2 * sol j1
def U : ℕ → ℕ → ℚ := fun i1 i2 => u i1 * u i2

theorem h2 : ∀ i1, i1 < S.nbasis → ∀ i2, i2 < S.nbasis → matVec M S.nbasis (sol2 i1) i2 = U i1 i2 := by
  intro i1 _ i2 hi2
  unfold sol2 U
  rw [matVec_smul, hsol i2 hi2]
theorem h1 : ∀ i2, i2 < S.nbasis → ∀ i1, i1 < S.nbasis → matVec M S.nbasis (sol1 i2) i1 = sweep1Data sol2 i2 i1 := by
  intro i2 _ i1 hi1
  unfold sol1 sweep1Data sol2
  rw [matVec_smul, hsol i1 hi1]; ring

theorem tmono : Monotone S.t := by
  intro a b h
  simp only [S]
  have : (a : ℚ) ≤ (b : ℚ) := by exact_mod_cast h
  linarith
theorem hcell : ∀ s, S.degree ≤ s → s + S.degree + 2 ≤ S.nk → S.t s < S.t (s + 1) := by
  intro s _ _
  simp only [S]
  push_cast
  linarith

theorem hinjT : ∀ v : ℕ → ℚ, (∀ j, j < 3 → matTVec M 3 v j = 0) → ∀ i, i < 3 → v i = 0 := by
  intro v hv i hi
  obtain ⟨a, b, c, d, e, f, g, h, k⟩ := hM_entries
  have e0 := hv 0 (by decide)
  have e1 := hv 1 (by decide)
  have e2 := hv 2 (by decide)
  simp only [matTVec, sum_range_succ, sum_range_zero, zero_add, a, b, c, d, e, f, g, h, k] at e0 e1 e2
  interval_cases i <;> linarith
end Inst

/-! clamped instance: degree 1, two cells, knots 0,0,1,2,2; polynomial `q(x) = 2x+1` -/
namespace Inst2
def S : Space ℚ := ⟨fun i => if i ≤ 1 then 0 else if i = 2 then 1 else 2, 5, 1, false⟩
def xs : ℕ → ℚ := fun i => (i : ℚ)
def span : ℕ → ℕ := fun i => if i = 0 then 1 else 2
def M : ℕ → ℕ → ℚ := fun i => rowOf false 3 1 (span i) (basisFuns S.t 1 (xs i) (span i))
def q : ℚ → ℚ := fun x => 2 * x + 1
def γ : ℕ → ℚ := fun j => 2 * (j : ℚ) + 1
def dom : ℚ → Prop := fun x => x = 0 ∨ x = 1/2 ∨ x = 1 ∨ x = 2

theorem hadm : S.Admissible := ⟨by decide, by decide, fun h => by cases h⟩
theorem hnb : S.nbasis = 3 := by decide
theorem hM : ∀ i, i < S.nbasis → collocationMatrix S xs i = some (M i) := by
  intro i hi
  rw [hnb] at hi
  have hspan : findSpan S.t S.nk S.degree (xs i) = some (span i) := by
    interval_cases i <;> norm_num [findSpan, findSpanLoop, S, xs, span]
  unfold collocationMatrix collocRow
  rw [hspan]
  rfl
theorem hM_id : ∀ i j, i < 3 → j < 3 → M i j = if i = j then 1 else 0 := by
  intro i j hi hj
  interval_cases i <;> interval_cases j <;>
    norm_num [M, S, xs, span, rowOf, colIdx, basisFuns, levels, innerLoop, leftOf, rightOf]
theorem hmv : ∀ (v : ℕ → ℚ) i, i < 3 → matVec M 3 v i = v i := by
  intro v i hi
  unfold matVec
  interval_cases i <;> simp [sum_range_succ, hM_id]
theorem hγ : ∀ x, dom x → evalSpline1D S.t S.nk S.degree γ x false = some (q x) := by
  intro x hx
  rcases hx with rfl | rfl | rfl | rfl <;>
    norm_num [evalSpline1D, findSpan, findSpanLoop, S, dotFrom, basisOrDer, basisFuns, levels, innerLoop, leftOf, rightOf, γ, q]
end Inst2

end PygyroVerif.Interp
