/-
Helper lemmas for Props/C08.lean and Props/C09.lean (model: Model/Interp.lean).

The three facts about Algorithm A2.2 needed here (`innerLoop_sum`, `levels_length`, `levels_sum`: partition of unity)
are re-proved in this namespace (proofs from the design-phase spike /verif/notes/lean_spike_bspline.lean.txt) so that
this file depends only on the *model* files of the B-spline kernels.
-/
import PygyroVerif.Model.Interp
import Mathlib.Algebra.BigOperators.Group.Finset.Basic
import Mathlib.Algebra.BigOperators.Group.Finset.Sigma
import Mathlib.Algebra.BigOperators.Group.Finset.Piecewise
import Mathlib.Algebra.BigOperators.Ring.Finset
import Mathlib.Algebra.BigOperators.Group.List.Basic
import Mathlib.Algebra.Order.Ring.Nat
import Mathlib.Tactic.Ring
import Mathlib.Tactic.FieldSimp
import Mathlib.Tactic.Linarith

set_option linter.unusedSectionVars false

namespace PygyroVerif.Interp
open PygyroVerif.BSpline PygyroVerif.CubicUniform Finset

variable {K : Type*} [Field K] [LinearOrder K]

/-! ### folds and sums -/

theorem foldl_add_eq_sum {α : Type*} (f : α → K) (l : List α) (a : K) :
    l.foldl (fun acc x => acc + f x) a = a + (l.map f).sum := by
  induction l generalizing a with
  | nil => simp
  | cons x xs ih => simp only [List.foldl_cons, List.map_cons, List.sum_cons]; rw [ih]; ring

/-- the accumulation loop of the evaluation kernels as a sum -/
theorem dotFrom_eq_sum (c : ℕ → K) (start : ℕ) (basis : List K) :
    dotFrom c start basis = (basis.zipIdx.map (fun bs : K × ℕ => c (start + bs.2) * bs.1)).sum := by
  unfold dotFrom
  rw [foldl_add_eq_sum (fun bs : K × ℕ => c (start + bs.2) * bs.1)]
  ring

theorem dotFrom_congr (c c' : ℕ → K) (start : ℕ) (basis : List K)
    (h : ∀ s, s < basis.length → c (start + s) = c' (start + s)) :
    dotFrom c start basis = dotFrom c' start basis := by
  rw [dotFrom_eq_sum, dotFrom_eq_sum]
  congr 1
  apply List.map_congr_left
  intro bs hbs
  have := List.snd_lt_add_of_mem_zipIdx hbs
  rw [h bs.2 (by omega)]

/-- `Σ_j (Σ_{(b,s)} [col s = j] b) · c_j = Σ_{(b,s)} b · c_{col s}` when every column index is `< nb` -/
theorem sum_indicator_mul (nb : ℕ) (col : ℕ → ℕ) (c : ℕ → K) (l : List (K × ℕ))
    (hcol : ∀ bs ∈ l, col bs.2 < nb) :
    ∑ j ∈ range nb, (l.map (fun bs : K × ℕ => if col bs.2 = j then bs.1 else 0)).sum * c j
      = (l.map (fun bs : K × ℕ => bs.1 * c (col bs.2))).sum := by
  induction l with
  | nil => simp
  | cons x xs ih =>
    simp only [List.map_cons, List.sum_cons, add_mul, sum_add_distrib]
    rw [ih (fun bs h => hcol bs (List.mem_cons_of_mem _ h))]
    congr 1
    have hx : col x.2 < nb := hcol x (List.mem_cons_self)
    have : ∀ j ∈ range nb, (if col x.2 = j then x.1 else 0) * c j = if col x.2 = j then x.1 * c (col x.2) else 0 := by
      intro j _
      split_ifs with h
      · rw [h]
      · ring
    rw [sum_congr rfl this, sum_ite_eq]
    simp [hx]

/-- row sums: `Σ_j rowOf j = Σ basis` when every column index is `< nb` -/
theorem sum_indicator (nb : ℕ) (col : ℕ → ℕ) (l : List (K × ℕ)) (hcol : ∀ bs ∈ l, col bs.2 < nb) :
    ∑ j ∈ range nb, (l.map (fun bs : K × ℕ => if col bs.2 = j then bs.1 else 0)).sum = (l.map Prod.fst).sum := by
  have := sum_indicator_mul nb col (fun _ => (1 : K)) l hcol
  simpa using this

theorem zipIdx_map_fst_sum (l : List K) (k : ℕ) : ((l.zipIdx k).map Prod.fst).sum = l.sum := by
  rw [List.zipIdx_map_fst]

/-! ### reading wrapped coefficients -/

theorem wrapped_read (periodic : Bool) (n p : ℕ) (c : ℕ → K) (hw : Wrapped periodic n p c)
    (hper : periodic = true) (hpn : p ≤ n) (k : ℕ) (hk : k < n + p) : c k = c (k % n) := by
  by_cases h : k < n
  · rw [Nat.mod_eq_of_lt h]
  · have h1 : k = n + (k - n) := by omega
    have h2 : k - n < p := by omega
    have h3 : k % n = k - n := by
      rw [Nat.mod_eq_sub_mod (by omega)]
      exact Nat.mod_eq_of_lt (by omega)
    rw [h3]
    conv_lhs => rw [h1]
    exact hw hper _ h2

theorem colIdx_lt (periodic : Bool) (nb degree span s : ℕ) (hs : s ≤ degree) (hspan : degree ≤ span)
    (hnb : 0 < nb) (hb : periodic = false → span < nb) : colIdx periodic nb degree span s < nb := by
  unfold colIdx
  cases periodic with
  | true => simpa using Nat.mod_lt _ hnb
  | false => have := hb rfl; simp; omega

/-- **index bookkeeping between collocation columns, wrap and evaluation**: the sum the evaluation kernel forms from the
    coefficient array equals the collocation row times the first `nb` coefficients -/
theorem dotFrom_eq_rowOf (periodic : Bool) (nb degree span : ℕ) (basis : List K) (c : ℕ → K)
    (hlen : basis.length = degree + 1) (hspan : degree ≤ span) (hnb : 0 < nb)
    (hclamped : periodic = false → span < nb)
    (hper : periodic = true → degree ≤ nb ∧ span < nb + degree)
    (hw : Wrapped periodic nb degree c) :
    dotFrom c (span - degree) basis = ∑ j ∈ range nb, rowOf periodic nb degree span basis j * c j := by
  rw [dotFrom_eq_sum]
  unfold rowOf
  have hmem : ∀ bs ∈ basis.zipIdx, bs.2 ≤ degree := by
    intro bs hbs
    have := List.snd_lt_add_of_mem_zipIdx hbs
    omega
  rw [sum_indicator_mul nb (colIdx periodic nb degree span) c basis.zipIdx
    (fun bs hbs => colIdx_lt periodic nb degree span bs.2 (hmem bs hbs) hspan hnb hclamped)]
  congr 1
  apply List.map_congr_left
  intro bs hbs
  have hs := hmem bs hbs
  rw [mul_comm]
  congr 1
  unfold colIdx
  cases hp : periodic with
  | false => simp
  | true =>
    simp only [if_true]
    obtain ⟨h1, h2⟩ := hper hp
    exact wrapped_read periodic nb degree c hw hp h1 _ (by omega)

/-! ### the span search stays inside the knot vector -/

theorem findSpanLoop_bounds (t : ℕ → K) (x : K) (D H : ℕ) :
    ∀ (fuel low high span : ℕ), D ≤ low → low ≤ high → high ≤ H → low < H →
      findSpanLoop t x fuel low high = some span → D ≤ span ∧ span < H := by
  intro fuel
  induction fuel with
  | zero => intro low high span _ _ _ _ h; simp [findSpanLoop] at h
  | succ fuel ih =>
    intro low high span hD hlh hhH hlH h
    simp only [findSpanLoop] at h
    have hm1 : low ≤ (low + high) / 2 := by omega
    have hm2 : (low + high) / 2 ≤ high := by omega
    have hm3 : (low + high) / 2 < H := by omega
    split_ifs at h with h1 h2
    · exact ih low ((low + high) / 2) span hD hm1 (by omega) hlH h
    · exact ih ((low + high) / 2) high span (by omega) hm2 hhH hm3 h
    · simp only [Option.some.injEq] at h
      subst h
      exact ⟨by omega, hm3⟩

/-- `degree ≤ span` and `span + degree + 2 ≤ nk`: all `degree+1` coefficient / knot accesses are in range -/
theorem findSpan_bounds (t : ℕ → K) (nk degree : ℕ) (x : K) (span : ℕ) (hnk : 2 * degree + 2 ≤ nk)
    (h : findSpan t nk degree x = some span) : degree ≤ span ∧ span + degree + 2 ≤ nk := by
  unfold findSpan at h
  simp only at h
  split_ifs at h with h1 h2
  · simp only [Option.some.injEq] at h; omega
  · simp only [Option.some.injEq] at h; omega
  · have := findSpanLoop_bounds t x degree (nk - 1 - degree) _ degree (nk - 1 - degree) span
      (le_refl _) (by omega) (le_refl _) (by omega) h
    omega

/-! ### partition of unity of Algorithm A2.2 (from the design-phase spike) -/

theorem innerLoop_length (left right : ℕ → K) (j r : ℕ) (vs : List K) (s : K) :
    (innerLoop left right j r vs s).length = vs.length + 1 := by
  induction vs generalizing r s with
  | nil => rfl
  | cons v vs ih => simp [innerLoop, ih]

theorem levels_length (left right : ℕ → K) (j : ℕ) : (levels left right j).length = j + 1 := by
  induction j with
  | zero => rfl
  | succ j ih => simp only [levels]; rw [innerLoop_length, ih]

theorem basisFuns_length (t : ℕ → K) (p : ℕ) (x : K) (span : ℕ) : (basisFuns t p x span).length = p + 1 :=
  levels_length _ _ p

theorem innerLoop_sum (left right : ℕ → K) (j : ℕ) (r : ℕ) (vs : List K) (saved : K)
    (h : ∀ i, r ≤ i → i < r + vs.length → right i + left (j - i) ≠ 0) :
    (innerLoop left right j r vs saved).sum = saved + vs.sum := by
  induction vs generalizing r saved with
  | nil => simp [innerLoop]
  | cons v vs ih =>
    have h0 : right r + left (j - r) ≠ 0 := h r (le_refl _) (by simp)
    simp only [innerLoop, List.sum_cons]
    rw [ih (r+1) _ (fun i hi hlt => h i (by omega) (by simp at hlt ⊢; omega))]
    field_simp
    ring

theorem levels_sum (left right : ℕ → K) (p : ℕ)
    (h : ∀ j i, j < p → i ≤ j → right i + left (j - i) ≠ 0) :
    (levels left right p).sum = 1 := by
  induction p with
  | zero => simp [levels]
  | succ p ih =>
    simp only [levels]
    rw [innerLoop_sum]
    · rw [ih (fun j i hj hi => h j i (by omega) hi)]; ring
    · intro i _ hi
      rw [levels_length] at hi
      exact h p i (by omega) (by omega)

end PygyroVerif.Interp
