/-
Bridge theorem of C03, part 7: the three branches of `Swapper.crossStep` together, the step contract of
`Lemmas/Route.lean` / `Lemmas/DirectStepRoute.lean` for it, and the direct step of a swapper between ANY two directly
connected layouts (`swapStep`: a handler step inside one handler, a cross step between two handlers), so that the
route-following theorems apply to routes that mix both kinds of steps.
-/
import PygyroVerif.Lemmas.CrossStepGatherWorld
import PygyroVerif.Lemmas.DirectStepRoute

namespace PygyroVerif.CS
open PygyroVerif PygyroVerif.Handler PygyroVerif.DS PygyroVerif.Swapper PygyroVerif.Route

variable {α : Type} [Inhabited α]

/-! ### one cross step, all three branches -/

/-- **one direct step between layouts of different handlers, executable model, every accepted pair** -/
theorem crossStep_world (S : Swapper) (hS : SwapperOK S) (kS kD : Nat) (hkS : kS < S.allNames.length)
    (hkD : kD < S.allNames.length) (hh : (S.locate kS).1 ≠ (S.locate kD).1)
    (hacc : S.compatibleLayout kS kD = true ∨ S.compatibleLayout kD kS = true)
    (x y z : Nat) (w : World α) (G : List Nat → α) (hyx : y ≠ x) (hyz : y ≠ z) (hy : y < w.size) (hz : z < w.size)
    (hyn : (w.getD y #[]).size = prodL S.dims) (hzn : (w.getD z #[]).size = prodL S.dims)
    (hszy : ∀ rank, rank < prodL S.dims → crossNeed S kS kD rank ≤ (World.get w y rank).size)
    (hszz : ∀ rank, rank < prodL S.dims → crossNeed S kS kD rank ≤ (World.get w z rank).size)
    (hsrc : HoldsWorld (S.topo (S.locate kS).1) (S.layoutOf kS) G (w.getD x #[])) :
    ∃ w', crossStep S kS kD x y z w = .ok w' ∧
      HoldsWorld (S.topo (S.locate kD).1) (S.layoutOf kD) G (w'.getD y #[]) ∧
      (∀ r, r ≠ y → r ≠ z → w'.getD r #[] = w.getD r #[]) ∧ w'.size = w.size ∧
      (∀ role, (w'.getD role #[]).size = (w.getD role #[]).size) ∧
      (∀ role rank, (World.get w' role rank).size = (World.get w role rank).size) := by
  have hdst : ∀ rank, rank < prodL S.dims →
      ((S.layoutOf kD).shape ((S.topo (S.locate kD).1).coords rank)).prod ≤ (World.get w y rank).size :=
    fun rank hr => Nat.le_trans (Nat.le_max_left _ _) (hszy rank hr)
  have wrap : (∃ w', crossStep S kS kD x y z w = .ok w' ∧
      HoldsWorld (S.topo (S.locate kD).1) (S.layoutOf kD) G (w'.getD y #[]) ∧
      (∀ r, r ≠ y → w'.getD r #[] = w.getD r #[]) ∧ w'.size = w.size ∧
      (w'.getD y #[]).size = (w.getD y #[]).size ∧
      (∀ rank, (World.get w' y rank).size = (World.get w y rank).size)) →
      ∃ w', crossStep S kS kD x y z w = .ok w' ∧
      HoldsWorld (S.topo (S.locate kD).1) (S.layoutOf kD) G (w'.getD y #[]) ∧
      (∀ r, r ≠ y → r ≠ z → w'.getD r #[] = w.getD r #[]) ∧ w'.size = w.size ∧
      (∀ role, (w'.getD role #[]).size = (w.getD role #[]).size) ∧
      (∀ role rank, (World.get w' role rank).size = (World.get w role rank).size) := by
    rintro ⟨w', h1, h2, h3, h4, h5, h6⟩
    refine ⟨w', h1, h2, fun r hr _ => h3 r hr, h4, ?_, ?_⟩
    · intro role
      by_cases hry : role = y
      · rw [hry]; exact h5
      · rw [h3 role hry]
    · intro role rank
      by_cases hry : role = y
      · rw [hry]; exact h6 rank
      · rw [World.get_of_getD_eq w w' role (h3 role hry) rank]
  rcases Nat.lt_trichotomy (nDistributed (S.handlerNprocs (S.locate kD).1))
      (nDistributed (S.handlerNprocs (S.locate kS).1)) with hlt | heq | hgt
  · exact crossStep_gather_world S hS kS kD hkS hkD hh hacc hlt x y z w G hyx hyz hy hz hyn hzn hszy hszz hsrc
  · exact wrap (crossStep_equal_world S hS kS kD hkS hkD hh hacc heq x y z w G (Ne.symm hyx) hy (by rw [hyn]) hdst hsrc)
  · exact wrap (crossStep_scatter_world S hS kS kD hkS hkD hh hacc hgt x y z w G (Ne.symm hyx) hy (by rw [hyn]) hdst hsrc)

/-! ### the step contract -/

/-- "the per-rank arrays hold `G` in (global) layout number `k` of the swapper" -/
def HoldsLayout (S : Swapper) (G : List Nat → α) (k : Nat) (arrs : Array (Array α)) : Prop :=
  HoldsWorld (S.topo (S.locate k).1) (S.layoutOf k) G arrs

/-- a direct connection between layouts of different handlers that the buffers are large enough for -/
def CrossConn (S : Swapper) (B : Nat → Nat) (kS kD : Nat) : Prop :=
  kS < S.allNames.length ∧ kD < S.allNames.length ∧ (S.locate kS).1 ≠ (S.locate kD).1 ∧
  (S.compatibleLayout kS kD = true ∨ S.compatibleLayout kD kS = true) ∧
  ∀ rank, rank < prodL S.dims → crossNeed S kS kD rank ≤ B rank

/-- the executable cross step satisfies the (role-bounded) step contract -/
theorem crossStep_stepOK (nr : Nat) (S : Swapper) (hS : SwapperOK S) (B : Nat → Nat) (G : List Nat → α) :
    StepOKR nr (crossStep S) (HoldsLayout S G) (CrossConn S B) (WorldOK nr (prodL S.dims) B) := by
  intro kS kD x y z w hx hy hz hI hconn hyx hyz hP
  obtain ⟨i1, i2, i3⟩ := hI
  obtain ⟨c1, c2, c3, c4, c5⟩ := hconn
  obtain ⟨w', h1, h2, h3, h4, h5, h6⟩ := crossStep_world S hS kS kD c1 c2 c3 c4 x y z w G hyx hyz (by omega) (by omega)
    (i2 y hy).1 (i2 z hz).1
    (fun rank hr => Nat.le_trans (c5 rank hr) ((i2 y hy).2 rank hr))
    (fun rank hr => Nat.le_trans (c5 rank hr) ((i2 z hz).2 rank hr)) hP
  refine ⟨w', h1, h2, ⟨by rw [h4]; exact i1, ?_, ?_⟩, h3⟩
  · intro role hr
    refine ⟨by rw [h5 role]; exact (i2 role hr).1, ?_⟩
    intro rank hrk
    rw [h6 role rank]; exact (i2 role hr).2 rank hrk
  · intro rank hrk
    rw [h6 1 rank, h6 0 rank]; exact i3 rank hrk

/-! ### the direct step of a swapper between any two connected layouts -/

/-- `LayoutSwapper._transpose` / `_transpose_source_intact` between two directly connected layouts: inside one handler
    the handler's direct step on the handler's communicators, between two handlers the cross step -/
def swapStep (S : Swapper) : Step α := fun kS kD x y z w =>
  if (S.locate kS).1 = (S.locate kD).1 then
    directStepT true (S.topo (S.locate kS).1) (S.handler (S.locate kS).1) (S.locate kS).2 (S.locate kD).2 x y z w
  else crossStep S kS kD x y z w

/-- a direct connection of the swapper the buffers are large enough for -/
def SwapConn (S : Swapper) (B : Nat → Nat) (kS kD : Nat) : Prop :=
  ((S.locate kS).1 = (S.locate kD).1 ∧
    ConnB (S.handler (S.locate kS).1) (S.topo (S.locate kS).1) B (S.locate kS).2 (S.locate kD).2) ∨
  CrossConn S B kS kD

/-- the swapper's direct step satisfies the step contract: the route theorems apply to routes that mix handler steps
    and cross steps -/
theorem swapStep_stepOK (nr : Nat) (S : Swapper) (hS : SwapperOK S) (B : Nat → Nat) (G : List Nat → α) :
    StepOKR nr (swapStep S) (HoldsLayout S G) (SwapConn S B) (WorldOK nr (prodL S.dims) B) := by
  intro kS kD x y z w hx hy hz hI hconn hyx hyz hP
  rcases hconn with ⟨hsame, hc⟩ | hc
  · obtain ⟨axes, hax⟩ := hS.comm (S.locate kS).1
    have hT := topo_ok S _ axes hax
    obtain ⟨w', h1, h2, h3, h4⟩ := directStepT_stepOK nr (S.topo (S.locate kS).1) (S.handler (S.locate kS).1) hT B G
      (S.locate kS).2 (S.locate kD).2 x y z w hx hy hz hI hc hyx hyz hP
    refine ⟨w', ?_, ?_, h3, h4⟩
    · unfold swapStep; rw [if_pos hsame]; exact h1
    · unfold HoldsLayout
      have : S.layoutOf kD = (S.handler (S.locate kS).1).layoutAt (S.locate kD).2 := by
        rw [hsame]; rfl
      rw [this, ← hsame]; exact h2
  · obtain ⟨w', h1, h2⟩ := crossStep_stepOK nr S hS B G kS kD x y z w hx hy hz hI hc hyx hyz hP
    refine ⟨w', ?_, h2⟩
    unfold swapStep; rw [if_neg hc.2.2.1]; exact h1

/-- **a route of the swapper without spare buffer** (`_transposeRedirect`), mixed steps -/
theorem swapRoute_nobuf (S : Swapper) (hS : SwapperOK S) (B : Nat → Nat) (G : List Nat → α) (steps : List Nat)
    (kS : Nat) (w : World α) (hw : WorldOK 2 (prodL S.dims) B w) (hne : steps ≠ [])
    (hpath : IsPath (SwapConn S B) kS steps) (hsrc : HoldsLayout S G kS (w.getD 0 #[])) :
    ∃ w', followRoute (swapStep S) (prodL S.dims) steps kS false w = .ok w' ∧
      HoldsLayout S G (lastOf kS steps) (w'.getD 1 #[]) :=
  route_nobuf_R 2 (Nat.le_refl _) (swapStep S) (HoldsLayout S G) (SwapConn S B) (WorldOK 2 (prodL S.dims) B) (prodL S.dims)
    (fun w hw => ⟨by have := hw.1; omega, (hw.2.1 0 (by decide)).1, hw.2.2⟩)
    (swapStep_stepOK 2 S hS B G) steps kS w hw hne hpath hsrc

/-- **a route of the swapper with a spare buffer** (`_transposeRedirect_source_intact`), mixed steps: the source is
    left untouched -/
theorem swapRoute_buf (S : Swapper) (hS : SwapperOK S) (B : Nat → Nat) (G : List Nat → α) (steps : List Nat)
    (kS : Nat) (w : World α) (hw : WorldOK 3 (prodL S.dims) B w) (hne : steps ≠ [])
    (hpath : IsPath (SwapConn S B) kS steps) (hsrc : HoldsLayout S G kS (w.getD 0 #[])) :
    ∃ w', followRoute (swapStep S) (prodL S.dims) steps kS true w = .ok w' ∧
      HoldsLayout S G (lastOf kS steps) (w'.getD 1 #[]) ∧ w'.getD 0 #[] = w.getD 0 #[] :=
  route_buf_R 3 (Nat.le_refl _) (swapStep S) (HoldsLayout S G) (SwapConn S B) (WorldOK 3 (prodL S.dims) B)
    (swapStep_stepOK 3 S hS B G) (prodL S.dims) steps kS w hw hne hpath hsrc

end PygyroVerif.CS
