/-
Bridge theorem of C01, stage 1: pointwise meaning of the executable `_extract_from_source`
(`Handler.extractFromSource`, layout.py:711-765).
-/
import PygyroVerif.Lemmas.DirectStepComm

namespace PygyroVerif.DS
open PygyroVerif PygyroVerif.Handler PygyroVerif.CopyBox

/-- a monadic loop over `0..n-1` with an invariant -/
theorem foldlM_range_inv {σ ε : Type} (f : σ → Nat → Except ε σ) (Inv : Nat → σ → Prop) :
    ∀ (n : Nat) (s0 : σ), Inv 0 s0 →
      (∀ k, k < n → ∀ s, Inv k s → ∃ s', f s k = .ok s' ∧ Inv (k+1) s') →
      ∃ s', (List.range n).foldlM f s0 = .ok s' ∧ Inv n s' := by
  intro n
  induction n with
  | zero => intro s0 h0 _; exact ⟨s0, rfl, h0⟩
  | succ n ih =>
    intro s0 h0 hstep
    obtain ⟨s1, h1, hi1⟩ := ih s0 h0 (fun k hk => hstep k (by omega))
    obtain ⟨s2, h2, hi2⟩ := hstep n (by omega) s1 hi1
    refine ⟨s2, ?_, hi2⟩
    rw [List.range_succ, List.foldlM_append, h1]
    simp only [bind, Except.bind, List.foldlM_cons, List.foldlM_nil, h2]
    rfl

variable {α : Type} [Inhabited α]

/-- the body of the loop over the destination blocks (layout.py:746-765) -/
def extractIter (src : Array α) (sv : View) (shape : List Nat) (size sp a1 nd : Nat) (shapeS order : List Nat)
    (st : Array α × Nat × List Nat) (blk : Nat × Nat) : Except String (Array α × Nat × List Nat) :=
  match View.chunk st.1.size st.2.1 shape with
  | some arr =>
    match assignView st.1 (sliceAll arr (st.2.2.set sp blk.1)) src
        ((sliceRanges sv (((List.range nd).map (fun k => (0, shapeS.getD k 0))).set a1 (blk.2, blk.2 + blk.1))).transpose order) with
    | none => throw "value-error: could not broadcast (extract)"
    | some tb' => pure (tb', st.2.1 + size, st.2.2.set sp blk.1)
  | none => throw "value-error: block does not fit in buffer"

theorem extract_unfold (LS LD : Layout) (c : List Nat) (a0 a1 a2 : Nat) (src tobuf : Array α) (sv : View)
    (h1 : View.chunk src.size 0 (LS.shape c) = some sv) :
    extractFromSource true LS LD c [a0, a1, a2] src tobuf =
      (do
        let x ← List.foldlM (extractIter src sv
            (if a0 ≠ 0 then swapL (((LS.shape c).set a0 (LS.maxShape.getD a0 0)).set a1 (LD.maxShape.getD a0 0)) 0 a0
              else ((LS.shape c).set a0 (LS.maxShape.getD a0 0)).set a1 (LD.maxShape.getD a0 0))
            (prodL (((LS.shape c).set a0 (LS.maxShape.getD a0 0)).set a1 (LD.maxShape.getD a0 0)))
            (splitAxis true a0 a1) a1 LS.ndims (LS.shape c)
            (if a0 ≠ 0 then swapL (List.range LS.ndims) 0 a0 else List.range LS.ndims))
          (tobuf, 0, if a0 ≠ 0 then swapL (LS.shape c) 0 a0 else LS.shape c)
          ((LD.mpiLengthsAt a0).zip (LD.mpiStartsAt a0))
        pure x.1) := by
  unfold extractFromSource
  simp only [List.getD_cons_zero, List.getD_cons_succ, h1]
  congr 2
  funext st blk
  unfold extractIter
  cases hA : View.chunk st.1.size st.2.1 (if a0 ≠ 0 then
                  swapL (((LS.shape c).set a0 (LS.maxShape.getD a0 0)).set a1 (LD.maxShape.getD a0 0)) 0 a0
                else ((LS.shape c).set a0 (LS.maxShape.getD a0 0)).set a1 (LD.maxShape.getD a0 0)) with
  | none => rfl
  | some arr => rfl

/-! ### the loop in labelled form -/

section Core
variable (lab : List Nat) (hnd : lab.Nodup) (a0 : Nat) (ha0 : a0 < lab.length) (B : Nat) (hB : B ∈ lab)
  (sp : Nat) (hsp : sp < lab.length) (hspB : (swapL lab 0 a0).getD sp 0 = B)
  (lenS blk : Nat → Nat) (hblk : ∀ d ∈ lab, d ≠ B → lenS d ≤ blk d)
include hnd ha0 hB hsp hspB hblk

theorem extractIter_core (src tb : Array α) (j p : Nat) (hj : j < p) (x len st : Nat)
    (hst : st + len ≤ lenS B) (hlen : len ≤ blk B)
    (hfit : p * ((swapL lab 0 a0).map blk).prod ≤ tb.size) :
    ∃ tb', extractIter src (DView.chunkD 0 lab lenS).toView ((swapL lab 0 a0).map blk) ((swapL lab 0 a0).map blk).prod sp
        (lab.idxOf B) lab.length (lab.map lenS) (swapL (List.range lab.length) 0 a0)
        (tb, j * ((swapL lab 0 a0).map blk).prod, (swapL lab 0 a0).map (Function.update lenS B x)) (len, st)
        = .ok (tb', j * ((swapL lab 0 a0).map blk).prod + ((swapL lab 0 a0).map blk).prod,
            (swapL lab 0 a0).map (Function.update lenS B len)) ∧
      tb'.size = tb.size ∧
      (∀ u : Nat → Nat, (∀ d ∈ lab, u d < Function.update lenS B len d) →
        tb'[j * ((swapL lab 0 a0).map blk).prod + Addr.ravelD (swapL lab 0 a0) u blk]? =
          some (src.getD (Addr.ravelD lab (Function.update u B (st + u B)) lenS) default)) ∧
      (∀ k, (k < j * ((swapL lab 0 a0).map blk).prod ∨ (j + 1) * ((swapL lab 0 a0).map blk).prod ≤ k) →
        tb'[k]? = tb[k]?) := by
  have h0 : 0 < lab.length := by omega
  set sord := swapL lab 0 a0 with hsord
  set bs := (sord.map blk).prod with hbs
  have hperm : sord.Perm lab := swapL_perm lab 0 a0 h0 ha0
  have hnds : sord.Nodup := (hperm.nodup_iff).mpr hnd
  have hlens : sord.length = lab.length := swapL_length lab 0 a0
  set ub := Function.update lenS B len with hub
  set rngS : Nat → Nat × Nat := Function.update (fun d => (0, lenS d)) B (st, st + len) with hrngS
  -- the chunk of the buffer
  have hjb : j * bs + bs ≤ p * bs := by
    have : (j + 1) * bs ≤ p * bs := Nat.mul_le_mul_right _ hj
    rw [Nat.add_mul, Nat.one_mul] at this
    exact this
  have hchunk : View.chunk tb.size (j * bs) (sord.map blk) = some (DView.chunkD (j * bs) sord blk).toView :=
    DView.chunk_toView _ _ sord hnds blk (by omega)
  -- the slice lists
  have hranges : (sord.map (Function.update lenS B x)).set sp len = sord.map ub := by
    rw [set_map_update sord hnds _ sp (by omega) len, hspB, Function.update_idem]
  have hsrcR : ((List.range lab.length).map (fun k => ((0 : Nat), (lab.map lenS).getD k 0))).set (lab.idxOf B) (st, st + len)
      = lab.map rngS := by
    have e1 : (List.range lab.length).map (fun k => ((0 : Nat), (lab.map lenS).getD k 0)) = lab.map (fun d => ((0 : Nat), lenS d)) := by
      rw [map_range_idxOf lab hnd]
      apply List.map_congr_left
      intro d hd
      rw [getD_map_idxOf 0 lab lenS d hd]
    rw [e1, set_map_update lab hnd _ _ (List.idxOf_lt_length_iff.mpr hB), getD_idxOf lab B hB]
  have horder : ((DView.chunkD 0 lab lenS).sliceD rngS).toView.transpose (swapL (List.range lab.length) 0 a0)
      = ({ (DView.chunkD 0 lab lenS).sliceD rngS with lab := sord } : DView).toView := by
    rw [DView.toView_transpose]
    · congr 2
      show (swapL (List.range lab.length) 0 a0).map (fun k => lab.getD k 0) = sord
      rw [← swapL_map (List.range lab.length) (fun k => lab.getD k 0) 0 a0 (by simpa using h0) (by simpa using ha0),
        range_map_getD]
    · intro k hk
      have := ((swapL_perm (List.range lab.length) 0 a0 (by simpa using h0) (by simpa using ha0)).mem_iff).mp hk
      exact List.mem_range.mp this
  have hBs : B ∈ sord := (hperm.mem_iff).mpr hB
  obtain ⟨out, hassign, hsize, hget, hframe⟩ := assign_sliced_chunks tb src (j * bs) sord blk (fun d => (0, ub d))
    0 lab lenS rngS hnds hnd hperm
    (fun d hd => by
      refine ⟨Nat.zero_le _, ?_⟩
      by_cases hdB : d = B
      · subst hdB; simp only [hub, Function.update_self]; exact hlen
      · simp only [hub, Function.update_of_ne hdB]; exact hblk d ((hperm.mem_iff).mp hd) hdB)
    (fun d hd => by
      by_cases hdB : d = B
      · subst hdB; simp only [hrngS, Function.update_self]; omega
      · simp only [hrngS, Function.update_of_ne hdB]; omega)
    (fun d hd => by
      by_cases hdB : d = B
      · subst hdB; simp only [hrngS, hub, Function.update_self]; omega
      · simp only [hrngS, hub, Function.update_of_ne hdB])
    (by omega)
  refine ⟨out, ?_, hsize, ?_, ?_⟩
  · unfold extractIter
    simp only [hchunk, hranges]
    have hsa : sliceAll (DView.chunkD (j * bs) sord blk).toView (sord.map ub) =
        ((DView.chunkD (j * bs) sord blk).sliceD (fun d => (0, ub d))).toView :=
      DView.sliceAll_toView (DView.chunkD (j * bs) sord blk) hnds ub
    have hsr : sliceRanges (DView.chunkD 0 lab lenS).toView (lab.map rngS) =
        ((DView.chunkD 0 lab lenS).sliceD rngS).toView :=
      DView.sliceRanges_toView (DView.chunkD 0 lab lenS) hnd rngS
    rw [hsa, hsrcR, hsr, horder, hassign]
    rfl
  · intro u hu
    have := hget u (fun d hd => by simpa using hu d ((hperm.mem_iff).mp hd))
    rw [Nat.zero_add] at this
    have e1 : Addr.ravelD sord u blk = Addr.ravelD sord (fun d => (0, ub d).1 + u d) blk := by
      apply Addr.ravelD_congr _ _ _ _ _ _ (fun _ _ => rfl)
      intro d _
      simp
    have e2 : Addr.ravelD lab (Function.update u B (st + u B)) lenS = Addr.ravelD lab (fun d => (rngS d).1 + u d) lenS := by
      apply Addr.ravelD_congr _ _ _ _ _ _ (fun _ _ => rfl)
      intro d _
      by_cases hdB : d = B
      · subst hdB; simp [hrngS]
      · simp [hrngS, Function.update_of_ne hdB]
    rw [e1, e2]
    exact this
  · intro k hk
    apply hframe
    intro u hu he
    have hin : Addr.InBoxD sord (fun d => (0, ub d).1 + u d) blk := by
      intro d hd
      have h1 := hu d hd
      simp only [Nat.sub_zero] at h1
      simp only [Nat.zero_add]
      by_cases hdB : d = B
      · subst hdB; simp only [hub, Function.update_self] at h1; omega
      · simp only [hub, Function.update_of_ne hdB] at h1
        exact lt_of_lt_of_le h1 (hblk d ((hperm.mem_iff).mp hd) hdB)
    have hlt := Addr.ravelD_lt sord _ blk hin
    rw [← hbs] at hlt
    rw [Nat.add_mul, Nat.one_mul] at hk
    omega

/-- the whole loop: block `j` of the buffer holds, in C order of the padded block shape with the distributed axis
    first, the slab `[st j, st j + len j)` of dimension `B` of the source block -/
theorem extractLoop_core (src tobuf : Array α) (p : Nat) (len st : Nat → Nat)
    (hst : ∀ j, j < p → st j + len j ≤ lenS B ∧ len j ≤ blk B)
    (hfit : p * ((swapL lab 0 a0).map blk).prod ≤ tobuf.size) :
    ∃ out, (do
        let x ← List.foldlM (extractIter src (DView.chunkD 0 lab lenS).toView ((swapL lab 0 a0).map blk)
            ((swapL lab 0 a0).map blk).prod sp (lab.idxOf B) lab.length (lab.map lenS) (swapL (List.range lab.length) 0 a0))
          (tobuf, 0, (swapL lab 0 a0).map lenS) ((List.range p).map (fun j => (len j, st j)))
        pure x.1 : Except String (Array α)) = .ok out ∧
      out.size = tobuf.size ∧
      ∀ j, j < p → ∀ u : Nat → Nat, (∀ d ∈ lab, u d < Function.update lenS B (len j) d) →
        out[j * ((swapL lab 0 a0).map blk).prod + Addr.ravelD (swapL lab 0 a0) u blk]? =
          some (src.getD (Addr.ravelD lab (Function.update u B (st j + u B)) lenS) default) := by
  set sord := swapL lab 0 a0 with hsord
  set bs := (sord.map blk).prod with hbs
  rw [List.foldlM_map]
  let Inv : Nat → Array α × Nat × List Nat → Prop := fun k s =>
    s.1.size = tobuf.size ∧ s.2.1 = k * bs ∧ (∃ x, s.2.2 = sord.map (Function.update lenS B x)) ∧
    ∀ j, j < k → ∀ u : Nat → Nat, (∀ d ∈ lab, u d < Function.update lenS B (len j) d) →
      s.1[j * bs + Addr.ravelD sord u blk]? =
        some (src.getD (Addr.ravelD lab (Function.update u B (st j + u B)) lenS) default)
  obtain ⟨s', hs', hinv⟩ := foldlM_range_inv
    (fun (x : Array α × Nat × List Nat) y => extractIter src (DView.chunkD 0 lab lenS).toView (sord.map blk)
      bs sp (lab.idxOf B) lab.length (lab.map lenS) (swapL (List.range lab.length) 0 a0) x (len y, st y))
    Inv p (tobuf, 0, sord.map lenS)
    ⟨rfl, by simp, ⟨lenS B, by rw [Function.update_eq_self]⟩, fun j hj => absurd hj (Nat.not_lt_zero _)⟩
    (by
      intro k hk s hs
      obtain ⟨tb, start, ranges⟩ := s
      obtain ⟨h1, h2, ⟨x, h3⟩, h4⟩ := hs
      simp only at h1 h2 h3 h4
      subst h2 h3
      obtain ⟨tb', he, hsz, hget, hfr⟩ := extractIter_core lab hnd a0 ha0 B hB sp hsp hspB lenS blk hblk src tb k p hk x
        (len k) (st k) (hst k hk).1 (hst k hk).2 (by rw [h1]; exact hfit)
      refine ⟨_, he, ?_, ?_, ⟨len k, rfl⟩, ?_⟩
      · simp only; rw [hsz, h1]
      · simp only; rw [Nat.add_mul, Nat.one_mul]
      · intro j hj u hu
        simp only
        by_cases hjk : j = k
        · subst hjk; exact hget u hu
        · have hjlt : j < k := by omega
          rw [hfr _ (Or.inl ?_)]
          · exact h4 j hjlt u hu
          · -- the address lies in block j < k
            have hin : Addr.InBoxD sord u blk := by
              intro d hd
              have hdl : d ∈ lab := ((swapL_perm lab 0 a0 (by omega) ha0).mem_iff).mp hd
              have h5 := hu d hdl
              by_cases hdB : d = B
              · subst hdB; simp only [Function.update_self] at h5
                exact lt_of_lt_of_le h5 (hst j (by omega)).2
              · simp only [Function.update_of_ne hdB] at h5
                exact lt_of_lt_of_le h5 (hblk d hdl hdB)
            have hlt : Addr.ravelD sord u blk < bs := Addr.ravelD_lt sord u blk hin
            have : (j + 1) * bs ≤ k * bs := Nat.mul_le_mul_right _ hjlt
            rw [Nat.add_mul, Nat.one_mul] at this
            show j * bs + Addr.ravelD sord u blk < k * bs
            omega)
  refine ⟨s'.1, ?_, hinv.1, hinv.2.2.2⟩
  rw [hs']
  rfl

end Core

/-! ### the executable stage on the layouts of a handler -/

/-- extents of the padded block that is packed for each destination rank (layout.py:724-726), by dimension:
    the maximal block length of `A` (distributed in the source), of `B` (distributed in the destination), and the
    local extents of all other dimensions -/
def packBlk (np oS oD ext : List Nat) (a0 : Nat) (c : List Nat) : Nat → Nat :=
  Function.update (Function.update (lenD (Layout.make np oS ext) c) (oS.getD a0 0)
      (maxBlock (ext.getD (oS.getD a0 0) 0) (np.getD a0 1)))
    (oD.getD a0 0) (maxBlock (ext.getD (oD.getD a0 0) 0) (np.getD a0 1))

/-- number of cells of one packed block -/
def packSize (np oS oD ext : List Nat) (a0 : Nat) (c : List Nat) : Nat :=
  ((swapL oS 0 a0).map (packBlk np oS oD ext a0 c)).prod

theorem splitAxis_pos {oS : List Nat} {a0 a1 : Nat} {B : Nat} (ha0 : a0 < oS.length) (ha1 : a1 < oS.length)
    (hne : a1 ≠ a0) (hB : oS.getD a1 0 = B) :
    splitAxis true a0 a1 < oS.length ∧ (swapL oS 0 a0).getD (splitAxis true a0 a1) 0 = B := by
  have h0 : 0 < oS.length := by omega
  unfold splitAxis
  simp only [if_true]
  by_cases h1 : a1 = 0
  · subst h1
    rw [if_pos rfl, swapL_getD oS 0 a0 a0 h0 ha0, if_pos rfl]
    exact ⟨ha0, hB⟩
  · rw [if_neg h1, swapL_getD oS 0 a0 a1 h0 ha0, if_neg hne, if_neg h1]
    exact ⟨ha1, hB⟩

theorem blk_facts {np oS oD ext : List Nat} {a0 : Nat} (H : Comm np oS oD ext a0) (c : List Nat) :
    (∀ d ∈ oS, d ≠ oD.getD a0 0 → lenD (Layout.make np oS ext) c d ≤ packBlk np oS oD ext a0 c d) ∧
    packBlk np oS oD ext a0 c (oD.getD a0 0) = maxBlock (ext.getD (oD.getD a0 0) 0) (np.getD a0 1) ∧
    packBlk np oS oD ext a0 c (oS.getD a0 0) = maxBlock (ext.getD (oS.getD a0 0) 0) (np.getD a0 1) := by
  have hp : 0 < np.getD a0 1 := by have := H.mem.2.1; omega
  refine ⟨?_, ?_, ?_⟩
  · intro d _ hdB
    unfold packBlk
    rw [Function.update_of_ne hdB]
    by_cases hdA : d = oS.getD a0 0
    · subst hdA
      rw [Function.update_self, H.lenS_A c]
      exact blockLen_le_maxBlock _ _ _ hp
    · rw [Function.update_of_ne hdA]
  · unfold packBlk; rw [Function.update_self]
  · unfold packBlk; rw [Function.update_of_ne H.mem.2.2, Function.update_self]

/-- **stage 1, `_extract_from_source`** (layout.py:711-765, repaired code), executable model on one rank: if the source
    buffer is as long as the source block and the buffer can take `p` padded blocks, the stage raises nothing and block
    `j` of the buffer (`p` = number of processes on the swapped axis `a0`) holds, in C order of the padded block shape
    with the distributed axis moved to the front, the part of the source block whose `B`-indices belong to destination
    rank `j`:  `out[j·size + addr(u)] = src[addr_S(u with u_B shifted by start_j)]`. -/
theorem extractFromSource_spec {np oS oD ext : List Nat} {a0 : Nat} (H : Comm np oS oD ext a0) (c : List Nat)
    (hc : CoordsOK np c) (src tobuf : Array α)
    (hsrc : ((Layout.make np oS ext).shape c).prod ≤ src.size)
    (hfit : np.getD a0 1 * packSize np oS oD ext a0 c ≤ tobuf.size) :
    ∃ out, extractFromSource true (Layout.make np oS ext) (Layout.make np oD ext) c (swapAxes np oS oD) src tobuf = .ok out ∧
      out.size = tobuf.size ∧
      ∀ j, j < np.getD a0 1 → ∀ u : Nat → Nat,
        (∀ d ∈ oS, u d < Function.update (lenD (Layout.make np oS ext) c) (oD.getD a0 0)
            (blockLen (ext.getD (oD.getD a0 0) 0) (np.getD a0 1) j) d) →
        out[j * packSize np oS oD ext a0 c + Addr.ravelD (swapL oS 0 a0) u (packBlk np oS oD ext a0 c)]? =
          some (src.getD (Addr.ravelD oS
            (Function.update u (oD.getD a0 0) (blockStart (ext.getD (oD.getD a0 0) 0) (np.getD a0 1) j + u (oD.getD a0 0)))
            (lenD (Layout.make np oS ext) c)) default) := by
  have hp0 : 0 < (np.getD a0 1) := by have := H.mem.2.1; omega
  have hndS := H.ndS
  have h0 : 0 < oS.length := Nat.lt_of_le_of_lt (Nat.zero_le _) H.a0_ltS
  have hshape : (Layout.make np oS ext).shape c = oS.map (lenD (Layout.make np oS ext) c) := shape_eq_map (Layout.make np oS ext) hndS c
  have hmaxA : (Layout.make np oS ext).maxShape.getD a0 0 = maxBlock (ext.getD (oS.getD a0 0) 0) (np.getD a0 1) := by
    rw [maxShape_getD (Layout.make np oS ext) a0 H.a0_ltS, extAt_make, procsAt_make]
  have hmaxB : (Layout.make np oD ext).maxShape.getD a0 0 = maxBlock (ext.getD (oD.getD a0 0) 0) (np.getD a0 1) := by
    rw [maxShape_getD (Layout.make np oD ext) a0 H.a0_ltD, extAt_make, procsAt_make]
  have hshape0 : ((oS.map (lenD (Layout.make np oS ext) c)).set a0 (maxBlock (ext.getD (oS.getD a0 0) 0) (np.getD a0 1))).set (oS.idxOf (oD.getD a0 0)) (maxBlock (ext.getD (oD.getD a0 0) 0) (np.getD a0 1)) = oS.map (packBlk np oS oD ext a0 c) := by
    rw [set_map_update oS hndS (lenD (Layout.make np oS ext) c) a0 H.a0_ltS, set_map_update oS hndS _ (oS.idxOf (oD.getD a0 0)) H.a1_lt, getD_idxOf oS (oD.getD a0 0) H.B_memS]
    rfl
  have hperm : (swapL oS 0 a0).Perm oS := swapL_perm oS 0 a0 h0 H.a0_ltS
  have hsize : prodL (oS.map (packBlk np oS oD ext a0 c)) = ((swapL oS 0 a0).map (packBlk np oS oD ext a0 c)).prod := by
    rw [prodL_eq_prod]; exact ((hperm.map (packBlk np oS oD ext a0 c)).prod_eq).symm
  have hblocks : ((Layout.make np oD ext).mpiLengthsAt a0).zip ((Layout.make np oD ext).mpiStartsAt a0) =
      (List.range (np.getD a0 1)).map (fun j => (blockLen (ext.getD (oD.getD a0 0) 0) (np.getD a0 1) j, blockStart (ext.getD (oD.getD a0 0) 0) (np.getD a0 1) j)) := by
    rw [mpi_zip, procsAt_make, extAt_make]
  obtain ⟨hsp, hspB⟩ := splitAxis_pos H.a0_ltS H.a1_lt H.a1_ne (getD_idxOf oS (oD.getD a0 0) H.B_memS)
  obtain ⟨hb1, hb2, hb3⟩ := blk_facts H c
  have hwB := (H.wholeS_B c hc).1
  have hchunk : View.chunk src.size 0 ((Layout.make np oS ext).shape c) = some (DView.chunkD 0 oS (lenD (Layout.make np oS ext) c)).toView := by
    rw [hshape]
    exact DView.chunk_toView _ _ oS hndS (lenD (Layout.make np oS ext) c) (by rw [← hshape, Nat.zero_add]; exact hsrc)
  obtain ⟨out, hout, hsz, hget⟩ := extractLoop_core oS hndS a0 H.a0_ltS (oD.getD a0 0) H.B_memS (splitAxis true a0 (oS.idxOf (oD.getD a0 0))) hsp hspB
    (lenD (Layout.make np oS ext) c) (packBlk np oS oD ext a0 c) hb1
    src tobuf (np.getD a0 1) (fun j => blockLen (ext.getD (oD.getD a0 0) 0) (np.getD a0 1) j) (fun j => blockStart (ext.getD (oD.getD a0 0) 0) (np.getD a0 1) j)
    (fun j hj => by
      constructor
      · rw [hwB]
        unfold blockLen
        have h1 := blockStart_le_succ (ext.getD (oD.getD a0 0) 0) (np.getD a0 1) j hp0
        have h2 := blockStart_le_n (ext.getD (oD.getD a0 0) 0) (np.getD a0 1) (j+1) hp0 (by omega)
        omega
      · rw [hb2]; exact blockLen_le_maxBlock _ _ _ hp0)
    hfit
  refine ⟨out, ?_, hsz, hget⟩
  rw [H.swapAxes_eq, extract_unfold (Layout.make np oS ext) (Layout.make np oD ext) c a0 (oS.idxOf (oD.getD a0 0)) _ src tobuf _ hchunk]
  rw [hshape, hmaxA, hmaxB, hshape0, ite_swapL _ a0 (by simpa using h0), ite_swapL _ a0 (by rw [List.length_range]; exact h0),
    ite_swapL _ a0 (by simpa using h0), swapL_map oS (packBlk np oS oD ext a0 c) 0 a0 h0 H.a0_ltS, swapL_map oS (lenD (Layout.make np oS ext) c) 0 a0 h0 H.a0_ltS,
    hsize, hblocks]
  exact hout

end PygyroVerif.DS
