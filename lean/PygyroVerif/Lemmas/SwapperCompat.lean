/-
Helper lemmas for the "numbers of process axes differ by one" branch of `LayoutSwapper._compatibleLayout`
(pygyro/model/layout.py:1164-1196, model `Swapper.compatibleLayoutF`) and for `getAxes` (:1555-1591, `Swapper.getAxes`):
the matching loop that crosses out the communicators of the larger handler, a counting argument (every round crosses
out at most one entry), and the facts about the constructor's communicator choice (`Swapper.commAxes`) that the
counting argument needs (as many communicators as process axes; no communicator used twice).
-/
import PygyroVerif.Model.Swapper
import Mathlib.Tactic.ByContra
import Mathlib.Logic.Basic

namespace PygyroVerif.SwapperCompat
open PygyroVerif PygyroVerif.Swapper

/-! ### the two crossing-out loops -/

/-- one round of the loop `for i, c in enumerate(handler1.communicators)` of `_compatibleLayout` (:1183-1187);
    `p` = `possComms` -/
def matchStep (dims1 dims2 c1 : List Nat) (p : List (Option Nat)) (i : Nat) : List (Option Nat) :=
  let c := c1.getD i 0
  let j := p.idxOf (some c)
  if j < p.length then (if dims1.getD i 0 = dims2.getD j 0 then p.set j none else p) else p

/-- `possComms` after the loop of `_compatibleLayout` -/
def matchComms (dims1 dims2 c1 c2 : List Nat) : List (Option Nat) :=
  (List.range c1.length).foldl (matchStep dims1 dims2 c1) (c2.map some)

/-- one round of the loop `for c in handlerG.communicators` of `getAxes` (:1583-1586) -/
def eraseStep (p : List (Option Nat)) (c : Nat) : List (Option Nat) :=
  let i := p.idxOf (some c)
  if i < p.length then p.set i none else p

/-- `possComms` after the loop of `getAxes` -/
def erased (cG cS : List Nat) : List (Option Nat) := cG.foldl eraseStep (cS.map some)

/-- `np.nonzero(np.array(possComms) != None)[0][0]` (0 stands for the `IndexError` of an empty result) -/
def firstSome (p : List (Option Nat)) : Nat :=
  ((List.range p.length).find? (fun i => (p.getD i none).isSome)).getD 0

/-- number of entries that are not crossed out -/
def nSome (p : List (Option Nat)) : Nat := (p.filter Option.isSome).length

theorem getAxes_eq (S : Swapper) (hG hS : Nat) (LG LS : Layout) :
    S.getAxes hG hS LG LS =
      (LG.ord.idxOf (LS.ord.getD (firstSome (erased ((S.commAxes hG).getD []) ((S.commAxes hS).getD []))) 0),
       firstSome (erased ((S.commAxes hG).getD []) ((S.commAxes hS).getD []))) := rfl

/-! ### entries of crossed-out lists -/

/-- entry `j` of `possComms` (`none` also beyond the end) -/
abbrev ent (p : List (Option Nat)) (j : Nat) : Option Nat := p.getD j none

theorem ent_set_none (p : List (Option Nat)) (j0 j : Nat) :
    ent (p.set j0 none) j = if j = j0 then none else ent p j := by
  unfold ent
  simp only [List.getD_eq_getElem?_getD, List.getElem?_set]
  by_cases h : j0 = j
  · subst h
    by_cases hl : j0 < p.length
    · simp [hl]
    · simp [hl]
  · have h' : ¬ j = j0 := fun e => h e.symm
    simp [h, h']

theorem ent_lt_of_some {p : List (Option Nat)} {j c : Nat} (h : ent p j = some c) : j < p.length := by
  by_contra hc
  unfold ent at h
  rw [List.getD_eq_getElem?_getD, List.getElem?_eq_none (by omega)] at h
  cases h

theorem ent_idxOf (p : List (Option Nat)) (c : Nat) (h : p.idxOf (some c) < p.length) :
    ent p (p.idxOf (some c)) = some c := by
  unfold ent
  rw [List.getD_eq_getElem?_getD, List.getElem?_eq_getElem h, Option.getD_some]
  exact List.getElem_idxOf h

theorem ent_map_some (c2 : List Nat) (j c : Nat) :
    ent (c2.map some) j = some c ↔ j < c2.length ∧ c2.getD j 0 = c := by
  unfold ent
  simp only [List.getD_eq_getElem?_getD, List.getElem?_map]
  by_cases h : j < c2.length
  · simp [h]
  · simp [h]

theorem nSome_set_none (p : List (Option Nat)) (j c : Nat) (h : ent p j = some c) :
    nSome (p.set j none) + 1 = nSome p := by
  induction p generalizing j with
  | nil => cases h
  | cons x xs ih =>
    cases j with
    | zero =>
      have hx : x = some c := by simpa [ent] using h
      subst hx
      simp [nSome]
    | succ j =>
      have h' : ent xs j = some c := by simpa [ent] using h
      have := ih j h'
      cases x with
      | none => simpa [nSome] using this
      | some v => simp only [nSome, List.set_cons_succ, List.filter_cons, Option.isSome_some, if_true,
          List.length_cons] at this ⊢; omega

/-- `q` is `p` with some entries crossed out -/
def Sub (p q : List (Option Nat)) : Prop := q.length = p.length ∧ ∀ j, ent q j = none ∨ ent q j = ent p j

theorem Sub.refl (p : List (Option Nat)) : Sub p p := ⟨rfl, fun _ => Or.inr rfl⟩

theorem Sub.trans {p q r : List (Option Nat)} (h1 : Sub p q) (h2 : Sub q r) : Sub p r := by
  refine ⟨h2.1.trans h1.1, fun j => ?_⟩
  rcases h2.2 j with h | h
  · exact Or.inl h
  · rcases h1.2 j with h' | h'
    · exact Or.inl (h.trans h')
    · exact Or.inr (h.trans h')

theorem Sub.set_none (p : List (Option Nat)) (j0 : Nat) : Sub p (p.set j0 none) := by
  refine ⟨List.length_set, fun j => ?_⟩
  rw [ent_set_none]
  split
  · exact Or.inl rfl
  · exact Or.inr rfl

theorem Sub.some_eq {p q : List (Option Nat)} (h : Sub p q) {j c : Nat} (hq : ent q j = some c) : ent p j = some c := by
  rcases h.2 j with h' | h'
  · rw [h'] at hq; cases hq
  · rw [← h']; exact hq

theorem Sub.none_stays {p q : List (Option Nat)} (h : Sub p q) {j : Nat} (hp : ent p j = none) : ent q j = none := by
  rcases h.2 j with h' | h'
  · exact h'
  · exact h'.trans hp

/-! ### one round, then the whole loop -/

/-- a round either changes nothing, or crosses out exactly the entry `getAxes` would cross out, and then the
    communicator is present and distributes the same dimension in both layouts -/
theorem matchStep_spec (dims1 dims2 c1 : List Nat) (p : List (Option Nat)) (i : Nat) :
    matchStep dims1 dims2 c1 p i = p ∨
    ∃ j, ent p j = some (c1.getD i 0) ∧ dims1.getD i 0 = dims2.getD j 0 ∧
      matchStep dims1 dims2 c1 p i = p.set j none ∧ matchStep dims1 dims2 c1 p i = eraseStep p (c1.getD i 0) := by
  unfold matchStep eraseStep
  by_cases hj : p.idxOf (some (c1.getD i 0)) < p.length
  · by_cases hd : dims1.getD i 0 = dims2.getD (p.idxOf (some (c1.getD i 0))) 0
    · right
      exact ⟨_, ent_idxOf p _ hj, hd, by simp only [hj, hd, if_true], by simp only [hj, hd, if_true]⟩
    · left; simp only [hj, hd, if_true, if_false]
  · left; simp only [hj, if_false]

/-- the loop of `_compatibleLayout` over any list of rounds `is`, started from any `possComms` `p` -/
theorem match_fold (dims1 dims2 c1 : List Nat) : ∀ (is : List Nat) (p : List (Option Nat)),
    Sub p (is.foldl (matchStep dims1 dims2 c1) p) ∧
    nSome p ≤ nSome (is.foldl (matchStep dims1 dims2 c1) p) + is.length ∧
    (nSome p = nSome (is.foldl (matchStep dims1 dims2 c1) p) + is.length →
      is.foldl (matchStep dims1 dims2 c1) p = (is.map (fun i => c1.getD i 0)).foldl eraseStep p ∧
      ∀ i ∈ is, ∃ j, ent p j = some (c1.getD i 0) ∧ dims1.getD i 0 = dims2.getD j 0 ∧
        ent (is.foldl (matchStep dims1 dims2 c1) p) j = none) ∧
    (∀ j, ent (is.foldl (matchStep dims1 dims2 c1) p) j = none →
      ent p j = none ∨ ∃ i ∈ is, ent p j = some (c1.getD i 0) ∧ dims1.getD i 0 = dims2.getD j 0) := by
  intro is
  induction is with
  | nil =>
    intro p
    exact ⟨Sub.refl p, Nat.le_refl _, fun _ => ⟨rfl, fun i hi => by cases hi⟩, fun j hj => Or.inl hj⟩
  | cons i rest ih =>
    intro p
    obtain ⟨ihS, ihC, ihE, ihN⟩ := ih (matchStep dims1 dims2 c1 p i)
    simp only [List.foldl_cons, List.length_cons, List.map_cons, List.mem_cons]
    generalize hf : rest.foldl (matchStep dims1 dims2 c1) (matchStep dims1 dims2 c1 p i) = f at *
    rcases matchStep_spec dims1 dims2 c1 p i with hq | ⟨j0, hj0, hd0, hq, hqe⟩
    · -- nothing crossed out in this round
      rw [hq] at ihS ihC ihE ihN
      refine ⟨ihS, by omega, fun heq => absurd heq (by omega), fun j hj => ?_⟩
      rcases ihN j hj with h | ⟨i', hi', h⟩
      · exact Or.inl h
      · exact Or.inr ⟨i', Or.inr hi', h⟩
    · have hcnt : nSome (matchStep dims1 dims2 c1 p i) + 1 = nSome p := by
        rw [hq]; exact nSome_set_none p j0 _ hj0
      have hsub : Sub p (matchStep dims1 dims2 c1 p i) := by rw [hq]; exact Sub.set_none p j0
      refine ⟨hsub.trans ihS, by omega, fun heq => ?_, fun j hj => ?_⟩
      · obtain ⟨e1, e2⟩ := ihE (by omega)
        refine ⟨by rw [e1, hqe], fun i' hi' => ?_⟩
        rcases hi' with rfl | hi'
        · refine ⟨j0, hj0, hd0, ?_⟩
          apply ihS.none_stays
          rw [hq, ent_set_none, if_pos rfl]
        · obtain ⟨j, h1, h2, h3⟩ := e2 i' hi'
          exact ⟨j, hsub.some_eq h1, h2, h3⟩
      · rcases ihN j hj with h | ⟨i', hi', h, hd⟩
        · rw [hq, ent_set_none] at h
          by_cases e : j = j0
          · subst e; exact Or.inr ⟨i, Or.inl rfl, hj0, hd0⟩
          · rw [if_neg e] at h; exact Or.inl h
        · exact Or.inr ⟨i', Or.inr hi', hsub.some_eq h, hd⟩

/-! ### exactly one entry left -/

theorem ent_none_of_nSome_zero : ∀ (p : List (Option Nat)), nSome p = 0 → ∀ j, ent p j = none
  | [], _, j => by simp [ent]
  | x :: xs, h, j => by
    cases x with
    | some v => simp [nSome] at h
    | none =>
      have h' : nSome xs = 0 := by simpa [nSome] using h
      cases j with
      | zero => simp [ent]
      | succ j => simpa [ent] using ent_none_of_nSome_zero xs h' j

theorem unique_of_nSome_one : ∀ (p : List (Option Nat)), nSome p = 1 →
    ∃ jS, jS < p.length ∧ (ent p jS).isSome = true ∧ ∀ j, (ent p j).isSome = true → j = jS
  | [], h => by simp [nSome] at h
  | x :: xs, h => by
    cases x with
    | some v =>
      have h' : nSome xs = 0 := by simpa [nSome] using h
      refine ⟨0, by simp, by simp [ent], fun j hj => ?_⟩
      cases j with
      | zero => rfl
      | succ j =>
        have := ent_none_of_nSome_zero xs h' j
        have hj' : (ent xs j).isSome = true := by simpa [ent] using hj
        rw [this] at hj'; cases hj'
    | none =>
      have h' : nSome xs = 1 := by simpa [nSome] using h
      obtain ⟨jS, h1, h2, h3⟩ := unique_of_nSome_one xs h'
      refine ⟨jS + 1, by simpa using h1, by simpa [ent] using h2, fun j hj => ?_⟩
      cases j with
      | zero => simp [ent] at hj
      | succ j =>
        have hj' : (ent xs j).isSome = true := by simpa [ent] using hj
        rw [h3 j hj']

theorem find_range_unique (P : Nat → Bool) : ∀ (n jS : Nat), jS < n → P jS = true → (∀ j, P j = true → j = jS) →
    (List.range n).find? P = some jS := by
  intro n
  induction n with
  | zero => intro jS h; omega
  | succ n ih =>
    intro jS hlt hP huniq
    rw [List.range_succ, List.find?_append]
    rcases Nat.lt_or_ge jS n with h | h
    · rw [ih jS h hP huniq]; rfl
    · have e : jS = n := by omega
      subst e
      have hnone : (List.range jS).find? P = none := by
        rw [List.find?_eq_none]
        intro x hx hPx
        have := huniq x (by simpa using hPx)
        have := List.mem_range.1 hx
        omega
      rw [hnone]
      simp [hP]

theorem firstSome_of_unique (p : List (Option Nat)) (jS : Nat) (h1 : jS < p.length) (h2 : (ent p jS).isSome = true)
    (h3 : ∀ j, (ent p j).isSome = true → j = jS) : firstSome p = jS := by
  unfold firstSome
  rw [find_range_unique (fun i => (p.getD i none).isSome) p.length jS h1 h2 h3]
  rfl

theorem nSome_map_some (c2 : List Nat) : nSome (c2.map some) = c2.length := by
  unfold nSome
  induction c2 with
  | nil => rfl
  | cons x xs ih => simp only [List.map_cons, List.filter_cons, Option.isSome_some, if_true, List.length_cons, ih]

/-- **the counting argument**: if the larger handler has exactly one communicator more than the smaller one and exactly
    one entry of `possComms` survives the loop of `_compatibleLayout`, then every round crossed out an entry: -/
theorem match_all (dims1 dims2 c1 c2 : List Nat) (hlen : c2.length = c1.length + 1)
    (hacc : nSome (matchComms dims1 dims2 c1 c2) = 1) :
    ∃ jS, jS < c2.length ∧
      -- every communicator of the smaller handler is a communicator of the larger one, at a position other than `jS`,
      -- and distributes the same dimension there
      (∀ i, i < c1.length → ∃ j, j < c2.length ∧ j ≠ jS ∧ c2.getD j 0 = c1.getD i 0 ∧
        dims1.getD i 0 = dims2.getD j 0) ∧
      -- every position of the larger handler other than `jS` was crossed out by such a match
      (∀ j, j < c2.length → j ≠ jS → ∃ i, i < c1.length ∧ c1.getD i 0 = c2.getD j 0 ∧
        dims1.getD i 0 = dims2.getD j 0) ∧
      -- `getAxes` crosses out the same entries and finds `jS`
      erased c1 c2 = matchComms dims1 dims2 c1 c2 ∧ firstSome (erased c1 c2) = jS := by
  obtain ⟨hS, _, hE, hN⟩ := match_fold dims1 dims2 c1 (List.range c1.length) (c2.map some)
  have hfold : (List.range c1.length).foldl (matchStep dims1 dims2 c1) (c2.map some) = matchComms dims1 dims2 c1 c2 := rfl
  rw [hfold] at hS hE hN
  have hcount : nSome (c2.map some) = nSome (matchComms dims1 dims2 c1 c2) + (List.range c1.length).length := by
    rw [nSome_map_some, hacc, List.length_range, hlen]; omega
  obtain ⟨e1, e2⟩ := hE hcount
  obtain ⟨jS, hj1, hj2, hj3⟩ := unique_of_nSome_one _ hacc
  have hlenf : (matchComms dims1 dims2 c1 c2).length = c2.length := by rw [hS.1, List.length_map]
  have hmap : (List.range c1.length).map (fun i => c1.getD i 0) = c1 := by
    apply List.ext_getElem
    · simp
    · intro k h1 h2
      simp [List.getD_eq_getElem?_getD, List.getElem?_eq_getElem h2]
  have herased : erased c1 c2 = matchComms dims1 dims2 c1 c2 := by
    unfold erased; rw [e1, hmap]
  refine ⟨jS, by rw [← hlenf]; exact hj1, fun i hi => ?_, fun j hj hne => ?_, herased, ?_⟩
  · obtain ⟨j, h1, h2, h3⟩ := e2 i (List.mem_range.2 hi)
    obtain ⟨hjl, hjc⟩ := (ent_map_some c2 j _).1 h1
    refine ⟨j, hjl, ?_, hjc, h2⟩
    intro e; subst e
    rw [h3] at hj2; cases hj2
  · have hnone : ent (matchComms dims1 dims2 c1 c2) j = none := by
      cases hx : ent (matchComms dims1 dims2 c1 c2) j with
      | none => rfl
      | some v => exact absurd (hj3 j (by rw [hx]; rfl)) hne
    rcases hN j hnone with h | ⟨i, hi, h, hd⟩
    · have : ent (c2.map some) j = some (c2.getD j 0) := (ent_map_some c2 j _).2 ⟨hj, rfl⟩
      rw [this] at h; cases h
    · exact ⟨i, List.mem_range.1 hi, ((ent_map_some c2 j _).1 h).2.symm, hd⟩
  · rw [herased]; exact firstSome_of_unique _ jS hj1 hj2 hj3

/-! ### the model's test is this loop -/

theorem layoutOf_ord (S : Swapper) (k : Nat) :
    (S.layoutOf k).ord = (S.ordersOf (S.locate k).1).getD (S.locate k).2 [] := rfl

/-- `k1` in the smaller handler, `k2` in the larger one: `_compatibleLayout(k1, k2)` is the matching test -/
theorem compat_small_large (S : Swapper) (k1 k2 : Nat) (hh : (S.locate k1).1 ≠ (S.locate k2).1)
    (hn : (S.handlerNprocs (S.locate k2).1).length = (S.handlerNprocs (S.locate k1).1).length + 1) :
    S.compatibleLayout k1 k2 = decide (nSome (matchComms (S.layoutOf k1).ord (S.layoutOf k2).ord
      ((S.commAxes (S.locate k1).1).getD []) ((S.commAxes (S.locate k2).1).getD [])) = 1) := by
  have h1 : ¬ (S.handlerNprocs (S.locate k1).1).length > (S.handlerNprocs (S.locate k2).1).length := by omega
  have h2 : ¬ ((S.handlerNprocs (S.locate k2).1).length - (S.handlerNprocs (S.locate k1).1).length > 1) := by omega
  have h3 : ¬ (S.handlerNprocs (S.locate k1).1).length = (S.handlerNprocs (S.locate k2).1).length := by omega
  unfold Swapper.compatibleLayout Swapper.compatibleLayoutF
  simp only [hh, h1, h2, h3, if_false]
  rfl

/-- the same with the arguments the other way round (the code swaps them, :1172-1175) -/
theorem compat_large_small (S : Swapper) (k1 k2 : Nat) (hh : (S.locate k1).1 ≠ (S.locate k2).1)
    (hn : (S.handlerNprocs (S.locate k2).1).length = (S.handlerNprocs (S.locate k1).1).length + 1) :
    S.compatibleLayout k2 k1 = decide (nSome (matchComms (S.layoutOf k1).ord (S.layoutOf k2).ord
      ((S.commAxes (S.locate k1).1).getD []) ((S.commAxes (S.locate k2).1).getD [])) = 1) := by
  have hh' : ¬ (S.locate k2).1 = (S.locate k1).1 := fun e => hh e.symm
  have h1 : (S.handlerNprocs (S.locate k2).1).length > (S.handlerNprocs (S.locate k1).1).length := by omega
  have h2 : ¬ ((S.handlerNprocs (S.locate k2).1).length - (S.handlerNprocs (S.locate k1).1).length > 1) := by omega
  have h3 : ¬ (S.handlerNprocs (S.locate k2).1).length = (S.handlerNprocs (S.locate k1).1).length := by omega
  unfold Swapper.compatibleLayout Swapper.compatibleLayoutF
  simp only [hh', h1, h2, h3, if_false, if_true]
  rfl


/-! ### the constructor's choice of communicators: as many as process axes, none twice -/

theorem le_foldl_max : ∀ (l : List Nat) (a : Nat), a ≤ l.foldl max a ∧ ∀ x ∈ l, x ≤ l.foldl max a
  | [], a => ⟨Nat.le_refl _, fun x hx => by cases hx⟩
  | y :: ys, a => by
    obtain ⟨h1, h2⟩ := le_foldl_max ys (max a y)
    refine ⟨Nat.le_trans (Nat.le_max_left a y) h1, fun x hx => ?_⟩
    rcases List.mem_cons.1 hx with rfl | hx'
    · exact Nat.le_trans (Nat.le_max_right a x) h1
    · exact h2 x hx'

theorem raw_length_le_maxDims (S : Swapper) (i : Nat) : (S.nprocsRaw.getD i []).length ≤ S.maxDims := by
  unfold Swapper.maxDims
  by_cases h : i < S.nprocsRaw.length
  · rw [List.getD_eq_getElem?_getD, List.getElem?_eq_getElem h, Option.getD_some]
    exact (le_foldl_max _ 0).2 _ (List.mem_map.2 ⟨_, List.getElem_mem h, rfl⟩)
  · rw [List.getD_eq_getElem?_getD, List.getElem?_eq_none (by omega)]
    exact Nat.zero_le _

theorem padTo_length (l : List Nat) (n d : Nat) : (padTo l n d).length = l.length + (n - l.length) := by
  unfold padTo; rw [List.length_append, List.length_replicate]

theorem chooseStep_fold_length (oM oI : List (List Nat)) (raw : List Nat) :
    ∀ (is : List Nat) (st : Option (List (Option Nat) × List Nat)) (a : List (Option Nat)) (ch : List Nat),
      is.foldl (chooseStep oM oI raw) st = some (a, ch) →
      ∃ a0 ch0, st = some (a0, ch0) ∧ ch.length = ch0.length + is.length := by
  intro is
  induction is with
  | nil => intro st a ch h; exact ⟨a, ch, h, rfl⟩
  | cons i rest ih =>
    intro st a ch h
    rw [List.foldl_cons] at h
    obtain ⟨a1, ch1, h1, hl⟩ := ih _ a ch h
    cases st with
    | none => simp [chooseStep] at h1
    | some st0 =>
      obtain ⟨a0, ch0⟩ := st0
      refine ⟨a0, ch0, rfl, ?_⟩
      unfold chooseStep at h1
      simp only at h1
      cases hc : chooseAxis a0 oM oI i (raw.getD i 0) with
      | none => rw [hc] at h1; cases h1
      | some axis =>
        rw [hc] at h1
        simp only [Option.some.injEq, Prod.mk.injEq] at h1
        rw [hl, ← h1.2, List.length_append, List.length_cons, List.length_nil, List.length_cons]
        omega

/-- a handler has as many communicators as entries in its `nprocs` -/
theorem commAxes_length (S : Swapper) (i : Nat) (c : List Nat) (h : S.commAxes i = some c) :
    c.length = (S.handlerNprocs i).length := by
  unfold Swapper.commAxes at h
  unfold Swapper.handlerNprocs
  by_cases hm : i = S.maxIdx
  · simp only [hm, if_true, Option.some.injEq] at h ⊢
    rw [← h, List.length_range]
    unfold Swapper.nprocsPadded
    rw [padTo_length]
    have := raw_length_le_maxDims S S.maxIdx
    omega
  · simp only [hm, if_false] at h ⊢
    unfold Swapper.chooseAxes at h
    simp only [Option.map_eq_some_iff] at h
    obtain ⟨⟨a, ch⟩, hf, hc⟩ := h
    obtain ⟨a0, ch0, h0, hl⟩ := chooseStep_fold_length _ _ _ _ _ _ _ hf
    simp only [Option.some.injEq, Prod.mk.injEq] at h0
    simp only at hc
    rw [← hc, hl, ← h0.2, List.length_range]
    simp

theorem best_mem {β : Type} (f : Option β → β → Option β)
    (hf : ∀ b x y, f b x = some y → b = some y ∨ y = x) :
    ∀ (l : List β) (init : Option β) (y : β), l.foldl f init = some y → init = some y ∨ y ∈ l := by
  intro l
  induction l with
  | nil => intro init y h; exact Or.inl h
  | cons x xs ih =>
    intro init y h
    rw [List.foldl_cons] at h
    rcases ih _ y h with h' | h'
    · rcases hf init x y h' with h'' | h''
      · exact Or.inl h''
      · exact Or.inr (by rw [h'']; exact List.mem_cons_self)
    · exact Or.inr (List.mem_cons_of_mem _ h')

/-- the communicator chosen for a direction with `n` processes is still available and has `n` processes -/
theorem chooseAxis_spec (avail : List (Option Nat)) (oM oI : List (List Nat)) (i n axis : Nat)
    (h : chooseAxis avail oM oI i n = some axis) : ent avail axis = some n := by
  unfold chooseAxis at h
  split at h
  · rename_i h1
    simp only [Option.some.injEq] at h
    rw [← h]
    have hpos : 0 < (avail.filter (· = some n)).length := by omega
    obtain ⟨x, hx⟩ := List.exists_mem_of_length_pos hpos
    rw [List.mem_filter, decide_eq_true_eq] at hx
    have hmem : some n ∈ avail := hx.2 ▸ hx.1
    exact ent_idxOf avail n (List.idxOf_lt_length_of_mem hmem)
  · simp only [Option.map_eq_some_iff] at h
    obtain ⟨b, hb, hax⟩ := h
    have := best_mem _ (by
      intro b x y hy
      cases b with
      | none => simp only [Option.some.injEq] at hy; exact Or.inr hy.symm
      | some b0 =>
        simp only at hy
        split at hy
        · simp only [Option.some.injEq] at hy; exact Or.inr hy.symm
        · exact Or.inl hy) _ none b hb
    rcases this with h0 | hmem
    · cases h0
    · rw [List.mem_filterMap] at hmem
      obtain ⟨a, ha, hg⟩ := hmem
      rw [List.mem_filter, decide_eq_true_eq] at ha
      split at hg
      · simp only [Option.some.injEq] at hg
        rw [← hax, ← hg]
        exact ha.2
      · cases hg

/-- invariant of the choice loop: what has been chosen is crossed out in `availableSubcomms`, and nothing is chosen twice -/
def ChoiceInv (st : Option (List (Option Nat) × List Nat)) : Prop :=
  ∀ a ch, st = some (a, ch) → ch.Nodup ∧ ∀ x ∈ ch, ent a x = none

theorem chooseStep_inv (oM oI : List (List Nat)) (raw : List Nat) (st : Option (List (Option Nat) × List Nat))
    (i : Nat) (hst : ChoiceInv st) : ChoiceInv (chooseStep oM oI raw st i) := by
  intro a ch h
  cases st with
  | none => simp [chooseStep] at h
  | some st0 =>
    obtain ⟨a0, ch0⟩ := st0
    obtain ⟨hnd, hx⟩ := hst a0 ch0 rfl
    unfold chooseStep at h
    simp only at h
    cases hc : chooseAxis a0 oM oI i (raw.getD i 0) with
    | none => rw [hc] at h; cases h
    | some axis =>
      rw [hc] at h
      simp only [Option.some.injEq, Prod.mk.injEq] at h
      obtain ⟨ha, hch⟩ := h
      have hav := chooseAxis_spec _ _ _ _ _ _ hc
      have hnot : axis ∉ ch0 := by
        intro hm
        rw [hx axis hm] at hav; cases hav
      subst ha; subst hch
      refine ⟨?_, fun x hxm => ?_⟩
      · rw [List.nodup_append]
        refine ⟨hnd, List.nodup_cons.2 ⟨List.not_mem_nil, List.nodup_nil⟩, fun u hu v hv => ?_⟩
        rw [List.mem_singleton] at hv
        subst hv
        intro e; subst e; exact hnot hu
      · rw [ent_set_none]
        split
        · rfl
        · rcases List.mem_append.1 hxm with hm | hm
          · exact hx x hm
          · rw [List.mem_singleton] at hm; contradiction

theorem chooseStep_fold_inv (oM oI : List (List Nat)) (raw : List Nat) :
    ∀ (is : List Nat) (st : Option (List (Option Nat) × List Nat)), ChoiceInv st →
      ChoiceInv (is.foldl (chooseStep oM oI raw) st) := by
  intro is
  induction is with
  | nil => intro st h; exact h
  | cons i rest ih => intro st h; exact ih _ (chooseStep_inv oM oI raw st i h)

/-- no communicator is used twice by the same handler -/
theorem commAxes_nodup (S : Swapper) (i : Nat) (c : List Nat) (h : S.commAxes i = some c) : c.Nodup := by
  unfold Swapper.commAxes at h
  by_cases hm : i = S.maxIdx
  · simp only [hm, if_true, Option.some.injEq] at h
    rw [← h]; exact List.nodup_range
  · simp only [hm, if_false] at h
    unfold Swapper.chooseAxes at h
    simp only [Option.map_eq_some_iff] at h
    obtain ⟨⟨a, ch⟩, hf, hc⟩ := h
    have hinv := chooseStep_fold_inv (S.ordersOf S.maxIdx) (S.ordersOf i) (S.nprocsRaw.getD i [])
      (List.range (S.nprocsRaw.getD i []).length) (some (S.dims.map some, []))
      (by intro a ch h
          simp only [Option.some.injEq, Prod.mk.injEq] at h
          rw [← h.2]
          exact ⟨List.nodup_nil, fun x hx => by cases hx⟩)
    simp only at hc
    rw [← hc]
    exact (hinv a ch hf).1


end PygyroVerif.SwapperCompat
