/-
Bridge theorem of C01, stage 3: pointwise meaning of the unpacking part of the executable `_rearrange_from_buffer`
(`Handler.rearrangeFromBuffer`, layout.py:794-842), both branches (even fast path, per-block loop).
-/
import PygyroVerif.Lemmas.DirectStepExtract

namespace PygyroVerif.DS
open PygyroVerif PygyroVerif.Handler PygyroVerif.CopyBox

variable {α : Type} [Inhabited α]

/-- the body of the loop over the received blocks (layout.py:823-842) -/
def rearrIter (buf : Array α) (dv bv : View) (destR0 bufR0 : List (Nat × Nat)) (a2 sp shDa0 mA : Nat)
    (starts lens transposition : List Nat) (d : Array α) (r : Nat) : Except String (Array α) :=
  match assignView d (sliceRanges dv (destR0.set a2 (starts.getD r 0, starts.getD r 0 + lens.getD r 0))) buf
      ((sliceRanges bv ((bufR0.set sp (0, shDa0)).set 0 (mA * r, mA * r + lens.getD r 0))).transpose transposition) with
  | none => throw "value-error: could not broadcast (block loop)"
  | some d => pure d

theorem rearrange_unfold (LS LD : Layout) (c : List Nat) (a0 a1 a2 p : Nat) (data buf : Array α) (dv bv : View)
    (h1 : View.chunk data.size 0 (LD.shape c) = some dv)
    (h2 : View.chunk buf.size 0 (if a0 ≠ 0 then swapL (exchangeShape LS LD c [a0, a1, a2] p) 0 a0
      else exchangeShape LS LD c [a0, a1, a2] p) = some bv) :
    rearrangeFromBuffer true LS LD c [a0, a1, a2] p data buf =
      if (LD.shape c).getD a2 0 % p = 0 ∧ (LS.shape c).getD a1 0 % p = 0 then
        match assignView data dv buf
          (bv.transpose (List.map (fun d => List.idxOf d (if a0 ≠ 0 then swapL LS.ord 0 a0 else LS.ord)) LD.ord)) with
        | none => throw "value-error: could not broadcast (fast path)"
        | some d => pure d
      else
        List.foldlM (rearrIter buf dv bv (List.map (fun x => (0, x)) (LD.shape c))
          (List.map (fun x => (0, x)) (if a0 ≠ 0 then swapL (exchangeShape LS LD c [a0, a1, a2] p) 0 a0
            else exchangeShape LS LD c [a0, a1, a2] p))
          a2 (splitAxis true a0 a1) ((LD.shape c).getD a0 0) (LS.maxShape.getD a0 0) (LS.mpiStartsAt a0) (LS.mpiLengthsAt a0)
          (List.map (fun d => List.idxOf d (if a0 ≠ 0 then swapL LS.ord 0 a0 else LS.ord)) LD.ord))
          data (List.range p) := by
  unfold rearrangeFromBuffer
  simp only [List.getD_cons_zero, List.getD_cons_succ, h1, h2]
  rfl

/-! ### labelled form -/

section Core
variable (labD labS : List Nat) (hndD : labD.Nodup) (hndS : labS.Nodup) (hperm : labD.Perm labS)
  (A B : Nat) (hAB : A ≠ B) (hA : A ∈ labD) (hB : B ∈ labD)
  (a2 sp : Nat) (ha2 : a2 < labD.length) (hsp : sp < labS.length) (h0 : 0 < labS.length)
  (hgA : labD.getD a2 0 = A) (hgB : labS.getD sp 0 = B) (hg0 : labS.getD 0 0 = A)
  (shD xsh : Nat → Nat) (mA p : Nat)
  (hxA : xsh A = mA * p) (hxB : shD B ≤ xsh B) (hxo : ∀ d ∈ labD, d ≠ A → d ≠ B → xsh d = shD d)
  (stA lenA : Nat → Nat) (hblock : ∀ q, q < p → stA q + lenA q ≤ shD A ∧ lenA q ≤ mA)
include hndD hndS hperm hAB hA hB ha2 hsp h0 hgA hgB hg0 hxA hxB hxo hblock

theorem rearrIter_core (buf d : Array α) (starts lens : List Nat) (r : Nat) (hr : r < p)
    (hst : starts.getD r 0 = stA r) (hln : lens.getD r 0 = lenA r)
    (hfit : (labD.map shD).prod ≤ d.size) :
    ∃ d', rearrIter buf (DView.chunkD 0 labD shD).toView (DView.chunkD 0 labS xsh).toView
        (labD.map (fun d => (0, shD d))) (labS.map (fun d => (0, xsh d))) a2 sp (shD B) mA starts lens
        (labD.map (fun d => labS.idxOf d)) d r = .ok d' ∧
      d'.size = d.size ∧
      (∀ u : Nat → Nat, (∀ d ∈ labD, u d < Function.update shD A (lenA r) d) →
        d'[Addr.ravelD labD (Function.update u A (stA r + u A)) shD]? =
          some (buf.getD (Addr.ravelD labS (Function.update u A (mA * r + u A)) xsh) default)) ∧
      (∀ j, (∀ u : Nat → Nat, (∀ d ∈ labD, u d < Function.update shD A (lenA r) d) →
          Addr.ravelD labD (Function.update u A (stA r + u A)) shD ≠ j) → d'[j]? = d[j]?) := by
  set rngD : Nat → Nat × Nat := Function.update (fun d => (0, shD d)) A (stA r, stA r + lenA r) with hrngD
  set rngB : Nat → Nat × Nat :=
    Function.update (Function.update (fun d => (0, xsh d)) B (0, shD B)) A (mA * r, mA * r + lenA r) with hrngB
  have hBA : B ≠ A := fun e => hAB e.symm
  have hdestR : (labD.map (fun d => ((0 : Nat), shD d))).set a2 (stA r, stA r + lenA r) = labD.map rngD := by
    rw [set_map_update labD hndD _ a2 ha2, hgA]
  have hbufR : ((labS.map (fun d => ((0 : Nat), xsh d))).set sp (0, shD B)).set 0 (mA * r, mA * r + lenA r) = labS.map rngB := by
    rw [set_map_update labS hndS _ sp hsp, hgB, set_map_update labS hndS _ 0 h0, hg0]
  have hsd : sliceRanges (DView.chunkD 0 labD shD).toView (labD.map rngD) = ((DView.chunkD 0 labD shD).sliceD rngD).toView :=
    DView.sliceRanges_toView (DView.chunkD 0 labD shD) hndD rngD
  have hsb : sliceRanges (DView.chunkD 0 labS xsh).toView (labS.map rngB) = ((DView.chunkD 0 labS xsh).sliceD rngB).toView :=
    DView.sliceRanges_toView (DView.chunkD 0 labS xsh) hndS rngB
  have htr : ((DView.chunkD 0 labS xsh).sliceD rngB).toView.transpose (labD.map (fun d => labS.idxOf d)) =
      ({ (DView.chunkD 0 labS xsh).sliceD rngB with lab := labD } : DView).toView :=
    DView.toView_transpose_idxOf ((DView.chunkD 0 labS xsh).sliceD rngB) labD (fun d hd => (hperm.mem_iff).mp hd)
  have hmr : mA * r + lenA r ≤ mA * p := by
    have h1 := (hblock r hr).2
    have h2 : mA * (r + 1) ≤ mA * p := Nat.mul_le_mul_left _ hr
    rw [Nat.mul_add, Nat.mul_one] at h2
    omega
  obtain ⟨out, hassign, hsize, hget, hframe⟩ := assign_sliced_chunks d buf 0 labD shD rngD 0 labS xsh rngB hndD hndS hperm
    (fun e he => by
      by_cases heA : e = A
      · subst heA; simp only [hrngD, Function.update_self]; have := (hblock r hr).1; omega
      · simp only [hrngD, Function.update_of_ne heA]; omega)
    (fun e he => by
      by_cases heA : e = A
      · subst heA; simp only [hrngB, Function.update_self]; rw [hxA]; omega
      · by_cases heB : e = B
        · subst heB; simp only [hrngB, Function.update_of_ne heA, Function.update_self]; omega
        · simp only [hrngB, Function.update_of_ne heA, Function.update_of_ne heB]; omega)
    (fun e he => by
      by_cases heA : e = A
      · subst heA; simp only [hrngB, hrngD, Function.update_self]; omega
      · by_cases heB : e = B
        · subst heB; simp only [hrngB, hrngD, Function.update_of_ne heA, Function.update_self]
        · simp only [hrngB, hrngD, Function.update_of_ne heA, Function.update_of_ne heB]
          rw [hxo e he heA heB])
    (by omega)
  have hboxeq : ∀ u : Nat → Nat, (∀ e ∈ labD, u e < Function.update shD A (lenA r) e) →
      ∀ e ∈ labD, u e < (rngD e).2 - (rngD e).1 := by
    intro u hu e he
    have := hu e he
    by_cases heA : e = A
    · subst heA; simp only [hrngD, Function.update_self] at this ⊢; omega
    · simp only [hrngD, Function.update_of_ne heA] at this ⊢; omega
  have e1 : ∀ u : Nat → Nat, Addr.ravelD labD (Function.update u A (stA r + u A)) shD =
      Addr.ravelD labD (fun e => (rngD e).1 + u e) shD := by
    intro u
    apply Addr.ravelD_congr _ _ _ _ _ _ (fun _ _ => rfl)
    intro e _
    by_cases heA : e = A
    · subst heA; simp [hrngD]
    · simp [hrngD, Function.update_of_ne heA]
  have e2 : ∀ u : Nat → Nat, Addr.ravelD labS (Function.update u A (mA * r + u A)) xsh =
      Addr.ravelD labS (fun e => (rngB e).1 + u e) xsh := by
    intro u
    apply Addr.ravelD_congr _ _ _ _ _ _ (fun _ _ => rfl)
    intro e _
    by_cases heA : e = A
    · subst heA; simp [hrngB]
    · by_cases heB : e = B
      · subst heB; simp [hrngB, Function.update_of_ne heA]
      · simp [hrngB, Function.update_of_ne heA, Function.update_of_ne heB]
  refine ⟨out, ?_, hsize, ?_, ?_⟩
  · unfold rearrIter
    rw [hst, hln, hdestR, hbufR, hsd, hsb, htr, hassign]
    rfl
  · intro u hu
    have := hget u (hboxeq u hu)
    rw [Nat.zero_add, Nat.zero_add] at this
    rw [e1, e2]
    exact this
  · intro j hj
    apply hframe
    intro u hu he
    rw [Nat.zero_add, ← e1] at he
    refine hj u ?_ he
    intro e hee
    have := hu e hee
    by_cases heA : e = A
    · subst heA; simp only [hrngD, Function.update_self] at this ⊢; omega
    · simp only [hrngD, Function.update_of_ne heA] at this ⊢; omega

/-- the per-block loop: every received block lands on its slab of the destination block -/
theorem rearrLoop_core (buf data : Array α) (starts lens : List Nat)
    (hst : ∀ r, r < p → starts.getD r 0 = stA r) (hln : ∀ r, r < p → lens.getD r 0 = lenA r)
    (hdis : ∀ q k, q < k → k < p → stA q + lenA q ≤ stA k)
    (hfit : (labD.map shD).prod ≤ data.size) :
    ∃ out, List.foldlM (rearrIter buf (DView.chunkD 0 labD shD).toView (DView.chunkD 0 labS xsh).toView
        (labD.map (fun d => (0, shD d))) (labS.map (fun d => (0, xsh d))) a2 sp (shD B) mA starts lens
        (labD.map (fun d => labS.idxOf d))) data (List.range p) = .ok out ∧
      out.size = data.size ∧
      ∀ q, q < p → ∀ u : Nat → Nat, (∀ d ∈ labD, u d < Function.update shD A (lenA q) d) →
        out[Addr.ravelD labD (Function.update u A (stA q + u A)) shD]? =
          some (buf.getD (Addr.ravelD labS (Function.update u A (mA * q + u A)) xsh) default) := by
  let Inv : Nat → Array α → Prop := fun k d =>
    d.size = data.size ∧
    ∀ q, q < k → ∀ u : Nat → Nat, (∀ e ∈ labD, u e < Function.update shD A (lenA q) e) →
      d[Addr.ravelD labD (Function.update u A (stA q + u A)) shD]? =
        some (buf.getD (Addr.ravelD labS (Function.update u A (mA * q + u A)) xsh) default)
  obtain ⟨s', hs', hinv⟩ := foldlM_range_inv
    (rearrIter buf (DView.chunkD 0 labD shD).toView (DView.chunkD 0 labS xsh).toView
        (labD.map (fun d => (0, shD d))) (labS.map (fun d => (0, xsh d))) a2 sp (shD B) mA starts lens
        (labD.map (fun d => labS.idxOf d)))
    Inv p data ⟨rfl, fun q hq => absurd hq (Nat.not_lt_zero _)⟩
    (by
      intro k hk d hd
      obtain ⟨h1, h4⟩ := hd
      obtain ⟨d', he, hsz, hget, hfr⟩ := rearrIter_core labD labS hndD hndS hperm A B hAB hA hB a2 sp ha2 hsp h0 hgA hgB hg0
        shD xsh mA p hxA hxB hxo stA lenA hblock buf d starts lens k hk (hst k hk) (hln k hk) (by rw [h1]; exact hfit)
      refine ⟨d', he, by rw [hsz, h1], ?_⟩
      intro q hq u hu
      by_cases hqk : q = k
      · subst hqk; exact hget u hu
      · have hqlt : q < k := by omega
        rw [hfr _ ?_]
        · exact h4 q hqlt u hu
        · -- a cell of block q is not a cell of block k: the `A` indices differ
          intro u' hu' he'
          have hbq := hblock q (by omega)
          have hbk := hblock k hk
          have hin : Addr.InBoxD labD (Function.update u A (stA q + u A)) shD := by
            intro e hee
            have := hu e hee
            by_cases heA : e = A
            · subst heA; simp only [Function.update_self] at this ⊢; omega
            · simp only [Function.update_of_ne heA] at this ⊢; exact this
          have hin' : Addr.InBoxD labD (Function.update u' A (stA k + u' A)) shD := by
            intro e hee
            have := hu' e hee
            by_cases heA : e = A
            · subst heA; simp only [Function.update_self] at this ⊢; omega
            · simp only [Function.update_of_ne heA] at this ⊢; exact this
          have := Addr.ravelD_inj labD _ _ shD hin' hin he' A hA
          simp only [Function.update_self] at this
          have h5 := hu A hA
          simp only [Function.update_self] at h5
          have := hdis q k hqlt hk
          omega)
  exact ⟨s', hs', hinv.1, hinv.2⟩

end Core

/-- the fast path: one assignment of the whole (unpadded) received array -/
theorem rearrFast_core (labD labS : List Nat) (hndD : labD.Nodup) (hndS : labS.Nodup) (hperm : labD.Perm labS)
    (shD xsh : Nat → Nat) (buf data : Array α) (hxeq : ∀ d ∈ labD, xsh d = shD d)
    (hfit : (labD.map shD).prod ≤ data.size) :
    ∃ out, assignView data (DView.chunkD 0 labD shD).toView buf
        ((DView.chunkD 0 labS xsh).toView.transpose (labD.map (fun d => labS.idxOf d))) = some out ∧
      out.size = data.size ∧
      ∀ v : Nat → Nat, (∀ d ∈ labD, v d < shD d) →
        out[Addr.ravelD labD v shD]? = some (buf.getD (Addr.ravelD labS v xsh) default) := by
  set Dd := DView.chunkD 0 labD shD with hDd
  set Ds0 := DView.chunkD 0 labS xsh with hDs0
  set Ds : DView := { Ds0 with lab := labD } with hDs
  have haddrD : ∀ u, Dd.addr u = Addr.ravelD labD u shD := by
    intro u; rw [hDd, DView.chunkD_addr 0 labD hndD, Nat.zero_add]
  have haddrS : ∀ u, Ds.addr u = Addr.ravelD labS u xsh := by
    intro u
    have hp : labD.Perm Ds0.lab := hperm
    rw [hDs, DView.addr_perm Ds0 labD hp u, hDs0, DView.chunkD_addr 0 labS hndS, Nat.zero_add]
  obtain ⟨out, hassign, hsize, hget, _⟩ := assign_DView data buf Dd Ds rfl hndD
    (fun d hd => hxeq d hd)
    (fun u hu => by
      rw [haddrD]
      exact lt_of_lt_of_le (Addr.ravelD_lt labD u _ hu) hfit)
    (fun u u' hu hu' he => by
      rw [haddrD, haddrD] at he
      exact Addr.ravelD_inj labD u u' _ hu hu' he)
  refine ⟨out, ?_, hsize, ?_⟩
  · have htr := DView.toView_transpose_idxOf Ds0 labD (fun d hd => (hperm.mem_iff).mp hd)
    rw [show Ds0.lab = labS from rfl] at htr
    rw [htr]
    exact hassign
  · intro v hv
    have := hget v hv
    rwa [haddrD, haddrS] at this

/-! ### the executable stage on the layouts of a handler -/

/-- extents of the received array (layout.py:778-780), by dimension: `p` padded blocks concatenated along `A` -/
def exchBlk (np oS oD ext : List Nat) (a0 : Nat) (c : List Nat) : Nat → Nat :=
  Function.update (packBlk np oS oD ext a0 c) (oS.getD a0 0) (np.getD a0 1 * maxBlock (ext.getD (oS.getD a0 0) 0) (np.getD a0 1))

theorem swapL_head (l : List Nat) (a0 : Nat) (h0 : 0 < l.length) (ha0 : a0 < l.length) : (swapL l 0 a0).getD 0 0 = l.getD a0 0 := by
  rw [swapL_getD l 0 a0 0 h0 ha0]
  by_cases h : 0 = a0
  · subst h; simp
  · rw [if_neg h, if_pos rfl]

/-- a duplicate-free list whose first element is `A` -/
theorem eq_cons_of_head (l : List Nat) (A : Nat) (h0 : 0 < l.length) (hA : l.getD 0 0 = A) (hnd : l.Nodup) :
    ∃ rest, l = A :: rest ∧ A ∉ rest := by
  cases l with
  | nil => simp at h0
  | cons x t =>
    simp only [List.getD_cons_zero] at hA
    subst hA
    exact ⟨t, rfl, (List.nodup_cons.mp hnd).1⟩

theorem map_update_not_mem (rest : List Nat) (A : Nat) (hA : A ∉ rest) (f : Nat → Nat) (x : Nat) :
    rest.map (Function.update f A x) = rest.map f := by
  apply List.map_congr_left
  intro d hd
  have : d ≠ A := fun h => hA (h ▸ hd)
  rw [Function.update_of_ne this]

/-- the exchanged array is `p` packed blocks -/
theorem exch_prod {np oS oD ext : List Nat} {a0 : Nat} (H : Comm np oS oD ext a0) (c : List Nat) :
    ((swapL oS 0 a0).map (exchBlk np oS oD ext a0 c)).prod = (np.getD a0 1) * packSize np oS oD ext a0 c := by
  have h0 : 0 < oS.length := Nat.lt_of_le_of_lt (Nat.zero_le _) H.a0_ltS
  have hperm : (swapL oS 0 a0).Perm oS := swapL_perm oS 0 a0 h0 H.a0_ltS
  obtain ⟨rest, hrest, hAr⟩ := eq_cons_of_head (swapL oS 0 a0) (oS.getD a0 0) (by rw [swapL_length]; exact h0)
    (swapL_head oS a0 h0 H.a0_ltS) ((hperm.nodup_iff).mpr H.ndS)
  unfold packSize exchBlk
  rw [hrest]
  simp only [List.map_cons, List.prod_cons, Function.update_self, map_update_not_mem rest _ hAr]
  rw [(blk_facts H c).2.2, Nat.mul_assoc]

theorem exchangeShape_eq {np oS oD ext : List Nat} {a0 : Nat} (H : Comm np oS oD ext a0) (c : List Nat) :
    exchangeShape (Layout.make np oS ext) (Layout.make np oD ext) c [a0, (oS.idxOf (oD.getD a0 0)), (oD.idxOf (oS.getD a0 0))] (np.getD a0 1) = oS.map (exchBlk np oS oD ext a0 c) := by
  have hndS := H.ndS
  unfold exchangeShape
  simp only [List.getD_cons_zero, List.getD_cons_succ]
  rw [shape_eq_map (Layout.make np oS ext) hndS c, maxShape_getD (Layout.make np oS ext) a0 H.a0_ltS, maxShape_getD (Layout.make np oD ext) a0 H.a0_ltD, extAt_make, procsAt_make,
    extAt_make, procsAt_make]
  have e1 : ((Layout.make np oS ext).ord.map (lenD (Layout.make np oS ext) c)) = oS.map (lenD (Layout.make np oS ext) c) := rfl
  rw [e1, set_map_update oS hndS (lenD (Layout.make np oS ext) c) (oS.idxOf (oD.getD a0 0)) H.a1_lt, getD_idxOf oS (oD.getD a0 0) H.B_memS, set_map_update oS hndS _ a0 H.a0_ltS]
  apply List.map_congr_left
  intro d _
  unfold exchBlk packBlk
  by_cases hdA : d = (oS.getD a0 0)
  · rw [hdA, Function.update_self, Function.update_self, Nat.mul_comm]
  · rw [Function.update_of_ne hdA, Function.update_of_ne hdA]
    by_cases hdB : d = (oD.getD a0 0)
    · rw [hdB, Function.update_self, Function.update_self]
    · rw [Function.update_of_ne hdB, Function.update_of_ne hdB, Function.update_of_ne hdA]

theorem exchangeShape_prod {np oS oD ext : List Nat} {a0 : Nat} (H : Comm np oS oD ext a0) (c : List Nat) :
    prodL (exchangeShape (Layout.make np oS ext) (Layout.make np oD ext) c (swapAxes np oS oD) (np.getD a0 1)) = (np.getD a0 1) * packSize np oS oD ext a0 c := by
  have h0 : 0 < oS.length := Nat.lt_of_le_of_lt (Nat.zero_le _) H.a0_ltS
  rw [H.swapAxes_eq, exchangeShape_eq H c, prodL_eq_prod, ← exch_prod H c]
  exact (((swapL_perm oS 0 a0 h0 H.a0_ltS).map _).prod_eq).symm

/-- **stage 3, the unpacking part of `_rearrange_from_buffer`** (layout.py:794-842, repaired code), executable model on
    one rank, both branches: if `data` can take the destination block and `buf` holds `p` padded blocks, the stage
    raises nothing and the part of received block `q` that lies inside the real (unpadded) block lands on the slab
    `[start_q, start_q + len_q)` of dimension `A` of the destination block:
    `out[addr_D(u with u_A shifted by start_q)] = buf[addr(u with u_A shifted by q·maxA) in the concatenated array]`. -/
theorem rearrangeFromBuffer_spec {np oS oD ext : List Nat} {a0 : Nat} (H : Comm np oS oD ext a0) (c : List Nat)
    (hc : CoordsOK np c) (data buf : Array α)
    (hdata : ((Layout.make np oD ext).shape c).prod ≤ data.size)
    (hbuf : (np.getD a0 1) * packSize np oS oD ext a0 c ≤ buf.size) :
    ∃ out, rearrangeFromBuffer true (Layout.make np oS ext) (Layout.make np oD ext) c (swapAxes np oS oD) (np.getD a0 1) data buf = .ok out ∧
      out.size = data.size ∧
      ∀ q, q < (np.getD a0 1) → ∀ u : Nat → Nat,
        (∀ d ∈ oD, u d < Function.update (lenD (Layout.make np oD ext) c) (oS.getD a0 0) (blockLen (ext.getD (oS.getD a0 0) 0) (np.getD a0 1) q) d) →
        out[Addr.ravelD oD (Function.update u (oS.getD a0 0) (blockStart (ext.getD (oS.getD a0 0) 0) (np.getD a0 1) q + u (oS.getD a0 0))) (lenD (Layout.make np oD ext) c)]? =
          some (buf.getD (Addr.ravelD (swapL oS 0 a0) (Function.update u (oS.getD a0 0) (q * (maxBlock (ext.getD (oS.getD a0 0) 0) (np.getD a0 1)) + u (oS.getD a0 0))) (exchBlk np oS oD ext a0 c)) default) := by
  have hp0 : 0 < (np.getD a0 1) := by have := H.mem.2.1; omega
  have hndS := H.ndS
  have hndD := H.ndD
  have h0 : 0 < oS.length := Nat.lt_of_le_of_lt (Nat.zero_le _) H.a0_ltS
  have hpermS : (swapL oS 0 a0).Perm oS := swapL_perm oS 0 a0 h0 H.a0_ltS
  have hndSo : (swapL oS 0 a0).Nodup := (hpermS.nodup_iff).mpr hndS
  have hperm : oD.Perm (swapL oS 0 a0) := H.perm.trans hpermS.symm
  have hshapeD : (Layout.make np oD ext).shape c = oD.map (lenD (Layout.make np oD ext) c) := shape_eq_map (Layout.make np oD ext) hndD c
  have hshapeS : (Layout.make np oS ext).shape c = oS.map (lenD (Layout.make np oS ext) c) := shape_eq_map (Layout.make np oS ext) hndS c
  obtain ⟨hsp, hspB⟩ := splitAxis_pos H.a0_ltS H.a1_lt H.a1_ne (getD_idxOf oS (oD.getD a0 0) H.B_memS)
  obtain ⟨hb1, hb2, hb3⟩ := blk_facts H c
  have hwA := H.wholeD_A c hc
  have hwB := H.wholeS_B c hc
  have hxA : (exchBlk np oS oD ext a0 c) (oS.getD a0 0) = (np.getD a0 1) * (maxBlock (ext.getD (oS.getD a0 0) 0) (np.getD a0 1)) := by unfold exchBlk; rw [Function.update_self]
  have hxne : ∀ d, d ≠ (oS.getD a0 0) → (exchBlk np oS oD ext a0 c) d = (packBlk np oS oD ext a0 c) d := by
    intro d hd; unfold exchBlk; rw [Function.update_of_ne hd]
  have hxB : (exchBlk np oS oD ext a0 c) (oD.getD a0 0) = (maxBlock (ext.getD (oD.getD a0 0) 0) (np.getD a0 1)) := by rw [hxne _ (Ne.symm H.mem.2.2), hb2]
  have hxo : ∀ d ∈ oD, d ≠ (oS.getD a0 0) → d ≠ (oD.getD a0 0) → (exchBlk np oS oD ext a0 c) d = (lenD (Layout.make np oD ext) c) d := by
    intro d hd hdA hdB
    rw [hxne d hdA]
    unfold packBlk
    rw [Function.update_of_ne hdB, Function.update_of_ne hdA]
    exact (H.other c hc d ((H.perm.mem_iff).mp hd) hdA hdB).1
  have hchunkD : View.chunk data.size 0 ((Layout.make np oD ext).shape c) = some (DView.chunkD 0 oD (lenD (Layout.make np oD ext) c)).toView := by
    rw [hshapeD]
    exact DView.chunk_toView _ _ oD hndD (lenD (Layout.make np oD ext) c) (by rw [← hshapeD, Nat.zero_add]; exact hdata)
  have hexch : (if a0 ≠ 0 then swapL (exchangeShape (Layout.make np oS ext) (Layout.make np oD ext) c [a0, (oS.idxOf (oD.getD a0 0)), (oD.idxOf (oS.getD a0 0))] (np.getD a0 1)) 0 a0
      else exchangeShape (Layout.make np oS ext) (Layout.make np oD ext) c [a0, (oS.idxOf (oD.getD a0 0)), (oD.idxOf (oS.getD a0 0))] (np.getD a0 1)) = (swapL oS 0 a0).map (exchBlk np oS oD ext a0 c) := by
    rw [exchangeShape_eq H c, ite_swapL _ a0 (by simpa using h0), swapL_map oS _ 0 a0 h0 H.a0_ltS]
  have hchunkB : View.chunk buf.size 0 (if a0 ≠ 0 then swapL (exchangeShape (Layout.make np oS ext) (Layout.make np oD ext) c [a0, (oS.idxOf (oD.getD a0 0)), (oD.idxOf (oS.getD a0 0))] (np.getD a0 1)) 0 a0
      else exchangeShape (Layout.make np oS ext) (Layout.make np oD ext) c [a0, (oS.idxOf (oD.getD a0 0)), (oD.idxOf (oS.getD a0 0))] (np.getD a0 1)) = some (DView.chunkD 0 (swapL oS 0 a0) (exchBlk np oS oD ext a0 c)).toView := by
    rw [hexch]
    exact DView.chunk_toView _ _ (swapL oS 0 a0) hndSo (exchBlk np oS oD ext a0 c) (by rw [Nat.zero_add, exch_prod H c]; exact hbuf)
  have hsord : (if a0 ≠ 0 then swapL (Layout.make np oS ext).ord 0 a0 else (Layout.make np oS ext).ord) = (swapL oS 0 a0) := ite_swapL oS a0 h0
  have hfitD : (oD.map (lenD (Layout.make np oD ext) c)).prod ≤ data.size := by rw [← hshapeD]; exact hdata
  rw [H.swapAxes_eq, rearrange_unfold (Layout.make np oS ext) (Layout.make np oD ext) c a0 (oS.idxOf (oD.getD a0 0)) (oD.idxOf (oS.getD a0 0)) (np.getD a0 1) data buf _ _ hchunkD hchunkB]
  have hcond1 : ((Layout.make np oD ext).shape c).getD (oD.idxOf (oS.getD a0 0)) 0 = (ext.getD (oS.getD a0 0) 0) := by
    rw [hshapeD, getD_map_idxOf 0 oD (lenD (Layout.make np oD ext) c) (oS.getD a0 0) H.A_memD, hwA.1]
  have hcond2 : ((Layout.make np oS ext).shape c).getD (oS.idxOf (oD.getD a0 0)) 0 = (ext.getD (oD.getD a0 0) 0) := by
    rw [hshapeS, getD_map_idxOf 0 oS (lenD (Layout.make np oS ext) c) (oD.getD a0 0) H.B_memS, hwB.1]
  rw [hcond1, hcond2, hsord, hexch]
  have hord : (Layout.make np oD ext).ord = oD := rfl
  rw [hord]
  split
  · -- even blocks: one assignment
    rename_i hev
    obtain ⟨hevA, hevB⟩ := hev
    have hxeq : ∀ d ∈ oD, (exchBlk np oS oD ext a0 c) d = (lenD (Layout.make np oD ext) c) d := by
      intro d hd
      by_cases hdA : d = (oS.getD a0 0)
      · rw [hdA, hxA, hwA.1, maxBlock_even _ _ hevA]
        exact Nat.mul_div_cancel' (Nat.dvd_of_mod_eq_zero hevA)
      · by_cases hdB : d = (oD.getD a0 0)
        · rw [hdB, hxB, H.lenD_B c, maxBlock_even _ _ hevB, blockStart_even _ _ _ hevB, blockStart_even _ _ _ hevB,
            Nat.mul_succ]
          exact (Nat.add_sub_cancel_left _ _).symm
        · exact hxo d hd hdA hdB
    obtain ⟨out, hassign, hsz, hget⟩ := rearrFast_core oD (swapL oS 0 a0) hndD hndSo hperm (lenD (Layout.make np oD ext) c) (exchBlk np oS oD ext a0 c) buf data hxeq hfitD
    refine ⟨out, ?_, hsz, ?_⟩
    · rw [hassign]; rfl
    · intro q hq u hu
      have hstq : blockStart (ext.getD (oS.getD a0 0) 0) (np.getD a0 1) q = q * (maxBlock (ext.getD (oS.getD a0 0) 0) (np.getD a0 1)) := by
        rw [blockStart_even _ _ _ hevA, maxBlock_even _ _ hevA, Nat.mul_comm]
      have hbox : ∀ d ∈ oD, Function.update u (oS.getD a0 0) (blockStart (ext.getD (oS.getD a0 0) 0) (np.getD a0 1) q + u (oS.getD a0 0)) d < (lenD (Layout.make np oD ext) c) d := by
        intro d hd
        have h5 := hu d hd
        by_cases hdA : d = (oS.getD a0 0)
        · rw [hdA, Function.update_self] at h5 ⊢
          rw [hwA.1]
          unfold blockLen at h5
          have h2 := blockStart_le_n (ext.getD (oS.getD a0 0) 0) (np.getD a0 1) (q+1) hp0 (by omega)
          omega
        · rw [Function.update_of_ne hdA] at h5 ⊢
          exact h5
      have := hget _ hbox
      rw [this, hstq]
  · -- padded blocks: the loop
    have hgA : oD.getD (oD.idxOf (oS.getD a0 0)) 0 = (oS.getD a0 0) := getD_idxOf oD (oS.getD a0 0) H.A_memD
    have hg0 : (swapL oS 0 a0).getD 0 0 = (oS.getD a0 0) := swapL_head oS a0 h0 H.a0_ltS
    obtain ⟨out, hloop, hsz, hget⟩ := rearrLoop_core oD (swapL oS 0 a0) hndD hndSo hperm (oS.getD a0 0) (oD.getD a0 0) H.mem.2.2 H.A_memD H.B_memD
      (oD.idxOf (oS.getD a0 0)) (splitAxis true a0 (oS.idxOf (oD.getD a0 0))) H.a2_lt (by rw [swapL_length]; exact hsp) (by rw [swapL_length]; exact h0) hgA hspB hg0
      (lenD (Layout.make np oD ext) c) (exchBlk np oS oD ext a0 c) (maxBlock (ext.getD (oS.getD a0 0) 0) (np.getD a0 1)) (np.getD a0 1) (by rw [hxA, Nat.mul_comm])
      (by rw [hxB, H.lenD_B c]; exact blockLen_le_maxBlock _ _ _ hp0) hxo
      (fun q => blockStart (ext.getD (oS.getD a0 0) 0) (np.getD a0 1) q) (fun q => blockLen (ext.getD (oS.getD a0 0) 0) (np.getD a0 1) q)
      (fun q hq => by
        constructor
        · rw [hwA.1]
          unfold blockLen
          have h1 := blockStart_le_succ (ext.getD (oS.getD a0 0) 0) (np.getD a0 1) q hp0
          have h2 := blockStart_le_n (ext.getD (oS.getD a0 0) 0) (np.getD a0 1) (q+1) hp0 (by omega)
          omega
        · exact blockLen_le_maxBlock _ _ _ hp0)
      buf data ((Layout.make np oS ext).mpiStartsAt a0) ((Layout.make np oS ext).mpiLengthsAt a0)
      (fun r hr => by rw [mpiStarts_getD (Layout.make np oS ext) a0 r (by rw [procsAt_make]; exact hr), extAt_make, procsAt_make])
      (fun r hr => by rw [mpiLengths_getD (Layout.make np oS ext) a0 r (by rw [procsAt_make]; exact hr), extAt_make, procsAt_make])
      (fun q k hqk hk => by
        unfold blockLen
        have h1 := blockStart_le_succ (ext.getD (oS.getD a0 0) 0) (np.getD a0 1) q hp0
        have h2 := blockStart_mono (ext.getD (oS.getD a0 0) 0) (np.getD a0 1) hp0 (show q + 1 ≤ k by omega)
        omega)
      hfitD
    refine ⟨out, ?_, hsz, ?_⟩
    · rw [hshapeD, List.map_map, List.map_map, maxShape_getD (Layout.make np oS ext) a0 H.a0_ltS, extAt_make, procsAt_make,
        getD_map_lt 0 oD (lenD (Layout.make np oD ext) c) a0 H.a0_ltD]
      exact hloop
    · intro q hq u hu
      have := hget q hq u hu
      rw [this, Nat.mul_comm]

end PygyroVerif.DS
