/-
Loop invariants for the tie theorems of Props/C07Gen2.lean, second part: the GENERATED `nu_find_span`, `nu_basis_funs_1st_der` and
`nu_eval_spline_1d_scalar` (Generated/EvalSplineGen.lean, regenerated from pygyro/splines/spline_eval_funcs.py on every run of
`./check C07`) against the hand-written model (Model/BSpline.lean: `findSpan`, `derSaved`/`basisFunsDer`, `dotFrom`).

  * `fs_loop_eq`, `fs_run_eq` : the binary search (same argument as Props/C07Gen.lean, for the copy of `nu_find_span` that the generated
                                evaluation calls)
  * `der_loop_eq`             : `for j in range(1, degree)`: `ders[j] = saved_{j-1} - saved_j`, `saved` carried
  * `dot_loop_eq`             : `for j in range(degree+1): y += coeffs[span-degree+j]*basis[j]` is the left-to-right sum
-/
import PygyroVerif.Generated.EvalSplineGen
import PygyroVerif.Lemmas.BasisFunsGen

namespace PygyroVerif.EvalSplineGen
open PygyroVerif.BSpline
open PygyroVerif.Gen.BasisFuns PygyroVerif.Gen.EvalSpline

/-! ### nu_find_span -/
section findspan
open PygyroVerif.Gen.EvalSpline.nu_find_span_

/-- the generated `while` loop follows the model's loop: the generated code carries `span = (low+high)//2` from the end of the
    previous iteration, the model recomputes it -/
theorem fs_loop_eq (U : ℕ → ℚ) (F' : ℕ) : ∀ (f F : ℕ) (σ : St) (s : ℕ), f ≤ F → σ.span = (σ.low + σ.high) / 2 →
    findSpanLoop σ.knots σ.x f σ.low σ.high = some s →
    ∃ σ', nu_find_span_loop1 U F' F σ = .ok σ' ∧ σ'.span = s := by
  intro f
  induction f with
  | zero => intro F σ s _ _ h; simp [findSpanLoop] at h
  | succ f ih =>
    intro F σ s hF hsp h
    obtain ⟨F0, rfl⟩ : ∃ F0, F = F0 + 1 := ⟨F - 1, by omega⟩
    unfold findSpanLoop at h
    unfold nu_find_span_loop1
    simp only [← hsp] at h
    by_cases hc : σ.x < σ.knots σ.span ∨ σ.knots (σ.span + 1) ≤ σ.x
    · rw [if_pos hc] at h
      have hc' : σ.x < σ.knots σ.span ∨ σ.x ≥ σ.knots (σ.span + 1) := hc
      rw [if_pos hc']
      by_cases hl : σ.x < σ.knots σ.span
      · rw [if_pos hl] at h
        rw [if_pos hl]
        exact ih F0 { σ with high := σ.span, span := (σ.low + σ.span) / 2 } s (by omega) rfl h
      · rw [if_neg hl] at h
        rw [if_neg hl]
        exact ih F0 { σ with low := σ.span, span := (σ.span + σ.high) / 2 } s (by omega) rfl h
    · rw [if_neg hc] at h
      have hc' : ¬ (σ.x < σ.knots σ.span ∨ σ.x ≥ σ.knots (σ.span + 1)) := hc
      rw [if_neg hc']
      cases h
      exact ⟨σ, rfl, rfl⟩

/-- the generated `nu_find_span` returns what the model returns, for every fuel at least the model's own -/
theorem fs_run_eq (U : ℕ → ℚ) (t : ℕ → ℚ) (nk degree : ℕ) (x : ℚ) (s F : ℕ)
    (h : findSpan t nk degree x = some s) (hF : (nk - 1 - degree) - degree + 1 ≤ F) :
    ∃ σ', run U F t nk degree x = .ret σ' ∧ σ'.ret_ = s := by
  unfold findSpan at h
  unfold run
  simp only
  by_cases h1 : x ≤ t degree
  · rw [if_pos h1] at h
    rw [if_pos h1]
    cases h; exact ⟨_, rfl, rfl⟩
  · rw [if_neg h1] at h
    rw [if_neg h1]
    by_cases h2 : t (nk - 1 - degree) ≤ x
    · rw [if_pos h2] at h
      have h2' : x ≥ t (nk - 1 - degree) := h2
      rw [if_pos h2']
      cases h; exact ⟨_, rfl, rfl⟩
    · rw [if_neg h2] at h
      have h2' : ¬ x ≥ t (nk - 1 - degree) := h2
      rw [if_neg h2']
      obtain ⟨σ', hl, hs⟩ := fs_loop_eq U F ((nk - 1 - degree) - degree + 1) F
        { knots := t, knots_len := nk, degree := degree, x := x, low := degree, high := nk - 1 - degree,
          returnVal := 0, span := (degree + (nk - 1 - degree)) / 2 } s hF rfl h
      simp only [hl]
      exact ⟨_, rfl, hs⟩

end findspan

/-! ### nu_basis_funs_1st_der -/
section der
open PygyroVerif.Gen.EvalSpline.nu_basis_funs_1st_der_

/-- `saved` of step `k`, read off the state -/
def sv (σ : St) (k : ℕ) : ℚ :=
  (σ.degree : ℚ) * σ.values k / (σ.knots (σ.span + k + 1) - σ.knots (σ.span + k + 1 - σ.degree))

/-- `for j in range(1, degree)` started at `i ≥ 1` with `n` iterations left -/
theorem der_loop_eq (U : ℕ → ℚ) (F : ℕ) : ∀ (n i : ℕ) (σ : St), σ.saved = sv σ (i - 1) →
    ∃ D S J T, nu_basis_funs_1st_der_loop1 U F n i σ = .ok { σ with ders := D, saved := S, j := J, temp := T } ∧
      (∀ k, k < i → D k = σ.ders k) ∧ (∀ k, i + n ≤ k → D k = σ.ders k) ∧
      (∀ k, i ≤ k → k < i + n → D k = sv σ (k - 1) - sv σ k) ∧ S = sv σ (i + n - 1) := by
  intro n
  induction n with
  | zero =>
    intro i σ hs
    exact ⟨σ.ders, σ.saved, σ.j, σ.temp, rfl, fun _ _ => rfl, fun _ _ => rfl, fun k h1 h2 => by omega, hs⟩
  | succ n ih =>
    intro i σ hs
    let σ1 : St := { σ with
      j := i
      temp := σ.saved
      saved := sv σ i
      ders := fun k_ => if k_ = i then σ.saved - sv σ i else σ.ders k_ }
    obtain ⟨D, S, J, T, hrun, hlo, hhi, hmid, hS⟩ := ih (i + 1) σ1 rfl
    refine ⟨D, S, J, T, hrun, ?_, ?_, ?_, ?_⟩
    · intro k hk
      rw [hlo k (by omega)]
      show (if k = i then _ else σ.ders k) = _
      rw [if_neg (by omega)]
    · intro k hk
      rw [hhi k (by omega)]
      show (if k = i then _ else σ.ders k) = _
      rw [if_neg (by omega)]
    · intro k h1 h2
      by_cases hki : k = i
      · rw [hlo k (by omega)]
        show (if k = i then _ else σ.ders k) = _
        rw [if_pos hki, hs, hki]
      · exact hmid k (by omega) (by omega)
    · rw [hS, show i + 1 + n - 1 = i + (n + 1) - 1 by omega]
      rfl

/-- the whole generated `nu_basis_funs_1st_der`: it returns, `ders[0..degree]` are the model's derivative values, nothing above is
    written; for every content `U` of uninitialised memory (the local `values`, and `left`/`right` of the callee), every fuel, every
    initial content `d0` of `ders` -/
theorem der_run_eq (U : ℕ → ℚ) (F : ℕ) (t : ℕ → ℚ) (nk degree : ℕ) (x : ℚ) (span : ℕ) (d0 : ℕ → ℚ) (dlen : ℕ) :
    ∃ σ', run U F t nk degree x span d0 dlen = .ret σ' ∧
      (∀ k, k ≤ degree → σ'.ders k = (basisFunsDer t degree x span).getD k 0) ∧
      (∀ k, degree < k → σ'.ders k = d0 k) := by
  obtain ⟨τ, hτ, hval, -⟩ := BasisFunsGen.run_eq U F t nk (degree - 1) x span U degree
  -- the state when the loop starts
  let σ1 : St := { knots := t, knots_len := nk, degree := degree, x := x, span := span, ders_len := dlen,
                   values := τ.values, values_len := degree,
                   saved := (degree : ℚ) * τ.values 0 / (t (span + 1) - t (span + 1 - degree)),
                   ders := fun k_ => if k_ = 0 then -((degree : ℚ) * τ.values 0 / (t (span + 1) - t (span + 1 - degree))) else d0 k_ }
  obtain ⟨D, S, J, T, hrun, hlo, hhi, hmid, hS⟩ := der_loop_eq U F (degree - 1) 1 σ1 rfl
  have hsv : ∀ j, j ≤ degree - 1 → sv σ1 j = derSaved t degree span (basisFuns t (degree - 1) x span) j := by
    intro j hj
    show (degree : ℚ) * τ.values j / _ = _
    rw [hval j hj]
    rfl
  refine ⟨{ σ1 with ders := fun k_ => if k_ = degree then S else D k_, saved := S, j := J, temp := T }, ?_, ?_, ?_⟩
  · have key : (match nu_basis_funs_1st_der_loop1 U F (degree - 1) 1 σ1 with
        | .ok σ => Out.ret { σ with ders := fun k_ => if k_ = σ.degree then σ.saved else σ.ders k_ }
        | .done o => o)
        = Out.ret { σ1 with ders := fun k_ => if k_ = degree then S else D k_, saved := S, j := J, temp := T } := by
      rw [hrun]
    unfold run
    simp only
    rw [hτ]
    exact key
  · intro k hk
    have hR : (basisFunsDer t degree x span).getD k 0
        = (if k = 0 then 0 else derSaved t degree span (basisFuns t (degree - 1) x span) (k - 1)) -
          (if k < degree then derSaved t degree span (basisFuns t (degree - 1) x span) k else 0) := by
      unfold basisFunsDer
      simp only
      rw [getD_map_range', if_pos (by omega)]
    rw [hR]
    show (if k = degree then S else D k) = _
    by_cases hd : degree = 0
    · -- degree 0: the only entry is 0 on both sides
      obtain rfl : k = 0 := by omega
      subst hd
      rw [if_pos rfl, hS]
      simp [sv, σ1]
    by_cases hkd : k = degree
    · rw [if_pos hkd, hS, if_neg (show ¬ k = 0 by omega), if_neg (show ¬ k < degree by omega), hkd, sub_zero,
        show 1 + (degree - 1) - 1 = degree - 1 by omega]
      exact hsv _ (le_refl _)
    · rw [if_neg hkd, if_pos (show k < degree by omega)]
      by_cases hk0 : k = 0
      · subst hk0
        rw [if_pos rfl, hlo 0 (by omega), ← hsv 0 (by omega), zero_sub]
        rfl
      · rw [if_neg hk0, hmid k (by omega) (by omega), hsv _ (by omega), hsv _ (by omega)]
  · intro k hk
    show (if k = degree then S else D k) = _
    rw [if_neg (by omega), hhi k (by omega)]
    show (if k = 0 then _ else d0 k) = _
    rw [if_neg (by omega)]

end der

/-! ### the accumulation loop of nu_eval_spline_1d_scalar -/
section dot
open PygyroVerif.Gen.EvalSpline.nu_eval_spline_1d_scalar_

/-- `for j in range(degree+1): y += coeffs[span-degree+j]*basis[j]` started at `i` with `n` iterations left -/
theorem dot_loop_eq (U : ℕ → ℚ) (F : ℕ) : ∀ (n i : ℕ) (σ : St),
    ∃ Y J, nu_eval_spline_1d_scalar_loop1 U F n i σ = .ok { σ with y := Y, j := J } ∧
      Y = σ.y + ((List.range n).map (fun k => σ.coeffs (σ.span - σ.degree + (i + k)) * σ.basis (i + k))).sum := by
  intro n
  induction n with
  | zero => intro i σ; exact ⟨σ.y, σ.j, rfl, by simp⟩
  | succ n ih =>
    intro i σ
    let σ1 : St := { σ with j := i, y := σ.y + σ.coeffs (σ.span - σ.degree + i) * σ.basis i }
    obtain ⟨Y, J, hrun, hY⟩ := ih (i + 1) σ1
    refine ⟨Y, J, hrun, ?_⟩
    rw [hY, List.range_succ_eq_map]
    simp only [List.map_cons, List.sum_cons, List.map_map, Nat.add_zero]
    have : ((fun k => σ.coeffs (σ.span - σ.degree + (i + k)) * σ.basis (i + k)) ∘ Nat.succ)
        = (fun k => σ1.coeffs (σ1.span - σ1.degree + (i + 1 + k)) * σ1.basis (i + 1 + k)) := by
      funext k
      simp only [Function.comp, Nat.succ_eq_add_one]
      rw [show i + (k + 1) = i + 1 + k by omega]
    rw [this]
    show σ.y + σ.coeffs (σ.span - σ.degree + i) * σ.basis i + _ = _
    ring

end dot

end PygyroVerif.EvalSplineGen
