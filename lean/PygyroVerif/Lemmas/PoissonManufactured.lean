/-
Helper lemmas for the clause "exact for manufactured solutions in the spline space" of property C14
(`Props/C14Extra.lean`).

  * quadrature sums over a window of cells vs. over all cells (`quadSum_window`, `quadSum_window_eq_all`),
    linearity of the all-cells sum;
  * `LocalSupport`: the tables of basis-function values vanish outside the `degree+1` cells of the support;
    under it every assembled entry is the all-cells Gauss sum of its integrand (`assembled_entry_allcells`),
    inside *and* outside the band;
  * the unsliced operator matrix of a mode (`opMatrix`), its rows applied to a coefficient vector
    (`opRow_apply`), the two right-hand sides (`modeRhs_eq_rhoVec`, `rhoVec_eq_opRow`);
  * the per-mode linear algebra: `modeMatrix_eq_opMatrix`, `exact_is_solution`, `isSol_unique`,
    `trivial_kernel_of_left_inverse`;
  * `QuadIBP` (integration by parts under the quadrature sum) and its proof from exactness of the rule on the
    piecewise polynomial `A u' ψ r` (`quadIBP_of_cell_exactness`, `cell_exactness_of_quadExact`), for splines given
    by the polynomial pieces of their basis functions (`SplinePieces`, `quadIBP_of_spline_pieces`,
    `quadIBP_for_mode`);
  * `QuadExact` on cells of equal length from the reference rule on `[-1,1]` (`RefExact`,
    `quadExact_of_reference_rule`: the affine map `evalPt` and the per-cell `multFactor[c]` of the code, any breaks;
    `old_single_multFactor_not_exact`: the rule before fix F17 is not exact on non-uniform breaks);
  * the tables computed by the evaluation kernels of Model/BSpline.lean on clamped knots are `SplinePieces`
    (`kernelPiece`, `kernel_spline_pieces`, `unitSplineVal_eq_piece`), also after mapping to a larger field
    (`SplinePieces.map`, `kernel_tables_are_spline_pieces`).
-/
import PygyroVerif.Model.Poisson
import PygyroVerif.Lemmas.Poisson
import PygyroVerif.Props.C14
import PygyroVerif.Lemmas.BSpline
import PygyroVerif.Props.C07
import Mathlib.Algebra.BigOperators.Intervals
import Mathlib.Algebra.Polynomial.Derivative
import Mathlib.Algebra.Polynomial.Degree.Lemmas
import Mathlib.Algebra.Polynomial.BigOperators
import Mathlib.Logic.Basic
import Mathlib.Tactic.ByContra
import Mathlib.Tactic.Set
import Mathlib.Tactic.Ring
import Mathlib.Tactic.Linarith
import Mathlib.Tactic.NormNum
import Mathlib.Tactic.FieldSimp
import Mathlib.Algebra.Polynomial.Eval.Degree

namespace PygyroVerif.PoissonManufactured

open Finset PygyroVerif.Poisson PygyroVerif.PoissonLemmas

variable {K : Type*} [Field K]

/-! ### quadrature sums: windows of cells, linearity -/

/-- the Gauss sum over all cells as a double sum -/
theorem quadAll_eq_sum (Q : Quad K) (g : ℕ → ℕ → K) :
    quadSum Q (0, Q.ncells) g = ∑ e ∈ range Q.ncells, ∑ q ∈ range Q.nq, Q.w q * Q.mult e * g e q := by
  have h := quadSum_eq_sum Q 0 Q.ncells g
  simp only [Nat.zero_add] at h
  exact h

/-- the Gauss sum over the cells `lo ≤ e < hi` (`hi ≤ ncells`; empty if `hi ≤ lo`) as a sum over all cells -/
theorem quadSum_window (Q : Quad K) (lo hi : ℕ) (h : hi ≤ Q.ncells) (g : ℕ → ℕ → K) :
    quadSum Q (lo, hi) g =
      ∑ e ∈ range Q.ncells, if lo ≤ e ∧ e < hi then ∑ q ∈ range Q.nq, Q.w q * Q.mult e * g e q else 0 := by
  have h1 : quadSum Q (lo, hi) g = quadSum Q (lo, lo + (hi - lo)) g := by
    unfold quadSum
    simp only [Nat.add_sub_cancel_left]
  rw [h1, quadSum_eq_sum, ← Finset.sum_filter]
  have h2 : (range Q.ncells).filter (fun e => lo ≤ e ∧ e < hi) = Ico lo hi := by
    ext e
    simp only [mem_filter, mem_range, mem_Ico]
    omega
  rw [h2, Finset.sum_Ico_eq_sum_range]

/-- if the integrand vanishes on the cells outside the window, the window sum is the all-cells sum -/
theorem quadSum_window_eq_all (Q : Quad K) (lo hi : ℕ) (h : hi ≤ Q.ncells) (g : ℕ → ℕ → K)
    (hz : ∀ e q, e < Q.ncells → q < Q.nq → ¬ (lo ≤ e ∧ e < hi) → g e q = 0) :
    quadSum Q (lo, hi) g = quadSum Q (0, Q.ncells) g := by
  rw [quadSum_window Q lo hi h, quadAll_eq_sum]
  refine Finset.sum_congr rfl (fun e he => ?_)
  split_ifs with hw
  · rfl
  · symm
    refine Finset.sum_eq_zero (fun q hq => ?_)
    rw [hz e q (mem_range.mp he) (mem_range.mp hq) hw, mul_zero]

theorem quadAll_congr (Q : Quad K) (g g' : ℕ → ℕ → K)
    (h : ∀ e q, e < Q.ncells → q < Q.nq → g e q = g' e q) :
    quadSum Q (0, Q.ncells) g = quadSum Q (0, Q.ncells) g' := by
  rw [quadAll_eq_sum, quadAll_eq_sum]
  refine Finset.sum_congr rfl (fun e he => Finset.sum_congr rfl (fun q hq => ?_))
  rw [h e q (mem_range.mp he) (mem_range.mp hq)]

theorem quadAll_zero (Q : Quad K) (g : ℕ → ℕ → K) (h : ∀ e q, e < Q.ncells → q < Q.nq → g e q = 0) :
    quadSum Q (0, Q.ncells) g = 0 := by
  rw [quadAll_eq_sum]
  refine Finset.sum_eq_zero (fun e he => Finset.sum_eq_zero (fun q hq => ?_))
  rw [h e q (mem_range.mp he) (mem_range.mp hq), mul_zero]

theorem quadAll_add (Q : Quad K) (g g' : ℕ → ℕ → K) :
    quadSum Q (0, Q.ncells) (fun e q => g e q + g' e q) =
      quadSum Q (0, Q.ncells) g + quadSum Q (0, Q.ncells) g' := by
  simp only [quadAll_eq_sum, ← Finset.sum_add_distrib]
  exact Finset.sum_congr rfl (fun e _ => Finset.sum_congr rfl (fun q _ => by ring))

theorem quadAll_sub (Q : Quad K) (g g' : ℕ → ℕ → K) :
    quadSum Q (0, Q.ncells) (fun e q => g e q - g' e q) =
      quadSum Q (0, Q.ncells) g - quadSum Q (0, Q.ncells) g' := by
  simp only [quadAll_eq_sum, ← Finset.sum_sub_distrib]
  exact Finset.sum_congr rfl (fun e _ => Finset.sum_congr rfl (fun q _ => by ring))

theorem quadAll_smul (Q : Quad K) (a : K) (g : ℕ → ℕ → K) :
    quadSum Q (0, Q.ncells) (fun e q => a * g e q) = a * quadSum Q (0, Q.ncells) g := by
  simp only [quadAll_eq_sum, Finset.mul_sum]
  exact Finset.sum_congr rfl (fun e _ => Finset.sum_congr rfl (fun q _ => by ring))

/-- `Σ_j (all-cells sum of g_j) · cf_j` is the all-cells sum of `Σ_j g_j cf_j` -/
theorem quadAll_sum (Q : Quad K) (n : ℕ) (g : ℕ → ℕ → ℕ → K) (cf : ℕ → K) :
    ∑ j ∈ range n, quadSum Q (0, Q.ncells) (g j) * cf j =
      quadSum Q (0, Q.ncells) (fun e q => ∑ j ∈ range n, g j e q * cf j) := by
  simp only [quadAll_eq_sum, Finset.sum_mul, Finset.mul_sum]
  rw [Finset.sum_comm]
  refine Finset.sum_congr rfl (fun e _ => ?_)
  rw [Finset.sum_comm]
  exact Finset.sum_congr rfl (fun q _ => Finset.sum_congr rfl (fun j _ => by ring))

/-! ### local support of the basis-function tables -/

/-- The tables `P j e q = B_j(x e q)`, `dP j e q = B_j'(x e q)` vanish on the cells `e` outside the support
    `j - degree ≤ e ≤ j` of the `j`-th basis function (a property of B-splines; contract of the tables). -/
def LocalSupport (d nb : ℕ) (Q : Quad K) (P dP : ℕ → ℕ → ℕ → K) : Prop :=
  ∀ j e q, j < nb → e < Q.ncells → q < Q.nq → (e + d < j ∨ j < e) → P j e q = 0 ∧ dP j e q = 0

/-- the window used by the loops is contained in the grid -/
theorem overlap_le (d ncells i s : ℕ) : (overlap d ncells i s).2 ≤ ncells := by
  unfold overlap; dsimp only; omega

/-- a cell of the grid outside the window of `(r, c)` is outside the support of `r` or of `c` -/
theorem outside_overlap (d ncells r c e : ℕ) (he : e < ncells)
    (h : ¬ ((overlap d ncells r c).1 ≤ e ∧ e < (overlap d ncells r c).2)) :
    (e + d < r ∨ r < e) ∨ (e + d < c ∨ c < e) := by
  unfold overlap at h; dsimp only at h; omega

/-- outside the band the supports are disjoint -/
theorem outside_band (d r c e : ℕ) (h : c + d < r ∨ r + d < c) :
    (e + d < r ∨ r < e) ∨ (e + d < c ∨ c < e) := by omega

/-- an integrand that vanishes wherever one of the two basis functions does: the value stored by the loops
    (window sum inside the band, `0` outside) is the all-cells sum -/
theorem entry_allcells (d : ℕ) (Q : Quad K) (r c : ℕ) (g : ℕ → ℕ → K)
    (hz : ∀ e q, e < Q.ncells → q < Q.nq → ((e + d < r ∨ r < e) ∨ (e + d < c ∨ c < e)) → g e q = 0) :
    (¬ (c + d < r ∨ r + d < c) → quadSum Q (overlap d Q.ncells r c) g = quadSum Q (0, Q.ncells) g) ∧
    ((c + d < r ∨ r + d < c) → quadSum Q (0, Q.ncells) g = 0) := by
  constructor
  · intro _
    exact quadSum_window_eq_all Q _ _ (overlap_le d Q.ncells r c) g
      (fun e q he hq hw => hz e q he hq (outside_overlap d Q.ncells r c e he hw))
  · intro hb
    exact quadAll_zero Q g (fun e q he hq => hz e q he hq (outside_band d r c e hb))

/-- Under `LocalSupport` **every** entry `(r, c)` of the five assembled matrices — inside and outside the band —
    is the Gauss sum over *all* cells of its integrand (row `r` = test function, column `c` = trial function). -/
theorem assembled_entry_allcells (d nb : ℕ) (Q : Quad K) (co : Coefs K) (P dP : ℕ → ℕ → ℕ → K)
    (hs : LocalSupport d nb Q P dP) (r c : ℕ) (hr : r < nb) (hc : c < nb) :
    (assemble d nb Q co P dP).mass r c
        = quadSum Q (0, Q.ncells) (fun e q => co.E e q * P c e q * P r e q * Q.x e q) ∧
    (assemble d nb Q co P dP).k2 r c
        = quadSum Q (0, Q.ncells) (fun e q => co.D e q * P c e q * P r e q * Q.x e q) ∧
    (assemble d nb Q co P dP).phiPsi r c
        = quadSum Q (0, Q.ncells) (fun e q => co.C e q * P c e q * P r e q * Q.x e q) ∧
    (assemble d nb Q co P dP).dPhidPsi r c
        = quadSum Q (0, Q.ncells) (fun e q => -(co.A e q) * dP c e q * dP r e q * Q.x e q)
          + quadSum Q (0, Q.ncells) (fun e q => -(co.A e q) * dP c e q * P r e q) ∧
    (assemble d nb Q co P dP).dPhiPsi r c
        = quadSum Q (0, Q.ncells) (fun e q => co.B e q * dP c e q * P r e q * Q.x e q) := by
  have hw := C14.assembled_is_quadrature_weak_form d nb Q co P dP r c hr hc
  -- vanishing of the six integrands outside the two supports
  have hz : ∀ (F : ℕ → ℕ → K) (T1 T2 : ℕ → ℕ → ℕ → K), (T1 = P ∨ T1 = dP) → (T2 = P ∨ T2 = dP) →
      ∀ e q, e < Q.ncells → q < Q.nq → ((e + d < r ∨ r < e) ∨ (e + d < c ∨ c < e)) →
        F e q * T1 c e q * T2 r e q = 0 := by
    intro F T1 T2 h1 h2 e q he hq hout
    rcases hout with ho | ho
    · have := hs r e q hr he hq ho
      rcases h2 with rfl | rfl
      · rw [this.1, mul_zero]
      · rw [this.2, mul_zero]
    · have := hs c e q hc he hq ho
      rcases h1 with rfl | rfl
      · rw [this.1, mul_zero, zero_mul]
      · rw [this.2, mul_zero, zero_mul]
  have hz4 : ∀ (F : ℕ → ℕ → K) (T1 T2 : ℕ → ℕ → ℕ → K), (T1 = P ∨ T1 = dP) → (T2 = P ∨ T2 = dP) →
      ∀ e q, e < Q.ncells → q < Q.nq → ((e + d < r ∨ r < e) ∨ (e + d < c ∨ c < e)) →
        F e q * T1 c e q * T2 r e q * Q.x e q = 0 := by
    intro F T1 T2 h1 h2 e q he hq hout
    rw [hz F T1 T2 h1 h2 e q he hq hout, zero_mul]
  have eE := entry_allcells d Q r c _ (hz4 co.E P P (Or.inl rfl) (Or.inl rfl))
  have eD := entry_allcells d Q r c _ (hz4 co.D P P (Or.inl rfl) (Or.inl rfl))
  have eC := entry_allcells d Q r c _ (hz4 co.C P P (Or.inl rfl) (Or.inl rfl))
  have eA1 := entry_allcells d Q r c _ (hz4 (fun e q => -(co.A e q)) dP dP (Or.inr rfl) (Or.inr rfl))
  have eA2 := entry_allcells d Q r c _ (hz (fun e q => -(co.A e q)) dP P (Or.inr rfl) (Or.inl rfl))
  have eB := entry_allcells d Q r c _ (hz4 co.B dP P (Or.inr rfl) (Or.inl rfl))
  by_cases hb : c + d < r ∨ r + d < c
  · obtain ⟨h1, h2, h3, h4, h5⟩ := hw.1 (not_not.mpr hb)
    rw [h1, h2, h3, h4, h5, eE.2 hb, eD.2 hb, eC.2 hb, eA1.2 hb, eA2.2 hb, eB.2 hb, add_zero]
    exact ⟨rfl, rfl, rfl, rfl, rfl⟩
  · obtain ⟨h1, h2, h3, h4, h5⟩ := hw.2 hb
    rw [h1, h2, h3, h4, h5, eE.1 hb, eD.1 hb, eC.1 hb, eA1.1 hb, eA2.1 hb, eB.1 hb]
    exact ⟨rfl, rfl, rfl, rfl, rfl⟩

/-! ### the operator of a mode applied to a spline -/

/-- value at the evaluation point `(e, q)` of the function `Σ_j cf_j T_j` (`T = P`: the spline, `T = dP`: its
    derivative, `T = ddP`: its second derivative) -/
def splineAt (nb : ℕ) (cf : ℕ → K) (T : ℕ → ℕ → ℕ → K) (e q : ℕ) : K := ∑ j ∈ range nb, cf j * T j e q

/-- The full (`nbasis × nbasis`, before any slicing) matrix of mode `I`:
    `dPhidPsi + dPhiPsi + PhiPsi - m² k2PhiPsi`. -/
def opMatrix (A : Assembled K) (c : BCConfig) (I : ℕ) : ℕ → ℕ → K :=
  fun r s => A.dPhidPsi r s + A.dPhiPsi r s + A.phiPsi r s - m2 c.N I * A.k2 r s

/-- Row `r` of the assembled mode operator applied to the coefficients `cf`: the Gauss-sum weak form
    `Σ w [ -A u' (ψ' r + ψ) + B u' ψ r + C u ψ r - m² D u ψ r ]` of `u = Σ cf_j B_j` against `ψ = B_r`. -/
theorem opRow_apply (d nb : ℕ) (Q : Quad K) (co : Coefs K) (P dP : ℕ → ℕ → ℕ → K)
    (hs : LocalSupport d nb Q P dP) (c : BCConfig) (I : ℕ) (cf : ℕ → K) (r : ℕ) (hr : r < nb) :
    ∑ j ∈ range nb, opMatrix (assemble d nb Q co P dP) c I r j * cf j =
      quadSum Q (0, Q.ncells) (fun e q => -(co.A e q) * splineAt nb cf dP e q * dP r e q * Q.x e q)
      + quadSum Q (0, Q.ncells) (fun e q => -(co.A e q) * splineAt nb cf dP e q * P r e q)
      + quadSum Q (0, Q.ncells) (fun e q => co.B e q * splineAt nb cf dP e q * P r e q * Q.x e q)
      + quadSum Q (0, Q.ncells) (fun e q => co.C e q * splineAt nb cf P e q * P r e q * Q.x e q)
      - m2 c.N I * quadSum Q (0, Q.ncells) (fun e q => co.D e q * splineAt nb cf P e q * P r e q * Q.x e q) := by
  have hent : ∀ j, j ∈ range nb → opMatrix (assemble d nb Q co P dP) c I r j * cf j =
      quadSum Q (0, Q.ncells) (fun e q => -(co.A e q) * dP j e q * dP r e q * Q.x e q) * cf j
      + quadSum Q (0, Q.ncells) (fun e q => -(co.A e q) * dP j e q * P r e q) * cf j
      + quadSum Q (0, Q.ncells) (fun e q => co.B e q * dP j e q * P r e q * Q.x e q) * cf j
      + quadSum Q (0, Q.ncells) (fun e q => co.C e q * P j e q * P r e q * Q.x e q) * cf j
      - m2 c.N I * (quadSum Q (0, Q.ncells) (fun e q => co.D e q * P j e q * P r e q * Q.x e q) * cf j) := by
    intro j hj
    obtain ⟨_, h2, h3, h4, h5⟩ := assembled_entry_allcells d nb Q co P dP hs r j hr (mem_range.mp hj)
    unfold opMatrix
    rw [h2, h3, h4, h5]
    ring
  rw [Finset.sum_congr rfl hent]
  simp only [Finset.sum_add_distrib, Finset.sum_sub_distrib, ← Finset.mul_sum]
  rw [quadAll_sum Q nb (fun j e q => -(co.A e q) * dP j e q * dP r e q * Q.x e q) cf,
    quadAll_sum Q nb (fun j e q => -(co.A e q) * dP j e q * P r e q) cf,
    quadAll_sum Q nb (fun j e q => co.B e q * dP j e q * P r e q * Q.x e q) cf,
    quadAll_sum Q nb (fun j e q => co.C e q * P j e q * P r e q * Q.x e q) cf,
    quadAll_sum Q nb (fun j e q => co.D e q * P j e q * P r e q * Q.x e q) cf]
  have e1 : ∀ (F : ℕ → ℕ → K) (T T' : ℕ → ℕ → ℕ → K),
      quadSum Q (0, Q.ncells) (fun e q => ∑ j ∈ range nb, F e q * T j e q * T' r e q * Q.x e q * cf j) =
      quadSum Q (0, Q.ncells) (fun e q => F e q * splineAt nb cf T e q * T' r e q * Q.x e q) := by
    intro F T T'
    refine quadAll_congr Q _ _ (fun e q _ _ => ?_)
    unfold splineAt
    rw [Finset.mul_sum, Finset.sum_mul, Finset.sum_mul]
    exact Finset.sum_congr rfl (fun j _ => by ring)
  have e2 : quadSum Q (0, Q.ncells) (fun e q => ∑ j ∈ range nb, -(co.A e q) * dP j e q * P r e q * cf j) =
      quadSum Q (0, Q.ncells) (fun e q => -(co.A e q) * splineAt nb cf dP e q * P r e q) := by
    refine quadAll_congr Q _ _ (fun e q _ _ => ?_)
    unfold splineAt
    rw [Finset.mul_sum, Finset.sum_mul]
    exact Finset.sum_congr rfl (fun j _ => by ring)
  rw [e1 (fun e q => -(co.A e q)) dP dP, e2, e1 co.B dP P, e1 co.C P P, e1 co.D P P]

/-- The load vector of the **discrete** entry point (`massMat.dot(rho spline coefficients)`, row of basis function
    `r`) is the load vector of the **function** entry point for the function `Σ_j rhoCoeffs_j B_j`:
    `Σ w E rho_h B_r r`. -/
theorem massRow_eq_rhoVec (d nb : ℕ) (Q : Quad K) (co : Coefs K) (P dP : ℕ → ℕ → ℕ → K)
    (hs : LocalSupport d nb Q P dP) (rhoCoeffs : ℕ → K) (r : ℕ) (hr : r < nb) :
    ∑ j ∈ range nb, (assemble d nb Q co P dP).mass r j * rhoCoeffs j =
      rhoVec Q co P (splineAt nb rhoCoeffs P) r := by
  have hent : ∀ j, j ∈ range nb → (assemble d nb Q co P dP).mass r j * rhoCoeffs j =
      quadSum Q (0, Q.ncells) (fun e q => co.E e q * P j e q * P r e q * Q.x e q) * rhoCoeffs j := by
    intro j hj
    rw [(assembled_entry_allcells d nb Q co P dP hs r j hr (mem_range.mp hj)).1]
  rw [Finset.sum_congr rfl hent,
    quadAll_sum Q nb (fun j e q => co.E e q * P j e q * P r e q * Q.x e q) rhoCoeffs]
  unfold rhoVec
  refine quadAll_congr Q _ _ (fun e q _ _ => ?_)
  unfold splineAt
  rw [Finset.mul_sum, Finset.sum_mul]
  exact Finset.sum_congr rfl (fun j _ => by ring)

/-- **Integration by parts under the quadrature sum**, with vanishing boundary term, for the test function `B_r`
    and the function with first / second derivative tables `du`, `ddu`:
    `Σ w A u'' ψ r = - Σ w A u' ψ' r - Σ w A u' ψ`   (`(ψ r)' = ψ' r + ψ`). -/
def QuadIBP (Q : Quad K) (co : Coefs K) (P dP : ℕ → ℕ → ℕ → K) (du ddu : ℕ → ℕ → K) (r : ℕ) : Prop :=
  quadSum Q (0, Q.ncells) (fun e q => co.A e q * ddu e q * P r e q * Q.x e q) =
    quadSum Q (0, Q.ncells) (fun e q => -(co.A e q) * du e q * dP r e q * Q.x e q)
    + quadSum Q (0, Q.ncells) (fun e q => -(co.A e q) * du e q * P r e q)

/-- the strong form of the mode-`I` equation at the evaluation points, for `u = Σ cf_j B_j` (second derivatives
    of the basis functions: table `ddP`) and the right-hand side values `rhoAt` -/
def StrongFormAt (nb : ℕ) (Q : Quad K) (co : Coefs K) (P dP ddP : ℕ → ℕ → ℕ → K) (c : BCConfig) (I : ℕ)
    (cf : ℕ → K) (rhoAt : ℕ → ℕ → K) : Prop :=
  ∀ e q, e < Q.ncells → q < Q.nq →
    co.E e q * rhoAt e q =
      co.A e q * splineAt nb cf ddP e q + co.B e q * splineAt nb cf dP e q + co.C e q * splineAt nb cf P e q
        - m2 c.N I * (co.D e q * splineAt nb cf P e q)

/-- The load vector for a right-hand side that satisfies the strong form with `u` at the evaluation points is
    the assembled operator applied to the coefficients of `u` — for every row `r` for which the quadrature
    integration by parts holds. -/
theorem rhoVec_eq_opRow (d nb : ℕ) (Q : Quad K) (co : Coefs K) (P dP ddP : ℕ → ℕ → ℕ → K)
    (hs : LocalSupport d nb Q P dP) (c : BCConfig) (I : ℕ) (cf : ℕ → K) (rhoAt : ℕ → ℕ → K)
    (hstrong : StrongFormAt nb Q co P dP ddP c I cf rhoAt) (r : ℕ) (hr : r < nb)
    (hibp : QuadIBP Q co P dP (splineAt nb cf dP) (splineAt nb cf ddP) r) :
    rhoVec Q co P rhoAt r = ∑ j ∈ range nb, opMatrix (assemble d nb Q co P dP) c I r j * cf j := by
  rw [opRow_apply d nb Q co P dP hs c I cf r hr, ← hibp]
  unfold rhoVec
  rw [← quadAll_smul, ← quadAll_add, ← quadAll_add, ← quadAll_sub]
  refine quadAll_congr Q _ _ (fun e q he hq => ?_)
  have h := hstrong e q he hq
  calc P r e q * Q.x e q * rhoAt e q * co.E e q
      = (co.E e q * rhoAt e q) * (P r e q * Q.x e q) := by ring
    _ = _ := by rw [h]; ring

/-! ### the per-mode linear system -/

/-- the matrix handed to `spsolve` for mode `I` is the block of the full mode operator on the rows / columns of
    the coefficient slice `_coeff_range[I]` -/
theorem modeMatrix_eq_opMatrix (A : Assembled K) (c : BCConfig) (I : ℕ) (hnb : 2 ≤ c.nb) (a b : ℕ) :
    modeMatrix A c I a b = opMatrix A c I ((coeffRange c I).1 + a) ((coeffRange c I).1 + b) := by
  have h := (C14.slices_consistent c I hnb).2.2.2.2.2.1
  unfold modeMatrix opMatrix stiffnessMatrix sliceSq
  simp only [← Nat.add_assoc, h]

/-- the right-hand side of the discrete entry point, row `a` of the mode system, is the mass-matrix row of the
    basis function `coeffRange.1 + a` -/
theorem modeRhs_eq_massRow (A : Assembled K) (c : BCConfig) (I : ℕ) (hnb : 2 ≤ c.nb) (rhoCoeffs : ℕ → K) (a : ℕ) :
    modeRhs A c I rhoCoeffs a = ∑ j ∈ range c.nb, A.mass ((coeffRange c I).1 + a) j * rhoCoeffs j := by
  have h := (C14.slices_consistent c I hnb).2.2.2.2.2.1
  unfold modeRhs sliceRows
  rw [list_range_map_sum]
  simp only [← Nat.add_assoc, h]

/-- size of the mode system = length of the coefficient slice -/
theorem modeSize_eq (c : BCConfig) (I : ℕ) (hnb : 2 ≤ c.nb) :
    (coeffRange c I).1 + modeSize c I = (coeffRange c I).2 ∧ (coeffRange c I).2 ≤ c.nb := by
  obtain ⟨h1, _, h3, h4, h5, _, _⟩ := C14.slices_consistent c I hnb
  unfold modeSize
  omega

/-- a sum over all basis functions whose terms vanish outside the slice `[s, s + n)` is the sum over the slice -/
theorem sum_slice (f : ℕ → K) (nb s n : ℕ) (h : s + n ≤ nb)
    (hz : ∀ p, p < nb → ¬ (s ≤ p ∧ p < s + n) → f p = 0) :
    ∑ p ∈ range nb, f p = ∑ b ∈ range n, f (s + b) := by
  have hI : ∑ p ∈ Ico s (s + n), f p = ∑ b ∈ range n, f (s + b) := by
    rw [Finset.sum_Ico_eq_sum_range, Nat.add_sub_cancel_left]
  rw [← hI]
  symm
  refine Finset.sum_subset (fun p hp => ?_) (fun p hp hnp => ?_)
  · rw [mem_Ico] at hp; rw [mem_range]; omega
  · rw [mem_range] at hp; rw [mem_Ico] at hnp; exact hz p hp hnp

/-- **The manufactured coefficients solve the mode system**: if the coefficients `cstar` vanish outside the
    coefficient slice of mode `I` (boundary conditions) and the right-hand side is the assembled operator applied
    to `cstar` on the rows of the slice, then the restriction of `cstar` to the slice satisfies `M x = b`. -/
theorem exact_is_solution (A : Assembled K) (c : BCConfig) (I : ℕ) (hnb : 2 ≤ c.nb) (cstar b : ℕ → K)
    (hbc : ∀ p, p < c.nb → ¬ ((coeffRange c I).1 ≤ p ∧ p < (coeffRange c I).2) → cstar p = 0)
    (hb : ∀ a, a < modeSize c I →
      b a = ∑ j ∈ range c.nb, opMatrix A c I ((coeffRange c I).1 + a) j * cstar j) :
    IsSol (modeSize c I) (modeMatrix A c I) b (fun a => cstar ((coeffRange c I).1 + a)) := by
  intro a ha
  obtain ⟨hsz, hle⟩ := modeSize_eq c I hnb
  rw [matVec_eq_sum, hb a ha,
    sum_slice (fun j => opMatrix A c I ((coeffRange c I).1 + a) j * cstar j) c.nb (coeffRange c I).1
      (modeSize c I) (by omega)
      (fun p hp hout => by rw [hbc p hp (by rw [← hsz]; exact hout), mul_zero])]
  exact Finset.sum_congr rfl (fun j _ => by rw [modeMatrix_eq_opMatrix A c I hnb])

/-- two solutions of a system with trivial kernel coincide (the contract of `spsolve` — "some `x` with
    `M x = b`" — then determines the result) -/
theorem isSol_unique (n : ℕ) (M : ℕ → ℕ → K) (b x y : ℕ → K)
    (hker : ∀ z, IsSol n M (fun _ => 0) z → ∀ a, a < n → z a = 0)
    (hx : IsSol n M b x) (hy : IsSol n M b y) : ∀ a, a < n → x a = y a := by
  intro a ha
  have hdiff : IsSol n M (fun _ => 0) (fun a => x a - y a) := by
    intro i hi
    have e1 := hx i hi
    have e2 := hy i hi
    simp only [matVec_eq_sum] at e1 e2 ⊢
    have : ∑ j ∈ range n, M i j * (x j - y j) = ∑ j ∈ range n, M i j * x j - ∑ j ∈ range n, M i j * y j := by
      rw [← Finset.sum_sub_distrib]; exact Finset.sum_congr rfl (fun j _ => by ring)
    rw [this, e1, e2, sub_self]
  exact sub_eq_zero.mp (hker _ hdiff a ha)

/-- a matrix with a left inverse has trivial kernel (used to discharge the solvability hypothesis by computation) -/
theorem trivial_kernel_of_left_inverse (n : ℕ) (M L : ℕ → ℕ → K)
    (hL : ∀ a j, a < n → j < n → ∑ k ∈ range n, L a k * M k j = if a = j then 1 else 0) :
    ∀ z, IsSol n M (fun _ => 0) z → ∀ a, a < n → z a = 0 := by
  intro z hz a ha
  have h1 : ∑ k ∈ range n, L a k * (∑ j ∈ range n, M k j * z j) = 0 := by
    refine Finset.sum_eq_zero (fun k hk => ?_)
    have := hz k (mem_range.mp hk)
    rw [matVec_eq_sum] at this
    rw [this, mul_zero]
  have h2 : ∑ k ∈ range n, L a k * (∑ j ∈ range n, M k j * z j) =
      ∑ j ∈ range n, (∑ k ∈ range n, L a k * M k j) * z j := by
    simp only [Finset.mul_sum, Finset.sum_mul]
    rw [Finset.sum_comm]
    exact Finset.sum_congr rfl (fun j _ => Finset.sum_congr rfl (fun k _ => by ring))
  rw [h2] at h1
  have h3 : ∑ j ∈ range n, (∑ k ∈ range n, L a k * M k j) * z j = z a := by
    rw [Finset.sum_eq_single a]
    · rw [hL a a ha ha, if_pos rfl, one_mul]
    · intro j hj hne
      rw [hL a j ha (mem_range.mp hj), if_neg (Ne.symm hne), zero_mul]
    · intro hna
      exact absurd (mem_range.mpr ha) hna
  rw [← h3, h1]

/-- The coefficient buffer after the solve holds exactly `cstar` when the solver returned the restriction of
    `cstar` to the slice and `cstar` vanishes outside the slice. -/
theorem coeffsAfter_eq (c : BCConfig) (I : ℕ) (hnb : 2 ≤ c.nb) (buf x cstar : ℕ → K)
    (hbc : ∀ p, p < c.nb → ¬ ((coeffRange c I).1 ≤ p ∧ p < (coeffRange c I).2) → cstar p = 0)
    (hx : ∀ a, a < modeSize c I → x a = cstar ((coeffRange c I).1 + a)) (p : ℕ) (hp : p < c.nb) :
    coeffsAfter buf c.nb (coeffRange c I) x p = cstar p := by
  rw [C14.coeffs_buffer_history_free c I hnb buf x p hp]
  obtain ⟨hsz, _⟩ := modeSize_eq c I hnb
  split_ifs with h
  · rw [hx _ (by omega)]
    congr 1; omega
  · exact (hbc p hp h).symm

/-! ### integration by parts under the quadrature sum, from exactness of the rule -/

section polynomial
open Polynomial

/-- the piece on cell `e` of the flux `u' ψ r` (`pdu e`: the polynomial that `u'` is on cell `e`, `pψ e`: the
    polynomial that the test function is on cell `e`, `X`: the radius) -/
noncomputable def fluxPoly (pdu pψ : ℕ → K[X]) (e : ℕ) : K[X] := pdu e * pψ e * X

theorem fluxPoly_eval (pdu pψ : ℕ → K[X]) (e : ℕ) (x : K) :
    (fluxPoly pdu pψ e).eval x = (pdu e).eval x * (pψ e).eval x * x := by
  unfold fluxPoly
  rw [eval_mul, eval_mul, eval_X]

/-- `(u' ψ r)' = u'' ψ r + u' ψ' r + u' ψ` -/
theorem fluxPoly_derivative_eval (pdu pψ : ℕ → K[X]) (e : ℕ) (x : K) :
    (derivative (fluxPoly pdu pψ e)).eval x =
      (derivative (pdu e)).eval x * (pψ e).eval x * x + (pdu e).eval x * (derivative (pψ e)).eval x * x
        + (pdu e).eval x * (pψ e).eval x := by
  unfold fluxPoly
  rw [derivative_mul, derivative_mul, derivative_X]
  simp only [eval_add, eval_mul, eval_X, mul_one]
  ring

theorem fluxPoly_natDegree_le (pdu pψ : ℕ → K[X]) (e N : ℕ)
    (h : (pdu e).natDegree + (pψ e).natDegree ≤ N) : (fluxPoly pdu pψ e).natDegree ≤ N + 1 := by
  unfold fluxPoly
  have h1 := natDegree_mul_le (p := pdu e * pψ e) (q := (X : K[X]))
  have h2 := natDegree_mul_le (p := pdu e) (q := pψ e)
  have h3 := natDegree_X_le (R := K)
  omega

/-- `Σ_e (G'(e) - G(e)) = 0` when `G'(e) = G(e+1)` at the interior breaks and the two end values agree -/
theorem telescope (n : ℕ) (G G' : ℕ → K) (hcont : ∀ e, e + 1 < n → G' e = G (e + 1))
    (hb : 0 < n → G' (n - 1) = G 0) : ∑ e ∈ range n, (G' e - G e) = 0 := by
  obtain ⟨f, hf⟩ : ∃ f : ℕ → K, ∀ i, f i = if i < n then G i else G' (n - 1) := ⟨_, fun _ => rfl⟩
  have h : ∑ e ∈ range n, (G' e - G e) = ∑ e ∈ range n, (f (e + 1) - f e) := by
    refine Finset.sum_congr rfl (fun e he => ?_)
    have he' := mem_range.mp he
    rw [hf e, hf (e + 1), if_pos he']
    by_cases h1 : e + 1 < n
    · rw [if_pos h1, hcont e h1]
    · rw [if_neg h1]
      have : n - 1 = e := by omega
      rw [this]
  rw [h, Finset.sum_range_sub f n, hf n, hf 0, if_neg (lt_irrefl n)]
  by_cases hn : 0 < n
  · rw [if_pos hn, hb hn, sub_self]
  · rw [if_neg hn, sub_self]

/-- **`QuadIBP` from exactness of the rule on the flux.**  Constant second-derivative coefficient `a`; on every
    cell `u'` and the test function `B_r` are polynomials (`pdu e`, `pψ e`) and the tables are their values at the
    evaluation points; the rule integrates `(u' ψ r)'` exactly on every cell (`hexact`: the Gauss sum equals the
    difference of `u' ψ r` at the two ends `br e`, `br (e+1)` of the cell); `u' ψ r` is continuous at the interior
    breaks (`hcont`: true for splines of degree ≥ 2); the boundary terms cancel (`hbdry`; see
    `flux_boundary_vanishes`: Dirichlet row, natural Neumann end, or `r = 0`).  Then integration by parts holds
    under the quadrature sum. -/
theorem quadIBP_of_cell_exactness (Q : Quad K) (co : Coefs K) (P dP : ℕ → ℕ → ℕ → K) (du ddu : ℕ → ℕ → K)
    (r : ℕ) (a : K) (br : ℕ → K) (pdu pψ : ℕ → K[X])
    (hA : ∀ e q, e < Q.ncells → q < Q.nq → co.A e q = a)
    (hdu : ∀ e q, e < Q.ncells → q < Q.nq → du e q = (pdu e).eval (Q.x e q))
    (hddu : ∀ e q, e < Q.ncells → q < Q.nq → ddu e q = (derivative (pdu e)).eval (Q.x e q))
    (hP : ∀ e q, e < Q.ncells → q < Q.nq → P r e q = (pψ e).eval (Q.x e q))
    (hdP : ∀ e q, e < Q.ncells → q < Q.nq → dP r e q = (derivative (pψ e)).eval (Q.x e q))
    (hexact : ∀ e, e < Q.ncells →
      ∑ q ∈ range Q.nq, Q.w q * Q.mult e * (derivative (fluxPoly pdu pψ e)).eval (Q.x e q) =
        (fluxPoly pdu pψ e).eval (br (e + 1)) - (fluxPoly pdu pψ e).eval (br e))
    (hcont : ∀ e, e + 1 < Q.ncells →
      (fluxPoly pdu pψ e).eval (br (e + 1)) = (fluxPoly pdu pψ (e + 1)).eval (br (e + 1)))
    (hbdry : 0 < Q.ncells →
      (fluxPoly pdu pψ (Q.ncells - 1)).eval (br (Q.ncells - 1 + 1)) = (fluxPoly pdu pψ 0).eval (br 0)) :
    QuadIBP Q co P dP du ddu r := by
  unfold QuadIBP
  rw [← sub_eq_zero, ← quadAll_add, ← quadAll_sub]
  have h1 : quadSum Q (0, Q.ncells)
      (fun e q => co.A e q * ddu e q * P r e q * Q.x e q
        - (-(co.A e q) * du e q * dP r e q * Q.x e q + -(co.A e q) * du e q * P r e q)) =
      quadSum Q (0, Q.ncells) (fun e q => a * (derivative (fluxPoly pdu pψ e)).eval (Q.x e q)) := by
    refine quadAll_congr Q _ _ (fun e q he hq => ?_)
    rw [hA e q he hq, hdu e q he hq, hddu e q he hq, hP e q he hq, hdP e q he hq, fluxPoly_derivative_eval]
    ring
  rw [h1, quadAll_smul, quadAll_eq_sum, Finset.sum_congr rfl (fun e he => hexact e (mem_range.mp he)),
    telescope Q.ncells (fun e => (fluxPoly pdu pψ e).eval (br e))
      (fun e => (fluxPoly pdu pψ e).eval (br (e + 1))) hcont hbdry, mul_zero]

/-- the boundary terms of the integration by parts both vanish if at each end the test function vanishes
    (row of a Dirichlet mode: clamped splines), or `u'` vanishes (natural Neumann condition), or the radius is 0 -/
theorem flux_boundary_vanishes (pdu pψ : ℕ → K[X]) (br : ℕ → K) (n : ℕ)
    (hlo : (pψ 0).eval (br 0) = 0 ∨ (pdu 0).eval (br 0) = 0 ∨ br 0 = 0)
    (hup : (pψ (n - 1)).eval (br (n - 1 + 1)) = 0 ∨ (pdu (n - 1)).eval (br (n - 1 + 1)) = 0 ∨ br (n - 1 + 1) = 0) :
    (fluxPoly pdu pψ (n - 1)).eval (br (n - 1 + 1)) = (fluxPoly pdu pψ 0).eval (br 0) := by
  rw [fluxPoly_eval, fluxPoly_eval]
  have h1 : (pdu 0).eval (br 0) * (pψ 0).eval (br 0) * br 0 = 0 := by
    rcases hlo with h | h | h <;> rw [h] <;> ring
  have h2 : (pdu (n - 1)).eval (br (n - 1 + 1)) * (pψ (n - 1)).eval (br (n - 1 + 1)) * br (n - 1 + 1) = 0 := by
    rcases hup with h | h | h <;> rw [h] <;> ring
  rw [h1, h2]

/-- The rule (`weights`, `multFactor[e]`, evaluation points of `Q`) integrates on every cell `[br e, br (e+1)]` the
    polynomials of degree ≤ `N` exactly — written without integrals: for every polynomial `F` of degree ≤ `N+1`
    the Gauss sum of `F'` is `F(br (e+1)) - F(br e)`.  For `leggauss(n)` this holds with `N = 2n - 1`
    (contract of the third-party routine). -/
def QuadExact (Q : Quad K) (br : ℕ → K) (N : ℕ) : Prop :=
  ∀ e, e < Q.ncells → ∀ F : K[X], F.natDegree ≤ N + 1 →
    ∑ q ∈ range Q.nq, Q.w q * Q.mult e * (derivative F).eval (Q.x e q) = F.eval (br (e + 1)) - F.eval (br e)

/-- `hexact` of `quadIBP_of_cell_exactness` from `QuadExact` and the degrees of the pieces:
    `deg u' + deg ψ ≤ N`, i.e. `N ≥ 2·degree - 1` for splines of degree `degree`. -/
theorem cell_exactness_of_quadExact (Q : Quad K) (br : ℕ → K) (N : ℕ) (hq : QuadExact Q br N)
    (pdu pψ : ℕ → K[X]) (hdeg : ∀ e, e < Q.ncells → (pdu e).natDegree + (pψ e).natDegree ≤ N) :
    ∀ e, e < Q.ncells →
      ∑ q ∈ range Q.nq, Q.w q * Q.mult e * (derivative (fluxPoly pdu pψ e)).eval (Q.x e q) =
        (fluxPoly pdu pψ e).eval (br (e + 1)) - (fluxPoly pdu pψ e).eval (br e) :=
  fun e he => hq e he _ (fluxPoly_natDegree_le pdu pψ e N (hdeg e he))

end polynomial

/-! ### `QuadIBP` for a spline given by the polynomial pieces of its basis functions -/

section pieces
open Polynomial

/-- the polynomial that `u' = Σ_j cf_j B_j'` is on cell `e` (`pB j e`: the polynomial that `B_j` is on cell `e`) -/
noncomputable def pduOf (nb : ℕ) (cf : ℕ → K) (pB : ℕ → ℕ → K[X]) (e : ℕ) : K[X] :=
  ∑ j ∈ range nb, C (cf j) * derivative (pB j e)

theorem pduOf_eval (nb : ℕ) (cf : ℕ → K) (pB : ℕ → ℕ → K[X]) (e : ℕ) (x : K) :
    (pduOf nb cf pB e).eval x = ∑ j ∈ range nb, cf j * (derivative (pB j e)).eval x := by
  unfold pduOf
  rw [eval_finsetSum]
  exact Finset.sum_congr rfl (fun j _ => by rw [eval_mul, eval_C])

theorem pduOf_derivative_eval (nb : ℕ) (cf : ℕ → K) (pB : ℕ → ℕ → K[X]) (e : ℕ) (x : K) :
    (derivative (pduOf nb cf pB e)).eval x =
      ∑ j ∈ range nb, cf j * (derivative (derivative (pB j e))).eval x := by
  unfold pduOf
  rw [derivative_sum, eval_finsetSum]
  exact Finset.sum_congr rfl (fun j _ => by rw [derivative_C_mul, eval_mul, eval_C])

theorem pduOf_natDegree_le (nb : ℕ) (cf : ℕ → K) (pB : ℕ → ℕ → K[X]) (e d : ℕ)
    (hdeg : ∀ j, j < nb → (pB j e).natDegree ≤ d) : (pduOf nb cf pB e).natDegree ≤ d - 1 := by
  unfold pduOf
  refine natDegree_sum_le_of_forall_le _ _ (fun j hj => ?_)
  have h1 := natDegree_C_mul_le (cf j) (derivative (pB j e))
  have h2 := natDegree_derivative_le (pB j e)
  have h3 := hdeg j (mem_range.mp hj)
  omega

/-- The polynomial pieces of the basis functions: `B_j` is the polynomial `pB j e` of degree ≤ `d` on cell `e`;
    the three tables are the values of the pieces and of their first and second derivatives at the evaluation
    points; `B_j` vanishes on the cells outside `j - d ≤ e ≤ j`; the pieces join `C¹` at the interior breaks `br (e+1)`; the spline is clamped: only `B_0` (`B_{nb-1}`)
    is non-zero at the first (last) break. -/
structure SplinePieces (d nb : ℕ) (Q : Quad K) (br : ℕ → K) (P dP ddP : ℕ → ℕ → ℕ → K)
    (pB : ℕ → ℕ → K[X]) : Prop where
  deg : ∀ j e, j < nb → e < Q.ncells → (pB j e).natDegree ≤ d
  val : ∀ j e q, j < nb → e < Q.ncells → q < Q.nq → P j e q = (pB j e).eval (Q.x e q)
  der : ∀ j e q, j < nb → e < Q.ncells → q < Q.nq → dP j e q = (derivative (pB j e)).eval (Q.x e q)
  der2 : ∀ j e q, j < nb → e < Q.ncells → q < Q.nq →
    ddP j e q = (derivative (derivative (pB j e))).eval (Q.x e q)
  cont0 : ∀ j e, j < nb → e + 1 < Q.ncells → (pB j e).eval (br (e + 1)) = (pB j (e + 1)).eval (br (e + 1))
  cont1 : ∀ j e, j < nb → e + 1 < Q.ncells →
    (derivative (pB j e)).eval (br (e + 1)) = (derivative (pB j (e + 1))).eval (br (e + 1))
  supp : ∀ j e, j < nb → e < Q.ncells → (e + d < j ∨ j < e) → pB j e = 0
  clampLo : ∀ j, j < nb → j ≠ 0 → (pB j 0).eval (br 0) = 0
  clampUp : ∀ j, j < nb → j ≠ nb - 1 → (pB j (Q.ncells - 1)).eval (br (Q.ncells - 1 + 1)) = 0

/-- **`QuadIBP` for splines.**  Constant `A`, basis functions given by `SplinePieces`, rule exact for degree
    `N ≥ 2·degree - 1` (`QuadExact`): integration by parts holds under the quadrature sum for the spline with
    coefficients `cf` against the test function `B_r`, provided the boundary term vanishes at each end
    (`r ≠ 0` resp. `r ≠ nb-1`: Dirichlet row; or `u' = 0` there: natural Neumann condition; or radius 0). -/
theorem quadIBP_of_spline_pieces (d nb : ℕ) (Q : Quad K) (co : Coefs K) (br : ℕ → K)
    (P dP ddP : ℕ → ℕ → ℕ → K) (pB : ℕ → ℕ → K[X]) (hp : SplinePieces d nb Q br P dP ddP pB)
    (a : K) (hA : ∀ e q, e < Q.ncells → q < Q.nq → co.A e q = a)
    (N : ℕ) (hq : QuadExact Q br N) (hN : 2 * d ≤ N + 1) (cf : ℕ → K) (r : ℕ) (hr : r < nb)
    (hlo : r ≠ 0 ∨ (pduOf nb cf pB 0).eval (br 0) = 0 ∨ br 0 = 0)
    (hup : r ≠ nb - 1 ∨ (pduOf nb cf pB (Q.ncells - 1)).eval (br (Q.ncells - 1 + 1)) = 0
      ∨ br (Q.ncells - 1 + 1) = 0) :
    QuadIBP Q co P dP (splineAt nb cf dP) (splineAt nb cf ddP) r := by
  refine quadIBP_of_cell_exactness Q co P dP _ _ r a br (pduOf nb cf pB) (fun e => pB r e) hA ?_ ?_
    (fun e q he hq => hp.val r e q hr he hq) (fun e q he hq => hp.der r e q hr he hq) ?_ ?_ ?_
  · intro e q he hq
    rw [pduOf_eval]
    exact Finset.sum_congr rfl (fun j hj => by rw [hp.der j e q (mem_range.mp hj) he hq])
  · intro e q he hq
    rw [pduOf_derivative_eval]
    exact Finset.sum_congr rfl (fun j hj => by rw [hp.der2 j e q (mem_range.mp hj) he hq])
  · refine cell_exactness_of_quadExact Q br N hq _ _ (fun e he => ?_)
    have h1 := pduOf_natDegree_le nb cf pB e d (fun j hj => hp.deg j e hj he)
    have h2 := hp.deg r e hr he
    omega
  · intro e he
    rw [fluxPoly_eval, fluxPoly_eval, pduOf_eval, pduOf_eval, hp.cont0 r e hr he]
    congr 2
    exact Finset.sum_congr rfl (fun j hj => by rw [hp.cont1 j e (mem_range.mp hj) he])
  · intro _
    refine flux_boundary_vanishes _ _ br Q.ncells ?_ ?_
    · rcases hlo with h | h | h
      · exact Or.inl (hp.clampLo r hr h)
      · exact Or.inr (Or.inl h)
      · exact Or.inr (Or.inr h)
    · rcases hup with h | h | h
      · exact Or.inl (hp.clampUp r hr h)
      · exact Or.inr (Or.inl h)
      · exact Or.inr (Or.inr h)

/-- local support of the tables from the vanishing of the pieces outside the support -/
theorem localSupport_of_pieces (d nb : ℕ) (Q : Quad K) (br : ℕ → K) (P dP ddP : ℕ → ℕ → ℕ → K)
    (pB : ℕ → ℕ → K[X]) (hp : SplinePieces d nb Q br P dP ddP pB) : LocalSupport d nb Q P dP := by
  intro j e q hj he hq hout
  rw [hp.val j e q hj he hq, hp.der j e q hj he hq, hp.supp j e hj he hout]
  simp

end pieces

/-! ### boundary conditions of a mode -/

/-- a basis-function index outside the coefficient slice of mode `I` is the first one of a lower-Dirichlet mode or
    the last one of an upper-Dirichlet mode -/
theorem outside_slice (c : BCConfig) (I : ℕ) (hnb : 2 ≤ c.nb) (p : ℕ) (hp : p < c.nb)
    (h : ¬ ((coeffRange c I).1 ≤ p ∧ p < (coeffRange c I).2)) :
    (p = 0 ∧ lNeumann c I = false) ∨ (p = c.nb - 1 ∧ uNeumann c I = false) := by
  obtain ⟨e1, e2⟩ := (C14.slices_consistent c I hnb).2.2.2.2.2.2.2.2.2
  rw [e1, e2] at h
  generalize c.nb = n at *
  generalize lNeumann c I = L at *
  generalize uNeumann c I = U at *
  cases L <;> cases U <;> simp only [Bool.false_eq_true, if_false, if_true] at h <;>
    simp only [and_true, Bool.true_eq_false, and_false, or_false, false_or] <;> omega

/-- conversely an index inside the slice of a lower- (upper-) Dirichlet mode is not the first (last) one -/
theorem inside_slice (c : BCConfig) (I : ℕ) (hnb : 2 ≤ c.nb) (p : ℕ)
    (h1 : (coeffRange c I).1 ≤ p) (h2 : p < (coeffRange c I).2) :
    p < c.nb ∧ (lNeumann c I = false → p ≠ 0) ∧ (uNeumann c I = false → p ≠ c.nb - 1) := by
  obtain ⟨e1, e2⟩ := (C14.slices_consistent c I hnb).2.2.2.2.2.2.2.2.2
  rw [e1] at h1
  rw [e2] at h2
  generalize c.nb = n at *
  generalize lNeumann c I = L at *
  generalize uNeumann c I = U at *
  cases L <;> cases U <;> simp only [Bool.false_eq_true, if_false, if_true] at h1 h2 <;>
    refine ⟨by omega, fun h => ?_, fun h => ?_⟩ <;> first | (exact absurd h (by decide)) | omega

section modeIBP
open Polynomial

/-- `QuadIBP` for every test function of mode `I`: the rows of a Dirichlet end are not the boundary basis function
    (the boundary term vanishes because the test function does); at a Neumann end the manufactured `u` must satisfy
    the natural condition `u' = 0` there (or the radius is 0) — the boundary term that the code drops. -/
theorem quadIBP_for_mode (d : ℕ) (Q : Quad K) (co : Coefs K) (br : ℕ → K) (P dP ddP : ℕ → ℕ → ℕ → K)
    (pB : ℕ → ℕ → K[X]) (c : BCConfig) (I : ℕ) (hnb : 2 ≤ c.nb) (hp : SplinePieces d c.nb Q br P dP ddP pB)
    (a : K) (hA : ∀ e q, e < Q.ncells → q < Q.nq → co.A e q = a)
    (N : ℕ) (hq : QuadExact Q br N) (hN : 2 * d ≤ N + 1) (cstar : ℕ → K)
    (hnatLo : lNeumann c I = true → (pduOf c.nb cstar pB 0).eval (br 0) = 0 ∨ br 0 = 0)
    (hnatUp : uNeumann c I = true →
      (pduOf c.nb cstar pB (Q.ncells - 1)).eval (br (Q.ncells - 1 + 1)) = 0 ∨ br (Q.ncells - 1 + 1) = 0) :
    ∀ r, (coeffRange c I).1 ≤ r → r < (coeffRange c I).2 →
      QuadIBP Q co P dP (splineAt c.nb cstar dP) (splineAt c.nb cstar ddP) r := by
  intro r h1 h2
  obtain ⟨hr, hl, hu⟩ := inside_slice c I hnb r h1 h2
  refine quadIBP_of_spline_pieces d c.nb Q co br P dP ddP pB hp a hA N hq hN cstar r hr ?_ ?_
  · cases hL : lNeumann c I
    · exact Or.inl (hl hL)
    · exact Or.inr (hnatLo hL)
  · cases hU : uNeumann c I
    · exact Or.inl (hu hU)
    · exact Or.inr (hnatUp hU)

end modeIBP

/-! ### `QuadExact` on uniform cells from the reference rule on `[-1, 1]` -/

section reference
open Polynomial

/-- the reference rule (`points, weights = leggauss(n)`) integrates the polynomials of degree ≤ `N` exactly on
    `[-1, 1]`: for every `G` of degree ≤ `N+1`, `Σ_q w_q G'(x_q) = G(1) - G(-1)`.  Contract of `leggauss(n)` with
    `N = 2n - 1`. -/
def RefExact (nq : ℕ) (pts w : ℕ → K) (N : ℕ) : Prop :=
  ∀ G : K[X], G.natDegree ≤ N + 1 → ∑ q ∈ range nq, w q * (derivative G).eval (pts q) = G.eval 1 - G.eval (-1)

/-- The affine map of the code (after fix F17) — evaluation points `startPoints[e] + points[q]*multFactor[e]`
    (`evalPt`), cell `e` weighted with its own half-width `multFactor[e] = (breaks[e+1]-breaks[e])/2` — carries
    exactness of the reference rule to every cell, for **arbitrary breaks** (no equal-length, not even a
    monotonicity hypothesis is needed). -/
theorem quadExact_of_reference_rule (Q : Quad K) (breaks pts : ℕ → K) (N : ℕ)
    (href : RefExact Q.nq pts Q.w N) (h2 : (2 : K) ≠ 0)
    (hmult : ∀ e, e < Q.ncells → Q.mult e = (breaks (e + 1) - breaks e) * (1 / 2))
    (hx : ∀ e q, e < Q.ncells → q < Q.nq → Q.x e q = evalPt breaks pts e q) :
    QuadExact Q breaks N := by
  intro e he F hF
  obtain ⟨L, hL⟩ : ∃ L : K[X], L = C (Q.mult e) * X + C ((breaks (e + 1) + breaks e) * (1 / 2)) := ⟨_, rfl⟩
  have hLdeg : L.natDegree ≤ 1 := by rw [hL]; exact natDegree_linear_le
  have hLeval : ∀ y : K, L.eval y = Q.mult e * y + (breaks (e + 1) + breaks e) * (1 / 2) := by
    intro y; rw [hL, eval_add, eval_mul, eval_C, eval_X, eval_C]
  have hLder : derivative L = C (Q.mult e) := by
    rw [hL, derivative_add, derivative_C_mul, derivative_X, derivative_C, mul_one, add_zero]
  have hGdeg : (F.comp L).natDegree ≤ N + 1 := by
    have h1 := natDegree_comp_le (p := F) (q := L)
    have h3 : F.natDegree * L.natDegree ≤ F.natDegree * 1 := Nat.mul_le_mul_left _ hLdeg
    omega
  have hG := href (F.comp L) hGdeg
  have hterm : ∀ q, q ∈ range Q.nq →
      Q.w q * Q.mult e * (derivative F).eval (Q.x e q) = Q.w q * (derivative (F.comp L)).eval (pts q) := by
    intro q hq
    rw [derivative_comp, hLder, eval_mul, eval_C, eval_comp, hLeval, hx e q he (mem_range.mp hq)]
    unfold evalPt
    rw [← hmult e he]
    have : Q.mult e * pts q + (breaks (e + 1) + breaks e) * (1 / 2)
        = (breaks (e + 1) + breaks e) * (1 / 2) + pts q * Q.mult e := by ring
    rw [this]
    ring
  rw [Finset.sum_congr rfl hterm, hG, eval_comp, eval_comp, hLeval, hLeval, hmult e he]
  have e1 : (breaks (e + 1) - breaks e) * (1 / 2) * 1 + (breaks (e + 1) + breaks e) * (1 / 2) = breaks (e + 1) := by
    field_simp
    ring
  have e2 : (breaks (e + 1) - breaks e) * (1 / 2) * -1 + (breaks (e + 1) + breaks e) * (1 / 2) = breaks e := by
    field_simp
    ring
  rw [e1, e2]

/-- **Behaviour before fix F17** (`Quad.withUniformMult`: the half-width of the first cell for every cell): as soon
    as the reference weights sum to 2 (any rule exact for constants) and some cell has another length than the
    first, the rule is not exact even for constants. -/
theorem old_single_multFactor_not_exact (Q : Quad K) (breaks pts : ℕ → K) (N : ℕ)
    (hw : ∑ q ∈ range Q.nq, Q.w q = 2) (h2 : (2 : K) ≠ 0) (e : ℕ) (he : e < Q.ncells)
    (hne : breaks (e + 1) - breaks e ≠ breaks 1 - breaks 0) :
    ¬ QuadExact (Q.withUniformMult breaks pts) breaks N := by
  intro h
  have h1 := h e he X (by rw [natDegree_X]; omega)
  simp only [Quad.withUniformMult, derivative_X, eval_one, mul_one, eval_X] at h1
  rw [← Finset.sum_mul, hw] at h1
  apply hne
  rw [← h1]
  field_simp

end reference

/-! ### the tables produced by the B-spline evaluation kernels satisfy `SplinePieces` -/

section kernel
open Polynomial PygyroVerif.BSpline

/-- the A2.2 triangle has degree ≤ level when the `a`, `b` are (at most) linear and the `e` constant -/
theorem U_natDegree_le {R : Type*} [CommRing R] (a b : ℕ → R[X]) (e : ℕ → ℕ → R[X])
    (ha : ∀ k, (a k).natDegree ≤ 1) (hb : ∀ m, (b m).natDegree ≤ 1) (he : ∀ k m, (e k m).natDegree = 0) :
    ∀ k m, (U a b e k m).natDegree ≤ k + m
  | 0, 0 => by simp [U]
  | 0, m+1 => by
    have ih := U_natDegree_le a b e ha hb he 0 m
    simp only [U]
    have h1 := natDegree_mul_le (p := a 0) (q := U a b e 0 m * e 0 m)
    have h2 := natDegree_mul_le (p := U a b e 0 m) (q := e 0 m)
    have h3 := ha 0
    have h4 := he 0 m
    omega
  | k+1, 0 => by
    have ih := U_natDegree_le a b e ha hb he k 0
    simp only [U]
    have h1 := natDegree_mul_le (p := b 0) (q := U a b e k 0 * e k 0)
    have h2 := natDegree_mul_le (p := U a b e k 0) (q := e k 0)
    have h3 := hb 0
    have h4 := he k 0
    omega
  | k+1, m+1 => by
    have ih1 := U_natDegree_le a b e ha hb he (k+1) m
    have ih2 := U_natDegree_le a b e ha hb he k (m+1)
    simp only [U]
    refine (natDegree_add_le _ _).trans (max_le ?_ ?_)
    · have h1 := natDegree_mul_le (p := a (k+1)) (q := U a b e (k+1) m * e (k+1) m)
      have h2 := natDegree_mul_le (p := U a b e (k+1) m) (q := e (k+1) m)
      have h3 := ha (k+1)
      have h4 := he (k+1) m
      omega
    · have h1 := natDegree_mul_le (p := b (m+1)) (q := U a b e k (m+1) * e k (m+1))
      have h2 := natDegree_mul_le (p := U a b e k (m+1)) (q := e k (m+1))
      have h3 := hb (m+1)
      have h4 := he k (m+1)
      omega

/-- all `left[k] = 0` (evaluation at a clamped lower end): only position 0 of the triangle is non-zero -/
theorem U_zero_of_left {R : Type*} [CommRing R] (a b : ℕ → R) (e : ℕ → ℕ → R) (ha : ∀ k, a k = 0) :
    ∀ k m, U a b e k (m+1) = 0
  | 0, m => by simp [U, ha]
  | k+1, m => by
    simp only [U]
    rw [ha (k+1), U_zero_of_left a b e ha k m]
    ring

/-- `right[m] = 0` for `m ≤ M` (evaluation at a clamped upper end): only the last position is non-zero -/
theorem U_zero_of_right {R : Type*} [CommRing R] (a b : ℕ → R) (e : ℕ → ℕ → R) (M : ℕ)
    (hb : ∀ m, m ≤ M → b m = 0) : ∀ m k, m ≤ M → U a b e (k+1) m = 0
  | 0, k, h => by simp [U, hb 0 h]
  | m+1, k, h => by
    simp only [U]
    rw [hb (m+1) h, U_zero_of_right a b e M hb m k (by omega)]
    ring

variable {F : Type*} [Field F] [LinearOrder F] [IsStrictOrderedRing F]

/-- the polynomial that basis function `j` is on cell `e` (knots `t`, degree `d`; the cell is the knot span
    `e + d`), as computed by Algorithm A2.2 of the evaluation kernel; `0` outside the support -/
noncomputable def kernelPiece (t : ℕ → F) (d j e : ℕ) : F[X] :=
  if e ≤ j ∧ j ≤ e + d then cellPoly t (e + d) d (j - e) else 0

/-- value of a cell polynomial through the triangle over the field -/
theorem cellPoly_eval_U (t : ℕ → F) (span p r : ℕ) (_hr : r ≤ p) (x : F) :
    (cellPoly t span p r).eval x =
      U (leftOf t span x) (rightOf t span x) (fun k m => (leftOf t span x k + rightOf t span x m)⁻¹) (p - r) r := by
  unfold cellPoly
  rw [U_poly_eval, levels_getD_eq_U _ _ (p - r + r) (p - r) r rfl]

omit [LinearOrder F] [IsStrictOrderedRing F] in
theorem cellPoly_natDegree_le (t : ℕ → F) (span p r : ℕ) (hr : r ≤ p) : (cellPoly t span p r).natDegree ≤ p := by
  unfold cellPoly
  have h := U_natDegree_le (aX t span) (bX t span) (eX t span)
    (fun k => by unfold aX; exact natDegree_X_sub_C_le _)
    (fun m => by
      unfold bX
      refine (natDegree_sub_le _ _).trans (max_le ?_ natDegree_X_le)
      rw [natDegree_C]; omega)
    (fun k m => by unfold eX; exact natDegree_C _) (p - r) r
  omega

/-- clamped knot vector of degree `d` on `nc` cells: `2d + nc + 1` knots, the first and the last `d + 1` equal,
    the breaks `t (d + e)`, `e ≤ nc`, strictly increasing -/
structure ClampedKnots (d nc : ℕ) (t : ℕ → F) : Prop where
  mono : Monotone t
  cells : ∀ e, e < nc → t (d + e) < t (d + e + 1)
  lo : ∀ i, i ≤ d → t i = t d
  up : ∀ i, i ≤ d → t (nc + d + i) = t (nc + d)

omit [Field F] [IsStrictOrderedRing F] in
theorem ClampedKnots.cell' {d nc : ℕ} {t : ℕ → F} (hk : ClampedKnots d nc t) (e : ℕ) (he : e < nc) :
    t (e + d) < t (e + d + 1) := by
  have := hk.cells e he
  rwa [Nat.add_comm d e] at this

omit [LinearOrder F] [IsStrictOrderedRing F] in
/-- continuity across a knot in terms of the shifted lists of A2.2 -/
theorem shiftCont_piece (A B : List F) (d e j : ℕ) (h : ShiftCont A B d) :
    (if e ≤ j ∧ j ≤ e + d then A.getD (j - e) 0 else 0)
      = (if e + 1 ≤ j ∧ j ≤ e + 1 + d then B.getD (j - (e + 1)) 0 else 0) := by
  obtain ⟨h1, h2, h3⟩ := h
  by_cases hj1 : j < e
  · rw [if_neg (by omega), if_neg (by omega)]
  · by_cases hj2 : j = e
    · subst hj2
      rw [if_pos (by omega), if_neg (by omega), Nat.sub_self, h2]
    · by_cases hj3 : j ≤ e + d
      · rw [if_pos (by omega), if_pos (by omega)]
        have e1 : j - e = (j - (e + 1)) + 1 := by omega
        rw [e1, h1 _ (by omega)]
      · by_cases hj4 : j = e + 1 + d
        · subst hj4
          rw [if_neg (by omega), if_pos (by omega)]
          have : e + 1 + d - (e + 1) = d := by omega
          rw [this, h3]
        · rw [if_neg (by omega), if_neg (by omega)]

theorem kernelPiece_eval (t : ℕ → F) (d j e : ℕ) (x : F) :
    (kernelPiece t d j e).eval x =
      if e ≤ j ∧ j ≤ e + d then (basisFuns t d x (e + d)).getD (j - e) 0 else 0 := by
  unfold kernelPiece
  split_ifs with h
  · exact cellPoly_eval t (e + d) d (j - e) (by omega) x
  · exact eval_zero

theorem kernelPiece_derivative_eval (t : ℕ → F) (ht : Monotone t) (d j e : ℕ)
    (hcell : t (e + d) < t (e + d + 1)) (x : F) :
    (derivative (kernelPiece t d j e)).eval x =
      if e ≤ j ∧ j ≤ e + d then (basisFunsDer t d x (e + d)).getD (j - e) 0 else 0 := by
  unfold kernelPiece
  split_ifs with h
  · exact cellPoly_derivative_eval t ht (e + d) d (j - e) hcell (by omega) x
  · rw [derivative_zero, eval_zero]

/-- **The pieces computed by the evaluation kernels form a clamped `C¹` piecewise-polynomial basis** (degree ≥ 2,
    clamped knots with simple interior breaks): `SplinePieces` holds for any tables `P`, `dP` that agree with the
    values / derivatives of the kernel pieces at the evaluation points; `ddP` is the table of the second
    derivatives of the pieces. -/
theorem kernel_spline_pieces (d nc nb : ℕ) (t : ℕ → F) (Q : Quad F) (hQ : Q.ncells = nc) (hnb : nb = nc + d)
    (hnc : 1 ≤ nc) (hd : 2 ≤ d) (hk : ClampedKnots d nc t) (P dP : ℕ → ℕ → ℕ → F)
    (hP : ∀ j e q, j < nb → e < nc → q < Q.nq → P j e q = (kernelPiece t d j e).eval (Q.x e q))
    (hdP : ∀ j e q, j < nb → e < nc → q < Q.nq →
      dP j e q = (derivative (kernelPiece t d j e)).eval (Q.x e q)) :
    SplinePieces d nb Q (fun e => t (d + e)) P dP
      (fun j e q => (derivative (derivative (kernelPiece t d j e))).eval (Q.x e q)) (kernelPiece t d) where
  deg := fun j e _ _ => by
    unfold kernelPiece
    split_ifs with h
    · exact cellPoly_natDegree_le t (e + d) d (j - e) (by omega)
    · simp
  val := fun j e q hj he hq => hP j e q hj (hQ ▸ he) hq
  der := fun j e q hj he hq => hdP j e q hj (hQ ▸ he) hq
  der2 := fun _ _ _ _ _ _ => rfl
  supp := fun j e _ _ hout => by
    unfold kernelPiece
    rw [if_neg (by omega)]
  cont0 := fun j e _ he => by
    rw [hQ] at he
    have h1 := hk.cell' e (by omega)
    have h2 := hk.cell' (e + 1) he
    have e4 : e + 1 + d = e + d + 1 := by omega
    rw [e4] at h2
    have hs := basis_continuous_at_knot t hk.mono (e + d) d (by omega) (by omega) h1 h2
    rw [← e4] at hs
    show (kernelPiece t d j e).eval (t (d + (e + 1))) = (kernelPiece t d j (e + 1)).eval (t (d + (e + 1)))
    rw [Nat.add_comm d (e + 1), kernelPiece_eval, kernelPiece_eval]
    exact shiftCont_piece _ _ d e j hs
  cont1 := fun j e _ he => by
    rw [hQ] at he
    have h1 := hk.cell' e (by omega)
    have h2 := hk.cell' (e + 1) he
    have h2' := h2
    have e4 : e + 1 + d = e + d + 1 := by omega
    rw [e4] at h2
    have hs := ders_continuous_at_knot t hk.mono (e + d) d hd (by omega) h1 h2
    rw [← e4] at hs
    show (derivative (kernelPiece t d j e)).eval (t (d + (e + 1)))
      = (derivative (kernelPiece t d j (e + 1))).eval (t (d + (e + 1)))
    rw [Nat.add_comm d (e + 1), kernelPiece_derivative_eval t hk.mono d j e h1,
      kernelPiece_derivative_eval t hk.mono d j (e + 1) h2']
    exact shiftCont_piece _ _ d e j hs
  clampLo := fun j _ h0 => by
    show (kernelPiece t d j 0).eval (t (d + 0)) = 0
    unfold kernelPiece
    split_ifs with h
    · rw [cellPoly_eval_U t (0 + d) d (j - 0) (by omega)]
      obtain ⟨r, hr⟩ : ∃ r, j - 0 = r + 1 := ⟨j - 1, by omega⟩
      rw [hr]
      refine U_zero_of_left _ _ _ (fun k => ?_) _ _
      unfold leftOf
      rw [Nat.add_zero, Nat.zero_add, hk.lo (d - k) (by omega), sub_self]
    · exact eval_zero
  clampUp := fun j hj h0 => by
    show (kernelPiece t d j (Q.ncells - 1)).eval (t (d + (Q.ncells - 1 + 1))) = 0
    rw [hQ]
    unfold kernelPiece
    split_ifs with h
    · rw [cellPoly_eval_U t (nc - 1 + d) d (j - (nc - 1)) (by omega)]
      obtain ⟨k, hk'⟩ : ∃ k, d - (j - (nc - 1)) = k + 1 := ⟨d - (j - (nc - 1)) - 1, by omega⟩
      rw [hk']
      refine U_zero_of_right _ _ _ d (fun m hm => ?_) _ _ (by omega)
      unfold rightOf
      have e1 : nc - 1 + d + 1 + m = nc + d + m := by omega
      have e2 : d + (nc - 1 + 1) = nc + d := by omega
      rw [e1, e2, hk.up m hm, sub_self]
    · exact eval_zero

omit [LinearOrder F] [IsStrictOrderedRing F] in
/-- `Σ_i δ_{s+i, j} f_i` over `i < n` -/
theorem sum_delta (f : ℕ → F) (s n j : ℕ) :
    ((List.range n).map (fun i => (if s + i = j then (1 : F) else 0) * f i)).sum
      = if s ≤ j ∧ j < s + n then f (j - s) else 0 := by
  rw [list_range_map_sum]
  split_ifs with h
  · rw [Finset.sum_eq_single (j - s)]
    · rw [if_pos (by omega), one_mul]
    · intro i _ hne
      rw [if_neg (by omega), zero_mul]
    · intro hn
      exact absurd (mem_range.mpr (by omega)) hn
  · refine Finset.sum_eq_zero (fun i hi => ?_)
    have := mem_range.mp hi
    rw [if_neg (by omega), zero_mul]

/-- **The kernel pieces are what the evaluation kernels return**: for a point strictly inside cell `e`,
    `self._rspline[j].eval(x)` / `.eval(x, 1)` (the model `unitSplineVal` of `nu_eval_spline_1d_scalar` with the
    unit coefficient vector, span search included) is the value / derivative of `kernelPiece t d j e` at `x`. -/
theorem unitSplineVal_eq_piece (d nc : ℕ) (t : ℕ → F) (hk : ClampedKnots d nc t) (j e : ℕ) (he : e < nc) (x : F)
    (hx1 : t (e + d) < x) (hx2 : x < t (e + d + 1)) :
    unitSplineVal t (nc + 2 * d + 1) d j x false = some ((kernelPiece t d j e).eval x) ∧
    unitSplineVal t (nc + 2 * d + 1) d j x true = some ((derivative (kernelPiece t d j e)).eval x) := by
  have hnk : nc + 2 * d + 1 - 1 - d = nc + d := by omega
  have h0 : t d ≤ t (e + d) := hk.mono (by omega)
  have h3 : t (e + d + 1) ≤ t (nc + d) := hk.mono (by omega)
  have hspan : findSpan t (nc + 2 * d + 1) d x = some (e + d) :=
    C07.findSpan_unique t hk.mono (nc + 2 * d + 1) d x
      (by rw [hnk]; exact lt_of_le_of_lt h0 (lt_of_lt_of_le (lt_trans hx1 hx2) h3))
      (lt_of_le_of_lt h0 hx1) (by rw [hnk]; exact lt_of_lt_of_le hx2 h3) (e + d) (le_of_lt hx1) hx2
  have hcell := hk.cell' e he
  constructor
  · unfold unitSplineVal evalSpline1D
    rw [hspan, Option.map_some, dotFrom_eq_sum, basisOrDer_length, kernelPiece_eval, Nat.add_sub_cancel]
    unfold basisOrDer
    simp only [Bool.false_eq_true, if_false]
    rw [sum_delta (fun i => (basisFuns t d x (e + d)).getD i 0) e (d + 1) j]
    have : (e ≤ j ∧ j < e + (d + 1)) ↔ (e ≤ j ∧ j ≤ e + d) := by omega
    simp only [this]
  · unfold unitSplineVal evalSpline1D
    rw [hspan, Option.map_some, dotFrom_eq_sum, basisOrDer_length,
      kernelPiece_derivative_eval t hk.mono d j e hcell, Nat.add_sub_cancel]
    unfold basisOrDer
    simp only [if_true]
    rw [sum_delta (fun i => (basisFunsDer t d x (e + d)).getD i 0) e (d + 1) j]
    have : (e ≤ j ∧ j < e + (d + 1)) ↔ (e ≤ j ∧ j ≤ e + d) := by omega
    simp only [this]

end kernel

/-! ### transport of `SplinePieces` along a field homomorphism (real tables used with complex data) -/

section transport
open Polynomial
variable {F : Type*} [Field F]

theorem eval_map_hom (φ : F →+* K) (p : F[X]) (x : F) : (p.map φ).eval (φ x) = φ (p.eval x) := by
  rw [eval_map, eval₂_at_apply]

/-- Pieces over `F` (e.g. `ℝ`, where the kernels compute) give pieces over any field `K` that `F` maps to (e.g. `ℂ`,
    where the coefficients of the mode live): tables, breaks and polynomials are mapped by `φ`. -/
theorem SplinePieces.map {d nb : ℕ} {Qr : Quad F} {br : ℕ → F} {P dP ddP : ℕ → ℕ → ℕ → F} {pB : ℕ → ℕ → F[X]}
    (hp : SplinePieces d nb Qr br P dP ddP pB) (φ : F →+* K) (Q : Quad K)
    (hnc : Q.ncells = Qr.ncells) (hnq : Q.nq = Qr.nq)
    (hx : ∀ e q, e < Qr.ncells → q < Qr.nq → Q.x e q = φ (Qr.x e q)) :
    SplinePieces d nb Q (fun e => φ (br e)) (fun j e q => φ (P j e q)) (fun j e q => φ (dP j e q))
      (fun j e q => φ (ddP j e q)) (fun j e => (pB j e).map φ) where
  deg := fun j e hj he => natDegree_map_le.trans (hp.deg j e hj (hnc ▸ he))
  val := fun j e q hj he hq => by
    rw [hx e q (hnc ▸ he) (hnq ▸ hq), eval_map_hom, hp.val j e q hj (hnc ▸ he) (hnq ▸ hq)]
  der := fun j e q hj he hq => by
    rw [hx e q (hnc ▸ he) (hnq ▸ hq), derivative_map, eval_map_hom, hp.der j e q hj (hnc ▸ he) (hnq ▸ hq)]
  der2 := fun j e q hj he hq => by
    rw [hx e q (hnc ▸ he) (hnq ▸ hq), derivative_map, derivative_map, eval_map_hom,
      hp.der2 j e q hj (hnc ▸ he) (hnq ▸ hq)]
  cont0 := fun j e hj he => by
    show ((pB j e).map φ).eval (φ (br (e + 1))) = ((pB j (e + 1)).map φ).eval (φ (br (e + 1)))
    rw [eval_map_hom, eval_map_hom, hp.cont0 j e hj (hnc ▸ he)]
  cont1 := fun j e hj he => by
    show (derivative ((pB j e).map φ)).eval (φ (br (e + 1)))
      = (derivative ((pB j (e + 1)).map φ)).eval (φ (br (e + 1)))
    rw [derivative_map, derivative_map, eval_map_hom, eval_map_hom, hp.cont1 j e hj (hnc ▸ he)]
  supp := fun j e hj he hout => by
    show (pB j e).map φ = 0
    rw [hp.supp j e hj (hnc ▸ he) hout, Polynomial.map_zero]
  clampLo := fun j hj h0 => by
    show ((pB j 0).map φ).eval (φ (br 0)) = 0
    rw [eval_map_hom, hp.clampLo j hj h0, map_zero]
  clampUp := fun j hj h0 => by
    show ((pB j (Q.ncells - 1)).map φ).eval (φ (br (Q.ncells - 1 + 1))) = 0
    rw [hnc, eval_map_hom, hp.clampUp j hj h0, map_zero]

theorem SplinePieces.congr_tables {d nb : ℕ} {Q : Quad K} {br : ℕ → K} {P dP ddP P' dP' ddP' : ℕ → ℕ → ℕ → K}
    {pB : ℕ → ℕ → K[X]} (hp : SplinePieces d nb Q br P dP ddP pB)
    (h0 : ∀ j e q, j < nb → e < Q.ncells → q < Q.nq → P' j e q = P j e q)
    (h1 : ∀ j e q, j < nb → e < Q.ncells → q < Q.nq → dP' j e q = dP j e q)
    (h2 : ∀ j e q, j < nb → e < Q.ncells → q < Q.nq → ddP' j e q = ddP j e q) :
    SplinePieces d nb Q br P' dP' ddP' pB where
  deg := hp.deg
  val := fun j e q hj he hq => (h0 j e q hj he hq).trans (hp.val j e q hj he hq)
  der := fun j e q hj he hq => (h1 j e q hj he hq).trans (hp.der j e q hj he hq)
  der2 := fun j e q hj he hq => (h2 j e q hj he hq).trans (hp.der2 j e q hj he hq)
  cont0 := hp.cont0
  cont1 := hp.cont1
  supp := hp.supp
  clampLo := hp.clampLo
  clampUp := hp.clampUp

end transport

section kernelmap
open Polynomial PygyroVerif.BSpline
variable {F : Type*} [Field F] [LinearOrder F] [IsStrictOrderedRing F]

/-- **The tables the assembly loops compute are `SplinePieces`**, also when the kernels work in an ordered field
    `F` (the reals) and the mode system lives in a field `K ⊇ F` (the complex numbers; `φ` the inclusion): for
    clamped knots with simple interior breaks, degree ≥ 2, evaluation points `φ (xr e q)` with `xr e q` strictly
    inside cell `e`, and tables that are the images of what `unitSplineVal` returns. -/
theorem kernel_tables_are_spline_pieces (d nc nb : ℕ) (t : ℕ → F) (φ : F →+* K) (xr : ℕ → ℕ → F) (Q : Quad K)
    (P dP : ℕ → ℕ → ℕ → K) (hnb : nb = nc + d) (hQ : Q.ncells = nc) (hnc : 1 ≤ nc) (hd : 2 ≤ d)
    (hk : ClampedKnots d nc t)
    (hx : ∀ e q, e < nc → q < Q.nq → Q.x e q = φ (xr e q))
    (hin : ∀ e q, e < nc → q < Q.nq → t (e + d) < xr e q ∧ xr e q < t (e + d + 1))
    (hP : ∀ j e q, j < nb → e < nc → q < Q.nq →
      ∃ v, unitSplineVal t (nc + 2 * d + 1) d j (xr e q) false = some v ∧ P j e q = φ v)
    (hdP : ∀ j e q, j < nb → e < nc → q < Q.nq →
      ∃ v, unitSplineVal t (nc + 2 * d + 1) d j (xr e q) true = some v ∧ dP j e q = φ v) :
    SplinePieces d nb Q (fun e => φ (t (d + e))) P dP
      (fun j e q => φ ((derivative (derivative (kernelPiece t d j e))).eval (xr e q)))
      (fun j e => (kernelPiece t d j e).map φ) := by
  have hr := kernel_spline_pieces d nc nb t
    ({ ncells := nc, nq := Q.nq, w := fun _ => 0, mult := fun _ => 0, x := xr } : Quad F) rfl hnb hnc hd hk
    (fun j e q => (kernelPiece t d j e).eval (xr e q))
    (fun j e q => (derivative (kernelPiece t d j e)).eval (xr e q))
    (fun _ _ _ _ _ _ => rfl) (fun _ _ _ _ _ _ => rfl)
  refine (hr.map φ Q hQ rfl hx).congr_tables (fun j e q hj he hq => ?_) (fun j e q hj he hq => ?_)
    (fun _ _ _ _ _ _ => rfl)
  · rw [hQ] at he
    obtain ⟨v, hv, hPv⟩ := hP j e q hj he hq
    rw [(unitSplineVal_eq_piece d nc t hk j e he (xr e q) (hin e q he hq).1 (hin e q he hq).2).1] at hv
    rw [hPv, ← Option.some.inj hv]
  · rw [hQ] at he
    obtain ⟨v, hv, hPv⟩ := hdP j e q hj he hq
    rw [(unitSplineVal_eq_piece d nc t hk j e he (xr e q) (hin e q he hq).1 (hin e q he hq).2).2] at hv
    rw [hPv, ← Option.some.inj hv]

end kernelmap

end PygyroVerif.PoissonManufactured
