/-
Helper lemmas for the density / elliptic-solver / quasi-neutrality properties (C14, C15, C16).
-/
import Mathlib.Algebra.BigOperators.Group.Finset.Basic
import Mathlib.Algebra.BigOperators.Ring.Finset
import Mathlib.Algebra.BigOperators.Group.Finset.Sigma
import Mathlib.Algebra.Order.Field.Basic
import PygyroVerif.Model.Poisson
import Mathlib.Tactic.Ring
import Mathlib.Tactic.Linarith

namespace PygyroVerif.PoissonLemmas

open Finset

/-- a Python accumulation loop `acc = 0; for l in range(n): acc += f(l)` is the finite sum -/
theorem foldl_range_add {M : Type*} [AddCommMonoid M] (f : ℕ → M) (n : ℕ) :
    (List.range n).foldl (fun acc l => acc + f l) 0 = ∑ l ∈ range n, f l := by
  induction n with
  | zero => simp
  | succ n ih => simp [List.range_succ, List.foldl_append, Finset.sum_range_succ, ih]

/-- duality of interpolation and quadrature: if `Mᵀ w = I` and `M c = u` then `w·u = I·c` -/
theorem quad_duality {K : Type*} [CommSemiring K] (n : ℕ) (M : ℕ → ℕ → K) (w I c u : ℕ → K)
    (hw : ∀ j, j < n → ∑ i ∈ range n, M i j * w i = I j)
    (hc : ∀ i, i < n → ∑ j ∈ range n, M i j * c j = u i) :
    ∑ i ∈ range n, w i * u i = ∑ j ∈ range n, I j * c j := by
  calc ∑ i ∈ range n, w i * u i
      = ∑ i ∈ range n, w i * ∑ j ∈ range n, M i j * c j :=
        Finset.sum_congr rfl (fun i hi => by rw [hc i (Finset.mem_range.mp hi)])
    _ = ∑ i ∈ range n, ∑ j ∈ range n, (M i j * w i) * c j := by
        refine Finset.sum_congr rfl (fun i _ => ?_)
        rw [Finset.mul_sum]
        exact Finset.sum_congr rfl (fun j _ => by ring)
    _ = ∑ j ∈ range n, ∑ i ∈ range n, (M i j * w i) * c j := Finset.sum_comm
    _ = ∑ j ∈ range n, I j * c j := by
        refine Finset.sum_congr rfl (fun j hj => ?_)
        rw [← Finset.sum_mul, hw j (Finset.mem_range.mp hj)]

/-! ### the diagonal storage of the assembly loops -/
section storage
open PygyroVerif.Poisson
variable {K : Type*} [Field K]

theorem aliasIdx_add (d k : ℕ) (hk : k ≤ d) : aliasIdx d (d + k) = d - k := by
  unfold aliasIdx; split_ifs <;> omega

theorem getD_replicate_zero (n a : ℕ) : (List.replicate n (0 : K)).getD a 0 = 0 := by
  rw [List.getD_eq_getElem?_getD, List.getElem?_replicate]; split_ifs <;> rfl

theorem getD_set (l : List K) (i a : ℕ) (x : K) :
    (l.set i x).getD a 0 = if i = a ∧ i < l.length then x else l.getD a 0 := by
  rw [List.getD_eq_getElem?_getD, List.getElem?_set, List.getD_eq_getElem?_getD]
  by_cases h : i = a
  · subst h
    by_cases h2 : i < l.length
    · simp [h2]
    · simp [h2]
  · simp [h]

/-- writes at the distinct positions `d - k`, `k < m` -/
theorem foldl_set_down (d : ℕ) (v : ℕ → K) (m : ℕ) (hm : m ≤ d + 1) :
    ((List.range m).foldl (fun st k => st.set (aliasIdx d (d + k)) (v k)) (List.replicate (d + 1) 0)).length = d + 1 ∧
    ∀ a, a ≤ d → ((List.range m).foldl (fun st k => st.set (aliasIdx d (d + k)) (v k)) (List.replicate (d + 1) 0)).getD a 0
      = if d - a < m then v (d - a) else 0 := by
  induction m with
  | zero => exact ⟨by simp, fun a _ => by simpa using getD_replicate_zero (K := K) (d + 1) a⟩
  | succ m ih =>
    obtain ⟨hl, hv⟩ := ih (by omega)
    simp only [List.range_succ, List.foldl_append, List.foldl_cons, List.foldl_nil]
    refine ⟨by rw [List.length_set, hl], fun a ha => ?_⟩
    rw [aliasIdx_add d m (by omega), getD_set, hl, hv a ha]
    by_cases h : d - m = a
    · have h1 : d - a = m := by omega
      rw [if_pos ⟨h, by omega⟩, if_pos (by omega), h1]
    · rw [if_neg (fun hh => h hh.1)]
      by_cases h2 : d - a < m
      · rw [if_pos h2, if_pos (by omega)]
      · rw [if_neg h2, if_neg (by omega)]

/-- the value `fullRow` leaves at list index `li` -/
def fullVal (d m : ℕ) (up lo : ℕ → K) (li : ℕ) : K :=
  if li < d then (if d - li < m then lo (d - li) else 0)
  else if li = d then (if 0 < m then lo 0 else 0)
  else (if li - d < m then up (li - d) else 0)

theorem foldl_set_full (d : ℕ) (up lo : ℕ → K) (m : ℕ) (hm : m ≤ d + 1) :
    ((List.range m).foldl (fun st k => (st.set (d + k) (up k)).set (d * 2 - (d + k)) (lo k))
      (List.replicate (2 * d + 1) 0)).length = 2 * d + 1 ∧
    ∀ li, li ≤ 2 * d → ((List.range m).foldl (fun st k => (st.set (d + k) (up k)).set (d * 2 - (d + k)) (lo k))
      (List.replicate (2 * d + 1) 0)).getD li 0 = fullVal d m up lo li := by
  induction m with
  | zero =>
    refine ⟨by simp, fun li _ => ?_⟩
    have := getD_replicate_zero (K := K) (2 * d + 1) li
    simp only [List.range_zero, List.foldl_nil, this, fullVal]
    split_ifs <;> first | rfl | omega
  | succ m ih =>
    obtain ⟨hl, hv⟩ := ih (by omega)
    simp only [List.range_succ, List.foldl_append, List.foldl_cons, List.foldl_nil]
    refine ⟨by rw [List.length_set, List.length_set, hl], fun li hli => ?_⟩
    have e : d * 2 - (d + m) = d - m := by omega
    rw [e, getD_set, getD_set, List.length_set, hl, hv li hli]
    unfold fullVal
    by_cases h1 : d - m = li
    · rw [if_pos ⟨h1, by omega⟩]
      by_cases h0 : m = 0
      · subst h0
        have : li = d := by omega
        subst this
        simp
      · have hlt : li < d := by omega
        have h1' : d - li = m := by omega
        rw [if_pos hlt, if_pos (by omega), h1']
    · rw [if_neg (fun hh => h1 hh.1)]
      by_cases h2 : d + m = li
      · rw [if_pos ⟨h2, by omega⟩]
        have h3 : ¬ li < d := by omega
        have h4 : ¬ li = d := by omega
        have h5 : li - d = m := by omega
        rw [if_neg h3, if_neg h4, if_pos (by omega), h5]
      · rw [if_neg (fun hh => h2 hh.1)]
        by_cases h3 : li < d
        · simp only [if_pos h3]
          by_cases h4 : d - li < m
          · rw [if_pos h4, if_pos (by omega)]
          · rw [if_neg h4, if_neg (by omega)]
        · simp only [if_neg h3]
          by_cases h4 : li = d
          · simp only [if_pos h4]
            by_cases h5 : 0 < m
            · rw [if_pos h5, if_pos (by omega)]
            · omega
          · simp only [if_neg h4]
            by_cases h5 : li - d < m
            · rw [if_pos h5, if_pos (by omega)]
            · rw [if_neg h5, if_neg (by omega)]

theorem innerCount_gt (d nb i k : ℕ) (hk : k ≤ d) (h : i + k < nb) : k < innerCount d nb i := by
  unfold innerCount; omega

theorem innerCount_le (d nb i : ℕ) : innerCount d nb i ≤ d + 1 := by
  unfold innerCount; omega

theorem symDiag_entry (d nb : ℕ) (term : ℕ → ℕ → K) (r c : ℕ) (hr : r < nb) (hc : c < nb) :
    diagsEntry d (symDiag d nb term) r c =
      if c + d < r ∨ r + d < c then 0 else term (min r c) (max r c) := by
  unfold diagsEntry
  split_ifs with hb
  · rfl
  · have hb' : r ≤ c + d ∧ c ≤ r + d := by omega
    unfold symDiag symRow
    have ha : aliasIdx d (c + d - r) = d - (max r c - min r c) := by
      unfold aliasIdx; split_ifs <;> omega
    rw [ha, (foldl_set_down d (fun k => term (min r c) (min r c + k)) _ (innerCount_le d nb _)).2 _ (by omega)]
    have hk : d - (d - (max r c - min r c)) = max r c - min r c := by omega
    rw [hk, if_pos (innerCount_gt d nb _ _ (by omega) (by omega))]
    congr 1; omega

theorem fullDiag_entry (d nb : ℕ) (up lo : ℕ → ℕ → K) (r c : ℕ) (hr : r < nb) (hc : c < nb) :
    diagsEntry d (fullDiag d nb up lo) r c =
      if c + d < r ∨ r + d < c then 0 else if r < c then up r c else lo c r := by
  unfold diagsEntry
  split_ifs with hb hrc
  · rfl
  · unfold fullDiag fullRow
    rw [(foldl_set_full d (fun k => up (min r c) (min r c + k)) (fun k => lo (min r c) (min r c + k)) _
      (innerCount_le d nb _)).2 _ (by omega)]
    unfold fullVal
    have h1 : ¬ c + d - r < d := by omega
    have h2 : ¬ c + d - r = d := by omega
    have hmin : min r c = r := by omega
    rw [if_neg h1, if_neg h2, hmin, if_pos (innerCount_gt d nb r (c + d - r - d) (by omega) (by omega))]
    beta_reduce; congr 1; omega
  · unfold fullDiag fullRow
    rw [(foldl_set_full d (fun k => up (min r c) (min r c + k)) (fun k => lo (min r c) (min r c + k)) _
      (innerCount_le d nb _)).2 _ (by omega)]
    unfold fullVal
    have hmin : min r c = c := by omega
    by_cases h1 : c + d - r < d
    · rw [if_pos h1, hmin, if_pos (innerCount_gt d nb c (d - (c + d - r)) (by omega) (by omega))]; beta_reduce; congr 1; omega
    · have h2 : c + d - r = d := by omega
      rw [if_neg h1, if_pos h2, hmin, if_pos (innerCount_gt d nb c 0 (by omega) (by omega))]
      beta_reduce; congr 1; omega

end storage

/-! ### list sums -/
section sums
open PygyroVerif.Poisson
variable {K : Type*} [Field K]

theorem list_range_map_sum {M : Type*} [AddCommMonoid M] (f : ℕ → M) (n : ℕ) :
    ((List.range n).map f).sum = ∑ j ∈ range n, f j := by
  induction n with
  | zero => simp
  | succ n ih => simp [List.range_succ, Finset.sum_range_succ, ih]

theorem matVec_eq_sum (n : ℕ) (A : ℕ → ℕ → K) (x : ℕ → K) (a : ℕ) :
    matVec n A x a = ∑ j ∈ range n, A a j * x j := list_range_map_sum _ n

theorem evalAt_eq_sum (nb : ℕ) (V : ℕ → ℕ → K) (cf : ℕ → K) (i : ℕ) :
    evalAt nb V cf i = ∑ j ∈ range nb, cf j * V i j := list_range_map_sum _ nb

/-- the quadrature sum is the double sum over the cells `se.1 ≤ c < se.2` and the Gauss points -/
theorem quadSum_eq_sum (Q : Quad K) (a n : ℕ) (g : ℕ → ℕ → K) :
    quadSum Q (a, a + n) g = ∑ c ∈ range n, ∑ q ∈ range Q.nq, Q.w q * Q.mult (a + c) * g (a + c) q := by
  unfold quadSum
  simp only [Nat.add_sub_cancel_left]
  induction n with
  | zero => simp
  | succ n ih =>
    rw [List.range'_concat, List.flatMap_append, List.sum_append, ih, Finset.sum_range_succ]
    simp [list_range_map_sum]

end sums

end PygyroVerif.PoissonLemmas
