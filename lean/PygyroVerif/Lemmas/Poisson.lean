/-
Helper lemmas for the density / elliptic-solver / quasi-neutrality properties (C14, C15, C16).
-/
import Mathlib.Algebra.BigOperators.Group.Finset.Basic
import Mathlib.Algebra.BigOperators.Ring.Finset
import Mathlib.Algebra.BigOperators.Group.Finset.Sigma
import Mathlib.Algebra.Order.Field.Basic
import Mathlib.Tactic.Ring
import Mathlib.Tactic.Linarith

namespace PygyroVerif.PoissonLemmas

open Finset

/-- a Python accumulation loop `acc = 0; for l in range(n): acc += f(l)` is the finite sum -/
theorem foldl_range_add {M : Type*} [AddCommMonoid M] (f : ℕ → M) (n : ℕ) :
    (List.range n).foldl (fun acc l => acc + f l) 0 = ∑ l ∈ range n, f l := by
  induction n with
  | zero => simp
  | succ n ih => simp [List.range_succ, List.foldl_append, Finset.sum_range_succ, ih]

/-- duality of interpolation and quadrature: if `Mᵀ w = I` and `M c = u` then `w·u = I·c` -/
theorem quad_duality {K : Type*} [CommSemiring K] (n : ℕ) (M : ℕ → ℕ → K) (w I c u : ℕ → K)
    (hw : ∀ j, j < n → ∑ i ∈ range n, M i j * w i = I j)
    (hc : ∀ i, i < n → ∑ j ∈ range n, M i j * c j = u i) :
    ∑ i ∈ range n, w i * u i = ∑ j ∈ range n, I j * c j := by
  calc ∑ i ∈ range n, w i * u i
      = ∑ i ∈ range n, w i * ∑ j ∈ range n, M i j * c j :=
        Finset.sum_congr rfl (fun i hi => by rw [hc i (Finset.mem_range.mp hi)])
    _ = ∑ i ∈ range n, ∑ j ∈ range n, (M i j * w i) * c j := by
        refine Finset.sum_congr rfl (fun i _ => ?_)
        rw [Finset.mul_sum]
        exact Finset.sum_congr rfl (fun j _ => by ring)
    _ = ∑ j ∈ range n, ∑ i ∈ range n, (M i j * w i) * c j := Finset.sum_comm
    _ = ∑ j ∈ range n, I j * c j := by
        refine Finset.sum_congr rfl (fun j hj => ?_)
        rw [← Finset.sum_mul, hw j (Finset.mem_range.mp hj)]

end PygyroVerif.PoissonLemmas
