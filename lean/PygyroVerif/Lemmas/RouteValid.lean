/-
Validity of the route map computed by `_makeConnectionMap` (Model/Handler.lean `routeMap`): every stored route
is a path of direct connections of the stored length, whatever the tie-break order of `min` over the set of
unvisited nodes (i.e. whatever the interpreter's string-hash seed).
-/
import PygyroVerif.Model.Handler
import PygyroVerif.Lemmas.Route
import Mathlib.Tactic.ByContra
import Mathlib.Logic.Basic

namespace PygyroVerif.RouteValid
open PygyroVerif PygyroVerif.Handler PygyroVerif.Route

/-- `DirectConnections[a]` -/
def nbrs (conn : List (List Nat)) (a : Nat) : List Nat := conn.getD a []

/-- `b` is listed as a direct connection of `a` -/
def Adj (conn : List (List Nat)) (a b : Nat) : Prop := b ∈ nbrs conn a

instance (conn : List (List Nat)) (a b : Nat) : Decidable (Adj conn a b) := by unfold Adj; infer_instance

/-- a stored route from `a` to `b`: non-empty, every hop is a direct connection, it ends in `b` -/
def ValidPath (conn : List (List Nat)) (a b : Nat) (route : List Nat) : Prop :=
  route ≠ [] ∧ IsPath (Adj conn) a route ∧ lastOf a route = b

theorem isPath_append (c : Nat → Nat → Prop) : ∀ (r1 r2 : List Nat) (a : Nat),
    IsPath c a r1 → IsPath c (lastOf a r1) r2 → IsPath c a (r1 ++ r2)
  | [], _, _, _, h2 => h2
  | x :: r1, r2, _, h1, h2 => ⟨h1.1, isPath_append c r1 r2 x h1.2 h2⟩

theorem lastOf_append : ∀ (r1 r2 : List Nat) (a : Nat), lastOf a (r1 ++ r2) = lastOf (lastOf a r1) r2
  | [], _, _ => rfl
  | x :: r1, r2, _ => lastOf_append r1 r2 x

theorem validPath_append (conn : List (List Nat)) (a via b : Nat) (r1 r2 : List Nat)
    (h1 : ValidPath conn a via r1) (h2 : ValidPath conn via b r2) : ValidPath conn a b (r1 ++ r2) := by
  obtain ⟨n1, p1, l1⟩ := h1
  obtain ⟨_, p2, l2⟩ := h2
  refine ⟨by simp [n1], ?_, ?_⟩
  · exact isPath_append _ r1 r2 a p1 (by rw [l1]; exact p2)
  · rw [lastOf_append, l1, l2]

/-- what the relaxation loop maintains (`inf = n + 1` is the code's "not connected" marker) -/
structure Inv (conn : List (List Nat)) (n : Nat) (m : RouteMap) : Prop where
  sym : ∀ a b, m.d a b = m.d b a
  le : ∀ a b, m.d a b ≤ n + 1
  fin : ∀ a b, m.d a b < n + 1 → ValidPath conn a b (m.r a b) ∧ (m.r a b).length = m.d a b
  inf : ∀ a b, m.d a b = n + 1 → m.r a b = []

/-- one guarded relaxation preserves the invariant -/
theorem relax_inv (names : List String) (conn : List (List Nat)) (n : Nat) (source via aim : Nat)
    (unvisited : List Nat) (m : RouteMap) (h : Inv conn n m)
    (hsv : source ≠ via) (hsu : source ∉ unvisited) (hvu : via ∉ unvisited) :
    Inv conn n (relax names source via unvisited m aim) := by
  unfold relax
  by_cases hc : unvisited.contains aim = true
  · have haim : aim ∈ unvisited := by simpa using hc
    have has : aim ≠ source := fun e => hsu (e ▸ haim)
    have hav : aim ≠ via := fun e => hvu (e ▸ haim)
    simp only [hc, Bool.not_true, Bool.false_eq_true, ↓reduceIte]
    -- the values read by the four assignments are those of `m` (the updated entries are different ones)
    have e1 : (m.setD source aim (m.d source via + m.d via aim)).d via source = m.d via source := by
      simp [RouteMap.setD, RouteMap.d, Ne.symm hsv]
    have e2 : (m.setD source aim (m.d source via + m.d via aim)).d aim via = m.d aim via := by
      simp [RouteMap.setD, RouteMap.d, has]
    split
    · rename_i hlt
      have hfin1 : m.d source via < n + 1 := by have := h.le source aim; omega
      have hfin2 : m.d via aim < n + 1 := by have := h.le source aim; omega
      have hfin3 : m.d aim via < n + 1 := by rw [h.sym]; exact hfin2
      have hfin4 : m.d via source < n + 1 := by rw [h.sym]; exact hfin1
      obtain ⟨v1, len1⟩ := h.fin source via hfin1
      obtain ⟨v2, len2⟩ := h.fin via aim hfin2
      obtain ⟨v3, len3⟩ := h.fin aim via hfin3
      obtain ⟨v4, len4⟩ := h.fin via source hfin4
      have hp1 := validPath_append conn source via aim _ _ v1 v2
      have hp2 := validPath_append conn aim via source _ _ v3 v4
      constructor
      · intro a b
        simp only [RouteMap.setR, RouteMap.setD, RouteMap.d, RouteMap.r]
        have := h.sym a b
        have s1 := h.sym source via; have s2 := h.sym via aim
        simp only [RouteMap.d] at this s1 s2
        by_cases c1 : a = source ∧ b = aim
        · obtain ⟨rfl, rfl⟩ := c1
          simp [has, Ne.symm has, Ne.symm hsv, s1, s2]
        · by_cases c2 : a = aim ∧ b = source
          · obtain ⟨rfl, rfl⟩ := c2
            simp [has, Ne.symm has, Ne.symm hsv, hsv, s1, s2]
          · have c1' : ¬ (b = source ∧ a = aim) := fun ⟨x, y⟩ => c2 ⟨y, x⟩
            have c2' : ¬ (b = aim ∧ a = source) := fun ⟨x, y⟩ => c1 ⟨y, x⟩
            simp [c1, c2, c1', c2', this]
      · intro a b
        simp only [RouteMap.setR, RouteMap.setD, RouteMap.d]
        have := h.le a b
        simp only [RouteMap.d] at this hlt hfin1 hfin2 hfin3 hfin4 ⊢
        by_cases c2 : a = aim ∧ b = source
        · obtain ⟨rfl, rfl⟩ := c2
          simp only [and_self, ↓reduceIte]
          have hle := h.le b a
          have s1 := h.sym b via; have s2 := h.sym via a
          simp only [RouteMap.d] at hle s1 s2
          have q1 : (if via = b ∧ b = a then m.dist b via + m.dist via a else m.dist via b) = m.dist via b := by
            simp [Ne.symm hsv]
          have q2 : (if a = b ∧ via = a then m.dist b via + m.dist via a else m.dist a via) = m.dist a via := by
            simp [has]
          rw [q1, q2]; omega
        · by_cases c1 : a = source ∧ b = aim
          · obtain ⟨rfl, rfl⟩ := c1
            simp only [c2, ↓reduceIte, and_self]
            have := h.le a b; simp only [RouteMap.d] at this; omega
          · simp [c1, c2, this]
      · intro a b hab
        simp only [RouteMap.setR, RouteMap.setD, RouteMap.d, RouteMap.r] at hab ⊢
        by_cases c2 : a = aim ∧ b = source
        · obtain ⟨rfl, rfl⟩ := c2
          have n1 : ¬ (a = b ∧ b = a) := fun ⟨x, _⟩ => has x
          simp only [and_self, ↓reduceIte, n1]
          have q1 : (if via = b ∧ b = a then m.dist b via + m.dist via a else m.dist via b) = m.dist via b := by
            simp [Ne.symm hsv]
          have q2 : (if a = b ∧ via = a then m.dist b via + m.dist via a else m.dist a via) = m.dist a via := by
            simp [has]
          have r1 : (if a = b ∧ via = a then m.route b via ++ m.route via a else m.route a via) = m.route a via := by
            simp [has]
          have r2 : (if via = b ∧ b = a then m.route b via ++ m.route via a else m.route via b) = m.route via b := by
            simp [Ne.symm hsv]
          rw [q1, q2, r1, r2]
          refine ⟨hp2, ?_⟩
          simp only [RouteMap.d, RouteMap.r] at len3 len4
          rw [List.length_append, len3, len4]; omega
        · by_cases c1 : a = source ∧ b = aim
          · obtain ⟨rfl, rfl⟩ := c1
            simp only [c2, ↓reduceIte, and_self]
            refine ⟨hp1, ?_⟩
            simp only [RouteMap.d, RouteMap.r] at len1 len2
            rw [List.length_append, len1, len2]
          · simp only [c1, c2, ↓reduceIte] at hab ⊢
            exact h.fin a b hab
      · intro a b hab
        simp only [RouteMap.setR, RouteMap.setD, RouteMap.d, RouteMap.r] at hab ⊢
        by_cases c2 : a = aim ∧ b = source
        · obtain ⟨rfl, rfl⟩ := c2
          exfalso
          simp only [and_self, ↓reduceIte] at hab
          have q1 : (if via = b ∧ b = a then m.dist b via + m.dist via a else m.dist via b) = m.dist via b := by
            simp [Ne.symm hsv]
          have q2 : (if a = b ∧ via = a then m.dist b via + m.dist via a else m.dist a via) = m.dist a via := by
            simp [has]
          rw [q1, q2] at hab
          have s1 := h.sym b via; have s2 := h.sym via a
          have := h.le b a
          simp only [RouteMap.d] at s1 s2 this hlt
          omega
        · by_cases c1 : a = source ∧ b = aim
          · obtain ⟨rfl, rfl⟩ := c1
            exfalso
            simp only [c2, ↓reduceIte, and_self] at hab
            have := h.le a b
            simp only [RouteMap.d] at this hlt
            omega
          · simp only [c1, c2, ↓reduceIte] at hab ⊢
            exact h.inf a b hab
    · split
      · rename_i hnlt heq
        split
        · rename_i hlex
          -- only the routes change; the distance of (source, aim) must be finite, otherwise its route is [] and
          -- nothing is lexicographically smaller than []
          have hfin : m.d source aim < n + 1 := by
            by_contra hcon
            have hinf : m.d source aim = n + 1 := by have := h.le source aim; omega
            have := h.inf source aim hinf
            rw [this] at hlex
            have : ∀ l : List String, lexLt l [] = false := by intro l; cases l <;> rfl
            simp [this] at hlex
          have d1 : 1 ≤ m.d source via ∨ m.d source via = 0 := by omega
          have hfin1 : m.d source via < n + 1 := by omega
          have hfin2 : m.d via aim < n + 1 := by omega
          have hfin3 : m.d aim via < n + 1 := by rw [h.sym]; exact hfin2
          have hfin4 : m.d via source < n + 1 := by rw [h.sym]; exact hfin1
          obtain ⟨v1, len1⟩ := h.fin source via hfin1
          obtain ⟨v2, len2⟩ := h.fin via aim hfin2
          obtain ⟨v3, len3⟩ := h.fin aim via hfin3
          obtain ⟨v4, len4⟩ := h.fin via source hfin4
          have hp1 := validPath_append conn source via aim _ _ v1 v2
          have hp2 := validPath_append conn aim via source _ _ v3 v4
          have r1 : (m.setR source aim (m.r source via ++ m.r via aim)).r aim via = m.r aim via := by
            simp [RouteMap.setR, RouteMap.r, has]
          have r2 : (m.setR source aim (m.r source via ++ m.r via aim)).r via source = m.r via source := by
            simp [RouteMap.setR, RouteMap.r, Ne.symm hsv]
          rw [r1, r2]
          refine ⟨h.sym, h.le, ?_, ?_⟩
          · intro a b hab
            simp only [RouteMap.setR, RouteMap.d, RouteMap.r] at hab ⊢
            by_cases c2 : a = aim ∧ b = source
            · obtain ⟨rfl, rfl⟩ := c2
              simp only [and_self, ↓reduceIte]
              refine ⟨hp2, ?_⟩
              simp only [RouteMap.d, RouteMap.r] at len3 len4 heq
              have s1 := h.sym b via; have s2 := h.sym via a; have s3 := h.sym b a
              simp only [RouteMap.d] at s1 s2 s3
              rw [List.length_append, len3, len4]; omega
            · by_cases c1 : a = source ∧ b = aim
              · obtain ⟨rfl, rfl⟩ := c1
                simp only [c2, ↓reduceIte, and_self]
                refine ⟨hp1, ?_⟩
                simp only [RouteMap.d, RouteMap.r] at len1 len2 heq
                rw [List.length_append, len1, len2]; omega
              · simp only [c1, c2, ↓reduceIte]
                exact h.fin a b hab
          · intro a b hab
            simp only [RouteMap.setR, RouteMap.d, RouteMap.r] at hab ⊢
            by_cases c2 : a = aim ∧ b = source
            · obtain ⟨rfl, rfl⟩ := c2
              exfalso
              have s3 := h.sym b a
              simp only [RouteMap.d] at s3 hfin; omega
            · by_cases c1 : a = source ∧ b = aim
              · obtain ⟨rfl, rfl⟩ := c1
                exfalso
                simp only [RouteMap.d] at hfin; omega
              · simp only [c1, c2, ↓reduceIte]
                exact h.inf a b hab
        · exact h
      · exact h
  · have : (!unvisited.contains aim) = true := by simpa using hc
    simp only [this, ↓reduceIte]
    exact h


theorem relax_fold_inv (names : List String) (conn : List (List Nat)) (n : Nat) (source via : Nat)
    (unvisited : List Nat) (hsv : source ≠ via) (hsu : source ∉ unvisited) (hvu : via ∉ unvisited) :
    ∀ (aims : List Nat) (m : RouteMap), Inv conn n m →
      Inv conn n (aims.foldl (relax names source via unvisited) m) := by
  intro aims
  induction aims with
  | nil => intro m h; exact h
  | cons a t ih => intro m h; exact ih _ (relax_inv names conn n source via a unvisited m h hsv hsu hvu)

theorem pickMin_mem (order unvisited : List Nat) (key : Nat → Nat) (via : Nat)
    (h : pickMin order unvisited key = some via) : via ∈ unvisited := by
  unfold pickMin at h
  have key' : ∀ (l : List Nat) (best : Option Nat),
      (∀ b, best = some b → b ∈ unvisited) → (∀ x ∈ l, x ∈ unvisited) →
      ∀ v, l.foldl (fun best x => match best with
        | none => some x
        | some b => if key x < key b then some x else some b) best = some v → v ∈ unvisited := by
    intro l
    induction l with
    | nil => intro best hb _ v hv; exact hb v hv
    | cons x t ih =>
      intro best hb hl v hv
      apply ih _ _ (fun y hy => hl y (by simp [hy])) v hv
      intro b hbe
      cases best with
      | none => simp at hbe; subst hbe; exact hl x (by simp)
      | some b0 =>
        simp only at hbe
        split at hbe
        · simp at hbe; subst hbe; exact hl x (by simp)
        · simp at hbe; subst hbe; exact hb b0 rfl
  apply key' _ none (by simp) _ via h
  intro x hx
  simp only [List.mem_filter] at hx
  simpa using hx.2

theorem dijkstra_inv (names : List String) (conn : List (List Nat)) (n : Nat) (order : List Nat) (source : Nat) :
    ∀ (fuel : Nat) (unvisited : List Nat) (m : RouteMap), source ∉ unvisited → Inv conn n m →
      Inv conn n (dijkstra names conn order source fuel unvisited m) := by
  intro fuel
  induction fuel with
  | zero => intro u m _ h; exact h
  | succ fuel ih =>
    intro u m hsu h
    unfold dijkstra
    split
    · exact h
    · rename_i via hpick
      have hvia : via ∈ u := pickMin_mem order u _ via hpick
      have hsv : source ≠ via := fun e => hsu (e ▸ hvia)
      have hsu' : source ∉ u.filter (· ≠ via) := fun hmem => hsu (List.mem_filter.mp hmem).1
      have hvu' : via ∉ u.filter (· ≠ via) := by
        intro hmem; have := (List.mem_filter.mp hmem).2; simp at this
      exact ih _ _ hsu' (relax_fold_inv names conn n source via _ hsv hsu' hvu' _ m h)

/-- what the constructor knows about its direct connections: listed once, symmetric, no self connection -/
structure ConnOK (conn : List (List Nat)) (n : Nat) : Prop where
  nodup : ∀ a, (nbrs conn a).Nodup
  sym : ∀ a b, a < n → b ∈ nbrs conn a → b < n ∧ a ∈ nbrs conn b
  irr : ∀ a, a ∉ nbrs conn a

/-- the initialisation `distanceMap[name][stepTo] = 1; route_map[name][stepTo].append(stepTo)` (:276-279) -/
def initMap (conn : List (List Nat)) (n : Nat) : RouteMap :=
  (List.range n).foldl (fun (m : RouteMap) a => (nbrs conn a).foldl (fun m b => (m.setD a b 1).setR a b (m.r a b ++ [b])) m)
    { dist := fun _ _ => n + 1, route := fun _ _ => [] }

theorem inner_init (n a : Nat) : ∀ (bs : List Nat) (m : RouteMap), bs.Nodup →
    (∀ b ∈ bs, m.r a b = []) →
    let m' := bs.foldl (fun m b => (m.setD a b 1).setR a b (m.r a b ++ [b])) m
    (∀ x y, m'.d x y = if x = a ∧ y ∈ bs then 1 else m.d x y) ∧
    (∀ x y, m'.r x y = if x = a ∧ y ∈ bs then [y] else m.r x y) := by
  intro bs
  induction bs with
  | nil => intro m _ _; simp
  | cons b t ih =>
    intro m hnd hemp
    have hnd' := (List.nodup_cons.mp hnd)
    simp only [List.foldl_cons]
    have hemp' : ∀ y ∈ t, ((m.setD a b 1).setR a b (m.r a b ++ [b])).r a y = [] := by
      intro y hy
      have : y ≠ b := fun e => hnd'.1 (e ▸ hy)
      simp [RouteMap.setR, RouteMap.setD, RouteMap.r, this]
      exact hemp y (by simp [hy])
    obtain ⟨hd, hr⟩ := ih _ hnd'.2 hemp'
    constructor
    · intro x y
      rw [hd x y]
      simp only [RouteMap.setR, RouteMap.setD, RouteMap.d, List.mem_cons]
      by_cases h1 : x = a ∧ y ∈ t
      · simp [h1]
      · by_cases h2 : x = a ∧ y = b
        · simp [h2]
        · have : ¬ (x = a ∧ (y = b ∨ y ∈ t)) := by
            rintro ⟨xa, hy | hy⟩
            · exact h2 ⟨xa, hy⟩
            · exact h1 ⟨xa, hy⟩
          simp [h1, h2, this]
    · intro x y
      rw [hr x y]
      simp only [RouteMap.setR, RouteMap.setD, RouteMap.r, List.mem_cons]
      by_cases h1 : x = a ∧ y ∈ t
      · simp [h1]
      · by_cases h2 : x = a ∧ y = b
        · obtain ⟨rfl, rfl⟩ := h2
          have := hemp y (by simp)
          simp only [RouteMap.r] at this
          simp [h1, this]
        · have : ¬ (x = a ∧ (y = b ∨ y ∈ t)) := by
            rintro ⟨xa, hy | hy⟩
            · exact h2 ⟨xa, hy⟩
            · exact h1 ⟨xa, hy⟩
          simp [h1, h2, this]

theorem initMap_spec (conn : List (List Nat)) (n : Nat) (hc : ConnOK conn n) :
    (∀ x y, (initMap conn n).d x y = if x < n ∧ y ∈ nbrs conn x then 1 else n + 1) ∧
    (∀ x y, (initMap conn n).r x y = if x < n ∧ y ∈ nbrs conn x then [y] else []) := by
  unfold initMap
  have key : ∀ k, let m := (List.range k).foldl (fun (m : RouteMap) a => (nbrs conn a).foldl
        (fun m b => (m.setD a b 1).setR a b (m.r a b ++ [b])) m) { dist := fun _ _ => n + 1, route := fun _ _ => [] }
      (∀ x y, m.d x y = if x < k ∧ y ∈ nbrs conn x then 1 else n + 1) ∧
      (∀ x y, m.r x y = if x < k ∧ y ∈ nbrs conn x then [y] else []) := by
    intro k
    induction k with
    | zero => simp [RouteMap.d, RouteMap.r]
    | succ k ih =>
      obtain ⟨ihd, ihr⟩ := ih
      simp only [List.range_succ, List.foldl_append, List.foldl_cons, List.foldl_nil]
      have hemp : ∀ b ∈ nbrs conn k, ((List.range k).foldl (fun (m : RouteMap) a => (nbrs conn a).foldl
          (fun m b => (m.setD a b 1).setR a b (m.r a b ++ [b])) m)
          { dist := fun _ _ => n + 1, route := fun _ _ => [] }).r k b = [] := by
        intro b _; rw [ihr k b]; simp
      obtain ⟨hd, hr⟩ := inner_init n k (nbrs conn k) _ (hc.nodup k) hemp
      constructor
      · intro x y
        rw [hd x y, ihd x y]
        by_cases h1 : x = k
        · subst h1; by_cases h2 : y ∈ nbrs conn x <;> simp [h2]
        · have : x < k + 1 ↔ x < k := by omega
          simp [h1, this]
      · intro x y
        rw [hr x y, ihr x y]
        by_cases h1 : x = k
        · subst h1; by_cases h2 : y ∈ nbrs conn x <;> simp [h2]
        · have : x < k + 1 ↔ x < k := by omega
          simp [h1, this]
  exact key n

theorem initMap_inv (conn : List (List Nat)) (n : Nat) (hc : ConnOK conn n) : Inv conn n (initMap conn n) := by
  obtain ⟨hd, hr⟩ := initMap_spec conn n hc
  constructor
  · intro a b
    rw [hd a b, hd b a]
    by_cases h1 : a < n ∧ b ∈ nbrs conn a
    · have := hc.sym a b h1.1 h1.2
      simp [h1, this]
    · by_cases h2 : b < n ∧ a ∈ nbrs conn b
      · have := hc.sym b a h2.1 h2.2
        exact absurd ⟨this.1, this.2⟩ h1
      · simp [h1, h2]
  · intro a b; rw [hd a b]; split <;> omega
  · intro a b hab
    rw [hd a b] at hab
    by_cases h1 : a < n ∧ b ∈ nbrs conn a
    · rw [hr a b, hd a b]
      simp only [h1, and_self, ↓reduceIte, List.length_cons, List.length_nil, Nat.zero_add, and_true]
      exact ⟨by simp, ⟨h1.2, trivial⟩, rfl⟩
    · simp [h1] at hab
  · intro a b hab
    rw [hd a b] at hab
    rw [hr a b]
    by_cases h1 : a < n ∧ b ∈ nbrs conn a
    · simp [h1] at hab; omega
    · simp [h1]

theorem sources_fold_inv (names : List String) (conn : List (List Nat)) (n : Nat) (order : List Nat) :
    ∀ (srcs : List Nat) (m : RouteMap), Inv conn n m →
      Inv conn n (srcs.foldl (fun m s => dijkstra names conn order s n ((List.range n).filter (· ≠ s)) m) m) := by
  intro srcs
  induction srcs with
  | nil => intro m h; exact h
  | cons s t ih =>
    intro m h
    apply ih
    apply dijkstra_inv names conn n order s n _ m _ h
    intro hmem; have := (List.mem_filter.mp hmem).2; simp at this


theorem initMap_eq (conn : List (List Nat)) (n : Nat) : initRoutes conn n = initMap conn n := rfl

/-- the map `_makeConnectionMap` stores satisfies the invariant, for every tie-break order -/
theorem routeMap_inv (names : List String) (conn : List (List Nat)) (order : List Nat)
    (hc : ConnOK conn names.length) (hn : names.length ≠ 1) :
    Inv conn names.length (routeMap names conn order).1 := by
  unfold routeMap
  simp only [hn, ↓reduceIte]
  unfold relaxAll
  rw [initMap_eq]
  exact sources_fold_inv names conn names.length order _ _ (initMap_inv conn names.length hc)

theorem foldl_max_mono (g : Nat → Nat → Nat) (hg : ∀ acc x, acc ≤ g acc x) : ∀ (l : List Nat) (i : Nat), i ≤ l.foldl g i := by
  intro l
  induction l with
  | nil => intro i; exact Nat.le_refl i
  | cons z u ih => intro i; simp only [List.foldl_cons]; exact Nat.le_trans (hg i z) (ih _)

/-- the maximum computed by the constructor dominates every off-diagonal distance -/
theorem maxDist_ge (m : RouteMap) (n a b : Nat) (ha : a < n) (hb : b < n) (hab : a ≠ b) : m.d a b ≤ maxDist m n := by
  unfold maxDist
  have hin : ∀ acc x, acc ≤ (fun acc b' => if a ≠ b' ∧ m.d a b' > acc then m.d a b' else acc) acc x := by
    intro acc x; simp only; split <;> omega
  have hinA : ∀ (a' : Nat) acc x, acc ≤ (fun acc b' => if a' ≠ b' ∧ m.d a' b' > acc then m.d a' b' else acc) acc x := by
    intro a' acc x; simp only; split <;> omega
  have inner : ∀ (l : List Nat) (init : Nat), b ∈ l →
      m.d a b ≤ l.foldl (fun acc b' => if a ≠ b' ∧ m.d a b' > acc then m.d a b' else acc) init := by
    intro l
    induction l with
    | nil => intro _ h; simp at h
    | cons y t ih =>
      intro init hy
      simp only [List.foldl_cons]
      rcases List.mem_cons.mp hy with rfl | hy
      · refine Nat.le_trans ?_ (foldl_max_mono _ hin t _)
        simp only [hab, ne_eq, not_false_eq_true, true_and]
        split <;> omega
      · exact ih _ hy
  have hout : ∀ acc x, acc ≤ (fun acc a' => (List.range n).foldl
      (fun acc b' => if a' ≠ b' ∧ m.d a' b' > acc then m.d a' b' else acc) acc) acc x := by
    intro acc x; exact foldl_max_mono _ (hinA x) _ acc
  have outer : ∀ (l : List Nat) (init : Nat), a ∈ l →
      m.d a b ≤ l.foldl (fun acc a' => (List.range n).foldl
        (fun acc b' => if a' ≠ b' ∧ m.d a' b' > acc then m.d a' b' else acc) acc) init := by
    intro l
    induction l with
    | nil => intro _ h; simp at h
    | cons y t ih =>
      intro init hy
      simp only [List.foldl_cons]
      rcases List.mem_cons.mp hy with rfl | hy
      · exact Nat.le_trans (inner _ init (by simpa using hb)) (foldl_max_mono _ hout t _)
      · exact ih _ hy
  exact outer _ 0 (by simpa using ha)

theorem maxDist_le (m : RouteMap) (n B : Nat) (h : ∀ a b, m.d a b ≤ B) : maxDist m n ≤ B := by
  unfold maxDist
  have upIn : ∀ (a' : Nat) (l : List Nat) (i : Nat), i ≤ B →
      l.foldl (fun acc b' => if a' ≠ b' ∧ m.d a' b' > acc then m.d a' b' else acc) i ≤ B := by
    intro a' l
    induction l with
    | nil => intro i hi; exact hi
    | cons z u ihu =>
      intro i hi
      simp only [List.foldl_cons]
      apply ihu
      split
      · exact h a' z
      · exact hi
  have upOut : ∀ (l : List Nat) (i : Nat), i ≤ B →
      l.foldl (fun acc a' => (List.range n).foldl
        (fun acc b' => if a' ≠ b' ∧ m.d a' b' > acc then m.d a' b' else acc) acc) i ≤ B := by
    intro l
    induction l with
    | nil => intro i hi; exact hi
    | cons z u ihu => intro i hi; simp only [List.foldl_cons]; exact ihu _ (upIn z _ i hi)
  exact upOut _ 0 (Nat.zero_le _)

/-- **route_valid**: if the constructor accepts the layout set (all layouts connected), then between any two different
    layouts the stored route is a non-empty path of direct connections that ends at the destination and whose length is
    the stored distance — for every iteration order of the set of unvisited layouts -/
theorem routes_valid_of_connected (names : List String) (conn : List (List Nat)) (order : List Nat)
    (hc : ConnOK conn names.length) (hn : names.length ≠ 1)
    (hfull : (routeMap names conn order).2 = true) :
    ∀ a b, a < names.length → b < names.length → a ≠ b →
      ValidPath conn a b ((routeMap names conn order).1.r a b) ∧
      ((routeMap names conn order).1.r a b).length = (routeMap names conn order).1.d a b := by
  intro a b ha hb hab
  have hinv := routeMap_inv names conn order hc hn
  apply hinv.fin
  have hle := hinv.le a b
  by_contra hcon
  have hinf : (routeMap names conn order).1.d a b = names.length + 1 := by omega
  have hge := maxDist_ge (routeMap names conn order).1 names.length a b ha hb hab
  have hup := maxDist_le (routeMap names conn order).1 names.length (names.length + 1) hinv.le
  have hmax : maxDist (routeMap names conn order).1 names.length = names.length + 1 := by omega
  unfold routeMap at hfull hmax
  simp only [hn, ↓reduceIte] at hfull hmax
  simp [hmax] at hfull


/-- the connection lists the constructors build are duplicate-free, symmetric and irreflexive -/
theorem connectionsOf_ok (n : Nat) (compat : Nat → Nat → Bool) : ConnOK (connectionsOf n compat) n := by
  have hget : ∀ a, nbrs (connectionsOf n compat) a =
      if a < n then (List.range n).filter (fun b => decide (b ≠ a) && compat (max a b) (min a b)) else [] := by
    intro a
    unfold nbrs connectionsOf
    by_cases h : a < n
    · simp [h, List.getD_eq_getElem?_getD]
    · simp [h, List.getD_eq_getElem?_getD]
  constructor
  · intro a
    rw [hget a]
    split
    · exact List.Nodup.sublist List.filter_sublist List.nodup_range
    · exact List.nodup_nil
  · intro a b ha hb
    rw [hget a] at hb
    simp only [ha, ↓reduceIte, List.mem_filter, List.mem_range, Bool.and_eq_true, decide_eq_true_eq] at hb
    obtain ⟨hbn, hne, hc⟩ := hb
    refine ⟨hbn, ?_⟩
    rw [hget b]
    simp only [hbn, ↓reduceIte, List.mem_filter, List.mem_range, Bool.and_eq_true, decide_eq_true_eq]
    refine ⟨ha, Ne.symm hne, ?_⟩
    rw [Nat.max_comm, Nat.min_comm]; exact hc
  · intro a ha
    rw [hget a] at ha
    split at ha
    · simp at ha
    · simp at ha

end PygyroVerif.RouteValid
