/-
Helper lemmas for the `bufferSize` clauses of C02 (Props/C02Extra.lean): the buffer size computed by
`LayoutHandler.__init__` (pygyro/model/layout.py:431-462, model `Handler.bufferSize`) is an upper bound of the first
layout's block, of the `buffsize` of every compatible pair, and (for well-formed handlers) of the block of both layouts of
every compatible pair.
-/
import PygyroVerif.Model.Handler
import PygyroVerif.Lemmas.Blocks
import PygyroVerif.Lemmas.RouteValid
import Mathlib.Algebra.BigOperators.Group.Finset.Basic
import Mathlib.Algebra.BigOperators.Group.Finset.Piecewise
import Mathlib.Algebra.Order.BigOperators.Group.Finset
import Mathlib.Algebra.Order.Ring.Nat
import Mathlib.Tactic.ByContra
import Mathlib.Logic.Basic

namespace PygyroVerif.BufferSize
open PygyroVerif PygyroVerif.Handler

/-! ### the double loop as two nested folds over named step functions -/

/-- the test `self.compatible(l1, l2)` of the pair loop, `l1 = layout n'` (the later one), `l2 = layout i` -/
def pairCompat (h : Handler) (n' i : Nat) : Bool :=
  compatible h.nprocs (h.layoutAt n').ord (h.layoutAt i).ord

/-- `buffsize` as the constructor computes it for the pair `l1 = layout n'`, `l2 = layout i` (layout.py:443-458) -/
def pairBs (h : Handler) (c : List Nat) (n' i : Nat) : Nat :=
  let l1 := h.layoutAt n'; let l2 := h.layoutAt i
  let axis := swapAxes h.nprocs l1.ord l2.ord
  if axis.length ≠ 0 then
    let a0 := axis.getD 0 0; let a1 := axis.getD 1 0
    let blockshape := ((l1.shape c).set a0 (l1.maxShape.getD a0 0)).set a1 (l2.maxShape.getD a0 0)
    if a0 < h.nprocs.length then prodL blockshape * h.nprocs.getD a0 1 else prodL blockshape
  else prodL (l1.shape c)

/-- body of the inner loop -/
def innerStep (h : Handler) (c : List Nat) (n' : Nat) (acc i : Nat) : Nat :=
  if pairCompat h n' i then (if pairBs h c n' i > acc then pairBs h c n' i else acc) else acc

/-- body of the outer loop -/
def outerStep (h : Handler) (c : List Nat) (acc n' : Nat) : Nat :=
  (List.range n').foldl (innerStep h c n') acc

/-- `Handler.bufferSize` is literally the nested fold of the named steps -/
theorem bufferSize_eq (h : Handler) (c : List Nat) :
    h.bufferSize c = (List.range h.nLayouts).foldl (outerStep h c) ((h.layoutAt 0).size c) := rfl

/-! ### generic fold facts -/

theorem foldl_infl {β : Type} (g : Nat → β → Nat) (hg : ∀ acc x, acc ≤ g acc x) :
    ∀ (l : List β) (a : Nat), a ≤ l.foldl g a := by
  intro l
  induction l with
  | nil => intro a; exact Nat.le_refl _
  | cons x l ih => intro a; exact Nat.le_trans (hg a x) (ih (g a x))

theorem foldl_ge_of_mem {β : Type} (g : Nat → β → Nat) (hg : ∀ acc x, acc ≤ g acc x) (v : Nat) (x : β)
    (hx : ∀ acc, v ≤ g acc x) : ∀ (l : List β) (a : Nat), x ∈ l → v ≤ l.foldl g a := by
  intro l
  induction l with
  | nil => intro a hm; cases hm
  | cons y l ih =>
    intro a hm
    rcases List.mem_cons.1 hm with rfl | hm'
    · exact Nat.le_trans (hx a) (foldl_infl g hg l _)
    · exact ih _ hm'

theorem innerStep_infl (h : Handler) (c : List Nat) (n' acc i : Nat) : acc ≤ innerStep h c n' acc i := by
  unfold innerStep
  split
  · split
    · omega
    · exact Nat.le_refl _
  · exact Nat.le_refl _

theorem innerStep_ge (h : Handler) (c : List Nat) (n' acc i : Nat) (hc : pairCompat h n' i = true) :
    pairBs h c n' i ≤ innerStep h c n' acc i := by
  unfold innerStep
  rw [if_pos hc]
  split
  · exact Nat.le_refl _
  · omega

theorem outerStep_infl (h : Handler) (c : List Nat) (acc n' : Nat) : acc ≤ outerStep h c acc n' :=
  foldl_infl _ (innerStep_infl h c n') _ _

/-- monotonicity of the whole fold in the start value's sense: the result is at least the start value -/
theorem bufferSize_ge_init (h : Handler) (c : List Nat) : (h.layoutAt 0).size c ≤ h.bufferSize c := by
  rw [bufferSize_eq]
  exact foldl_infl _ (outerStep_infl h c) _ _

theorem bufferSize_ge_pairBs (h : Handler) (c : List Nat) (n' i : Nat) (hi : i < n') (hn : n' < h.nLayouts)
    (hc : pairCompat h n' i = true) : pairBs h c n' i ≤ h.bufferSize c := by
  rw [bufferSize_eq]
  refine foldl_ge_of_mem _ (outerStep_infl h c) _ n' ?_ _ _ (List.mem_range.2 hn)
  intro acc
  exact foldl_ge_of_mem _ (innerStep_infl h c n') _ i (fun a => innerStep_ge h c n' a i hc) _ _ (List.mem_range.2 hi)

/-! ### products of shapes as `Finset` products, one-entry updates -/

theorem prodL_eq_prod (l : List Nat) : prodL l = l.prod := by
  unfold prodL; rw [List.prod_eq_foldl]

theorem prodL_map_range (n : Nat) (f : Nat → Nat) :
    prodL ((List.range n).map f) = ∏ k ∈ Finset.range n, f k := by
  rw [prodL_eq_prod]
  induction n with
  | zero => simp
  | succ n ih => rw [List.range_succ, List.map_append, List.prod_append, ih, Finset.prod_range_succ]; simp

theorem map_range_set (n : Nat) (f : Nat → Nat) (a x : Nat) :
    ((List.range n).map f).set a x = (List.range n).map (fun k => if k = a then x else f k) := by
  apply List.ext_getElem
  · simp
  · intro k h1 h2
    simp only [List.getElem_set, List.getElem_map, List.getElem_range]
    by_cases hk : a = k
    · subst hk; simp
    · have : ¬ k = a := fun e => hk e.symm
      simp [hk, this]

theorem prod_ite_le (n a p : Nat) (hp : 1 ≤ p) : (∏ k ∈ Finset.range n, if k = a then p else 1) ≤ p := by
  rw [Finset.prod_ite_eq']
  split
  · exact Nat.le_refl _
  · exact hp

/-- replacing entry `a0` by something not smaller and entry `a1` by something that, times `p`, is not smaller, and
    multiplying the product by `p ≥ 1`, does not decrease the product -/
theorem prod_le_swapped (n : Nat) (s : Nat → Nat) (a0 a1 x y p : Nat) (hp : 1 ≤ p)
    (h0 : a0 < n → a0 ≠ a1 → s a0 ≤ x) (h1 : a1 < n → s a1 ≤ y * p) :
    prodL ((List.range n).map s) ≤ prodL ((((List.range n).map s).set a0 x).set a1 y) * p := by
  rw [map_range_set, map_range_set, prodL_map_range, prodL_map_range]
  calc ∏ k ∈ Finset.range n, s k
      ≤ ∏ k ∈ Finset.range n, ((if k = a1 then y else if k = a0 then x else s k) * (if k = a1 then p else 1)) := by
        apply Finset.prod_le_prod'
        intro k hk
        have hk' : k < n := Finset.mem_range.1 hk
        by_cases e1 : k = a1
        · subst e1; simpa using h1 hk'
        · by_cases e0 : k = a0
          · subst e0; simpa [e1] using h0 hk' e1
          · simp [e1, e0]
    _ = (∏ k ∈ Finset.range n, (if k = a1 then y else if k = a0 then x else s k)) *
          ∏ k ∈ Finset.range n, (if k = a1 then p else 1) := Finset.prod_mul_distrib
    _ ≤ _ := Nat.mul_le_mul_left _ (prod_ite_le n a1 p hp)

/-! ### facts about one layout -/

/-- local extent along axis `k` -/
def shp (L : Layout) (c : List Nat) (k : Nat) : Nat := blockLen (L.extAt k) (L.procsAt k) (c.getD k 0)

theorem shape_eq (L : Layout) (c : List Nat) : L.shape c = (List.range L.ndims).map (shp L c) := rfl

theorem size_eq (L : Layout) (c : List Nat) : L.size c = prodL (L.shape c) := rfl

theorem maxShape_getD (L : Layout) (a : Nat) (ha : a < L.ndims) :
    L.maxShape.getD a 0 = maxBlock (L.extAt a) (L.procsAt a) := by
  simp only [Layout.maxShape, ha, List.getD_eq_getElem?_getD, List.getElem?_map, List.getElem?_range,
    Option.map_some, Option.getD_some]

theorem padTo_getD (l : List Nat) (n d a : Nat) : (padTo l n d).getD a d = l.getD a d := by
  unfold padTo
  simp only [List.getD_eq_getElem?_getD]
  by_cases h : a < l.length
  · rw [List.getElem?_append_left h]
  · rw [List.getElem?_append_right (by omega), List.getElem?_eq_none (l := l) (by omega)]
    simp only [List.getElem?_replicate, Option.getD_none]
    split <;> rfl

theorem procsAt_make (np ord ext : List Nat) (a : Nat) : (Layout.make np ord ext).procsAt a = np.getD a 1 := by
  unfold Layout.procsAt Layout.make; exact padTo_getD _ _ _ _

theorem procsAt_layoutAt (h : Handler) (i a : Nat) : (h.layoutAt i).procsAt a = h.nprocs.getD a 1 :=
  procsAt_make _ _ _ _

/-- `maxBlock` bounds every block length, whatever the rank index (no `k < p` needed) -/
theorem blockLen_le_maxBlock (n p k : Nat) (hp : 0 < p) : blockLen n p k ≤ maxBlock n p := by
  unfold maxBlock
  split
  · have := blockStart_succ_le n p k hp
    unfold blockLen; generalize n / p = s at *; omega
  · rename_i h
    have hb : n % p = 0 := by omega
    have h0 : blockStart n p (k+1) = n / p * (k+1) := by simp [blockStart, hb]
    have h1 : blockStart n p k = n / p * k := by simp [blockStart, hb]
    unfold blockLen; rw [h0, h1, Nat.mul_succ]; generalize n / p * k = a; generalize n / p = s; omega

theorem maxBlock_le (n p : Nat) (hp : 0 < p) : maxBlock n p ≤ n := by
  have hn := Nat.div_add_mod' n p
  have hs : n / p ≤ n / p * p := Nat.le_mul_of_pos_right _ hp
  unfold maxBlock
  generalize n / p = s at *; generalize n / p * p = t at *
  split <;> omega

/-- a block is never longer than the extent (any process count, any rank index) -/
theorem blockLen_le (n p k : Nat) : blockLen n p k ≤ n := by
  rcases Nat.eq_zero_or_pos p with rfl | hp
  · simp [blockLen, blockStart]
  · exact Nat.le_trans (blockLen_le_maxBlock n p k hp) (maxBlock_le n p hp)

/-- `p` blocks of the maximal length cover the extent -/
theorem le_maxBlock_mul (n p : Nat) (hp : 0 < p) : n ≤ maxBlock n p * p := by
  have hn := Nat.div_add_mod' n p
  have hb : n % p < p := Nat.mod_lt _ hp
  unfold maxBlock
  split
  · rw [Nat.add_mul]; generalize n / p * p = t at *; omega
  · generalize n / p * p = t at *; omega

/-- an undistributed axis holds the full extent -/
theorem blockLen_one (n k : Nat) : blockLen n 1 k = n := by
  unfold blockLen blockStart
  simp only [Nat.div_one, Nat.mod_one, Nat.zero_mul, Nat.add_zero, Nat.mul_succ]
  omega


/-! ### the swap axes -/

theorem mem_diffAxes {np o1 o2 : List Nat} {a : Nat} :
    a ∈ diffAxes np o1 o2 ↔ a < np.length ∧ 1 < np.getD a 1 ∧ o1.getD a 0 ≠ o2.getD a 0 := by
  unfold diffAxes
  simp only [List.mem_filter, List.mem_range, Bool.and_eq_true, decide_eq_true_eq, gt_iff_lt]

theorem swapAxes_nil (np oS oD : List Nat) (h : diffAxes np oS oD = []) : swapAxes np oS oD = [] := by
  unfold swapAxes; rw [h]; rfl

theorem swapAxes_cons (np oS oD : List Nat) (a : Nat) (rest : List Nat) (h : diffAxes np oS oD = a :: rest) :
    (swapAxes np oS oD).length ≠ 0 ∧ (swapAxes np oS oD).getD 0 0 = a ∧
    (swapAxes np oS oD).getD 1 0 = oS.idxOf (oD.getD a 0) ∧
    (swapAxes np oS oD).getD 2 0 = oD.idxOf (oS.getD a 0) := by
  unfold swapAxes; rw [h, List.flatMap_cons]
  exact ⟨by simp, rfl, rfl, rfl⟩

/-- value of `pairBs` when the two orderings agree on every distributed axis -/
theorem pairBs_nil (h : Handler) (c : List Nat) (n' i : Nat)
    (hd : diffAxes h.nprocs (h.layoutAt n').ord (h.layoutAt i).ord = []) :
    pairBs h c n' i = (h.layoutAt n').size c := by
  unfold pairBs
  simp only [swapAxes_nil _ _ _ hd]
  rfl

/-- value of `pairBs` when `a0` is the first distributed axis on which the orderings differ -/
theorem pairBs_cons (h : Handler) (c : List Nat) (n' i a0 : Nat) (rest : List Nat)
    (hd : diffAxes h.nprocs (h.layoutAt n').ord (h.layoutAt i).ord = a0 :: rest) :
    pairBs h c n' i =
      prodL ((((h.layoutAt n').shape c).set a0 ((h.layoutAt n').maxShape.getD a0 0)).set
        ((h.layoutAt n').ord.idxOf ((h.layoutAt i).ord.getD a0 0)) ((h.layoutAt i).maxShape.getD a0 0)) *
      h.nprocs.getD a0 1 := by
  obtain ⟨hl, h0, h1, _⟩ := swapAxes_cons _ _ _ _ _ hd
  have ha : a0 < h.nprocs.length := (mem_diffAxes.1 (by rw [hd]; exact List.mem_cons_self)).1
  unfold pairBs
  simp only [hl, h0, h1, ha, ne_eq, not_false_eq_true, if_true]

theorem getD_idxOf (l : List Nat) (d : Nat) (h : l.idxOf d < l.length) : l.getD (l.idxOf d) 0 = d := by
  rw [List.getD_eq_getElem?_getD, List.getElem?_eq_getElem h, Option.getD_some]
  exact List.getElem_idxOf h

/-- **later layout of a pair**: its block fits in the pair's `buffsize`.  Only hypothesis: the earlier layout has at
    least as many dimensions as there are process axes. -/
theorem size_le_pairBs_later (h : Handler) (c : List Nat) (n' i : Nat)
    (hnd : h.nprocs.length ≤ (h.layoutAt i).ndims) : (h.layoutAt n').size c ≤ pairBs h c n' i := by
  rcases hd : diffAxes h.nprocs (h.layoutAt n').ord (h.layoutAt i).ord with _ | ⟨a0, rest⟩
  · rw [pairBs_nil h c n' i hd]
  · rw [pairBs_cons h c n' i a0 rest hd]
    obtain ⟨ha, hp, hne⟩ := mem_diffAxes.1 (show a0 ∈ diffAxes _ _ _ by rw [hd]; exact List.mem_cons_self)
    have ha2 : a0 < (h.layoutAt i).ndims := by omega
    rw [size_eq, shape_eq]
    apply prod_le_swapped
    · omega
    · intro h0 _
      rw [maxShape_getD _ _ h0]
      exact blockLen_le_maxBlock _ _ _ (by rw [procsAt_layoutAt]; omega)
    · intro h1
      rw [maxShape_getD _ _ ha2, procsAt_layoutAt]
      have he : (h.layoutAt n').extAt ((h.layoutAt n').ord.idxOf ((h.layoutAt i).ord.getD a0 0)) =
          (h.layoutAt i).extAt a0 := by
        unfold Layout.extAt
        rw [getD_idxOf _ _ h1]
        rfl
      unfold shp
      rw [he]
      exact Nat.le_trans (blockLen_le _ _ _) (le_maxBlock_mul _ _ (by omega))


/-! ### well-formed handlers; products over dimensions instead of axes -/

/-- what `LayoutHandler.__init__` / `Layout.__init__` assume of their arguments: every `dims_order` is a permutation of
    `range(ndims)` (`ndims = len(eta_grids)`), there are at most `ndims` process axes, every process count is ≥ 1 -/
structure WellFormed (h : Handler) : Prop where
  perm : ∀ i, i < h.nLayouts → (h.layoutAt i).ord.Perm (List.range h.ext.length)
  nprocs_le : h.nprocs.length ≤ h.ext.length
  procs_pos : ∀ p ∈ h.nprocs, 1 ≤ p

theorem getD_procs_pos (np : List Nat) (hpos : ∀ p ∈ np, 1 ≤ p) (a : Nat) : 1 ≤ np.getD a 1 := by
  rw [List.getD_eq_getElem?_getD]
  by_cases h : a < np.length
  · rw [List.getElem?_eq_getElem h, Option.getD_some]; exact hpos _ (List.getElem_mem h)
  · rw [List.getElem?_eq_none (by omega)]; exact Nat.le_refl _

theorem getD_procs_lt (np : List Nat) (a : Nat) (h : np.getD a 1 ≠ 1) : a < np.length := by
  by_contra hc
  apply h
  rw [List.getD_eq_getElem?_getD, List.getElem?_eq_none (by omega)]; rfl

section Perm
variable {n : Nat} {ord : List Nat} (hperm : ord.Perm (List.range n))
include hperm

theorem perm_length : ord.length = n := by rw [hperm.length_eq, List.length_range]

theorem perm_nodup : ord.Nodup := (hperm.nodup_iff).2 List.nodup_range

theorem perm_mem {d : Nat} : d ∈ ord ↔ d < n := by rw [hperm.mem_iff, List.mem_range]

theorem perm_getD_lt {k : Nat} (hk : k < n) : ord.getD k 0 < n := by
  have hk' : k < ord.length := by rw [perm_length hperm]; exact hk
  rw [List.getD_eq_getElem?_getD, List.getElem?_eq_getElem hk', Option.getD_some]
  exact (perm_mem hperm).1 (List.getElem_mem hk')

theorem perm_idxOf_lt {d : Nat} (hd : d < n) : ord.idxOf d < n := by
  have := List.idxOf_lt_length_of_mem ((perm_mem hperm).2 hd)
  rwa [perm_length hperm] at this

theorem perm_getD_idxOf {d : Nat} (hd : d < n) : ord.getD (ord.idxOf d) 0 = d :=
  getD_idxOf _ _ (by rw [perm_length hperm]; exact perm_idxOf_lt hperm hd)

theorem perm_idxOf_getD {k : Nat} (hk : k < n) : ord.idxOf (ord.getD k 0) = k := by
  have hk' : k < ord.length := by rw [perm_length hperm]; exact hk
  rw [List.getD_eq_getElem?_getD, List.getElem?_eq_getElem hk', Option.getD_some]
  exact (perm_nodup hperm).idxOf_getElem k hk'

/-- a product over the axes of a layout is the product over the dimensions, each taken at the axis that stores it -/
theorem prod_reindex (s : Nat → Nat) :
    ∏ k ∈ Finset.range n, s k = ∏ d ∈ Finset.range n, s (ord.idxOf d) := by
  refine Finset.prod_nbij' (fun k => ord.getD k 0) (fun d => ord.idxOf d) ?_ ?_ ?_ ?_ ?_
  · intro k hk; exact Finset.mem_range.2 (perm_getD_lt hperm (Finset.mem_range.1 hk))
  · intro d hd; exact Finset.mem_range.2 (perm_idxOf_lt hperm (Finset.mem_range.1 hd))
  · intro k hk; exact perm_idxOf_getD hperm (Finset.mem_range.1 hk)
  · intro d hd; exact perm_getD_idxOf hperm (Finset.mem_range.1 hd)
  · intro k hk; rw [perm_idxOf_getD hperm (Finset.mem_range.1 hk)]

end Perm

theorem size_eq_prod_dims (L : Layout) (c : List Nat) {n : Nat} (hperm : L.ord.Perm (List.range n)) :
    L.size c = ∏ d ∈ Finset.range n, shp L c (L.ord.idxOf d) := by
  have hn : L.ndims = n := perm_length hperm
  rw [size_eq, shape_eq, prodL_map_range, hn]
  exact prod_reindex hperm _

/-- a dimension that is not touched by any differing distributed axis has the same local extent in both layouts -/
theorem shp_eq_of_unswapped (h : Handler) (hw : WellFormed h) (c : List Nat) (n' i : Nat)
    (hn : n' < h.nLayouts) (hi : i < h.nLayouts) (d : Nat) (hd : d < h.ext.length)
    (hun : ∀ k ∈ diffAxes h.nprocs (h.layoutAt n').ord (h.layoutAt i).ord,
      (h.layoutAt n').ord.getD k 0 ≠ d ∧ (h.layoutAt i).ord.getD k 0 ≠ d) :
    shp (h.layoutAt n') c ((h.layoutAt n').ord.idxOf d) = shp (h.layoutAt i) c ((h.layoutAt i).ord.idxOf d) := by
  have p1 := hw.perm n' hn
  have p2 := hw.perm i hi
  generalize hk1 : (h.layoutAt n').ord.idxOf d = k1
  generalize hk2 : (h.layoutAt i).ord.idxOf d = k2
  have e1 : (h.layoutAt n').ord.getD k1 0 = d := by rw [← hk1]; exact perm_getD_idxOf p1 hd
  have e2 : (h.layoutAt i).ord.getD k2 0 = d := by rw [← hk2]; exact perm_getD_idxOf p2 hd
  have l1 : k1 < h.ext.length := by rw [← hk1]; exact perm_idxOf_lt p1 hd
  have l2 : k2 < h.ext.length := by rw [← hk2]; exact perm_idxOf_lt p2 hd
  have hx1 : (h.layoutAt n').extAt k1 = h.ext.getD d 0 := by unfold Layout.extAt; rw [e1]; rfl
  have hx2 : (h.layoutAt i).extAt k2 = h.ext.getD d 0 := by unfold Layout.extAt; rw [e2]; rfl
  unfold shp
  rw [hx1, hx2, procsAt_layoutAt, procsAt_layoutAt]
  by_cases hkk : k1 = k2
  · rw [hkk]
  · -- neither axis is distributed
    have q1 : h.nprocs.getD k1 1 = 1 := by
      by_contra hq
      have hlt := getD_procs_lt _ _ hq
      have hpos := getD_procs_pos _ hw.procs_pos k1
      by_cases hne : (h.layoutAt n').ord.getD k1 0 = (h.layoutAt i).ord.getD k1 0
      · apply hkk
        rw [← hk2, ← e1, hne]
        exact (perm_idxOf_getD p2 l1).symm
      · exact (hun k1 (mem_diffAxes.2 ⟨hlt, by omega, hne⟩)).1 e1
    have q2 : h.nprocs.getD k2 1 = 1 := by
      by_contra hq
      have hlt := getD_procs_lt _ _ hq
      have hpos := getD_procs_pos _ hw.procs_pos k2
      by_cases hne : (h.layoutAt n').ord.getD k2 0 = (h.layoutAt i).ord.getD k2 0
      · apply hkk
        rw [← hk1, ← e2, ← hne]
        exact perm_idxOf_getD p1 l2
      · exact (hun k2 (mem_diffAxes.2 ⟨hlt, by omega, hne⟩)).2 e2
    rw [q1, q2, blockLen_one, blockLen_one]

/-- **earlier layout of a compatible pair** (and the later one again): its block fits in the pair's `buffsize` -/
theorem size_le_pairBs_earlier (h : Handler) (hw : WellFormed h) (c : List Nat) (n' i : Nat)
    (hn : n' < h.nLayouts) (hi : i < h.nLayouts) (hc : pairCompat h n' i = true) :
    (h.layoutAt i).size c ≤ pairBs h c n' i := by
  have p1 := hw.perm n' hn
  have p2 := hw.perm i hi
  have hnd1 : (h.layoutAt n').ndims = h.ext.length := perm_length p1
  rcases hd : diffAxes h.nprocs (h.layoutAt n').ord (h.layoutAt i).ord with _ | ⟨a0, rest⟩
  · rw [pairBs_nil h c n' i hd, size_eq_prod_dims _ c p1, size_eq_prod_dims _ c p2]
    apply Nat.le_of_eq
    apply Finset.prod_congr rfl
    intro d hdm
    refine (shp_eq_of_unswapped h hw c n' i hn hi d (Finset.mem_range.1 hdm) ?_).symm
    intro k hk; rw [hd] at hk; cases hk
  · have hrest : rest = [] := by
      unfold pairCompat compatible at hc
      rw [hd] at hc
      simp only [List.length_cons, decide_eq_true_eq] at hc
      exact List.eq_nil_of_length_eq_zero (by omega)
    subst hrest
    obtain ⟨ha, hp, hne⟩ := mem_diffAxes.1 (show a0 ∈ diffAxes _ _ _ by rw [hd]; exact List.mem_cons_self)
    have ha' : a0 < h.ext.length := Nat.lt_of_lt_of_le ha hw.nprocs_le
    rw [pairBs_cons h c n' i a0 [] hd, shape_eq, map_range_set, map_range_set, prodL_map_range, hnd1,
      prod_reindex p1, size_eq_prod_dims _ c p2]
    generalize hdA : (h.layoutAt n').ord.getD a0 0 = dA at *
    generalize hdB : (h.layoutAt i).ord.getD a0 0 = dB at *
    generalize hp' : h.nprocs.getD a0 1 = p at *
    have hdAlt : dA < h.ext.length := by rw [← hdA]; exact perm_getD_lt p1 ha'
    have hdBlt : dB < h.ext.length := by rw [← hdB]; exact perm_getD_lt p2 ha'
    have i1A : (h.layoutAt n').ord.idxOf dA = a0 := by rw [← hdA]; exact perm_idxOf_getD p1 ha'
    have i2B : (h.layoutAt i).ord.idxOf dB = a0 := by rw [← hdB]; exact perm_idxOf_getD p2 ha'
    have hx : (h.layoutAt n').maxShape.getD a0 0 = maxBlock (h.ext.getD dA 0) p := by
      rw [maxShape_getD _ _ (by rw [hnd1]; exact ha'), procsAt_layoutAt, hp']
      unfold Layout.extAt; rw [hdA]; rfl
    have hy : (h.layoutAt i).maxShape.getD a0 0 = maxBlock (h.ext.getD dB 0) p := by
      rw [maxShape_getD _ _ (by rw [show (h.layoutAt i).ndims = h.ext.length from perm_length p2]; exact ha'),
        procsAt_layoutAt, hp']
      unfold Layout.extAt; rw [hdB]; rfl
    rw [hx, hy]
    calc ∏ d ∈ Finset.range h.ext.length, shp (h.layoutAt i) c ((h.layoutAt i).ord.idxOf d)
        ≤ ∏ d ∈ Finset.range h.ext.length,
            ((if (h.layoutAt n').ord.idxOf d = (h.layoutAt n').ord.idxOf dB then maxBlock (h.ext.getD dB 0) p
              else if (h.layoutAt n').ord.idxOf d = a0 then maxBlock (h.ext.getD dA 0) p
              else shp (h.layoutAt n') c ((h.layoutAt n').ord.idxOf d)) * (if d = dA then p else 1)) := by
          apply Finset.prod_le_prod'
          intro d hdm
          have hdlt : d < h.ext.length := Finset.mem_range.1 hdm
          by_cases eA : d = dA
          · -- the dimension that was distributed in the later layout: full extent in the earlier one
            subst eA
            have hne1 : ¬ (h.layoutAt n').ord.idxOf d = (h.layoutAt n').ord.idxOf dB := by
              intro e
              have := congrArg (fun k => (h.layoutAt n').ord.getD k 0) e
              simp only [perm_getD_idxOf p1 hdlt, perm_getD_idxOf p1 hdBlt] at this
              exact hne this
            rw [if_neg hne1, if_pos i1A, if_pos rfl]
            have hle : shp (h.layoutAt i) c ((h.layoutAt i).ord.idxOf d) ≤ h.ext.getD d 0 := by
              unfold shp Layout.extAt
              rw [perm_getD_idxOf p2 hdlt]
              exact blockLen_le _ _ _
            exact Nat.le_trans hle (le_maxBlock_mul _ _ (by omega))
          · by_cases eB : d = dB
            · -- the dimension that is distributed in the earlier layout
              subst eB
              rw [if_pos rfl, if_neg eA, Nat.mul_one, i2B]
              unfold shp
              rw [procsAt_layoutAt, hp']
              have : (h.layoutAt i).extAt a0 = h.ext.getD d 0 := by unfold Layout.extAt; rw [hdB]; rfl
              rw [this]
              exact blockLen_le_maxBlock _ _ _ (by omega)
            · have hne1 : ¬ (h.layoutAt n').ord.idxOf d = (h.layoutAt n').ord.idxOf dB := by
                intro e
                have := congrArg (fun k => (h.layoutAt n').ord.getD k 0) e
                simp only [perm_getD_idxOf p1 hdlt, perm_getD_idxOf p1 hdBlt] at this
                exact eB this
              have hne0 : ¬ (h.layoutAt n').ord.idxOf d = a0 := by
                intro e
                have := congrArg (fun k => (h.layoutAt n').ord.getD k 0) e
                simp only [perm_getD_idxOf p1 hdlt, hdA] at this
                exact eA this
              rw [if_neg hne1, if_neg hne0, if_neg eA, Nat.mul_one]
              apply Nat.le_of_eq
              refine (shp_eq_of_unswapped h hw c n' i hn hi d hdlt ?_).symm
              intro k hk
              rw [hd, List.mem_singleton] at hk
              subst hk
              rw [hdA, hdB]
              exact ⟨fun e => eA e.symm, fun e => eB e.symm⟩
      _ = (∏ d ∈ Finset.range h.ext.length,
            (if (h.layoutAt n').ord.idxOf d = (h.layoutAt n').ord.idxOf dB then maxBlock (h.ext.getD dB 0) p
              else if (h.layoutAt n').ord.idxOf d = a0 then maxBlock (h.ext.getD dA 0) p
              else shp (h.layoutAt n') c ((h.layoutAt n').ord.idxOf d))) *
            ∏ d ∈ Finset.range h.ext.length, (if d = dA then p else 1) := Finset.prod_mul_distrib
      _ ≤ _ := Nat.mul_le_mul_left _ (prod_ite_le _ dA p (by omega))


/-! ### the running value of the buffer size never decreases -/

/-- `self._buffer_size` after the first `m` iterations of the outer loop -/
def runBs (h : Handler) (c : List Nat) (m : Nat) : Nat :=
  (List.range m).foldl (outerStep h c) ((h.layoutAt 0).size c)

theorem runBs_final (h : Handler) (c : List Nat) : runBs h c h.nLayouts = h.bufferSize c := rfl

theorem runBs_succ (h : Handler) (c : List Nat) (m : Nat) : runBs h c (m + 1) = outerStep h c (runBs h c m) m := by
  unfold runBs; rw [List.range_succ, List.foldl_append]; rfl

theorem runBs_mono (h : Handler) (c : List Nat) {m m' : Nat} (hm : m ≤ m') : runBs h c m ≤ runBs h c m' := by
  induction m' with
  | zero => have : m = 0 := by omega
            subst this; exact Nat.le_refl _
  | succ k ih =>
    rcases Nat.lt_or_ge m (k + 1) with hlt | hge
    · rw [runBs_succ]; exact Nat.le_trans (ih (by omega)) (outerStep_infl h c _ _)
    · have : m = k + 1 := by omega
      subst this; exact Nat.le_refl _

/-! ### direct connections -/

theorem mem_connections (h : Handler) (i j : Nat) (hi : i < h.nLayouts) :
    j ∈ h.connections.getD i [] ↔
      j < h.nLayouts ∧ j ≠ i ∧
        compatible h.nprocs (h.layoutAt (max i j)).ord (h.layoutAt (min i j)).ord = true := by
  unfold Handler.connections connectionsOf
  simp only [List.getD_eq_getElem?_getD, List.getElem?_map, List.getElem?_range hi, Option.map_some,
    Option.getD_some, List.mem_filter, List.mem_range, Bool.and_eq_true, decide_eq_true_eq]
  rfl

/-- a handler the constructor accepts (`_makeConnectionMap` found every layout from every other one) has no layout
    without a direct connection, unless it has a single layout -/
theorem connections_ne_nil_of_accepted (h : Handler) (order : List Nat) (hfull : (h.routes order).2 = true)
    (i : Nat) (hi0 : 0 < i) (hi : i < h.nLayouts) : h.connections.getD i [] ≠ [] := by
  have hi' : i < h.names.length := hi
  have hn : h.names.length ≠ 1 := by omega
  have hc : RouteValid.ConnOK h.connections h.names.length := by
    unfold Handler.connections Handler.nLayouts
    exact RouteValid.connectionsOf_ok _ _
  have hv := (RouteValid.routes_valid_of_connected h.names h.connections order hc hn hfull i 0 hi' (by omega) (by omega)).1
  obtain ⟨hne, hpath, _⟩ := hv
  intro hnil
  cases hr : (routeMap h.names h.connections order).1.r i 0 with
  | nil => exact hne hr
  | cons b rest =>
    rw [hr] at hpath
    have hadj : b ∈ h.connections.getD i [] := hpath.1
    rw [hnil] at hadj
    cases hadj

/-- every layout that is the first one or has a direct connection fits in the buffer -/
theorem size_le_bufferSize (h : Handler) (hw : WellFormed h) (c : List Nat) (i : Nat) (hi : i < h.nLayouts)
    (hconn : 0 < i → h.connections.getD i [] ≠ []) : (h.layoutAt i).size c ≤ h.bufferSize c := by
  rcases Nat.eq_zero_or_pos i with rfl | hpos
  · exact bufferSize_ge_init h c
  · obtain ⟨j, hj⟩ := List.exists_mem_of_ne_nil _ (hconn hpos)
    obtain ⟨hjn, hji, hcomp⟩ := (mem_connections h i j hi).1 hj
    rcases Nat.lt_or_ge j i with hlt | hge
    · -- `i` is the later layout of the pair
      rw [Nat.max_eq_left (Nat.le_of_lt hlt), Nat.min_eq_right (Nat.le_of_lt hlt)] at hcomp
      have hnd : h.nprocs.length ≤ (h.layoutAt j).ndims := by
        rw [show (h.layoutAt j).ndims = h.ext.length from perm_length (hw.perm j hjn)]; exact hw.nprocs_le
      exact Nat.le_trans (size_le_pairBs_later h c i j hnd) (bufferSize_ge_pairBs h c i j hlt hi hcomp)
    · -- `i` is the earlier layout of the pair
      have hlt : i < j := by omega
      rw [Nat.max_eq_right (Nat.le_of_lt hlt), Nat.min_eq_left (Nat.le_of_lt hlt)] at hcomp
      exact Nat.le_trans (size_le_pairBs_earlier h hw c j i hjn hi hcomp) (bufferSize_ge_pairBs h c j i hlt hjn hcomp)


end PygyroVerif.BufferSize
