/-
Bridge theorem of C03 (`Swapper.crossStep`, Model/Swapper.lean), part 1: what ONE rank does in a direct step between
layouts of two different handlers.  Nothing here mentions the swapper: the two layouts are `Layout.make npS oS ext` and
`Layout.make npD oD ext` with their own process counts and their own coordinates `cS`, `cD` of the rank.

* a single-axis numpy slice `v[..., a:b, ...]` of a labelled view (`DView`) in the all-axes form `sliceD`;
* `equal_rank_correct`: every dimension has the same local extent and start in both layouts → `dst[:] = src.transpose`;
* `scatter_rank_correct`: the same except for one dimension `A` of which the destination keeps a sub-range →
  `dst[:] = src[..., st:st+len, ...].transpose`;
* the receive buffer of `Allgather` (`agRecv`).
-/
import PygyroVerif.Lemmas.DirectStepRearrange
import PygyroVerif.Lemmas.DirectStep

namespace PygyroVerif.CS
open PygyroVerif PygyroVerif.Handler PygyroVerif.CopyBox PygyroVerif.DS

/-! ### slices of one axis -/

/-- the slice `[0 : extent]` on every axis except the axis of dimension `A`, which gets `r` -/
def oneRng (sh : Nat → Nat) (A : Nat) (r : Nat × Nat) : Nat → Nat × Nat := fun d => if d = A then r else (0, sh d)

theorem sum_map_ite_single (l : List Nat) (hnd : l.Nodup) (A : Nat) (hA : A ∈ l) (f : Nat → Nat)
    (hf : ∀ d ∈ l, d ≠ A → f d = 0) : (l.map f).sum = f A := by
  induction l with
  | nil => cases hA
  | cons x xs ih =>
    have hnd' := List.nodup_cons.mp hnd
    rw [List.map_cons, List.sum_cons]
    by_cases hx : x = A
    · subst hx
      have : (xs.map f).sum = 0 := by
        apply List.sum_eq_zero
        intro y hy
        obtain ⟨d, hd, rfl⟩ := List.mem_map.mp hy
        exact hf d (List.mem_cons_of_mem _ hd) (fun e => hnd'.1 (e ▸ hd))
      omega
    · have hAxs : A ∈ xs := by
        rcases List.mem_cons.mp hA with h | h
        · exact absurd h.symm hx
        · exact h
      rw [ih hnd'.2 hAxs (fun d hd => hf d (List.mem_cons_of_mem _ hd)), hf x (by simp) hx]
      omega

/-- `v[..., a:b, ...]` on the axis `k` of a labelled view is `sliceD` with the trivial slice on all other axes -/
theorem toView_slice_one (D : DView) (hnd : D.lab.Nodup) (k : Nat) (hk : k < D.lab.length) (a b : Nat) :
    D.toView.slice k a b = (D.sliceD (oneRng D.sh (D.lab.getD k 0) (a, b))).toView := by
  have hmem : D.lab.getD k 0 ∈ D.lab := by rw [getD_lt D.lab k hk 0]; exact List.getElem_mem _
  rw [DView.toView_slice D hnd k hk a b (D.lab.getD k 0) rfl (D.sh (D.lab.getD k 0)) rfl]
  unfold DView.toView DView.sliceD
  simp only [View.mk.injEq, and_true]
  constructor
  · congr 1
    rw [sum_map_ite_single D.lab hnd _ hmem]
    · simp only [oneRng, if_true]
    · intro d _ hne
      simp only [oneRng, if_neg hne, DView.cLo, Nat.zero_min, Nat.zero_mul]
  · apply List.map_congr_left
    intro d _
    by_cases hd : d = D.lab.getD k 0
    · subst hd; simp only [Function.update_self, oneRng, if_true]
    · rw [Function.update_of_ne hd]
      simp only [oneRng, if_neg hd, DView.cLo, DView.cHi, Nat.zero_min, Nat.min_self, Nat.sub_zero]

/-- re-labelling the axes of a trivially sliced view -/
theorem sliceD_trivial_relabel (D : DView) (lab' : List Nat) :
    ({ D.sliceD (fun d => (0, D.sh d)) with lab := lab' } : DView).toView = ({ D with lab := lab' } : DView).toView := by
  unfold DView.sliceD DView.toView
  have h0 : (D.lab.map (fun d => DView.cLo (D.sh d) (0, D.sh d) * D.g d)).sum = 0 := by
    apply List.sum_eq_zero
    intro x hx
    obtain ⟨d, _, rfl⟩ := List.mem_map.mp hx
    simp [DView.cLo]
  simp only [h0, Nat.add_zero, View.mk.injEq, true_and, and_true]
  apply List.map_congr_left
  intro d _
  simp [DView.cHi, DView.cLo]

/-! ### order lists -/

/-- `dims_order` is a permutation of `0 .. ndims-1` -/
def OrdOK (o : List Nat) : Prop := o.Perm (List.range o.length)

instance (o : List Nat) : Decidable (OrdOK o) := by unfold OrdOK; infer_instance

theorem OrdOK.nodup {o : List Nat} (h : OrdOK o) : o.Nodup := (List.Perm.nodup_iff h).mpr List.nodup_range
theorem OrdOK.mem_iff {o : List Nat} (h : OrdOK o) (d : Nat) : d ∈ o ↔ d < o.length := by
  rw [List.Perm.mem_iff h, List.mem_range]
theorem OrdOK.perm {oS oD : List Nat} (hS : OrdOK oS) (hD : OrdOK oD) (hlen : oS.length = oD.length) : oD.Perm oS := by
  have h := hD
  unfold OrdOK at h
  rw [← hlen] at h
  exact h.trans hS.symm

variable {α : Type} [Inhabited α]

/-! ### the equal case on one rank -/

/-- **equal numbers of distributed directions, one rank** (`_transpose` :1291-1303): if every dimension has the same local
    extent and the same start in the source layout (coordinates `cS`) and the destination layout (coordinates `cD`), then
    `dest.reshape(shapeD)[:] = source.reshape(shapeS).transpose(...)` raises nothing and leaves in `dest` the block of
    the destination layout. -/
theorem equal_rank_correct (npS npD oS oD ext cS cD : List Nat) (hS : OrdOK oS) (hD : OrdOK oD)
    (hlen : oS.length = oD.length)
    (hsame : ∀ d ∈ oD, lenD (Layout.make npS oS ext) cS d = lenD (Layout.make npD oD ext) cD d ∧
      startD (Layout.make npS oS ext) cS d = startD (Layout.make npD oD ext) cD d)
    (G : List Nat → α) (src dst : Array α)
    (hsrc : HoldsBlock (Layout.make npS oS ext) cS G src)
    (hdst : ((Layout.make npD oD ext).shape cD).prod ≤ dst.size) :
    ∃ sv dv out,
      View.chunk src.size 0 ((Layout.make npS oS ext).shape cS) = some sv ∧
      View.chunk dst.size 0 ((Layout.make npD oD ext).shape cD) = some dv ∧
      assignView dst dv src (sv.transpose (oD.map (fun d => oS.idxOf d))) = some out ∧
      out.size = dst.size ∧ HoldsBlock (Layout.make npD oD ext) cD G out := by
  have hndS := hS.nodup
  have hndD := hD.nodup
  set LS := Layout.make npS oS ext with hLS
  set LD := Layout.make npD oD ext with hLD
  have hmemS : ∀ d, d < LS.ndims → d ∈ LS.ord := fun d hd => (hS.mem_iff d).mpr hd
  have hmemD : ∀ d, d < LD.ndims → d ∈ LD.ord := fun d hd => (hD.mem_iff d).mpr hd
  have hshS : LS.shape cS = oS.map (lenD LS cS) := shape_eq_map LS hndS cS
  have hshD : LD.shape cD = oD.map (lenD LD cD) := shape_eq_map LD hndD cD
  have hperm : oD.Perm oS := OrdOK.perm hS hD hlen
  have hfitS : 0 + (oS.map (lenD LS cS)).prod ≤ src.size := by
    rw [← hshS, Nat.zero_add]; exact holdsBlock_size LS cS G src hsrc
  have hfitD : (oD.map (lenD LD cD)).prod ≤ dst.size := by rw [← hshD]; exact hdst
  obtain ⟨out, hassign, hsize, hget⟩ := rearrFast_core oD oS hndD hndS hperm (lenD LD cD) (lenD LS cS) src dst
    (fun d hd => (hsame d hd).1) hfitD
  refine ⟨(DView.chunkD 0 oS (lenD LS cS)).toView, (DView.chunkD 0 oD (lenD LD cD)).toView, out, ?_, ?_, hassign, hsize, ?_⟩
  · rw [hshS]; exact DView.chunk_toView src.size 0 oS hndS _ hfitS
  · rw [hshD]; exact DView.chunk_toView dst.size 0 oD hndD _ (by rw [Nat.zero_add]; exact hfitD)
  · rw [holdsBlock_iff LD hndD hmemD]
    intro u hu
    have h1 := hget u hu
    show out[Addr.ravelD oD u (lenD LD cD)]? = _
    rw [h1]
    have huS : ∀ d ∈ LS.ord, u d < lenD LS cS d := by
      intro d hd
      have hdD : d ∈ oD := (hperm.mem_iff).mpr hd
      rw [(hsame d hdD).1]; exact hu d hdD
    have h2 := (holdsBlock_iff LS hndS hmemS cS G src).mp hsrc u huS
    have h3 : Addr.ravelD LS.ord u (lenD LS cS) = Addr.ravelD oS u (lenD LS cS) := rfl
    rw [h3] at h2
    rw [Array.getD_eq_getD_getElem?, h2, Option.getD_some]
    congr 2
    have hnd : LS.ndims = LD.ndims := hlen
    rw [hnd]
    apply List.map_congr_left
    intro d hd
    rw [(hsame d (hmemD d (List.mem_range.mp hd))).2]

/-! ### the scatter case on one rank -/

/-- **destination more distributed, one rank** (`_transpose` :1305-1330): every dimension except `A` has the same local
    extent and start in both layouts; of dimension `A` the destination block is the sub-range `[st, st+len)` of the
    source block.  Then `dest.reshape(shapeD)[:] = source.reshape(shapeS)[..., st:st+len, ...].transpose(...)` raises
    nothing and leaves in `dest` the block of the destination layout. -/
theorem scatter_rank_correct (npS npD oS oD ext cS cD : List Nat) (hS : OrdOK oS) (hD : OrdOK oD)
    (hlen : oS.length = oD.length) (A : Nat) (hA : A ∈ oD) (st len : Nat)
    (hsame : ∀ d ∈ oD, d ≠ A → lenD (Layout.make npS oS ext) cS d = lenD (Layout.make npD oD ext) cD d ∧
      startD (Layout.make npS oS ext) cS d = startD (Layout.make npD oD ext) cD d)
    (hAlen : lenD (Layout.make npD oD ext) cD A = len)
    (hAst : startD (Layout.make npD oD ext) cD A = startD (Layout.make npS oS ext) cS A + st)
    (hAfit : st + len ≤ lenD (Layout.make npS oS ext) cS A)
    (G : List Nat → α) (src dst : Array α)
    (hsrc : HoldsBlock (Layout.make npS oS ext) cS G src)
    (hdst : ((Layout.make npD oD ext).shape cD).prod ≤ dst.size) :
    ∃ sv dv out,
      View.chunk src.size 0 ((Layout.make npS oS ext).shape cS) = some sv ∧
      View.chunk dst.size 0 ((Layout.make npD oD ext).shape cD) = some dv ∧
      assignView dst dv src ((sv.slice (oS.idxOf A) st (st + len)).transpose (oD.map (fun d => oS.idxOf d))) = some out ∧
      out.size = dst.size ∧ HoldsBlock (Layout.make npD oD ext) cD G out := by
  have hndS := hS.nodup
  have hndD := hD.nodup
  set LS := Layout.make npS oS ext with hLS
  set LD := Layout.make npD oD ext with hLD
  have hmemS : ∀ d, d < LS.ndims → d ∈ LS.ord := fun d hd => (hS.mem_iff d).mpr hd
  have hmemD : ∀ d, d < LD.ndims → d ∈ LD.ord := fun d hd => (hD.mem_iff d).mpr hd
  have hshS : LS.shape cS = oS.map (lenD LS cS) := shape_eq_map LS hndS cS
  have hshD : LD.shape cD = oD.map (lenD LD cD) := shape_eq_map LD hndD cD
  have hperm : oD.Perm oS := OrdOK.perm hS hD hlen
  have hAS : A ∈ oS := (hperm.mem_iff).mp hA
  have hfitS : 0 + (oS.map (lenD LS cS)).prod ≤ src.size := by
    rw [← hshS, Nat.zero_add]; exact holdsBlock_size LS cS G src hsrc
  have hfitD : 0 + (oD.map (lenD LD cD)).prod ≤ dst.size := by rw [← hshD, Nat.zero_add]; exact hdst
  set rngD : Nat → Nat × Nat := fun d => (0, lenD LD cD d) with hrngD
  set rngS : Nat → Nat × Nat := oneRng (lenD LS cS) A (st, st + len) with hrngS
  obtain ⟨out, hassign, hsize, hget, _⟩ := assign_sliced_chunks dst src 0 oD (lenD LD cD) rngD 0 oS (lenD LS cS) rngS
    hndD hndS hperm
    (fun d _ => ⟨Nat.zero_le _, Nat.le_refl _⟩)
    (fun d hd => by
      by_cases hdA : d = A
      · subst hdA; simp only [hrngS, oneRng, if_true]; exact ⟨by omega, hAfit⟩
      · simp only [hrngS, oneRng, if_neg hdA]; exact ⟨Nat.zero_le _, Nat.le_refl _⟩)
    (fun d hd => by
      by_cases hdA : d = A
      · subst hdA; simp only [hrngS, hrngD, oneRng, if_true]; omega
      · simp only [hrngS, hrngD, oneRng, if_neg hdA, Nat.sub_zero]; exact (hsame d hd hdA).1)
    hfitD
  refine ⟨(DView.chunkD 0 oS (lenD LS cS)).toView, (DView.chunkD 0 oD (lenD LD cD)).toView, out, ?_, ?_, ?_, hsize, ?_⟩
  · rw [hshS]; exact DView.chunk_toView src.size 0 oS hndS _ hfitS
  · rw [hshD]; exact DView.chunk_toView dst.size 0 oD hndD _ hfitD
  · have hk : oS.idxOf A < (DView.chunkD 0 oS (lenD LS cS)).lab.length := List.idxOf_lt_length_iff.mpr hAS
    have hg : (DView.chunkD 0 oS (lenD LS cS)).lab.getD (oS.idxOf A) 0 = A := getD_idxOf oS A hAS
    rw [toView_slice_one _ hndS _ hk, hg]
    have htr := DView.toView_transpose_idxOf ((DView.chunkD 0 oS (lenD LS cS)).sliceD rngS) oD
      (fun d hd => (hperm.mem_iff).mp hd)
    rw [show ((DView.chunkD 0 oS (lenD LS cS)).sliceD rngS).lab = oS from rfl] at htr
    rw [show (DView.chunkD 0 oS (lenD LS cS)).sh = lenD LS cS from rfl, htr]
    rw [← DView.sliceD_trivial (DView.chunkD 0 oD (lenD LD cD))]
    exact hassign
  · rw [holdsBlock_iff LD hndD hmemD]
    intro u hu
    have h1 := hget u (fun d hd => by simp only [hrngD, Nat.sub_zero]; exact hu d hd)
    simp only [hrngD, Nat.zero_add] at h1
    show out[Addr.ravelD oD u (lenD LD cD)]? = _
    rw [h1]
    have huS : ∀ d ∈ LS.ord, (rngS d).1 + u d < lenD LS cS d := by
      intro d hd
      have hdD : d ∈ oD := (hperm.mem_iff).mpr hd
      have := hu d hdD
      by_cases hdA : d = A
      · subst hdA; simp only [hrngS, oneRng, if_true]; omega
      · simp only [hrngS, oneRng, if_neg hdA, Nat.zero_add]; rw [(hsame d hdD hdA).1]; exact this
    have h2 := (holdsBlock_iff LS hndS hmemS cS G src).mp hsrc _ huS
    have h3 : Addr.ravelD LS.ord (fun d => (rngS d).1 + u d) (lenD LS cS) =
        Addr.ravelD oS (fun d => (rngS d).1 + u d) (lenD LS cS) := rfl
    rw [h3] at h2
    rw [Array.getD_eq_getD_getElem?, h2, Option.getD_some]
    congr 2
    have hnd : LS.ndims = LD.ndims := hlen
    rw [hnd]
    apply List.map_congr_left
    intro d hd
    have hdD : d ∈ oD := hmemD d (List.mem_range.mp hd)
    by_cases hdA : d = A
    · subst hdA; simp only [hrngS, oneRng, if_true]; omega
    · simp only [hrngS, oneRng, if_neg hdA, Nat.zero_add]; rw [(hsame d hdD hdA).2]

/-! ### the receive buffer of `Allgather` -/

/-- the receive buffer of one rank after `Allgather`: chunk `q` is the first `bs` cells of the send buffer `sb q` -/
def agRecv (p bs : Nat) (sb : Nat → Array α) (rcv0 : Array α) : Array α :=
  (List.range p).foldl (fun rb q =>
    (List.range bs).foldl (fun rb j => rb.setIfInBounds (q * bs + j) ((sb q).getD j default)) rb) rcv0

theorem agRecv_succ (p bs : Nat) (sb : Nat → Array α) (rcv0 : Array α) :
    agRecv (p+1) bs sb rcv0 = segWrite (agRecv p bs sb rcv0) (p * bs) (fun j => (sb p).getD j default) bs := by
  unfold agRecv segWrite
  rw [List.range_succ, List.foldl_append]
  rfl

theorem agRecv_size (p bs : Nat) (sb : Nat → Array α) (rcv0 : Array α) : (agRecv p bs sb rcv0).size = rcv0.size := by
  induction p with
  | zero => rfl
  | succ p ih => rw [agRecv_succ, segWrite_size, ih]

theorem agRecv_get (bs : Nat) (sb : Nat → Array α) (rcv0 : Array α) :
    ∀ p, p * bs ≤ rcv0.size → ∀ q, q < p → ∀ j, j < bs →
      (agRecv p bs sb rcv0)[q * bs + j]? = some ((sb q).getD j default) := by
  intro p
  induction p with
  | zero => intro _ q hq; omega
  | succ p ih =>
    intro hfit q hq j hj
    have hpc : (p + 1) * bs = p * bs + bs := by rw [Nat.add_mul, Nat.one_mul]
    rw [agRecv_succ, segWrite_get, agRecv_size]
    by_cases hqp : q = p
    · subst hqp
      have h1 : q * bs ≤ q * bs + j ∧ q * bs + j < q * bs + bs ∧ q * bs + j < rcv0.size := ⟨by omega, by omega, by omega⟩
      rw [if_pos h1]
      congr 3
      omega
    · have hqlt : q < p := by omega
      have : (q + 1) * bs ≤ p * bs := Nat.mul_le_mul_right _ hqlt
      rw [Nat.add_mul, Nat.one_mul] at this
      have h1 : ¬ (p * bs ≤ q * bs + j ∧ q * bs + j < p * bs + bs ∧ q * bs + j < rcv0.size) := by omega
      rw [if_neg h1]
      exact ih (by omega) q hqlt j hj

end PygyroVerif.CS
