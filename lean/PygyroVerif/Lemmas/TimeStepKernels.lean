/-
The operators of the time loop built from the kernel models of this framework, and the proof that they satisfy
`TimeStep.EquilibriumContracts` — from the property theorems C10, C11, C12, C13, C15, C16 — under the recorded contracts
of the third-party numerics (interpolation solves, `spsolve`, `numpy.linalg.solve`) and of the layout manager.

Contents are global arrays as functions of their indices: the distribution function `f r z θ v` (real), the potential and
the density `φ r z k`, `ρ r z k` (complex, `k : ZMod N` the poloidal index resp. the Fourier mode, `N = nθ`), the table of
parallel gradients `g r z θ` (real).  The grid-level loops (`gridStep`, `getPerturbedRho`, `solveEquation`, …) apply the
kernel to every slice with the parameters of the slice's own global coordinates (C05 `wiring_*`), which is how the operators
below are written.
-/
import PygyroVerif.Lemmas.TimeStep
import PygyroVerif.Props.C10
import PygyroVerif.Props.C11
import PygyroVerif.Props.C12
import PygyroVerif.Props.C13
import PygyroVerif.Props.C15
import PygyroVerif.Props.C16
import Mathlib.Algebra.Order.Archimedean.Real.Basic
import Mathlib.Data.Complex.Basic
import Mathlib.Tactic.IntervalCases
import Mathlib.Tactic.NormNum
import Mathlib.Tactic.Positivity

namespace PygyroVerif.TimeStep
open PygyroVerif.Ckpt Finset

noncomputable section

/-- contents of the distribution function: `f r z θ v` -/
abbrev DistF := ℕ → ℕ → ℕ → ℕ → ℝ
/-- contents of `phi` / `rho`: `φ r z k`, `k` the poloidal index or the Fourier mode -/
abbrev CGrid (N : ℕ) := ℕ → ℕ → ZMod N → ℂ
/-- contents of `parGradVals`: `g r z θ` -/
abbrev GradT := ℕ → ℕ → ℕ → ℝ

/-- everything the kernels are constructed with (`N` = number of poloidal points).  The functions standing for third-party
    numerics (`interp…`, `phiDr`, `phiDq`, `spsolve`, `fdCoeffs`) and for the layout manager are constrained by
    `KernelContracts` only. -/
structure Kernels (N : ℕ) where
  /-- extents in r, z, v -/
  nr : ℕ
  nz : ℕ
  nv : ℕ
  /-- the table `f_eq(r_i, v_l)` -/
  fEq : ℕ → ℕ → ℝ
  /-- layout manager and save memory, as maps on global contents -/
  relayoutF : Lay → Lay → DistF → DistF
  relayoutP : Lay → Lay → CGrid N → CGrid N
  relayoutR : Lay → Lay → CGrid N → CGrid N
  saveF : DistF → DistF
  restoreF : DistF → DistF
  /-- flux-surface advection: Lagrange points, `dz`, reference `z`, displacement `zDist r v = -v·bz·dt`, evaluation points
      `(θ_q + dθ·s_j) mod 2π` per `(r, v)`, the θ-interpolator, the scratch array -/
  nL : ℕ
  dz : ℝ
  zBase : ℝ
  zDist : ℕ → ℕ → ℝ
  fluxPts : ℕ → ℕ → ℕ → ℕ → ℝ
  interpθ : (ℕ → ℝ) → ℝ → ℝ
  scratch : ℕ → ℕ → ℕ → ℝ
  /-- parallel gradient: order, weights returned by `numpy.linalg.solve`, evaluation points per `r`, `bz(r)`, θ-interpolator -/
  order : ℕ
  fdCoeffs : ℕ → ℝ
  gradPts : ℕ → ℕ → ℕ → ℝ
  bz : ℕ → ℝ
  interpθPhi : (ℕ → ℝ) → ℝ → ℝ
  /-- v-parallel advection: boundary mode, v nodes, v-interpolator, the two step lengths, `r_i`, fuel of the periodic wrap,
      the function `f_eq(r, v)` behind the tag `Val.feq` -/
  edge : VParAdv.Edge
  vPts : ℕ → ℝ
  interpV : (ℕ → ℝ) → ℝ → ℝ
  dtOf : Stp → ℝ
  rVal : ℕ → ℝ
  fuel : ℕ
  feqFun : ℝ → ℝ → ℝ
  /-- poloidal advection (explicit trapezoidal scheme, the constructor's default): θ and r nodes, `B0`, `nulBound`,
      `% 2π`, the evaluators of ∂_r, ∂_θ of the potential's 2-D interpolant and of the 2-D interpolant of `f` -/
  qPts : ℕ → ℝ
  rPts : ℕ → ℝ
  B0 : ℝ
  nul : Bool
  wrap : ℝ → ℝ
  phiDr : (ℕ → ℕ → ℝ) → ℝ → ℝ → ℝ
  phiDq : (ℕ → ℕ → ℝ) → ℝ → ℝ → ℝ
  interpQR : (ℕ → ℕ → ℝ) → ℝ → ℝ → ℝ
  /-- density: quadrature coefficients -/
  quad : ℕ → ℝ
  /-- quasi-neutrality solver: assembled matrices, boundary configuration, collocation matrix of the radial
      interpolation, basis values at the radial nodes, the matrix handed to `spsolve` for mode `I`, the content of the
      coefficient buffer, `compute_interpolant`, `spsolve` -/
  A : Poisson.Assembled ℂ
  bc : Poisson.BCConfig
  colloc : ℕ → ℕ → ℂ
  V : ℕ → ℕ → ℂ
  modeMat : ℕ → ℕ → ℕ → ℂ
  coeffBuf : ℕ → ℂ
  interpR : (ℕ → ℂ) → ℕ → ℂ
  spsolve : ℕ → (ℕ → ℂ) → ℕ → ℂ

namespace Kernels
variable {N : ℕ} (Kn : Kernels N)

/-- number of unknowns of the mode-`I` system -/
def modeN (I : ℕ) : ℕ := (Poisson.coeffRange Kn.bc I).2 - (Poisson.coeffRange Kn.bc I).1

/-- `FluxSurfaceAdvection.gridStep`: for every `(r, v)` the kernel `step` on the `(θ, z)` slice, the rows interpolated in θ.
    (Rows are read at indices `< nz` only — C10 `flux_step_formula`.) -/
def fluxOp (f : DistF) : DistF := fun r z θ v =>
  FluxAdv.fluxStep Kn.nz Kn.nL (fun i => Kn.interpθ (fun q => f r (i % Kn.nz) q v)) (Kn.fluxPts r v)
    (FluxAdv.shifts (Kn.zDist r v) Kn.dz Kn.nL)
    (FluxAdv.lagrangeCoeffs Kn.zBase Kn.dz (Kn.zDist r v) Kn.nL (FluxAdv.shifts (Kn.zDist r v) Kn.dz Kn.nL))
    Kn.scratch θ z

/-- `parGrad.parallel_gradient(np.real(phi.get2DSlice(i)), i, parGradVals[i])` for every `r` -/
def gradOp (p : CGrid N) : GradT := fun r z θ =>
  ((ParGrad.parallelGradient Kn.nz Kn.order
      (fun i => Kn.interpθPhi (fun q => (p r (i % Kn.nz) (q : ZMod N)).re)) (Kn.gradPts r) Kn.fdCoeffs (Kn.bz r) Kn.dz).map
    (fun d => d z θ)).getD 0

/-- the number behind a stored value (`Val.feq r v` stands for `f_eq(r, v)`) -/
def valNum (feq : ℝ → ℝ → ℝ) : Option (VParAdv.Val ℝ) → ℝ
  | some (.num x) => x
  | some (.feq r v) => feq r v
  | none => 0

/-- the advection loop of `VParallelAdvection.gridStep`: for every `(r, z, θ)` the kernel `step` on the v line with
    `c = parGradVals[r, z, θ]` -/
def vparOp (d : Stp) (f : DistF) (g : GradT) : DistF := fun r z θ v =>
  valNum Kn.feqFun
    ((VParAdv.step (Kn.interpV (fun l => f r z θ l)) Kn.edge Kn.vPts Kn.nv (Kn.dtOf d) (g r z θ) (Kn.rVal r) Kn.fuel)[v]?).join

/-- the spline evaluators of the poloidal step for the slice `(z, v)` -/
def polEvals (f : DistF) (p : CGrid N) (z v : ℕ) : PolAdv.Evals ℝ :=
  { drPhi := Kn.phiDr (fun q r' => (p r' z (q : ZMod N)).re)
    dqPhi := Kn.phiDq (fun q r' => (p r' z (q : ZMod N)).re)
    fhat := Kn.interpQR (fun q r' => f r' z q v)
    wrap := Kn.wrap }

/-- `PoloidalAdvection.gridStep`: for every `(v, z)` the explicit kernel on the `(θ, r)` slice -/
def polOp (d : Stp) (f : DistF) (p : CGrid N) : DistF := fun r z θ v =>
  valNum Kn.feqFun
    (((PolAdv.explStep (Kn.polEvals f p z v) (PolAdv.mkParams (Kn.dtOf d) Kn.B0 (Kn.vPts v) Kn.rPts Kn.nr Kn.nul)
        Kn.qPts Kn.rPts N Kn.nr)[θ]?).bind (fun row => row[r]?))

/-- `DensityFinder.getPerturbedRho` (global call: block start `(0, 0)`), written into the complex grid -/
def rhoOp (f : DistF) : CGrid N := fun r z k =>
  ((Density.getPerturbedRhoLocal Kn.quad Kn.nv Kn.fEq f 0 0 r z k.val : ℝ) : ℂ)

open ZMod in
/-- `getModes`: the discrete Fourier transform of every θ line -/
def modesOp [NeZero N] (_Kn : Kernels N) (ρ : CGrid N) : CGrid N := fun r z => 𝓕 (ρ r z)

open ZMod in
/-- `findPotential`: the inverse transform of every line -/
def potentialOp [NeZero N] (_Kn : Kernels N) (φ : CGrid N) : CGrid N := fun r z => 𝓕⁻ (φ r z)

/-- `solveEquation`: for every mode `k` and every `z` interpolate the radial line of `rho`, solve the mode system, evaluate
    the coefficients at the radial nodes -/
def solveOp (ρ : CGrid N) : CGrid N := fun r z k =>
  Poisson.evalAt Kn.bc.nb Kn.V
    (Poisson.coeffsAfter Kn.coeffBuf Kn.bc.nb (Poisson.coeffRange Kn.bc k.val)
      (Kn.spsolve k.val (Poisson.modeRhs Kn.A Kn.bc k.val (Kn.interpR (fun i => ρ i z k))))) r

/-- the operators of the driver's calls -/
def ops [NeZero N] : Operators DistF (CGrid N) (CGrid N) GradT where
  relayoutF := Kn.relayoutF
  relayoutP := Kn.relayoutP
  relayoutR := Kn.relayoutR
  saveF := Kn.saveF
  restoreF := Kn.restoreF
  flux := Kn.fluxOp
  grad := Kn.gradOp
  vpar := Kn.vparOp
  pol := Kn.polOp
  rhoOf := Kn.rhoOp
  modes := Kn.modesOp
  solve := Kn.solveOp
  potential := Kn.potentialOp

/-- equilibrium / zero *on the grid* -/
def preds : Preds DistF (CGrid N) (CGrid N) GradT where
  IsEq := fun f => ∀ r z θ v, r < Kn.nr → z < Kn.nz → θ < N → v < Kn.nv → f r z θ v = Kn.fEq r v
  ZeroP := fun p => ∀ r z k, r < Kn.nr → z < Kn.nz → p r z k = 0
  ZeroR := fun p => ∀ r z k, r < Kn.nr → z < Kn.nz → p r z k = 0
  ZeroG := fun g => ∀ r z θ, r < Kn.nr → z < Kn.nz → θ < N → g r z θ = 0

end Kernels

/--
**What remains a hypothesis** when the operators are the kernel models: the contracts of the third-party numerics and of
the layout manager, and the well-formedness of the grids — nothing about the advection, gradient, density or solver
kernels themselves.
-/
structure KernelContracts {N : ℕ} (Kn : Kernels N) : Prop where
  /-- C01 / C03 / C04: a layout change, a save and a restore deliver the same global array (those theorems are about the
      index arithmetic of the transposes and the buffer rotation; here their conclusion on global contents) -/
  relayoutF_global : ∀ a b f, Kn.relayoutF a b f = f
  relayoutP_global : ∀ a b p, Kn.relayoutP a b p = p
  relayoutR_global : ∀ a b p, Kn.relayoutR a b p = p
  save_global : ∀ f, Kn.saveF f = f
  restore_global : ∀ f, Kn.restoreF f = f
  /-- the grid has z points; the flux advection has Lagrange points; `dz ≠ 0` -/
  nz_pos : 0 < Kn.nz
  nL_pos : 0 < Kn.nL
  dz_ne : Kn.dz ≠ 0
  /-- the θ-interpolant of constant data is that constant (C08 `interp_reproduces_1d` + C07 partition of unity; banded
      LAPACK solve) -/
  interpθ_const : ∀ (u : ℕ → ℝ) (C : ℝ), (∀ q, q < N → u q = C) → ∀ x, Kn.interpθ u x = C
  /-- `assert nz > order`; the finite-difference weights solve the moment system (`numpy.linalg.solve`) -/
  order_lt : Kn.order < Kn.nz
  moments : ParGrad.MomentSystem Kn.order Kn.fdCoeffs
  /-- the θ-interpolant of zero data is zero (linear solve) -/
  interpθPhi_zero : ∀ (u : ℕ → ℝ), (∀ q, q < N → u q = 0) → ∀ x, Kn.interpθPhi u x = 0
  /-- the v nodes lie between the first and the last one -/
  vPts_range : ∀ i, i < Kn.nv → Kn.vPts 0 ≤ Kn.vPts i ∧ Kn.vPts i ≤ Kn.vPts (Kn.nv - 1)
  /-- the v-interpolant reproduces the nodal values (C08 `interp_reproduces_1d`) -/
  interpV_nodes : ∀ (u : ℕ → ℝ) i, i < Kn.nv → Kn.interpV u (Kn.vPts i) = u i
  /-- the derivative evaluators of the 2-D interpolant of zero data vanish (linear solve, C08 `interp_reproduces_2d`) -/
  phiDr_zero : ∀ (u : ℕ → ℕ → ℝ), (∀ q r, q < N → r < Kn.nr → u q r = 0) → ∀ x y, Kn.phiDr u x y = 0
  phiDq_zero : ∀ (u : ℕ → ℕ → ℝ), (∀ q r, q < N → r < Kn.nr → u q r = 0) → ∀ x y, Kn.phiDq u x y = 0
  /-- the θ nodes are reduced angles; the r nodes lie between the first and the last one -/
  wrap_nodes : ∀ i, i < N → Kn.wrap (Kn.qPts i) = Kn.qPts i
  rPts_range : ∀ j, j < Kn.nr → Kn.rPts 0 ≤ Kn.rPts j ∧ Kn.rPts j ≤ Kn.rPts (Kn.nr - 1)
  /-- the 2-D interpolant of `f` reproduces the nodal values (C08 `interp_reproduces_2d_eval`) -/
  interpQR_nodes : ∀ (u : ℕ → ℕ → ℝ) i j, i < N → j < Kn.nr → Kn.interpQR u (Kn.qPts i) (Kn.rPts j) = u i j
  /-- the radial spline space has at least two basis functions and as many as radial nodes at most -/
  nb_ge : 2 ≤ Kn.bc.nb
  nb_le : Kn.bc.nb ≤ Kn.nr
  /-- `compute_interpolant` returns coefficients of the data; the collocation matrix is injective -/
  interpR_spec : ∀ (u : ℕ → ℂ) i, i < Kn.bc.nb → ∑ j ∈ range Kn.bc.nb, Kn.colloc i j * Kn.interpR u j = u i
  colloc_inj : ∀ c : ℕ → ℂ, (∀ i, i < Kn.bc.nb → ∑ j ∈ range Kn.bc.nb, Kn.colloc i j * c j = 0) →
    ∀ j, j < Kn.bc.nb → c j = 0
  /-- `spsolve` returns a solution; every mode system is well-posed -/
  spsolve_spec : ∀ I (rhs : ℕ → ℂ), Poisson.IsSol (Kn.modeN I) (Kn.modeMat I) rhs (Kn.spsolve I rhs)
  modeMat_inj : ∀ I (y : ℕ → ℂ), Poisson.IsSol (Kn.modeN I) (Kn.modeMat I) (fun _ => 0) y → ∀ a, a < Kn.modeN I → y a = 0

namespace Kernels
variable {N : ℕ} (Kn : Kernels N)

/-- C10 `flux_preserves_constants`, lifted to the grid -/
theorem flux_eq (h : KernelContracts Kn) (f : DistF) (hf : Kn.preds.IsEq f) : Kn.preds.IsEq (Kn.fluxOp f) := by
  intro r z θ v hr hz hθ hv
  exact C10.flux_preserves_constants h.nz_pos h.nL_pos Kn.zBase (Kn.zDist r v) h.dz_ne _ (Kn.fEq r v)
    (fun i x => h.interpθ_const _ _ (fun q hq => hf r (i % Kn.nz) q v hr (Nat.mod_lt _ h.nz_pos) hq hv) x)
    _ _ θ z hz

/-- C13 `pargrad_constants_zero`, lifted to the grid -/
theorem grad_zero (h : KernelContracts Kn) (p : CGrid N) (hp : Kn.preds.ZeroP p) : Kn.preds.ZeroG (Kn.gradOp p) := by
  intro r z θ hr hz _
  unfold gradOp
  cases hd : ParGrad.parallelGradient Kn.nz Kn.order
      (fun i => Kn.interpθPhi (fun q => (p r (i % Kn.nz) (q : ZMod N)).re)) (Kn.gradPts r) Kn.fdCoeffs (Kn.bz r) Kn.dz with
  | none => rfl
  | some d =>
    show d z θ = 0
    refine C13.pargrad_constants_zero _ 0 (fun i x => h.interpθPhi_zero _ (fun q _ => ?_) x) _ _ h.moments _ _ d hd z θ hz
    rw [hp r (i % Kn.nz) (q : ZMod N) hr (Nat.mod_lt _ h.nz_pos)]
    rfl

/-- C11 `vpar_zero_shift_identity`, lifted to the grid -/
theorem vpar_eq (h : KernelContracts Kn) (d : Stp) (f : DistF) (g : GradT) (hf : Kn.preds.IsEq f)
    (hg : Kn.preds.ZeroG g) : Kn.preds.IsEq (Kn.vparOp d f g) := by
  intro r z θ v hr hz hθ hv
  unfold vparOp
  rw [C11.vpar_zero_shift_identity _ Kn.edge Kn.vPts (fun l => f r z θ l) Kn.nv (Kn.dtOf d) (g r z θ) (Kn.rVal r) Kn.fuel
    (by rw [hg r z θ hr hz hθ, zero_mul]) h.vPts_range (fun i hi => h.interpV_nodes _ i hi)]
  rw [List.getElem?_map, List.getElem?_range hv]
  exact hf r z θ v hr hz hθ hv

/-- C12 `pol_constant_potential_identity`, lifted to the grid -/
theorem pol_eq (h : KernelContracts Kn) (d : Stp) (f : DistF) (p : CGrid N) (hf : Kn.preds.IsEq f)
    (hp : Kn.preds.ZeroP p) : Kn.preds.IsEq (Kn.polOp d f p) := by
  intro r z θ v hr hz hθ hv
  have hzero : ∀ q r', q < N → r' < Kn.nr → (fun (q r' : ℕ) => (p r' z (q : ZMod N)).re) q r' = 0 := by
    intro q r' _ hr'
    show (p r' z (q : ZMod N)).re = 0
    rw [hp r' z (q : ZMod N) hr' hz]; rfl
  have key := (C12.pol_constant_potential_identity (Kn.polEvals f p z v)
    (PolAdv.mkParams (Kn.dtOf d) Kn.B0 (Kn.vPts v) Kn.rPts Kn.nr Kn.nul) 0 0 0 0 Kn.qPts Kn.rPts N Kn.nr
    (fun n => (Kn.polEvals f p z v).fhat n.1 n.2)
    (fun x y => h.phiDr_zero _ hzero x y) (fun x y => h.phiDq_zero _ hzero x y) h.wrap_nodes h.rPts_range
    (fun _ _ _ _ => rfl) (le_refl 0) (le_refl 0)).2.1
  unfold polOp
  rw [key, List.getElem?_map, List.getElem?_range hθ]
  simp only [Option.map_some, Option.bind_some, List.getElem?_map, List.getElem?_range hr]
  show Kn.interpQR (fun q r' => f r' z q v) (Kn.qPts θ) (Kn.rPts r) = Kn.fEq r v
  rw [h.interpQR_nodes _ θ r hθ hr]
  exact hf r z θ v hr hz hθ hv

/-- C16 `density_zero_for_equilibrium` at the point `(r, z, k)` -/
theorem rho_zero [NeZero N] (f : DistF) (hf : Kn.preds.IsEq f) : Kn.preds.ZeroR (Kn.rhoOp f) := by
  intro r z k hr hz
  have hk : k.val < N := ZMod.val_lt k
  -- the kernel reads the line `f r z k ·` and the row `fEq r ·` only: apply C16 to the field that repeats this line
  have h0 := C16.density_zero_for_equilibrium Kn.quad Kn.nv (fun _ l => Kn.fEq (0 + r) l)
    (fun _ _ _ l => f (0 + r) (0 + z) k.val l)
    (fun _ _ _ l hl => by simpa using hf r z k.val l hr hz hk hl) 0 0 r z k.val
  show ((Density.getPerturbedRhoLocal Kn.quad Kn.nv Kn.fEq f 0 0 r z k.val : ℝ) : ℂ) = 0
  have : Density.getPerturbedRhoLocal Kn.quad Kn.nv Kn.fEq f 0 0 r z k.val = 0 := h0
  rw [this]; rfl

open ZMod in
/-- C15 `pipeline_zero_for_equilibrium` (2): the transforms of zero lines -/
theorem modes_zero [NeZero N] (ρ : CGrid N) (hρ : Kn.preds.ZeroR ρ) : Kn.preds.ZeroR (Kn.modesOp ρ) := by
  intro r z k hr hz
  have h0 : ρ r z = 0 := funext (fun k' => hρ r z k' hr hz)
  have ht := ((C15.pipeline_zero_for_equilibrium (K := ℝ) (fun _ => 0) 0 (fun _ _ => 0) (fun _ _ _ _ => 0)
    (fun _ _ _ _ _ => rfl)).2.1 N).1
  show (𝓕 (ρ r z)) k = 0
  rw [h0, ht]; rfl

open ZMod in
theorem potential_zero [NeZero N] (φ : CGrid N) (hφ : Kn.preds.ZeroP φ) : Kn.preds.ZeroP (Kn.potentialOp φ) := by
  intro r z k hr hz
  have h0 : φ r z = 0 := funext (fun k' => hφ r z k' hr hz)
  have ht := ((C15.pipeline_zero_for_equilibrium (K := ℝ) (fun _ => 0) 0 (fun _ _ => 0) (fun _ _ _ _ => 0)
    (fun _ _ _ _ _ => rfl)).2.1 N).2
  show (𝓕⁻ (φ r z)) k = 0
  rw [h0, ht]; rfl

/-- C15 `pipeline_zero_for_equilibrium` (3) for every mode and every z -/
theorem solve_zero (h : KernelContracts Kn) (ρ : CGrid N) (hρ : Kn.preds.ZeroR ρ) : Kn.preds.ZeroP (Kn.solveOp ρ) := by
  intro r z k _ hz
  have h3 := (C15.pipeline_zero_for_equilibrium (K := ℂ) (fun _ => 0) 0 (fun _ _ => 0) (fun _ _ _ _ => 0)
    (fun _ _ _ _ _ => rfl)).2.2
  refine h3 Kn.A Kn.bc k.val (Kn.modeN k.val) (Kn.modeMat k.val) Kn.colloc Kn.V (Kn.interpR (fun i => ρ i z k))
    (Kn.spsolve k.val (Poisson.modeRhs Kn.A Kn.bc k.val (Kn.interpR (fun i => ρ i z k)))) Kn.coeffBuf h.nb_ge rfl
    (fun i hi => ?_) (h.colloc_inj _) (h.modeMat_inj k.val) (h.spsolve_spec k.val _) r
  rw [h.interpR_spec _ i hi]
  exact hρ i z k (lt_of_lt_of_le hi h.nb_le) hz

/-- **the kernel models satisfy the operator identities** -/
theorem contracts [NeZero N] (h : KernelContracts Kn) : EquilibriumContracts Kn.ops Kn.preds where
  relayoutF_eq := fun a b f hf => by show Kn.preds.IsEq (Kn.relayoutF a b f); rw [h.relayoutF_global]; exact hf
  relayoutP_zero := fun a b p hp => by show Kn.preds.ZeroP (Kn.relayoutP a b p); rw [h.relayoutP_global]; exact hp
  relayoutR_zero := fun a b p hp => by show Kn.preds.ZeroR (Kn.relayoutR a b p); rw [h.relayoutR_global]; exact hp
  save_eq := fun f hf => by show Kn.preds.IsEq (Kn.saveF f); rw [h.save_global]; exact hf
  restore_eq := fun f hf => by show Kn.preds.IsEq (Kn.restoreF f); rw [h.restore_global]; exact hf
  flux_eq := Kn.flux_eq h
  grad_zero := Kn.grad_zero h
  vpar_eq := Kn.vpar_eq h
  pol_eq := Kn.pol_eq h
  rho_zero := Kn.rho_zero
  modes_zero := Kn.modes_zero
  solve_zero := Kn.solve_zero h
  potential_zero := Kn.potential_zero

end Kernels

/-! ### a concrete instance of all the hypotheses (non-vacuity) -/

/-- order-2 finite-difference weights `(-1/2, 0, 1/2)` over the reals (C13 `moment_order2` is the same over `ℚ`) -/
def fd2 : ℕ → ℝ := fun j => if j = 0 then -1/2 else if j = 1 then 0 else 1/2

theorem fd2_moments : ParGrad.MomentSystem 2 fd2 := by
  intro i hi
  have hsh : ∀ j, ParGrad.fdShift 2 j = (j : ℤ) - 1 := fun j => by unfold ParGrad.fdShift ParGrad.fdStart; omega
  simp only [FieldLine.sumRange, List.range_succ, List.range_zero, List.nil_append, List.cons_append, List.map_cons,
    List.map_nil, List.sum_cons, List.sum_nil, hsh, fd2]
  interval_cases i <;> norm_num

/-- a 2 (r) × 3 (z) × 2 (θ) × 2 (v) grid with nearest-node "interpolators", identity collocation and mode matrices and an
    exact `spsolve` -/
def demoKernels : Kernels 2 where
  nr := 2
  nz := 3
  nv := 2
  fEq := fun r v => (r : ℝ) + 10 * v
  relayoutF := fun _ _ f => f
  relayoutP := fun _ _ p => p
  relayoutR := fun _ _ p => p
  saveF := fun f => f
  restoreF := fun f => f
  nL := 2
  dz := 1
  zBase := 0
  zDist := fun _ _ => 1 / 2
  fluxPts := fun _ _ _ _ => 0
  interpθ := fun u _ => u 0
  scratch := fun _ _ _ => 0
  order := 2
  fdCoeffs := fd2
  gradPts := fun _ _ _ => 0
  bz := fun _ => 1
  interpθPhi := fun u _ => u 0
  edge := .fEq
  vPts := fun i => (i : ℝ)
  interpV := fun u x => u ⌊x⌋₊
  dtOf := fun d => match d with | .halfStep => 1 / 2 | .fullStep => 1
  rVal := fun i => (i : ℝ) + 1
  fuel := 0
  feqFun := fun _ _ => 0
  qPts := fun i => (i : ℝ)
  rPts := fun j => (j : ℝ) + 1
  B0 := 1
  nul := false
  wrap := fun x => x
  phiDr := fun u _ _ => u 0 0
  phiDq := fun u _ _ => u 0 0
  interpQR := fun u x y => u ⌊x⌋₊ (⌊y⌋₊ - 1)
  quad := fun _ => 1
  A := ⟨fun _ _ => 0, fun _ _ => 0, fun _ _ => 0, fun _ _ => 0, fun _ _ => 0⟩
  bc := Poisson.qnConfig 2 2
  colloc := fun i j => if i = j then 1 else 0
  V := fun i j => if i = j then 1 else 0
  modeMat := fun _ a b => if a = b then 1 else 0
  coeffBuf := fun _ => 0
  interpR := fun u => u
  spsolve := fun _ rhs => rhs

theorem isSol_id (n : ℕ) (b x : ℕ → ℂ) :
    Poisson.IsSol n (fun a c => if a = c then 1 else 0) b x ↔ ∀ a, a < n → x a = b a := by
  unfold Poisson.IsSol
  refine forall_congr' (fun a => forall_congr' (fun ha => ?_))
  rw [PoissonLemmas.matVec_eq_sum]
  simp [Finset.sum_ite_eq, ha]

theorem demoKernels_contracts : KernelContracts demoKernels where
  relayoutF_global := fun _ _ _ => rfl
  relayoutP_global := fun _ _ _ => rfl
  relayoutR_global := fun _ _ _ => rfl
  save_global := fun _ => rfl
  restore_global := fun _ => rfl
  nz_pos := by decide
  nL_pos := by decide
  dz_ne := one_ne_zero
  interpθ_const := fun u C hu _ => hu 0 (by decide)
  order_lt := by decide
  moments := fd2_moments
  interpθPhi_zero := fun u hu _ => hu 0 (by decide)
  vPts_range := fun i hi => by
    have : i ≤ 1 := Nat.le_of_lt_succ hi
    have h1 : (i : ℝ) ≤ 1 := by exact_mod_cast this
    show ((0 : ℕ) : ℝ) ≤ (i : ℝ) ∧ (i : ℝ) ≤ ((2 - 1 : ℕ) : ℝ)
    exact ⟨by exact_mod_cast Nat.zero_le i, by simpa using h1⟩
  interpV_nodes := fun u i _ => by simp [demoKernels]
  phiDr_zero := fun u hu _ _ => hu 0 0 (by decide) (by decide)
  phiDq_zero := fun u hu _ _ => hu 0 0 (by decide) (by decide)
  wrap_nodes := fun _ _ => rfl
  rPts_range := fun j hj => by
    have : j ≤ 1 := Nat.le_of_lt_succ hj
    have h1 : (j : ℝ) ≤ 1 := by exact_mod_cast this
    have h0 : (0 : ℝ) ≤ (j : ℝ) := by exact_mod_cast Nat.zero_le j
    show ((0 : ℕ) : ℝ) + 1 ≤ (j : ℝ) + 1 ∧ (j : ℝ) + 1 ≤ ((2 - 1 : ℕ) : ℝ) + 1
    constructor
    · simp
    · simpa using h1
  interpQR_nodes := fun u i j _ _ => by
    simp only [demoKernels]
    have : ⌊(j : ℝ) + 1⌋₊ = j + 1 := by exact_mod_cast Nat.floor_natCast (R := ℝ) (j + 1)
    rw [Nat.floor_natCast, this, Nat.add_sub_cancel]
  nb_ge := le_refl 2
  nb_le := le_refl 2
  interpR_spec := fun u i hi => by
    have hi' : i < 2 := hi
    simp [demoKernels, Poisson.qnConfig, Finset.sum_ite_eq, hi']
  colloc_inj := fun c hc j hj => by
    have hj' : j < 2 := hj
    have := hc j hj
    simpa [demoKernels, Poisson.qnConfig, Finset.sum_ite_eq, hj'] using this
  spsolve_spec := fun I rhs => (isSol_id _ _ _).2 (fun _ _ => rfl)
  modeMat_inj := fun I y hy a ha => (isSol_id _ _ _).1 hy a ha

/-- the equilibrium of the demo grid -/
def demoFeq : DistF := fun r _ _ v => (r : ℝ) + 10 * v

example : demoKernels.preds.IsEq demoFeq := fun _ _ _ _ _ _ _ _ => rfl

end

end PygyroVerif.TimeStep
