/-
Helper lemmas for Props/C06Gen.lean: the generated translation of `LayoutManager._makeConnectionMap`
(Generated/RoutesGen.lean, regenerated from the source on every run) read through the hand-written model of Model/Handler.lean.

  * `absM σ` : the model's view (`RouteMap`) of the two dicts of the generated state;
  * every generated loop body / loop is the model's function on that view (`body_aim_abs`, `while1_abs`, `source_fold_abs`,
    `known_fold_abs`), with NO hypothesis on the connection table;
  * the keys of the two dicts (`KeysOK2`) are those the first loop nest creates and no later store adds one, when the
    connection table mentions layouts only and has no self connection (`KeysOK`: what keeps the source from raising `KeyError`);
  * Python's `min(…, key=…)`, `max(…)`, `max(…, key=…)` of the generated prelude against `pickMin` / `maxDist`.
-/
import PygyroVerif.Generated.RoutesGen
import PygyroVerif.Lemmas.RouteAgree
import Mathlib.Data.List.Nodup
import Mathlib.Data.List.Range

namespace PygyroVerif.RoutesGen
open PygyroVerif PygyroVerif.Handler PygyroVerif.RouteValid PygyroVerif.RouteDet PygyroVerif.RouteAgree
open PygyroVerif.Gen.Routes

/-- the model's view of `distanceMap` and `self._route_map` -/
def absM (σ : St) : RouteMap :=
  { dist := fun a b => σ.distanceMap.get2 a b, route := fun a b => σ.self_route_map.get2 a b }

/-! ### dicts -/

theorem get2_set2 {α : Type} (D : Dict (Dict α)) (a b : Nat) (v : α) (x y : Nat) :
    (D.set2 a b v).get2 x y = if x = a ∧ y = b then v else D.get2 x y := by
  unfold Dict.set2 Dict.get2 Dict.set
  by_cases hx : x = a
  · subst hx
    by_cases hy : y = b <;> simp [hy]
  · simp [hx]

/-- `dict(pairs)` for pairs `(a, f a)` with distinct new keys -/
theorem foldl_set_map {α : Type} (f : Nat → α) : ∀ (l : List Nat) (d0 : Dict α), l.Nodup → (∀ a ∈ l, a ∉ d0.keys) →
    ((l.map (fun a => (a, f a))).foldl (fun d p => d.set p.1 p.2) d0).keys = d0.keys ++ l ∧
    ∀ x, ((l.map (fun a => (a, f a))).foldl (fun d p => d.set p.1 p.2) d0).val x = if x ∈ l then f x else d0.val x := by
  intro l
  induction l with
  | nil => intro d0 _ _; simp
  | cons a t ih =>
    intro d0 hnd hnew
    obtain ⟨hat, hndt⟩ := List.nodup_cons.mp hnd
    have ha0 : a ∉ d0.keys := hnew a (by simp)
    simp only [List.map_cons, List.foldl_cons]
    have hk1 : (d0.set a (f a)).keys = d0.keys ++ [a] := by simp [Dict.set, ha0]
    obtain ⟨ihk, ihv⟩ := ih (d0.set a (f a)) hndt (by
      intro b hb
      rw [hk1]
      have hb0 : b ∉ d0.keys := hnew b (by simp [hb])
      have hba : b ≠ a := fun e => hat (e ▸ hb)
      simp [hb0, hba])
    refine ⟨by rw [ihk, hk1]; simp, ?_⟩
    intro x
    rw [ihv x]
    by_cases hxt : x ∈ t
    · simp [hxt]
    · by_cases hxa : x = a
      · subst hxa; simp [Dict.set, hxt]
      · simp [Dict.set, hxt, hxa]

theorem ofPairs_map {α : Type} [Inhabited α] (f : Nat → α) (l : List Nat) (hnd : l.Nodup) :
    (Dict.ofPairs (l.map (fun a => (a, f a)))).keys = l ∧
    ∀ x, (Dict.ofPairs (l.map (fun a => (a, f a)))).val x = if x ∈ l then f x else default := by
  obtain ⟨hk, hv⟩ := foldl_set_map f l (Dict.empty : Dict α) hnd (by intro a _; simp [Dict.empty])
  exact ⟨by simpa [Dict.ofPairs, Dict.empty] using hk, fun x => by simpa [Dict.ofPairs, Dict.empty] using hv x⟩

/-- keys of a dict of dicts over the `n` layouts: all layouts outside, all other layouts inside -/
def KeysOK2 {α : Type} (n : Nat) (D : Dict (Dict α)) : Prop :=
  D.keys = List.range n ∧ ∀ a, a < n → (D.val a).keys = (List.range n).filter (· ≠ a)

theorem keysOK2_set2 {α : Type} (n : Nat) (D : Dict (Dict α)) (h : KeysOK2 n D) (a b : Nat) (v : α)
    (ha : a < n) (hb : b < n) (hab : a ≠ b) : KeysOK2 n (D.set2 a b v) := by
  refine ⟨h.1, ?_⟩
  intro x hx
  unfold Dict.set2
  by_cases hxa : x = a
  · subst hxa
    have hmem : b ∈ (D.val x).keys := by
      rw [h.2 x hx]; simp [hb, Ne.symm hab]
    have hc : (D.val x).keys.contains b = true := by simpa using hmem
    simp only [↓reduceIte, Dict.set, hc]
    exact h.2 x hx
  · simp only [hxa, ↓reduceIte]
    exact h.2 x hx

/-! ### `<` on routes -/

theorem strListLt_eq : ∀ l1 l2 : List String, strListLt l1 l2 = lexLt l1 l2
  | [], [] => rfl
  | [], _ :: _ => rfl
  | _ :: _, [] => rfl
  | a :: as, b :: bs => by
    unfold strListLt lexLt
    rw [strListLt_eq as bs]

theorem namesOf_eq (names : List String) (l : List Nat) : namesOf names l = l.map (fun i => names.getD i "") := rfl

/-! ### `min` / `max` -/

theorem minKey_eq_pickMin (order U : List Nat) (key : Nat → Nat) :
    minKey? (setIter order U) key = pickMin order U key := by
  unfold pickMin setIter minKey?
  generalize order.filter (fun x => U.contains x) = l
  have step : ∀ (t : List Nat) (b : Nat),
      t.foldl (fun best x => match best with
        | none => some x
        | some b => if key x < key b then some x else some b) (some b) =
      some (t.foldl (fun b y => if key y < key b then y else b) b) := by
    intro t
    induction t with
    | nil => intro b; rfl
    | cons y t ih =>
      intro b
      simp only [List.foldl_cons]
      by_cases h : key y < key b
      · simp only [h, ↓reduceIte]; exact ih y
      · simp only [h, ↓reduceIte]; exact ih b
  cases l with
  | nil => rfl
  | cons x t => simp only [List.foldl_cons]; exact (step t x).symm

theorem maxFold_spec : ∀ (t : List Nat) (b : Nat),
    (t.foldl (fun b y => if b < y then y else b) b = b ∨ t.foldl (fun b y => if b < y then y else b) b ∈ t) ∧
    b ≤ t.foldl (fun b y => if b < y then y else b) b ∧
    ∀ y ∈ t, y ≤ t.foldl (fun b y => if b < y then y else b) b := by
  intro t
  induction t with
  | nil => intro b; simp
  | cons z t ih =>
    intro b
    simp only [List.foldl_cons]
    by_cases h : b < z
    · simp only [h, ↓reduceIte]
      obtain ⟨h1, h2, h3⟩ := ih z
      refine ⟨Or.inr ?_, by omega, ?_⟩
      · rcases h1 with e | e
        · rw [e]; simp
        · simp [e]
      · intro y hy
        rcases List.mem_cons.mp hy with rfl | hy
        · exact h2
        · exact h3 y hy
    · simp only [h, ↓reduceIte]
      obtain ⟨h1, h2, h3⟩ := ih b
      refine ⟨?_, h2, ?_⟩
      · rcases h1 with e | e
        · exact Or.inl e
        · exact Or.inr (by simp [e])
      · intro y hy
        rcases List.mem_cons.mp hy with rfl | hy
        · omega
        · exact h3 y hy

/-- `max(l)` of a non-empty list: an element that dominates the others -/
theorem maxNat_spec (l : List Nat) (hl : l ≠ []) : ∃ v, maxNat? l = some v ∧ v ∈ l ∧ ∀ x ∈ l, x ≤ v := by
  cases l with
  | nil => exact absurd rfl hl
  | cons x t =>
    obtain ⟨h1, h2, h3⟩ := maxFold_spec t x
    refine ⟨_, rfl, ?_, ?_⟩
    · rcases h1 with e | e
      · rw [e]; simp
      · simp [e]
    · intro y hy
      rcases List.mem_cons.mp hy with rfl | hy
      · exact h2
      · exact h3 y hy

theorem maxKeyGo_spec {α : Type} (key : α → Option Nat) : ∀ (t : List α) (b : α) (kb : Nat), key b = some kb →
    (∀ y ∈ t, ∃ k, key y = some k) →
    ∃ x kx, (x = b ∨ x ∈ t) ∧ maxKeyGo key t b kb = some x ∧ key x = some kx ∧ kb ≤ kx ∧
      ∀ y ∈ t, ∀ ky, key y = some ky → ky ≤ kx := by
  intro t
  induction t with
  | nil =>
    intro b kb hb _
    exact ⟨b, kb, Or.inl rfl, rfl, hb, Nat.le_refl _, fun y hy => by simp at hy⟩
  | cons z t ih =>
    intro b kb hb hall
    obtain ⟨kz, hz⟩ := hall z (by simp)
    have ht : ∀ y ∈ t, ∃ k, key y = some k := fun y hy => hall y (by simp [hy])
    simp only [maxKeyGo, hz]
    by_cases h : kb < kz
    · simp only [h, ↓reduceIte]
      obtain ⟨x, kx, h1, h2, h3, h4, h5⟩ := ih z kz hz ht
      refine ⟨x, kx, ?_, h2, h3, by omega, ?_⟩
      · rcases h1 with e | e
        · exact Or.inr (by simp [e])
        · exact Or.inr (by simp [e])
      · intro y hy ky hky
        rcases List.mem_cons.mp hy with rfl | hy
        · rw [hz] at hky; cases hky; exact h4
        · exact h5 y hy ky hky
    · simp only [h, ↓reduceIte]
      obtain ⟨x, kx, h1, h2, h3, h4, h5⟩ := ih b kb hb ht
      refine ⟨x, kx, ?_, h2, h3, h4, ?_⟩
      · rcases h1 with e | e
        · exact Or.inl e
        · exact Or.inr (by simp [e])
      · intro y hy ky hky
        rcases List.mem_cons.mp hy with rfl | hy
        · rw [hz] at hky; cases hky; omega
        · exact h5 y hy ky hky

/-- `max(l, key=key)` of a non-empty list on which `key` does not raise: an element whose key dominates the others -/
theorem maxKey_spec {α : Type} (key : α → Option Nat) (l : List α) (hl : l ≠ []) (hall : ∀ y ∈ l, ∃ k, key y = some k) :
    ∃ x kx, x ∈ l ∧ maxKey? l key = some x ∧ key x = some kx ∧ ∀ y ∈ l, ∀ ky, key y = some ky → ky ≤ kx := by
  cases l with
  | nil => exact absurd rfl hl
  | cons b t =>
    obtain ⟨kb, hb⟩ := hall b (by simp)
    obtain ⟨x, kx, h1, h2, h3, h4, h5⟩ := maxKeyGo_spec key t b kb hb (fun y hy => hall y (by simp [hy]))
    refine ⟨x, kx, ?_, ?_, h3, ?_⟩
    · rcases h1 with e | e
      · simp [e]
      · simp [e]
    · simp only [maxKey?, hb]; exact h2
    · intro y hy ky hky
      rcases List.mem_cons.mp hy with rfl | hy
      · rw [hb] at hky; cases hky; exact h4
      · exact h5 y hy ky hky

/-- `maxDist` is bounded by a bound of the existing entries -/
theorem maxDist_le_dom (m : RouteMap) (n B : Nat) (h : ∀ a b, a < n → b < n → a ≠ b → m.d a b ≤ B) : maxDist m n ≤ B := by
  let m' : RouteMap := { dist := fun a b => if a < n ∧ b < n ∧ a ≠ b then m.dist a b else 0, route := m.route }
  have hag : Agree n m m' := by
    intro a b ha hb hab
    simp [m', RouteMap.d, RouteMap.r, ha, hb, hab]
  rw [maxDist_agree n m m' hag]
  apply maxDist_le
  intro a b
  by_cases c : a < n ∧ b < n ∧ a ≠ b
  · have := h a b c.1 c.2.1 c.2.2
    simpa [m', RouteMap.d, c] using this
  · simp [m', RouteMap.d, c]

/-! ### the relaxation loop -/

theorem body_aim_abs (names : List String) (conn : List (List Nat)) (order : List Nat) (s : Nat) (σ : St) (aim : Nat) :
    absM (body_aim names conn order s σ aim) = relax names s σ.via σ.unvisitedNodes (absM σ) aim ∧
    (body_aim names conn order s σ aim).unvisitedNodes = σ.unvisitedNodes ∧
    (body_aim names conn order s σ aim).via = σ.via := by
  unfold body_aim relax
  by_cases hc : σ.unvisitedNodes.contains aim = true
  · simp only [hc, Bool.not_true, Bool.false_eq_true, ↓reduceIte, strListLt_eq, namesOf_eq]
    by_cases c1 : σ.distanceMap.get2 s σ.via + σ.distanceMap.get2 σ.via aim < σ.distanceMap.get2 s aim
    · have c1' : (absM σ).d s σ.via + (absM σ).d σ.via aim < (absM σ).d s aim := c1
      simp only [c1, c1', ↓reduceIte]
      refine ⟨?_, by trivial, by trivial⟩
      simp only [absM, RouteMap.setD, RouteMap.setR, RouteMap.d, RouteMap.r, get2_set2]
    · have c1' : ¬ ((absM σ).d s σ.via + (absM σ).d σ.via aim < (absM σ).d s aim) := c1
      simp only [c1, c1', ↓reduceIte]
      by_cases c2 : σ.distanceMap.get2 s σ.via + σ.distanceMap.get2 σ.via aim = σ.distanceMap.get2 s aim
      · have c2' : (absM σ).d s σ.via + (absM σ).d σ.via aim = (absM σ).d s aim := c2
        simp only [c2, c2', ↓reduceIte]
        by_cases c3 : lexLt ((σ.self_route_map.get2 s σ.via ++ σ.self_route_map.get2 σ.via aim).map (fun i => names.getD i ""))
            ((σ.self_route_map.get2 s aim).map (fun i => names.getD i "")) = true
        · have c3' : lexLt (((absM σ).r s σ.via ++ (absM σ).r σ.via aim).map (fun i => names.getD i ""))
              (((absM σ).r s aim).map (fun i => names.getD i "")) = true := c3
          simp only [c3, c3', ↓reduceIte]
          refine ⟨?_, by trivial, by trivial⟩
          simp only [absM, RouteMap.setR, RouteMap.r, get2_set2]
        · have c3' : ¬ (lexLt (((absM σ).r s σ.via ++ (absM σ).r σ.via aim).map (fun i => names.getD i ""))
              (((absM σ).r s aim).map (fun i => names.getD i "")) = true) := c3
          simp only [c3, c3']
          exact ⟨by trivial, by trivial, by trivial⟩
      · have c2' : ¬ ((absM σ).d s σ.via + (absM σ).d σ.via aim = (absM σ).d s aim) := c2
        simp only [c2, c2', ↓reduceIte]
        exact ⟨by trivial, by trivial, by trivial⟩
  · have hc' : σ.unvisitedNodes.contains aim = false := by simpa using hc
    simp only [hc', Bool.not_false, ↓reduceIte]
    exact ⟨by trivial, by trivial, by trivial⟩

theorem aim_fold_abs (names : List String) (conn : List (List Nat)) (order : List Nat) (s : Nat) :
    ∀ (l : List Nat) (σ : St),
      absM (l.foldl (body_aim names conn order s) σ) = l.foldl (relax names s σ.via σ.unvisitedNodes) (absM σ) ∧
      (l.foldl (body_aim names conn order s) σ).unvisitedNodes = σ.unvisitedNodes ∧
      (l.foldl (body_aim names conn order s) σ).via = σ.via := by
  intro l
  induction l with
  | nil => intro σ; exact ⟨rfl, rfl, rfl⟩
  | cons x t ih =>
    intro σ
    simp only [List.foldl_cons]
    obtain ⟨h1, h2, h3⟩ := body_aim_abs names conn order s σ x
    obtain ⟨i1, i2, i3⟩ := ih (body_aim names conn order s σ x)
    rw [h1, h2, h3] at i1
    exact ⟨i1, by rw [i2, h2], by rw [i3, h3]⟩

/-- the `while` loop for one source, with one more unit of fuel than the model gives to `dijkstra` (the generated loop
    spends one on the last, failing test) -/
theorem while1_abs (names : List String) (conn : List (List Nat)) (order : List Nat) (F s : Nat) :
    ∀ (k : Nat) (σ : St), σ.unvisitedNodes.length ≤ k → (∀ x ∈ σ.unvisitedNodes, x ∈ order) →
      ∃ σ', while1 names conn order F s (k + 1) σ = .ok σ' ∧
        absM σ' = dijkstra names conn order s k σ.unvisitedNodes (absM σ) := by
  intro k
  induction k with
  | zero =>
    intro σ hlen _
    have hU : σ.unvisitedNodes = [] := List.eq_nil_of_length_eq_zero (by omega)
    refine ⟨σ, ?_, rfl⟩
    simp [while1, hU]
  | succ k ih =>
    intro σ hlen ho
    by_cases hpos : σ.unvisitedNodes.length > 0
    · have hp : minKey? (setIter order σ.unvisitedNodes) (fun x => σ.distanceMap.get2 s x) =
          pickMin order σ.unvisitedNodes (fun x => (absM σ).d s x) := minKey_eq_pickMin _ _ _
      cases hpick : pickMin order σ.unvisitedNodes (fun x => (absM σ).d s x) with
      | none =>
        exfalso
        have hne : σ.unvisitedNodes ≠ [] := by intro e; rw [e] at hpos; simp at hpos
        obtain ⟨u, hu⟩ := List.exists_mem_of_ne_nil _ hne
        exact pickMin_none order _ _ hpick u hu (ho u hu)
      | some via =>
        have hvia : via ∈ σ.unvisitedNodes := pickMin_mem order _ _ via hpick
        let σ1 : St := { σ with via := via, unvisitedNodes := setRemove σ.unvisitedNodes via }
        obtain ⟨f1, f2, _⟩ := aim_fold_abs names conn order s (conn.getD via []) σ1
        have hlt : (σ.unvisitedNodes.filter (· ≠ via)).length < σ.unvisitedNodes.length :=
          List.length_filter_lt_length_iff_exists.mpr ⟨via, hvia, by simp⟩
        obtain ⟨σ', hw, ha⟩ := ih ((conn.getD via []).foldl (body_aim names conn order s) σ1)
          (by rw [f2]; show (σ.unvisitedNodes.filter (· ≠ via)).length ≤ k; omega)
          (by rw [f2]; intro x hx; exact ho x ((mem_filter_ne _ via x).mp hx).1)
        refine ⟨σ', ?_, ?_⟩
        · rw [while1]
          simp only [hpos, ↓reduceIte]
          rw [hp, hpick]
          exact hw
        · rw [ha, f1, f2]
          simp only [dijkstra]
          rw [hpick]
          rfl
    · have hU : σ.unvisitedNodes = [] := List.eq_nil_of_length_eq_zero (by omega)
      refine ⟨σ, ?_, ?_⟩
      · rw [while1]
        simp only [hpos, ↓reduceIte]
      · rw [hU, dijkstra_nil]

/-- the loop over the sources (`names.length ≤ F`: enough fuel for every `while`) -/
theorem source_fold_abs (names : List String) (conn : List (List Nat)) (order : List Nat) (F : Nat)
    (hF : names.length ≤ F) (ho : ∀ x, x < names.length → x ∈ order) :
    ∀ (l : List Nat) (σ : St), (∀ s ∈ l, s < names.length) →
      ∃ σ', forRes (body_source names conn order F) l σ = .ok σ' ∧
        absM σ' = l.foldl (fun m s => dijkstra names conn order s names.length
          ((List.range names.length).filter (· ≠ s)) m) (absM σ) := by
  intro l
  induction l with
  | nil => intro σ _; exact ⟨σ, rfl, rfl⟩
  | cons s t ih =>
    intro σ hl
    have hs : s < names.length := hl s (by simp)
    obtain ⟨k, rfl⟩ : ∃ k, F = k + 1 := ⟨F - 1, by omega⟩
    let σ0 : St := { σ with unvisitedNodes := setRemove (keysOf names) s }
    have hU0 : σ0.unvisitedNodes = (List.range names.length).filter (· ≠ s) := rfl
    have hlt : ((List.range names.length).filter (· ≠ s)).length < (List.range names.length).length :=
      List.length_filter_lt_length_iff_exists.mpr ⟨s, by simpa using hs, by simp⟩
    have hlen : ((List.range names.length).filter (· ≠ s)).length < names.length := by simpa using hlt
    have hcov : ∀ x ∈ (List.range names.length).filter (· ≠ s), x ∈ order := by
      intro x hx; exact ho x (by simpa using (List.mem_filter.mp hx).1)
    obtain ⟨σ1, hw, ha⟩ := while1_abs names conn order (k + 1) s k σ0 (by rw [hU0]; omega) (by rw [hU0]; exact hcov)
    obtain ⟨σ', hf, hb⟩ := ih σ1 (fun x hx => hl x (by simp [hx]))
    refine ⟨σ', ?_, ?_⟩
    · rw [forRes, body_source]
      simp only
      rw [show ({ σ with unvisitedNodes := setRemove (keysOf names) s } : St) = σ0 from rfl] at *
      rw [hw]
      exact hf
    · rw [hb, ha, hU0]
      simp only [List.foldl_cons]
      rw [dijkstra_fuel_indep names conn order s _ _ hcov k names.length (by omega) (by omega)]
      rfl

/-! ### the two initialisation loop nests -/

theorem name2_fold (names : List String) (conn : List (List Nat)) (order : List Nat) (a : Nat) :
    ∀ (l : List Nat) (σ : St),
      (l.foldl (body_name2 names conn order a) σ).Routing =
        σ.Routing ++ (l.filter (fun b => decide (a ≠ b))).map (fun b => (b, ([] : List Nat))) ∧
      (l.foldl (body_name2 names conn order a) σ).dist =
        σ.dist ++ (l.filter (fun b => decide (a ≠ b))).map (fun b => (b, names.length + 1)) ∧
      (l.foldl (body_name2 names conn order a) σ).MyMap = σ.MyMap ∧
      (l.foldl (body_name2 names conn order a) σ).distanceMap_pairs = σ.distanceMap_pairs := by
  intro l
  induction l with
  | nil => intro σ; simp
  | cons b t ih =>
    intro σ
    simp only [List.foldl_cons]
    obtain ⟨i1, i2, i3, i4⟩ := ih (body_name2 names conn order a σ b)
    rw [i1, i2, i3, i4]
    by_cases h : a = b
    · simp [body_name2, h]
    · simp [body_name2, h]

/-- `dict(Routing)` / `dict(dist)` for the layout `a` -/
def routeRow (n a : Nat) : Dict (List Nat) :=
  Dict.ofPairs (((List.range n).filter (fun b => decide (a ≠ b))).map (fun b => (b, ([] : List Nat))))
def distRow (n a : Nat) : Dict Nat :=
  Dict.ofPairs (((List.range n).filter (fun b => decide (a ≠ b))).map (fun b => (b, n + 1)))

theorem body_name1_spec (names : List String) (conn : List (List Nat)) (order : List Nat) (σ : St) (a : Nat) :
    (body_name1 names conn order σ a).MyMap = σ.MyMap ++ [(a, routeRow names.length a)] ∧
    (body_name1 names conn order σ a).distanceMap_pairs = σ.distanceMap_pairs ++ [(a, distRow names.length a)] := by
  have key : ∀ σ0 : St, σ0.Routing = [] → σ0.dist = [] → σ0.MyMap = σ.MyMap → σ0.distanceMap_pairs = σ.distanceMap_pairs →
      ((keysOf names).foldl (body_name2 names conn order a) σ0).MyMap ++
          [(a, Dict.ofPairs ((keysOf names).foldl (body_name2 names conn order a) σ0).Routing)] =
        σ.MyMap ++ [(a, routeRow names.length a)] ∧
      ((keysOf names).foldl (body_name2 names conn order a) σ0).distanceMap_pairs ++
          [(a, Dict.ofPairs ((keysOf names).foldl (body_name2 names conn order a) σ0).dist)] =
        σ.distanceMap_pairs ++ [(a, distRow names.length a)] := by
    intro σ0 h1 h2 h3 h4
    obtain ⟨j1, j2, j3, j4⟩ := name2_fold names conn order a (keysOf names) σ0
    rw [j1, j2, j3, j4, h1, h2, h3, h4]
    simp only [routeRow, distRow, keysOf, List.nil_append, and_self]
  exact key { σ with Routing := [], dist := [] } rfl rfl rfl rfl

theorem name1_fold (names : List String) (conn : List (List Nat)) (order : List Nat) :
    ∀ (l : List Nat) (σ : St),
      (l.foldl (body_name1 names conn order) σ).MyMap = σ.MyMap ++ l.map (fun a => (a, routeRow names.length a)) ∧
      (l.foldl (body_name1 names conn order) σ).distanceMap_pairs =
        σ.distanceMap_pairs ++ l.map (fun a => (a, distRow names.length a)) := by
  intro l
  induction l with
  | nil => intro σ; simp
  | cons a t ih =>
    intro σ
    simp only [List.foldl_cons]
    obtain ⟨i1, i2⟩ := ih (body_name1 names conn order σ a)
    obtain ⟨b1, b2⟩ := body_name1_spec names conn order σ a
    rw [i1, i2, b1, b2]
    simp

theorem filter_ne_comm (n a : Nat) :
    (List.range n).filter (fun b => decide (a ≠ b)) = (List.range n).filter (· ≠ a) := by
  apply List.filter_congr
  intro x _
  simp only [ne_eq, decide_not, Bool.not_eq_eq_eq_not, Bool.not_not, decide_eq_decide]
  exact eq_comm

theorem nodup_filter_range (n : Nat) (p : Nat → Bool) : ((List.range n).filter p).Nodup :=
  List.Nodup.filter _ List.nodup_range

theorem routeRow_spec (n a : Nat) :
    (routeRow n a).keys = (List.range n).filter (· ≠ a) ∧ ∀ x, (routeRow n a).val x = [] := by
  obtain ⟨hk, hv⟩ := ofPairs_map (fun _ => ([] : List Nat)) ((List.range n).filter (fun b => decide (a ≠ b)))
    (nodup_filter_range n _)
  refine ⟨by rw [← filter_ne_comm]; exact hk, fun x => ?_⟩
  have := hv x
  unfold routeRow
  rw [this]
  split <;> rfl

theorem distRow_spec (n a : Nat) :
    (distRow n a).keys = (List.range n).filter (· ≠ a) ∧
    ∀ x, x < n → x ≠ a → (distRow n a).val x = n + 1 := by
  obtain ⟨hk, hv⟩ := ofPairs_map (fun _ => n + 1) ((List.range n).filter (fun b => decide (a ≠ b)))
    (nodup_filter_range n _)
  refine ⟨by rw [← filter_ne_comm]; exact hk, fun x hx hxa => ?_⟩
  have := hv x
  unfold distRow
  rw [this]
  have hm : x ∈ (List.range n).filter (fun b => decide (a ≠ b)) := by
    simp [List.mem_filter, hx, Ne.symm hxa]
  simp only [hm, ↓reduceIte]

/-- `self._route_map = dict(MyMap)` after the first loop nest: the keys, and `[]` everywhere -/
theorem routeInit_spec (n : Nat) :
    KeysOK2 n (Dict.ofPairs ((List.range n).map (fun a => (a, routeRow n a)))) ∧
    ∀ a b, (Dict.ofPairs ((List.range n).map (fun a => (a, routeRow n a)))).get2 a b = [] := by
  obtain ⟨hk, hv⟩ := ofPairs_map (fun a => routeRow n a) (List.range n) List.nodup_range
  refine ⟨⟨hk, ?_⟩, ?_⟩
  · intro a ha
    rw [hv a]
    simp only [List.mem_range, ha, ↓reduceIte]
    exact (routeRow_spec n a).1
  · intro a b
    unfold Dict.get2
    rw [hv a]
    split
    · exact (routeRow_spec n a).2 b
    · rfl

/-- `distanceMap = dict(distanceMap)` after the first loop nest: the keys, and `n + 1` at every existing entry -/
theorem distInit_spec (n : Nat) :
    KeysOK2 n (Dict.ofPairs ((List.range n).map (fun a => (a, distRow n a)))) ∧
    ∀ a b, a < n → b < n → a ≠ b → (Dict.ofPairs ((List.range n).map (fun a => (a, distRow n a)))).get2 a b = n + 1 := by
  obtain ⟨hk, hv⟩ := ofPairs_map (fun a => distRow n a) (List.range n) List.nodup_range
  refine ⟨⟨hk, ?_⟩, ?_⟩
  · intro a ha
    rw [hv a]
    simp only [List.mem_range, ha, ↓reduceIte]
    exact (distRow_spec n a).1
  · intro a b ha hb hab
    unfold Dict.get2
    rw [hv a]
    simp only [List.mem_range, ha, ↓reduceIte]
    exact (distRow_spec n a).2 b hb (Ne.symm hab)

theorem stepTo_fold_abs (names : List String) (conn : List (List Nat)) (order : List Nat) (a : Nat) :
    ∀ (l : List Nat) (σ : St),
      absM (l.foldl (body_stepTo names conn order a) σ) =
        l.foldl (fun m b => (m.setD a b 1).setR a b (m.r a b ++ [b])) (absM σ) := by
  intro l
  induction l with
  | nil => intro σ; rfl
  | cons b t ih =>
    intro σ
    simp only [List.foldl_cons]
    rw [ih]
    congr 1
    simp only [body_stepTo, absM, RouteMap.setD, RouteMap.setR, RouteMap.r, get2_set2]

/-- the second loop nest (known distances and routes) is the model's initialisation started from the generated dicts -/
theorem known_fold_abs (names : List String) (conn : List (List Nat)) (order : List Nat) :
    ∀ (l : List Nat) (σ : St),
      absM (l.foldl (body_name names conn order) σ) =
        l.foldl (fun m a => (conn.getD a []).foldl (fun m b => (m.setD a b 1).setR a b (m.r a b ++ [b])) m) (absM σ) := by
  intro l
  induction l with
  | nil => intro σ; rfl
  | cons a t ih =>
    intro σ
    simp only [List.foldl_cons]
    rw [ih]
    congr 1
    simp only [body_name]
    exact stepTo_fold_abs names conn order a _ σ

/-! ### the keys of the dicts never change after the first loop nest -/

/-- what keeps the source from raising `KeyError`: every listed connection is one of the `n` layouts and no layout is
    listed as its own connection -/
def KeysOK (conn : List (List Nat)) (n : Nat) : Prop := ∀ a, a < n → ∀ b ∈ conn.getD a [], b < n ∧ b ≠ a

def GoodKeys (n : Nat) (σ : St) : Prop := KeysOK2 n σ.distanceMap ∧ KeysOK2 n σ.self_route_map

theorem known_fold_keys (names : List String) (conn : List (List Nat)) (order : List Nat) (n : Nat) (hk : KeysOK conn n) :
    ∀ (l : List Nat) (σ : St), (∀ a ∈ l, a < n) → GoodKeys n σ → GoodKeys n (l.foldl (body_name names conn order) σ) := by
  have inner : ∀ (a : Nat), a < n → ∀ (l : List Nat) (σ : St), (∀ b ∈ l, b < n ∧ b ≠ a) → GoodKeys n σ →
      GoodKeys n (l.foldl (body_stepTo names conn order a) σ) := by
    intro a ha l
    induction l with
    | nil => intro σ _ h; exact h
    | cons b t ih =>
      intro σ hl h
      simp only [List.foldl_cons]
      obtain ⟨hb, hba⟩ := hl b (by simp)
      apply ih _ (fun x hx => hl x (by simp [hx]))
      exact ⟨keysOK2_set2 n _ h.1 a b _ ha hb (Ne.symm hba), keysOK2_set2 n _ h.2 a b _ ha hb (Ne.symm hba)⟩
  intro l
  induction l with
  | nil => intro σ _ h; exact h
  | cons a t ih =>
    intro σ hl h
    simp only [List.foldl_cons]
    apply ih _ (fun x hx => hl x (by simp [hx]))
    have ha : a < n := hl a (by simp)
    exact inner a ha _ σ (hk a ha) h

theorem body_aim_keys (names : List String) (conn : List (List Nat)) (order : List Nat) (n s : Nat) (hs : s < n)
    (σ : St) (aim : Nat) (hU : ∀ x ∈ σ.unvisitedNodes, x < n ∧ x ≠ s) (h : GoodKeys n σ) :
    GoodKeys n (body_aim names conn order s σ aim) := by
  unfold body_aim
  by_cases hc : σ.unvisitedNodes.contains aim = true
  · obtain ⟨ha, has⟩ := hU aim (by simpa using hc)
    have k1 := fun v => keysOK2_set2 n _ h.1 s aim v hs ha (Ne.symm has)
    have k2 := fun v w => keysOK2_set2 n _ (k1 v) aim s w ha hs has
    have r1 := fun v => keysOK2_set2 n _ h.2 s aim v hs ha (Ne.symm has)
    have r2 := fun v w => keysOK2_set2 n _ (r1 v) aim s w ha hs has
    simp only [hc, Bool.not_true, Bool.false_eq_true, ↓reduceIte]
    split
    · exact ⟨k2 _ _, r2 _ _⟩
    · split
      · split
        · exact ⟨h.1, r2 _ _⟩
        · exact h
      · exact h
  · have hc' : σ.unvisitedNodes.contains aim = false := by simpa using hc
    simp only [hc', Bool.not_false, ↓reduceIte]
    exact h

theorem aim_fold_keys (names : List String) (conn : List (List Nat)) (order : List Nat) (n s : Nat) (hs : s < n) :
    ∀ (l : List Nat) (σ : St), (∀ x ∈ σ.unvisitedNodes, x < n ∧ x ≠ s) → GoodKeys n σ →
      GoodKeys n (l.foldl (body_aim names conn order s) σ) := by
  intro l
  induction l with
  | nil => intro σ _ h; exact h
  | cons x t ih =>
    intro σ hU h
    simp only [List.foldl_cons]
    apply ih
    · rw [(body_aim_abs names conn order s σ x).2.1]; exact hU
    · exact body_aim_keys names conn order n s hs σ x hU h

theorem while1_keys (names : List String) (conn : List (List Nat)) (order : List Nat) (F n s : Nat) (hs : s < n) :
    ∀ (f : Nat) (σ σ' : St), (∀ x ∈ σ.unvisitedNodes, x < n ∧ x ≠ s) → GoodKeys n σ →
      while1 names conn order F s f σ = .ok σ' → GoodKeys n σ' := by
  intro f
  induction f with
  | zero => intro σ σ' _ _ hw; simp [while1] at hw
  | succ f ih =>
    intro σ σ' hU h hw
    rw [while1] at hw
    by_cases hpos : σ.unvisitedNodes.length > 0
    · simp only [hpos, ↓reduceIte] at hw
      cases hm : minKey? (setIter order σ.unvisitedNodes) (fun x => σ.distanceMap.get2 s x) with
      | none => rw [hm] at hw; simp at hw
      | some via =>
        rw [hm] at hw
        simp only at hw
        let σ1 : St := { σ with via := via, unvisitedNodes := setRemove σ.unvisitedNodes via }
        have hU1 : ∀ x ∈ σ1.unvisitedNodes, x < n ∧ x ≠ s := by
          intro x hx; exact hU x ((mem_filter_ne _ via x).mp hx).1
        apply ih ((conn.getD via []).foldl (body_aim names conn order s) σ1) σ' _ _ hw
        · rw [(aim_fold_abs names conn order s _ σ1).2.1]; exact hU1
        · exact aim_fold_keys names conn order n s hs _ σ1 hU1 h
    · simp only [hpos, ↓reduceIte] at hw
      cases hw
      exact h

theorem source_fold_keys (names : List String) (conn : List (List Nat)) (order : List Nat) (F : Nat) :
    ∀ (l : List Nat) (σ σ' : St), (∀ s ∈ l, s < names.length) → GoodKeys names.length σ →
      forRes (body_source names conn order F) l σ = .ok σ' → GoodKeys names.length σ' := by
  intro l
  induction l with
  | nil => intro σ σ' _ h hf; simp only [forRes] at hf; cases hf; exact h
  | cons s t ih =>
    intro σ σ' hl h hf
    rw [forRes, body_source] at hf
    simp only at hf
    have hs : s < names.length := hl s (by simp)
    cases hw : while1 names conn order F s F { σ with unvisitedNodes := setRemove (keysOf names) s } with
    | done o => rw [hw] at hf; simp at hf
    | ok σ1 =>
      rw [hw] at hf
      simp only at hf
      apply ih σ1 σ' (fun x hx => hl x (by simp [hx])) _ hf
      apply while1_keys names conn order F names.length s hs F
        { σ with unvisitedNodes := setRemove (keysOf names) s } σ1 _ h hw
      intro x hx
      obtain ⟨h1, h2⟩ := List.mem_filter.mp hx
      exact ⟨by simpa [keysOf] using h1, by simpa using h2⟩

/-! ### the connectivity test -/

/-- `max(max(distanceMap.values(), key=lambda x: max(x.values())).values())` on dicts with the keys of the first loop nest,
    at least two layouts: no `ValueError`, and the value is the model's `maxDist` -/
theorem final_max (n : Nat) (hn : 2 ≤ n) (D : Dict (Dict Nat)) (hk : KeysOK2 n D) (m : RouteMap)
    (hm : ∀ a b, m.d a b = D.get2 a b) :
    ∃ x, maxKey? D.values (fun x => maxNat? x.values) = some x ∧ maxNat? x.values = some (maxDist m n) := by
  have hvals : D.values = (List.range n).map D.val := by unfold Dict.values; rw [hk.1]
  have hrow : ∀ a, a < n → (D.val a).values = ((List.range n).filter (· ≠ a)).map (fun b => D.get2 a b) := by
    intro a ha; unfold Dict.values Dict.get2; rw [hk.2 a ha]
  have hrow_ne : ∀ a, a < n → (D.val a).values ≠ [] := by
    intro a ha
    rw [hrow a ha]
    have hmem : (if a = 0 then 1 else 0) ∈ (List.range n).filter (· ≠ a) := by
      by_cases h0 : a = 0
      · simp [h0]; omega
      · simp [h0]; omega
    intro e
    rw [List.map_eq_nil_iff] at e
    rw [e] at hmem; simp at hmem
  have hne : D.values ≠ [] := by
    rw [hvals]; intro e
    rw [List.map_eq_nil_iff, List.range_eq_nil] at e
    omega
  have hall : ∀ y ∈ D.values, ∃ k, (fun x : Dict Nat => maxNat? x.values) y = some k := by
    intro y hy
    rw [hvals] at hy
    obtain ⟨a, ha, rfl⟩ := List.mem_map.mp hy
    obtain ⟨v, hv, _⟩ := maxNat_spec _ (hrow_ne a (by simpa using ha))
    exact ⟨v, hv⟩
  obtain ⟨x, kx, hx, hmax, hkx, hdom⟩ := maxKey_spec (fun x : Dict Nat => maxNat? x.values) D.values hne hall
  refine ⟨x, hmax, ?_⟩
  rw [hkx]
  congr 1
  rw [hvals] at hx
  obtain ⟨a0, ha0, rfl⟩ := List.mem_map.mp hx
  have ha0 : a0 < n := by simpa using ha0
  obtain ⟨v, hv, hvmem, hvle⟩ := maxNat_spec _ (hrow_ne a0 ha0)
  rw [hkx] at hv; cases hv
  apply Nat.le_antisymm
  · -- attained at an existing entry
    rw [hrow a0 ha0] at hvmem
    obtain ⟨b0, hb0, rfl⟩ := List.mem_map.mp hvmem
    obtain ⟨hb0n, hb0a⟩ := List.mem_filter.mp hb0
    rw [← hm a0 b0]
    exact maxDist_ge m n a0 b0 ha0 (by simpa using hb0n) (by simpa using (Ne.symm (by simpa using hb0a)))
  · apply maxDist_le_dom
    intro a b ha hb hab
    obtain ⟨w, hw, _, hwle⟩ := maxNat_spec _ (hrow_ne a ha)
    have h1 : m.d a b ≤ w := by
      apply hwle
      rw [hrow a ha, hm a b]
      exact List.mem_map.mpr ⟨b, by simp [hb, Ne.symm hab], rfl⟩
    have h2 : w ≤ kx := hdom (D.val a) (by rw [hvals]; exact List.mem_map.mpr ⟨a, by simpa using ha, rfl⟩) w hw
    omega

end PygyroVerif.RoutesGen
