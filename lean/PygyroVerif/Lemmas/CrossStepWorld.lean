/-
Bridge theorem of C03, part 5: the executable `Swapper.crossStep` on all world ranks at once, the two branches without
communication: equal numbers of distributed directions (local axis permutation) and destination more distributed
(scatter = local slice of the replicated data).
-/
import PygyroVerif.Lemmas.CrossStepCompat
import PygyroVerif.Lemmas.CrossStepGather

namespace PygyroVerif.CS
open PygyroVerif PygyroVerif.Handler PygyroVerif.DS PygyroVerif.Swapper PygyroVerif.SwapperCompat
open PygyroVerif.SwapperTraceMatch

variable {α : Type}

/-! ### a loop over the ranks whose iteration `rank` only replaces the buffer of one role on that rank -/

theorem ranks_step (n y : Nat) (body : World α → Nat → Except String (World α)) (w : World α) (hy : y < w.size)
    (hyn : n ≤ (w.getD y #[]).size) (P : Nat → Array α → Prop)
    (hrank : ∀ rank, rank < n → ∃ out,
      (∀ acc : World α, acc.size = w.size → (∀ role, role ≠ y → acc.getD role #[] = w.getD role #[]) →
        World.get acc y rank = World.get w y rank → body acc rank = .ok (World.set acc y rank out)) ∧
      out.size = (World.get w y rank).size ∧ P rank out) :
    ∃ w', (List.range n).foldlM body w = .ok w' ∧ (∀ rank, rank < n → P rank (World.get w' y rank)) ∧
      (∀ r, r ≠ y → w'.getD r #[] = w.getD r #[]) ∧ w'.size = w.size ∧
      (w'.getD y #[]).size = (w.getD y #[]).size ∧
      (∀ rank, (World.get w' y rank).size = (World.get w y rank).size) := by
  have hrank' : ∀ rank, ∃ out, rank < n →
      (∀ acc : World α, acc.size = w.size → (∀ role, role ≠ y → acc.getD role #[] = w.getD role #[]) →
        World.get acc y rank = World.get w y rank → body acc rank = .ok (World.set acc y rank out)) ∧
      out.size = (World.get w y rank).size ∧ P rank out := by
    intro rank
    by_cases hr : rank < n
    · obtain ⟨out, hh⟩ := hrank rank hr
      exact ⟨out, fun _ => hh⟩
    · exact ⟨#[], fun hh => absurd hh hr⟩
  choose out hout using hrank'
  obtain ⟨h1, h2, h3, h4⟩ := setAll_spec y out w hy n hyn
  refine ⟨setAll n y out w, ?_, ?_, h2, h1, h3, ?_⟩
  · apply foldRanks_ok y _ w out hy n hyn
    intro acc rank hr hsz hother hsame
    exact (hout rank hr).1 acc hsz hother hsame
  · intro rank hr
    rw [h4 rank, if_pos hr]
    exact (hout rank hr).2.2
  · intro rank
    rw [h4 rank]
    split
    · rename_i hr; exact (hout rank hr).2.1
    · rfl

variable [Inhabited α]

/-! ### equal numbers of distributed directions -/

/-- what one rank does in the first branch of `_transpose` (:1291-1303) -/
def equalBody (S : Swapper) (kS kD x y : Nat) (acc : World α) (rank : Nat) : Except String (World α) := do
  let cS := (S.topo (S.locate kS).1).coords rank; let cD := (S.topo (S.locate kD).1).coords rank
  let src := acc.get x rank; let dst := acc.get y rank
  let some sv := View.chunk src.size 0 ((S.layoutOf kS).shape cS) | throw "value-error: source reshape"
  let some dv := View.chunk dst.size 0 ((S.layoutOf kD).shape cD) | throw "value-error: dest reshape"
  match assignView dst dv src (sv.transpose ((S.layoutOf kD).ord.map (fun d => (S.layoutOf kS).ord.idxOf d))) with
  | none => throw "value-error: could not broadcast (equal)"
  | some d => pure (acc.set y rank d)

theorem crossStep_equal_unfold (S : Swapper) (kS kD x y z : Nat) (w : World α)
    (h : nDistributed (S.handlerNprocs (S.locate kD).1) = nDistributed (S.handlerNprocs (S.locate kS).1)) :
    crossStep S kS kD x y z w = (List.range (prodL S.dims)).foldlM (equalBody S kS kD x y) w := by
  unfold crossStep
  simp only [h, if_true]
  rfl

/-- **equal numbers of distributed directions, all ranks** (`_transpose` / `_transpose_source_intact` first branch) -/
theorem crossStep_equal_world (S : Swapper) (hS : SwapperOK S) (kS kD : Nat) (hkS : kS < S.allNames.length)
    (hkD : kD < S.allNames.length) (hh : (S.locate kS).1 ≠ (S.locate kD).1)
    (hacc : S.compatibleLayout kS kD = true ∨ S.compatibleLayout kD kS = true)
    (heq : nDistributed (S.handlerNprocs (S.locate kD).1) = nDistributed (S.handlerNprocs (S.locate kS).1))
    (x y z : Nat) (w : World α) (G : List Nat → α) (hxy : x ≠ y) (hy : y < w.size)
    (hyn : prodL S.dims ≤ (w.getD y #[]).size)
    (hsz : ∀ rank, rank < prodL S.dims →
      ((S.layoutOf kD).shape ((S.topo (S.locate kD).1).coords rank)).prod ≤ (World.get w y rank).size)
    (hsrc : HoldsWorld (S.topo (S.locate kS).1) (S.layoutOf kS) G (w.getD x #[])) :
    ∃ w', crossStep S kS kD x y z w = .ok w' ∧
      HoldsWorld (S.topo (S.locate kD).1) (S.layoutOf kD) G (w'.getD y #[]) ∧
      (∀ r, r ≠ y → w'.getD r #[] = w.getD r #[]) ∧ w'.size = w.size ∧
      (w'.getD y #[]).size = (w.getD y #[]).size ∧
      (∀ rank, (World.get w' y rank).size = (World.get w y rank).size) := by
  obtain ⟨hoS, hlS⟩ := layoutOf_ordOK S hS kS hkS
  obtain ⟨hoD, hlD⟩ := layoutOf_ordOK S hS kD hkD
  rw [crossStep_equal_unfold S kS kD x y z w heq]
  obtain ⟨w', h1, h2, h3⟩ := ranks_step (prodL S.dims) y (equalBody S kS kD x y) w hy hyn
    (fun rank out => HoldsBlock (S.layoutOf kD) ((S.topo (S.locate kD).1).coords rank) G out)
    (by
      intro rank hr
      obtain ⟨sv, dv, out, e1, e2, e3, e4, e5⟩ := equal_rank_correct (S.handlerNprocs (S.locate kS).1)
        (S.handlerNprocs (S.locate kD).1) (S.layoutOf kS).ord (S.layoutOf kD).ord S.ext
        ((S.topo (S.locate kS).1).coords rank) ((S.topo (S.locate kD).1).coords rank) hoS hoD (by rw [hlS, hlD])
        (geom_same S hS kS kD hkS hkD hh hacc heq rank hr) G (World.get w x rank) (World.get w y rank)
        (hsrc rank hr) (hsz rank hr)
      refine ⟨out, ?_, e4, e5⟩
      intro acc _ hother hsame
      have hx : World.get acc x rank = World.get w x rank := by
        rw [World.get_def, World.get_def, hother x hxy]
      have e1' : View.chunk (World.get w x rank).size 0 ((S.layoutOf kS).shape ((S.topo (S.locate kS).1).coords rank)) =
          some sv := e1
      have e2' : View.chunk (World.get w y rank).size 0 ((S.layoutOf kD).shape ((S.topo (S.locate kD).1).coords rank)) =
          some dv := e2
      unfold equalBody
      simp only [hx, hsame, e1', e2', e3]
      rfl)
  exact ⟨w', h1, fun rank hr => h2 rank hr, h3⟩

/-! ### destination more distributed: scatter -/

/-- what one rank does in the scatter branch of `_transpose` (:1305-1330); `ax = getAxes(source, dest)` -/
def scatterBody (S : Swapper) (kS kD x y : Nat) (ax : Nat × Nat) (acc : World α) (rank : Nat) :
    Except String (World α) := do
  let cS := (S.topo (S.locate kS).1).coords rank; let cD := (S.topo (S.locate kD).1).coords rank
  let src := acc.get x rank; let dst := acc.get y rank
  let some sv := View.chunk src.size 0 ((S.layoutOf kS).shape cS) | throw "value-error: source reshape"
  let some dv := View.chunk dst.size 0 ((S.layoutOf kD).shape cD) | throw "value-error: dest reshape"
  let myRank := cD.getD ax.2 0
  let start := ((S.layoutOf kD).mpiStartsAt ax.2).getD myRank 0
  let len := ((S.layoutOf kD).mpiLengthsAt ax.2).getD myRank 0
  match assignView dst dv src ((sv.slice ax.1 start (start + len)).transpose
      ((S.layoutOf kD).ord.map (fun d => (S.layoutOf kS).ord.idxOf d))) with
  | none => throw "value-error: could not broadcast (scatter)"
  | some d => pure (acc.set y rank d)

theorem crossStep_scatter_unfold (S : Swapper) (kS kD x y z : Nat) (w : World α)
    (h : nDistributed (S.handlerNprocs (S.locate kD).1) > nDistributed (S.handlerNprocs (S.locate kS).1)) :
    crossStep S kS kD x y z w =
      (List.range (prodL S.dims)).foldlM (scatterBody S kS kD x y
        (S.getAxes (S.locate kS).1 (S.locate kD).1 (S.layoutOf kS) (S.layoutOf kD))) w := by
  unfold crossStep
  have h1 : ¬ nDistributed (S.handlerNprocs (S.locate kD).1) = nDistributed (S.handlerNprocs (S.locate kS).1) := by omega
  simp only [h1, h, if_true, if_false]
  rfl

/-- **destination more distributed, all ranks** (`_transpose` / `_transpose_source_intact` scatter branch): every rank
    takes its slice of the replicated data; only role `y` changes -/
theorem crossStep_scatter_world (S : Swapper) (hS : SwapperOK S) (kS kD : Nat) (hkS : kS < S.allNames.length)
    (hkD : kD < S.allNames.length) (hh : (S.locate kS).1 ≠ (S.locate kD).1)
    (hacc : S.compatibleLayout kS kD = true ∨ S.compatibleLayout kD kS = true)
    (hgt : nDistributed (S.handlerNprocs (S.locate kD).1) > nDistributed (S.handlerNprocs (S.locate kS).1))
    (x y z : Nat) (w : World α) (G : List Nat → α) (hxy : x ≠ y) (hy : y < w.size)
    (hyn : prodL S.dims ≤ (w.getD y #[]).size)
    (hsz : ∀ rank, rank < prodL S.dims →
      ((S.layoutOf kD).shape ((S.topo (S.locate kD).1).coords rank)).prod ≤ (World.get w y rank).size)
    (hsrc : HoldsWorld (S.topo (S.locate kS).1) (S.layoutOf kS) G (w.getD x #[])) :
    ∃ w', crossStep S kS kD x y z w = .ok w' ∧
      HoldsWorld (S.topo (S.locate kD).1) (S.layoutOf kD) G (w'.getD y #[]) ∧
      (∀ r, r ≠ y → w'.getD r #[] = w.getD r #[]) ∧ w'.size = w.size ∧
      (w'.getD y #[]).size = (w.getD y #[]).size ∧
      (∀ rank, (World.get w' y rank).size = (World.get w y rank).size) := by
  obtain ⟨hoS, hlS⟩ := layoutOf_ordOK S hS kS hkS
  obtain ⟨hoD, hlD⟩ := layoutOf_ordOK S hS kD hkD
  obtain ⟨cD, hcD⟩ := hS.comm (S.locate kD).1
  obtain ⟨jS, hjS, hjSo, hG, hidx, hgeo⟩ := geom_diff S hS kS kD hkS hkD hh hacc hgt
  set A := (S.layoutOf kD).ord.getD jS 0 with hA
  have hAD : A ∈ (S.layoutOf kD).ord := getD_mem _ jS 0 hjSo
  rw [crossStep_scatter_unfold S kS kD x y z w hgt, hG]
  obtain ⟨w', h1, h2, h3⟩ := ranks_step (prodL S.dims) y
    (scatterBody S kS kD x y ((S.layoutOf kS).ord.idxOf A, jS)) w hy hyn
    (fun rank out => HoldsBlock (S.layoutOf kD) ((S.topo (S.locate kD).1).coords rank) G out)
    (by
      intro rank hr
      obtain ⟨hsame, hwhole⟩ := hgeo rank hr
      have hco := topo_coords_ok S _ cD hcD rank hr
      have hmy := hco.2 jS hjS
      have hprocs : (S.layoutOf kD).procsAt jS = (S.handlerNprocs (S.locate kD).1).getD jS 1 := procsAt_make _ _ _ jS
      have hp : 0 < (S.layoutOf kD).procsAt jS := by rw [hprocs]; omega
      have hst : ((S.layoutOf kD).mpiStartsAt jS).getD (((S.topo (S.locate kD).1).coords rank).getD jS 0) 0 =
          startD (S.layoutOf kD) ((S.topo (S.locate kD).1).coords rank) A := by
        rw [mpiStarts_getD _ jS _ (by rw [hprocs]; exact hmy)]
        unfold startD Layout.startAt
        rw [hidx]
      have hln : ((S.layoutOf kD).mpiLengthsAt jS).getD (((S.topo (S.locate kD).1).coords rank).getD jS 0) 0 =
          lenD (S.layoutOf kD) ((S.topo (S.locate kD).1).coords rank) A := by
        rw [mpiLengths_getD _ jS _ (by rw [hprocs]; exact hmy)]
        unfold lenD Layout.startAt Layout.endAt blockLen
        rw [hidx]
      have hfit : startD (S.layoutOf kD) ((S.topo (S.locate kD).1).coords rank) A +
          lenD (S.layoutOf kD) ((S.topo (S.locate kD).1).coords rank) A ≤
          lenD (S.layoutOf kS) ((S.topo (S.locate kS).1).coords rank) A := by
        rw [hwhole.1]
        unfold startD lenD Layout.startAt Layout.endAt
        rw [hidx]
        have h1 := blockStart_le_succ ((S.layoutOf kD).extAt jS) ((S.layoutOf kD).procsAt jS)
          (((S.topo (S.locate kD).1).coords rank).getD jS 0) hp
        have h2 := blockStart_le_n ((S.layoutOf kD).extAt jS) ((S.layoutOf kD).procsAt jS)
          (((S.topo (S.locate kD).1).coords rank).getD jS 0 + 1) hp (by rw [hprocs]; omega)
        have h3 : (S.layoutOf kD).extAt jS = S.ext.getD A 0 := rfl
        omega
      obtain ⟨sv, dv, out, e1, e2, e3, e4, e5⟩ := scatter_rank_correct (S.handlerNprocs (S.locate kS).1)
        (S.handlerNprocs (S.locate kD).1) (S.layoutOf kS).ord (S.layoutOf kD).ord S.ext
        ((S.topo (S.locate kS).1).coords rank) ((S.topo (S.locate kD).1).coords rank) hoS hoD (by rw [hlS, hlD])
        A hAD (startD (S.layoutOf kD) ((S.topo (S.locate kD).1).coords rank) A)
        (lenD (S.layoutOf kD) ((S.topo (S.locate kD).1).coords rank) A)
        hsame rfl (by
          have := hwhole.2
          show startD (S.layoutOf kD) _ A = startD (S.layoutOf kS) _ A + _
          rw [this, Nat.zero_add]) hfit
        G (World.get w x rank) (World.get w y rank) (hsrc rank hr) (hsz rank hr)
      refine ⟨out, ?_, e4, e5⟩
      intro acc _ hother hsame'
      have hx : World.get acc x rank = World.get w x rank := by
        rw [World.get_def, World.get_def, hother x hxy]
      have e1' : View.chunk (World.get w x rank).size 0 ((S.layoutOf kS).shape ((S.topo (S.locate kS).1).coords rank)) =
          some sv := e1
      have e2' : View.chunk (World.get w y rank).size 0 ((S.layoutOf kD).shape ((S.topo (S.locate kD).1).coords rank)) =
          some dv := e2
      unfold scatterBody
      simp only [hx, hsame', e1', e2', hst, hln, e3]
      rfl)
  exact ⟨w', h1, fun rank hr => h2 rank hr, h3⟩

end PygyroVerif.CS
