/-
Bridge theorem of C01, part 1:
* the rank loops of `directStepT` (each iteration reads and writes the buffers of one rank only) as a pure update;
* a buffer that holds a block is at least as long as the block;
* **the local case** of a direct change of layout (`swapAxes = []`): the executable step moves the field correctly.
-/
import PygyroVerif.Lemmas.DirectStepLayout
import Mathlib.Tactic.Choose

namespace PygyroVerif.DS
open PygyroVerif PygyroVerif.Handler PygyroVerif.CopyBox

variable {α : Type}

/-! ### the world: roles × ranks -/

theorem World.getD_set_ne (w : World α) (role role' rank : Nat) (a : Array α) (h : role ≠ role') :
    (World.set w role' rank a).getD role #[] = w.getD role #[] := by
  unfold World.set
  rw [Array.getD_eq_getD_getElem?, Array.getD_eq_getD_getElem?, Array.getElem?_setIfInBounds]
  simp [Ne.symm h]

theorem World.getD_set_same (w : World α) (role rank : Nat) (a : Array α) (h : role < w.size) :
    (World.set w role rank a).getD role #[] = (w.getD role #[]).setIfInBounds rank a := by
  unfold World.set
  rw [Array.getD_eq_getD_getElem?, Array.getElem?_setIfInBounds]
  simp [h]

theorem World.size_set (w : World α) (role rank : Nat) (a : Array α) : (World.set w role rank a).size = w.size := by
  unfold World.set; simp

theorem World.get_def (w : World α) (role rank : Nat) : World.get w role rank = (w.getD role #[]).getD rank #[] := rfl

theorem World.get_set_same (w : World α) (role rank rank' : Nat) (a : Array α) (h : role < w.size) :
    World.get (World.set w role rank a) role rank' =
      if rank = rank' ∧ rank < (w.getD role #[]).size then a else World.get w role rank' := by
  rw [World.get_def, World.getD_set_same w role rank a h, World.get_def]
  generalize w.getD role #[] = row
  simp only [Array.getD_eq_getD_getElem?, Array.getElem?_setIfInBounds]
  by_cases h1 : rank = rank'
  · subst h1
    by_cases h2 : rank < row.size
    · simp [h2]
    · simp [h2]
  · simp [h1]

/-- writing `out rank` into the buffer of role `y` on every rank `< n` -/
def setAll (n y : Nat) (out : Nat → Array α) (w : World α) : World α :=
  (List.range n).foldl (fun acc rank => World.set acc y rank (out rank)) w

theorem setAll_succ (n y : Nat) (out : Nat → Array α) (w : World α) :
    setAll (n+1) y out w = World.set (setAll n y out w) y n (out n) := by
  unfold setAll
  rw [List.range_succ, List.foldl_append]
  rfl

theorem setAll_spec (y : Nat) (out : Nat → Array α) (w : World α) (hy : y < w.size) :
    ∀ n, n ≤ (w.getD y #[]).size →
      (setAll n y out w).size = w.size ∧
      (∀ role, role ≠ y → (setAll n y out w).getD role #[] = w.getD role #[]) ∧
      ((setAll n y out w).getD y #[]).size = (w.getD y #[]).size ∧
      (∀ rank, World.get (setAll n y out w) y rank = if rank < n then out rank else World.get w y rank) := by
  intro n
  induction n with
  | zero => intro _; simp [setAll]
  | succ n ih =>
    intro hn
    obtain ⟨h1, h2, h3, h4⟩ := ih (by omega)
    rw [setAll_succ]
    refine ⟨by rw [World.size_set, h1], ?_, ?_, ?_⟩
    · intro role hr
      rw [World.getD_set_ne _ _ _ _ _ hr, h2 role hr]
    · rw [World.getD_set_same _ _ _ _ (by omega), Array.size_setIfInBounds, h3]
    · intro rank
      rw [World.get_set_same _ _ _ _ _ (by omega), h4 rank]
      by_cases hrn : n = rank
      · subst hrn
        rw [if_pos ⟨rfl, by omega⟩, if_pos (by omega)]
      · rw [if_neg (fun hh => hrn hh.1)]
        by_cases h5 : rank < n
        · rw [if_pos h5, if_pos (by omega)]
        · rw [if_neg h5, if_neg (by omega)]

/-- a loop over the ranks whose iteration `rank` only replaces the buffer of role `y` on that rank, by a value
    `out rank` that depends only on the *initial* world, succeeds and is the pure update `setAll` -/
theorem foldRanks_ok (y : Nat) (body : World α → Nat → Except String (World α)) (w : World α) (out : Nat → Array α)
    (hy : y < w.size) :
    ∀ n, n ≤ (w.getD y #[]).size →
      (∀ acc rank, rank < n → acc.size = w.size → (∀ role, role ≠ y → acc.getD role #[] = w.getD role #[]) →
        World.get acc y rank = World.get w y rank → body acc rank = .ok (World.set acc y rank (out rank))) →
      (List.range n).foldlM body w = .ok (setAll n y out w) := by
  intro n
  induction n with
  | zero => intro _ _; rfl
  | succ n ih =>
    intro hn hbody
    rw [List.range_succ, List.foldlM_append, ih (by omega) (fun acc rank hr => hbody acc rank (by omega))]
    obtain ⟨h1, h2, _, h4⟩ := setAll_spec y out w hy n (by omega)
    have := hbody (setAll n y out w) n (by omega) h1 h2 (by rw [h4 n]; simp)
    simp only [List.foldlM_cons, List.foldlM_nil, bind, Except.bind, this]
    rw [setAll_succ]
    rfl

/-! ### a buffer that holds a block is long enough -/

theorem prod_le_of_ravel_lt : ∀ (shape : List Nat) (N : Nat),
    (∀ idx, InBox idx shape → Addr.ravel idx shape < N) → shape.prod ≤ N := by
  intro shape N h
  by_cases h0 : shape.prod = 0
  · omega
  · -- all extents are positive: take the last element of the box
    have key : ∀ (sh : List Nat), sh.prod ≠ 0 →
        InBox (sh.map (· - 1)) sh ∧ Addr.ravel (sh.map (· - 1)) sh + 1 = sh.prod := by
      intro sh
      induction sh with
      | nil => intro _; simp [InBox, Addr.ravel]
      | cons n ns ih =>
        intro hp
        rw [List.prod_cons] at hp
        have hn : n ≠ 0 := fun e => hp (by simp [e])
        have hns : ns.prod ≠ 0 := fun e => hp (by simp [e])
        obtain ⟨ib, ir⟩ := ih hns
        refine ⟨⟨by simp only; omega, ib⟩, ?_⟩
        simp only [List.map_cons, Addr.ravel, List.prod_cons]
        have : n = (n - 1) + 1 := by omega
        calc (n - 1) * ns.prod + Addr.ravel (ns.map (· - 1)) ns + 1
            = (n - 1) * ns.prod + ns.prod := by omega
          _ = ((n - 1) + 1) * ns.prod := by ring
          _ = n * ns.prod := by rw [← this]
    obtain ⟨ib, ir⟩ := key shape h0
    have := h _ ib
    omega

theorem holdsBlock_size (L : Layout) (c : List Nat) (G : List Nat → α) (buf : Array α) (h : HoldsBlock L c G buf) :
    (L.shape c).prod ≤ buf.size := by
  apply prod_le_of_ravel_lt
  intro idx hidx
  have := h idx hidx
  by_contra hlt
  rw [Array.getElem?_eq_none (by omega)] at this
  cases this

theorem size_eq_prod (L : Layout) (c : List Nat) : L.size c = (L.shape c).prod := by
  unfold Layout.size
  exact prodL_eq_prod _

/-! ### the local case -/
section Local
variable [Inhabited α]

/-- what one rank does in the local case -/
theorem local_rank_correct (np oS oD ext c : List Nat) (hpair : PairOK np oS oD ext) (hc : CoordsOK np c)
    (hdiff : diffAxes np oS oD = []) (G : List Nat → α) (src dst : Array α)
    (hsrc : HoldsBlock (Layout.make np oS ext) c G src)
    (hdst : ((Layout.make np oD ext).shape c).prod ≤ dst.size) :
    ∃ sv dv out,
      View.chunk src.size 0 ((Layout.make np oS ext).shape c) = some sv ∧
      View.chunk dst.size 0 ((Layout.make np oD ext).shape c) = some dv ∧
      assignView dst dv src (sv.transpose (oD.map (fun d => oS.idxOf d))) = some out ∧
      out.size = dst.size ∧ HoldsBlock (Layout.make np oD ext) c G out := by
  obtain ⟨hS, hD, hlen⟩ := hpair
  have hndS := hS.nodup
  have hndD := hD.nodup
  set LS := Layout.make np oS ext with hLS
  set LD := Layout.make np oD ext with hLD
  have hmemS : ∀ d, d < LS.ndims → d ∈ LS.ord := fun d hd => (hS.mem_iff d).mpr hd
  have hmemD : ∀ d, d < LD.ndims → d ∈ LD.ord := fun d hd => (hD.mem_iff d).mpr hd
  have hshS : LS.shape c = oS.map (lenD LS c) := shape_eq_map LS hndS c
  have hshD : LD.shape c = oD.map (lenD LD c) := shape_eq_map LD hndD c
  have hperm : oD.Perm oS := PairOK.perm ⟨hS, hD, hlen⟩
  have hpos : ∀ i, i < np.length → 1 ≤ np.getD i 1 := fun i hi => (hS.2.2.2 i hi).1
  -- every dimension has the same extent and start in both layouts
  have hsame : ∀ d ∈ oD, lenD LS c d = lenD LD c d ∧ startD LS c d = startD LD c d := by
    intro d hd
    have hdS : d ∈ oS := (hperm.mem_iff).mp hd
    exact same_of_not_diff np oS oD ext c hpos hc hndS hndD hlen d hdS hd (by rw [hdiff]; simp) (by rw [hdiff]; simp)
  have hfitS : 0 + (oS.map (lenD LS c)).prod ≤ src.size := by
    rw [← hshS, Nat.zero_add]; exact holdsBlock_size LS c G src hsrc
  have hfitD : 0 + (oD.map (lenD LD c)).prod ≤ dst.size := by
    rw [← hshD, Nat.zero_add]; exact hdst
  set Dd := DView.chunkD 0 oD (lenD LD c) with hDd
  set Ds0 := DView.chunkD 0 oS (lenD LS c) with hDs0
  set Ds : DView := { Ds0 with lab := oD } with hDs
  have haddrD : ∀ u, Dd.addr u = Addr.ravelD oD u (lenD LD c) := by
    intro u; rw [hDd, DView.chunkD_addr 0 oD hndD, Nat.zero_add]
  have haddrS : ∀ u, Ds.addr u = Addr.ravelD oS u (lenD LS c) := by
    intro u
    rw [hDs, DView.addr_perm Ds0 oD hperm u, hDs0, DView.chunkD_addr 0 oS hndS, Nat.zero_add]
  obtain ⟨out, hassign, hsize, hget, _⟩ := assign_DView dst src Dd Ds rfl hndD
    (fun d hd => (hsame d hd).1)
    (fun u hu => by
      rw [haddrD]
      exact lt_of_lt_of_le (Addr.ravelD_lt oD u _ hu) (by omega))
    (fun u u' hu hu' he => by
      rw [haddrD, haddrD] at he
      exact Addr.ravelD_inj oD u u' _ hu hu' he)
  refine ⟨Ds0.toView, Dd.toView, out, ?_, ?_, ?_, hsize, ?_⟩
  · rw [hshS]; exact DView.chunk_toView src.size 0 oS hndS _ hfitS
  · rw [hshD]; exact DView.chunk_toView dst.size 0 oD hndD _ hfitD
  · have htr := DView.toView_transpose_idxOf Ds0 oD (fun d hd => (hperm.mem_iff).mp hd)
    rw [show Ds0.lab = oS from rfl] at htr
    rw [htr]
    exact hassign
  · rw [holdsBlock_iff LD hndD hmemD]
    intro u hu
    have h1 := hget u hu
    rw [haddrD, haddrS] at h1
    show out[Addr.ravelD oD u (lenD LD c)]? = _
    rw [h1]
    have huS : ∀ d ∈ LS.ord, u d < lenD LS c d := by
      intro d hd
      have hdD : d ∈ oD := (hperm.mem_iff).mpr hd
      rw [(hsame d hdD).1]; exact hu d hdD
    have h2 := (holdsBlock_iff LS hndS hmemS c G src).mp hsrc u huS
    have h3 : Addr.ravelD LS.ord u (lenD LS c) = Addr.ravelD oS u (lenD LS c) := rfl
    rw [h3] at h2
    rw [Array.getD_eq_getD_getElem?, h2, Option.getD_some]
    congr 2
    have hnd : LS.ndims = LD.ndims := hlen
    rw [hnd]
    apply List.map_congr_left
    intro d hd
    rw [(hsame d (hmemD d (List.mem_range.mp hd))).2]

/-- `swapAxes = []` means no differing distributed axis -/
theorem diffAxes_nil_of_swapAxes_nil (np oS oD : List Nat) (h : swapAxes np oS oD = []) : diffAxes np oS oD = [] := by
  unfold swapAxes at h
  cases hd : diffAxes np oS oD with
  | nil => rfl
  | cons a l => rw [hd] at h; simp at h

/-- **local case of one direct change of layout** (`_transpose` / `_transpose_source_intact` when the two orderings
    differ only in undistributed axes, layout.py:639-649 / 672-678), executable model, all ranks at once: if role `x`
    holds the field `G` in the source layout on every rank and the buffers of role `y` can take the destination blocks,
    the step raises nothing, role `y` then holds `G` in the destination layout, every role other than `y` is unchanged
    (the spare role `z` is not touched at all) and no buffer changes its length. -/
theorem directStepT_local (T : Topo) (h : Handler) (iS iD x y z : Nat) (w : World α) (G : List Nat → α)
    (hpair : PairOK h.nprocs (h.orders.getD iS []) (h.orders.getD iD []) h.ext)
    (hT : ∀ rank, rank < T.nRanks → CoordsOK h.nprocs (T.coords rank))
    (hax : swapAxes h.nprocs (h.layoutAt iS).ord (h.layoutAt iD).ord = [])
    (hxy : x ≠ y) (hy : y < w.size) (hyn : T.nRanks ≤ (w.getD y #[]).size)
    (hsz : ∀ rank, rank < T.nRanks → (h.layoutAt iD).size (T.coords rank) ≤ (World.get w y rank).size)
    (hsrc : HoldsWorld T (h.layoutAt iS) G (w.getD x #[])) :
    ∃ w', directStepT true T h iS iD x y z w = .ok w' ∧
      HoldsWorld T (h.layoutAt iD) G (w'.getD y #[]) ∧
      (∀ r, r ≠ y → w'.getD r #[] = w.getD r #[]) ∧
      w'.size = w.size ∧ (w'.getD y #[]).size = (w.getD y #[]).size ∧
      (∀ rank, (World.get w' y rank).size = (World.get w y rank).size) := by
  have hdiff := diffAxes_nil_of_swapAxes_nil _ _ _ hax
  -- per-rank results
  have hrank : ∀ rank, rank < T.nRanks → ∃ sv dv out,
      View.chunk (World.get w x rank).size 0 ((h.layoutAt iS).shape (T.coords rank)) = some sv ∧
      View.chunk (World.get w y rank).size 0 ((h.layoutAt iD).shape (T.coords rank)) = some dv ∧
      assignView (World.get w y rank) dv (World.get w x rank)
        (sv.transpose ((h.layoutAt iD).ord.map (fun d => (h.layoutAt iS).ord.idxOf d))) = some out ∧
      out.size = (World.get w y rank).size ∧ HoldsBlock (h.layoutAt iD) (T.coords rank) G out := by
    intro rank hr
    exact local_rank_correct h.nprocs _ _ h.ext (T.coords rank) hpair (hT rank hr) hdiff G _ _ (hsrc rank hr)
      (by rw [← size_eq_prod]; exact hsz rank hr)
  have hrank' : ∀ rank, ∃ out, rank < T.nRanks → ∃ sv dv,
      View.chunk (World.get w x rank).size 0 ((h.layoutAt iS).shape (T.coords rank)) = some sv ∧
      View.chunk (World.get w y rank).size 0 ((h.layoutAt iD).shape (T.coords rank)) = some dv ∧
      assignView (World.get w y rank) dv (World.get w x rank)
        (sv.transpose ((h.layoutAt iD).ord.map (fun d => (h.layoutAt iS).ord.idxOf d))) = some out ∧
      out.size = (World.get w y rank).size ∧ HoldsBlock (h.layoutAt iD) (T.coords rank) G out := by
    intro rank
    by_cases hr : rank < T.nRanks
    · obtain ⟨sv, dv, out, hh⟩ := hrank rank hr
      exact ⟨out, fun _ => ⟨sv, dv, hh⟩⟩
    · exact ⟨#[], fun hh => absurd hh hr⟩
  choose out hout using hrank'
  refine ⟨setAll T.nRanks y out w, ?_, ?_, ?_⟩
  · unfold directStepT
    simp only [hax, List.length_nil, if_true]
    apply foldRanks_ok y _ w out hy T.nRanks hyn
    intro acc rank hr _ hother hsame
    obtain ⟨sv, dv, h1, h2, h3, _, _⟩ := hout rank hr
    have hx : World.get acc x rank = World.get w x rank := by
      rw [World.get_def, World.get_def, hother x hxy]
    simp only [hx, hsame, h1, h2, h3]
    rfl
  · obtain ⟨_, _, _, h4⟩ := setAll_spec y out w hy T.nRanks hyn
    intro rank hr
    have := h4 rank
    rw [World.get_def] at this
    rw [this, if_pos hr]
    obtain ⟨_, _, _, _, _, _, hh⟩ := hout rank hr
    exact hh
  · obtain ⟨h1, h2, h3, h4⟩ := setAll_spec y out w hy T.nRanks hyn
    refine ⟨fun r hr => h2 r hr, h1, h3, ?_⟩
    intro rank
    rw [h4 rank]
    split
    · rename_i hr
      obtain ⟨_, _, _, _, _, hs, _⟩ := hout rank hr
      exact hs
    · rfl

end Local
end PygyroVerif.DS
