/- Helper lemmas on the balanced split (used by Props/C02, C01, C03, C17, C18). -/
import PygyroVerif.Model.Blocks
import Mathlib.Tactic.Ring
import Mathlib.Tactic.Linarith
import Mathlib.Algebra.Order.Ring.Nat

namespace PygyroVerif

theorem blockStart_succ_ge (n p k : Nat) (_hp : 0 < p) :
    blockStart n p k + n / p ≤ blockStart n p (k+1) := by
  unfold blockStart
  set s := n / p; set b := n % p
  have h1 : b * (k+1) = b * k + b := by ring
  have h2 : b * k / p ≤ (b * k + b) / p := Nat.div_le_div_right (by omega)
  rw [h1]; nlinarith [h2]

theorem blockStart_succ_le (n p k : Nat) (hp : 0 < p) :
    blockStart n p (k+1) ≤ blockStart n p k + n / p + 1 := by
  unfold blockStart
  have hb : n % p < p := Nat.mod_lt _ hp
  set s := n / p; set b := n % p
  have h1 : b * (k+1) = b * k + b := by ring
  have h3 : (b * k + b) / p ≤ b * k / p + 1 := by
    have : (b * k + b) / p ≤ (b * k + p) / p := Nat.div_le_div_right (by omega)
    rwa [Nat.add_div_right _ hp] at this
  rw [h1]; nlinarith [h3]

theorem blockStart_le_succ (n p k : Nat) (hp : 0 < p) : blockStart n p k ≤ blockStart n p (k+1) :=
  Nat.le_trans (Nat.le_add_right _ _) (blockStart_succ_ge n p k hp)

theorem blockStart_mono (n p : Nat) (hp : 0 < p) {j k : Nat} (h : j ≤ k) :
    blockStart n p j ≤ blockStart n p k := by
  induction k with
  | zero => have : j = 0 := by omega
            subst this; exact Nat.le_refl _
  | succ k ih =>
    rcases Nat.lt_or_ge j (k+1) with hlt | hge
    · exact Nat.le_trans (ih (by omega)) (blockStart_le_succ n p k hp)
    · have : j = k + 1 := by omega
      subst this; exact Nat.le_refl _

theorem blockStart_zero' (n p : Nat) : blockStart n p 0 = 0 := by simp [blockStart]

theorem blockStart_last' (n p : Nat) (hp : 0 < p) : blockStart n p p = n := by
  unfold blockStart; rw [Nat.mul_div_cancel _ hp]; exact Nat.div_add_mod' n p

theorem blockStart_le_n (n p k : Nat) (hp : 0 < p) (hk : k ≤ p) : blockStart n p k ≤ n := by
  have := blockStart_mono n p hp hk
  rwa [blockStart_last' n p hp] at this

/-- existence of the owner: a discrete intermediate-value argument -/
theorem owner_exists (n p : Nat) (hp : 0 < p) (g : Nat) (hg : g < n) :
    ∃ k, k < p ∧ blockStart n p k ≤ g ∧ g < blockStart n p (k+1) := by
  -- largest k ≤ p with start k ≤ g
  have key : ∀ m, m ≤ p → g < blockStart n p m →
      ∃ k, k < m ∧ blockStart n p k ≤ g ∧ g < blockStart n p (k+1) := by
    intro m
    induction m with
    | zero => intro _ h; simp [blockStart_zero'] at h
    | succ m ih =>
      intro hm h
      rcases Nat.lt_or_ge g (blockStart n p m) with hlt | hge
      · obtain ⟨k, hk, h1, h2⟩ := ih (by omega) hlt
        exact ⟨k, by omega, h1, h2⟩
      · exact ⟨m, by omega, hge, h⟩
  obtain ⟨k, hk, h1, h2⟩ := key p (Nat.le_refl _) (by rw [blockStart_last' n p hp]; exact hg)
  exact ⟨k, hk, h1, h2⟩

theorem owner_unique (n p : Nat) (hp : 0 < p) (g j k : Nat)
    (hj : blockStart n p j ≤ g ∧ g < blockStart n p (j+1))
    (hk : blockStart n p k ≤ g ∧ g < blockStart n p (k+1)) : j = k := by
  rcases Nat.lt_trichotomy j k with h | h | h
  · have := blockStart_mono n p hp (show j + 1 ≤ k by omega); omega
  · exact h
  · have := blockStart_mono n p hp (show k + 1 ≤ j by omega); omega

end PygyroVerif
