/-
Bridge theorem of C01: the three stages of the communicating case put together on one rank.
Pointwise meaning of the executable `Alltoall` (`Handler.alltoallAxis`), the requirements on the process topology,
and the chain  destination cell ← received cell ← packed cell of the owner ← source cell of the owner = G.
-/
import PygyroVerif.Lemmas.DirectStepRearrange

namespace PygyroVerif.DS
open PygyroVerif PygyroVerif.Handler PygyroVerif.CopyBox

variable {α : Type} [Inhabited α]

/-! ### the topology -/

/-- what the transposes need from the process topology: every rank has valid coordinates, and `partner r a q` is a
    rank whose coordinates are those of `r` with entry `a` replaced by `q` -/
structure TopoOK (T : Topo) (np : List Nat) : Prop where
  coords : ∀ r, r < T.nRanks → CoordsOK np (T.coords r)
  partner_lt : ∀ r, r < T.nRanks → ∀ a, a < np.length → ∀ q, q < np.getD a 1 → T.partner r a q < T.nRanks
  partner_coords : ∀ r, r < T.nRanks → ∀ a, a < np.length → ∀ q, q < np.getD a 1 →
    T.coords (T.partner r a q) = (T.coords r).set a q

theorem getD_set_eq (c : List Nat) (a q : Nat) (ha : a < c.length) : (c.set a q).getD a 0 = q := by
  rw [getD_lt _ a (by simpa using ha) 0, List.getElem_set_self]

theorem getD_set_ne (c : List Nat) (a q i : Nat) (hne : i ≠ a) : (c.set a q).getD i 0 = c.getD i 0 := by
  rw [List.getD_eq_getElem?_getD, List.getD_eq_getElem?_getD, List.getElem?_set_ne (Ne.symm hne)]

theorem coordsOK_set (np c : List Nat) (hc : CoordsOK np c) (a q : Nat) (ha : a < np.length) (hq : q < np.getD a 1) :
    CoordsOK np (c.set a q) := by
  refine ⟨by rw [List.length_set]; exact hc.1, ?_⟩
  intro i hi
  by_cases hia : i = a
  · subst hia; rw [getD_set_eq c i q (by rw [hc.1]; exact ha)]; exact hq
  · rw [getD_set_ne c a q i hia]; exact hc.2 i hi

/-! ### blocks of the ranks of one sub-communicator -/

/-- dimensions other than `A` have the same local extent and start on all ranks of the sub-communicator of axis `a0` -/
theorem lenS_set (np oS ext : List Nat) (a0 : Nat) (c : List Nat) (q : Nat) (d : Nat) (hd : d ∈ oS) (hA : d ≠ oS.getD a0 0) :
    lenD (Layout.make np oS ext) (c.set a0 q) d = lenD (Layout.make np oS ext) c d ∧
    startD (Layout.make np oS ext) (c.set a0 q) d = startD (Layout.make np oS ext) c d := by
  rw [lenD_make np oS ext _ d hd, lenD_make np oS ext _ d hd, startD_make np oS ext _ d hd, startD_make np oS ext _ d hd,
    getD_set_ne c a0 q _ (Comm.idxS_ne d hd hA)]
  exact ⟨rfl, rfl⟩


theorem packBlk_set (np oS oD ext : List Nat) (a0 : Nat) (c : List Nat) (q : Nat) (d : Nat) (hd : d ∈ oS) :
    packBlk np oS oD ext a0 (c.set a0 q) d = packBlk np oS oD ext a0 c d := by
  unfold packBlk
  by_cases hdB : d = oD.getD a0 0
  · rw [hdB, Function.update_self, Function.update_self]
  · rw [Function.update_of_ne hdB, Function.update_of_ne hdB]
    by_cases hdA : d = oS.getD a0 0
    · rw [hdA, Function.update_self, Function.update_self]
    · rw [Function.update_of_ne hdA, Function.update_of_ne hdA]
      exact (lenS_set np oS ext a0 c q d hd hdA).1

section SubComm
variable {np oS oD ext : List Nat} {a0 : Nat} (H : Comm np oS oD ext a0) (c : List Nat) (q : Nat)
include H

theorem packSize_set : packSize np oS oD ext a0 (c.set a0 q) = packSize np oS oD ext a0 c := by
  unfold packSize
  have h0 : 0 < oS.length := Nat.lt_of_le_of_lt (Nat.zero_le _) H.a0_ltS
  rw [List.map_congr_left (fun d hd => packBlk_set np oS oD ext a0 c q d (((swapL_perm oS 0 a0 h0 H.a0_ltS).mem_iff).mp hd))]

end SubComm

/-! ### the chain on one rank -/

/-- **one rank of the communicating case**: if every rank's source buffer holds `G` in the source layout, every rank's
    send buffer satisfies the conclusion of stage 1, this rank's receive buffer that of the `Alltoall`, and this
    rank's destination buffer that of stage 3, then this rank's destination buffer holds `G` in the destination layout. -/
theorem comm_rank_correct {np oS oD ext : List Nat} {a0 : Nat} (H : Comm np oS oD ext a0) (T : Topo) (hT : TopoOK T np)
    (G : List Nat → α) (rank : Nat) (hrank : rank < T.nRanks) (srcs packs : Nat → Array α) (rcv dst : Array α)
    (hsrc : ∀ r, r < T.nRanks → HoldsBlock (Layout.make np oS ext) (T.coords r) G (srcs r))
    (h1 : ∀ r, r < T.nRanks → ∀ j, j < np.getD a0 1 → ∀ u : Nat → Nat,
        (∀ d ∈ oS, u d < Function.update (lenD (Layout.make np oS ext) (T.coords r)) (oD.getD a0 0)
            (blockLen (ext.getD (oD.getD a0 0) 0) (np.getD a0 1) j) d) →
        (packs r)[j * packSize np oS oD ext a0 (T.coords r) +
            Addr.ravelD (swapL oS 0 a0) u (packBlk np oS oD ext a0 (T.coords r))]? =
          some ((srcs r).getD (Addr.ravelD oS
            (Function.update u (oD.getD a0 0) (blockStart (ext.getD (oD.getD a0 0) 0) (np.getD a0 1) j + u (oD.getD a0 0)))
            (lenD (Layout.make np oS ext) (T.coords r))) default))
    (h2 : ∀ q, q < np.getD a0 1 → ∀ j, j < packSize np oS oD ext a0 (T.coords rank) →
        rcv[q * packSize np oS oD ext a0 (T.coords rank) + j]? =
          some ((packs (T.partner rank a0 q)).getD
            ((T.coords rank).getD a0 0 * packSize np oS oD ext a0 (T.coords rank) + j) default))
    (h3 : ∀ q, q < np.getD a0 1 → ∀ u : Nat → Nat,
        (∀ d ∈ oD, u d < Function.update (lenD (Layout.make np oD ext) (T.coords rank)) (oS.getD a0 0)
            (blockLen (ext.getD (oS.getD a0 0) 0) (np.getD a0 1) q) d) →
        dst[Addr.ravelD oD (Function.update u (oS.getD a0 0)
              (blockStart (ext.getD (oS.getD a0 0) 0) (np.getD a0 1) q + u (oS.getD a0 0)))
            (lenD (Layout.make np oD ext) (T.coords rank))]? =
          some (rcv.getD (Addr.ravelD (swapL oS 0 a0)
            (Function.update u (oS.getD a0 0) (q * maxBlock (ext.getD (oS.getD a0 0) 0) (np.getD a0 1) + u (oS.getD a0 0)))
            (exchBlk np oS oD ext a0 (T.coords rank))) default)) :
    HoldsBlock (Layout.make np oD ext) (T.coords rank) G dst := by
  -- abbreviations are kept explicit; `c` are the coordinates of this rank
  have hc := hT.coords rank hrank
  have hp0 : 0 < np.getD a0 1 := by have := H.mem.2.1; omega
  have hndS := H.ndS
  have hndD := H.ndD
  have h0 : 0 < oS.length := Nat.lt_of_le_of_lt (Nat.zero_le _) H.a0_ltS
  have hpermS : (swapL oS 0 a0).Perm oS := swapL_perm oS 0 a0 h0 H.a0_ltS
  have hmemD : ∀ d, d < (Layout.make np oD ext).ndims → d ∈ (Layout.make np oD ext).ord :=
    fun d hd => (H.pair.2.1.mem_iff d).mpr hd
  have hmemS : ∀ d, d < (Layout.make np oS ext).ndims → d ∈ (Layout.make np oS ext).ord :=
    fun d hd => (H.pair.1.mem_iff d).mpr hd
  have hme : (T.coords rank).getD a0 0 < np.getD a0 1 := hc.2 a0 H.mem.1
  rw [holdsBlock_iff _ hndD hmemD]
  intro v hv
  have hord : (Layout.make np oD ext).ord = oD := rfl
  rw [hord] at hv ⊢
  -- the owner of the `A`-index
  have hwA := H.wholeD_A (T.coords rank) hc
  have hvA : v (oS.getD a0 0) < ext.getD (oS.getD a0 0) 0 := by
    have := hv _ H.A_memD; rwa [hwA.1] at this
  obtain ⟨q, hq, hq1, hq2⟩ := owner_exists _ _ hp0 _ hvA
  set cq := (T.coords rank).set a0 q with hcq
  have hpq := hT.partner_lt rank hrank a0 H.mem.1 q hq
  have hcoq : T.coords (T.partner rank a0 q) = cq := hT.partner_coords rank hrank a0 H.mem.1 q hq
  have hcqOK : CoordsOK np cq := coordsOK_set np _ hc a0 q H.mem.1 hq
  have hcqa0 : cq.getD a0 0 = q := getD_set_eq _ a0 q (by rw [hc.1]; exact H.mem.1)
  -- the element inside block q
  set u : Nat → Nat := Function.update v (oS.getD a0 0)
    (v (oS.getD a0 0) - blockStart (ext.getD (oS.getD a0 0) 0) (np.getD a0 1) q) with hu
  have huA : u (oS.getD a0 0) = v (oS.getD a0 0) - blockStart (ext.getD (oS.getD a0 0) 0) (np.getD a0 1) q := by
    rw [hu, Function.update_self]
  have hune : ∀ d, d ≠ oS.getD a0 0 → u d = v d := fun d hd => by rw [hu, Function.update_of_ne hd]
  -- stage 3
  have hbox3 : ∀ d ∈ oD, u d < Function.update (lenD (Layout.make np oD ext) (T.coords rank)) (oS.getD a0 0)
      (blockLen (ext.getD (oS.getD a0 0) 0) (np.getD a0 1) q) d := by
    intro d hd
    by_cases hdA : d = oS.getD a0 0
    · rw [hdA, Function.update_self, huA]; unfold blockLen; omega
    · rw [Function.update_of_ne hdA, hune d hdA]; exact hv d hd
  have e3 := h3 q hq u hbox3
  have hveq : Addr.ravelD oD v (lenD (Layout.make np oD ext) (T.coords rank)) =
      Addr.ravelD oD (Function.update u (oS.getD a0 0)
        (blockStart (ext.getD (oS.getD a0 0) 0) (np.getD a0 1) q + u (oS.getD a0 0)))
        (lenD (Layout.make np oD ext) (T.coords rank)) := by
    apply Addr.ravelD_congr _ _ _ _ _ _ (fun _ _ => rfl)
    intro d _
    by_cases hdA : d = oS.getD a0 0
    · rw [hdA, Function.update_self, huA]; omega
    · rw [Function.update_of_ne hdA, hune d hdA]
  rw [hveq, e3]
  -- the received cell is cell `off` of block q
  obtain ⟨rest, hrest, hAr⟩ := eq_cons_of_head (swapL oS 0 a0) (oS.getD a0 0) (by rw [swapL_length]; exact h0)
    (swapL_head oS a0 h0 H.a0_ltS) ((hpermS.nodup_iff).mpr hndS)
  obtain ⟨hb1, hb2, hb3⟩ := blk_facts H (T.coords rank)
  have hblock := Addr.ravelD_block (oS.getD a0 0) rest hAr u (packBlk np oS oD ext a0 (T.coords rank)) q
    (maxBlock (ext.getD (oS.getD a0 0) 0) (np.getD a0 1)) (np.getD a0 1) hb3
  have hexch : Function.update (packBlk np oS oD ext a0 (T.coords rank)) (oS.getD a0 0)
      (np.getD a0 1 * maxBlock (ext.getD (oS.getD a0 0) 0) (np.getD a0 1)) = exchBlk np oS oD ext a0 (T.coords rank) := rfl
  rw [hexch, ← hrest] at hblock
  have hbs : ((swapL oS 0 a0).map (packBlk np oS oD ext a0 (T.coords rank))).prod = packSize np oS oD ext a0 (T.coords rank) := rfl
  rw [hbs] at hblock
  rw [← hblock]
  -- the offset lies inside the block
  have hwB := H.wholeS_B (T.coords rank) hc
  have hboxu : ∀ d ∈ oS, u d < Function.update (lenD (Layout.make np oS ext) cq) (oD.getD a0 0)
      (blockLen (ext.getD (oD.getD a0 0) 0) (np.getD a0 1) ((T.coords rank).getD a0 0)) d := by
    intro d hd
    have hdD : d ∈ oD := (H.perm.mem_iff).mpr hd
    by_cases hdB : d = oD.getD a0 0
    · rw [hdB, Function.update_self, hune _ (Ne.symm H.mem.2.2)]
      have := hv _ H.B_memD
      rw [H.lenD_B (T.coords rank)] at this
      exact this
    · rw [Function.update_of_ne hdB]
      by_cases hdA : d = oS.getD a0 0
      · rw [hdA, huA, H.lenS_A cq, hcqa0]; omega
      · rw [hune d hdA, (lenS_set np oS ext a0 (T.coords rank) q d hd hdA).1, (H.other (T.coords rank) hc d hd hdA hdB).1]
        exact hv d hdD
  have hin : Addr.InBoxD (swapL oS 0 a0) u (packBlk np oS oD ext a0 (T.coords rank)) := by
    intro d hd
    have hdS : d ∈ oS := (hpermS.mem_iff).mp hd
    have h5 := hboxu d hdS
    by_cases hdB : d = oD.getD a0 0
    · rw [hdB, Function.update_self] at h5
      rw [hdB, hb2]
      exact lt_of_lt_of_le h5 (blockLen_le_maxBlock _ _ _ hp0)
    · rw [Function.update_of_ne hdB] at h5
      by_cases hdA : d = oS.getD a0 0
      · rw [hdA, H.lenS_A cq] at h5
        rw [hdA, hb3]
        exact lt_of_lt_of_le h5 (blockLen_le_maxBlock _ _ _ hp0)
      · rw [(lenS_set np oS ext a0 (T.coords rank) q d hdS hdA).1] at h5
        exact lt_of_lt_of_le h5 (hb1 d hdS hdB)
  have hoff := Addr.ravelD_lt (swapL oS 0 a0) u _ hin
  rw [hbs] at hoff
  -- stage 2
  rw [Array.getD_eq_getD_getElem?, h2 q hq _ hoff, Option.getD_some]
  -- stage 1 on the owner
  have e1 := h1 (T.partner rank a0 q) hpq ((T.coords rank).getD a0 0) hme u (by rw [hcoq]; exact hboxu)
  rw [hcoq, packSize_set H (T.coords rank) q] at e1
  have hblkeq : Addr.ravelD (swapL oS 0 a0) u (packBlk np oS oD ext a0 cq) =
      Addr.ravelD (swapL oS 0 a0) u (packBlk np oS oD ext a0 (T.coords rank)) := by
    apply Addr.ravelD_congr _ _ _ _ _ (fun _ _ => rfl)
    intro d hd
    exact packBlk_set np oS oD ext a0 (T.coords rank) q d ((hpermS.mem_iff).mp hd)
  rw [hblkeq] at e1
  rw [Array.getD_eq_getD_getElem?, e1, Option.getD_some]
  -- the source cell of the owner holds G
  set w' : Nat → Nat := Function.update u (oD.getD a0 0)
    (blockStart (ext.getD (oD.getD a0 0) 0) (np.getD a0 1) ((T.coords rank).getD a0 0) + u (oD.getD a0 0)) with hw'
  have hwB' : w' (oD.getD a0 0) =
      blockStart (ext.getD (oD.getD a0 0) 0) (np.getD a0 1) ((T.coords rank).getD a0 0) + v (oD.getD a0 0) := by
    rw [hw', Function.update_self, hune _ (Ne.symm H.mem.2.2)]
  have hw'ne : ∀ d, d ≠ oD.getD a0 0 → w' d = u d := fun d hd => by rw [hw', Function.update_of_ne hd]
  have hboxw : ∀ d ∈ (Layout.make np oS ext).ord, w' d < lenD (Layout.make np oS ext) cq d := by
    intro d hd
    have hdS : d ∈ oS := hd
    have h5 := hboxu d hdS
    by_cases hdB : d = oD.getD a0 0
    · rw [hdB, hwB', (H.wholeS_B cq hcqOK).1]
      have h6 := hv _ H.B_memD
      rw [H.lenD_B (T.coords rank)] at h6
      have h7 := blockStart_le_n (ext.getD (oD.getD a0 0) 0) (np.getD a0 1) ((T.coords rank).getD a0 0 + 1) hp0 (by omega)
      omega
    · rw [Function.update_of_ne hdB] at h5
      rw [hw'ne d hdB]; exact h5
  have e0 := (holdsBlock_iff _ hndS hmemS cq G (srcs (T.partner rank a0 q))).mp (by rw [← hcoq]; exact hsrc _ hpq) w' hboxw
  have hordS : (Layout.make np oS ext).ord = oS := rfl
  rw [hordS] at e0
  rw [Array.getD_eq_getD_getElem?, e0, Option.getD_some]
  -- the global indices agree
  congr 2
  have hnd : (Layout.make np oS ext).ndims = (Layout.make np oD ext).ndims := H.pair.2.2
  rw [hnd]
  apply List.map_congr_left
  intro d hd
  have hdD : d ∈ oD := hmemD d (List.mem_range.mp hd)
  have hdS : d ∈ oS := (H.perm.mem_iff).mp hdD
  by_cases hdA : d = oS.getD a0 0
  · rw [hdA, hw'ne _ H.mem.2.2, huA, H.startS_A cq, hcqa0, hwA.2]; omega
  · by_cases hdB : d = oD.getD a0 0
    · rw [hdB, hwB', (H.wholeS_B cq hcqOK).2, H.startD_B (T.coords rank)]; omega
    · rw [hw'ne d hdB, hune d hdA, (lenS_set np oS ext a0 (T.coords rank) q d hdS hdA).2, (H.other (T.coords rank) hc d hdS hdA hdB).2]

end PygyroVerif.DS
