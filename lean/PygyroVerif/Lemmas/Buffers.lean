/-
Buffer-copy lemmas: `copyPrefix` / `copyWhole` (`dest[:] = source`) of Model/NDView.lean, Model/Handler.lean.
-/
import PygyroVerif.Model.Handler
import Mathlib.Tactic.ByContra
import Mathlib.Tactic.Set
import Mathlib.Logic.Basic

namespace PygyroVerif.Buffers
open PygyroVerif PygyroVerif.Handler

/-- writing `f i` at every index `i < n` -/
def writeRange {α} (dst : Array α) (f : Nat → α) (n : Nat) : Array α :=
  (List.range n).foldl (fun acc i => acc.setIfInBounds i (f i)) dst

theorem writeRange_size {α} (dst : Array α) (f : Nat → α) (n : Nat) : (writeRange dst f n).size = dst.size := by
  unfold writeRange
  induction n with
  | zero => rfl
  | succ n ih => rw [List.range_succ, List.foldl_append]; simp only [List.foldl_cons, List.foldl_nil, Array.size_setIfInBounds, ih]

theorem writeRange_get? {α} (dst : Array α) (f : Nat → α) (n k : Nat) :
    (writeRange dst f n)[k]? = if k < n ∧ k < dst.size then some (f k) else dst[k]? := by
  induction n with
  | zero => simp [writeRange]
  | succ n ih =>
    have hs := writeRange_size dst f n
    unfold writeRange at ih hs ⊢
    rw [List.range_succ, List.foldl_append]
    simp only [List.foldl_cons, List.foldl_nil, Array.getElem?_setIfInBounds, hs]
    by_cases hk : n = k
    · subst hk
      by_cases hb : n < dst.size
      · simp [hb]
      · have : dst[n]? = none := by simp [Array.getElem?_eq_none_iff]; omega
        simp [hb, this]
    · simp only [hk, ↓reduceIte, ih]
      by_cases h1 : k < n
      · have : k < n + 1 := by omega
        simp [h1, this]
      · have : ¬ k < n + 1 := by omega
        simp [h1, this]

theorem copyPrefix_eq {α} [Inhabited α] (dst src : Array α) (n : Nat) :
    copyPrefix dst src n = writeRange dst (fun i => src.getD i default) n := rfl

/-- `dest[:] = source` between buffers of equal length copies everything -/
theorem copyPrefix_full {α} [Inhabited α] (dst src : Array α) (h : dst.size = src.size) :
    copyPrefix dst src src.size = src := by
  apply Array.ext_getElem?
  intro k
  rw [copyPrefix_eq, writeRange_get?]
  by_cases hk : k < src.size
  · simp [hk, h, Array.getD_eq_getD_getElem?]
  · have h1 : src[k]? = none := by simp [Array.getElem?_eq_none_iff]; omega
    have h2 : dst[k]? = none := by simp [Array.getElem?_eq_none_iff]; omega
    simp [hk, h1, h2]

/-- `dest[:] = source` (role 0 → role 1) on a world whose buffers all have the same length: afterwards the
    destination blocks equal the source blocks, and the source blocks are unchanged -/
theorem copyWhole_spec {α} [Inhabited α] (n : Nat) (w : World α) (hw : 1 < w.size)
    (h0 : (w.getD 0 #[]).size = n)
    (hsz : ∀ r, r < n → (w.get 1 r).size = (w.get 0 r).size) :
    (copyWhole n w 0 1).getD 1 #[] = w.getD 0 #[] ∧ (copyWhole n w 0 1).getD 0 #[] = w.getD 0 #[] := by
  constructor
  · unfold copyWhole
    rw [Array.getD_eq_getD_getElem?, Array.getElem?_setIfInBounds]
    simp only [↓reduceIte, hw, Option.getD_some]
    apply Array.ext_getElem?
    intro r
    by_cases hr : r < n
    · have hr0 : r < (w.getD 0 #[]).size := by omega
      simp only [List.getElem?_toArray, List.getElem?_map, List.getElem?_range hr, Option.map_some]
      rw [copyPrefix_full _ _ (hsz r hr)]
      have hsome : (w.getD 0 #[])[r]? = some ((w.getD 0 #[])[r]'hr0) := Array.getElem?_eq_getElem hr0
      simp only [World.get]
      rw [Array.getD_eq_getD_getElem? (xs := w.getD 0 #[]), hsome]
      rfl
    · have hle : (w.getD 0 #[]).size ≤ r := by omega
      have e0 : (w.getD 0 #[])[r]? = none := Array.getElem?_eq_none hle
      rw [e0]
      have hnone : (List.range n)[r]? = none := List.getElem?_eq_none (by simpa using Nat.le_of_not_lt hr)
      simp only [List.getElem?_toArray, List.getElem?_map, hnone, Option.map_none]
  · unfold copyWhole
    rw [Array.getD_eq_getD_getElem?, Array.getElem?_setIfInBounds]
    simp [Array.getD_eq_getD_getElem?]

end PygyroVerif.Buffers
