/-
Pointwise meaning of the numpy assignment `dst[view] = src[view]` as modelled by `copyBox` (Model/NDView.lean):
if the destination addresses of the box are in bounds and pairwise different, then afterwards every addressed cell
holds the corresponding source cell and every other cell is unchanged ("applyWrites_get" of DESIGN.md).
-/
import PygyroVerif.Model.NDView
import Mathlib.Tactic.ByContra
import Mathlib.Logic.Basic

namespace PygyroVerif.CopyBox
open PygyroVerif

/-- `Σ idx_k · stride_k` -/
def dot : List Nat → List Nat → Nat
  | i :: is, s :: ss => i * s + dot is ss
  | _, _ => 0

/-- `idx` is a multi-index of the box `shape` -/
def InBox : List Nat → List Nat → Prop
  | [], [] => True
  | i :: is, n :: ns => i < n ∧ InBox is ns
  | _, _ => False

/-- the flat cell `j` is one of the destination cells of the box -/
def Reach (shape sd : List Nat) (od j : Nat) : Prop := ∃ idx, InBox idx shape ∧ od + dot idx sd = j

variable {α : Type} [Inhabited α]

theorem copyBox_size : ∀ (shape sd ss : List Nat) (od os : Nat) (dst src : Array α),
    (copyBox shape sd ss od os dst src).size = dst.size
  | [], _, _, _, _, _, _ => by simp [copyBox]
  | n :: ns, [], _, _, _, _, _ => by simp [copyBox]
  | n :: ns, d :: ds, [], _, _, _, _ => by simp [copyBox]
  | n :: ns, d :: ds, s :: ss, od, os, dst, src => by
    simp only [copyBox]
    have : ∀ (l : List Nat) (acc : Array α),
        (l.foldl (fun acc i => copyBox ns ds ss (od + i * d) (os + i * s) acc src) acc).size = acc.size := by
      intro l
      induction l with
      | nil => intro acc; rfl
      | cons i t ih => intro acc; simp only [List.foldl_cons]; rw [ih, copyBox_size ns ds ss]
    exact this _ dst

/-- frame: cells that are not destination cells of the box keep their value -/
theorem copyBox_frame : ∀ (shape sd ss : List Nat) (od os : Nat) (dst src : Array α) (j : Nat),
    shape.length = sd.length → shape.length = ss.length →
    ¬ Reach shape sd od j → (copyBox shape sd ss od os dst src)[j]? = dst[j]?
  | [], [], [], od, os, dst, src, j, _, _, h => by
    simp only [copyBox]
    rw [Array.getElem?_setIfInBounds]
    have : od ≠ j := fun e => h ⟨[], trivial, by simp [dot, e]⟩
    simp [this]
  | n :: ns, d :: ds, s :: ss, od, os, dst, src, j, h1, h2, h => by
    simp only [copyBox]
    have key : ∀ (l : List Nat) (acc : Array α), (∀ i ∈ l, i < n) →
        (l.foldl (fun acc i => copyBox ns ds ss (od + i * d) (os + i * s) acc src) acc)[j]? = acc[j]? := by
      intro l
      induction l with
      | nil => intro acc _; rfl
      | cons i t ih =>
        intro acc hl
        simp only [List.foldl_cons]
        rw [ih _ (fun x hx => hl x (by simp [hx]))]
        apply copyBox_frame ns ds ss _ _ _ _ j (by simpa using h1) (by simpa using h2)
        rintro ⟨idx, hbox, he⟩
        exact h ⟨i :: idx, ⟨hl i (by simp), hbox⟩, by simp only [dot]; omega⟩
    exact key _ dst (fun i hi => by simpa using hi)
  | [], _ :: _, _, _, _, _, _, _, h1, _, _ => by simp at h1
  | [], [], _ :: _, _, _, _, _, _, _, h2, _ => by simp at h2
  | _ :: _, [], _, _, _, _, _, _, h1, _, _ => by simp at h1
  | _ :: _, _ :: _, [], _, _, _, _, _, _, h2, _ => by simp at h2

/-- value: every destination cell of the box receives its source cell, provided the destination cells are in bounds
    and no two multi-indices of the box share a destination cell -/
theorem copyBox_get : ∀ (shape sd ss : List Nat) (od os : Nat) (dst src : Array α) (idx : List Nat),
    shape.length = sd.length → shape.length = ss.length →
    (∀ i, InBox i shape → od + dot i sd < dst.size) →
    (∀ i i', InBox i shape → InBox i' shape → dot i sd = dot i' sd → i = i') →
    InBox idx shape →
    (copyBox shape sd ss od os dst src)[od + dot idx sd]? = some (src.getD (os + dot idx ss) default)
  | [], [], [], od, os, dst, src, idx, _, _, hb, _, hidx => by
    cases idx with
    | nil =>
      simp only [copyBox, dot, Nat.add_zero]
      rw [Array.getElem?_setIfInBounds]
      have := hb [] trivial
      simp only [dot, Nat.add_zero] at this
      simp [this]
    | cons _ _ => simp [InBox] at hidx
  | n :: ns, d :: ds, s :: ss, od, os, dst, src, idx, h1, h2, hb, hinj, hidx => by
    cases idx with
    | nil => simp [InBox] at hidx
    | cons i0 rest =>
      obtain ⟨hi0, hrest⟩ := hidx
      simp only [copyBox, dot]
      -- process the iterations one by one; once iteration i0 has written the cell, later iterations leave it alone
      have hsub_b : ∀ (i : Nat), i < n → ∀ r, InBox r ns → (od + i * d) + dot r ds < dst.size := by
        intro i hi r hr
        have := hb (i :: r) ⟨hi, hr⟩
        simp only [dot] at this; omega
      have hsub_inj : ∀ r r', InBox r ns → InBox r' ns → dot r ds = dot r' ds → r = r' := by
        intro r r' hr hr' he
        have := hinj (i0 :: r) (i0 :: r') ⟨hi0, hr⟩ ⟨hi0, hr'⟩ (by simp only [dot]; omega)
        exact (List.cons.inj this).2
      have key : ∀ (l : List Nat) (acc : Array α), acc.size = dst.size → (∀ i ∈ l, i < n) → l.Nodup →
          (l.foldl (fun acc i => copyBox ns ds ss (od + i * d) (os + i * s) acc src) acc)[od + (i0 * d + dot rest ds)]? =
            if i0 ∈ l then some (src.getD (os + (i0 * s + dot rest ss)) default) else acc[od + (i0 * d + dot rest ds)]? := by
        intro l
        induction l with
        | nil => intro acc _ _ _; simp
        | cons i t ih =>
          intro acc hsz hl hnd
          have hnd' := List.nodup_cons.mp hnd
          simp only [List.foldl_cons]
          rw [ih _ (by rw [copyBox_size]; exact hsz) (fun x hx => hl x (by simp [hx])) hnd'.2]
          by_cases hit : i0 ∈ t
          · have : i0 ∈ i :: t := by simp [hit]
            simp [hit, this]
          · simp only [hit, ↓reduceIte, List.mem_cons]
            by_cases hi : i0 = i
            · subst hi
              simp only [true_or, ↓reduceIte]
              have e1 : od + (i0 * d + dot rest ds) = (od + i0 * d) + dot rest ds := by omega
              have e2 : os + (i0 * s + dot rest ss) = (os + i0 * s) + dot rest ss := by omega
              rw [e1, e2]
              exact copyBox_get ns ds ss _ _ acc src rest (by simpa using h1) (by simpa using h2)
                (fun r hr => by rw [hsz]; exact hsub_b i0 hi0 r hr) hsub_inj hrest
            · simp only [hi, false_or, hit, ↓reduceIte]
              apply copyBox_frame ns ds ss _ _ _ _ _ (by simpa using h1) (by simpa using h2)
              rintro ⟨r, hr, he⟩
              have := hinj (i :: r) (i0 :: rest) ⟨hl i (by simp), hr⟩ ⟨hi0, hrest⟩ (by simp only [dot]; omega)
              exact hi (List.cons.inj this).1.symm
      have := key (List.range n) dst rfl (fun i hi => by simpa using hi) List.nodup_range
      simp only [List.mem_range, hi0, ↓reduceIte] at this
      exact this
  | [], _ :: _, _, _, _, _, _, _, h1, _, _, _, _ => by simp at h1
  | [], [], _ :: _, _, _, _, _, _, _, h2, _, _, _ => by simp at h2
  | _ :: _, [], _, _, _, _, _, _, h1, _, _, _, _ => by simp at h1
  | _ :: _, _ :: _, [], _, _, _, _, _, _, h2, _, _, _ => by simp at h2


theorem broadcast_same : ∀ (shape st : List Nat), shape.length = st.length → broadcastStrides shape shape st = some st
  | [], [], _ => rfl
  | n :: ns, s :: ss, h => by
    simp only [broadcastStrides, broadcast_same ns ss (by simpa using h), ↓reduceIte]
  | [], _ :: _, h => by simp at h
  | _ :: _, [], h => by simp at h

/-- `dst[dv] = src[sv]` between views of equal shape: numpy raises nothing and the result is `copyBox` -/
theorem assignView_same_shape (dst src : Array α) (dv sv : View) (hsh : dv.shape = sv.shape)
    (hst : sv.shape.length = sv.strides.length) :
    assignView dst dv src sv = some (copyBox dv.shape dv.strides sv.strides dv.off sv.off dst src) := by
  unfold assignView
  rw [hsh]
  simp [broadcast_same sv.shape sv.strides hst]

end PygyroVerif.CopyBox
