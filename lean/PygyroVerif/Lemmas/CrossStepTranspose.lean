/-
Bridge theorem of C03, part 12: the executable `LayoutSwapper.transpose` (`Swapper.transposeRoles`, layout.py:1212-1278).
* `hop`: the recursive call `self.transpose(fromBuf, toBuf, nowLayout, nextLayout[, buf])` for one step of a route; it
  satisfies the step contract (`hop_stepOK`): asserts pass, then a handler hop or a cross step;
* `transposeRoles_correct`: the whole call, along the stored route, with and without spare buffer.
-/
import PygyroVerif.Lemmas.CrossStepHandlerHop
import PygyroVerif.Props.C03

namespace PygyroVerif.CS
open PygyroVerif PygyroVerif.Handler PygyroVerif.DS PygyroVerif.Swapper PygyroVerif.Route PygyroVerif.RouteValid
open PygyroVerif.BufferSize PygyroVerif.SwapperTraceMatch

variable {α : Type} [Inhabited α]

/-! ### the asserts -/

omit [Inhabited α] in
/-- the loop of asserts of `LayoutSwapper.transpose` (:1230-1233) passes -/
theorem swapper_asserts_ok (S : Swapper) (x y : Nat) (w : World α)
    (hx : ∀ rank, rank < prodL S.dims → (World.get w x rank).size = S.bufferSize rank)
    (hy : ∀ rank, rank < prodL S.dims → (World.get w y rank).size = S.bufferSize rank) :
    forIn (List.range (prodL S.dims)) PUnit.unit (fun rank (_ : PUnit) =>
      if (World.get w x rank).size ≠ S.bufferSize rank ∨ (World.get w y rank).size ≠ S.bufferSize rank then
        (do throw "assert: buffer size differs from bufferSize"; pure (ForInStep.yield PUnit.unit) : Except String _)
      else pure (ForInStep.yield PUnit.unit)) = .ok PUnit.unit := by
  apply forIn_asserts_ok
  intro r hr
  have hr' : r < prodL S.dims := List.mem_range.mp hr
  have : ¬ ((World.get w x r).size ≠ S.bufferSize r ∨ (World.get w y r).size ≠ S.bufferSize r) := by
    rw [hx r hr', hy r hr']; simp
  rw [if_neg this]
  rfl

/-! ### stored routes of a handler are paths of sufficiently buffered connections -/

omit [Inhabited α] in
/-- every stored direct connection of a handler with well-formed layouts is a `ConnB` connection, provided the buffers
    cover `needSize` of every connected pair (as `C01.adj_is_connB`) -/
theorem handler_adj_is_connB (h : Handler) (T : Topo) (B : Nat → Nat)
    (hlay : ∀ i, i < h.names.length → LayoutOK h.nprocs (h.orders.getD i []) h.ext)
    (hB : ∀ a b, a < h.names.length → b < h.names.length → Adj h.connections a b →
      ∀ rank, rank < T.nRanks → needSize h.nprocs (h.orders.getD a []) (h.orders.getD b []) h.ext (T.coords rank) ≤ B rank)
    (a b : Nat) (ha : a < h.names.length) (hab : Adj h.connections a b) :
    b < h.names.length ∧ ConnB h T B a b := by
  have hc : ConnOK h.connections h.names.length := by
    unfold Handler.connections Handler.nLayouts
    exact connectionsOf_ok _ _
  have hb : b < h.names.length := (hc.sym a b ha hab).1
  have hcomp := C01.connection_is_compatible h a b ha hab
  refine ⟨hb, ⟨hlay a ha, hlay b hb, ?_⟩, ?_, hB a b ha hb hab⟩
  · rw [← (hlay a ha).2.1, ← (hlay b hb).2.1]
  · rcases Nat.lt_or_ge a b with hlt | hge
    · rw [Nat.max_eq_right (Nat.le_of_lt hlt), Nat.min_eq_left (Nat.le_of_lt hlt)] at hcomp
      rw [compatible_symm]; exact hcomp
    · rw [Nat.max_eq_left hge, Nat.min_eq_right hge] at hcomp
      exact hcomp

/-! ### direct connections inside a handler -/

theorem handler_adj_of_adj (S : Swapper) (a b : Nat) (ha : a < S.allNames.length) (hab : Adj S.connections a b)
    (hh : (S.locate a).1 = (S.locate b).1) :
    (S.locate a).2 < (S.handler (S.locate a).1).names.length ∧
    Adj (S.handler (S.locate a).1).connections (S.locate a).2 (S.locate b).2 := by
  obtain ⟨hb, hne, _⟩ := (adj_spec S a b ha).mp hab
  obtain ⟨a1, a2⟩ := locate_spec S a ha
  obtain ⟨b1, b2⟩ := locate_spec S b hb
  have ja : (S.locate a).2 < (S.handler (S.locate a).1).names.length := by rw [handler_names_length]; exact a2
  have jb : (S.locate b).2 < (S.handler (S.locate a).1).names.length := by rw [handler_names_length, hh]; exact b2
  refine ⟨ja, ?_⟩
  have hcomp : compatible (S.handlerNprocs (S.locate a).1) ((S.ordersOf (S.locate a).1).getD (S.locate a).2 [])
      ((S.ordersOf (S.locate a).1).getD (S.locate b).2 []) = true := by
    rcases adj_acc S a b ha hab with hc | hc
    · rw [compat_same S a b hh] at hc; exact hc
    · rw [compat_same S b a hh.symm, compatible_symm, ← hh] at hc; exact hc
  have hjne : (S.locate b).2 ≠ (S.locate a).2 := by
    intro e
    exact hne (locate_inj S b a hb ha (Prod.ext hh.symm e))
  show (S.locate b).2 ∈ (S.handler (S.locate a).1).connections.getD (S.locate a).2 []
  rw [mem_connections _ _ _ ja]
  refine ⟨jb, hjne, ?_⟩
  rcases Nat.le_total (S.locate a).2 (S.locate b).2 with hle | hle
  · rw [Nat.max_eq_right hle, Nat.min_eq_left hle, compatible_symm]; exact hcomp
  · rw [Nat.max_eq_left hle, Nat.min_eq_right hle]; exact hcomp

/-! ### one hop of a route -/

/-- the recursive call of `LayoutSwapper.transpose` for one step of a route: with the spare buffer `z` iff `z ≠ x` -/
def hop (S : Swapper) (rm : RouteMap) (hrm : Nat → RouteMap) (fuel : Nat) : Step α :=
  fun a b x y z w => transposeRoles S rm hrm fuel a b (decide (z ≠ x)) x y z w

/-- a direct connection of the swapper -/
def HopConn (S : Swapper) (a b : Nat) : Prop := a < S.allNames.length ∧ Adj S.connections a b

section Acc
variable (S : Swapper) (order : List Nat) (ordH : Nat → List Nat) (hA : Accepted S order ordH)
  (hlay : ∀ h, h < S.groups.length → ∀ i, i < (S.handler h).names.length →
    LayoutOK (S.handlerNprocs h) ((S.ordersOf h).getD i []) S.ext)
  (hn1 : S.allNames.length ≠ 1)
include hA hlay hn1

/-- **one hop satisfies the step contract**: for every direct connection of an accepted swapper, the recursive call
    passes its asserts and moves the field — through the handler (same handler) or by a cross step (different handlers) -/
theorem hop_stepOK (nr f : Nat) (G : List Nat → α) :
    StepOKR nr (hop S (S.routes order).1 (fun h => ((S.handler h).routes (ordH h)).1) (f + 1)) (HoldsLayout S G)
      (HopConn S) (WorldEq nr (prodL S.dims) S.bufferSize) := by
  intro a b x y z w hx hy hz hI hconn hyx hyz hP
  obtain ⟨ha, hab⟩ := hconn
  obtain ⟨hb, hne, _⟩ := (adj_spec S a b ha).mp hab
  have hsz : ∀ role, role < nr → ∀ rank, rank < prodL S.dims → (World.get w role rank).size = S.bufferSize rank :=
    fun role hr rank hrk => (hI.2 role hr).2 rank hrk
  have hassert := swapper_asserts_ok S x y w (hsz x hx) (hsz y hy)
  have hcS : ConnOK S.connections S.allNames.length := by
    unfold Swapper.connections; exact connectionsOf_ok _ _
  unfold hop
  rw [transposeRoles]
  simp only []
  rw [hassert]
  simp only [bind, Except.bind]
  by_cases hh : (S.locate a).1 = (S.locate b).1
  · -- inside one handler
    rw [if_pos hh]
    obtain ⟨a1, _⟩ := locate_spec S a ha
    obtain ⟨axes, hax⟩ := hA.ok.comm (S.locate a).1
    obtain ⟨hconnB, hjne⟩ := connB_of_adj S order ordH hA hlay a b ha hab hh
    obtain ⟨ja, hadjH⟩ := handler_adj_of_adj S a b ha hab hh
    have hcH : ConnOK (S.handler (S.locate a).1).connections (S.handler (S.locate a).1).names.length := by
      unfold Handler.connections Handler.nLayouts; exact connectionsOf_ok _ _
    have hjb := (hcH.sym _ _ ja hadjH).1
    have hroute : ((S.handler (S.locate a).1).routes (ordH (S.locate a).1)).1.r (S.locate a).2 (S.locate b).2 =
        [(S.locate b).2] :=
      adj_route_single _ _ _ hcH (by omega) (hA.ordH _ a1) _ _ ja hadjH
    obtain ⟨w', h1, h2, h3, h4⟩ := handlerHop nr (S.topo (S.locate a).1) (S.handler (S.locate a).1)
      (topo_ok S _ axes hax) _ (S.locate a).2 (S.locate b).2 hjne hroute S.bufferSize hconnB
      (fun rank _ => handler_bufferSize_le S rank _ a1) x y z hx hy hz hyx hyz w hI G hP
    refine ⟨w', h1, ?_, h3, h4⟩
    unfold HoldsLayout
    have : S.layoutOf b = (S.handler (S.locate a).1).layoutAt (S.locate b).2 := by rw [hh]; rfl
    rw [this, ← hh]; exact h2
  · -- between two handlers: the stored route is the direct step
    rw [if_neg hh]
    have hroute : (S.routes order).1.r a b = [b] := adj_route_single _ _ _ hcS hn1 hA.ord a b ha hab
    rw [hroute]
    simp only [List.length_cons, List.length_nil, Nat.zero_add, if_true]
    obtain ⟨_, _, _, c4, c5⟩ := crossConn_of_adj S order ordH hA a b ha hab hh
    have hzx : (if decide (z ≠ x) = true then z else x) = z := by
      by_cases e : z = x
      · simp [e]
      · simp [e]
    rw [hzx]
    obtain ⟨w', h1, h2, h3, h4, h5, h6⟩ := crossStep_world S hA.ok a b ha hb hh c4 x y z w G hyx hyz
      (by have := hI.1; omega) (by have := hI.1; omega) (hI.2 y hy).1 (hI.2 z hz).1
      (fun rank hr => by rw [hsz y hy rank hr]; exact c5 rank hr)
      (fun rank hr => by rw [hsz z hz rank hr]; exact c5 rank hr) hP
    refine ⟨w', h1, h2, ⟨by rw [h4]; exact hI.1, fun role hr => ⟨?_, fun rank hrk => ?_⟩⟩, h3⟩
    · rw [h5 role]; exact (hI.2 role hr).1
    · rw [h6 role rank]; exact hsz role hr rank hrk

/-! ### the whole call -/

omit hA hlay hn1 in
theorem loopBody_hop (rm : RouteMap) (hrm : Nat → RouteMap) (f : Nat) :
    (fun (st : World α × Nat × Nat × Nat) (next : Nat) => (do
      let w' ← transposeRoles S rm hrm f st.2.1 next false st.2.2.1 st.2.2.2 st.2.2.1 st.1
      pure (w', next, st.2.2.2, st.2.2.1) : Except String (World α × Nat × Nat × Nat))) =
    loopBody (hop S rm hrm f) := by
  funext st next
  obtain ⟨w, now, fromB, toB⟩ := st
  simp [loopBody, hop]

/-- **`LayoutSwapper.transpose(source, dest, layout_source, layout_dest[, buf])`, executable model**
    (`transposeRoles` with roles 0 `source`, 1 `dest`, 2 `buf`), for an accepted swapper and two different layouts:
    if `source` holds `G` in the source layout on every world rank and every buffer has exactly `bufferSize` cells, the
    call raises nothing (asserts, reshapes, numpy assignments, collective counts), `dest` holds `G` in the destination
    layout on every world rank, and with a spare buffer `source` is unchanged. -/
theorem transposeRoles_correct (useBuf : Bool) (f : Nat) (w : World α) (G : List Nat → α) (kS kD : Nat)
    (hkS : kS < S.allNames.length) (hkD : kD < S.allNames.length) (hne : kS ≠ kD)
    (hw : WorldEq (if useBuf then 3 else 2) (prodL S.dims) S.bufferSize w)
    (hsrc : HoldsLayout S G kS (w.getD 0 #[])) :
    ∃ w', transposeRoles S (S.routes order).1 (fun h => ((S.handler h).routes (ordH h)).1) (f + 2) kS kD useBuf 0 1 2 w
        = .ok w' ∧
      HoldsLayout S G kD (w'.getD 1 #[]) ∧ (useBuf = true → w'.getD 0 #[] = w.getD 0 #[]) := by
  have hnr : 2 ≤ (if useBuf then 3 else 2) := by split <;> omega
  have hsz : ∀ role, role < 2 → ∀ rank, rank < prodL S.dims → (World.get w role rank).size = S.bufferSize rank :=
    fun role hr rank hrk => (hw.2 role (by omega)).2 rank hrk
  have hassert := swapper_asserts_ok S 0 1 w (hsz 0 (by decide)) (hsz 1 (by decide))
  have hcS : ConnOK S.connections S.allNames.length := by
    unfold Swapper.connections; exact connectionsOf_ok _ _
  have hassert' : forIn (List.range (prodL S.dims)) PUnit.unit (fun rank (_ : PUnit) =>
      if (World.get w 0 rank).size ≠ S.bufferSize rank ∨ (World.get w 1 rank).size ≠ S.bufferSize rank then
        (do throw "assert: buffer size differs from bufferSize"; pure (ForInStep.yield PUnit.unit) : Except String _)
      else pure (ForInStep.yield PUnit.unit)) = pure PUnit.unit := hassert
  rw [transposeRoles]
  simp only []
  rw [hassert', pure_bind]
  by_cases hh : (S.locate kS).1 = (S.locate kD).1
  · -- both layouts in one handler: `LayoutHandler.transpose` on the handler's communicators
    rw [if_pos hh]
    obtain ⟨a1, a2⟩ := locate_spec S kS hkS
    obtain ⟨_, b2⟩ := locate_spec S kD hkD
    obtain ⟨axes, hax⟩ := hA.ok.comm (S.locate kS).1
    set h := S.handler (S.locate kS).1 with hh0
    set T := S.topo (S.locate kS).1 with hT0
    have hT : TopoOK T h.nprocs := topo_ok S _ axes hax
    have ja : (S.locate kS).2 < h.names.length := by rw [hh0, handler_names_length]; exact a2
    have jb : (S.locate kD).2 < h.names.length := by rw [hh0, handler_names_length, hh]; exact b2
    have hjne : (S.locate kS).2 ≠ (S.locate kD).2 := fun e => hne (locate_inj S kS kD hkS hkD (Prod.ext hh e))
    have hlayH : ∀ i, i < h.names.length → LayoutOK h.nprocs (h.orders.getD i []) h.ext := fun i hi => hlay _ a1 i hi
    have hB : ∀ a b, a < h.names.length → b < h.names.length → Adj h.connections a b →
        ∀ rank, rank < T.nRanks → needSize h.nprocs (h.orders.getD a []) (h.orders.getD b []) h.ext (T.coords rank) ≤
          S.bufferSize rank := by
      intro a b ha' hb' hab rank hr
      have hcc : ConnOK h.connections h.names.length := by
        unfold Handler.connections Handler.nLayouts; exact connectionsOf_ok _ _
      exact Nat.le_trans
        (DS.bufferSize_suffices h _ (hT.coords rank hr) hlayH a b ha' hb' (fun e => hcc.irr a (e ▸ hab))
          (C01.connection_is_compatible h a b ha' hab))
        (handler_bufferSize_le S rank _ a1)
    obtain ⟨⟨hrne, hrpath, hrlast⟩, _⟩ := C01.route_valid h (ordH (S.locate kS).1) (by omega) (hA.hfull _ a1)
      (S.locate kS).2 (S.locate kD).2 ja jb hjne
    have hpath : IsPath (ConnB h T S.bufferSize) (S.locate kS).2 ((h.routes (ordH (S.locate kS).1)).1.r (S.locate kS).2
        (S.locate kD).2) :=
      isPath_of_bounded _ _ h.names.length (handler_adj_is_connB h T S.bufferSize hlayH hB) _ _ ja hrpath
    have hassertH := handler_asserts_ok T h 0 1 w
      (fun rank hr => by rw [hsz 0 (by decide) rank hr]; exact handler_bufferSize_le S rank _ a1)
      (fun rank hr => by rw [hsz 1 (by decide) rank hr]; exact handler_bufferSize_le S rank _ a1)
    have hunf : transposeWorldT true T h (h.routes (ordH (S.locate kS).1)).1 (S.locate kS).2 (S.locate kD).2 useBuf 0 1 2 w =
        followRoute (directStepT true T h) T.nRanks ((h.routes (ordH (S.locate kS).1)).1.r (S.locate kS).2 (S.locate kD).2)
          (S.locate kS).2 useBuf w := by
      unfold transposeWorldT
      simp only [and_self, if_true]
      rw [hassertH]
      simp only [bind, Except.bind, hjne, if_false]
    rw [hunf]
    have hLD : S.layoutOf kD = h.layoutAt (S.locate kD).2 := by rw [hh0, hh]; rfl
    have hTD : S.topo (S.locate kD).1 = T := by rw [hT0, hh]
    unfold HoldsLayout
    rw [hLD, hTD]
    cases useBuf with
    | false =>
      obtain ⟨w', h1, h2⟩ := route_nobuf_R 2 (Nat.le_refl _) (directStepT true T h)
        (fun i arrs => HoldsWorld T (h.layoutAt i) G arrs) (ConnB h T S.bufferSize) (WorldOK 2 T.nRanks S.bufferSize) T.nRanks
        (fun w hw => ⟨by have := hw.1; omega, (hw.2.1 0 (by decide)).1, hw.2.2⟩)
        (directStepT_stepOK 2 T h hT S.bufferSize G) _ _ w (hw.ok (Nat.le_refl _)) hrne hpath hsrc
      rw [hrlast] at h2
      exact ⟨w', h1, h2, fun e => by cases e⟩
    | true =>
      obtain ⟨w', h1, h2, h3⟩ := route_buf_R 3 (Nat.le_refl _) (directStepT true T h)
        (fun i arrs => HoldsWorld T (h.layoutAt i) G arrs) (ConnB h T S.bufferSize) (WorldOK 3 T.nRanks S.bufferSize)
        (directStepT_stepOK 3 T h hT S.bufferSize G) T.nRanks _ _ w (hw.ok (by decide)) hrne hpath hsrc
      rw [hrlast] at h2
      exact ⟨w', h1, h2, fun _ => h3⟩
  · -- different handlers: follow the stored route of the swapper
    rw [if_neg hh]
    obtain ⟨⟨hrne, hrpath, hrlast⟩, _⟩ := C03.swapper_route_valid S order hn1 hA.full kS kD hkS hkD hne
    have hpath : IsPath (HopConn S) kS ((S.routes order).1.r kS kD) :=
      isPath_of_bounded (Adj S.connections) (HopConn S) S.allNames.length
        (fun a b ha hab => ⟨(hcS.sym a b ha hab).1, ha, hab⟩) _ kS hkS hrpath
    generalize hsteps : (S.routes order).1.r kS kD = steps at hrne hrpath hrlast hpath
    match steps, hrne, hrpath, hrlast, hpath with
    | [iD], _, hrpath, hrlast, _ =>
      -- a single cross step
      have hiD : iD = kD := hrlast
      subst hiD
      simp only [List.length_cons, List.length_nil, Nat.zero_add, if_true]
      obtain ⟨_, _, _, c4, c5⟩ := crossConn_of_adj S order ordH hA kS iD hkS hrpath.1 hh
      cases useBuf with
      | false =>
        simp only [Bool.false_eq_true, if_false]
        have hw : WorldEq 2 (prodL S.dims) S.bufferSize w := hw
        obtain ⟨w', h1, h2, _⟩ := crossStep_world S hA.ok kS iD hkS hkD hh c4 0 1 0 w G (by decide) (by decide)
          (by have := hw.1; omega) (by have := hw.1; omega) (hw.2 1 (by decide)).1 (hw.2 0 (by decide)).1
          (fun rank hr => by rw [hsz 1 (by decide) rank hr]; exact c5 rank hr)
          (fun rank hr => by rw [hsz 0 (by decide) rank hr]; exact c5 rank hr) hsrc
        exact ⟨w', h1, h2, fun e => by cases e⟩
      | true =>
        simp only [if_true]
        have hw : WorldEq 3 (prodL S.dims) S.bufferSize w := hw
        obtain ⟨w', h1, h2, h3, _⟩ := crossStep_world S hA.ok kS iD hkS hkD hh c4 0 1 2 w G (by decide) (by decide)
          (by have := hw.1; omega) (by have := hw.1; omega) (hw.2 1 (by decide)).1 (hw.2 2 (by decide)).1
          (fun rank hr => by rw [(hw.2 1 (by decide)).2 rank hr]; exact c5 rank hr)
          (fun rank hr => by rw [(hw.2 2 (by decide)).2 rank hr]; exact c5 rank hr) hsrc
        exact ⟨w', h1, h2, fun _ => h3 0 (by decide) (by decide)⟩
    | first :: second :: rest, _, _, hrlast, hpath =>
      have hl1 : ¬ (first :: second :: rest).length = 1 := by simp
      have hl0 : ¬ (first :: second :: rest).length = 0 := by simp
      simp only [hl1, hl0, if_false]
      rw [loopBody_hop S (S.routes order).1 (fun h => ((S.handler h).routes (ordH h)).1) (f + 1)]
      cases useBuf with
      | false =>
        obtain ⟨w', h1, h2⟩ := route_nobuf_R 2 (Nat.le_refl _)
          (hop S (S.routes order).1 (fun h => ((S.handler h).routes (ordH h)).1) (f + 1)) (HoldsLayout S G) (HopConn S)
          (WorldEq 2 (prodL S.dims) S.bufferSize) (prodL S.dims)
          (fun w hw => ⟨by have := hw.1; omega, (hw.2 0 (by decide)).1,
            fun r hr => by rw [(hw.2 1 (by decide)).2 r hr, (hw.2 0 (by decide)).2 r hr]⟩)
          (hop_stepOK S order ordH hA hlay hn1 2 f G) (first :: second :: rest) kS w hw (by simp) hpath hsrc
        rw [hrlast] at h2
        refine ⟨w', ?_, h2, fun e => by cases e⟩
        rw [← h1]
        simp only [followRoute, Bool.not_false, if_true]
      | true =>
        obtain ⟨w', h1, h2, h3⟩ := route_buf_R 3 (Nat.le_refl _)
          (hop S (S.routes order).1 (fun h => ((S.handler h).routes (ordH h)).1) (f + 1)) (HoldsLayout S G) (HopConn S)
          (WorldEq 3 (prodL S.dims) S.bufferSize) (hop_stepOK S order ordH hA hlay hn1 3 f G) (prodL S.dims)
          (first :: second :: rest) kS w hw (by simp) hpath hsrc
        rw [hrlast] at h2
        refine ⟨w', ?_, h2, fun _ => h3⟩
        rw [← h1]
        simp only [followRoute, Bool.not_true, Bool.false_eq_true, if_false, List.getD_cons_zero, List.drop_succ_cons,
          List.drop_zero]
        rfl

end Acc
end PygyroVerif.CS
