/- Helper lemmas for C20 (process-grid selection): loop specifications, fuel monotonicity, and the
   arithmetic fact that the candidate `new_n1 = max_proc1` of the second search is never an improvement. -/
import PygyroVerif.Model.ProcGrid
import Mathlib.Tactic.Ring
import Mathlib.Tactic.Linarith
import Mathlib.Algebra.Order.Ring.Nat

namespace PygyroVerif.ProcGrid

/-! ### inner loops -/

/-- partial correctness of the inner loop of the first search: it stops at the first `k ≥ n` where the loop
    condition fails -/
theorem inner1_some (s m1 : Nat) : ∀ f n k, inner1 s m1 f n = some k →
    n ≤ k ∧ ¬(k ≤ min s m1 ∧ s % k ≠ 0) ∧ ∀ j, n ≤ j → j < k → (j ≤ min s m1 ∧ s % j ≠ 0) := by
  intro f
  induction f with
  | zero => intro n k h; simp [inner1] at h
  | succ f ih =>
    intro n k h
    rw [inner1] at h
    by_cases hc : n ≤ min s m1 ∧ s % n ≠ 0
    · rw [if_pos hc] at h
      obtain ⟨h2, h3, h4⟩ := ih _ _ h
      refine ⟨by omega, h3, ?_⟩
      intro j hj1 hj2
      rcases Nat.eq_or_lt_of_le hj1 with e | e
      · subst e; exact hc
      · exact h4 j e hj2
    · rw [if_neg hc] at h
      cases h
      exact ⟨Nat.le_refl _, hc, by intro j h1 h2; omega⟩

/-- the fuel suffices: at most `min s m1 + 1 - n` increments happen -/
theorem inner1_isSome (s m1 : Nat) : ∀ f n, min s m1 + 1 ≤ f + n → ∃ k, inner1 s m1 (f+1) n = some k := by
  intro f
  induction f with
  | zero =>
    intro n h
    have hc : ¬(n ≤ min s m1 ∧ s % n ≠ 0) := by omega
    exact ⟨n, by rw [inner1, if_neg hc]⟩
  | succ f ih =>
    intro n h
    by_cases hc : n ≤ min s m1 ∧ s % n ≠ 0
    · obtain ⟨k, h1⟩ := ih (n+1) (by omega)
      exact ⟨k, by rw [inner1, if_pos hc]; exact h1⟩
    · exact ⟨n, by rw [inner1, if_neg hc]⟩

theorem inner1_mono (s m1 : Nat) : ∀ f n k, inner1 s m1 f n = some k → inner1 s m1 (f+1) n = some k := by
  intro f
  induction f with
  | zero => intro n k h; simp [inner1] at h
  | succ f ih =>
    intro n k h
    rw [inner1] at h
    rw [inner1]
    by_cases hc : n ≤ min s m1 ∧ s % n ≠ 0
    · rw [if_pos hc] at h ⊢; exact ih _ _ h
    · rw [if_neg hc] at h ⊢; exact h

theorem inner1_mono_le (s m1 : Nat) {f f' : Nat} (hff : f ≤ f') (n k : Nat)
    (h : inner1 s m1 f n = some k) : inner1 s m1 f' n = some k := by
  induction hff with
  | refl => exact h
  | step _ ih => exact inner1_mono s m1 _ n k ih

theorem inner2_some (s m1 : Nat) : ∀ f n k, inner2 s m1 f n = some k →
    n ≤ k ∧ ¬(k < m1 ∧ s % k ≠ 0) ∧ ∀ j, n ≤ j → j < k → (j < m1 ∧ s % j ≠ 0) := by
  intro f
  induction f with
  | zero => intro n k h; simp [inner2] at h
  | succ f ih =>
    intro n k h
    rw [inner2] at h
    by_cases hc : n < m1 ∧ s % n ≠ 0
    · rw [if_pos hc] at h
      obtain ⟨h2, h3, h4⟩ := ih _ _ h
      refine ⟨by omega, h3, ?_⟩
      intro j hj1 hj2
      rcases Nat.eq_or_lt_of_le hj1 with e | e
      · subst e; exact hc
      · exact h4 j e hj2
    · rw [if_neg hc] at h
      cases h
      exact ⟨Nat.le_refl _, hc, by intro j h1 h2; omega⟩

theorem inner2_isSome (s m1 : Nat) : ∀ f n, m1 ≤ f + n → ∃ k, inner2 s m1 (f+1) n = some k := by
  intro f
  induction f with
  | zero =>
    intro n h
    have hc : ¬(n < m1 ∧ s % n ≠ 0) := by omega
    exact ⟨n, by rw [inner2, if_neg hc]⟩
  | succ f ih =>
    intro n h
    by_cases hc : n < m1 ∧ s % n ≠ 0
    · obtain ⟨k, h1⟩ := ih (n+1) (by omega)
      exact ⟨k, by rw [inner2, if_pos hc]; exact h1⟩
    · exact ⟨n, by rw [inner2, if_neg hc]⟩

theorem inner2_mono (s m1 : Nat) : ∀ f n k, inner2 s m1 f n = some k → inner2 s m1 (f+1) n = some k := by
  intro f
  induction f with
  | zero => intro n k h; simp [inner2] at h
  | succ f ih =>
    intro n k h
    rw [inner2] at h
    rw [inner2]
    by_cases hc : n < m1 ∧ s % n ≠ 0
    · rw [if_pos hc] at h ⊢; exact ih _ _ h
    · rw [if_neg hc] at h ⊢; exact h

theorem inner2_mono_le (s m1 : Nat) {f f' : Nat} (hff : f ≤ f') (n k : Nat)
    (h : inner2 s m1 f n = some k) : inner2 s m1 f' n = some k := by
  induction hff with
  | refl => exact h
  | step _ ih => exact inner2_mono s m1 _ n k ih

/-! ### arithmetic -/

theorem valid_pos {m1 m2 s a b : Nat} (hs : 1 ≤ s) (h : Valid m1 m2 s a b) : 1 ≤ a ∧ 1 ≤ b ∧ a ≤ s ∧ b ≤ s := by
  obtain ⟨h1, _, _⟩ := h
  have ha : a ≠ 0 := by rintro rfl; simp at h1; omega
  have hb : b ≠ 0 := by rintro rfl; simp at h1; omega
  refine ⟨by omega, by omega, ?_, ?_⟩
  · calc a = a * 1 := (Nat.mul_one a).symm
      _ ≤ a * b := Nat.mul_le_mul_left a (by omega)
      _ = s := h1
  · calc b = 1 * b := (Nat.one_mul b).symm
      _ ≤ a * b := Nat.mul_le_mul_right b (by omega)
      _ = s := h1

theorem mod_eq_zero_of_mul {s a b : Nat} (h : a * b = s) : s % a = 0 := by
  subst h; exact Nat.mul_mod_right a b

/-- a later candidate has a strictly smaller second factor: `size // new_n1 < nprocs2` -/
theorem div_lt_of_lt {s n1 n2 k : Nat} (hs : 1 ≤ s) (h : n1 * n2 = s) (hk : n1 < k) : s / k < n2 := by
  have hn2 : 1 ≤ n2 := by
    rcases Nat.eq_zero_or_pos n2 with e | e
    · subst e; simp at h; omega
    · exact e
  rw [Nat.div_lt_iff_lt_mul (by omega)]
  calc s = n1 * n2 := h.symm
    _ < k * n2 := Nat.mul_lt_mul_of_pos_right hk hn2
    _ = n2 * k := Nat.mul_comm _ _

/-- The candidate `new_n1 = max_proc1` (the only candidate of the second search that need not divide the
    size) never has a strictly better exact ratio than a valid current grid: it is never accepted. -/
theorem cand_max1_not_better {m1 m2 s n1 n2 : Nat} (hv : Valid m1 m2 s n1 n2) (hk2 : s / m1 ≤ n2) :
    ¬ (ratioNum m1 m2 m1 (s / m1) * ratioDen m1 m2 n1 n2 < ratioNum m1 m2 n1 n2 * ratioDen m1 m2 m1 (s / m1)) := by
  obtain ⟨hp, h1, h2⟩ := hv
  have hq : m1 * (s / m1) ≤ s := Nat.mul_div_le s m1
  generalize s / m1 = q at *
  have hqm : q ≤ m2 := Nat.le_trans hk2 h2
  have e1 : ratioNum m1 m2 m1 q = m2 * m1 := by
    unfold ratioNum; exact Nat.max_eq_right (by rw [Nat.mul_comm m2 m1]; exact Nat.mul_le_mul_left m1 hqm)
  have e2 : ratioDen m1 m2 m1 q = m1 * q := by
    unfold ratioDen; exact Nat.min_eq_left (by rw [Nat.mul_comm m2 m1]; exact Nat.mul_le_mul_left m1 hqm)
  rw [e1, e2]
  unfold ratioNum ratioDen
  rcases Nat.le_total (m1 * n2) (m2 * n1) with hc | hc
  · rw [Nat.max_eq_right hc, Nat.min_eq_left hc]
    have : n1 * q ≤ m1 * n2 := Nat.mul_le_mul h1 hk2
    nlinarith [Nat.mul_le_mul_left (m2 * m1) this]
  · rw [Nat.max_eq_left hc, Nat.min_eq_right hc]
    have a1 : n2 * (m1 * q) ≤ n2 * (n1 * n2) := Nat.mul_le_mul_left n2 (hp ▸ hq)
    have a2 : n2 * (n1 * n2) ≤ m2 * (n1 * m2) := Nat.mul_le_mul h2 (Nat.mul_le_mul_left n1 h2)
    have a3 : n2 * (m1 * q) ≤ m2 * (n1 * m2) := Nat.le_trans a1 a2
    nlinarith [Nat.mul_le_mul_left m1 a3]

/-- … and when `max_proc1` does not divide the size its exact ratio is strictly worse, so that a float
    comparison can go the other way only if the two ratios agree to rounding error. -/
theorem nondivisor_strictly_worse {m1 m2 s n1 n2 : Nat} (hs : 1 ≤ s) (hv : Valid m1 m2 s n1 n2)
    (hlt : n1 < m1) (hnd : s % m1 ≠ 0) :
    ratioNum m1 m2 n1 n2 * ratioDen m1 m2 m1 (s / m1) < ratioNum m1 m2 m1 (s / m1) * ratioDen m1 m2 n1 n2 := by
  have hk2 : s / m1 < n2 := div_lt_of_lt hs hv.1 hlt
  obtain ⟨_, hn2, _, _⟩ := valid_pos hs hv
  obtain ⟨hp, h1, h2⟩ := hv
  have hq : m1 * (s / m1) < s := by
    have := Nat.div_add_mod s m1
    have : 0 < s % m1 := Nat.pos_of_ne_zero hnd
    omega
  generalize s / m1 = q at *
  have hqm : q ≤ m2 := by omega
  have e1 : ratioNum m1 m2 m1 q = m2 * m1 := by
    unfold ratioNum; exact Nat.max_eq_right (by rw [Nat.mul_comm m2 m1]; exact Nat.mul_le_mul_left m1 hqm)
  have e2 : ratioDen m1 m2 m1 q = m1 * q := by
    unfold ratioDen; exact Nat.min_eq_left (by rw [Nat.mul_comm m2 m1]; exact Nat.mul_le_mul_left m1 hqm)
  rw [e1, e2]
  unfold ratioNum ratioDen
  have hm1 : 1 ≤ m1 := by omega
  have hm2 : 1 ≤ m2 := by omega
  rcases Nat.le_total (m1 * n2) (m2 * n1) with hc | hc
  · rw [Nat.max_eq_right hc, Nat.min_eq_left hc]
    have t1 : n1 * q ≤ n1 * n2 := Nat.mul_le_mul_left n1 (by omega)
    have t2 : n1 * n2 < m1 * n2 := Nat.mul_lt_mul_of_pos_right hlt hn2
    have t3 : n1 * q < m1 * n2 := by omega
    have t4 : (m2 * m1) * (n1 * q) < (m2 * m1) * (m1 * n2) :=
      Nat.mul_lt_mul_of_pos_left t3 (Nat.mul_pos hm2 hm1)
    nlinarith [t4]
  · rw [Nat.max_eq_left hc, Nat.min_eq_right hc]
    have a1 : n2 * (m1 * q) < n2 * (n1 * n2) := Nat.mul_lt_mul_of_pos_left (hp ▸ hq) hn2
    have a2 : n2 * (n1 * n2) ≤ m2 * (n1 * m2) := Nat.mul_le_mul h2 (Nat.mul_le_mul_left n1 h2)
    have a3 : n2 * (m1 * q) < m2 * (n1 * m2) := by omega
    have a4 : m1 * (n2 * (m1 * q)) < m1 * (m2 * (n1 * m2)) := Nat.mul_lt_mul_of_pos_left a3 hm1
    nlinarith [a4]


/-! ### first search -/

/-- invariant of the first search: `(n1, n2)` is a factorisation with `n1 ≤ m1` and no valid factorisation has a
    smaller first factor -/
theorem search1_spec (s m1 m2 fi : Nat) (hs : 1 ≤ s) (hfi : min s m1 + 2 ≤ fi) :
    ∀ f n1 n2, 1 ≤ n1 → n1 * n2 = s → n1 ≤ m1 → (∀ a b, Valid m1 m2 s a b → n1 ≤ a) →
      (∀ a b, search1 s m1 m2 fi f n1 n2 = .grid a b →
          Valid m1 m2 s a b ∧ 1 ≤ a ∧ ∀ a' b', Valid m1 m2 s a' b' → a ≤ a') ∧
      (search1 s m1 m2 fi f n1 n2 = .noGrid → ∀ a b, ¬ Valid m1 m2 s a b) ∧
      (min s m1 + 2 ≤ f + n1 → search1 s m1 m2 fi f n1 n2 ≠ .outOfFuel) := by
  intro f
  induction f with
  | zero =>
    intro n1 n2 h1 hp hm hmin
    have hn2 : 1 ≤ n2 := by
      rcases Nat.eq_zero_or_pos n2 with e | e
      · subst e; simp at hp; omega
      · exact e
    have hle : n1 ≤ s := by
      calc n1 = n1 * 1 := (Nat.mul_one _).symm
        _ ≤ n1 * n2 := Nat.mul_le_mul_left n1 hn2
        _ = s := hp
    exact ⟨(by intro a b h; simp [search1] at h), (by intro h; simp [search1] at h), (by intro h; omega)⟩
  | succ f ih =>
    intro n1 n2 h1 hp hm hmin
    obtain ⟨g, rfl⟩ : ∃ g, fi = g + 1 := ⟨fi - 1, by omega⟩
    rw [search1]
    by_cases hgt : n2 > m2
    · obtain ⟨k, hk⟩ := inner1_isSome s m1 g (n1+1) (by omega)
      obtain ⟨hk1, hk2, hk3⟩ := inner1_some s m1 _ _ _ hk
      simp only [if_pos hgt, hk]
      -- no valid factorisation has first factor < k
      have hnew : ∀ a b, Valid m1 m2 s a b → k ≤ a := by
        intro a b hv
        have ha := hmin a b hv
        obtain ⟨_, _, has, _⟩ := valid_pos hs hv
        have hne : a ≠ n1 := by
          rintro rfl
          have : a * b = a * n2 := by rw [hv.1, hp]
          have : b = n2 := Nat.eq_of_mul_eq_mul_left (by omega) this
          have := hv.2.2
          omega
        by_contra hlt
        have := (hk3 a (by omega) (by omega)).2
        exact this (mod_eq_zero_of_mul hv.1)
      by_cases hbig : k > min s m1
      · simp only [if_pos hbig]
        refine ⟨(by intro a b h; cases h), ?_, (by intro _ h; cases h)⟩
        intro _ a b hv
        have := hnew a b hv
        obtain ⟨_, _, has, _⟩ := valid_pos hs hv
        have := hv.2.1
        omega
      · simp only [if_neg hbig]
        have hdiv : s % k = 0 := by
          by_contra hne
          exact hk2 ⟨by omega, hne⟩
        have hkp : k * (s / k) = s := Nat.mul_div_cancel' (Nat.dvd_of_mod_eq_zero hdiv)
        obtain ⟨i1, i2, i3⟩ := ih k (s / k) (by omega) hkp (by omega) hnew
        exact ⟨i1, i2, fun h => i3 (by omega)⟩
    · simp only [if_neg hgt]
      refine ⟨?_, (by intro h; cases h), (by intro _ h; cases h)⟩
      intro a b h
      cases h
      exact ⟨⟨hp, hm, by omega⟩, h1, fun a' b' hv => hmin a' b' hv⟩

theorem search1_mono (s m1 m2 : Nat) {fi fi' : Nat} (hfi : fi ≤ fi') :
    ∀ f f' n1 n2 o, f ≤ f' → search1 s m1 m2 fi f n1 n2 = o → o ≠ .outOfFuel →
      search1 s m1 m2 fi' f' n1 n2 = o := by
  intro f
  induction f with
  | zero => intro f' n1 n2 o _ h ho; simp [search1] at h; exact absurd h.symm ho
  | succ f ih =>
    intro f' n1 n2 o hff h ho
    obtain ⟨f'', rfl⟩ : ∃ g, f' = g + 1 := ⟨f' - 1, by omega⟩
    rw [search1] at h
    rw [search1]
    by_cases hgt : n2 > m2
    · simp only [if_pos hgt] at h ⊢
      cases hk : inner1 s m1 fi (n1+1) with
      | none => simp only [hk] at h; exact absurd h.symm ho
      | some k =>
        simp only [hk, inner1_mono_le s m1 hfi _ _ hk] at h ⊢
        by_cases hbig : k > min s m1
        · simp only [if_pos hbig] at h ⊢; exact h
        · simp only [if_neg hbig] at h ⊢; exact ih _ _ _ _ (by omega) h ho
    · simp only [if_neg hgt] at h ⊢; exact h


/-! ### second search -/

theorem search2_spec (s m1 m2 fi : Nat) (hs : 1 ≤ s) (hfi : m1 + 1 ≤ fi) :
    ∀ f n1 n2 rn rd, Valid m1 m2 s n1 n2 →
      rn = ratioNum m1 m2 n1 n2 → rd = ratioDen m1 m2 n1 n2 →
      (∀ a b, search2 s m1 m2 fi f n1 n2 rn rd = .grid a b → Valid m1 m2 s a b) ∧
      search2 s m1 m2 fi f n1 n2 rn rd ≠ .noGrid ∧
      (min s m1 + 1 ≤ f + n1 → search2 s m1 m2 fi f n1 n2 rn rd ≠ .outOfFuel) := by
  intro f
  induction f with
  | zero =>
    intro n1 n2 rn rd hv _ _
    obtain ⟨_, _, _, _⟩ := valid_pos hs hv
    have := hv.2.1
    exact ⟨(by intro a b h; simp [search2] at h), (by simp [search2]), (by intro h; omega)⟩
  | succ f ih =>
    intro n1 n2 rn rd hv hrn hrd
    obtain ⟨hn1, hn2, hn1s, _⟩ := valid_pos hs hv
    obtain ⟨g, rfl⟩ : ∃ g, fi = g + 1 := ⟨fi - 1, by omega⟩
    obtain ⟨k, hk⟩ := inner2_isSome s m1 g (n1+1) (by omega)
    obtain ⟨hk1, hk2, hk3⟩ := inner2_some s m1 _ _ _ hk
    rw [search2]
    simp only [hk]
    by_cases hbig : k > min s m1
    · simp only [if_pos hbig]
      refine ⟨?_, (by intro h; cases h), (by intro _ h; cases h)⟩
      intro a b h; cases h; exact hv
    · have hlt : s / k < n2 := div_lt_of_lt hs hv.1 (by omega)
      have hle2 : s / k ≤ m2 := by have := hv.2.2; omega
      simp only [if_neg hbig, if_pos hle2]
      by_cases hacc : ratioNum m1 m2 k (s / k) * rd < rn * ratioDen m1 m2 k (s / k)
      · simp only [if_pos hacc]
        -- an accepted candidate divides the size
        have hdiv : s % k = 0 := by
          by_contra hne
          have hkm : k = m1 := by
            have : ¬ k < m1 := fun h => hk2 ⟨h, hne⟩
            omega
          subst hkm
          rw [hrn, hrd] at hacc
          exact cand_max1_not_better hv (by omega) hacc
        have hkp : k * (s / k) = s := Nat.mul_div_cancel' (Nat.dvd_of_mod_eq_zero hdiv)
        have hv' : Valid m1 m2 s k (s / k) := ⟨hkp, by omega, hle2⟩
        obtain ⟨i1, i2, i3⟩ := ih k (s / k) _ _ hv' rfl rfl
        exact ⟨i1, i2, fun h => i3 (by omega)⟩
      · simp only [if_neg hacc]
        refine ⟨?_, (by intro h; cases h), (by intro _ h; cases h)⟩
        intro a b h; cases h; exact hv

theorem search2_mono (s m1 m2 : Nat) {fi fi' : Nat} (hfi : fi ≤ fi') :
    ∀ f f' n1 n2 rn rd o, f ≤ f' → search2 s m1 m2 fi f n1 n2 rn rd = o → o ≠ .outOfFuel →
      search2 s m1 m2 fi' f' n1 n2 rn rd = o := by
  intro f
  induction f with
  | zero => intro f' n1 n2 rn rd o _ h ho; simp [search2] at h; exact absurd h.symm ho
  | succ f ih =>
    intro f' n1 n2 rn rd o hff h ho
    obtain ⟨f'', rfl⟩ : ∃ g, f' = g + 1 := ⟨f' - 1, by omega⟩
    rw [search2] at h
    rw [search2]
    cases hk : inner2 s m1 fi (n1+1) with
    | none => simp only [hk] at h; exact absurd h.symm ho
    | some k =>
      simp only [hk, inner2_mono_le s m1 hfi _ _ hk] at h ⊢
      by_cases hbig : k > min s m1
      · simp only [if_pos hbig] at h ⊢; exact h
      · simp only [if_neg hbig] at h ⊢
        by_cases hle2 : s / k ≤ m2
        · simp only [if_pos hle2] at h ⊢
          by_cases hacc : ratioNum m1 m2 k (s / k) * rd < rn * ratioDen m1 m2 k (s / k)
          · simp only [if_pos hacc] at h ⊢; exact ih _ _ _ _ _ _ (by omega) h ho
          · simp only [if_neg hacc] at h ⊢; exact h
        · simp only [if_neg hle2] at h ⊢; exact ih _ _ _ _ _ _ (by omega) h ho

/-! ### the whole function -/

theorem runWith_mono {F F' m1 m2 s : Nat} (hF : F ≤ F') {o : Outcome}
    (h : runWith F m1 m2 s = o) (ho : o ≠ .outOfFuel) : runWith F' m1 m2 s = o := by
  unfold runWith at h ⊢
  cases h1 : search1 s m1 m2 F F 1 s with
  | grid a b =>
    rw [h1] at h
    rw [search1_mono s m1 m2 hF _ _ _ _ _ hF h1 (by intro e; cases e)]
    exact search2_mono s m1 m2 hF _ _ _ _ _ _ _ hF h ho
  | noGrid =>
    rw [h1] at h
    rw [search1_mono s m1 m2 hF _ _ _ _ _ hF h1 (by intro e; cases e)]
    exact h
  | outOfFuel => rw [h1] at h; exact absurd h.symm ho

/-- complete specification of a run with enough fuel -/
theorem runWith_spec {F m1 m2 s : Nat} (hs : 1 ≤ s) (hm1 : 1 ≤ m1) (hF : m1 + 2 ≤ F) :
    runWith F m1 m2 s ≠ .outOfFuel ∧
    (∀ a b, runWith F m1 m2 s = .grid a b → Valid m1 m2 s a b) ∧
    (runWith F m1 m2 s = .noGrid → ∀ a b, ¬ Valid m1 m2 s a b) := by
  have hmin : min s m1 ≤ m1 := Nat.min_le_right _ _
  obtain ⟨g1, g2, g3⟩ := search1_spec s m1 m2 F hs (by omega) F 1 s (Nat.le_refl _) (Nat.one_mul s) hm1
    (fun a b hv => (valid_pos hs hv).1)
  unfold runWith
  cases h1 : search1 s m1 m2 F F 1 s with
  | grid a b =>
    obtain ⟨hv, ha, _⟩ := g1 a b h1
    obtain ⟨i1, i2, i3⟩ := search2_spec s m1 m2 F hs (by omega) F a b _ _ hv rfl rfl
    exact ⟨i3 (by omega), i1, fun h => absurd h i2⟩
  | noGrid => exact ⟨(by intro e; cases e), (by intro a b e; cases e), fun _ => g2 h1⟩
  | outOfFuel => exact absurd h1 (g3 (by omega))

end PygyroVerif.ProcGrid
