/-
Helper lemmas for Props/C08Extra.lean: Marsden's identity for the A2.2 triangle and its consequence that every polynomial of degree
`≤ p` is a spline (with explicit coefficients).

  * `marsden_abstract`            `Σ_{k+m=j} U(k,m) · Π_{k'<k}(z + a_k') · Π_{m'<m}(z − b_m') = z^j` in any commutative ring
                                   (`a_k = x − t_{span−k}`, `b_m = t_{span+1+m} − x`, `z = y − x`)
  * `dualPoly`, `marsden_cell`    `Σ_m values[m] · Ψ_{span−p+m}(Y) = (Y − x)^p` in `K[Y]`, `Ψ_i = Π_{j=1..p} (Y − t_{i+j})`
  * `monoCoeff`, `monomial_cell`  `Σ_m values[m] · γ^{(k)}_{span−p+m} = x^k` with `γ^{(k)}_i = (−1)^k [Y^{p−k}]Ψ_i / C(p,k)`
  * `polyCoeff`, `polynomial_cell`, `polynomial_in_spline_space`
                                   the coefficient vector of `Σ_k a_k x^k` and `evalSpline1D` of it, for every `x`
-/
import PygyroVerif.Model.BSpline
import PygyroVerif.Lemmas.BSpline
import PygyroVerif.Lemmas.Interp
import PygyroVerif.Props.C07
import Mathlib.Algebra.Polynomial.Coeff
import Mathlib.Algebra.Polynomial.Monic
import Mathlib.Algebra.Polynomial.BigOperators
import Mathlib.Algebra.Polynomial.Eval.Defs
import Mathlib.Algebra.BigOperators.NatAntidiagonal
import Mathlib.Algebra.BigOperators.Intervals
import Mathlib.Data.Nat.Choose.Basic
import Mathlib.Tactic.Ring
import Mathlib.Tactic.FieldSimp
import Mathlib.Tactic.Linarith
import Mathlib.Tactic.LinearCombination

set_option linter.unusedSectionVars false
set_option linter.unusedVariables false

namespace PygyroVerif.SplineMarsden
open PygyroVerif.BSpline Polynomial Finset

/-! ### Marsden's identity for the abstract triangle -/

section abstract
variable {R : Type*} [CommRing R]

/-- `Σ_{k+m=j} U(k,m) · Π_{k'<k}(z + a_k') · Π_{m'<m}(z − b_m') = z^j` -/
theorem marsden_abstract (a b : ℕ → R) (e : ℕ → ℕ → R) (hinv : ∀ k m, e k m * (a k + b m) = 1) (z : R) :
    ∀ j, ∑ km ∈ antidiagonal j,
      U a b e km.1 km.2 * ((∏ i ∈ range km.1, (z + a i)) * (∏ i ∈ range km.2, (z - b i))) = z ^ j := by
  intro j
  induction j with
  | zero => simp [U]
  | succ j ih =>
    have hsplit : ∑ km ∈ antidiagonal (j + 1),
          U a b e km.1 km.2 * ((∏ i ∈ range km.1, (z + a i)) * (∏ i ∈ range km.2, (z - b i)))
        = ∑ km ∈ antidiagonal (j + 1),
            (a km.1 * P a b e km.1 km.2) * ((∏ i ∈ range km.1, (z + a i)) * (∏ i ∈ range km.2, (z - b i)))
          + ∑ km ∈ antidiagonal (j + 1),
            (b km.2 * Q a b e km.1 km.2) * ((∏ i ∈ range km.1, (z + a i)) * (∏ i ∈ range km.2, (z - b i))) := by
      rw [← sum_add_distrib]
      apply sum_congr rfl
      intro km hkm
      have : km.1 + km.2 = j + 1 := mem_antidiagonal.mp hkm
      rw [U_eq a b e km.1 km.2 (by omega)]
      ring
    rw [hsplit, Finset.Nat.sum_antidiagonal_succ', Finset.Nat.sum_antidiagonal_succ]
    simp only [P, Q, mul_zero, zero_mul, zero_add]
    rw [← sum_add_distrib, pow_succ, ← ih, sum_mul]
    apply sum_congr rfl
    intro km _
    rw [prod_range_succ, prod_range_succ]
    linear_combination (z * U a b e km.1 km.2 * (∏ i ∈ range km.1, (z + a i)) * (∏ i ∈ range km.2, (z - b i))) * hinv km.1 km.2

end abstract

/-! ### Marsden's identity for the values of `nu_basis_funs` -/

section field
variable {K : Type*} [Field K] [LinearOrder K] [IsStrictOrderedRing K]

/-- dual polynomial of basis function `i`: `Ψ_i(Y) = Π_{j=1..p} (Y − t_{i+j})` -/
noncomputable def dualPoly (t : ℕ → K) (p i : ℕ) : K[X] := ∏ j ∈ range p, (X - C (t (i + 1 + j)))

theorem dualPoly_split (t : ℕ → K) (p span k m : ℕ) (hkm : k + m = p) (hp : p ≤ span) :
    dualPoly t p (span - p + m) = (∏ j ∈ range k, (X - C (t (span - j)))) * (∏ j ∈ range m, (X - C (t (span + 1 + j)))) := by
  unfold dualPoly
  rw [← hkm, prod_range_add]
  congr 1
  · rw [← prod_range_reflect]
    apply prod_congr rfl
    intro j hj
    have := mem_range.mp hj
    congr 3
    omega
  · apply prod_congr rfl
    intro j _
    congr 3
    omega

theorem list_range_map_sum (f : ℕ → K) (n : ℕ) : ((List.range n).map f).sum = ∑ i ∈ range n, f i := by
  induction n with
  | zero => simp
  | succ n ih => rw [List.range_succ, List.map_append, List.sum_append, ih, sum_range_succ]; simp

/-- **Marsden's identity on a cell**: `Σ_m values[m] · Ψ_{span−p+m}(Y) = (Y − x)^p` for *every* `x` (the identity is polynomial in
    `x`), on every non-degenerate cell of sorted knots -/
theorem marsden_cell (t : ℕ → K) (ht : Monotone t) (p span : ℕ) (hp : p ≤ span) (hcell : t span < t (span + 1)) (x : K) :
    ∑ m ∈ range (p + 1), C ((basisFuns t p x span).getD m 0) * dualPoly t p (span - p + m) = (X - C x) ^ p := by
  set a : ℕ → K := leftOf t span x with ha
  set b : ℕ → K := rightOf t span x with hb
  set e : ℕ → ℕ → K := fun k m => (a k + b m)⁻¹ with he
  have hne : ∀ k m, a k + b m ≠ 0 := by
    intro k m
    simp only [ha, hb, leftOf, rightOf]
    have h1 : t (span - k) ≤ t span := ht (by omega)
    have h2 : t (span + 1) ≤ t (span + 1 + m) := ht (by omega)
    exact ne_of_gt (by linarith)
  have hM := marsden_abstract (fun k => C (a k)) (fun m => C (b m)) (fun k m => C (e k m))
    (fun k m => by rw [← C_add, ← C_mul, he]; simp only; rw [inv_mul_cancel₀ (hne k m), C_1]) (X - C x) p
  rw [← hM, Finset.Nat.sum_antidiagonal_eq_sum_range_succ_mk]
  conv_rhs => rw [← Finset.sum_range_reflect]
  apply sum_congr rfl
  intro m hm
  have hm' : m < p + 1 := mem_range.mp hm
  have e1 : p + 1 - 1 - m = p - m := by omega
  have e2 : p - (p - m) = m := by omega
  simp only [e1, e2]
  have hU := U_map (C : K →+* K[X]) a b e (p - m) m
  rw [← hU]
  congr 1
  · congr 1
    show (levels a b p).getD m 0 = _
    exact levels_getD_eq_U a b p (p - m) m (by omega)
  · rw [dualPoly_split t p span (p - m) m (by omega) hp]
    congr 1
    · apply prod_congr rfl
      intro j _
      simp only [ha, leftOf, C_sub]
      ring
    · apply prod_congr rfl
      intro j _
      simp only [hb, rightOf, C_sub]
      ring

/-- coefficient of basis function `i` in the spline representation of `x^k` (`k ≤ p`):
    `γ^{(k)}_i = (−1)^k · [Y^{p−k}] Ψ_i / C(p,k)` -/
noncomputable def monoCoeff (t : ℕ → K) (p k i : ℕ) : K := (-1) ^ k * (dualPoly t p i).coeff (p - k) / (p.choose k : K)

/-- `Σ_m values[m] · γ^{(k)}_{span−p+m} = x^k` on every non-degenerate cell, for every `x` -/
theorem monomial_cell (t : ℕ → K) (ht : Monotone t) (p span : ℕ) (hp : p ≤ span) (hcell : t span < t (span + 1)) (x : K)
    (k : ℕ) (hk : k ≤ p) :
    ∑ m ∈ range (p + 1), (basisFuns t p x span).getD m 0 * monoCoeff t p k (span - p + m) = x ^ k := by
  have hM := congrArg (fun q : K[X] => q.coeff (p - k)) (marsden_cell t ht p span hp hcell x)
  simp only [finsetSum_coeff, coeff_C_mul] at hM
  have hr : (X - C x : K[X]) = X + C (-x) := by rw [C_neg]; ring
  rw [hr, coeff_X_add_C_pow] at hM
  have e1 : p - (p - k) = k := by omega
  rw [e1, Nat.choose_symm hk] at hM
  have hch : (p.choose k : K) ≠ 0 := by
    have : 0 < p.choose k := Nat.choose_pos hk
    exact_mod_cast (Nat.pos_iff_ne_zero.mp this)
  have : ∑ m ∈ range (p + 1), (basisFuns t p x span).getD m 0 * monoCoeff t p k (span - p + m)
      = (-1) ^ k / (p.choose k : K) *
        ∑ m ∈ range (p + 1), (basisFuns t p x span).getD m 0 * (dualPoly t p (span - p + m)).coeff (p - k) := by
    rw [mul_sum]
    apply sum_congr rfl
    intro m _
    unfold monoCoeff
    ring
  rw [this, hM, neg_pow]
  have h1 : ((-1 : K) ^ k) * ((-1) ^ k) = 1 := by rw [← mul_pow]; simp
  field_simp
  linear_combination (x ^ k) * h1

/-- coefficient vector of the polynomial `Σ_{k ≤ p} a_k x^k` -/
noncomputable def polyCoeff (t : ℕ → K) (p : ℕ) (a : ℕ → K) (i : ℕ) : K := ∑ k ∈ range (p + 1), a k * monoCoeff t p k i

theorem polynomial_cell (t : ℕ → K) (ht : Monotone t) (p span : ℕ) (hp : p ≤ span) (hcell : t span < t (span + 1)) (x : K)
    (a : ℕ → K) :
    ∑ m ∈ range (p + 1), (basisFuns t p x span).getD m 0 * polyCoeff t p a (span - p + m)
      = ∑ k ∈ range (p + 1), a k * x ^ k := by
  unfold polyCoeff
  have : ∀ m ∈ range (p + 1), (basisFuns t p x span).getD m 0 * ∑ k ∈ range (p + 1), a k * monoCoeff t p k (span - p + m)
      = ∑ k ∈ range (p + 1), a k * ((basisFuns t p x span).getD m 0 * monoCoeff t p k (span - p + m)) := by
    intro m _
    rw [mul_sum]
    apply sum_congr rfl
    intro k _
    ring
  rw [sum_congr rfl this, sum_comm]
  apply sum_congr rfl
  intro k hk
  rw [← mul_sum, monomial_cell t ht p span hp hcell x k (by have := mem_range.mp hk; omega)]

/-- **every polynomial of degree `≤ p` is a spline**: with the coefficient vector `polyCoeff`, the evaluation kernel returns the
    value of the polynomial at *every* `x` (inside the domain, at its two ends, and outside where `nu_find_span` clamps to the first /
    last cell), for sorted knots whose cells in the domain are non-degenerate -/
theorem polynomial_in_spline_space (t : ℕ → K) (ht : Monotone t) (nk p : ℕ) (hnk : 2 * p + 2 ≤ nk)
    (hcell : ∀ s, p ≤ s → s + p + 2 ≤ nk → t s < t (s + 1)) (a : ℕ → K) (x : K) :
    evalSpline1D t nk p (polyCoeff t p a) x false = some (∑ k ∈ range (p + 1), a k * x ^ k) := by
  have hdom : t p < t (nk - 1 - p) := lt_of_lt_of_le (hcell p (le_refl _) (by omega)) (ht (by omega))
  obtain ⟨span, hspan, _⟩ := C07.findSpan_some_correct t ht nk p x hdom
  have hb := Interp.findSpan_bounds t nk p x span hnk hspan
  unfold evalSpline1D
  rw [hspan]
  simp only [Option.map_some, basisOrDer, Bool.false_eq_true, if_false, Option.some.injEq]
  rw [BSpline.dotFrom_eq_sum, BSpline.basisFuns_length, list_range_map_sum,
    ← polynomial_cell t ht p span hb.1 (hcell span hb.1 hb.2) x a]
  apply sum_congr rfl
  intro m _
  ring

/-! ### the coefficients of `1` and of `x` -/

theorem dualPoly_monic (t : ℕ → K) (p i : ℕ) : (dualPoly t p i).Monic :=
  monic_prod_of_monic _ _ (fun j _ => monic_X_sub_C _)

theorem dualPoly_natDegree (t : ℕ → K) (p i : ℕ) : (dualPoly t p i).natDegree = p := by
  unfold dualPoly
  rw [natDegree_prod_of_monic _ _ (fun j _ => monic_X_sub_C _)]
  simp

/-- constants: every coefficient is `1` (partition of unity) -/
theorem monoCoeff_zero (t : ℕ → K) (p i : ℕ) : monoCoeff t p 0 i = 1 := by
  unfold monoCoeff
  have h := (dualPoly_monic t p i).coeff_natDegree
  rw [dualPoly_natDegree] at h
  simp [h]

/-- `x`: the coefficients are the Greville abscissae `(t_{i+1} + … + t_{i+p})/p` -/
theorem monoCoeff_one (t : ℕ → K) (p i : ℕ) (hp : 0 < p) : monoCoeff t p 1 i = (∑ j ∈ range p, t (i + 1 + j)) / (p : K) := by
  unfold monoCoeff dualPoly
  have h := prod_X_sub_C_coeff_card_pred (range p) (fun j => t (i + 1 + j)) (by simpa using hp)
  rw [card_range] at h
  rw [h, Nat.choose_one_right]
  ring

theorem polyCoeff_linear (t : ℕ → K) (p : ℕ) (hp : 0 < p) (c0 c1 : K) (i : ℕ) :
    polyCoeff t p (fun k => if k = 0 then c0 else if k = 1 then c1 else 0) i
      = c0 + c1 * ((∑ j ∈ range p, t (i + 1 + j)) / (p : K)) := by
  unfold polyCoeff
  obtain ⟨q, rfl⟩ : ∃ q, p = q + 1 := ⟨p - 1, by omega⟩
  rw [sum_range_succ', sum_range_succ']
  have : ∑ k ∈ range q, (if k + 1 + 1 = 0 then c0 else if k + 1 + 1 = 1 then c1 else 0) * monoCoeff t (q + 1) (k + 1 + 1) i = 0 := by
    apply sum_eq_zero
    intro k _
    simp
  rw [this, monoCoeff_zero, monoCoeff_one t (q + 1) i (by omega)]
  simp
  ring

end field

end PygyroVerif.SplineMarsden
