/-
Helper lemmas for Props/C09Extra.lean (`uniform_periodic_equal_weights`): on a periodic space with uniform knots `t_i = a + i·h`

  * `greville_uniform_periodic`     `BSplines.greville` (model) yields the points `x₀ + i·h`, `x₀ = xmin + (h/2 if p even else 0)`
  * `findSpan_uniform`              the span search at `x₀ + i·h` returns the cell `p + i`
  * `basisQuads_uniform`            the folded right-hand side `basis_quads` is constant `= h`
  * `domain_length_uniform`         `n·h = xmax − xmin`
  * `dominant_transpose_injective`  a row-stochastic non-negative matrix with an entry `> 1/2` in every row, at positions forming a
                                    permutation, has an injective transpose (ℓ¹ argument)
  * `uniform_periodic_unisolvent_of_dominant`, `dominant_value_low_degree`
                                    unisolvence of the model's circulant collocation matrix from one basis value `> 1/2`; that value for
                                    degrees 1 … 6 (`levels_scale`: A2.2 is scale invariant, then exact evaluation)
-/
import PygyroVerif.Model.Interp
import PygyroVerif.Lemmas.BSpline
import PygyroVerif.Lemmas.Interp
import PygyroVerif.Lemmas.SplineIntegrals
import PygyroVerif.Props.C07
import PygyroVerif.Props.C09
import Mathlib.Algebra.Order.Field.Basic
import Mathlib.Tactic.Ring
import Mathlib.Tactic.FieldSimp
import Mathlib.Tactic.Linarith
import Mathlib.Tactic.Positivity
import Mathlib.Tactic.ByContra
import Mathlib.Tactic.Set
import Mathlib.Logic.Basic
import Mathlib.Data.Nat.ModEq
import Mathlib.Tactic.NormNum
import Mathlib.Tactic.IntervalCases

set_option linter.unusedSectionVars false
set_option linter.unusedVariables false

namespace PygyroVerif.SplineUniform
open PygyroVerif.BSpline PygyroVerif.Interp PygyroVerif.SplineIntegrals Finset

variable {K : Type*} [Field K] [LinearOrder K] [IsStrictOrderedRing K]

/-! ### uniform knots -/

theorem uniform_strictMono (a h : K) (hh : 0 < h) (t : ℕ → K) (ht : ∀ i, t i = a + (i : K) * h) : StrictMono t := by
  intro i j hij
  rw [ht, ht]
  have : (i : K) < (j : K) := by exact_mod_cast hij
  nlinarith

theorem sum_range_cast (p : ℕ) : ∑ k ∈ range p, (k : K) = (p : K) * ((p : K) - 1) / 2 := by
  induction p with
  | zero => simp
  | succ p ih => rw [sum_range_succ, ih]; push_cast; ring

/-- `np.sum(T[s+i : s+i+p])/p` on uniform knots -/
theorem grevilleRaw_uniform (a h : K) (t : ℕ → K) (ht : ∀ i, t i = a + (i : K) * h) (d s i : ℕ) (hd : 0 < d) :
    grevilleRaw t d s i = a + ((s + i : ℕ) : K) * h + ((d : K) - 1) / 2 * h := by
  unfold grevilleRaw
  have hterm : ∀ k ∈ range d, t (s + i + k) = (a + ((s + i : ℕ) : K) * h) + (k : K) * h := by
    intro k _
    rw [ht]; push_cast; ring
  rw [sum_congr rfl hterm, sum_add_distrib, sum_const, card_range, ← sum_mul, sum_range_cast, nsmul_eq_mul]
  have hd' : (d : K) ≠ 0 := by exact_mod_cast (Nat.pos_iff_ne_zero.mp hd)
  field_simp

/-- offset of the first interpolation point from `xmin`: half a cell for even degree, zero for odd degree -/
def grevOffset (d : ℕ) (h : K) : K := if d % 2 = 0 then h / 2 else 0

theorem grevOffset_bounds (d : ℕ) (h : K) (hh : 0 < h) : 0 ≤ grevOffset d h ∧ grevOffset d h < h := by
  unfold grevOffset
  split_ifs
  · constructor <;> linarith
  · exact ⟨le_refl _, hh⟩

theorem greville_offset_arith (d i : ℕ) (a h : K) :
    a + ((1 + d / 2 + i : ℕ) : K) * h + ((d : K) - 1) / 2 * h - (a + (d : K) * h) = grevOffset d h + (i : K) * h := by
  unfold grevOffset
  rcases Nat.even_or_odd' d with ⟨e, he | he⟩
  · have h1 : d / 2 = e := by omega
    have h2 : d % 2 = 0 := by omega
    rw [h1, if_pos h2, he]
    push_cast
    ring
  · have h1 : d / 2 = e := by omega
    have h2 : ¬ (d % 2 = 0) := by omega
    rw [h1, if_neg h2, he]
    push_cast
    ring

theorem floor_eq_zero (floor : K → ℤ) (hfl : ∀ q : K, ((floor q : ℤ) : K) ≤ q ∧ q < ((floor q : ℤ) : K) + 1)
    (q : K) (h0 : 0 ≤ q) (h1 : q < 1) : floor q = 0 := by
  obtain ⟨ha, hb⟩ := hfl q
  have h2 : ((floor q : ℤ) : K) < ((1 : ℤ) : K) := by push_cast; exact lt_of_le_of_lt ha h1
  have h3 : (((-1 : ℤ)) : K) < ((floor q : ℤ) : K) := by push_cast; linarith
  have h2' : floor q < 1 := by exact_mod_cast h2
  have h3' : (-1 : ℤ) < floor q := by exact_mod_cast h3
  omega

theorem periodic_counts (S : Space K) (hadm : S.Admissible) (hper : S.periodic = true) :
    S.nbasis = S.nk - 2 * S.degree - 1 ∧ S.nk - S.degree - 1 = S.nbasis + S.degree ∧ 0 < S.nbasis ∧ S.degree ≤ S.nbasis := by
  obtain ⟨hd, hnk, hp⟩ := hadm
  have := hp hper
  have hnb : S.nbasis = S.ncells := by simp [Space.nbasis, hper]
  rw [hnb]
  unfold Space.ncells at *
  omega

/-- `n·h = xmax − xmin` -/
theorem domain_length_uniform (S : Space K) (hadm : S.Admissible) (hper : S.periodic = true) (a h : K)
    (ht : ∀ i, S.t i = a + (i : K) * h) : (S.nbasis : K) * h = S.xmax - S.xmin := by
  obtain ⟨_, h2, _, _⟩ := periodic_counts S hadm hper
  unfold Space.xmax Space.xmin
  rw [h2, ht, ht]
  push_cast
  ring

/-- the interpolation points of the model on a uniform periodic space: `xmin + offset + i·h` -/
theorem greville_uniform_periodic (floor : K → ℤ) (hfl : ∀ q : K, ((floor q : ℤ) : K) ≤ q ∧ q < ((floor q : ℤ) : K) + 1)
    (S : Space K) (hadm : S.Admissible) (hper : S.periodic = true) (a h : K) (hh : 0 < h)
    (ht : ∀ i, S.t i = a + (i : K) * h) (i : ℕ) (hi : i < S.nbasis) :
    greville floor S i = (S.xmin + grevOffset S.degree h) + (i : K) * h := by
  obtain ⟨_, _, hn0, _⟩ := periodic_counts S hadm hper
  have hlen := domain_length_uniform S hadm hper a h ht
  have hx : grevilleRaw S.t S.degree (1 + S.degree / 2) i - S.xmin = grevOffset S.degree h + (i : K) * h := by
    rw [grevilleRaw_uniform a h S.t ht S.degree _ i hadm.1]
    unfold Space.xmin
    rw [ht S.degree]
    exact greville_offset_arith S.degree i a h
  obtain ⟨ho0, ho1⟩ := grevOffset_bounds S.degree h hh
  have hnpos : (0 : K) < (S.nbasis : K) := by exact_mod_cast hn0
  have hLpos : 0 < S.xmax - S.xmin := by rw [← hlen]; positivity
  have hi' : (i : K) + 1 ≤ (S.nbasis : K) := by exact_mod_cast hi
  have hfloor : floor ((grevOffset S.degree h + (i : K) * h) / (S.xmax - S.xmin)) = 0 := by
    apply floor_eq_zero floor hfl
    · apply div_nonneg _ (le_of_lt hLpos)
      have : 0 ≤ (i : K) * h := by positivity
      linarith
    · rw [div_lt_one hLpos, ← hlen]
      nlinarith
  unfold greville
  simp only [hper, if_true]
  unfold pyMod
  rw [hx, hfloor]
  push_cast
  ring

/-- the span search at `xmin + o + i·h` (`0 ≤ o < h`, `i < n`) returns the cell `p + i` -/
theorem findSpan_uniform (S : Space K) (hadm : S.Admissible) (hper : S.periodic = true) (a h : K) (hh : 0 < h)
    (ht : ∀ i, S.t i = a + (i : K) * h) (o : K) (ho0 : 0 ≤ o) (ho1 : o < h) (i : ℕ) (hi : i < S.nbasis) :
    findSpan S.t S.nk S.degree (S.xmin + o + (i : K) * h) = some (S.degree + i) := by
  obtain ⟨h1, h2, hn0, _⟩ := periodic_counts S hadm hper
  have hsm := uniform_strictMono a h hh S.t ht
  have hlo : S.t (S.degree + i) ≤ S.xmin + o + (i : K) * h := by
    unfold Space.xmin; rw [ht, ht]; push_cast; linarith
  have hhi : S.xmin + o + (i : K) * h < S.t (S.degree + i + 1) := by
    unfold Space.xmin; rw [ht, ht]; push_cast; linarith
  have hdom : S.t S.degree < S.t (S.nk - 1 - S.degree) := hsm (by have := hadm.2.1; omega)
  by_cases hx : S.xmin + o + (i : K) * h ≤ S.t S.degree
  · have hi0 : i = 0 := by
      by_contra hne
      have : S.t S.degree < S.t (S.degree + i) := hsm (by omega)
      exact absurd (lt_of_lt_of_le this hlo) (not_lt.mpr hx)
    subst hi0
    unfold findSpan
    simp only
    rw [if_pos hx]
    rfl
  · apply C07.findSpan_unique S.t hsm.monotone S.nk S.degree _ hdom (not_le.mp hx)
    · have e : S.nk - 1 - S.degree = S.nk - S.degree - 1 := by omega
      rw [e, h2]
      exact lt_of_lt_of_le hhi (hsm.monotone (by omega))
    · exact hlo
    · exact hhi

/-! ### the right-hand side of the transposed solve -/

/-- the folded integrals `basis_quads` of the model are all equal to `h` on a uniform periodic space -/
theorem basisQuads_uniform (S : Space K) (hadm : S.Admissible) (hper : S.periodic = true) (a h : K) (hh : 0 < h)
    (ht : ∀ i, S.t i = a + (i : K) * h) (I : ℕ → K) (hI : ∀ k, k < S.ncoeffs → integralsGeneral S k = some (I k))
    (j : ℕ) (hj : j < S.nbasis) : basisQuads true S.nbasis S.degree I j = h := by
  obtain ⟨h1, h2, hn0, hdn⟩ := periodic_counts S hadm hper
  have hsm := uniform_strictMono a h hh S.t ht
  have hnc : S.ncoeffs = S.nbasis + S.degree := by unfold Space.ncoeffs Space.nbasis; rw [hper]; simp
  have hd1 : ((S.degree : K) + 1) ≠ 0 := Nat.cast_add_one_ne_zero _
  have hfull : ∀ i, (S.t (i + S.degree + 1) - S.t i) * (1 / ((S.degree : K) + 1)) = h := by
    intro i
    rw [ht, ht]
    push_cast
    field_simp
    ring
  unfold basisQuads
  by_cases hjd : j < S.degree
  · rw [if_pos ⟨rfl, hjd⟩]
    have hsum := C09.periodic_full_integral S hper hadm j hjd (I j) (I (S.nbasis + j)) (hI j (by omega)) (hI _ (by omega))
    rw [hsum, C09.fullIntegral_eq S j (by have := hadm.2.1; omega)]
    exact hfull j
  · rw [if_neg (fun hc => hjd hc.2)]
    have hIj := hI j (by omega)
    unfold integralsGeneral at hIj
    rw [if_pos hj] at hIj
    have hint := integralGeneral_interior S hadm hsm.monotone (fun s _ _ => hsm (by omega)) j (by omega) (by omega)
      (hsm (by have := hadm.1; omega)) (hsm (by omega))
    rw [hint] at hIj
    simp only [Option.some.injEq] at hIj
    rw [← hIj]
    exact hfull j

/-! ### strictly dominant stochastic matrices -/

/-- a non-negative matrix with unit row sums whose rows each have an entry `> 1/2`, at column positions `σ i` forming a permutation of
    `{0,…,n−1}`, has an injective transpose (ℓ¹ argument: `Σ_i |v_i| (2 M_{i,σ i} − 1) ≤ 0`) -/
theorem dominant_transpose_injective (n : ℕ) (M : ℕ → ℕ → K) (σ : ℕ → ℕ)
    (hσ : ∀ i, i < n → σ i < n) (hσinj : ∀ i i', i < n → i' < n → σ i = σ i' → i = i')
    (hnonneg : ∀ i j, i < n → j < n → 0 ≤ M i j) (hrow : ∀ i, i < n → ∑ j ∈ range n, M i j = 1)
    (hdom : ∀ i, i < n → 1 / 2 < M i (σ i))
    (v : ℕ → K) (hv : ∀ j, j < n → matTVec M n v j = 0) : ∀ i, i < n → v i = 0 := by
  -- reindexing the columns by σ
  have hreindex : ∀ f : ℕ → K, ∑ i ∈ range n, f (σ i) = ∑ j ∈ range n, f j := by
    intro f
    apply sum_nbij σ
    · intro i hi; exact mem_range.mpr (hσ i (mem_range.mp hi))
    · intro i hi i' hi' h
      exact hσinj i i' (mem_range.mp (mem_coe.mp hi)) (mem_range.mp (mem_coe.mp hi')) h
    · have hcard : (image σ (range n)).card = (range n).card :=
        card_image_of_injOn (fun i hi i' hi' h => hσinj i i' (mem_range.mp (mem_coe.mp hi)) (mem_range.mp (mem_coe.mp hi')) h)
      have hsub : image σ (range n) ⊆ range n := by
        intro j hj
        obtain ⟨i, hi, rfl⟩ := mem_image.mp hj
        exact mem_range.mpr (hσ i (mem_range.mp hi))
      have heq : image σ (range n) = range n := eq_of_subset_of_card_le hsub (by rw [hcard])
      intro j hj
      have : j ∈ image σ (range n) := by rw [heq]; exact hj
      obtain ⟨i, hi, rfl⟩ := mem_image.mp this
      exact ⟨i, hi, rfl⟩
    · intro i _; rfl
  -- each equation bounds the dominant term by the others
  have hbound : ∀ i, i < n → M i (σ i) * |v i| ≤ ∑ i' ∈ range n, M i' (σ i) * |v i'| - M i (σ i) * |v i| := by
    intro i hi
    have h0 := hv (σ i) (hσ i hi)
    unfold matTVec at h0
    have hsplit : ∑ i' ∈ range n, M i' (σ i) * v i' = M i (σ i) * v i + ∑ i' ∈ (range n).erase i, M i' (σ i) * v i' := by
      rw [add_comm, sum_erase_add _ _ (mem_range.mpr hi)]
    have hsplit' : ∑ i' ∈ range n, M i' (σ i) * |v i'| = M i (σ i) * |v i| + ∑ i' ∈ (range n).erase i, M i' (σ i) * |v i'| := by
      rw [add_comm, sum_erase_add _ _ (mem_range.mpr hi)]
    rw [hsplit']
    have hMi : 0 ≤ M i (σ i) := hnonneg i _ hi (hσ i hi)
    have h1 : M i (σ i) * v i = - ∑ i' ∈ (range n).erase i, M i' (σ i) * v i' := by
      rw [hsplit] at h0; linarith
    have h2 : M i (σ i) * |v i| = |∑ i' ∈ (range n).erase i, M i' (σ i) * v i'| := by
      rw [← abs_of_nonneg hMi, ← abs_mul, h1, abs_neg]
    have h3 : |∑ i' ∈ (range n).erase i, M i' (σ i) * v i'| ≤ ∑ i' ∈ (range n).erase i, M i' (σ i) * |v i'| := by
      refine le_trans (abs_sum_le_sum_abs _ _) (le_of_eq ?_)
      apply sum_congr rfl
      intro i' hi'
      rw [abs_mul, abs_of_nonneg (hnonneg i' _ (mem_range.mp (mem_of_mem_erase hi')) (hσ i hi))]
    linarith
  -- sum over the rows
  have hsum : ∑ i ∈ range n, M i (σ i) * |v i| ≤ ∑ i ∈ range n, (1 - M i (σ i)) * |v i| := by
    have h1 : ∑ i ∈ range n, M i (σ i) * |v i|
        ≤ ∑ i ∈ range n, (∑ i' ∈ range n, M i' (σ i) * |v i'| - M i (σ i) * |v i|) :=
      sum_le_sum (fun i hi => hbound i (mem_range.mp hi))
    have h2 : ∑ i ∈ range n, ∑ i' ∈ range n, M i' (σ i) * |v i'| = ∑ i' ∈ range n, |v i'| := by
      rw [sum_comm]
      apply sum_congr rfl
      intro i' hi'
      rw [← sum_mul, hreindex (fun j => M i' j), hrow i' (mem_range.mp hi'), one_mul]
    rw [sum_sub_distrib, h2] at h1
    have h3 : ∑ i ∈ range n, (1 - M i (σ i)) * |v i| = ∑ i ∈ range n, |v i| - ∑ i ∈ range n, M i (σ i) * |v i| := by
      rw [← sum_sub_distrib]
      apply sum_congr rfl
      intro i _
      ring
    rw [h3]
    exact h1
  have hle : ∑ i ∈ range n, (2 * M i (σ i) - 1) * |v i| ≤ 0 := by
    have : ∑ i ∈ range n, (2 * M i (σ i) - 1) * |v i|
        = ∑ i ∈ range n, M i (σ i) * |v i| - ∑ i ∈ range n, (1 - M i (σ i)) * |v i| := by
      rw [← sum_sub_distrib]
      apply sum_congr rfl
      intro i _
      ring
    rw [this]
    linarith
  have hterm : ∀ i ∈ range n, 0 ≤ (2 * M i (σ i) - 1) * |v i| := by
    intro i hi
    have := hdom i (mem_range.mp hi)
    exact mul_nonneg (by linarith) (abs_nonneg _)
  have hzero := (sum_eq_zero_iff_of_nonneg hterm).mp (le_antisymm hle (sum_nonneg hterm))
  intro i hi
  have h0 := hzero i (mem_range.mpr hi)
  have hpos : 0 < 2 * M i (σ i) - 1 := by have := hdom i hi; linarith
  have : |v i| = 0 := by
    rcases mul_eq_zero.mp h0 with h | h
    · exact absurd h (ne_of_gt hpos)
    · exact h
  exact abs_eq_zero.mp this

/-! ### rows of the collocation matrix with a dominant entry -/

theorem list_sum_nonneg' (l : List K) (h : ∀ v ∈ l, 0 ≤ v) : 0 ≤ l.sum := by
  induction l with
  | nil => simp
  | cons a l ih =>
    rw [List.sum_cons]
    exact add_nonneg (h a (by simp)) (ih (fun v hv => h v (by simp [hv])))

theorem list_mem_le_sum (l : List K) (h : ∀ v ∈ l, 0 ≤ v) (x : K) (hx : x ∈ l) : x ≤ l.sum := by
  induction l with
  | nil => simp at hx
  | cons a l ih =>
    rw [List.sum_cons]
    rcases List.mem_cons.mp hx with rfl | hx'
    · have := list_sum_nonneg' l (fun v hv => h v (by simp [hv]))
      linarith
    · have := ih (fun v hv => h v (by simp [hv])) hx'
      have := h a (by simp)
      linarith

theorem rowOf_terms_nonneg (per : Bool) (nb deg span : ℕ) (basis : List K) (h : ∀ v ∈ basis, 0 ≤ v) (j : ℕ) :
    ∀ v ∈ basis.zipIdx.map (fun bs : K × ℕ => if colIdx per nb deg span bs.2 = j then bs.1 else 0), 0 ≤ v := by
  intro v hv
  obtain ⟨bs, hbs, rfl⟩ := List.mem_map.mp hv
  split_ifs
  · exact h _ (List.fst_mem_of_mem_zipIdx hbs)
  · exact le_refl _

theorem rowOf_nonneg (per : Bool) (nb deg span : ℕ) (basis : List K) (h : ∀ v ∈ basis, 0 ≤ v) (j : ℕ) :
    0 ≤ rowOf per nb deg span basis j :=
  list_sum_nonneg' _ (rowOf_terms_nonneg per nb deg span basis h j)

theorem rowOf_ge (per : Bool) (nb deg span : ℕ) (basis : List K) (h : ∀ v ∈ basis, 0 ≤ v) (s0 : ℕ) (hs0 : s0 < basis.length) :
    basis.getD s0 0 ≤ rowOf per nb deg span basis (colIdx per nb deg span s0) := by
  unfold rowOf
  apply list_mem_le_sum _ (rowOf_terms_nonneg per nb deg span basis h _)
  apply List.mem_map.mpr
  refine ⟨(basis.getD s0 0, s0), ?_, by simp⟩
  rw [List.mk_mem_zipIdx_iff_getElem?, List.getD_eq_getElem?_getD, List.getElem?_eq_getElem hs0]
  simp

theorem add_mod_injective (n s0 i i' : ℕ) (hi : i < n) (hi' : i' < n) (h : (i + s0) % n = (i' + s0) % n) : i = i' := by
  have h1 : i ≡ i' [MOD n] := Nat.ModEq.add_right_cancel' s0 h
  unfold Nat.ModEq at h1
  rwa [Nat.mod_eq_of_lt hi, Nat.mod_eq_of_lt hi'] at h1

/-- unisolvence of the model's collocation matrix on a uniform periodic space from one basis value `> 1/2` at the first point -/
theorem uniform_periodic_unisolvent_of_dominant (S : Space K) (hadm : S.Admissible) (hper : S.periodic = true) (a h : K)
    (hh : 0 < h) (ht : ∀ i, S.t i = a + (i : K) * h) (x0 : K)
    (hspan : ∀ i, i < S.nbasis → findSpan S.t S.nk S.degree (x0 + (i : K) * h) = some (S.degree + i))
    (hx0 : S.t S.degree ≤ x0 ∧ x0 ≤ S.t (S.degree + 1))
    (s0 : ℕ) (hs0 : s0 ≤ S.degree) (hdomv : 1 / 2 < (basisFuns S.t S.degree x0 S.degree).getD s0 0)
    (M : ℕ → ℕ → K) (hM : ∀ i, i < S.nbasis → collocationMatrix S (fun i => x0 + (i : K) * h) i = some (M i))
    (v : ℕ → K) (hv : ∀ j, j < S.nbasis → matTVec M S.nbasis v j = 0) : ∀ i, i < S.nbasis → v i = 0 := by
  obtain ⟨_, _, hn0, _⟩ := periodic_counts S hadm hper
  have hsm := uniform_strictMono a h hh S.t ht
  set V := basisFuns S.t S.degree x0 S.degree with hV
  have hVnn : ∀ v ∈ V, 0 ≤ v := C07.basis_nonneg S.t hsm.monotone S.degree S.degree x0 hx0.1 hx0.2
  have hMrow : ∀ i, i < S.nbasis → M i = rowOf true S.nbasis S.degree (S.degree + i) V := by
    intro i hi
    have := hM i hi
    unfold collocationMatrix collocRow at this
    rw [hspan i hi, hper] at this
    simp only [Option.map_some, Option.some.injEq] at this
    rw [← this, basisFuns_uniform_shift a h S.t ht S.degree S.degree i x0 (by omega)]
  have hcol : ∀ i, colIdx true S.nbasis S.degree (S.degree + i) s0 = (i + s0) % S.nbasis := by
    intro i
    unfold colIdx
    simp only [if_true]
    congr 1
    omega
  apply dominant_transpose_injective S.nbasis M (fun i => (i + s0) % S.nbasis)
  · intro i _; exact Nat.mod_lt _ hn0
  · intro i i' hi hi' h; exact add_mod_injective S.nbasis s0 i i' hi hi' h
  · intro i j hi _
    rw [hMrow i hi]
    exact rowOf_nonneg _ _ _ _ _ hVnn j
  · exact C09.collocation_rows_sum_one S hadm hsm.monotone (fun s _ _ => hsm (by omega)) _ M hM
  · intro i hi
    rw [hMrow i hi]
    show 1 / 2 < rowOf true S.nbasis S.degree (S.degree + i) V ((i + s0) % S.nbasis)
    rw [← hcol i]
    exact lt_of_lt_of_le hdomv (rowOf_ge _ _ _ _ V hVnn s0 (by rw [hV, BSpline.basisFuns_length]; omega))
  · exact hv

/-! ### the basis values at the first interpolation point, degrees 1 … 6 -/

/-- Algorithm A2.2 is homogeneous of degree zero in `(left, right)` -/
theorem innerLoop_scale (h : K) (hh : h ≠ 0) (l r : ℕ → K) (j : ℕ) : ∀ (vs : List K) (r0 : ℕ) (s : K),
    innerLoop (fun k => h * l k) (fun k => h * r k) j r0 vs s = innerLoop l r j r0 vs s
  | [], _, _ => rfl
  | v :: vs, r0, s => by
    simp only [innerLoop]
    have e : v / (h * r r0 + h * l (j - r0)) = v / (r r0 + l (j - r0)) / h := by
      rw [← mul_add, div_mul_eq_div_div_swap]
    rw [e, innerLoop_scale h hh l r j vs (r0 + 1)]
    congr 1
    · field_simp
    · congr 1
      field_simp

theorem levels_scale (h : K) (hh : h ≠ 0) (l r : ℕ → K) (p : ℕ) :
    levels (fun k => h * l k) (fun k => h * r k) p = levels l r p := by
  induction p with
  | zero => rfl
  | succ p ih => simp only [levels]; rw [ih, innerLoop_scale h hh]

/-- on uniform knots the values in the first cell of the domain at `xmin + o·h` are those of the unit-spaced triangle at offset `o` -/
theorem basisFuns_uniform_unit (a h : K) (hh : h ≠ 0) (t : ℕ → K) (ht : ∀ i, t i = a + (i : K) * h) (d : ℕ) (o : K) :
    basisFuns t d (t d + o * h) d = levels (fun k : ℕ => o + (k : K)) (fun k : ℕ => (k : K) + 1 - o) d := by
  unfold basisFuns
  rw [← levels_scale h hh (fun k : ℕ => o + (k : K)) (fun k : ℕ => (k : K) + 1 - o) d]
  apply BSpline.levels_congr
  · intro k hk
    simp only [leftOf]
    rw [ht, ht, Nat.cast_sub (by omega)]
    ring
  · intro k _
    simp only [rightOf]
    rw [ht, ht]
    push_cast
    ring

theorem grevOffset_eq (d : ℕ) (h : K) : grevOffset d h = (if d % 2 = 0 then (1 / 2 : K) else 0) * h := by
  unfold grevOffset
  split_ifs <;> ring

/-- degrees 1 … 6: the basis function centred at the first interpolation point has value
    `1, 3/4, 2/3, 115/192, 11/20, 5887/11520 > 1/2` there (degree 7: `151/315 < 1/2`) -/
theorem dominant_value_low_degree (a h : K) (hh : 0 < h) (t : ℕ → K) (ht : ∀ i, t i = a + (i : K) * h) (d : ℕ) (hd1 : 1 ≤ d)
    (hd6 : d ≤ 6) : ∃ s0, s0 ≤ d ∧ 1 / 2 < (basisFuns t d (t d + grevOffset d h) d).getD s0 0 := by
  have hne : h ≠ 0 := ne_of_gt hh
  rw [grevOffset_eq, basisFuns_uniform_unit a h hne t ht]
  interval_cases d
  · exact ⟨0, by omega, by simp only [levels, innerLoop]; norm_num⟩
  · exact ⟨1, by omega, by simp only [levels, innerLoop]; norm_num⟩
  · exact ⟨1, by omega, by simp only [levels, innerLoop]; norm_num⟩
  · exact ⟨2, by omega, by simp only [levels, innerLoop]; norm_num⟩
  · exact ⟨2, by omega, by simp only [levels, innerLoop]; norm_num⟩
  · exact ⟨3, by omega, by simp only [levels, innerLoop]; norm_num⟩

end PygyroVerif.SplineUniform
