/-
Helper lemmas for C13 (extra): Taylor's theorem (Mathlib, Lagrange remainder) turned into the hypotheses of
`C13.fd_truncation_bound`.

  * `taylorPoly f n x`        the Taylor polynomial of `f` at `x` as a `Polynomial ℝ` (degree ≤ n, value `f x` and derivative
                              `deriv f x` at `x`)
  * `taylor_remainder`        `|f y - (taylorPoly f n x)(y)| ≤ B/(n+1)! · |y - x|^(n+1)` when `|f^(n+1)| ≤ B` between `x` and `y`
  * `fdShift_abs_le`          the stencil offsets satisfy `|s_j| ≤ order + 1`
  * `fd_error_explicit`       explicit-constant error bound of the finite-difference derivative estimate
-/
import PygyroVerif.Lemmas.FieldLine
import Mathlib.Analysis.Calculus.Taylor
import Mathlib.Analysis.Calculus.IteratedDeriv.Defs
import Mathlib.Analysis.Calculus.TangentCone.Real
import Mathlib.Algebra.Polynomial.Derivative
import Mathlib.Algebra.Polynomial.BigOperators
import Mathlib.Algebra.Polynomial.Degree.Lemmas
import Mathlib.Algebra.Order.BigOperators.Ring.Finset
import Mathlib.Algebra.Order.BigOperators.Group.Finset
import Mathlib.Order.Interval.Set.UnorderedInterval
import Mathlib.Tactic.Positivity
import Mathlib.Tactic.Linarith
import Mathlib.Tactic.Ring

namespace PygyroVerif.FDTaylor
open PygyroVerif.FieldLine PygyroVerif.ParGrad

/-- the Taylor polynomial of degree `n` of `f` at `x`, `Σ_{k ≤ n} f^(k)(x)/k! · (X - x)^k` -/
noncomputable def taylorPoly (f : ℝ → ℝ) (n : ℕ) (x : ℝ) : Polynomial ℝ :=
  ∑ k ∈ Finset.range (n + 1),
    Polynomial.C (iteratedDeriv k f x / (k.factorial : ℝ)) * (Polynomial.X - Polynomial.C x) ^ k

theorem taylorPoly_eval (f : ℝ → ℝ) (n : ℕ) (x y : ℝ) :
    (taylorPoly f n x).eval y =
      ∑ k ∈ Finset.range (n + 1), iteratedDeriv k f x / (k.factorial : ℝ) * (y - x) ^ k := by
  simp [taylorPoly, Polynomial.eval_finsetSum]

theorem taylorPoly_natDegree_le (f : ℝ → ℝ) (n : ℕ) (x : ℝ) : (taylorPoly f n x).natDegree ≤ n := by
  unfold taylorPoly
  apply Polynomial.natDegree_sum_le_of_forall_le
  intro k hk
  have hk' : k ≤ n := by have := Finset.mem_range.mp hk; omega
  calc (Polynomial.C (iteratedDeriv k f x / (k.factorial : ℝ)) * (Polynomial.X - Polynomial.C x) ^ k).natDegree
      ≤ ((Polynomial.X - Polynomial.C x) ^ k).natDegree := Polynomial.natDegree_C_mul_le _ _
    _ ≤ k * (Polynomial.X - Polynomial.C x).natDegree := Polynomial.natDegree_pow_le
    _ = k := by rw [Polynomial.natDegree_X_sub_C, mul_one]
    _ ≤ n := hk'

theorem taylorPoly_eval_self (f : ℝ → ℝ) (n : ℕ) (x : ℝ) : (taylorPoly f n x).eval x = f x := by
  rw [taylorPoly_eval, Finset.sum_eq_single 0]
  · simp
  · intro k _ hk
    rw [sub_self, zero_pow hk, mul_zero]
  · intro h
    exact absurd (Finset.mem_range.mpr (Nat.succ_pos n)) h

theorem taylorPoly_derivative_eval_self (f : ℝ → ℝ) {n : ℕ} (hn : 1 ≤ n) (x : ℝ) :
    (Polynomial.derivative (taylorPoly f n x)).eval x = deriv f x := by
  unfold taylorPoly
  rw [Polynomial.derivative_sum, Polynomial.eval_finsetSum, Finset.sum_eq_single 1]
  · rw [Polynomial.derivative_C_mul, Polynomial.derivative_X_sub_C_pow]
    simp [iteratedDeriv_one]
  · intro k _ hk
    rw [Polynomial.derivative_C_mul, Polynomial.derivative_X_sub_C_pow]
    rcases Nat.eq_zero_or_pos k with h0 | h0
    · subst h0; simp
    · have : k - 1 ≠ 0 := by omega
      simp [zero_pow this]
  · intro h
    exact absurd (Finset.mem_range.mpr (by omega)) h

/-- Mathlib's `taylorWithinEval` on the interval between `x` and `y`, for a globally smooth function, is the
    evaluation of `taylorPoly` -/
theorem taylorWithinEval_eq_taylorPoly {f : ℝ → ℝ} {n : ℕ} (hf : ContDiff ℝ (n + 1) f) {x y : ℝ} (hxy : x ≠ y) :
    taylorWithinEval f n (Set.uIcc x y) x y = (taylorPoly f n x).eval y := by
  rw [taylor_within_apply, taylorPoly_eval]
  refine Finset.sum_congr rfl (fun k hk => ?_)
  have hk' : k ≤ n + 1 := by have := Finset.mem_range.mp hk; omega
  have hc : ContDiffAt ℝ k f x := hf.contDiffAt.of_le (by exact_mod_cast hk')
  rw [iteratedDerivWithin_eq_iteratedDeriv (uniqueDiffOn_uIcc hxy) hc Set.left_mem_uIcc, smul_eq_mul]
  ring

/-- Taylor's theorem with Lagrange remainder, as a bound against `taylorPoly` -/
theorem taylor_remainder {f : ℝ → ℝ} {n : ℕ} (hf : ContDiff ℝ (n + 1) f) (x y B : ℝ)
    (hB : ∀ t ∈ Set.uIcc x y, |iteratedDeriv (n + 1) f t| ≤ B) :
    |f y - (taylorPoly f n x).eval y| ≤ B / ((n + 1).factorial : ℝ) * |y - x| ^ (n + 1) := by
  by_cases hxy : x = y
  · subst hxy
    rw [taylorPoly_eval_self, sub_self, sub_self, abs_zero, zero_pow (Nat.succ_ne_zero n), mul_zero]
  · obtain ⟨t, ht, he⟩ := taylor_mean_remainder_lagrange_iteratedDeriv hxy hf.contDiffOn
    rw [taylorWithinEval_eq_taylorPoly hf hxy] at he
    rw [he, abs_div, abs_mul, abs_pow, Nat.abs_cast, div_mul_eq_mul_div]
    have hfac : (0 : ℝ) < ((n + 1).factorial : ℝ) := by exact_mod_cast Nat.factorial_pos _
    exact div_le_div_of_nonneg_right
      (mul_le_mul_of_nonneg_right (hB t (Set.uIoo_subset_uIcc_self ht)) (pow_nonneg (abs_nonneg _) _)) hfac.le

/-- the stencil offsets `j + start`, `j ≤ order`, are at most `order + 1` in absolute value -/
theorem fdShift_abs_le {order j : ℕ} (hj : j ≤ order) : |((fdShift order j : ℤ) : ℝ)| ≤ (order : ℝ) + 1 := by
  have h1 : -((order : ℤ) + 1) ≤ fdShift order j ∧ fdShift order j ≤ (order : ℤ) + 1 := by
    unfold fdShift fdStart; omega
  rw [abs_le]
  constructor
  · have : ((-((order : ℤ) + 1) : ℤ) : ℝ) ≤ ((fdShift order j : ℤ) : ℝ) := Int.cast_le.mpr h1.1
    push_cast at this; linarith
  · have : ((fdShift order j : ℤ) : ℝ) ≤ (((order : ℤ) + 1 : ℤ) : ℝ) := Int.cast_le.mpr h1.2
    push_cast at this; linarith

/-- the truncation bound of `C13.fd_truncation_bound` (restated here, over `ℝ`, to keep this file independent of `Props`) -/
theorem fd_truncation_bound_real {order : ℕ} (ho : 1 ≤ order) (c : ℕ → ℝ)
    (hm : MomentSystem order c) (p : Polynomial ℝ) (hp : p.natDegree ≤ order) (f : ℝ → ℝ) (x h M : ℝ)
    (hf : ∀ j, j < order + 1 → |f (x + ((fdShift order j : ℤ) : ℝ) * h) - p.eval (x + ((fdShift order j : ℤ) : ℝ) * h)| ≤
      M * |(x + ((fdShift order j : ℤ) : ℝ) * h) - x| ^ (order + 1)) :
    |sumRange (order + 1) (fun j => c j * f (x + ((fdShift order j : ℤ) : ℝ) * h)) -
        h * (Polynomial.derivative p).eval x| ≤
      M * sumRange (order + 1) (fun j => |c j| * |((fdShift order j : ℤ) : ℝ)| ^ (order + 1)) * |h| ^ (order + 1) := by
  rw [← fd_exact_polynomial ho c hm p hp x h]
  simp only [sumRange_eq_finset]
  rw [← Finset.sum_sub_distrib, Finset.mul_sum, Finset.sum_mul]
  refine (Finset.abs_sum_le_sum_abs _ _).trans (Finset.sum_le_sum (fun j hj => ?_))
  rw [← mul_sub, abs_mul]
  have h1 := hf j (Finset.mem_range.mp hj)
  rw [add_sub_cancel_left, abs_mul, mul_pow] at h1
  calc |c j| * |f (x + ((fdShift order j : ℤ) : ℝ) * h) - p.eval (x + ((fdShift order j : ℤ) : ℝ) * h)|
      ≤ |c j| * (M * (|((fdShift order j : ℤ) : ℝ)| ^ (order + 1) * |h| ^ (order + 1))) :=
        mul_le_mul_of_nonneg_left h1 (abs_nonneg _)
    _ = M * (|c j| * |((fdShift order j : ℤ) : ℝ)| ^ (order + 1)) * |h| ^ (order + 1) := by ring

/-- Explicit error bound of the finite-difference derivative estimate: if `|f^(order+1)| ≤ B` on `[x - R, x + R]` and
    the whole stencil lies in that interval (`|h|·(order+1) ≤ R`), then
    `|Σ_j c_j f(x + s_j h) / h − f'(x)| ≤ B/(order+1)! · (Σ_j |c_j|·|s_j|^(order+1)) · |h|^order`. -/
theorem fd_error_explicit {order : ℕ} (ho : 1 ≤ order) (c : ℕ → ℝ) (hm : MomentSystem order c)
    (f : ℝ → ℝ) (hf : ContDiff ℝ (order + 1) f) (x R B : ℝ)
    (hB : ∀ t ∈ Set.Icc (x - R) (x + R), |iteratedDeriv (order + 1) f t| ≤ B)
    (h : ℝ) (h0 : h ≠ 0) (hR : |h| * ((order : ℝ) + 1) ≤ R) :
    |sumRange (order + 1) (fun j => c j * f (x + ((fdShift order j : ℤ) : ℝ) * h)) / h - deriv f x| ≤
      B / ((order + 1).factorial : ℝ) *
        sumRange (order + 1) (fun j => |c j| * |((fdShift order j : ℤ) : ℝ)| ^ (order + 1)) * |h| ^ order := by
  have habs : 0 < |h| := abs_pos.mpr h0
  have key := fd_truncation_bound_real ho c hm (taylorPoly f order x) (taylorPoly_natDegree_le f order x) f x h
    (B / ((order + 1).factorial : ℝ)) (fun j hj => by
      refine taylor_remainder hf x _ B (fun t ht => hB t ?_)
      have hs := fdShift_abs_le (order := order) (j := j) (by omega)
      have hd : |((fdShift order j : ℤ) : ℝ) * h| ≤ R := by
        rw [abs_mul]
        calc |((fdShift order j : ℤ) : ℝ)| * |h| ≤ ((order : ℝ) + 1) * |h| :=
              mul_le_mul_of_nonneg_right hs (abs_nonneg _)
          _ = |h| * ((order : ℝ) + 1) := mul_comm _ _
          _ ≤ R := hR
      rw [abs_le] at hd
      rw [Set.mem_uIcc] at ht
      rw [Set.mem_Icc]
      rcases ht with ht | ht <;> constructor <;> linarith [ht.1, ht.2, hd.1, hd.2])
  rw [taylorPoly_derivative_eval_self f ho x] at key
  have hdiv : sumRange (order + 1) (fun j => c j * f (x + ((fdShift order j : ℤ) : ℝ) * h)) / h - deriv f x =
      (sumRange (order + 1) (fun j => c j * f (x + ((fdShift order j : ℤ) : ℝ) * h)) - h * deriv f x) / h := by
    rw [sub_div, mul_div_cancel_left₀ _ h0]
  rw [hdiv, abs_div, div_le_iff₀ habs]
  calc _ ≤ _ := key
    _ = _ := by rw [pow_succ]; ring

end PygyroVerif.FDTaylor
