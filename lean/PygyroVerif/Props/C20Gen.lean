/-
C20, tie by translation: `Generated/ProcGridGen.lean` is REGENERATED on every run of `./check C20` from
pygyro/model/process_grid.py (harness/translate_pure.py: every `while` becomes a fuel-recursive function over the record of all
locals; `/` is exact division in ℚ).  This file proves that the generated functions compute what the hand-written model
`ProcGrid.runWith / procGridFromMax / procGrid` computes, for every input with `max_proc1 ≥ 1`, `mpi_size ≥ 1` and every fuel, so that
the theorems of Props/C20.lean (termination, validity of the returned grid, RuntimeError iff no factorisation) hold of what the
source says *now*.  If the source changes, either the translator refuses or these proofs stop checking; `./check C20` then reports
a broken proof obligation and searches for a failing input on the real code.

The ratios: the source computes `max(d1,d2)/min(d1,d2)` in binary64; the generated code computes it in ℚ; `ratio_eq` /
`ratio_lt_iff` show that the comparison `new_ratio < ratio` in ℚ is the cross-multiplied comparison of naturals of the model.
-/
import PygyroVerif.Generated.ProcGridGen
import PygyroVerif.Props.C20
import Mathlib.Tactic.FieldSimp
import Mathlib.Tactic.Ring
import Mathlib.Tactic.Positivity
import Mathlib.Tactic.Linarith
import Mathlib.Tactic.Push
import Mathlib.Algebra.Order.Field.Basic
import Mathlib.Data.Rat.Defs
import Mathlib.Algebra.Order.Field.Rat
import Mathlib.Data.Nat.Cast.Order.Basic
import Mathlib.Data.Nat.Cast.Order.Ring

namespace PygyroVerif.C20Gen
open PygyroVerif PygyroVerif.ProcGrid
open PygyroVerif.Gen.ProcGrid
open PygyroVerif.Gen.ProcGrid.compute_2d_process_grid_from_max_

abbrev loop1 := compute_2d_process_grid_from_max_loop1
abbrev loop2 := compute_2d_process_grid_from_max_loop2
abbrev loop3 := compute_2d_process_grid_from_max_loop3
abbrev loop4 := compute_2d_process_grid_from_max_loop4

theorem loop2_eq (F : Nat) : ∀ (f : Nat) (σ : St),
    loop2 F f σ = match inner1 σ.mpi_size σ.max_proc1 f σ.nprocs1 with
      | none => .done .outOfFuel
      | some k => .ok { σ with nprocs1 := k } := by
  intro f
  induction f with
  | zero => intro σ; rfl
  | succ f ih =>
    intro σ
    unfold loop2 compute_2d_process_grid_from_max_loop2 inner1
    by_cases h : σ.nprocs1 ≤ min σ.mpi_size σ.max_proc1 ∧ σ.mpi_size % σ.nprocs1 ≠ 0
    · rw [if_pos h, if_pos h]
      exact ih _
    · rw [if_neg h, if_neg h]

theorem loop4_eq (F : Nat) : ∀ (f : Nat) (σ : St),
    loop4 F f σ = match inner2 σ.mpi_size σ.max_proc1 f σ.new_n1 with
      | none => .done .outOfFuel
      | some k => .ok { σ with new_n1 := k } := by
  intro f
  induction f with
  | zero => intro σ; rfl
  | succ f ih =>
    intro σ
    unfold loop4 compute_2d_process_grid_from_max_loop4 inner2
    by_cases h : σ.new_n1 < σ.max_proc1 ∧ σ.mpi_size % σ.new_n1 ≠ 0
    · rw [if_pos h, if_pos h]
      exact ih _
    · rw [if_neg h, if_neg h]

/-- outcome of the generated first loop, read through the model's `search1` -/
theorem loop1_eq (F : Nat) : ∀ (f : Nat) (σ : St),
    loop1 F f σ = match search1 σ.mpi_size σ.max_proc1 σ.max_proc2 F f σ.nprocs1 σ.nprocs2 with
      | .grid n1 n2 => .ok { σ with nprocs1 := n1, nprocs2 := n2 }
      | .noGrid => .done (.raised "RuntimeError")
      | .outOfFuel => .done .outOfFuel := by
  intro f
  induction f with
  | zero => intro σ; rfl
  | succ f ih =>
    intro σ
    unfold loop1 compute_2d_process_grid_from_max_loop1 search1
    by_cases h : σ.nprocs2 > σ.max_proc2
    · rw [if_pos h, if_pos h]
      have h2 := loop2_eq F F { σ with nprocs1 := σ.nprocs1 + 1 }
      simp only [loop2] at h2
      simp only [h2]
      cases hi : inner1 σ.mpi_size σ.max_proc1 F (σ.nprocs1 + 1) with
      | none => simp
      | some k =>
        simp only
        by_cases hk : k > min σ.mpi_size σ.max_proc1
        · simp [hk]
        · simp only [hk, if_false]
          have := ih { σ with nprocs1 := k, nprocs2 := σ.mpi_size / k }
          simpa [loop1] using this
    · rw [if_neg h, if_neg h]


/-- the exact ratio of the source, `max(d1,d2)/min(d1,d2)` with `d1 = m1/k`, `d2 = m2/k2` in ℚ, is the fraction of naturals
    the hand-written model carries -/
theorem ratio_eq (m1 m2 k k2 : Nat) (hk : 0 < k) (hk2 : 0 < k2) :
    max ((m1 : ℚ) / k) ((m2 : ℚ) / k2) / min ((m1 : ℚ) / k) ((m2 : ℚ) / k2) =
      (ratioNum m1 m2 k k2 : ℚ) / (ratioDen m1 m2 k k2 : ℚ) := by
  have hkq : (0 : ℚ) < k := by exact_mod_cast hk
  have hk2q : (0 : ℚ) < k2 := by exact_mod_cast hk2
  have e1 : (m1 : ℚ) / k = ((m1 * k2 : ℕ) : ℚ) / (k * k2) := by
    push_cast; field_simp
  have e2 : (m2 : ℚ) / k2 = ((m2 * k : ℕ) : ℚ) / (k * k2) := by
    push_cast; field_simp
  have hc : (0 : ℚ) < k * k2 := by positivity
  rw [e1, e2, max_div_div_right hc.le, min_div_div_right hc.le]
  unfold ratioNum ratioDen
  rw [Nat.cast_max, Nat.cast_min]
  rcases eq_or_lt_of_le (le_min (Nat.cast_nonneg (α := ℚ) (m1 * k2)) (Nat.cast_nonneg (α := ℚ) (m2 * k))) with h0 | hpos
  · rw [← h0]; simp
  · field_simp

theorem ratio_lt_iff (a b c d : Nat) (hb : 0 < b) (hd : 0 < d) :
    ((a : ℚ) / b < (c : ℚ) / d) ↔ a * d < c * b := by
  have hbq : (0 : ℚ) < b := by exact_mod_cast hb
  have hdq : (0 : ℚ) < d := by exact_mod_cast hd
  rw [div_lt_div_iff₀ hbq hdq]
  exact_mod_cast Iff.rfl


/-- how an outcome of the generated second loop corresponds to an outcome of the model's `search2` -/
def Rel3 : Res St → Outcome → Prop
  | .ok σ', .grid a b => σ'.nprocs1 = a ∧ σ'.nprocs2 = b
  | .done .outOfFuel, .outOfFuel => True
  | _, _ => False

theorem ratioDen_pos {m1 m2 k k2 : Nat} (h1 : 0 < m1) (h2 : 0 < m2) (hk : 0 < k) (hk2 : 0 < k2) :
    0 < ratioDen m1 m2 k k2 := by
  unfold ratioDen
  exact Nat.lt_min.2 ⟨Nat.mul_pos h1 hk2, Nat.mul_pos h2 hk⟩

theorem loop3_rel (F : Nat) : ∀ (f : Nat) (σ : St) (rn rd : Nat), 0 < rd → σ.ratio = (rn : ℚ) / (rd : ℚ) →
    0 < σ.max_proc1 → 0 < σ.max_proc2 → 0 < σ.nprocs1 →
    Rel3 (loop3 F f σ) (search2 σ.mpi_size σ.max_proc1 σ.max_proc2 F f σ.nprocs1 σ.nprocs2 rn rd) := by
  intro f
  induction f with
  | zero => intro σ rn rd _ _ _ _ _; simp [loop3, compute_2d_process_grid_from_max_loop3, search2, Rel3]
  | succ f ih =>
    intro σ rn rd hrd hr hm1 hm2 hn1
    unfold loop3 compute_2d_process_grid_from_max_loop3 search2
    rw [if_pos trivial]
    have h4 := loop4_eq F F { σ with new_n1 := σ.nprocs1 + 1 }
    simp only [loop4] at h4
    simp only [h4]
    cases hi : inner2 σ.mpi_size σ.max_proc1 F (σ.nprocs1 + 1) with
    | none => simp [Rel3]
    | some k =>
      have hk1 : σ.nprocs1 + 1 ≤ k := (inner2_some _ _ _ _ _ hi).1
      have hkpos : 0 < k := by omega
      simp only
      by_cases hk : k > min σ.mpi_size σ.max_proc1
      · simp [hk, Rel3]
      · simp only [hk, if_false]
        have hks : k ≤ σ.mpi_size := by
          have := Nat.le_of_not_gt hk
          exact Nat.le_trans this (Nat.min_le_left _ _)
        have hk2pos : 0 < σ.mpi_size / k := Nat.div_pos hks hkpos
        by_cases h2 : σ.mpi_size / k ≤ σ.max_proc2
        · simp only [h2, if_true]
          have hden := ratioDen_pos hm1 hm2 hkpos hk2pos
          have hreq := ratio_eq σ.max_proc1 σ.max_proc2 k (σ.mpi_size / k) hkpos hk2pos
          have hiff : (max ((σ.max_proc1 : ℚ) / k) ((σ.max_proc2 : ℚ) / ((σ.mpi_size / k : ℕ) : ℚ)) /
                min ((σ.max_proc1 : ℚ) / k) ((σ.max_proc2 : ℚ) / ((σ.mpi_size / k : ℕ) : ℚ)) < σ.ratio) ↔
              ratioNum σ.max_proc1 σ.max_proc2 k (σ.mpi_size / k) * rd <
                rn * ratioDen σ.max_proc1 σ.max_proc2 k (σ.mpi_size / k) := by
            rw [hreq, hr]
            exact ratio_lt_iff _ _ _ _ hden hrd
          by_cases hlt : ratioNum σ.max_proc1 σ.max_proc2 k (σ.mpi_size / k) * rd <
                rn * ratioDen σ.max_proc1 σ.max_proc2 k (σ.mpi_size / k)
          · have hq := hiff.2 hlt
            simp only [hlt, if_true]
            rw [if_pos hq]
            have := ih { σ with new_n1 := k, new_n2 := σ.mpi_size / k,
                                divisions1 := (σ.max_proc1 : ℚ) / k,
                                divisions2 := (σ.max_proc2 : ℚ) / ((σ.mpi_size / k : ℕ) : ℚ),
                                new_ratio := max ((σ.max_proc1 : ℚ) / k) ((σ.max_proc2 : ℚ) / ((σ.mpi_size / k : ℕ) : ℚ)) /
                                  min ((σ.max_proc1 : ℚ) / k) ((σ.max_proc2 : ℚ) / ((σ.mpi_size / k : ℕ) : ℚ)),
                                nprocs1 := k, nprocs2 := σ.mpi_size / k,
                                ratio := max ((σ.max_proc1 : ℚ) / k) ((σ.max_proc2 : ℚ) / ((σ.mpi_size / k : ℕ) : ℚ)) /
                                  min ((σ.max_proc1 : ℚ) / k) ((σ.max_proc2 : ℚ) / ((σ.mpi_size / k : ℕ) : ℚ)) }
              _ _ hden hreq hm1 hm2 hkpos
            simpa [loop3] using this
          · have hq : ¬ _ := fun h => hlt (hiff.1 h)
            simp only [hlt, if_false]
            rw [if_neg hq]
            simp [Rel3]
        · simp only [h2, if_false]
          have := ih { σ with new_n1 := k, new_n2 := σ.mpi_size / k } rn rd hrd hr hm1 hm2 hn1
          simpa [loop3] using this


/-- reading a result of the generated function as an outcome of the model -/
def toOutcome : Out → Outcome
  | .ret [a, b] => .grid a b
  | .ret _ => .outOfFuel
  | .raised _ => .noGrid
  | .outOfFuel => .outOfFuel

/-- **the generated `compute_2d_process_grid_from_max` is the model's `runWith`**, for every fuel that the model's
    termination theorem covers -/
theorem gen_from_max_eq (F m1 m2 s : Nat) (hm1 : 1 ≤ m1) (hs : 1 ≤ s) (hF : m1 + 2 ≤ F) :
    toOutcome (run F m1 m2 s) = runWith F m1 m2 s := by
  have hmin : min s m1 ≤ m1 := Nat.min_le_right _ _
  obtain ⟨g1, _, _⟩ := search1_spec s m1 m2 F hs (by omega) F 1 s (Nat.le_refl _) (Nat.one_mul s) hm1
    (fun a b hv => (valid_pos hs hv).1)
  unfold run runWith
  have h1 := loop1_eq F F { max_proc1 := m1, max_proc2 := m2, mpi_size := s, nprocs1 := 1, nprocs2 := s }
  simp only [loop1] at h1
  simp only [h1]
  cases hs1 : search1 s m1 m2 F F 1 s with
  | noGrid => simp [toOutcome]
  | outOfFuel => simp [toOutcome]
  | grid a b =>
    obtain ⟨hv, ha, _⟩ := g1 a b hs1
    obtain ⟨_, hb, _, _⟩ := valid_pos hs hv
    have hm2 : 0 < m2 := Nat.lt_of_lt_of_le hb hv.2.2
    simp only
    have h3 := loop3_rel F F
      { max_proc1 := m1, max_proc2 := m2, mpi_size := s, nprocs1 := a, nprocs2 := b,
        divisions1 := (m1 : ℚ) / a, divisions2 := (m2 : ℚ) / b,
        ratio := max ((m1 : ℚ) / a) ((m2 : ℚ) / b) / min ((m1 : ℚ) / a) ((m2 : ℚ) / b) }
      (ratioNum m1 m2 a b) (ratioDen m1 m2 a b) (ratioDen_pos hm1 hm2 ha hb) (ratio_eq m1 m2 a b ha hb) hm1 hm2 ha
    simp only [loop3] at h3
    revert h3
    cases hl : compute_2d_process_grid_from_max_loop3 F F
        { max_proc1 := m1, max_proc2 := m2, mpi_size := s, nprocs1 := a, nprocs2 := b,
          divisions1 := (m1 : ℚ) / a, divisions2 := (m2 : ℚ) / b,
          ratio := max ((m1 : ℚ) / a) ((m2 : ℚ) / b) / min ((m1 : ℚ) / a) ((m2 : ℚ) / b) } with
    | ok σ' =>
      cases hs2 : search2 s m1 m2 F F a b (ratioNum m1 m2 a b) (ratioDen m1 m2 a b) with
      | grid x y => intro h; simp only [Rel3] at h; simp [toOutcome, h.1, h.2]
      | noGrid => intro h; simp [Rel3] at h
      | outOfFuel => intro h; simp [Rel3] at h
    | done o =>
      cases o with
      | outOfFuel =>
        cases hs2 : search2 s m1 m2 F F a b (ratioNum m1 m2 a b) (ratioDen m1 m2 a b) with
        | grid x y => intro h; simp [Rel3] at h
        | noGrid => intro h; simp [Rel3] at h
        | outOfFuel => intro _; simp [toOutcome]
      | ret v => intro h; simp [Rel3] at h
      | raised e => intro h; simp [Rel3] at h

/-- **the generated `compute_2d_process_grid_from_max(max_proc1, max_proc2, mpi_size)` is `procGridFromMax`** -/
theorem gen_procGridFromMax_eq (m1 m2 s : Nat) (hm1 : 1 ≤ m1) (hs : 1 ≤ s) (F : Nat) (hF : m1 + 2 ≤ F) :
    toOutcome (run F m1 m2 s) = procGridFromMax m1 m2 s := by
  rw [gen_from_max_eq F m1 m2 s hm1 hs hF]
  exact (C20.procgrid_terminates m1 m2 s hm1 hs).2 F hF

/-- **the generated `compute_2d_process_grid(npts, mpi_size)` is `procGrid`** -/
theorem gen_procGrid_eq (npts : List Nat) (s : Nat) (hm1 : 1 ≤ maxProc1 npts) (hs : 1 ≤ s) (F : Nat)
    (hF : maxProc1 npts + 2 ≤ F) :
    toOutcome (compute_2d_process_grid_.run F npts s) = procGrid npts s := by
  unfold compute_2d_process_grid_.run procGrid
  exact gen_procGridFromMax_eq (maxProc1 npts) (maxProc2 npts) s hm1 hs F hF

/-- the headline facts of C20 restated on the GENERATED function: with enough fuel it never runs out of fuel; what it
    returns is a pair `[n1, n2]` with `n1 * n2 = size`, `n1 ≤ max_proc1`, `n2 ≤ max_proc2`; it raises exactly when no such
    pair exists -/
theorem gen_procgrid_spec (m1 m2 s : Nat) (hm1 : 1 ≤ m1) (hs : 1 ≤ s) (F : Nat) (hF : m1 + 2 ≤ F) :
    run F m1 m2 s ≠ .outOfFuel ∧
    (∀ v, run F m1 m2 s = .ret v → ∃ n1 n2, v = [n1, n2] ∧ n1 * n2 = s ∧ n1 ≤ m1 ∧ n2 ≤ m2) ∧
    ((∃ e, run F m1 m2 s = .raised e) ↔ ¬ ∃ n1 n2, n1 * n2 = s ∧ n1 ≤ m1 ∧ n2 ≤ m2) := by
  have he := gen_procGridFromMax_eq m1 m2 s hm1 hs F hF
  have hterm := (C20.procgrid_terminates m1 m2 s hm1 hs).1
  refine ⟨?_, ?_, ?_⟩
  · intro h; rw [h] at he; exact hterm he.symm
  · intro v h
    rw [h] at he
    match v, he with
    | [a, b], he => exact ⟨a, b, rfl, C20.procgrid_valid m1 m2 s a b hm1 hs he.symm⟩
    | [], he => exact absurd he.symm hterm
    | [_], he => exact absurd he.symm hterm
    | _ :: _ :: _ :: _, he => exact absurd he.symm hterm
  · constructor
    · rintro ⟨e, h⟩
      rw [h] at he
      exact (C20.procgrid_error_iff m1 m2 s hm1 hs).1 he.symm
    · intro hno
      have hng := (C20.procgrid_error_iff m1 m2 s hm1 hs).2 hno
      rw [hng] at he
      cases hr : run F m1 m2 s with
      | ret v =>
        rw [hr] at he
        match v, he with
        | [a, b], he => simp [toOutcome] at he
        | [], he => simp [toOutcome] at he
        | [_], he => simp [toOutcome] at he
        | _ :: _ :: _ :: _, he => simp [toOutcome] at he
      | raised e => exact ⟨e, rfl⟩
      | outOfFuel => rw [hr] at he; simp [toOutcome] at he

example : run 10 8 8 6 = .ret [2, 3] ∧ run 7 5 3 12 = .ret [4, 3] ∧ run 5 3 3 16 = .raised "RuntimeError" := by
  decide +kernel

end PygyroVerif.C20Gen
