/-
C02, tie by translation: the definitions REGENERATED on every run from `Layout.__init__` (harness/translate_pure.py →
Generated/BlocksGen.lean) are the hand-written model `blockStart / blockLen / maxBlock` that all C02 theorems are about,
so those theorems hold of what pygyro/model/layout.py says *now*.  If the source changes, either the translator refuses,
or these equalities stop being provable; both are reported by `./check C02` as a broken proof obligation and followed by a
search for a failing input.
-/
import PygyroVerif.Generated.BlocksGen
import PygyroVerif.Props.C02

namespace PygyroVerif.C02Gen
open PygyroVerif

/-- `self._mpi_starts[i][r]` of the source = `blockStart` of the model -/
theorem gen_mpi_starts_eq (n p r : Nat) : Gen.Blocks.mpi_starts n p r = blockStart n p r := rfl
/-- `self._starts[i]` -/
theorem gen_starts_eq (n p r : Nat) : Gen.Blocks.starts n p r = blockStart n p r := rfl
/-- `self._ends[i]` -/
theorem gen_ends_eq (n p r : Nat) : Gen.Blocks.ends n p r = blockStart n p (r + 1) := rfl
/-- `self._mpi_lengths[i][r]` -/
theorem gen_mpi_lengths_eq (n p r : Nat) : Gen.Blocks.mpi_lengths n p r = blockLen n p r := rfl
/-- `self._shape[i]` -/
theorem gen_shape_eq (n p r : Nat) : Gen.Blocks.shape n p r = blockLen n p r := rfl
/-- `self._max_shape[i]` -/
theorem gen_max_shape_eq (n p r : Nat) : Gen.Blocks.max_shape n p r = maxBlock n p := rfl

/-- the natural-number subtraction the translator used for `starts[1:] - starts[:-1]` never truncates: the generated
    `starts` is monotone (Python computes the difference in signed integers) -/
theorem gen_starts_monotone (n p r : Nat) (hp : 0 < p) : Gen.Blocks.starts n p r ≤ Gen.Blocks.ends n p r := by
  rw [gen_starts_eq, gen_ends_eq]
  exact PygyroVerif.C02.blocks_rank_order n p r (r + 1) hp (Nat.le_succ r)

/-- headline facts restated on the generated definitions: the blocks of the SOURCE tile `0..n` in rank order with lengths
    differing by at most one, and `_max_shape` is the largest of them -/
theorem gen_blocks_partition (n p : Nat) (hp : 0 < p) :
    Gen.Blocks.starts n p 0 = 0 ∧ Gen.Blocks.ends n p (p - 1) = n ∧
    (∀ r, Gen.Blocks.ends n p r = Gen.Blocks.starts n p (r + 1)) ∧
    (∀ j k, Gen.Blocks.shape n p j ≤ Gen.Blocks.shape n p k + 1) ∧
    (∀ k, k < p → Gen.Blocks.shape n p k ≤ Gen.Blocks.max_shape n p k) ∧
    Gen.Blocks.shape n p (p - 1) = Gen.Blocks.max_shape n p (p - 1) := by
  refine ⟨?_, ?_, fun r => rfl, fun j k => ?_, fun k hk => ?_, ?_⟩
  · rw [gen_starts_eq]; exact PygyroVerif.C02.blockStart_zero n p
  · rw [gen_ends_eq]
    have : p - 1 + 1 = p := by omega
    rw [this]; exact PygyroVerif.C02.blockStart_last n p hp
  · rw [gen_shape_eq, gen_shape_eq]; exact PygyroVerif.C02.blockLen_diff_le_one n p j k hp
  · rw [gen_shape_eq, gen_max_shape_eq]; exact PygyroVerif.C02.maxBlock_is_upper n p k hp hk
  · rw [gen_shape_eq, gen_max_shape_eq]; exact PygyroVerif.C02.maxBlock_attained n p hp

example : Gen.Blocks.starts 10 3 1 = 3 ∧ Gen.Blocks.ends 10 3 2 = 10 ∧ Gen.Blocks.max_shape 10 3 0 = 4 := by decide

end PygyroVerif.C02Gen
