/-
C12 (extra) — "the explicit and implicit variants agree to third order in dt, and the implicit iteration terminates".

Part 1 (abstract, any real normed space `E`, any sign of `dt`).  `a : E → E` is the velocity with which the foot moves
backwards (minus the drift); `trap a x dt` is the fixed-point map `y ↦ x − dt/2·(a x + a y)` of the implicit scheme,
`heunFoot a x dt` the foot of the explicit scheme, `iter a x dt y0 k` the `k`-th iterate.  Started at the node `x` the
iterates are: `x`, the Euler foot (the start `endPts_k1` of the code, :282-289), the Heun foot, … (`iter_one_node`,
`iter_two_node`) — sweep number `j = 0, 1, …` of the code computes `iter (j+2)` and the norm `‖iter (j+2) − iter (j+1)‖`.
Hypotheses are the predicates `LipOn a L S` (`a` is `L`-Lipschitz on `S`) and bounds `‖a ·‖ ≤ M` at the points used;
no smoothness is needed.  `q = qFac dt L = |dt|·L/2`.

Part 2 ties Part 1 to `Model/PolAdv.lean` with `E = ℝ × ℝ` (norm = `max |Δθ| |Δr|`, the norm of the code's stop rule):
`model_iteration_eq` (one node of one sweep = `trap`, angle reduced; the model's `diff`s are bounded by the abstract
step), `model_heun_eq` (`explFoot` = Heun foot, angle reduced), `pol_impl_terminates_of_contraction` (termination of
`implStep`, any Archimedean ordered field, modulo and clipping included — discharges the hypothesis of
`C12.pol_impl_terminates_partial`), `pol_expl_impl_third_order` (returned feet of `implStep` vs `explFoot`).

Constants: Heun foot vs implicit foot `L²M/4·|dt|³`; vs the stopped iterate `L²M/4·|dt|³ + q·tol/(1−q)`; vs every
iterate from the Heun foot on `L²M·|dt|³/(4(1−q))` (no `tol`); sweeps `⌈|dt|·M/(tol·(1−q))⌉`.

Not covered: third-order agreement when an iterate or the predictor leaves the radial domain (the code then clips /
sets the velocity to zero and no comparison is made — hypothesis `∀ j, iter … j ∈ strip P`);
floating-point rounding; the Lipschitz and periodicity hypotheses are on the abstract evaluators `E` (for the spline
evaluators they hold on the strip `r ≥ rMin > 0`, not proved here).  Termination needs no such domain hypothesis.
-/
import Mathlib.Topology.MetricSpace.Contracting
import PygyroVerif.Lemmas.PolOrder
import PygyroVerif.Lemmas.PolOrderModel
import PygyroVerif.Props.C12

noncomputable section

namespace PygyroVerif.C12Extra

open PygyroVerif.PolOrder

variable {E : Type*} [NormedAddCommGroup E] [NormedSpace ℝ E]

/-! ## Part 1: abstract statements -/

/-- Explicit vs implicit, third order.  If `ys` is a fixed point of the trapezoidal map for the node `x` (the exact
    implicit foot), `a` is `L`-Lipschitz on a set containing `x`, `ys` and the Euler foot, and `‖a x‖, ‖a ys‖ ≤ M`,
    then the Heun foot differs from `ys` by at most `L²·M/4·|dt|³`.  (`L` may have any sign: no hypothesis `0 ≤ L`.) -/
theorem heun_vs_trapezoid_third_order (a : E → E) (x ys : E) (dt L M : ℝ) (S : Set E)
    (hLip : LipOn a L S) (hx : x ∈ S) (hy : ys ∈ S) (he : eulerFoot a x dt ∈ S)
    (hMx : ‖a x‖ ≤ M) (hMy : ‖a ys‖ ≤ M) (hfix : trap a x dt ys = ys) :
    ‖heunFoot a x dt - ys‖ ≤ L ^ 2 * M / 4 * |dt| ^ 3 := by
  have hM : 0 ≤ M := le_trans (norm_nonneg _) hMx
  have h1 : ‖eulerFoot a x dt - ys‖ ≤ qFac dt L * ‖x - ys‖ := by
    have := trap_contract_pair a x dt L x ys (hLip x hx ys hy)
    rwa [trap_self, hfix] at this
  have h2 : ‖heunFoot a x dt - ys‖ ≤ qFac dt L * ‖eulerFoot a x dt - ys‖ := by
    have := trap_contract_pair a x dt L _ ys (hLip _ he ys hy)
    rwa [trap_euler, hfix] at this
  have h3 : ‖x - ys‖ ≤ |dt| * M := by
    rw [norm_sub_rev]
    exact norm_fixed_sub_node a x dt M ys hfix hMx hMy
  have hrhs : 0 ≤ L ^ 2 * M / 4 * |dt| ^ 3 := by positivity
  by_cases hL : 0 ≤ L
  · have hq := qFac_nonneg dt L hL
    calc ‖heunFoot a x dt - ys‖ ≤ qFac dt L * (qFac dt L * (|dt| * M)) :=
          le_trans h2 (mul_le_mul_of_nonneg_left (le_trans h1 (mul_le_mul_of_nonneg_left h3 hq)) hq)
      _ = L ^ 2 * M / 4 * |dt| ^ 3 := by unfold qFac; ring
  · have hq : qFac dt L ≤ 0 := by
      unfold qFac
      have : |dt| * L ≤ 0 := mul_nonpos_of_nonneg_of_nonpos (abs_nonneg _) (not_le.mp hL).le
      linarith
    exact le_trans h2 (le_trans (mul_nonpos_of_nonpos_of_nonneg hq (norm_nonneg _)) hrhs)

/-- non-vacuity (E = ℝ, a y = y, L = M = 1, node 1, dt = 1/2: the implicit foot is 3/5, the Heun foot 5/8) -/
example : ‖heunFoot (fun y : ℝ => y) 1 (1 / 2) - 3 / 5‖ ≤ (1 : ℝ) ^ 2 * 1 / 4 * |(1 / 2 : ℝ)| ^ 3 :=
  heun_vs_trapezoid_third_order (fun y : ℝ => y) 1 (3 / 5) (1 / 2) 1 1 Set.univ
    (fun y _ z _ => by simp) trivial trivial trivial (by norm_num) (by norm_num [abs_of_nonneg])
    (by norm_num [trap])

/-- The fixed-point map is `q`-Lipschitz (`q = |dt|·L/2`) on `S`, and the successive differences of the iteration
    decrease geometrically: `‖y_{k+1} − y_k‖ ≤ q^k·‖y_1 − y_0‖`, as long as the iterates stay in `S`.
    For `q < 1` this is a contraction; the inequalities themselves hold for every `q`. -/
theorem trapezoid_iteration_contracts (a : E → E) (x : E) (dt L : ℝ) (S : Set E) (y0 : E) (hL : 0 ≤ L)
    (hLip : LipOn a L S) (hS : ∀ k, iter a x dt y0 k ∈ S) :
    (∀ y ∈ S, ∀ z ∈ S, ‖trap a x dt y - trap a x dt z‖ ≤ qFac dt L * ‖y - z‖) ∧
    ∀ k, ‖iter a x dt y0 (k + 1) - iter a x dt y0 k‖ ≤ qFac dt L ^ k * ‖iter a x dt y0 1 - iter a x dt y0 0‖ :=
  ⟨fun y hy z hz => trap_contract_pair a x dt L y z (hLip y hy z hz),
    iter_diff_geometric a x dt L S y0 hL hLip hS⟩

/-- non-vacuity (E = ℝ, a y = y, L = 1, dt = 1/2, q = 1/4, started at the node 1): third difference ≤ q²·first -/
example : ‖iter (fun y : ℝ => y) 1 (1 / 2) 1 3 - iter (fun y : ℝ => y) 1 (1 / 2) 1 2‖ ≤
    qFac (1 / 2) 1 ^ 2 * ‖iter (fun y : ℝ => y) 1 (1 / 2) 1 1 - iter (fun y : ℝ => y) 1 (1 / 2) 1 0‖ :=
  (trapezoid_iteration_contracts (fun y : ℝ => y) 1 (1 / 2) 1 Set.univ 1 (by norm_num)
    (fun y _ z _ => by simp) (fun _ => trivial)).2 2

/-- Termination of the stop rule, explicit sweep count.  If `q = |dt|·L/2 < 1` then for every `tol > 0` all steps from
    number `N = ⌈‖y_1 − y_0‖ / (tol·(1 − q))⌉` on are smaller than `tol`: the rule `norm > tol` of the code
    (:291) fails, the loop ends.  (Uses `q^k ≤ 1/(1 + k(1 − q))`; the sharp count is logarithmic in `tol`.) -/
theorem trapezoid_iteration_terminates (a : E → E) (x : E) (dt L tol : ℝ) (S : Set E) (y0 : E) (hL : 0 ≤ L)
    (hLip : LipOn a L S) (hS : ∀ k, iter a x dt y0 k ∈ S) (hq1 : qFac dt L < 1) (htol : 0 < tol) :
    ∀ k, ⌈‖iter a x dt y0 1 - iter a x dt y0 0‖ / (tol * (1 - qFac dt L))⌉₊ ≤ k →
      ‖iter a x dt y0 (k + 1) - iter a x dt y0 k‖ < tol := by
  intro k hk
  set q := qFac dt L with hq
  set d := ‖iter a x dt y0 1 - iter a x dt y0 0‖ with hd
  have hq0 : 0 ≤ q := qFac_nonneg dt L hL
  have hd0 : 0 ≤ d := norm_nonneg _
  have h1q : 0 < 1 - q := by linarith
  have hk' : d / (tol * (1 - q)) ≤ k := le_trans (Nat.le_ceil _) (by exact_mod_cast hk)
  rw [div_le_iff₀ (mul_pos htol h1q)] at hk'
  have hgeo := iter_diff_geometric a x dt L S y0 hL hLip hS k
  have hpow := pow_le_inv_linear q hq0 hq1.le k
  have hpos : 0 < 1 + (k : ℝ) * (1 - q) := by positivity
  have hqk : 0 ≤ q ^ k := pow_nonneg hq0 k
  have h2 : q ^ k * d * (1 + k * (1 - q)) ≤ d := by
    calc q ^ k * d * (1 + k * (1 - q)) = (q ^ k * (1 + k * (1 - q))) * d := by ring
      _ ≤ 1 * d := mul_le_mul_of_nonneg_right hpow hd0
      _ = d := one_mul d
  have h3 : d < tol * (1 + k * (1 - q)) := by nlinarith
  have h4 : q ^ k * d < tol := lt_of_mul_lt_mul_right (lt_of_le_of_lt h2 h3) hpos.le
  exact lt_of_le_of_lt hgeo h4

/-- the same started at the node (as the code does, the first iterate being the Euler foot) with the bound `‖a x‖ ≤ M`:
    the count is `⌈|dt|·M / (tol·(1 − q))⌉` -/
theorem trapezoid_iteration_terminates_node (a : E → E) (x : E) (dt L M tol : ℝ) (S : Set E) (hL : 0 ≤ L)
    (hLip : LipOn a L S) (hS : ∀ k, iter a x dt x k ∈ S) (hM : ‖a x‖ ≤ M) (hq1 : qFac dt L < 1) (htol : 0 < tol) :
    ∀ k, ⌈|dt| * M / (tol * (1 - qFac dt L))⌉₊ ≤ k → ‖iter a x dt x (k + 1) - iter a x dt x k‖ < tol := by
  intro k hk
  refine trapezoid_iteration_terminates a x dt L tol S x hL hLip hS hq1 htol k (le_trans (Nat.ceil_mono ?_) hk)
  have hd : ‖iter a x dt x 1 - iter a x dt x 0‖ ≤ |dt| * M := by
    rw [iter_one_node, iter_zero]
    have e : eulerFoot a x dt - x = -(dt • a x) := by unfold eulerFoot; abel
    rw [e, norm_neg, norm_smul, Real.norm_eq_abs]
    exact mul_le_mul_of_nonneg_left hM (abs_nonneg _)
  exact div_le_div_of_nonneg_right hd (mul_pos htol (by linarith)).le

/-- non-vacuity (E = ℝ, a y = y, L = M = 1, dt = 1/2, tol = 1/100): from sweep 67 on every step is below `tol` -/
example : ‖iter (fun y : ℝ => y) 1 (1 / 2) 1 (67 + 1) - iter (fun y : ℝ => y) 1 (1 / 2) 1 67‖ < 1 / 100 :=
  trapezoid_iteration_terminates_node (fun y : ℝ => y) 1 (1 / 2) 1 1 (1 / 100) Set.univ (by norm_num)
    (fun y _ z _ => by simp) (fun _ => trivial) (by norm_num) (by norm_num [qFac, abs_of_nonneg])
    (by norm_num) 67 (by
      rw [Nat.ceil_le]
      norm_num [qFac, abs_of_nonneg])

/-- Existence and uniqueness of the implicit foot: in a complete space, for `a` globally `L`-Lipschitz and
    `|dt|·L/2 < 1`, the trapezoidal map has exactly one fixed point. -/
theorem trapezoid_fixed_point_exists [CompleteSpace E] (a : E → E) (x : E) (dt L : ℝ) (hL : 0 ≤ L)
    (hLip : LipOn a L Set.univ) (hq1 : qFac dt L < 1) :
    ∃ ys, trap a x dt ys = ys ∧ ∀ z, trap a x dt z = z → z = ys := by
  have hq := qFac_nonneg dt L hL
  have hc : ContractingWith ⟨qFac dt L, hq⟩ (trap a x dt) := by
    refine ⟨by exact_mod_cast hq1, LipschitzWith.of_dist_le_mul fun y z => ?_⟩
    rw [dist_eq_norm, dist_eq_norm]
    exact trap_contract_pair a x dt L y z (hLip y trivial z trivial)
  have : Nonempty E := ⟨x⟩
  exact ⟨ContractingWith.fixedPoint (trap a x dt) hc, hc.fixedPoint_isFixedPt,
    fun z hz => hc.fixedPoint_unique hz⟩

example : ∃ ys : ℝ, trap (fun y : ℝ => y) 1 (1 / 2) ys = ys ∧ ∀ z, trap (fun y : ℝ => y) 1 (1 / 2) z = z → z = ys :=
  trapezoid_fixed_point_exists (fun y : ℝ => y) 1 (1 / 2) 1 (by norm_num) (fun y _ z _ => by simp)
    (by norm_num [qFac, abs_of_nonneg])

/-- Explicit foot vs the foot returned by the stopped iteration.  Started at the node (first iterate = Euler foot, as
    in the code); if the step `‖y_{k+1} − y_k‖` is at most `tol` (the stop rule fired at this sweep) and `ys` is the
    implicit foot, then the returned point `y_{k+1}` differs from the Heun foot by at most
    `L²·M/4·|dt|³ + q·tol/(1 − q)`. -/
theorem heun_vs_converged_iteration (a : E → E) (x ys : E) (dt L M tol : ℝ) (S : Set E) (k : ℕ) (hL : 0 ≤ L)
    (hLip : LipOn a L S) (hx : x ∈ S) (hy : ys ∈ S) (he : eulerFoot a x dt ∈ S) (hk : iter a x dt x k ∈ S)
    (hMx : ‖a x‖ ≤ M) (hMy : ‖a ys‖ ≤ M) (hfix : trap a x dt ys = ys) (hq1 : qFac dt L < 1)
    (hstop : ‖iter a x dt x (k + 1) - iter a x dt x k‖ ≤ tol) :
    ‖iter a x dt x (k + 1) - heunFoot a x dt‖ ≤ L ^ 2 * M / 4 * |dt| ^ 3 + qFac dt L * tol / (1 - qFac dt L) := by
  have h1 := heun_vs_trapezoid_third_order a x ys dt L M S hLip hx hy he hMx hMy hfix
  rw [iter_succ] at hstop ⊢
  have h2 := near_fixed_of_small_step a x dt L tol (iter a x dt x k) ys hL hq1 hfix (hLip _ hk ys hy) hstop
  have e : trap a x dt (iter a x dt x k) - heunFoot a x dt =
      (trap a x dt (iter a x dt x k) - ys) + -(heunFoot a x dt - ys) := by abel
  rw [e]
  refine le_trans (norm_add_le _ _) ?_
  rw [norm_neg]
  linarith

/-- non-vacuity (E = ℝ, a y = y, node 1, dt = 1/2, implicit foot 3/5, sweep k = 2, tol = 1/10) -/
example : ‖iter (fun y : ℝ => y) 1 (1 / 2) 1 (2 + 1) - heunFoot (fun y : ℝ => y) 1 (1 / 2)‖ ≤
    (1 : ℝ) ^ 2 * 1 / 4 * |(1 / 2 : ℝ)| ^ 3 + qFac (1 / 2) 1 * (1 / 10) / (1 - qFac (1 / 2) 1) :=
  heun_vs_converged_iteration (fun y : ℝ => y) 1 (3 / 5) (1 / 2) 1 1 (1 / 10) Set.univ 2 (by norm_num)
    (fun y _ z _ => by simp) trivial trivial trivial trivial (by norm_num) (by norm_num [abs_of_nonneg])
    (by norm_num [trap]) (by norm_num [qFac, abs_of_nonneg])
    (by norm_num [iter, trap, abs_of_nonneg])

/-- Explicit foot vs *every* iterate, no fixed point and no tolerance needed.  The Heun foot is the second iterate
    (`iter_two_node`); every later iterate — in particular whatever the stopped iteration returns, for any `tol` —
    differs from it by at most `L²·M·|dt|³ / (4·(1 − q))`. -/
theorem heun_vs_every_iterate (a : E → E) (x : E) (dt L M : ℝ) (S : Set E) (hL : 0 ≤ L)
    (hLip : LipOn a L S) (hS : ∀ k, iter a x dt x k ∈ S) (hM : ‖a x‖ ≤ M) (hq1 : qFac dt L < 1) (k : ℕ) :
    ‖iter a x dt x (2 + k) - heunFoot a x dt‖ ≤ L ^ 2 * M * |dt| ^ 3 / (4 * (1 - qFac dt L)) := by
  have hq0 := qFac_nonneg dt L hL
  have h1q : 0 < 1 - qFac dt L := by linarith
  have h := iter_dist_le a x dt L S x hL hLip hS hq1.le 2 k
  rw [iter_two_node] at h
  have hd : ‖iter a x dt x 1 - iter a x dt x 0‖ ≤ |dt| * M := by
    rw [iter_one_node, iter_zero]
    have e : eulerFoot a x dt - x = -(dt • a x) := by unfold eulerFoot; abel
    rw [e, norm_neg, norm_smul, Real.norm_eq_abs]
    exact mul_le_mul_of_nonneg_left hM (abs_nonneg _)
  have hqk : qFac dt L ^ k ≤ 1 := pow_le_one₀ hq0 hq1.le
  have hqk0 : 0 ≤ qFac dt L ^ k := pow_nonneg hq0 k
  have hc : qFac dt L ^ 2 * (1 - qFac dt L ^ k) ≤ qFac dt L ^ 2 := by nlinarith [sq_nonneg (qFac dt L)]
  have hc0 : 0 ≤ qFac dt L ^ 2 * (1 - qFac dt L ^ k) := mul_nonneg (sq_nonneg _) (by linarith)
  rw [le_div_iff₀ (by linarith), mul_comm]
  calc 4 * (1 - qFac dt L) * ‖iter a x dt x (2 + k) - heunFoot a x dt‖
      = 4 * ((1 - qFac dt L) * ‖iter a x dt x (2 + k) - heunFoot a x dt‖) := by ring
    _ ≤ 4 * (qFac dt L ^ 2 * (1 - qFac dt L ^ k) * ‖iter a x dt x 1 - iter a x dt x 0‖) := by linarith
    _ ≤ 4 * (qFac dt L ^ 2 * (|dt| * M)) := by
        have := mul_le_mul hc hd (norm_nonneg _) (sq_nonneg _)
        linarith
    _ = L ^ 2 * M * |dt| ^ 3 := by unfold qFac; ring

example : ‖iter (fun y : ℝ => y) 1 (1 / 2) 1 (2 + 5) - heunFoot (fun y : ℝ => y) 1 (1 / 2)‖ ≤
    (1 : ℝ) ^ 2 * 1 * |(1 / 2 : ℝ)| ^ 3 / (4 * (1 - qFac (1 / 2) 1)) :=
  heun_vs_every_iterate (fun y : ℝ => y) 1 (1 / 2) 1 1 Set.univ (by norm_num) (fun y _ z _ => by simp)
    (fun _ => trivial) (by norm_num) (by norm_num [qFac, abs_of_nonneg]) 5


/-! ## Part 2: the model (`Model/PolAdv.lean`)

`polVel E P (θ, r) = (∂_rφ/r, −∂_θφ/r)/B0` is the field `a`; `trapK E P x` is `trap (polVel E P) x P.dt` in components.
Hypotheses: `WrapOK E.wrap period` (`wrap` reduces into `[0, period)` by a multiple of the period — what `% (2*pi)`
does), `PeriodicEv E period` (the spline evaluators are periodic in θ), `VelLip E P L` (`polVel` is `L`-Lipschitz on the
strip `rMin ≤ r ≤ rMax` for the distance `max |Δθ| |Δr|`), `period = 2·half` (`2*pi` and `pi`). -/

section Model

open PygyroVerif.PolAdv PygyroVerif.Advection PygyroVerif.PolOrderModel

/-- Termination of the implicit iteration of the model from a contraction hypothesis, any ordered Archimedean field
    (ℚ of the driver, ℝ), reduction modulo the period and clipping included, no assumption that the iterates stay in
    the radial domain: if `polVel` is `L`-Lipschitz on the radial strip and periodic in θ and `|dt|·L/2 < 1`, then for
    every `tol > 0` some finite number of sweeps makes `implStep` return.  Discharges the hypothesis of
    `C12.pol_impl_terminates_partial` (from the second sweep on: the Euler start may lie outside the domain). -/
theorem pol_impl_terminates_of_contraction {K : Type*} [Field K] [LinearOrder K] [IsStrictOrderedRing K]
    [Archimedean K] (E : Evals K) (P : Params K) (period half tol L : K) (qPts rPts : ℕ → K) (nq nr : ℕ)
    (hr : P.rMin ≤ P.rMax) (hp : period = 2 * half) (hw : WrapOK E.wrap period) (hper : PeriodicEv E period)
    (hLip : VelLip E P L) (hL : 0 ≤ L) (hq1 : |P.dt| * L / 2 < 1) (htol : 0 < tol) :
    ∃ fuel, (implStep E P period half tol id fuel qPts rPts nq nr).isSome := by
  set nodes := nodeList qPts rPts nq nr with hnodes
  set init := nodes.map (fun n => implInit E P n.1 n.2) with hinit
  have hρ0 : 0 ≤ |P.dt| * L / 2 := by positivity
  obtain ⟨fuel, hf⟩ := C12.pol_impl_terminates_partial E P period half tol (|P.dt| * L / 2) nodes
    (iterState E P period half nodes 1 init) htol hρ0 hq1 (fun k => by
      rw [iterState_add, iterState_add]
      exact sweep_norm_contract E P period half L nodes hr hp hw hper hLip hL k)
  refine ⟨fuel + 1, ?_⟩
  unfold implStep
  rw [Option.isSome_map]
  simp only [id, ← hnodes, ← hinit]
  unfold implLoop
  simp only [id]
  have hmap : (sweep E P period half nodes init).1.map (fun p => (p.1, p.2)) =
      iterState E P period half nodes 1 init := by simp [iterState]
  rw [hmap]
  split_ifs
  · exact hf _ _
  · rfl


/-- non-vacuity over ℚ (the field of the driver): differential rotation φ = r³/3, L = 1/2, q = 1/8, nodes θ ∈ {0,1,2},
    r ∈ {1,2,3}, reduction modulo 6 -/
example : ∃ fuel, (implStep (shearE ℚ) (shearP ℚ) 6 3 (1 / 1000) id fuel (fun i => (i : ℚ)) (fun j => (j : ℚ) + 1)
    3 3).isSome :=
  pol_impl_terminates_of_contraction (shearE ℚ) (shearP ℚ) 6 3 (1 / 1000) (1 / 2) _ _ 3 3
    (by norm_num [shearP]) (by norm_num) wrapOK_shear periodicEv_shear velLip_shear (by norm_num)
    (by norm_num [shearP, abs_of_nonneg]) (by norm_num)

/-- Tie to the model, one node `(q, r)` and one sweep (K = ℝ, E = ℝ × ℝ with the norm `max |Δθ| |Δr|`).  The start of
    the model's iteration is the Euler foot; for a current end point `s` in the radial domain whose image is not
    clipped, the new end point of the model is the abstract trapezoidal map applied to `s`, angle reduced; the two
    `diff`s of the stop rule are bounded by (the radial one: equal to) the components of the abstract step
    `trap … s − s`, so the sweep norm of the model is at most `‖trap … s − s‖`. -/
theorem model_iteration_eq (E : Evals ℝ) (P : Params ℝ) (period half q r : ℝ) (s : ℝ × ℝ)
    (hp : period = 2 * half) (hw : WrapOK E.wrap period) (hper : PeriodicEv E period) (hs : s ∈ strip P)
    (hnc : trap (polVel E P) (q, r) P.dt s ∈ strip P) :
    implInit E P q r = eulerFoot (polVel E P) (q, r) P.dt ∧
    (implNode E P period half q r s).1 = wrapPt E (trap (polVel E P) (q, r) P.dt s) ∧
    (implNode E P period half q r s).2.1 ≤ |(trap (polVel E P) (q, r) P.dt s).1 - s.1| ∧
    (implNode E P period half q r s).2.2 = |(trap (polVel E P) (q, r) P.dt s).2 - s.2| ∧
    max (implNode E P period half q r s).2.1 (implNode E P period half q r s).2.2 ≤
      ‖trap (polVel E P) (q, r) P.dt s - s‖ := by
  rw [← trapK_eq_trap] at hnc ⊢
  have h1 : (implNode E P period half q r s).1 = wrapPt E (trapK E P (q, r) s) :=
    implNode_fst_unclipped E P period half q r s hw hper hs.1 hs.2 hnc.1 hnc.2
  have e : trapK E P (q, r) (E.wrap s.1, s.2) = trapK E P (q, r) s := trapK_wrapPt E P period hw hper (q, r) s
  have h2 : (implNode E P period half q r s).2.1 ≤ |(trapK E P (q, r) s).1 - s.1| := by
    rw [implNode_in E P period half q r s hs.1 hs.2, e]
    obtain ⟨m1, hm1⟩ := (hw (trapK E P (q, r) s).1).2.2
    obtain ⟨m2, hm2⟩ := (hw s.1).2.2
    refine fold_le_of_cong period half _ _ _ hp (hw _).1 (hw _).2.1 (hw _).1 (hw _).2.1 (-m1 + m2) ?_
    rw [hm1, hm2]
    push_cast
    ring
  have h3 : (implNode E P period half q r s).2.2 = |(trapK E P (q, r) s).2 - s.2| := by
    rw [implNode_in E P period half q r s hs.1 hs.2, e, clip_of_mem P _ hnc.1 hnc.2]
  refine ⟨implInit_eq_euler E P q r, h1, h2, h3, ?_⟩
  rw [Prod.norm_def]
  simp only [Prod.fst_sub, Prod.snd_sub, Real.norm_eq_abs]
  exact max_le_max h2 h3.le

/-- non-vacuity (differential rotation over ℝ, node (1, 2), current end point (5, 2)) -/
example : (implNode (shearE ℝ) (shearP ℝ) 6 3 1 2 (5, 2)).1 =
    wrapPt (shearE ℝ) (trap (polVel (shearE ℝ) (shearP ℝ)) (1, 2) (shearP ℝ).dt (5, 2)) :=
  (model_iteration_eq (shearE ℝ) (shearP ℝ) 6 3 1 2 (5, 2) (by norm_num) wrapOK_shear periodicEv_shear
    (by constructor <;> norm_num [shearP])
    (by constructor <;> (simp only [trap, polVel_shear]; norm_num [shearP]))).2.1

/-- the same for unwrapped iterates (`wrap = id`, e.g. when the angle is followed on the covering line): the model's
    new end point *is* `trap (polVel E P) (q, r) dt s`; no periodicity of the evaluators is needed -/
theorem model_iteration_eq_unwrapped (E : Evals ℝ) (P : Params ℝ) (period half q r : ℝ) (s : ℝ × ℝ)
    (hid : ∀ x, E.wrap x = x) (hs : s ∈ strip P) (hnc : trap (polVel E P) (q, r) P.dt s ∈ strip P) :
    (implNode E P period half q r s).1 = trap (polVel E P) (q, r) P.dt s := by
  rw [← trapK_eq_trap] at hnc ⊢
  rw [implNode_in E P period half q r s hs.1 hs.2]
  simp only [hid]
  rw [clip_of_mem P _ hnc.1 hnc.2]

example : (implNode { shearE ℝ with wrap := id } (shearP ℝ) 6 3 1 2 (5, 2)).1 =
    trap (polVel { shearE ℝ with wrap := id } (shearP ℝ)) (1, 2) (shearP ℝ).dt (5, 2) :=
  model_iteration_eq_unwrapped { shearE ℝ with wrap := id } (shearP ℝ) 6 3 1 2 (5, 2) (fun _ => rfl)
    (by constructor <;> norm_num [shearP])
    (by constructor <;> norm_num [trap, polVel, shearE, shearP])

/-- the explicit foot of the model is the Heun foot, angle reduced, when the predictor lies in the radial domain -/
theorem model_heun_eq (E : Evals ℝ) (P : Params ℝ) (period q r : ℝ) (hw : WrapOK E.wrap period)
    (hper : PeriodicEv E period) (he : eulerFoot (polVel E P) (q, r) P.dt ∈ strip P) :
    explFoot E P q r = wrapPt E (heunFoot (polVel E P) (q, r) P.dt) :=
  explFoot_eq_heun E P period q r hw hper he

example : explFoot (shearE ℝ) (shearP ℝ) 1 2 =
    wrapPt (shearE ℝ) (heunFoot (polVel (shearE ℝ) (shearP ℝ)) (1, 2) (shearP ℝ).dt) :=
  model_heun_eq (shearE ℝ) (shearP ℝ) 6 1 2 wrapOK_shear periodicEv_shear
    (by constructor <;> (simp only [eulerFoot, polVel_shear]; norm_num [shearP]))

/-- Explicit and implicit scheme of the model agree to third order.  Whatever `implStep` returns (after `k+1` sweeps,
    for any `tol`): the returned foot of every node `n` whose unwrapped iterates stay in the radial domain differs from
    the foot of the explicit scheme by at most `C = L²·M·|dt|³/(4(1 − q))`, `q = |dt|·L/2`, in the radial component
    and, up to a multiple of the period, in the angle.  `L`: Lipschitz constant of `polVel` on the strip;
    `M ≥ ‖polVel n‖`. -/
theorem pol_expl_impl_third_order (E : Evals ℝ) (P : Params ℝ) (period half tol L M : ℝ) (fuel : ℕ)
    (qPts rPts : ℕ → ℝ) (nq nr : ℕ) (res : List (VParAdv.Val ℝ) × List (ℝ × ℝ) × ℕ × List ℝ)
    (hw : WrapOK E.wrap period) (hper : PeriodicEv E period) (hLip : LipOn (polVel E P) L (strip P)) (hL : 0 ≤ L)
    (hq1 : qFac P.dt L < 1) (h : implStep E P period half tol id fuel qPts rPts nq nr = some res) :
    ∃ k, res.2.2.1 = k + 1 ∧
      res.2.1 = (nodeList qPts rPts nq nr).map (fun n => nodeIter E P period half n (k + 1)) ∧
      ∀ n ∈ nodeList qPts rPts nq nr, (∀ j, iter (polVel E P) n P.dt n j ∈ strip P) → ‖polVel E P n‖ ≤ M →
        |(nodeIter E P period half n (k + 1)).2 - (explFoot E P n.1 n.2).2| ≤
            L ^ 2 * M * |P.dt| ^ 3 / (4 * (1 - qFac P.dt L)) ∧
        ∃ m : ℤ, |(nodeIter E P period half n (k + 1)).1 - (explFoot E P n.1 n.2).1 + m * period| ≤
            L ^ 2 * M * |P.dt| ^ 3 / (4 * (1 - qFac P.dt L)) := by
  unfold implStep at h
  simp only [Option.map_eq_some_iff, id] at h
  obtain ⟨r, hr', rfl⟩ := h
  obtain ⟨k, h1, h2, _⟩ := implLoop_some_iterState E P period half tol _ fuel _ _ _ r hr'
  refine ⟨k, by simpa using h2, ?_, ?_⟩
  · rw [h1, iterState_init]
  · intro n _ hdom hM
    have hit := nodeIter_eq E P period half n hw hper k (fun j _ _ => hdom j)
    have hex : explFoot E P n.1 n.2 = wrapPt E (heunFoot (polVel E P) n P.dt) := by
      have := hdom 1
      rw [iter_one_node] at this
      exact explFoot_eq_heun E P period n.1 n.2 hw hper this
    have hb := heun_vs_every_iterate (polVel E P) n P.dt L M (strip P) hL hLip hdom hM hq1 k
    rw [Prod.norm_def] at hb
    simp only [Prod.fst_sub, Prod.snd_sub, Real.norm_eq_abs] at hb
    rw [hit, hex, Nat.add_comm k 2]
    refine ⟨le_trans (le_max_right _ _) hb, ?_⟩
    obtain ⟨m1, hm1⟩ := (hw (iter (polVel E P) n P.dt n (2 + k)).1).2.2
    obtain ⟨m2, hm2⟩ := (hw (heunFoot (polVel E P) n P.dt).1).2.2
    refine ⟨-m1 + m2, le_trans (le_of_eq ?_) (le_trans (le_max_left _ _) hb)⟩
    simp only [wrapPt]
    rw [hm1, hm2]
    push_cast
    congr 1
    ring

/-- non-vacuity (differential rotation over ℝ, L = 1/2, M = 2, dt = 1/2, q = 1/8: C = 1/56): the implicit step
    returns, and all nine returned feet are within C of the explicit ones -/
example : ∃ fuel res k, implStep (shearE ℝ) (shearP ℝ) 6 3 (1 / 1000) id fuel (fun i => (i : ℝ))
      (fun j => (j : ℝ) + 1) 3 3 = some res ∧
    res.2.1 = (nodeList (fun i => (i : ℝ)) (fun j => (j : ℝ) + 1) 3 3).map
      (fun n => nodeIter (shearE ℝ) (shearP ℝ) 6 3 n (k + 1)) ∧
    ∀ n ∈ nodeList (fun i => (i : ℝ)) (fun j => (j : ℝ) + 1) 3 3,
      |(nodeIter (shearE ℝ) (shearP ℝ) 6 3 n (k + 1)).2 - (explFoot (shearE ℝ) (shearP ℝ) n.1 n.2).2| ≤ 1 / 56 ∧
      ∃ m : ℤ, |(nodeIter (shearE ℝ) (shearP ℝ) 6 3 n (k + 1)).1 - (explFoot (shearE ℝ) (shearP ℝ) n.1 n.2).1 +
        m * 6| ≤ 1 / 56 := by
  obtain ⟨fuel, hf⟩ := pol_impl_terminates_of_contraction (shearE ℝ) (shearP ℝ) 6 3 (1 / 1000) (1 / 2)
    (fun i => (i : ℝ)) (fun j => (j : ℝ) + 1) 3 3
    (by norm_num [shearP]) (by norm_num) wrapOK_shear periodicEv_shear velLip_shear (by norm_num)
    (by norm_num [shearP, abs_of_nonneg]) (by norm_num)
  obtain ⟨res, hres⟩ := Option.isSome_iff_exists.mp hf
  have hq : qFac (shearP ℝ).dt (1 / 2) = 1 / 8 := by norm_num [qFac, shearP, abs_of_nonneg]
  obtain ⟨k, _, h2, h3⟩ := pol_expl_impl_third_order (shearE ℝ) (shearP ℝ) 6 3 (1 / 1000) (1 / 2) 2 fuel _ _ 3 3 res
    wrapOK_shear periodicEv_shear (lipOn_of_velLip _ _ _ velLip_shear) (by norm_num) (by rw [hq]; norm_num) hres
  refine ⟨fuel, res, k, hres, h2, fun n hn => ?_⟩
  obtain ⟨i, _, j, hj, rfl⟩ := (mem_nodeList _ _ 3 3 n).mp hn
  have hj' : (j : ℝ) ≤ 2 := by exact_mod_cast Nat.le_of_lt_succ hj
  have hj0 : (0 : ℝ) ≤ j := Nat.cast_nonneg j
  have hC : (1 / 2 : ℝ) ^ 2 * 2 * |(shearP ℝ).dt| ^ 3 / (4 * (1 - qFac (shearP ℝ).dt (1 / 2))) = 1 / 56 := by
    rw [hq]
    norm_num [shearP, abs_of_nonneg]
  rw [← hC]
  refine h3 _ hn (fun l => ?_) ?_
  · have e := iter_shear_snd ((i : ℝ), (j : ℝ) + 1) l
    refine ⟨?_, ?_⟩
    · rw [e]
      show (1 : ℝ) ≤ (j : ℝ) + 1
      linarith
    · rw [e]
      show (j : ℝ) + 1 ≤ 4
      linarith
  · rw [polVel_shear, Prod.norm_def]
    simp only [Real.norm_eq_abs, abs_zero]
    refine max_le ?_ (by norm_num)
    rw [abs_le]
    constructor <;> linarith

end Model

end PygyroVerif.C12Extra

end
