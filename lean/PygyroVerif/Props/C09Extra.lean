/-
C09 (extra) — the clauses of C09 that `Props/C09.lean` only states.
Helper lemmas: Lemmas/SplineIntegrals.lean.  Model: Model/Interp.lean (`integralGeneral` = loop body of the general branch of
`BSplines._build_integrals`, splines.py:262-286).

  * `integrals_antiderivative`         proves `C09.integrals_antiderivative_statement` for every space (entries `i < nbasis`)
  * `periodic_tail_antiderivative`     the same for the repaired periodic tail `integrals[n+i]`, `i < p` (exactly periodic knots)
  * `integrals_defined`                the general branch returns a value (both span searches succeed)
  * `antiderivatives_exist`            the quantification over antiderivatives in the statement is not vacuous
  * `interior_integral_full`           basis functions whose support lies in the domain get `(t_{i+p+1}-t_i)/(p+1)`
  * `uniform_periodic_equal_weights_greville_partial`
                                       `C09.uniform_periodic_equal_weights_statement` given a floor function and unisolvence of the
                                       collocation matrix; Greville positions, spans and the constant right-hand side are derived
  * `uniform_periodic_equal_weights_low_degree`
                                       the same clause with *no* unisolvence hypothesis for degrees 1 … 6 (diagonal dominance)

Knot vectors covered: sorted knots whose cells *inside the domain* are non-degenerate, i.e. strictly increasing breakpoints = simple
interior knots.  The `degree` knots on either side of the domain are arbitrary sorted values: clamped (multiplicity `p+1` at the ends,
as `make_knots(…, periodic=False)`), periodic continuation (`make_knots(…, periodic=True)`), or anything else.  Interior knots of higher
multiplicity are *not* covered (`make_knots` never builds them: it asserts `np.diff(breaks) > 0`).
-/
import PygyroVerif.Props.C09
import PygyroVerif.Lemmas.SplineIntegrals
import PygyroVerif.Lemmas.SplineUniformPeriodic
import Mathlib.Data.Rat.Floor

namespace PygyroVerif.C09
open PygyroVerif PygyroVerif.BSpline PygyroVerif.Interp PygyroVerif.SplineIntegrals PygyroVerif.SplineUniform Finset Polynomial

set_option linter.unusedSectionVars false

variable {K : Type*} [Field K] [LinearOrder K] [IsStrictOrderedRing K]

/-! ### the degree-raising expression is the integral -/

/-- `C09.cellPoly` is the Cox–de Boor recursion in `K[X]` used by the lemma file -/
theorem cellPoly_eq_coxPoly (t : ℕ → K) (s : ℕ) : ∀ p i, cellPoly t s p i = coxPoly t s p i
  | 0, i => rfl
  | p+1, i => by
    simp only [cellPoly, coxPoly]
    rw [cellPoly_eq_coxPoly t s p i, cellPoly_eq_coxPoly t s p (i + 1)]

/-- **integrals_antiderivative.**  What the general branch of `BSplines._build_integrals` stores for basis function `i < nbasis`
    (degree-raised basis on the padded knots evaluated at `max(xmin, t_i)` and `min(xmax, t_{i+p+1})`, partial sums from
    `min_idx`, difference scaled by `(t_{i+p+1} - t_i)/(p+1)`) **is the integral of `B_i` over the domain**: the sum over the cells
    of the domain of the increments of any formal antiderivative of the cell polynomial of `B_i` (Cox–de Boor carried out in
    `K[X]`).  Holds for every admissible space over an ordered field with sorted knots and non-degenerate cells in the domain
    (simple interior knots; clamped, periodic or arbitrary sorted end knots).  Proof: de Boor's identity
    `d/dx Σ_{j≥i} N_{j,p+1} = (p+1)/(t_{i+p+1}-t_i) N_{i,p}` on each cell (telescoped degree-lowering formula `U_deriv`), continuity
    of the degree-`p+1` functions across simple knots, and the two span searches. -/
theorem integrals_antiderivative (S : Space K) : integrals_antiderivative_statement S := by
  intro hadm ht hcell i hi v hv F hF
  exact integralGeneral_eq_cells S hadm ht hcell i hi v hv F (fun s => by rw [hF s, cellPoly_eq_coxPoly])

/-- instance `Interp.Inst` (degree 2, periodic, 3 unit cells, knots −2..5): the quadratic `B_1` (knots −1,0,1,2) sticks out of the domain
    `[0,3]` on the left; the stored value is `5/6 = 1 − 1/6`, and it is the sum of the increments over the cells 2,3,4 -/
example (F : ℕ → Polynomial ℚ) (hF : ∀ s, derivative (F s) = cellPoly Inst.S.t s Inst.S.degree 1) :
    (5/6 : ℚ) = ∑ s ∈ Ico 2 5, ((F s).eval (Inst.S.t (s + 1)) - (F s).eval (Inst.S.t s)) :=
  integrals_antiderivative Inst.S Inst.hadm Inst.tmono Inst.hcell 1 (by decide) (5/6) (by decide +kernel) F hF

/-- **integrals_defined.**  Under the same hypotheses the loop body returns a value for every basis function whose knots exist
    (`i + p + 2 ≤ len(knots)`): both span searches succeed -/
theorem integrals_defined (S : Space K) (hadm : S.Admissible) (ht : Monotone S.t)
    (hcell : ∀ s, S.degree ≤ s → s + S.degree + 2 ≤ S.nk → S.t s < S.t (s + 1)) (i : ℕ) (hi : i + S.degree + 2 ≤ S.nk) :
    ∃ v, integralGeneral S i = some v :=
  ⟨_, integralGeneral_eq_tailVal S hadm ht hcell i hi⟩

example : ∃ v, integralGeneral Inst.S 4 = some v :=
  integrals_defined Inst.S Inst.hadm Inst.tmono Inst.hcell 4 (by decide)

/-- **antiderivatives_exist.**  The statement quantifies over all families `F` of formal antiderivatives of the cell polynomials; such
    families exist (term-wise `a_k X^{k+1}/(k+1)`, characteristic zero), so the statement is not vacuous -/
theorem antiderivatives_exist (t : ℕ → K) (p i : ℕ) : ∃ F : ℕ → K[X], ∀ s, derivative (F s) = cellPoly t s p i :=
  ⟨fun s => antideriv (cellPoly t s p i), fun _ => derivative_antideriv _⟩

example : ∃ F : ℕ → Polynomial ℚ, ∀ s, derivative (F s) = cellPoly Inst.S.t s 2 1 := antiderivatives_exist _ _ _

/-- **interior_integral_full.**  A basis function whose support lies inside the domain (`p ≤ i`, `t_{i+p+1} ≤ xmax`, simple knots at both
    ends of the domain) gets the full integral `(t_{i+p+1} - t_i)/(p+1)` -/
theorem interior_integral_full (S : Space K) (hadm : S.Admissible) (ht : Monotone S.t)
    (hcell : ∀ s, S.degree ≤ s → s + S.degree + 2 ≤ S.nk → S.t s < S.t (s + 1))
    (i : ℕ) (hdi : S.degree ≤ i) (hi : i + 2 * S.degree + 2 ≤ S.nk)
    (hL : S.t (S.degree - 1) < S.t S.degree) (hR : S.t (S.nk - S.degree - 1) < S.t (S.nk - S.degree)) :
    integralGeneral S i = some ((S.t (i + S.degree + 1) - S.t i) * (1 / ((S.degree : K) + 1))) :=
  integralGeneral_interior S hadm ht hcell i hdi hi hL hR

/-- `Interp.Inst`: `B_2` (knots 0,1,2,3) lies in the domain `[0,3]`, its stored integral is `3/3` -/
example : integralGeneral Inst.S 2 = some (((3 : ℚ) - 0) * (1 / (2 + 1))) := by
  have := interior_integral_full Inst.S Inst.hadm Inst.tmono Inst.hcell 2 (by decide) (by decide)
    (by norm_num [Inst.S]) (by norm_num [Inst.S])
  rw [this]
  norm_num [Inst.S]

/-! ### periodic spaces: the wrapped basis functions -/

/-- **periodic_tail_antiderivative.**  The repaired periodic tail `integrals[n+i] = (t_{i+p+1}-t_i)/(p+1) − integrals[i]` (`i < p`) **is
    the integral over the domain of the wrapped basis function `B_{n+i}`** (sum over the cells of the domain of the increments of any
    formal antiderivatives of its cell polynomials), for exactly periodic (`t_{j+n} = t_j + L`), strictly increasing knots as
    `make_knots(…, periodic=True)` builds them.  Together with `integrals_antiderivative` every entry of `BSplines.integrals` of the
    general branch is the integral of its basis function over the domain. -/
theorem periodic_tail_antiderivative (S : Space K) (hadm : S.Admissible) (hper : S.periodic = true) (ht : Monotone S.t) (L : K)
    (hperk : ∀ j, j ≤ 2 * S.degree → S.t (j + S.nbasis) = S.t j + L)
    (hst : ∀ j, j + 1 < S.nk → S.t j < S.t (j + 1))
    (i : ℕ) (hi : i < S.degree) (v : K) (hv : integralsGeneral S (S.nbasis + i) = some v)
    (F : ℕ → K[X]) (hF : ∀ s, derivative (F s) = cellPoly S.t s S.degree (S.nbasis + i)) :
    v = ∑ s ∈ Ico S.degree (S.degree + S.ncells), ((F s).eval (S.t (s + 1)) - (F s).eval (S.t s)) := by
  obtain ⟨hn1, hn2, hn0, hdn⟩ := periodic_counts S hadm hper
  have hd := hadm.1
  have hnk := hadm.2.1
  have hcell : ∀ s, S.degree ≤ s → s + S.degree + 2 ≤ S.nk → S.t s < S.t (s + 1) := fun s _ _ => hst s (by omega)
  have hnc : S.ncells = S.nbasis := by simp [Space.nbasis, hper]
  -- the last cell
  obtain ⟨last, hlast⟩ : ∃ last, last = S.nk - S.degree - 2 := ⟨_, rfl⟩
  have hl1 : last + 1 = S.nbasis + S.degree := by omega
  have hl2 : S.nk - S.degree - 1 = last + 1 := by omega
  have hl3 : S.degree + S.ncells = last + 1 := by omega
  -- what is stored
  unfold integralsGeneral at hv
  rw [if_neg (by omega), if_pos ⟨hper, by unfold Space.ncoeffs; omega⟩] at hv
  have e0 : S.nbasis + i - S.nbasis = i := by omega
  rw [e0, integralGeneral_eq_tailVal S hadm ht hcell i (by omega), fullIntegral_eq S i (by omega)] at hv
  simp only [Option.map_some, Option.some.injEq] at hv
  rw [← hlast, hl2, tailVal_last_eq_one S.t ht S.nk S.degree i last (by omega) (by omega) (by omega)
    (hst last (by omega)) (hst (last + 1) (by omega)) (by omega)] at hv
  -- the integral of `B_{n+i}` over the domain
  have hΔ : S.t (S.nbasis + i + S.degree + 1) - S.t (S.nbasis + i) = S.t (i + S.degree + 1) - S.t i := by
    have e1 : S.nbasis + i + S.degree + 1 = (i + S.degree + 1) + S.nbasis := by omega
    rw [e1, hperk _ (by omega), add_comm S.nbasis i, hperk i (by omega)]
    ring
  have hpos := knot_span_pos S.t ht S.nk S.degree i hcell hnk (by omega)
  have hL : S.t (S.degree - 1) < S.t S.degree := by
    have := hst (S.degree - 1) (by omega)
    rwa [Nat.sub_add_cancel hd] at this
  rw [hl3, cells_sum S.t ht S.nk S.degree (S.nbasis + i) last (by omega) (by omega) (fun s _ _ => hst s (by omega)) (by omega)
    (by rw [hΔ]; exact ne_of_gt (by linarith)) F (fun s => by rw [hF s, cellPoly_eq_coxPoly]), hΔ,
    tailVal_first_eq_zero S.t ht S.nk S.degree (S.nbasis + i) hd hnk (by omega) hL (hst S.degree (by omega)),
    tailVal_seam S.t ht S.nk S.degree S.nbasis i last (by omega) hd hdn hl1 L hperk hst, ← hv]
  ring

/-- instance `Interp.Inst` (degree 2, 3 unit cells, `L = 3`): the wrapped `B_3` (knots 1,2,3,4) has `1/6` of its mass outside the domain
    `[0,3]`; the stored `integrals[3] = 1 − integrals[0] = 1 − 1/6 = 5/6` is the sum of its increments over the cells 2,3,4 -/
example (F : ℕ → Polynomial ℚ) (hF : ∀ s, derivative (F s) = cellPoly Inst.S.t s Inst.S.degree (Inst.S.nbasis + 0)) :
    (5/6 : ℚ) = ∑ s ∈ Ico 2 5, ((F s).eval (Inst.S.t (s + 1)) - (F s).eval (Inst.S.t s)) :=
  periodic_tail_antiderivative Inst.S Inst.hadm rfl Inst.tmono 3 (fun j _ => by rw [Inst.hnb]; simp [Inst.S]; ring)
    (fun j _ => by simp [Inst.S]) 0 (by decide) (5/6) (by decide +kernel) F hF

/-! ### uniform periodic spaces: equal weights -/

/-- **uniform_periodic_equal_weights_greville_partial.**  `C09.uniform_periodic_equal_weights_statement` holds whenever `floor` is a
    floor function and the model's collocation matrix at its own Greville points is unisolvent (`hunis`: `Mᵀ` injective).  Compared
    with `C09.uniform_periodic_equal_weights_model` the *position* hypotheses are discharged: on uniform knots the model's
    `greville` yields `x₀ + i·h` (`x₀ = xmin + h/2` for even degree, `xmin` for odd degree; the `% (b-a)` wrap is the identity), the span
    search lands in cell `p+i`, and the folded right-hand side built from the model's integrals is constant `= h`
    (`integrals_antiderivative` machinery).  **Missing** for the full clause: unisolvence of the circulant B-spline collocation
    matrix for arbitrary degree (non-vanishing of the Euler–Frobenius symbol on the unit circle); it is proved below for degrees
    `≤ 6` (`uniform_periodic_equal_weights_low_degree`). -/
theorem uniform_periodic_equal_weights_greville_partial (floor : K → ℤ)
    (hfl : ∀ q : K, ((floor q : ℤ) : K) ≤ q ∧ q < ((floor q : ℤ) : K) + 1) (S : Space K) (a h : K)
    (hunis : ∀ M : ℕ → ℕ → K, (∀ i, i < S.nbasis → collocationMatrix S (greville floor S) i = some (M i)) →
      ∀ v : ℕ → K, (∀ j, j < S.nbasis → matTVec M S.nbasis v j = 0) → ∀ i, i < S.nbasis → v i = 0) :
    uniform_periodic_equal_weights_statement floor S a h := by
  intro hadm hper hh ht M I w hM hI hw
  obtain ⟨ho0, ho1⟩ := grevOffset_bounds S.degree h hh
  have hM' : ∀ i, i < S.nbasis →
      collocationMatrix S (fun i => (S.xmin + grevOffset S.degree h) + (i : K) * h) i = some (M i) := by
    intro i hi
    have := hM i hi
    unfold collocationMatrix at this ⊢
    rwa [greville_uniform_periodic floor hfl S hadm hper a h hh ht i hi] at this
  exact uniform_periodic_equal_weights_model S hadm a h (S.xmin + grevOffset S.degree h) hper hh ht S.degree (le_refl _)
    (fun i hi => findSpan_uniform S hadm hper a h hh ht _ ho0 ho1 i hi) M hM' (hunis M hM) w h (S.xmax - S.xmin)
    (fun j hj => by rw [hw j hj, basisQuads_uniform S hadm hper a h hh ht I hI j hj])
    (domain_length_uniform S hadm hper a h ht)

/-- the rational floor satisfies the floor hypothesis -/
theorem rat_floor_spec : ∀ q : ℚ, (((⌊q⌋ : ℤ)) : ℚ) ≤ q ∧ q < ((⌊q⌋ : ℤ) : ℚ) + 1 :=
  fun q => ⟨Int.floor_le q, Int.lt_floor_add_one q⟩

/-- instance `Interp.Inst` (degree 2, 3 unit cells, `a = −2`, `h = 1`) with the rational floor: unisolvence holds (`Inst.hinjT`), so every
    hypothesis of the statement yields equal weights `3/3` -/
example : uniform_periodic_equal_weights_statement (fun q : ℚ => ⌊q⌋) Inst.S (-2) 1 := by
  apply uniform_periodic_equal_weights_greville_partial _ rat_floor_spec
  intro M hM
  have hMeq : ∀ i, i < 3 → M i = Inst.M i := by
    intro i hi
    have h1 := hM i (by rw [Inst.hnb]; exact hi)
    have h2 := Inst.hM i (by rw [Inst.hnb]; exact hi)
    have hg : greville (fun q : ℚ => ⌊q⌋) Inst.S i = Inst.xs i := by
      rw [greville_uniform_periodic _ rat_floor_spec Inst.S Inst.hadm rfl (-2) 1 one_pos (fun i => by simp [Inst.S]; ring) i
        (by rw [Inst.hnb]; exact hi)]
      simp [Space.xmin, Inst.S, Inst.xs, grevOffset]
      ring
    unfold collocationMatrix at h1 h2
    rw [hg, h2] at h1
    exact (Option.some.inj h1).symm
  intro v hv i hi
  rw [Inst.hnb] at hv hi
  refine Inst.hinjT v (fun j hj => ?_) i hi
  rw [← hv j hj]
  unfold matTVec
  exact sum_congr rfl (fun i hi => by rw [hMeq i (mem_range.mp hi)])

/-- **uniform_periodic_equal_weights_low_degree.**  For degrees 1 … 6 the clause holds without any unisolvence hypothesis: the
    collocation matrix is non-negative with unit row sums and the basis function centred at each interpolation point has value
    `1, 3/4, 2/3, 115/192, 11/20, 5887/11520 > 1/2` there (also after folding columns modulo `n` for few cells), hence `Mᵀ` is injective
    (ℓ¹ diagonal-dominance argument).  From degree 7 on the central value is `< 1/2` (`151/315`) and this argument does not apply. -/
theorem uniform_periodic_equal_weights_low_degree (floor : K → ℤ)
    (hfl : ∀ q : K, ((floor q : ℤ) : K) ≤ q ∧ q < ((floor q : ℤ) : K) + 1) (S : Space K) (a h : K) (hdeg : S.degree ≤ 6) :
    uniform_periodic_equal_weights_statement floor S a h := by
  intro hadm hper hh ht
  refine uniform_periodic_equal_weights_greville_partial floor hfl S a h ?_ hadm hper hh ht
  intro M hM
  obtain ⟨ho0, ho1⟩ := grevOffset_bounds S.degree h hh
  have hM' : ∀ i, i < S.nbasis →
      collocationMatrix S (fun i => (S.xmin + grevOffset S.degree h) + (i : K) * h) i = some (M i) := by
    intro i hi
    have := hM i hi
    unfold collocationMatrix at this ⊢
    rwa [greville_uniform_periodic floor hfl S hadm hper a h hh ht i hi] at this
  obtain ⟨s0, hs0, hdomv⟩ := dominant_value_low_degree a h hh S.t ht S.degree hadm.1 hdeg
  refine uniform_periodic_unisolvent_of_dominant S hadm hper a h hh ht (S.xmin + grevOffset S.degree h)
    (fun i hi => findSpan_uniform S hadm hper a h hh ht _ ho0 ho1 i hi) ?_ s0 hs0 hdomv M hM'
  unfold Space.xmin
  rw [ht, ht]
  push_cast
  constructor <;> linarith

/-- `Interp.Inst` has degree 2: the clause holds for it with no further hypothesis -/
example : uniform_periodic_equal_weights_statement (fun q : ℚ => ⌊q⌋) Inst.S (-2) 1 :=
  uniform_periodic_equal_weights_low_degree _ rat_floor_spec Inst.S (-2) 1 (by decide)

end PygyroVerif.C09
