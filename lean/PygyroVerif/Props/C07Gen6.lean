/-
C07, tie by translation, part 6: the 2-D CROSS entry points `nu_eval_spline_2d_cross` (pygyro/splines/spline_eval_funcs.py) and
`cu_eval_spline_2d_cross` (pygyro/splines/cubic_uniform_spline_eval_funcs.py) — the functions that fill the tables of the poloidal advection
(`Spline2D.eval` on two arrays of points).  `Generated/Cross2DGen.lean` is REGENERATED on every run of `./check C07` (harness/translate_pure.py,
target `cross2d`).  The two functions do not call the scalar 2-D evaluation: each of their four `(der1, der2)` branches DUPLICATES its statements
inside `for i, x in enumerate(X): … for j, y in enumerate(Y):`, re-using ONE set of work arrays `basis1`, `basis2`, `theCoeffs` for all points,
and `basis1` / `span1` of iteration `i` for the whole row.

Proved here (loop lemmas in Lemmas/Cross2DGen.lean, stated once for any four loops with the recursion equations of the generated ones and
instantiated — by `rfl` — with each of the 2 × 16 generated loops), for ALL arrays `X`, `Y` of every length, knots, coefficient arrays, `der1, der2 ∈ {0, 1}`,
every content `U` of uninitialised memory and every previous content `z0` of `z`:
  * `gen_nu_cross_eq`: `z[i, j]` = the double sum `Σ_k (Σ_l c[s1-d1+k, s2-d2+l]·B2_l(Y[j]))·B1_k(X[i])` for `i < len(X)`, `j < len(Y)`, and `z[i, j] = z0[i, j]`
    everywhere else (guard: the span searches return `deg ≤ span`, true on sorted knots);
  * `gen_nu_cross_eq_scalar`: … which is, entry by entry, what the GENERATED `nu_eval_spline_2d_scalar` (Props/C07Gen5.lean) returns at `(X[i], Y[j])`;
  * `gen_nu_cross_model` / `gen_nu_cross_total`: … = `BSpline.evalSpline2D`; on sorted knots with non-degenerate domains the call terminates;
  * `gen_cu_cross_eq` / `gen_cu_cross_eq_scalar` / `gen_cu_cross_general_path`: the same for the uniform-cubic path against `CubicUniform.cuEvalSpline2D`
    (`trunc := pyInt`), the generated `cu_eval_spline_2d_scalar` and, on the closed domain, `evalSpline2D` on the uniform knots (guard `deg1 = deg2 = 3`);
  * `gen_nu_cross_other_der` / `gen_cu_cross_other_der`: for `(der1, der2) ∉ {0,1}²` nothing is written (the scalar functions sum uninitialised memory there).
Not modelled (header of the generated file): index bounds of `z` / `coeffs`, negative indices (uniform-cubic path left of the domain), slice clipping.
-/
import PygyroVerif.Lemmas.Cross2DGen

namespace PygyroVerif.C07Gen6
open PygyroVerif PygyroVerif.BSpline PygyroVerif.C07Gen5 PygyroVerif.Cross2DGen

/-! ## `nu_eval_spline_2d_cross` -/
section Nu
open PygyroVerif.Gen.BasisFuns PygyroVerif.Gen.EvalSpline PygyroVerif.Gen.Cross2DNu
open PygyroVerif.Gen.Cross2DNu.nu_eval_spline_2d_cross_

variable (U : ℕ → ℚ) (F : ℕ)

/-- the four kernel calls of the source, as functions of the locals -/
def kV1 : St → Out nu_basis_funs_.St := fun σ => nu_basis_funs_.run U F σ.kts1 σ.kts1_len σ.deg1 σ.x σ.span1 σ.basis1 σ.basis1_len
def kD1 : St → Out nu_basis_funs_1st_der_.St := fun σ => nu_basis_funs_1st_der_.run U F σ.kts1 σ.kts1_len σ.deg1 σ.x σ.span1 σ.basis1 σ.basis1_len
def kV2 : St → Out nu_basis_funs_.St := fun σ => nu_basis_funs_.run U F σ.kts2 σ.kts2_len σ.deg2 σ.y σ.span2 σ.basis2 σ.basis2_len
def kD2 : St → Out nu_basis_funs_1st_der_.St := fun σ => nu_basis_funs_1st_der_.run U F σ.kts2 σ.kts2_len σ.deg2 σ.y σ.span2 σ.basis2 σ.basis2_len
def gV : nu_basis_funs_.St → ℕ → ℚ := fun τ => τ.values
def gD : nu_basis_funs_1st_der_.St → ℕ → ℚ := fun τ => τ.ders

theorem kV1_spec (σ' : St) : ∃ β, kV1 U F σ' = .ret β ∧ ∀ m, m ≤ σ'.deg1 → gV β m = (basisOrDer σ'.kts1 σ'.deg1 σ'.x σ'.span1 false).getD m 0 := by
  obtain ⟨β, hβ, hv, -⟩ := BasisFunsGen.run_eq U F σ'.kts1 σ'.kts1_len σ'.deg1 σ'.x σ'.span1 σ'.basis1 σ'.basis1_len
  exact ⟨β, hβ, hv⟩
theorem kD1_spec (σ' : St) : ∃ β, kD1 U F σ' = .ret β ∧ ∀ m, m ≤ σ'.deg1 → gD β m = (basisOrDer σ'.kts1 σ'.deg1 σ'.x σ'.span1 true).getD m 0 := by
  obtain ⟨β, hβ, hv, -⟩ := EvalSplineGen.der_run_eq U F σ'.kts1 σ'.kts1_len σ'.deg1 σ'.x σ'.span1 σ'.basis1 σ'.basis1_len
  exact ⟨β, hβ, hv⟩
theorem kV2_spec (σ' : St) : ∃ β, kV2 U F σ' = .ret β ∧ ∀ m, m ≤ σ'.deg2 → gV β m = (basisOrDer σ'.kts2 σ'.deg2 σ'.y σ'.span2 false).getD m 0 := by
  obtain ⟨β, hβ, hv, -⟩ := BasisFunsGen.run_eq U F σ'.kts2 σ'.kts2_len σ'.deg2 σ'.y σ'.span2 σ'.basis2 σ'.basis2_len
  exact ⟨β, hβ, hv⟩
theorem kD2_spec (σ' : St) : ∃ β, kD2 U F σ' = .ret β ∧ ∀ m, m ≤ σ'.deg2 → gD β m = (basisOrDer σ'.kts2 σ'.deg2 σ'.y σ'.span2 true).getD m 0 := by
  obtain ⟨β, hβ, hv, -⟩ := EvalSplineGen.der_run_eq U F σ'.kts2 σ'.kts2_len σ'.deg2 σ'.y σ'.span2 σ'.basis2 σ'.basis2_len
  exact ⟨β, hβ, hv⟩

/-! the sixteen generated loops satisfy the recursion equations of Lemmas/Cross2DGen.lean (checked by unfolding: `rfl`) -/
theorem isL4 : IsL (nu_eval_spline_2d_cross_loop4 U F) := ⟨fun _ _ => rfl, fun _ _ _ => rfl⟩
theorem isL8 : IsL (nu_eval_spline_2d_cross_loop8 U F) := ⟨fun _ _ => rfl, fun _ _ _ => rfl⟩
theorem isL12 : IsL (nu_eval_spline_2d_cross_loop12 U F) := ⟨fun _ _ => rfl, fun _ _ _ => rfl⟩
theorem isL16 : IsL (nu_eval_spline_2d_cross_loop16 U F) := ⟨fun _ _ => rfl, fun _ _ _ => rfl⟩
theorem isK3 : IsK (nu_eval_spline_2d_cross_loop3 U F) (nu_eval_spline_2d_cross_loop4 U F) := ⟨fun _ _ => rfl, fun _ _ _ => rfl⟩
theorem isK7 : IsK (nu_eval_spline_2d_cross_loop7 U F) (nu_eval_spline_2d_cross_loop8 U F) := ⟨fun _ _ => rfl, fun _ _ _ => rfl⟩
theorem isK11 : IsK (nu_eval_spline_2d_cross_loop11 U F) (nu_eval_spline_2d_cross_loop12 U F) := ⟨fun _ _ => rfl, fun _ _ _ => rfl⟩
theorem isK15 : IsK (nu_eval_spline_2d_cross_loop15 U F) (nu_eval_spline_2d_cross_loop16 U F) := ⟨fun _ _ => rfl, fun _ _ _ => rfl⟩
/-- an instance of `IsJ` / `IsI`: unfold the generated loop once and follow the path on which the callees return -/
local macro "loop_inst" l:ident : tactic =>
  `(tactic| (refine ⟨fun _ _ => rfl, ?_⟩; intros; rw [$l:ident]; simp only [kV1, kD1, kV2, kD2, gV, gD] at *; simp only [*, and_self, ↓reduceIte]))

theorem isJ2 : IsJ U F (kV2 U F) gV (nu_eval_spline_2d_cross_loop2 U F) (nu_eval_spline_2d_cross_loop3 U F) := by
  loop_inst nu_eval_spline_2d_cross_loop2
theorem isJ6 : IsJ U F (kD2 U F) gD (nu_eval_spline_2d_cross_loop6 U F) (nu_eval_spline_2d_cross_loop7 U F) := by
  loop_inst nu_eval_spline_2d_cross_loop6
theorem isJ10 : IsJ U F (kV2 U F) gV (nu_eval_spline_2d_cross_loop10 U F) (nu_eval_spline_2d_cross_loop11 U F) := by
  loop_inst nu_eval_spline_2d_cross_loop10
theorem isJ14 : IsJ U F (kD2 U F) gD (nu_eval_spline_2d_cross_loop14 U F) (nu_eval_spline_2d_cross_loop15 U F) := by
  loop_inst nu_eval_spline_2d_cross_loop14
theorem isI1 : IsI U F (kV1 U F) gV (nu_eval_spline_2d_cross_loop1 U F) (nu_eval_spline_2d_cross_loop2 U F) := by
  loop_inst nu_eval_spline_2d_cross_loop1
theorem isI5 : IsI U F (kV1 U F) gV (nu_eval_spline_2d_cross_loop5 U F) (nu_eval_spline_2d_cross_loop6 U F) := by
  loop_inst nu_eval_spline_2d_cross_loop5
theorem isI9 : IsI U F (kD1 U F) gD (nu_eval_spline_2d_cross_loop9 U F) (nu_eval_spline_2d_cross_loop10 U F) := by
  loop_inst nu_eval_spline_2d_cross_loop9
theorem isI13 : IsI U F (kD1 U F) gD (nu_eval_spline_2d_cross_loop13 U F) (nu_eval_spline_2d_cross_loop14 U F) := by
  loop_inst nu_eval_spline_2d_cross_loop13


/-- the locals of `nu_eval_spline_2d_cross` when the loops start: the three work arrays hold whatever the memory holds -/
def st0 (X : ℕ → ℚ) (Xlen : ℕ) (Y : ℕ → ℚ) (Ylen : ℕ) (t1 : ℕ → ℚ) (nk1 deg1 : ℕ) (t2 : ℕ → ℚ) (nk2 deg2 : ℕ) (c z0 : ℕ → ℕ → ℚ) (d1 d2 : ℕ) : St :=
  { X := X, X_len := Xlen, Y := Y, Y_len := Ylen, kts1 := t1, kts1_len := nk1, deg1 := deg1, kts2 := t2, kts2_len := nk2, deg2 := deg2,
    coeffs := c, z := z0, der1 := d1, der2 := d2, basis1 := U, basis1_len := deg1 + 1, basis2 := U, basis2_len := deg2 + 1,
    theCoeffs := fun k_ l_ => U (k_ * (deg2 + 1) + l_), theCoeffs_len0 := deg1 + 1, theCoeffs_len1 := deg2 + 1 }

/-- the double sum `Σ_k (Σ_l c[s1-d1+k, s2-d2+l]·B2_l(y))·B1_k(x)` with the model's basis values (`der` = false) / first derivatives (`der` = true):
    what `gen_eval_spline_2d_eq` says the generated SCALAR kernel returns at `(x, y)` when the span searches return `s1`, `s2` -/
def val2D (t1 : ℕ → ℚ) (deg1 : ℕ) (t2 : ℕ → ℚ) (deg2 : ℕ) (c : ℕ → ℕ → ℚ) (der1 der2 : Bool) (x y : ℚ) (s1 s2 : ℕ) : ℚ :=
  blockSum c (s1 - deg1) (s2 - deg2) deg1 deg2 (fun m => (basisOrDer t1 deg1 x s1 der1).getD m 0) (fun m => (basisOrDer t2 deg2 y s2 der2).getD m 0)

theorem box_of_loop {z Z z0 : ℕ → ℕ → ℚ} {Xlen Ylen : ℕ}
    (hz : ∀ a b, z a b = if (0 ≤ a ∧ a < 0 + Xlen) ∧ b < Ylen then Z a b else z0 a b) :
    ∀ a b, z a b = if a < Xlen ∧ b < Ylen then Z a b else z0 a b := fun a b => by
  rw [hz a b]
  by_cases h : a < Xlen ∧ b < Ylen
  · rw [if_pos h, if_pos ⟨⟨by omega, by omega⟩, h.2⟩]
  · rw [if_neg h, if_neg (by omega)]

/-- **the generated `nu_eval_spline_2d_cross` fills the table with the double sums**: for all arrays `X`, `Y`, knots, degrees, coefficients, `der1, der2 ∈ {0, 1}`,
    whenever the model's span searches return `s1 a` at `X[a]` and `s2 b` at `Y[b]` with `deg ≤ span` (true on sorted knots, `gen_nu_cross_total`; it makes
    numpy's shape check of the slice copy pass), for every fuel at least the model's, every content `U` of the uninitialised work arrays and every previous
    content `z0` of `z`: the call returns, `z[a, b] = val2D … X[a] Y[b]` for `a < len(X)`, `b < len(Y)`, and every other entry of `z` is what it was -/
theorem gen_nu_cross_eq (X : ℕ → ℚ) (Xlen : ℕ) (Y : ℕ → ℚ) (Ylen : ℕ) (t1 : ℕ → ℚ) (nk1 deg1 : ℕ) (t2 : ℕ → ℚ) (nk2 deg2 : ℕ) (c z0 : ℕ → ℕ → ℚ)
    (der1 der2 : Bool) (s1 s2 : ℕ → ℕ)
    (h1 : ∀ a, a < Xlen → findSpan t1 nk1 deg1 (X a) = some (s1 a) ∧ deg1 ≤ s1 a)
    (h2 : ∀ b, b < Ylen → findSpan t2 nk2 deg2 (Y b) = some (s2 b) ∧ deg2 ≤ s2 b)
    (hF1 : (nk1 - 1 - deg1) - deg1 + 1 ≤ F) (hF2 : (nk2 - 1 - deg2) - deg2 + 1 ≤ F) :
    ∃ σ', run U F X Xlen Y Ylen t1 nk1 deg1 t2 nk2 deg2 c z0 (if der1 then 1 else 0) (if der2 then 1 else 0) = .ret σ' ∧
      ∀ a b, σ'.z a b = if a < Xlen ∧ b < Ylen then val2D t1 deg1 t2 deg2 c der1 der2 (X a) (Y b) (s1 a) (s2 b) else z0 a b := by
  have hfs1 : ∀ a, 0 ≤ a → a < 0 + Xlen → ∃ τ, nu_find_span_.run U F t1 nk1 deg1 (X a) = .ret τ ∧ τ.ret_ = s1 a ∧ deg1 ≤ s1 a := fun a _ ha => by
    obtain ⟨τ, hτ, hr⟩ := EvalSplineGen.fs_run_eq U t1 nk1 deg1 (X a) (s1 a) F (h1 a (by omega)).1 hF1
    exact ⟨τ, hτ, hr, (h1 a (by omega)).2⟩
  have hfs2 : ∀ b, b < Ylen → ∃ τ, nu_find_span_.run U F t2 nk2 deg2 (Y b) = .ret τ ∧ τ.ret_ = s2 b ∧ deg2 ≤ s2 b := fun b hb => by
    obtain ⟨τ, hτ, hr⟩ := EvalSplineGen.fs_run_eq U t2 nk2 deg2 (Y b) (s2 b) F (h2 b hb).1 hF2
    exact ⟨τ, hτ, hr, (h2 b hb).2⟩
  cases der1 <;> cases der2
  · obtain ⟨σ', hrun, hz⟩ := i_loop_eq U F (isI1 U F) (isJ2 U F) (isK3 U F) (isL4 U F) false false s1 s2 (kV1_spec U F) (kV2_spec U F) Xlen 0
      (st0 U X Xlen Y Ylen t1 nk1 deg1 t2 nk2 deg2 c z0 0 0) rfl rfl hfs1 hfs2
    refine ⟨σ', ?_, box_of_loop hz⟩
    show (match nu_eval_spline_2d_cross_loop1 U F Xlen 0 (st0 U X Xlen Y Ylen t1 nk1 deg1 t2 nk2 deg2 c z0 0 0) with
      | .ok σ => Out.ret σ | .done o => o) = _
    rw [hrun]
  · obtain ⟨σ', hrun, hz⟩ := i_loop_eq U F (isI5 U F) (isJ6 U F) (isK7 U F) (isL8 U F) false true s1 s2 (kV1_spec U F) (kD2_spec U F) Xlen 0
      (st0 U X Xlen Y Ylen t1 nk1 deg1 t2 nk2 deg2 c z0 0 1) rfl rfl hfs1 hfs2
    refine ⟨σ', ?_, box_of_loop hz⟩
    show (match nu_eval_spline_2d_cross_loop5 U F Xlen 0 (st0 U X Xlen Y Ylen t1 nk1 deg1 t2 nk2 deg2 c z0 0 1) with
      | .ok σ => Out.ret σ | .done o => o) = _
    rw [hrun]
  · obtain ⟨σ', hrun, hz⟩ := i_loop_eq U F (isI9 U F) (isJ10 U F) (isK11 U F) (isL12 U F) true false s1 s2 (kD1_spec U F) (kV2_spec U F) Xlen 0
      (st0 U X Xlen Y Ylen t1 nk1 deg1 t2 nk2 deg2 c z0 1 0) rfl rfl hfs1 hfs2
    refine ⟨σ', ?_, box_of_loop hz⟩
    show (match nu_eval_spline_2d_cross_loop9 U F Xlen 0 (st0 U X Xlen Y Ylen t1 nk1 deg1 t2 nk2 deg2 c z0 1 0) with
      | .ok σ => Out.ret σ | .done o => o) = _
    rw [hrun]
  · obtain ⟨σ', hrun, hz⟩ := i_loop_eq U F (isI13 U F) (isJ14 U F) (isK15 U F) (isL16 U F) true true s1 s2 (kD1_spec U F) (kD2_spec U F) Xlen 0
      (st0 U X Xlen Y Ylen t1 nk1 deg1 t2 nk2 deg2 c z0 1 1) rfl rfl hfs1 hfs2
    refine ⟨σ', ?_, box_of_loop hz⟩
    show (match nu_eval_spline_2d_cross_loop13 U F Xlen 0 (st0 U X Xlen Y Ylen t1 nk1 deg1 t2 nk2 deg2 c z0 1 1) with
      | .ok σ => Out.ret σ | .done o => o) = _
    rw [hrun]

/-- **… which is, entry by entry, what the generated `nu_eval_spline_2d_scalar` returns at `(X[a], Y[b])`** (the duplication of the scalar kernel inside the
    double loop is faithful, the shared work arrays and the re-use of `basis1` / `span1` along a row included); nothing outside the box is written -/
theorem gen_nu_cross_eq_scalar (X : ℕ → ℚ) (Xlen : ℕ) (Y : ℕ → ℚ) (Ylen : ℕ) (t1 : ℕ → ℚ) (nk1 deg1 : ℕ) (t2 : ℕ → ℚ) (nk2 deg2 : ℕ) (c z0 : ℕ → ℕ → ℚ)
    (der1 der2 : Bool) (s1 s2 : ℕ → ℕ)
    (h1 : ∀ a, a < Xlen → findSpan t1 nk1 deg1 (X a) = some (s1 a) ∧ deg1 ≤ s1 a)
    (h2 : ∀ b, b < Ylen → findSpan t2 nk2 deg2 (Y b) = some (s2 b) ∧ deg2 ≤ s2 b)
    (hF1 : (nk1 - 1 - deg1) - deg1 + 1 ≤ F) (hF2 : (nk2 - 1 - deg2) - deg2 + 1 ≤ F) :
    ∃ σ', run U F X Xlen Y Ylen t1 nk1 deg1 t2 nk2 deg2 c z0 (if der1 then 1 else 0) (if der2 then 1 else 0) = .ret σ' ∧
      (∀ a b, a < Xlen → b < Ylen → ∃ σs, PygyroVerif.Gen.Eval2DNu.nu_eval_spline_2d_scalar_.run U F (X a) (Y b) t1 nk1 deg1 t2 nk2 deg2 c
        (if der1 then 1 else 0) (if der2 then 1 else 0) = .ret σs ∧ σ'.z a b = σs.ret_) ∧
      (∀ a b, ¬ (a < Xlen ∧ b < Ylen) → σ'.z a b = z0 a b) := by
  obtain ⟨σ', hrun, hz⟩ := gen_nu_cross_eq U F X Xlen Y Ylen t1 nk1 deg1 t2 nk2 deg2 c z0 der1 der2 s1 s2 h1 h2 hF1 hF2
  refine ⟨σ', hrun, fun a b ha hb => ?_, fun a b h => by rw [hz a b, if_neg h]⟩
  obtain ⟨σs, hs, hret⟩ := gen_eval_spline_2d_eq U F t1 nk1 deg1 t2 nk2 deg2 c (X a) (Y b) der1 der2 (s1 a) (s2 b) (h1 a ha).1 (h2 b hb).1
    (h1 a ha).2 (h2 b hb).2 hF1 hF2
  exact ⟨σs, hs, by rw [hz a b, if_pos ⟨ha, hb⟩, hret]; rfl⟩

/-- the same, against `BSpline.evalSpline2D` (the 2-D model the theorems of Props/C07.lean are about) -/
theorem gen_nu_cross_model (X : ℕ → ℚ) (Xlen : ℕ) (Y : ℕ → ℚ) (Ylen : ℕ) (t1 : ℕ → ℚ) (nk1 deg1 : ℕ) (t2 : ℕ → ℚ) (nk2 deg2 : ℕ) (c z0 : ℕ → ℕ → ℚ)
    (der1 der2 : Bool) (s1 s2 : ℕ → ℕ)
    (h1 : ∀ a, a < Xlen → findSpan t1 nk1 deg1 (X a) = some (s1 a) ∧ deg1 ≤ s1 a)
    (h2 : ∀ b, b < Ylen → findSpan t2 nk2 deg2 (Y b) = some (s2 b) ∧ deg2 ≤ s2 b)
    (hF1 : (nk1 - 1 - deg1) - deg1 + 1 ≤ F) (hF2 : (nk2 - 1 - deg2) - deg2 + 1 ≤ F) :
    ∃ σ', run U F X Xlen Y Ylen t1 nk1 deg1 t2 nk2 deg2 c z0 (if der1 then 1 else 0) (if der2 then 1 else 0) = .ret σ' ∧
      (∀ a b, a < Xlen → b < Ylen → evalSpline2D t1 nk1 deg1 t2 nk2 deg2 c (X a) (Y b) der1 der2 = some (σ'.z a b)) ∧
      (∀ a b, ¬ (a < Xlen ∧ b < Ylen) → σ'.z a b = z0 a b) := by
  obtain ⟨σ', hrun, hz⟩ := gen_nu_cross_eq U F X Xlen Y Ylen t1 nk1 deg1 t2 nk2 deg2 c z0 der1 der2 s1 s2 h1 h2 hF1 hF2
  refine ⟨σ', hrun, fun a b ha hb => ?_, fun a b h => by rw [hz a b, if_neg h]⟩
  rw [C07.entrypoints t1 nk1 deg1 t2 nk2 deg2 c (X a) (Y b) der1 der2 (s1 a) (s2 b) (h1 a ha).1 (h2 b hb).1, hz a b, if_pos ⟨ha, hb⟩]
  rfl

/-- **on sorted knots with non-degenerate domains the SOURCE's cross evaluation terminates and fills the table with the model's values**:
    `z[a, b] = evalSpline2D … X[a] Y[b]` for `a < len(X)`, `b < len(Y)`, value or first derivative in each direction; the rest of `z` is untouched -/
theorem gen_nu_cross_total (X : ℕ → ℚ) (Xlen : ℕ) (Y : ℕ → ℚ) (Ylen : ℕ) (t1 : ℕ → ℚ) (ht1 : Monotone t1) (nk1 deg1 : ℕ) (t2 : ℕ → ℚ) (ht2 : Monotone t2)
    (nk2 deg2 : ℕ) (c z0 : ℕ → ℕ → ℚ) (der1 der2 : Bool) (hd1 : t1 deg1 < t1 (nk1 - 1 - deg1)) (hd2 : t2 deg2 < t2 (nk2 - 1 - deg2))
    (hF1 : (nk1 - 1 - deg1) - deg1 + 1 ≤ F) (hF2 : (nk2 - 1 - deg2) - deg2 + 1 ≤ F) :
    ∃ σ', run U F X Xlen Y Ylen t1 nk1 deg1 t2 nk2 deg2 c z0 (if der1 then 1 else 0) (if der2 then 1 else 0) = .ret σ' ∧
      (∀ a b, a < Xlen → b < Ylen → evalSpline2D t1 nk1 deg1 t2 nk2 deg2 c (X a) (Y b) der1 der2 = some (σ'.z a b)) ∧
      (∀ a b, ¬ (a < Xlen ∧ b < Ylen) → σ'.z a b = z0 a b) := by
  refine gen_nu_cross_model U F X Xlen Y Ylen t1 nk1 deg1 t2 nk2 deg2 c z0 der1 der2
    (fun a => (findSpan t1 nk1 deg1 (X a)).getD 0) (fun b => (findSpan t2 nk2 deg2 (Y b)).getD 0) (fun a _ => ?_) (fun b _ => ?_) hF1 hF2
  · obtain ⟨s, hs, hd, -⟩ := C07.findSpan_some_correct t1 ht1 nk1 deg1 (X a) hd1
    rw [hs]; exact ⟨rfl, hd⟩
  · obtain ⟨s, hs, hd, -⟩ := C07.findSpan_some_correct t2 ht2 nk2 deg2 (Y b) hd2
    rw [hs]; exact ⟨rfl, hd⟩

/-- for `(der1, der2)` outside `{0, 1}²` no branch of the source applies: the call returns and `z` is what it was (the scalar function sums
    uninitialised memory there — an observation outside the property) -/
theorem gen_nu_cross_other_der (X : ℕ → ℚ) (Xlen : ℕ) (Y : ℕ → ℚ) (Ylen : ℕ) (t1 : ℕ → ℚ) (nk1 deg1 : ℕ) (t2 : ℕ → ℚ) (nk2 deg2 : ℕ) (c z0 : ℕ → ℕ → ℚ)
    (der1 der2 : ℕ) (h : 2 ≤ der1 ∨ 2 ≤ der2) :
    ∃ σ', run U F X Xlen Y Ylen t1 nk1 deg1 t2 nk2 deg2 c z0 der1 der2 = .ret σ' ∧ σ'.z = z0 := by
  refine ⟨st0 U X Xlen Y Ylen t1 nk1 deg1 t2 nk2 deg2 c z0 der1 der2, ?_, rfl⟩
  unfold run
  simp only
  rw [if_neg (by omega), if_neg (by omega), if_neg (by omega), if_neg (by omega)]
  rfl


/-! concrete instance (the data of Props/C07Gen5.lean): direction 1 = degree 3 on the clamped non-uniform knots `0,0,0,0,1,2,4,4,4,4`, `X = [5/2, 1/2, 4]` (the last
    one is the right end point; a fourth entry must not be read); direction 2 = degree 2 on `0,0,0,1,3,3,3`, `Y = [2, 1/4]`; the 6×4 coefficient array `cCoeffs2`;
    uninitialised memory holds 7, `z` holds 9 before the call -/
def cX : ℕ → ℚ := fun k => ([5 / 2, 1 / 2, 4, 1000] : List ℚ).getD k 0
def cY : ℕ → ℚ := fun k => ([2, 1 / 4, 1000] : List ℚ).getD k 0

example (c z0 : ℕ → ℕ → ℚ) (X Y : ℕ → ℚ) (der1 der2 : Bool) : ∃ σ', run (fun _ => 7) 5 X 3 Y 2 C07Gen2.qKnots 10 3 kts2 7 2 c z0
      (if der1 then 1 else 0) (if der2 then 1 else 0) = .ret σ' ∧
    (∀ a b, a < 3 → b < 2 → evalSpline2D C07Gen2.qKnots 10 3 kts2 7 2 c (X a) (Y b) der1 der2 = some (σ'.z a b)) ∧
    (∀ a b, ¬ (a < 3 ∧ b < 2) → σ'.z a b = z0 a b) :=
  gen_nu_cross_total (fun _ => 7) 5 X 3 Y 2 C07Gen2.qKnots C07Gen2.qKnots_mono 10 3 kts2 kts2_mono 7 2 c z0 der1 der2
    (by norm_num [C07Gen2.qKnots]) (by norm_num [kts2]) (by norm_num) (by norm_num)
/-- the generated code itself, evaluated on rows 0..3 / columns 0..2 (row 3 and column 2 are outside the loops) for the four (der1, der2); the same numbers
    (as floats) are what `nu_eval_spline_2d_cross` of /repo leaves in `z` on these inputs -/
example : ([(0, 0), (0, 1), (1, 0), (1, 1)].map fun d : ℕ × ℕ =>
      match run (fun _ => 7) 5 cX 3 cY 2 C07Gen2.cKnots 10 3 kts2 7 2 cCoeffs2 (fun _ _ => 9) d.1 d.2 with
      | .ret σ => (List.range 4).map (fun a => (List.range 3).map (σ.z a)) | _ => []) =
    [[[7 / 12, 715 / 768, 9], [155 / 96, 1067 / 1536, 9], [-1 / 6, 25 / 48, 9], [9, 9, 9]],
     [[-5 / 48, -113 / 96, 9], [-37 / 96, 425 / 192, 9], [7 / 3, -11 / 6, 9], [9, 9, 9]],
     [[7 / 8, 1 / 128, 9], [-55 / 16, 443 / 256, 9], [-5 / 2, -19 / 16, 9], [9, 9, 9]],
     [[7 / 8, -47 / 16, 9], [-25 / 16, 41 / 32, 9], [2, 11 / 2, 9], [9, 9, 9]]] := by decide +kernel
/-- … and inside the box it is, entry by entry, what the generated SCALAR kernel returns at the six nodes -/
example : ([(0, 0), (0, 1), (1, 0), (1, 1)].map fun d : ℕ × ℕ =>
      match run (fun _ => 7) 5 cX 3 cY 2 C07Gen2.cKnots 10 3 kts2 7 2 cCoeffs2 (fun _ _ => 9) d.1 d.2 with
      | .ret σ => (List.range 3).map (fun a => (List.range 2).map (σ.z a)) | _ => []) =
    ([(0, 0), (0, 1), (1, 0), (1, 1)].map fun d : ℕ × ℕ => (List.range 3).map fun a => (List.range 2).map fun b =>
      match PygyroVerif.Gen.Eval2DNu.nu_eval_spline_2d_scalar_.run (fun _ => 7) 5 (cX a) (cY b) C07Gen2.cKnots 10 3 kts2 7 2 cCoeffs2 d.1 d.2 with
      | .ret τ => τ.ret_ | _ => 0) := by decide +kernel
/-- the guard `deg ≤ span` (numpy's shape check): a span below the degree (forced with the 5-knot array `0,1,2,3,4`, degree 2, `x = 5`: span `high - 1` = 1)
    makes the slice shorter than `theCoeffs`: the generated function raises ValueError, as the real function does on these inputs -/
example : (match run (fun _ => 7) 5 (fun _ => 5) 1 cY 1 (fun i => (i : ℚ)) 5 2 kts2 7 2 cCoeffs2 (fun _ _ => 9) 0 0 with
    | .raised e => e | _ => "") = "ValueError" := by decide +kernel

end Nu

/-! ## `cu_eval_spline_2d_cross` -/
section Cu
open PygyroVerif.CubicUniform PygyroVerif.Gen.CubicUniform PygyroVerif.Gen.Cross2DCu
open PygyroVerif.Gen.Cross2DCu.cu_eval_spline_2d_cross_

variable (U : ℕ → ℚ) (F : ℕ)

/-- the four kernel calls of the source, as functions of the locals -/
def cV1 : St → Out cu_basis_funs_.St := fun σ => cu_basis_funs_.run U F σ.span1 σ.offset1 σ.basis1 σ.basis1_len
def cD1 : St → Out cu_basis_funs_1st_der_.St := fun σ => cu_basis_funs_1st_der_.run U F σ.span1 σ.offset1 σ.dx σ.basis1 σ.basis1_len
def cV2 : St → Out cu_basis_funs_.St := fun σ => cu_basis_funs_.run U F σ.span2 σ.offset2 σ.basis2 σ.basis2_len
def cD2 : St → Out cu_basis_funs_1st_der_.St := fun σ => cu_basis_funs_1st_der_.run U F σ.span2 σ.offset2 σ.dy σ.basis2 σ.basis2_len
def cgV : cu_basis_funs_.St → ℕ → ℚ := fun τ => τ.values
def cgD : cu_basis_funs_1st_der_.St → ℕ → ℚ := fun τ => τ.ders

theorem cV1_spec (σ' : St) : ∃ β, cV1 U F σ' = .ret β ∧ (List.range 4).map (cgV β) = cuBasisOrDer σ'.offset1 σ'.dx false := by
  obtain ⟨β, hβ, hv, -⟩ := C07Gen3.gen_cu_basis_funs_eq U F σ'.span1 σ'.offset1 σ'.basis1 σ'.basis1_len
  exact ⟨β, hβ, hv⟩
theorem cD1_spec (σ' : St) : ∃ β, cD1 U F σ' = .ret β ∧ (List.range 4).map (cgD β) = cuBasisOrDer σ'.offset1 σ'.dx true := by
  obtain ⟨β, hβ, hv, -⟩ := C07Gen3.gen_cu_basis_funs_1st_der_eq U F σ'.span1 σ'.offset1 σ'.dx σ'.basis1 σ'.basis1_len
  exact ⟨β, hβ, hv⟩
theorem cV2_spec (σ' : St) : ∃ β, cV2 U F σ' = .ret β ∧ (List.range 4).map (cgV β) = cuBasisOrDer σ'.offset2 σ'.dy false := by
  obtain ⟨β, hβ, hv, -⟩ := C07Gen3.gen_cu_basis_funs_eq U F σ'.span2 σ'.offset2 σ'.basis2 σ'.basis2_len
  exact ⟨β, hβ, hv⟩
theorem cD2_spec (σ' : St) : ∃ β, cD2 U F σ' = .ret β ∧ (List.range 4).map (cgD β) = cuBasisOrDer σ'.offset2 σ'.dy true := by
  obtain ⟨β, hβ, hv, -⟩ := C07Gen3.gen_cu_basis_funs_1st_der_eq U F σ'.span2 σ'.offset2 σ'.dy σ'.basis2 σ'.basis2_len
  exact ⟨β, hβ, hv⟩

local macro "loop_inst_cu" l:ident : tactic =>
  `(tactic| (refine ⟨fun _ _ => rfl, ?_⟩; intros; rw [$l:ident]; simp only [cV1, cD1, cV2, cD2, cgV, cgD] at *; simp only [*, and_self, ↓reduceIte]))

/-! the sixteen generated loops satisfy the equations of Lemmas/Cross2DGen.lean -/
theorem isLC4 : IsLC (cu_eval_spline_2d_cross_loop4 U F) := ⟨fun _ _ => rfl, fun _ _ _ => rfl⟩
theorem isKC3 : IsKC (cu_eval_spline_2d_cross_loop3 U F) (cu_eval_spline_2d_cross_loop4 U F) := ⟨fun _ _ => rfl, fun _ _ _ => rfl⟩
theorem isJC2 : IsJC U F (cV2 U F) cgV (cu_eval_spline_2d_cross_loop2 U F) (cu_eval_spline_2d_cross_loop3 U F) := by
  loop_inst_cu cu_eval_spline_2d_cross_loop2
theorem isIC1 : IsIC U F (cV1 U F) cgV (cu_eval_spline_2d_cross_loop1 U F) (cu_eval_spline_2d_cross_loop2 U F) := by
  loop_inst_cu cu_eval_spline_2d_cross_loop1
theorem isLC8 : IsLC (cu_eval_spline_2d_cross_loop8 U F) := ⟨fun _ _ => rfl, fun _ _ _ => rfl⟩
theorem isKC7 : IsKC (cu_eval_spline_2d_cross_loop7 U F) (cu_eval_spline_2d_cross_loop8 U F) := ⟨fun _ _ => rfl, fun _ _ _ => rfl⟩
theorem isJC6 : IsJC U F (cD2 U F) cgD (cu_eval_spline_2d_cross_loop6 U F) (cu_eval_spline_2d_cross_loop7 U F) := by
  loop_inst_cu cu_eval_spline_2d_cross_loop6
theorem isIC5 : IsIC U F (cV1 U F) cgV (cu_eval_spline_2d_cross_loop5 U F) (cu_eval_spline_2d_cross_loop6 U F) := by
  loop_inst_cu cu_eval_spline_2d_cross_loop5
theorem isLC12 : IsLC (cu_eval_spline_2d_cross_loop12 U F) := ⟨fun _ _ => rfl, fun _ _ _ => rfl⟩
theorem isKC11 : IsKC (cu_eval_spline_2d_cross_loop11 U F) (cu_eval_spline_2d_cross_loop12 U F) := ⟨fun _ _ => rfl, fun _ _ _ => rfl⟩
theorem isJC10 : IsJC U F (cV2 U F) cgV (cu_eval_spline_2d_cross_loop10 U F) (cu_eval_spline_2d_cross_loop11 U F) := by
  loop_inst_cu cu_eval_spline_2d_cross_loop10
theorem isIC9 : IsIC U F (cD1 U F) cgD (cu_eval_spline_2d_cross_loop9 U F) (cu_eval_spline_2d_cross_loop10 U F) := by
  loop_inst_cu cu_eval_spline_2d_cross_loop9
theorem isLC16 : IsLC (cu_eval_spline_2d_cross_loop16 U F) := ⟨fun _ _ => rfl, fun _ _ _ => rfl⟩
theorem isKC15 : IsKC (cu_eval_spline_2d_cross_loop15 U F) (cu_eval_spline_2d_cross_loop16 U F) := ⟨fun _ _ => rfl, fun _ _ _ => rfl⟩
theorem isJC14 : IsJC U F (cD2 U F) cgD (cu_eval_spline_2d_cross_loop14 U F) (cu_eval_spline_2d_cross_loop15 U F) := by
  loop_inst_cu cu_eval_spline_2d_cross_loop14
theorem isIC13 : IsIC U F (cD1 U F) cgD (cu_eval_spline_2d_cross_loop13 U F) (cu_eval_spline_2d_cross_loop14 U F) := by
  loop_inst_cu cu_eval_spline_2d_cross_loop13

/-- the locals of `cu_eval_spline_2d_cross` when the loops start (`deg1 = deg2 = 3`) -/
def st0C (X : ℕ → ℚ) (Xlen : ℕ) (Y : ℕ → ℚ) (Ylen : ℕ) (kts1 : ℕ → ℚ) (klen1 : ℕ) (kts2 : ℕ → ℚ) (klen2 : ℕ) (c z0 : ℕ → ℕ → ℚ) (d1 d2 : ℤ) : St :=
  { X := X, X_len := Xlen, Y := Y, Y_len := Ylen, kts1 := kts1, kts1_len := klen1, deg1 := 3, kts2 := kts2, kts2_len := klen2, deg2 := 3,
    coeffs := c, z := z0, der1 := d1, der2 := d2,
    xmin := kts1 0, xmax := kts1 1, dx := kts1 2, f_ncells_x := kts1 3, ncells_x := pyInt (kts1 3),
    ymin := kts2 0, ymax := kts2 1, dy := kts2 2, f_ncells_y := kts2 3, ncells_y := pyInt (kts2 3),
    basis1 := U, basis1_len := 4, basis2 := U, basis2_len := 4,
    theCoeffs := fun k_ l_ => U (k_ * 4 + l_), theCoeffs_len0 := 4, theCoeffs_len1 := 4 }

/-- **the generated `cu_eval_spline_2d_cross` fills the table with the model's values** `cuEvalSpline2D` (with `trunc := pyInt`; all four combinations of
    `der1`, `der2`), for all arrays `X`, `Y`, every pair of 4-arrays `[xmin, xmax, dx, ncells]`, every coefficient array, every content `U` of the uninitialised
    work arrays and every previous content `z0` of `z`; nothing outside `len(X) × len(Y)` is written.  Guard: `deg1 = deg2 = 3` (as for the scalar kernel:
    the source sizes the slice from the degrees but `theCoeffs` and the loops from the literal 4).  The corner of the block is `Int.toNat (span - 3)` in
    the translation and in the model alike; it is what PYTHON computes for `3 ≤ span` (no point left of the domain) — negative indices are not modelled -/
theorem gen_cu_cross_eq (X : ℕ → ℚ) (Xlen : ℕ) (Y : ℕ → ℚ) (Ylen : ℕ) (kts1 : ℕ → ℚ) (klen1 : ℕ) (kts2 : ℕ → ℚ) (klen2 : ℕ) (c z0 : ℕ → ℕ → ℚ)
    (der1 der2 : Bool) :
    ∃ σ', run U F X Xlen Y Ylen kts1 klen1 3 kts2 klen2 3 c z0 (if der1 then 1 else 0) (if der2 then 1 else 0) = .ret σ' ∧
      ∀ a b, σ'.z a b = if a < Xlen ∧ b < Ylen then
        cuEvalSpline2D pyInt (kts1 0) (kts1 2) (pyInt (kts1 3)) (kts2 0) (kts2 2) (pyInt (kts2 3)) c (X a) (Y b) der1 der2 else z0 a b := by
  have hm : ∀ (d1 d2 : ℤ) (a b : ℕ), nodeValC (st0C U X Xlen Y Ylen kts1 klen1 kts2 klen2 c z0 d1 d2) der1 der2 a b =
      cuEvalSpline2D pyInt (kts1 0) (kts1 2) (pyInt (kts1 3)) (kts2 0) (kts2 2) (pyInt (kts2 3)) c (X a) (Y b) der1 der2 := fun d1 d2 a b => by
    rw [cuEvalSpline2D_eq_blockSum]
    rfl
  have key : ∀ (d1 d2 : ℤ) (σ' : St), (∀ a b, σ'.z a b = if (0 ≤ a ∧ a < 0 + Xlen) ∧ b < Ylen then
        nodeValC (st0C U X Xlen Y Ylen kts1 klen1 kts2 klen2 c z0 d1 d2) der1 der2 a b else z0 a b) →
      ∀ a b, σ'.z a b = if a < Xlen ∧ b < Ylen then
        cuEvalSpline2D pyInt (kts1 0) (kts1 2) (pyInt (kts1 3)) (kts2 0) (kts2 2) (pyInt (kts2 3)) c (X a) (Y b) der1 der2 else z0 a b :=
    fun d1 d2 σ' hz a b => by rw [box_of_loop hz a b, hm]
  cases der1 <;> cases der2
  · obtain ⟨σ', hrun, hz⟩ := i_loop_eq_cu U F (isIC1 U F) (isJC2 U F) (isKC3 U F) (isLC4 U F) false false (cV1_spec U F) (cV2_spec U F) Xlen 0
      (st0C U X Xlen Y Ylen kts1 klen1 kts2 klen2 c z0 0 0) rfl rfl rfl rfl
    refine ⟨σ', ?_, key _ _ σ' hz⟩
    show (match cu_eval_spline_2d_cross_loop1 U F Xlen 0 (st0C U X Xlen Y Ylen kts1 klen1 kts2 klen2 c z0 0 0) with
      | .ok σ => Out.ret σ | .done o => o) = _
    rw [hrun]
  · obtain ⟨σ', hrun, hz⟩ := i_loop_eq_cu U F (isIC5 U F) (isJC6 U F) (isKC7 U F) (isLC8 U F) false true (cV1_spec U F) (cD2_spec U F) Xlen 0
      (st0C U X Xlen Y Ylen kts1 klen1 kts2 klen2 c z0 0 1) rfl rfl rfl rfl
    refine ⟨σ', ?_, key _ _ σ' hz⟩
    show (match cu_eval_spline_2d_cross_loop5 U F Xlen 0 (st0C U X Xlen Y Ylen kts1 klen1 kts2 klen2 c z0 0 1) with
      | .ok σ => Out.ret σ | .done o => o) = _
    rw [hrun]
  · obtain ⟨σ', hrun, hz⟩ := i_loop_eq_cu U F (isIC9 U F) (isJC10 U F) (isKC11 U F) (isLC12 U F) true false (cD1_spec U F) (cV2_spec U F) Xlen 0
      (st0C U X Xlen Y Ylen kts1 klen1 kts2 klen2 c z0 1 0) rfl rfl rfl rfl
    refine ⟨σ', ?_, key _ _ σ' hz⟩
    show (match cu_eval_spline_2d_cross_loop9 U F Xlen 0 (st0C U X Xlen Y Ylen kts1 klen1 kts2 klen2 c z0 1 0) with
      | .ok σ => Out.ret σ | .done o => o) = _
    rw [hrun]
  · obtain ⟨σ', hrun, hz⟩ := i_loop_eq_cu U F (isIC13 U F) (isJC14 U F) (isKC15 U F) (isLC16 U F) true true (cD1_spec U F) (cD2_spec U F) Xlen 0
      (st0C U X Xlen Y Ylen kts1 klen1 kts2 klen2 c z0 1 1) rfl rfl rfl rfl
    refine ⟨σ', ?_, key _ _ σ' hz⟩
    show (match cu_eval_spline_2d_cross_loop13 U F Xlen 0 (st0C U X Xlen Y Ylen kts1 klen1 kts2 klen2 c z0 1 1) with
      | .ok σ => Out.ret σ | .done o => o) = _
    rw [hrun]

/-- **… which is, entry by entry, what the generated `cu_eval_spline_2d_scalar` returns at `(X[a], Y[b])`**; nothing outside the box is written -/
theorem gen_cu_cross_eq_scalar (X : ℕ → ℚ) (Xlen : ℕ) (Y : ℕ → ℚ) (Ylen : ℕ) (kts1 : ℕ → ℚ) (klen1 : ℕ) (kts2 : ℕ → ℚ) (klen2 : ℕ) (c z0 : ℕ → ℕ → ℚ)
    (der1 der2 : Bool) :
    ∃ σ', run U F X Xlen Y Ylen kts1 klen1 3 kts2 klen2 3 c z0 (if der1 then 1 else 0) (if der2 then 1 else 0) = .ret σ' ∧
      (∀ a b, a < Xlen → b < Ylen → ∃ σs, PygyroVerif.Gen.Eval2DCu.cu_eval_spline_2d_scalar_.run U F (X a) (Y b) kts1 klen1 3 kts2 klen2 3 c
        (if der1 then 1 else 0) (if der2 then 1 else 0) = .ret σs ∧ σ'.z a b = σs.ret_) ∧
      (∀ a b, ¬ (a < Xlen ∧ b < Ylen) → σ'.z a b = z0 a b) := by
  obtain ⟨σ', hrun, hz⟩ := gen_cu_cross_eq U F X Xlen Y Ylen kts1 klen1 kts2 klen2 c z0 der1 der2
  refine ⟨σ', hrun, fun a b ha hb => ?_, fun a b h => by rw [hz a b, if_neg h]⟩
  obtain ⟨σs, hs, hret⟩ := gen_cu_eval_spline_2d_eq U F (X a) (Y b) kts1 klen1 kts2 klen2 c der1 der2
  exact ⟨σs, hs, by rw [hz a b, if_pos ⟨ha, hb⟩, hret]⟩

/-- **on the closed domain the SOURCE's uniform-cubic cross evaluation fills the table with the values of the general path**: for 4-arrays
    `[xmin, xmax, dx, ncells]` with `dx, dy > 0`, at least one cell, and all points of `X`, `Y` in the closed intervals, `z[a, b]` is `evalSpline2D` on the
    uniform knot vectors at `(X[a], Y[b])` (the model `gen_nu_cross_model` ties `nu_eval_spline_2d_cross` to) -/
theorem gen_cu_cross_general_path (X : ℕ → ℚ) (Xlen : ℕ) (Y : ℕ → ℚ) (Ylen : ℕ) (kts1 : ℕ → ℚ) (klen1 : ℕ) (kts2 : ℕ → ℚ) (klen2 : ℕ) (c z0 : ℕ → ℕ → ℚ)
    (der1 der2 : Bool) (ncx ncy : ℕ) (hkx : kts1 3 = (ncx : ℚ)) (hky : kts2 3 = (ncy : ℚ)) (hdx : 0 < kts1 2) (hdy : 0 < kts2 2)
    (hnx : 1 ≤ ncx) (hny : 1 ≤ ncy) (hX : ∀ a, a < Xlen → kts1 0 ≤ X a ∧ X a ≤ kts1 0 + (ncx : ℚ) * kts1 2)
    (hY : ∀ b, b < Ylen → kts2 0 ≤ Y b ∧ Y b ≤ kts2 0 + (ncy : ℚ) * kts2 2) :
    ∃ σ', run U F X Xlen Y Ylen kts1 klen1 3 kts2 klen2 3 c z0 (if der1 then 1 else 0) (if der2 then 1 else 0) = .ret σ' ∧
      (∀ a b, a < Xlen → b < Ylen → evalSpline2D (uniformKnots (kts1 0) (kts1 2)) (ncx + 7) 3 (uniformKnots (kts2 0) (kts2 2)) (ncy + 7) 3 c
        (X a) (Y b) der1 der2 = some (σ'.z a b)) ∧
      (∀ a b, ¬ (a < Xlen ∧ b < Ylen) → σ'.z a b = z0 a b) := by
  obtain ⟨σ', hrun, hz⟩ := gen_cu_cross_eq U F X Xlen Y Ylen kts1 klen1 kts2 klen2 c z0 der1 der2
  refine ⟨σ', hrun, fun a b ha hb => ?_, fun a b h => by rw [hz a b, if_neg h]⟩
  rw [hz a b, if_pos ⟨ha, hb⟩, hkx, hky, C07Gen3.pyInt_natCast, C07Gen3.pyInt_natCast]
  exact C07.cubic_path_eq_general_path_2d pyInt C07Gen3.pyInt_spec (kts1 0) (kts1 2) (X a) hdx ncx hnx (hX a ha).1 (hX a ha).2 (kts2 0) (kts2 2) (Y b) hdy
    ncy hny (hY b hb).1 (hY b hb).2 c der1 der2

/-- for `(der1, der2)` outside `{0, 1}²` no branch of the source applies: the call returns and `z` is what it was -/
theorem gen_cu_cross_other_der (X : ℕ → ℚ) (Xlen : ℕ) (Y : ℕ → ℚ) (Ylen : ℕ) (kts1 : ℕ → ℚ) (klen1 : ℕ) (deg1 : ℤ) (kts2 : ℕ → ℚ) (klen2 : ℕ) (deg2 : ℤ)
    (c z0 : ℕ → ℕ → ℚ) (der1 der2 : ℤ) (h : ¬ ((der1 = 0 ∨ der1 = 1) ∧ (der2 = 0 ∨ der2 = 1))) :
    ∃ σ', run U F X Xlen Y Ylen kts1 klen1 deg1 kts2 klen2 deg2 c z0 der1 der2 = .ret σ' ∧ σ'.z = z0 := by
  refine ⟨{ st0C U X Xlen Y Ylen kts1 klen1 kts2 klen2 c z0 der1 der2 with deg1 := deg1, deg2 := deg2 }, ?_, rfl⟩
  unfold run
  simp only
  rw [if_neg (by omega), if_neg (by omega), if_neg (by omega), if_neg (by omega)]
  rfl


/-! concrete instance (the data of Props/C07Gen5.lean): direction 1 = `[0, 2, 1/2, 4]` (four cells of width 1/2), `X = [5/4, 0, 2]` (both end points; a fourth entry must not
    be read); direction 2 = `[1, 7, 2, 3]`, `Y = [7, 3/2]`; the 7×6 coefficient array `cuCoeffs2`; uninitialised memory holds 7, `z` holds 9 before the call -/
def cuX : ℕ → ℚ := fun k => ([5 / 4, 0, 2, 1000] : List ℚ).getD k 0
def cuY : ℕ → ℚ := fun k => ([7, 3 / 2, 1000] : List ℚ).getD k 0

example (der1 der2 : Bool) (X Y : ℕ → ℚ) (z0 : ℕ → ℕ → ℚ) (hX : ∀ a, a < 3 → 0 ≤ X a ∧ X a ≤ 2) (hY : ∀ b, b < 2 → 1 ≤ Y b ∧ Y b ≤ 7) :
    ∃ σ', run (fun _ => 7) 0 X 3 Y 2 C07Gen3.cKnots 4 3 cuKts2 4 3 cuCoeffs2 z0 (if der1 then 1 else 0) (if der2 then 1 else 0) = .ret σ' ∧
      (∀ a b, a < 3 → b < 2 → evalSpline2D (uniformKnots 0 (1 / 2)) (4 + 7) 3 (uniformKnots 1 2) (3 + 7) 3 cuCoeffs2 (X a) (Y b) der1 der2 = some (σ'.z a b)) ∧
      (∀ a b, ¬ (a < 3 ∧ b < 2) → σ'.z a b = z0 a b) := by
  have h := gen_cu_cross_general_path (fun _ => 7) 0 X 3 Y 2 C07Gen3.cKnots 4 cuKts2 4 cuCoeffs2 z0 der1 der2 4 3 (by norm_num [C07Gen3.cKnots])
    (by norm_num [cuKts2]) (by norm_num [C07Gen3.cKnots]) (by norm_num [cuKts2]) (by norm_num) (by norm_num)
    (fun a ha => by have := hX a ha; norm_num [C07Gen3.cKnots]; exact this)
    (fun b hb => by have := hY b hb; norm_num [cuKts2]; constructor <;> linarith)
  simpa [C07Gen3.cKnots, cuKts2] using h
/-- the generated code itself, evaluated on rows 0..3 / columns 0..2 (row 3 and column 2 are outside the loops) for the four (der1, der2); the same numbers
    (as floats) are what `cu_eval_spline_2d_cross` of /repo leaves in `z` on these inputs -/
example : ([(0, 0), (0, 1), (1, 0), (1, 1)].map fun d : ℤ × ℤ =>
      match run (fun _ => 7) 0 cuX 3 cuY 2 C07Gen3.cKnots 4 3 cuKts2 4 3 cuCoeffs2 (fun _ _ => 9) d.1 d.2 with
      | .ret σ => (List.range 4).map (fun a => (List.range 3).map (σ.z a)) | _ => []) =
    [[[851 / 36, 3541 / 288, 9], [-11 / 9, -77 / 144, 9], [401 / 9, 3743 / 144, 9], [9, 9, 9]],
     [[11 / 3, 11 / 24, 9], [1 / 3, -7 / 12, 9], [17 / 3, 13 / 12, 9], [9, 9, 9]],
     [[224 / 9, 1099 / 72, 9], [134 / 9, 379 / 72, 9], [278 / 9, 1531 / 72, 9], [9, 9, 9]],
     [[8 / 3, 5 / 6, 9], [8 / 3, 5 / 6, 9], [8 / 3, 5 / 6, 9], [9, 9, 9]]] := by decide +kernel
/-- … and inside the box it is, entry by entry, the model `cuEvalSpline2D` at the six nodes -/
example : ([(0, 0), (0, 1), (1, 0), (1, 1)].map fun d : ℤ × ℤ =>
      match run (fun _ => 7) 0 cuX 3 cuY 2 C07Gen3.cKnots 4 3 cuKts2 4 3 cuCoeffs2 (fun _ _ => 9) d.1 d.2 with
      | .ret σ => (List.range 3).map (fun a => (List.range 2).map (σ.z a)) | _ => []) =
    [(false, false), (false, true), (true, false), (true, true)].map fun d : Bool × Bool => (List.range 3).map fun a => (List.range 2).map fun b =>
      cuEvalSpline2D pyInt 0 (1 / 2) 4 1 2 3 cuCoeffs2 (cuX a) (cuY b) d.1 d.2 := by decide +kernel
/-- the guard `deg1 = deg2 = 3` (numpy's shape check): with `deg1 = 2` the slice has 3 rows, `theCoeffs` has 4: the generated function raises, as the real one does -/
example : (match run (fun _ => 7) 0 cuX 3 cuY 2 C07Gen3.cKnots 4 2 cuKts2 4 3 cuCoeffs2 (fun _ _ => 9) 0 0 with
    | .raised e => e | _ => "") = "ValueError" := by decide +kernel
/-- what is NOT modelled: a point more than one cell left of the domain (`x = -3/4`: `int(-1.5) = -1`, span 2) makes the lower slice bound negative; the real function
    raises ValueError there (numpy reads `coeffs[-1:3]` as an empty slice), the translation clips the bound at 0 and returns a number.  One cell left of the domain
    (`x = -1/4`: `int(-0.5) = 0`, span 3) both agree (-169/36) -/
example : (match run (fun _ => 7) 0 (fun _ => -1 / 4) 1 cuY 1 C07Gen3.cKnots 4 3 cuKts2 4 3 cuCoeffs2 (fun _ _ => 9) 0 0 with
    | .ret σ => σ.z 0 0 | _ => 0) = -169 / 36 := by decide +kernel

end Cu

end PygyroVerif.C07Gen6
