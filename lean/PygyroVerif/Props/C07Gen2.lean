/-
C07, tie by translation, part 2: the general (non-uniform) spline kernels.  `Generated/BasisFunsGen.lean` (`nu_basis_funs`) and
`Generated/EvalSplineGen.lean` (`nu_find_span`, `nu_basis_funs_1st_der`, `nu_eval_spline_1d_scalar`) are REGENERATED on every run of
`./check C07` from pygyro/splines/spline_eval_funcs.py (harness/translate_pure.py, targets `basisfuns` and `eval1d`: every `for` is a
structurally recursive function and every `while` a fuel-recursive one over the record of all locals, float arrays are functions
`ℕ → ℚ` updated functionally, `empty(n)` is an arbitrary function `U`, a call copies back the arrays the callee may write).

This file proves that the generated functions compute what the hand-written model (Model/BSpline.lean at K = ℚ: `basisFuns`,
`basisFunsDer`, `evalSpline1D`) computes: for ALL knot functions, degrees, points, spans, initial contents of the output array and
of uninitialised memory, and every fuel.  The theorems of Props/C07.lean about the model (partition of unity, Cox–de Boor,
derivative, …) therefore hold of what the source says now.  No guard such as `degree ≤ span` is needed: the model and the
translation read `knots[span-j]` with the same truncated subtraction (Python's negative indices and index bounds are outside the
translation, see the header of the generated files; inside `degree ≤ span ≤ len(knots)-degree-2` they do not arise).
The loop invariants are in Lemmas/BasisFunsGen.lean and Lemmas/EvalSplineGen.lean.
-/
import PygyroVerif.Lemmas.BasisFunsGen
import PygyroVerif.Lemmas.EvalSplineGen
import PygyroVerif.Props.C07

namespace PygyroVerif.C07Gen2
open PygyroVerif PygyroVerif.BSpline
open PygyroVerif.Gen.BasisFuns PygyroVerif.Gen.EvalSpline

/-! concrete instances: degree 3 on the clamped non-uniform knots `0,0,0,0,1,2,4,4,4,4`, `x = 5/2` (cell 5), coefficients
    `1,-2,3,5,-1,2`; uninitialised memory holds 7, the output arrays hold 9 before the call -/
def cKnots : ℕ → ℚ := fun i => ([0, 0, 0, 0, 1, 2, 4, 4, 4, 4] : List ℚ).getD i 0
def cCoeffs : ℕ → ℚ := fun i => ([1, -2, 3, 5, -1, 2] : List ℚ).getD i 0
/-- monotone non-uniform knots `i²/4` for the instance of `gen_eval_spline_1d_total` -/
def qKnots : ℕ → ℚ := fun i => (i : ℚ) * i / 4
theorem qKnots_mono : Monotone qKnots := fun a b h => by
  have h' : (a : ℚ) ≤ b := by exact_mod_cast h
  have ha : (0 : ℚ) ≤ a := Nat.cast_nonneg a
  unfold qKnots
  nlinarith

/-- **the generated `nu_basis_funs` computes the model's basis values**: the call returns, `values[0..degree]` is the list
    `basisFuns knots degree x span`, and no other entry of `values` is written — whatever `values` (`v0`), the uninitialised
    `left`/`right` (`U`) held before, for every knot function, degree, point and span -/
theorem gen_basis_funs_eq (U : ℕ → ℚ) (F : ℕ) (t : ℕ → ℚ) (nk degree : ℕ) (x : ℚ) (span : ℕ) (v0 : ℕ → ℚ) (vlen : ℕ) :
    ∃ σ', nu_basis_funs_.run U F t nk degree x span v0 vlen = .ret σ' ∧
      (List.range (degree + 1)).map σ'.values = basisFuns t degree x span ∧
      ∀ k, degree < k → σ'.values k = v0 k := by
  obtain ⟨σ', hrun, hval, hfr⟩ := BasisFunsGen.run_eq U F t nk degree x span v0 vlen
  refine ⟨σ', hrun, ?_, hfr⟩
  apply BasisFunsGen.list_ext_getD
  · rw [List.length_map, List.length_range, basisFuns_length]
  · intro k hk
    rw [List.length_map, List.length_range] at hk
    rw [getD_map_range', if_pos hk]
    exact hval k (by omega)

example : ∃ σ', nu_basis_funs_.run (fun _ => 7) 0 cKnots 10 3 (5 / 2) 5 (fun _ => 9) 4 = .ret σ' ∧
    (List.range (3 + 1)).map σ'.values = basisFuns cKnots 3 (5 / 2) 5 ∧ ∀ k, 3 < k → σ'.values k = 9 :=
  gen_basis_funs_eq (fun _ => 7) 0 cKnots 10 3 (5 / 2) 5 (fun _ => 9) 4
/-- what the generated code computes there (the values `nu_basis_funs` of /repo returns in floats: 0.140625, 0.515625, 0.328125, 0.015625) -/
example : (match nu_basis_funs_.run (fun _ => 7) 0 cKnots 10 3 (5 / 2) 5 (fun _ => 9) 4 with
    | .ret σ => (List.range 5).map σ.values | _ => []) = [9 / 64, 33 / 64, 21 / 64, 1 / 64, 9] := by decide +kernel

/-- **the generated `nu_basis_funs_1st_der` computes the model's derivative values** (`ders[0..degree]` is `basisFunsDer`, nothing
    else is written), for every degree (for degree 0 both sides give `[0]`), knot function, point, span, `ders` and `U` -/
theorem gen_basis_funs_1st_der_eq (U : ℕ → ℚ) (F : ℕ) (t : ℕ → ℚ) (nk degree : ℕ) (x : ℚ) (span : ℕ) (d0 : ℕ → ℚ) (dlen : ℕ) :
    ∃ σ', nu_basis_funs_1st_der_.run U F t nk degree x span d0 dlen = .ret σ' ∧
      (List.range (degree + 1)).map σ'.ders = basisFunsDer t degree x span ∧
      ∀ k, degree < k → σ'.ders k = d0 k := by
  obtain ⟨σ', hrun, hval, hfr⟩ := EvalSplineGen.der_run_eq U F t nk degree x span d0 dlen
  refine ⟨σ', hrun, ?_, hfr⟩
  apply BasisFunsGen.list_ext_getD
  · rw [List.length_map, List.length_range]
    simp [basisFunsDer]
  · intro k hk
    rw [List.length_map, List.length_range] at hk
    rw [getD_map_range', if_pos hk]
    exact hval k (by omega)

example : ∃ σ', nu_basis_funs_1st_der_.run (fun _ => 7) 0 cKnots 10 3 (5 / 2) 5 (fun _ => 9) 4 = .ret σ' ∧
    (List.range (3 + 1)).map σ'.ders = basisFunsDer cKnots 3 (5 / 2) 5 ∧ ∀ k, 3 < k → σ'.ders k = 9 :=
  gen_basis_funs_1st_der_eq (fun _ => 7) 0 cKnots 10 3 (5 / 2) 5 (fun _ => 9) 4
example : (match nu_basis_funs_1st_der_.run (fun _ => 7) 0 cKnots 10 3 (5 / 2) 5 (fun _ => 9) 4 with
    | .ret σ => (List.range 5).map σ.ders | _ => []) = [-9 / 32, -9 / 32, 15 / 32, 3 / 32, 9] := by decide +kernel

section eval
open PygyroVerif.Gen.EvalSpline.nu_eval_spline_1d_scalar_

/-- the part of `nu_eval_spline_1d_scalar` after the basis array has been filled: `y = 0.0`, the accumulation loop, `return y` -/
theorem eval_tail (U : ℕ → ℚ) (F : ℕ) (σ : St) (der : Bool)
    (hB : ∀ k, k ≤ σ.degree → σ.basis k = (basisOrDer σ.knots σ.degree σ.x σ.span der).getD k 0) :
    ∃ σ', (match nu_eval_spline_1d_scalar_loop1 U F (σ.degree + 1) 0 { σ with y := 0 } with
        | .ok σ => Out.ret { σ with ret_ := σ.y }
        | .done o => o) = .ret σ' ∧
      σ'.ret_ = dotFrom σ.coeffs (σ.span - σ.degree) (basisOrDer σ.knots σ.degree σ.x σ.span der) := by
  obtain ⟨Y, J, hrun, hY⟩ := EvalSplineGen.dot_loop_eq U F (σ.degree + 1) 0 { σ with y := 0 }
  refine ⟨{ σ with y := Y, j := J, ret_ := Y }, by rw [hrun], ?_⟩
  show Y = _
  rw [hY, dotFrom_eq_sum, basisOrDer_length]
  show 0 + _ = _
  rw [zero_add]
  congr 1
  apply List.map_congr_left
  intro k hk
  rw [List.mem_range] at hk
  show σ.coeffs (σ.span - σ.degree + (0 + k)) * σ.basis (0 + k) = _
  rw [Nat.zero_add, hB k (by omega)]

/-- **the generated `nu_eval_spline_1d_scalar` returns the model's value** (`der` = 0: the spline, `der` = 1: its first derivative):
    whenever the model's span search returns (it does for sorted knots, `gen_eval_spline_1d_total`), the generated function —
    span search, basis or derivative kernel, accumulation loop — returns `evalSpline1D`, for every fuel at least the model's own
    and every content `U` of the uninitialised `basis` / `values` / `left` / `right` arrays -/
theorem gen_eval_spline_1d_eq (U : ℕ → ℚ) (F : ℕ) (t : ℕ → ℚ) (nk degree : ℕ) (c : ℕ → ℚ) (clen : ℕ) (x : ℚ) (der : Bool) (y : ℚ)
    (h : evalSpline1D t nk degree c x der = some y) (hF : (nk - 1 - degree) - degree + 1 ≤ F) :
    ∃ σ', run U F x t nk degree c clen (if der then 1 else 0) = .ret σ' ∧ σ'.ret_ = y := by
  unfold evalSpline1D at h
  obtain ⟨span, hfs, rfl⟩ := Option.map_eq_some_iff.mp h
  obtain ⟨τ, hτ, hs⟩ := EvalSplineGen.fs_run_eq U t nk degree x span F hfs hF
  subst hs
  cases der with
  | false =>
    obtain ⟨β, hβ, hval, -⟩ := BasisFunsGen.run_eq U F t nk degree x τ.ret_ U (degree + 1)
    obtain ⟨σ', hrun, hret⟩ := eval_tail U F
      { x := x, knots := t, knots_len := nk, degree := degree, coeffs := c, coeffs_len := clen, der := 0, span := τ.ret_,
        basis := β.values, basis_len := degree + 1 } false hval
    refine ⟨σ', ?_, hret⟩
    show run U F x t nk degree c clen 0 = _
    unfold run
    simp only [hτ, hβ]
    exact hrun
  | true =>
    obtain ⟨β, hβ, hval, -⟩ := EvalSplineGen.der_run_eq U F t nk degree x τ.ret_ U (degree + 1)
    obtain ⟨σ', hrun, hret⟩ := eval_tail U F
      { x := x, knots := t, knots_len := nk, degree := degree, coeffs := c, coeffs_len := clen, der := 1, span := τ.ret_,
        basis := β.ders, basis_len := degree + 1 } true hval
    refine ⟨σ', ?_, hret⟩
    show run U F x t nk degree c clen 1 = _
    unfold run
    simp only [hτ, hβ]
    exact hrun

/-- the hypothesis of `gen_eval_spline_1d_eq` on the concrete instance: the model evaluates to 173/64 (value) and -81/32 (derivative) -/
theorem cEval_value : evalSpline1D cKnots 10 3 cCoeffs (5 / 2) false = some (173 / 64) := by decide +kernel
theorem cEval_der : evalSpline1D cKnots 10 3 cCoeffs (5 / 2) true = some (-81 / 32) := by decide +kernel
example : ∃ σ', run (fun _ => 7) 5 (5 / 2) cKnots 10 3 cCoeffs 6 0 = .ret σ' ∧ σ'.ret_ = 173 / 64 :=
  gen_eval_spline_1d_eq (fun _ => 7) 5 cKnots 10 3 cCoeffs 6 (5 / 2) false _ cEval_value (by norm_num)
example : ∃ σ', run (fun _ => 7) 5 (5 / 2) cKnots 10 3 cCoeffs 6 1 = .ret σ' ∧ σ'.ret_ = -81 / 32 :=
  gen_eval_spline_1d_eq (fun _ => 7) 5 cKnots 10 3 cCoeffs 6 (5 / 2) true _ cEval_der (by norm_num)
/-- the generated code itself, evaluated (floats of /repo: 2.703125 and -2.53125) -/
example : (match run (fun _ => 7) 5 (5 / 2) cKnots 10 3 cCoeffs 6 0, run (fun _ => 7) 5 (5 / 2) cKnots 10 3 cCoeffs 6 1 with
    | .ret σ, .ret σ' => [σ.ret_, σ'.ret_] | _, _ => []) = [173 / 64, -81 / 32] := by decide +kernel

/-- **on sorted knots with a non-degenerate domain the SOURCE's scalar evaluation terminates and returns the model's value** -/
theorem gen_eval_spline_1d_total (U : ℕ → ℚ) (F : ℕ) (t : ℕ → ℚ) (ht : Monotone t) (nk degree : ℕ) (c : ℕ → ℚ) (clen : ℕ) (x : ℚ)
    (der : Bool) (hdom : t degree < t (nk - 1 - degree)) (hF : (nk - 1 - degree) - degree + 1 ≤ F) :
    ∃ σ', run U F x t nk degree c clen (if der then 1 else 0) = .ret σ' ∧
      evalSpline1D t nk degree c x der = some σ'.ret_ := by
  obtain ⟨span, hfs, -⟩ := C07.findSpan_some_correct t ht nk degree x hdom
  have h : evalSpline1D t nk degree c x der = some (dotFrom c (span - degree) (basisOrDer t degree x span der)) := by
    unfold evalSpline1D
    rw [hfs]
    rfl
  obtain ⟨σ', hrun, hret⟩ := gen_eval_spline_1d_eq U F t nk degree c clen x der _ h hF
  exact ⟨σ', hrun, by rw [h, hret]⟩

example (c : ℕ → ℚ) (x : ℚ) : ∃ σ', run (fun _ => 7) 5 x qKnots 10 3 c 6 1 = .ret σ' ∧
    evalSpline1D qKnots 10 3 c x true = some σ'.ret_ :=
  gen_eval_spline_1d_total (fun _ => 7) 5 qKnots qKnots_mono 10 3 c 6 x true (by norm_num [qKnots]) (by norm_num)

end eval

end PygyroVerif.C07Gen2
