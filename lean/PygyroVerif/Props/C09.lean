/-
C09 — Spline quadrature weights integrate the interpolant exactly.
Property theorems only (helper lemmas: Lemmas/Interp.lean).  Model: Model/Interp.lean.

The transposed solve is a contract: the theorems quantify over every `w` with `Mᵀ w = basis_quads`.
"Integral" is algebraic: `Σ_k I_k c_k` with `I = BSplines.integrals` (one entry per *unwrapped* basis function) and `c` the
wrapped coefficient array; that `I_k` is the integral of the cell polynomials of `B_k` is `integrals_antiderivative_statement`
(not proved here; the check compares every model integral with exact piecewise integration in ℚ).
-/
import PygyroVerif.Model.Interp
import PygyroVerif.Lemmas.Interp
import Mathlib.Algebra.Order.Field.Rat
import Mathlib.Tactic.IntervalCases
import Mathlib.Algebra.Polynomial.Derivative
import Mathlib.Algebra.Polynomial.Eval.Defs

namespace PygyroVerif.C09
open PygyroVerif PygyroVerif.BSpline PygyroVerif.Interp Finset

set_option linter.unusedSectionVars false

variable {K : Type*} [Field K] [LinearOrder K]

/-! ### duality -/

/-- **quad_duality.** `Mᵀ w = I` and `M c = u` ⇒ `w·u = I·c`, for every data vector: applying the weights to the data is applying
    the basis integrals to the interpolation coefficients -/
theorem quad_duality (M : ℕ → ℕ → K) (n : ℕ) (w I c u : ℕ → K)
    (hw : ∀ j, j < n → matTVec M n w j = I j)
    (hc : ∀ i, i < n → matVec M n c i = u i) :
    dot n w u = dot n I c :=
  quad_duality' M n w I c u hw hc

/-- the instance `Interp.Inst` (degree 2, periodic, 3 cells): weights `1,1,1` solve `Mᵀ w = (1,1,1)`, hence `w·u = I·c` -/
example : dot 3 (fun _ => (1 : ℚ)) Inst.u = dot 3 (fun _ => (1 : ℚ)) Inst.sol := by
  refine quad_duality Inst.M 3 _ _ _ _ (fun j hj => ?_) (fun i hi => by simpa [Inst.hnb] using Inst.hsol i (by simpa [Inst.hnb] using hi))
  obtain ⟨a, b, c, d, e, f, g, h, k⟩ := Inst.hM_entries
  interval_cases j <;> simp [matTVec, sum_range_succ, *] <;> norm_num

/-- the fold `basis_quads[:p] += integrals[n:]` is the adjoint of the wrap `c[n:n+p] = c[0:p]`: the folded integrals applied to
    the solver's `n` coefficients equal the unfolded integrals applied to the `n+p` wrapped coefficients -/
theorem basisQuads_adjoint_of_wrap (n p : ℕ) (hpn : p ≤ n) (I sol c0 : ℕ → K) :
    dot n (basisQuads true n p I) sol = dot (n + p) I (computeInterpolant1D true n p sol c0) :=
  basisQuads_dot_eq n p hpn I sol c0

/-- **weights · data = Σ_k I_k c_k** for the coefficient array `compute_interpolant` stores (all `ncells+degree` entries, wrapped if
    periodic), for every data vector, every `sol` with `M sol = u` and every `w` with `Mᵀ w = basis_quads` -/
theorem quad_integrates_interpolant (periodic : Bool) (n p : ℕ) (hpn : periodic = true → p ≤ n) (M : ℕ → ℕ → K)
    (I w u sol c0 : ℕ → K)
    (hw : ∀ j, j < n → matTVec M n w j = basisQuads periodic n p I j)
    (hc : ∀ i, i < n → matVec M n sol i = u i) :
    dot n w u = dot (if periodic then n + p else n) I (computeInterpolant1D periodic n p sol c0) := by
  rw [quad_duality M n w _ sol u hw hc]
  cases periodic with
  | true => simpa using basisQuads_dot_eq n p (hpn rfl) I sol c0
  | false =>
    simp only [Bool.false_eq_true, if_false, dot]
    apply sum_congr rfl
    intro j hj
    simp [basisQuads, computeInterpolant1D, storeSolution, mem_range.mp hj]

example : dot 3 (basisQuads true 3 2 (fun k => ((k + 1 : ℕ) : ℚ))) (fun j => (j : ℚ)) =
    dot 5 (fun k => ((k + 1 : ℕ) : ℚ)) (computeInterpolant1D true 3 2 (fun j => (j : ℚ)) (fun _ => 0)) :=
  basisQuads_adjoint_of_wrap 3 2 (by decide) _ _ _

/-! ### sum of the weights -/

/-- **weights_sum_domain.** Hypotheses, explicitly: (1) `Mᵀ w = I` (contract of the transposed solve, `I` = folded integrals),
    (2) every row of `M` sums to one (partition of unity at the interpolation points), (3) the folded integrals sum to the
    domain length `L`.  Then the weights sum to `L` (duality with `u ≡ 1`, `c ≡ 1`). -/
theorem weights_sum_domain (M : ℕ → ℕ → K) (n : ℕ) (w I : ℕ → K) (L : K)
    (hw : ∀ j, j < n → matTVec M n w j = I j)
    (hrow : ∀ i, i < n → ∑ j ∈ range n, M i j = 1)
    (hI : ∑ j ∈ range n, I j = L) :
    ∑ i ∈ range n, w i = L :=
  weights_sum' M n w I L hw hrow hI

/-- hypothesis (2) holds for the model's collocation matrix of every admissible space with monotone knots and non-degenerate
    cells, at any interpolation points: rows sum to one (periodic columns folded) -/
theorem collocation_rows_sum_one [IsStrictOrderedRing K] (S : Space K) (hadm : S.Admissible) (ht : Monotone S.t)
    (hcell : ∀ s, S.degree ≤ s → s + S.degree + 2 ≤ S.nk → S.t s < S.t (s + 1))
    (xs : ℕ → K) (M : ℕ → ℕ → K) (hM : ∀ i, i < S.nbasis → collocationMatrix S xs i = some (M i)) :
    ∀ i, i < S.nbasis → ∑ j ∈ range S.nbasis, M i j = 1 :=
  fun i hi => collocRow_sum_one S hadm ht hcell (xs i) (M i) (hM i hi)

/-- `weights_sum_domain` with (2) discharged by the model -/
theorem weights_sum_domain_model [IsStrictOrderedRing K] (S : Space K) (hadm : S.Admissible) (ht : Monotone S.t)
    (hcell : ∀ s, S.degree ≤ s → s + S.degree + 2 ≤ S.nk → S.t s < S.t (s + 1))
    (xs : ℕ → K) (M : ℕ → ℕ → K) (hM : ∀ i, i < S.nbasis → collocationMatrix S xs i = some (M i))
    (w I : ℕ → K) (L : K)
    (hw : ∀ j, j < S.nbasis → matTVec M S.nbasis w j = basisQuads S.periodic S.nbasis S.degree I j)
    (hI : ∑ j ∈ range S.nbasis, basisQuads S.periodic S.nbasis S.degree I j = L) :
    ∑ i ∈ range S.nbasis, w i = L :=
  weights_sum_domain M S.nbasis w _ L hw (collocation_rows_sum_one S hadm ht hcell xs M hM) hI

/-- instance `Interp.Inst` (degree 2, periodic, 3 unit cells): monotone knots, non-degenerate cells, weights `(1,1,1)` solve
    `Mᵀ w = (1,1,1)` and the right-hand side sums to the domain length 3 -/
example : ∑ i ∈ range Inst.S.nbasis, (fun _ => (1 : ℚ)) i = 3 := by
  refine weights_sum_domain_model Inst.S Inst.hadm Inst.tmono Inst.hcell Inst.xs Inst.M Inst.hM (fun _ => 1) (fun k => if k = 2 then 1 else 1/2) 3
    (fun j hj => ?_) ?_
  · obtain ⟨a, b, c, d, e, f, g, h, k⟩ := Inst.hM_entries
    rw [Inst.hnb] at hj ⊢
    interval_cases j <;> simp [matTVec, basisQuads, Inst.S, sum_range_succ, *] <;> norm_num
  · rw [Inst.hnb]
    simp [basisQuads, Inst.S, sum_range_succ]; norm_num

example : ∀ i, i < Inst.S.nbasis → ∑ j ∈ range Inst.S.nbasis, Inst.M i j = 1 :=
  collocation_rows_sum_one Inst.S Inst.hadm Inst.tmono Inst.hcell Inst.xs Inst.M Inst.hM

/-! ### periodic spaces: the two parts of a wrapped basis function -/

/-- `(knots[d+2+i] - knots[i+1]) * inv_deg` on the extended knots is `(t_{i+d+1} - t_i)/(d+1)` -/
theorem fullIntegral_eq (S : Space K) (i : ℕ) (hi : i + S.degree + 2 ≤ S.nk) :
    fullIntegral S i = (S.t (i + S.degree + 1) - S.t i) * (1 / ((S.degree : K) + 1)) := by
  unfold fullIntegral extKnots
  simp only
  rw [if_neg (by omega), if_pos (by omega), if_neg (by omega), if_pos (by omega)]
  have e1 : S.degree + 2 + i - 1 = i + S.degree + 1 := by omega
  have e2 : i + 1 - 1 = i := by omega
  rw [e1, e2]

/-- **periodic_full_integral** (repaired model): the part of `B_{n+i}` inside the domain plus the part of `B_i` inside the domain is
    the full integral `(t_{i+p+1}-t_i)/(p+1)`, for every `i < p` -/
theorem periodic_full_integral (S : Space K) (hper : S.periodic = true) (hadm : S.Admissible) (i : ℕ) (hi : i < S.degree)
    (a b : K) (ha : integralsGeneral S i = some a) (hb : integralsGeneral S (S.nbasis + i) = some b) :
    a + b = fullIntegral S i := by
  have hn : S.nbasis = S.ncells := by simp [Space.nbasis, hper]
  have hdn : S.degree ≤ S.ncells := hadm.2.2 hper
  unfold integralsGeneral at ha hb
  rw [if_pos (by omega)] at ha
  rw [if_neg (by omega), if_pos ⟨hper, by unfold Space.ncoeffs; omega⟩] at hb
  have e : S.nbasis + i - S.nbasis = i := by omega
  rw [e, ha] at hb
  simp only [Option.map_some, Option.some.injEq] at hb
  rw [← hb]
  ring

example : fullIntegral Inst.S 1 = 1 := by
  rw [fullIntegral_eq Inst.S 1 (by decide)]; norm_num [Inst.S]

/-- for exactly periodic knots (`t_{n+k} = t_k + L`, `k ≤ p`) the full integrals of the `n` periodic basis functions sum to `L` -/
theorem periodic_full_sum [IsStrictOrderedRing K] (t : ℕ → K) (d n : ℕ) (L : K) (hper : ∀ k, k ≤ d → t (n + k) = t k + L) :
    ∑ i ∈ range n, (t (i + d + 1) - t i) * (1 / ((d : K) + 1)) = L := by
  rw [← sum_mul, sum_knot_diffs]
  have : ∑ k ∈ range (d + 1), (t (n + k) - t k) = ∑ k ∈ range (d + 1), L :=
    sum_congr rfl (fun k hk => by rw [hper k (by have := mem_range.mp hk; omega)]; ring)
  rw [this, sum_const, card_range, nsmul_eq_mul]
  have hd : ((d : K) + 1) ≠ 0 := Nat.cast_add_one_ne_zero d
  push_cast
  field_simp

example : ∑ i ∈ range 3, ((fun i : ℕ => (i : ℚ) - 2) (i + 2 + 1) - (fun i : ℕ => (i : ℚ) - 2) i) * (1 / ((2 : ℕ) + 1 : ℚ)) = 3 :=
  periodic_full_sum (fun i : ℕ => (i : ℚ) - 2) 2 3 3 (fun k _ => by push_cast; ring)

/-! ### uniform periodic spaces: equal weights (partial) -/

/-- the full clause for the model: on a periodic space with uniform knots, interpolation at the model's Greville points, every `w`
    with `Mᵀ w = basis_quads` (model integrals) has all entries equal to `L/n` -/
def uniform_periodic_equal_weights_statement (floor : K → ℤ) (S : Space K) (a h : K) : Prop :=
  S.Admissible → S.periodic = true → 0 < h → (∀ i, S.t i = a + (i : K) * h) →
  ∀ (M : ℕ → ℕ → K) (I w : ℕ → K),
    (∀ i, i < S.nbasis → collocationMatrix S (greville floor S) i = some (M i)) →
    (∀ k, k < S.ncoeffs → integralsGeneral S k = some (I k)) →
    (∀ j, j < S.nbasis → matTVec M S.nbasis w j = basisQuads true S.nbasis S.degree I j) →
    ∀ i, i < S.nbasis → w i = (S.xmax - S.xmin) / (S.nbasis : K)

/-- **uniform_periodic_equal_weights_partial.** Translation invariance: if the collocation matrix is circulant
    (`M[(i+1)%n, (j+1)%n] = M[i,j]`), `Mᵀ` is injective, the right-hand side is constant, rows sum to one and the right-hand side sums
    to `L`, then every weight equals `L/n`.  (Circulance and injectivity of the model's matrix on uniform knots are hypotheses; the
    check tests the conclusion on the real code.) -/
theorem uniform_periodic_equal_weights_partial (n : ℕ) (hn : 0 < n) (M : ℕ → ℕ → K) (w : ℕ → K) (Ic L : K)
    (hcirc : ∀ i j, i < n → j < n → M ((i + 1) % n) ((j + 1) % n) = M i j)
    (hinj : ∀ v : ℕ → K, (∀ j, j < n → matTVec M n v j = 0) → ∀ i, i < n → v i = 0)
    (hw : ∀ j, j < n → matTVec M n w j = Ic)
    (hrow : ∀ i, i < n → ∑ j ∈ range n, M i j = 1)
    (hI : (n : K) * Ic = L) (hchar : (n : K) ≠ 0) :
    ∀ i, i < n → w i = L / (n : K) := by
  have heq := circulant_equal_nat n hn M w Ic hcirc hinj hw
  have hsum := weights_sum_domain M n w (fun _ => Ic) L hw hrow (by simp [hI])
  have : ∑ i ∈ range n, w i = (n : K) * w 0 := by
    rw [sum_congr rfl (fun i hi => heq i (mem_range.mp hi))]; simp
  intro i hi
  rw [heq i hi, eq_div_iff hchar, mul_comm, ← this, hsum]

/-- the circulant `Interp.Inst.M` (rows are shifts of 1/8, 3/4, 1/8) is an instance of the circulance hypothesis -/
example : ∀ i j, i < 3 → j < 3 → Inst.M ((i + 1) % 3) ((j + 1) % 3) = Inst.M i j := by
  obtain ⟨a, b, c, d, e, f, g, h, k⟩ := Inst.hM_entries
  intro i j hi hj
  interval_cases i <;> interval_cases j <;> simp [*]

/-- all hypotheses hold for `Interp.Inst.M` with right-hand side `1` (`L = 3`): every weight is `3/3` -/
example (w : ℕ → ℚ) (hw : ∀ j, j < 3 → matTVec Inst.M 3 w j = 1) : ∀ i, i < 3 → w i = 3 / (3 : ℕ) := by
  refine uniform_periodic_equal_weights_partial 3 (by decide) Inst.M w 1 3 ?_ Inst.hinjT hw ?_ (by norm_num) (by norm_num)
  · obtain ⟨a, b, c, d, e, f, g, h, k⟩ := Inst.hM_entries
    intro i j hi hj
    interval_cases i <;> interval_cases j <;> simp [*]
  · simpa [Inst.hnb] using collocation_rows_sum_one Inst.S Inst.hadm Inst.tmono Inst.hcell Inst.xs Inst.M Inst.hM

/-- circulance of the *model's* collocation matrix on a periodic space with uniform knots, interpolation points `x₀ + i·h`
    (what `greville` yields there), given where the span search lands -/
theorem uniform_periodic_collocation_circulant (S : Space K) (a h x0 : K) (hper : S.periodic = true)
    (ht : ∀ i, S.t i = a + (i : K) * h) (s0 : ℕ) (hs0 : S.degree ≤ s0) (hn : 0 < S.nbasis)
    (hspan : ∀ i, i < S.nbasis → findSpan S.t S.nk S.degree (x0 + (i : K) * h) = some (s0 + i))
    (M : ℕ → ℕ → K) (hM : ∀ i, i < S.nbasis → collocationMatrix S (fun i => x0 + (i : K) * h) i = some (M i)) :
    ∀ i j, i < S.nbasis → j < S.nbasis → M ((i + 1) % S.nbasis) ((j + 1) % S.nbasis) = M i j := by
  apply uniform_periodic_circulant a h x0 S.t ht S.nbasis S.degree s0 hn hs0 M
  intro i hi
  have := hM i hi
  unfold collocationMatrix collocRow at this
  rw [hspan i hi, hper] at this
  simp only [Option.map_some, Option.some.injEq] at this
  exact this.symm

/-- **uniform_periodic_equal_weights** for the model up to unisolvence: uniform knots with `h > 0`, points `x₀ + i·h`, known
    spans, `Mᵀ` injective, constant right-hand side `Ic` with `n·Ic = L` ⇒ every weight is `L/n` -/
theorem uniform_periodic_equal_weights_model [IsStrictOrderedRing K] (S : Space K) (hadm : S.Admissible) (a h x0 : K)
    (hper : S.periodic = true) (hh : 0 < h) (ht : ∀ i, S.t i = a + (i : K) * h) (s0 : ℕ) (hs0 : S.degree ≤ s0)
    (hspan : ∀ i, i < S.nbasis → findSpan S.t S.nk S.degree (x0 + (i : K) * h) = some (s0 + i))
    (M : ℕ → ℕ → K) (hM : ∀ i, i < S.nbasis → collocationMatrix S (fun i => x0 + (i : K) * h) i = some (M i))
    (hinj : ∀ v : ℕ → K, (∀ j, j < S.nbasis → matTVec M S.nbasis v j = 0) → ∀ i, i < S.nbasis → v i = 0)
    (w : ℕ → K) (Ic L : K) (hw : ∀ j, j < S.nbasis → matTVec M S.nbasis w j = Ic) (hI : (S.nbasis : K) * Ic = L) :
    ∀ i, i < S.nbasis → w i = L / (S.nbasis : K) := by
  have hn : 0 < S.nbasis := by
    have := hadm.2.1
    simp only [Space.nbasis, Space.ncells, hper, if_true]; omega
  have hmono : Monotone S.t := by
    intro i j hij
    rw [ht, ht]
    have : (i : K) ≤ (j : K) := by exact_mod_cast hij
    nlinarith
  have hcell : ∀ s, S.degree ≤ s → s + S.degree + 2 ≤ S.nk → S.t s < S.t (s + 1) := by
    intro s _ _
    rw [ht, ht]; push_cast; linarith
  exact uniform_periodic_equal_weights_partial S.nbasis hn M w Ic L
    (uniform_periodic_collocation_circulant S a h x0 hper ht s0 hs0 hn hspan M hM) hinj hw
    (collocation_rows_sum_one S hadm hmono hcell _ M hM) hI (by exact_mod_cast (Nat.pos_iff_ne_zero.mp hn))

/-- instance `Interp.Inst` (`a = -2`, `h = 1`, `x₀ = 1/2`, `s₀ = 2`): every hypothesis incl. unisolvence holds; the weights are `3/3` -/
example (w : ℕ → ℚ) (hw : ∀ j, j < Inst.S.nbasis → matTVec Inst.M Inst.S.nbasis w j = 1) :
    ∀ i, i < Inst.S.nbasis → w i = 3 / (Inst.S.nbasis : ℚ) := by
  have e : (fun i : ℕ => (1/2 : ℚ) + (i : ℚ) * 1) = Inst.xs := by funext i; simp [Inst.xs]; ring
  refine uniform_periodic_equal_weights_model Inst.S Inst.hadm (-2) 1 (1/2) rfl one_pos (fun i => by simp [Inst.S]; ring) 2
    (by decide) (fun i hi => ?_) Inst.M (by rw [e]; exact Inst.hM) (by rw [Inst.hnb]; exact Inst.hinjT) w 1 3 hw
    (by rw [Inst.hnb]; norm_num)
  rw [Inst.hnb] at hi
  interval_cases i <;> norm_num [findSpan, findSpanLoop, Inst.S]

/-! ### the degree-raising expression is the integral (statement only) -/

open Polynomial in
/-- Cox–de Boor recursion on the cell `[t_s, t_{s+1})` carried out in `K[X]`: the cell polynomial of `N_{i,p}` -/
noncomputable def cellPoly (t : ℕ → K) (s : ℕ) : ℕ → ℕ → K[X]
  | 0, i => if i = s then 1 else 0
  | p+1, i =>
      (if t (i+p+1) - t i = 0 then 0 else C (1 / (t (i+p+1) - t i)) * (X - C (t i)) * cellPoly t s p i) +
      (if t (i+p+2) - t (i+1) = 0 then 0 else C (1 / (t (i+p+2) - t (i+1))) * (C (t (i+p+2)) - X) * cellPoly t s p (i+1))

open Polynomial in
/-- **integrals_antiderivative** (full statement, NOT proved): what `_build_integrals` stores for basis function `i` is the sum over
    the cells of the domain of the increments of any formal antiderivative of the cell polynomial of `B_i` -/
def integrals_antiderivative_statement (S : Space K) : Prop :=
  S.Admissible → Monotone S.t → (∀ s, S.degree ≤ s → s + S.degree + 2 ≤ S.nk → S.t s < S.t (s + 1)) →
  ∀ i, i < S.nbasis → ∀ v, integralGeneral S i = some v →
  ∀ F : ℕ → K[X], (∀ s, derivative (F s) = cellPoly S.t s S.degree i) →
    v = ∑ s ∈ Ico S.degree (S.degree + S.ncells), ((F s).eval (S.t (s + 1)) - (F s).eval (S.t s))

/-! ### witnesses: the repaired model and the unpatched code on the two defect classes -/

/-- degree 1, periodic, breakpoints 0,1,3 (knots -2,0,1,3,4) -/
def nonUniformPeriodic : Space ℚ := ⟨fun i => [(-2 : ℚ), 0, 1, 3, 4].getD i 0, 5, 1, true⟩

/-- F5a: the unpatched mirror `integrals[n+i] = integrals[d-i-1]` stores 1/2 for the part of `B_2` (hat on 1,3,4) inside `[0,3]`,
    which is 1; the folded integrals then sum to 5/2 instead of the domain length 3.  The repaired model stores 1 and sums to 3. -/
theorem old_mirror_wrong :
    (List.range 3).map (integralsGeneralOld nonUniformPeriodic) = [some (1/2), some (3/2), some (1/2)] ∧
    (List.range 3).map (integralsGeneral nonUniformPeriodic) = [some (1/2), some (3/2), some 1] := by
  constructor <;> decide +kernel

/-- `periodic_full_integral` on the non-uniform periodic space: `1/2 + 1 = 3/2 = (t_2 - t_0)/2` -/
example : (1/2 : ℚ) + 1 = fullIntegral nonUniformPeriodic 0 :=
  periodic_full_integral nonUniformPeriodic rfl ⟨by decide, by decide, fun _ => by decide⟩ 0 (by decide) (1/2) 1
    (by decide +kernel) (by decide +kernel)

/-- F5b: clamped uniform cubic, one cell of width 1: the unpatched code stores 1/24, 23/24, 23/24, 1/24 (sum 2), the repaired model the
    integrals 1/24, 11/24, 11/24, 1/24 of the four cubic pieces (sum 1); two cells: 23/24 instead of 22/24 in the middle -/
theorem old_cubic_few_cells_wrong :
    (List.range 4).map (fun k => (cuIntegralsClampedOld (0 : ℚ) 1 1).map (fun f => f k))
      = [some (1/24), some (23/24), some (23/24), some (1/24)] ∧
    (List.range 4).map (cuIntegrals (0 : ℚ) 1 1 false) = [some (1/24), some (11/24), some (11/24), some (1/24)] ∧
    (cuIntegralsClampedOld (0 : ℚ) 1 2).map (fun f => f 2) = some (23/24) ∧ cuIntegrals (0 : ℚ) 1 2 false 2 = some (22/24) := by
  refine ⟨?_, ?_, ?_, ?_⟩ <;> decide +kernel

/-- for three or more cells the two agree (here 3 and 5 cells) -/
theorem old_cubic_agrees_from_three_cells :
    (List.range 6).map (fun k => (cuIntegralsClampedOld (0 : ℚ) 1 3).map (fun f => f k)) = (List.range 6).map (cuIntegrals (0 : ℚ) 1 3 false) ∧
    (List.range 8).map (fun k => (cuIntegralsClampedOld (0 : ℚ) 1 5).map (fun f => f k)) = (List.range 8).map (cuIntegrals (0 : ℚ) 1 5 false) := by
  constructor <;> decide +kernel

end PygyroVerif.C09
