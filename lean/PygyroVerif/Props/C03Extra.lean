/-
C03 (extra) — soundness of the branch "the numbers of process axes differ by one" of `LayoutSwapper._compatibleLayout`
(pygyro/model/layout.py:1164-1196; model `Swapper.compatibleLayoutF`, Model/Swapper.lean) together with `getAxes`
(:1555-1591; `Swapper.getAxes`).  Property theorems only (helper lemmas: Lemmas/SwapperCompat.lean).
Communicators are process-axis ids of the world topology, as in the model.

Throughout, `k1` is a layout of the handler with FEWER process axes ("smaller", gathered side) and `k2` a layout of the
handler with one process axis more ("larger", scattered side); `c1`, `c2` are their communicator tuples
(`handler.communicators`), position `i` of a tuple distributing the dimension at position `i` of a layout's `dims_order`.
-/
import PygyroVerif.Props.C03
import PygyroVerif.Lemmas.SwapperCompat

namespace PygyroVerif.C03
open PygyroVerif PygyroVerif.Swapper PygyroVerif.SwapperCompat

/-- **soundness of the differ-by-one branch.**  If two layouts of different handlers whose numbers of process axes
    (`len(handler.nProcs)`) differ by exactly one are accepted by `_compatibleLayout` (in either argument order — the code
    swaps the arguments itself), then there is a position `jS` in the larger handler such that

    (i)   exactly that communicator of the larger handler remains unmatched: it is not a communicator of the smaller
          handler, and every other position `j` of the larger handler is matched by a communicator of the smaller
          handler that distributes the same dimension;
    (ii)  `getAxes(gathered, scattered)` returns `jS` as the scattered position and, as the gathered position, the
          position in the smaller handler's `dims_order` of the dimension that communicator distributes;
    (iii) EVERY communicator of the smaller handler is also a communicator of the larger handler and distributes the same
          dimension in both layouts.

    (iii) is stronger than what one reads off the loop at first sight (it only crosses out a communicator of the larger
    handler when the dimensions agree and says nothing about a communicator of the smaller handler that finds no
    partner): the loop has `len(c1)` rounds, every round crosses out at most one of the `len(c1)+1` entries, and the test
    asks for exactly one survivor — so every round must have crossed one out.  The only facts used about the
    constructor are that a handler has as many communicators as process axes and uses none twice
    (`commAxes_length`, `commAxes_nodup`, proved from the choice loop :984-1027). -/
theorem compatible_sound_differ_by_one (S : Swapper) (k1 k2 : Nat) (c1 c2 : List Nat)
    (hh : (S.locate k1).1 ≠ (S.locate k2).1)
    (hn : (S.handlerNprocs (S.locate k2).1).length = (S.handlerNprocs (S.locate k1).1).length + 1)
    (hc1 : S.commAxes (S.locate k1).1 = some c1) (hc2 : S.commAxes (S.locate k2).1 = some c2)
    (hacc : S.compatibleLayout k1 k2 = true ∨ S.compatibleLayout k2 k1 = true) :
    ∃ jS, jS < c2.length ∧
      -- (i)
      (c2.getD jS 0 ∉ c1 ∧
       ∀ j, j < c2.length → j ≠ jS → ∃ i, i < c1.length ∧ c1.getD i 0 = c2.getD j 0 ∧
          (S.layoutOf k1).ord.getD i 0 = (S.layoutOf k2).ord.getD j 0) ∧
      -- (ii)
      S.getAxes (S.locate k1).1 (S.locate k2).1 (S.layoutOf k1) (S.layoutOf k2) =
        ((S.layoutOf k1).ord.idxOf ((S.layoutOf k2).ord.getD jS 0), jS) ∧
      -- (iii)
      (∀ i, i < c1.length → c1.getD i 0 ∈ c2 ∧ c2.idxOf (c1.getD i 0) ≠ jS ∧
          (S.layoutOf k1).ord.getD i 0 = (S.layoutOf k2).ord.getD (c2.idxOf (c1.getD i 0)) 0) := by
  have hl1 := commAxes_length S _ c1 hc1
  have hl2 := commAxes_length S _ c2 hc2
  have hnd2 := commAxes_nodup S _ c2 hc2
  have hacc' : nSome (matchComms (S.layoutOf k1).ord (S.layoutOf k2).ord c1 c2) = 1 := by
    have e1 := compat_small_large S k1 k2 hh hn
    have e2 := compat_large_small S k1 k2 hh hn
    rw [hc1, hc2] at e1 e2
    simp only [Option.getD_some] at e1 e2
    rcases hacc with h | h
    · rw [e1] at h; exact of_decide_eq_true h
    · rw [e2] at h; exact of_decide_eq_true h
  obtain ⟨jS, hjS, hA, hB, _, hF⟩ := match_all _ _ c1 c2 (by omega) hacc'
  -- positions in a duplicate-free tuple are determined by the communicator
  have hpos : ∀ j, j < c2.length → c2.idxOf (c2.getD j 0) = j := by
    intro j hj
    rw [List.getD_eq_getElem?_getD, List.getElem?_eq_getElem hj, Option.getD_some]
    exact hnd2.idxOf_getElem j hj
  have hmem : ∀ j, j < c2.length → c2.getD j 0 ∈ c2 := by
    intro j hj
    rw [List.getD_eq_getElem?_getD, List.getElem?_eq_getElem hj, Option.getD_some]
    exact List.getElem_mem hj
  refine ⟨jS, hjS, ⟨?_, hB⟩, ?_, ?_⟩
  · intro hin
    obtain ⟨i, hi, hie⟩ := List.getElem_of_mem hin
    obtain ⟨j, hj, hne, hcj, _⟩ := hA i hi
    have : c2.getD j 0 = c2.getD jS 0 := by
      rw [hcj, ← hie, List.getD_eq_getElem?_getD, List.getElem?_eq_getElem hi, Option.getD_some]
    have := congrArg c2.idxOf this
    rw [hpos j hj, hpos jS hjS] at this
    exact hne this
  · rw [getAxes_eq, hc1, hc2]
    simp only [Option.getD_some]
    rw [hF]
  · intro i hi
    obtain ⟨j, hj, hne, hcj, hd⟩ := hA i hi
    have hidx : c2.idxOf (c1.getD i 0) = j := by rw [← hcj]; exact hpos j hj
    refine ⟨by rw [← hcj]; exact hmem j hj, by rw [hidx]; exact hne, by rw [hidx]; exact hd⟩

/-- the grouping of fullSimulation.py on a 2×3 process grid: layouts 0 `v_parallel_2d`, 1 `mode_solve` (handler 0,
    communicators (0,1)), 2 `v_parallel_1d` (handler 1, communicator (0,)), 3 `poloidal` (handler 2, communicator (1,)) -/
example :
    let S := driverSwapper 2 3 [4, 6, 5]
    (S.locate 2).1 ≠ (S.locate 0).1 ∧
    (S.handlerNprocs (S.locate 0).1).length = (S.handlerNprocs (S.locate 2).1).length + 1 ∧
    S.commAxes (S.locate 2).1 = some [0] ∧ S.commAxes (S.locate 0).1 = some [0, 1] ∧
    S.compatibleLayout 2 0 = true ∧ S.compatibleLayout 0 2 = true ∧
    S.getAxes (S.locate 2).1 (S.locate 0).1 (S.layoutOf 2) (S.layoutOf 0) = (1, 1) := by decide +kernel

/-- the poloidal group against `mode_solve`: the unmatched communicator is the first one of the larger handler -/
example :
    let S := driverSwapper 2 3 [4, 6, 5]
    (S.locate 3).1 ≠ (S.locate 1).1 ∧
    (S.handlerNprocs (S.locate 1).1).length = (S.handlerNprocs (S.locate 3).1).length + 1 ∧
    S.commAxes (S.locate 3).1 = some [1] ∧ S.commAxes (S.locate 1).1 = some [0, 1] ∧
    S.compatibleLayout 3 1 = true ∧
    S.getAxes (S.locate 3).1 (S.locate 1).1 (S.layoutOf 3) (S.layoutOf 1) = (1, 0) := by decide +kernel

/-- a pair the branch rejects: the common communicator distributes different dimensions (`v_parallel_1d` has the first
    dimension on communicator 0, `mode_solve` the second) -/
example : (driverSwapper 2 3 [4, 6, 5]).compatibleLayout 2 1 = false := by decide +kernel

/-- **the dimension of the unmatched communicator is held whole by the smaller handler.**  If, in addition, the larger
    layout's `dims_order` has no repeated entry and at least as many entries as the larger handler has process axes, no
    process axis of the smaller handler distributes the dimension `dims_order₂[jS]` that `getAxes` reports: it is
    distributed in the larger layout only, along the one unmatched communicator, and the scatter (local slice along
    `idx_g`) / gather (Allgather along the unmatched communicator) steps move exactly that dimension. -/
theorem unmatched_dimension_not_distributed (S : Swapper) (k1 k2 : Nat) (c1 c2 : List Nat)
    (hh : (S.locate k1).1 ≠ (S.locate k2).1)
    (hn : (S.handlerNprocs (S.locate k2).1).length = (S.handlerNprocs (S.locate k1).1).length + 1)
    (hc1 : S.commAxes (S.locate k1).1 = some c1) (hc2 : S.commAxes (S.locate k2).1 = some c2)
    (hacc : S.compatibleLayout k1 k2 = true ∨ S.compatibleLayout k2 k1 = true)
    (hnd : (S.layoutOf k2).ord.Nodup) (hlen : c2.length ≤ (S.layoutOf k2).ord.length) :
    ∀ i, i < c1.length →
      (S.layoutOf k1).ord.getD i 0 ≠
        (S.layoutOf k2).ord.getD (S.getAxes (S.locate k1).1 (S.locate k2).1 (S.layoutOf k1) (S.layoutOf k2)).2 0 := by
  obtain ⟨jS, hjS, _, hG, hIII⟩ := compatible_sound_differ_by_one S k1 k2 c1 c2 hh hn hc1 hc2 hacc
  intro i hi
  obtain ⟨hmem, hne, hd⟩ := hIII i hi
  rw [hG, hd]
  have hj : c2.idxOf (c1.getD i 0) < (S.layoutOf k2).ord.length :=
    Nat.lt_of_lt_of_le (List.idxOf_lt_length_of_mem hmem) hlen
  have hjS' : jS < (S.layoutOf k2).ord.length := Nat.lt_of_lt_of_le hjS hlen
  generalize c2.idxOf (c1.getD i 0) = j at hj hne
  intro e
  rw [List.getD_eq_getElem?_getD, List.getD_eq_getElem?_getD, List.getElem?_eq_getElem hj,
    List.getElem?_eq_getElem hjS', Option.getD_some, Option.getD_some] at e
  have := congrArg (S.layoutOf k2).ord.idxOf e
  rw [hnd.idxOf_getElem _ hj, hnd.idxOf_getElem _ hjS'] at this
  exact hne this

example : ((driverSwapper 2 3 [4, 6, 5]).layoutOf 0).ord.Nodup ∧
    [0, 1].length ≤ ((driverSwapper 2 3 [4, 6, 5]).layoutOf 0).ord.length := by decide +kernel

end PygyroVerif.C03
