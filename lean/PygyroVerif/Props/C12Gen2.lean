/-
C12, tie by translation, part 2: the kernel `general_poloidal_advection_step_impl` (implicit trapezoidal rule of the poloidal advection: fixed-point
sweeps over the (theta, r) nodes until the largest displacement between two sweeps is at most `tol`, then the value at the converged feet).
`Generated/PolImplGen.lean` is REGENERATED on every run of `./check C12` from pygyro/advection/accelerated_advection_steps.py (harness/translate_pure.py,
target `polimpl`: as `polexpl`, plus `while (norm > tol)` = a fuel-recursive function, `from numpy import pi, abs` with `abs(x) = pyAbs x`, `multFactor *= 0.5`,
an `if` whose branches only assign = a function of the state, and the bodies of the loops that only assign emitted as `body_of_<loop>` = the composition
of `part<k>_of_<loop>`, the body cut at every `if`).

This file proves that the generated function computes what the hand-written model `PolAdv.implStep` (Model/PolAdv.lean: `implInit`, `implNode`,
`sweep`, `implLoop`, `finalVal`; the theorems of Props/C12.lean and C12Extra.lean are about it) computes — `gen_pol_impl_eq` — in four steps:
  * `body5_eq`            one iteration of the generated sweep body is `nodeStep` on the eight scalars of the node (`p1_eq` … `p10_eq`, one per part);
    `node_eq_implNode`    `nodeStep` is the model's `implNode` (new end point, the two displacements), `normUpdG = normUpd`;
  * `gen_impl_sweep_eq`   ONE PASS of the generated `while` body over all nodes = the model's `sweep` on the row-major lists, INCLUDING THE NORM
                          (`loop5_eq`, `loop4_eq`: node `(i, j)` reads and writes entries `[i, j]` only);
  * `gen_impl_while_eq`   the generated `while` with fuel `f ≥ N + 1` follows the model's `implLoop` with fuel `N` (the source sets `norm = tol + 1`
                          and tests the condition once more than it sweeps: N sweeps = N + 1 tests; `N + 1 ≤ F` is sharp, last example);
  * `loop1_eq` (tables divided by the radius + Euler predictor = `implInit`) and `phase2_eq` (the second double loop stores `finalVal` of the feet).
Correspondence of the abstractions is as in Props/C12Gen.lean: `Evals` = the uninterpreted `eval_spline_2d_scalar` at `der` = (0,1), (1,0), (0,0) and
`wrap x = pyMod x (2*pi)`; CONTRACT `hcross`: inside the box the two tables `eval_spline_2d_cross` fills hold the scalar evaluation at the nodes;
`Val.feq r v` is read as the call of `f_eq` (`interpP`); `Params = mkParams dt B0 v rPts len(rPts) nulBound`; period `2*pi`, half period `pi`, `rnd = id`.
No guard on the data is needed (division by zero is 0 on both sides, `pi` and `tol` arbitrary); termination is NOT claimed: the theorem is about
runs on which the model's loop returns within its fuel.
-/
import PygyroVerif.Generated.PolImplGen
import PygyroVerif.Props.C12Gen
import Mathlib.Data.Rat.Floor

set_option linter.unusedSimpArgs false

namespace PygyroVerif.C12Gen2
open PygyroVerif PygyroVerif.VParAdv PygyroVerif.PolAdv
open PygyroVerif.Gen.PolImpl PygyroVerif.Gen.PolImpl.general_poloidal_advection_step_impl_

/-! ## what the loops read and never write -/

/-- the quantities the loops read and never write, with the uninterpreted functions applied to their constant arguments (`mf` = `multFactor`:
    `dt/B0` in the first double loop, half of it afterwards — it is assigned between the loops, not inside them) -/
structure Consts where
  drS : ℚ → ℚ → ℚ
  dqS : ℚ → ℚ → ℚ
  fS : ℚ → ℚ → ℚ
  feq : ℚ → ℚ → ℚ
  v : ℚ
  pi : ℚ
  mf : ℚ
  tol : ℚ
  rMax : ℚ
  rPts : ℕ → ℚ
  qPts : ℕ → ℚ
  nr : ℕ
  nq : ℕ
  nul : Bool

def consts (σ : St) : Consts where
  drS := fun q r => σ.eval_spline_2d_scalar q r σ.kts1Phi σ.kts1Phi_len σ.deg1Phi σ.kts2Phi σ.kts2Phi_len σ.deg2Phi σ.coeffsPhi
    σ.coeffsPhi_len0 σ.coeffsPhi_len1 0 1
  dqS := fun q r => σ.eval_spline_2d_scalar q r σ.kts1Phi σ.kts1Phi_len σ.deg1Phi σ.kts2Phi σ.kts2Phi_len σ.deg2Phi σ.coeffsPhi
    σ.coeffsPhi_len0 σ.coeffsPhi_len1 1 0
  fS := fun q r => σ.eval_spline_2d_scalar q r σ.kts1Pol σ.kts1Pol_len σ.deg1Pol σ.kts2Pol σ.kts2Pol_len σ.deg2Pol σ.coeffsPol
    σ.coeffsPol_len0 σ.coeffsPol_len1 0 0
  feq := fun r v => σ.f_eq r v σ.CN0 σ.kN0 σ.deltaRN0 σ.rp σ.CTi σ.kTi σ.deltaRTi
  v := σ.v
  pi := σ.pi
  mf := σ.multFactor
  tol := σ.tol
  rMax := σ.rMax
  rPts := σ.rPts
  qPts := σ.qPts
  nr := σ.nPts_r
  nq := σ.nPts_q
  nul := σ.nulBound

/-! ## the sweep: one node -/

/-- `A[i, j] = v` -/
def upd2 (A : ℕ → ℕ → ℚ) (i j : ℕ) (v : ℚ) : ℕ → ℕ → ℚ := fun k l => if k = i ∧ l = j then v else A k l

theorem upd2_self (A : ℕ → ℕ → ℚ) (i j : ℕ) (v : ℚ) : upd2 A i j v i j = v := if_pos ⟨rfl, rfl⟩
theorem upd2_ne (A : ℕ → ℕ → ℚ) (i j : ℕ) (v : ℚ) (a b : ℕ) (h : ¬ (a = i ∧ b = j)) : upd2 A i j v a b = A a b := if_neg h
theorem upd2_upd2 (A : ℕ → ℕ → ℚ) (i j : ℕ) (v w : ℚ) : upd2 (upd2 A i j v) i j w = upd2 A i j w := by
  funext a b
  unfold upd2
  by_cases h : a = i ∧ b = j
  · rw [if_pos h, if_pos h]
  · rw [if_neg h, if_neg h, if_neg h]
theorem upd2_same (A : ℕ → ℕ → ℚ) (i j : ℕ) : upd2 A i j (A i j) = A := by
  funext a b
  unfold upd2
  by_cases h : a = i ∧ b = j
  · rw [if_pos h, h.1, h.2]
  · rw [if_neg h]

/-- the scalars of the node `(i, j)` the body of the sweep works on -/
structure Node where
  k1q : ℚ
  k1r : ℚ
  drk : ℚ
  dtk : ℚ
  k2q : ℚ
  k2r : ℚ
  diff : ℚ
  norm : ℚ

/-- the state `σ` with loop variable `j` and the scalars of node `(σ.i, j)` replaced by `n` -/
def mk (σ : St) (j : ℕ) (n : Node) : St :=
  { σ with j := j, endPts_k1_q := upd2 σ.endPts_k1_q σ.i j n.k1q, endPts_k1_r := upd2 σ.endPts_k1_r σ.i j n.k1r,
           drPhi_k := upd2 σ.drPhi_k σ.i j n.drk, dthetaPhi_k := upd2 σ.dthetaPhi_k σ.i j n.dtk,
           endPts_k2_q := upd2 σ.endPts_k2_q σ.i j n.k2q, endPts_k2_r := upd2 σ.endPts_k2_r σ.i j n.k2r, diff := n.diff, norm := n.norm }

/-- the scalars of node `(σ.i, j)` in the state `σ` -/
def view (σ : St) (j : ℕ) : Node :=
  ⟨σ.endPts_k1_q σ.i j, σ.endPts_k1_r σ.i j, σ.drPhi_k σ.i j, σ.dthetaPhi_k σ.i j, σ.endPts_k2_q σ.i j, σ.endPts_k2_r σ.i j, σ.diff, σ.norm⟩

theorem mk_view (σ : St) (j : ℕ) : mk σ j (view σ j) = { σ with j := j } := by
  unfold mk view
  simp only [upd2_same]

local notation "P1" => part1_of_general_poloidal_advection_step_impl_loop5
local notation "P2" => part2_of_general_poloidal_advection_step_impl_loop5
local notation "P3" => part3_of_general_poloidal_advection_step_impl_loop5
local notation "P4" => part4_of_general_poloidal_advection_step_impl_loop5
local notation "P5" => part5_of_general_poloidal_advection_step_impl_loop5
local notation "P6" => part6_of_general_poloidal_advection_step_impl_loop5
local notation "P7" => part7_of_general_poloidal_advection_step_impl_loop5
local notation "P8" => part8_of_general_poloidal_advection_step_impl_loop5
local notation "P9" => part9_of_general_poloidal_advection_step_impl_loop5
local notation "P10" => part10_of_general_poloidal_advection_step_impl_loop5

theorem ite_ite_else {α : Type} (c : Prop) [Decidable c] (a b d : α) : (if c then a else (if c then b else d)) = if c then a else d := by
  split <;> rfl

theorem p1_eq (σ : St) (j : ℕ) (n : Node) : P1 (mk σ j n) = mk σ j { n with k1q := pyMod n.k1q (2 * σ.pi) } := by
  unfold part1_of_general_poloidal_advection_step_impl_loop5 mk upd2
  simp only [and_self, if_true, ite_ite_else]

def drkOf (c : Consts) (n : Node) : ℚ := if ¬ (n.k1r < c.rPts 0 ∨ n.k1r > c.rMax) then c.drS n.k1q n.k1r / n.k1r else 0
def dtkOf (c : Consts) (n : Node) : ℚ := if ¬ (n.k1r < c.rPts 0 ∨ n.k1r > c.rMax) then c.dqS n.k1q n.k1r / n.k1r else 0

theorem p2_eq (σ : St) (j : ℕ) (n : Node) : P2 (mk σ j n) = mk σ j { n with drk := drkOf (consts σ) n, dtk := dtkOf (consts σ) n } := by
  unfold part2_of_general_poloidal_advection_step_impl_loop5 mk upd2 drkOf dtkOf consts
  by_cases h : n.k1r < σ.rPts 0 ∨ n.k1r > σ.rMax
  · simp only [and_self, if_true, ite_ite_else, h, not_true_eq_false, if_false]
  · simp only [and_self, if_true, ite_ite_else, h, not_false_eq_true]


theorem p3_eq (σ : St) (j : ℕ) (n : Node) : P3 (mk σ j n) = mk σ j { n with
    k2q := pyMod (σ.qPts σ.i - (σ.drPhi_0 σ.i j + n.drk) * σ.multFactor) (2 * σ.pi),
    k2r := σ.rPts j + (σ.dthetaPhi_0 σ.i j + n.dtk) * σ.multFactor } := by
  unfold part3_of_general_poloidal_advection_step_impl_loop5 mk upd2
  simp only [and_self, if_true, ite_ite_else]

/-- clipping to `[rPts[0], rMax]` as the source does it (`if … < rPts[0]` / `elif … > rMax`) -/
def clipOf (c : Consts) (x : ℚ) : ℚ := if x < c.rPts 0 then c.rPts 0 else if x > c.rMax then c.rMax else x

theorem p4_eq (σ : St) (j : ℕ) (n : Node) : P4 (mk σ j n) = mk σ j { n with k2r := clipOf (consts σ) n.k2r } := by
  unfold part4_of_general_poloidal_advection_step_impl_loop5 mk upd2 clipOf consts
  by_cases h : n.k2r < σ.rPts 0
  · simp only [and_self, if_true, ite_ite_else, h]
  · by_cases h' : n.k2r > σ.rMax
    · simp only [and_self, if_true, ite_ite_else, h, h', if_false]
    · simp only [and_self, if_true, ite_ite_else, h, h', if_false]

theorem p5_eq (σ : St) (j : ℕ) (n : Node) : P5 (mk σ j n) = mk σ j { n with diff := pyAbs (n.k2q - n.k1q) } := by
  unfold part5_of_general_poloidal_advection_step_impl_loop5 mk upd2
  simp only [and_self, if_true, ite_ite_else]

theorem p6_eq (σ : St) (j : ℕ) (n : Node) : P6 (mk σ j n) = mk σ j { n with diff := if n.diff > σ.pi then 2 * σ.pi - n.diff else n.diff } := by
  unfold part6_of_general_poloidal_advection_step_impl_loop5 mk
  by_cases h : n.diff > σ.pi
  · simp only [h, if_true]
  · simp only [h, if_false]

theorem p7_eq (σ : St) (j : ℕ) (n : Node) : P7 (mk σ j n) = mk σ j { n with norm := if n.diff > n.norm then n.diff else n.norm } := by
  unfold part7_of_general_poloidal_advection_step_impl_loop5 mk
  by_cases h : n.diff > n.norm
  · simp only [h, if_true]
  · simp only [h, if_false]

theorem p8_eq (σ : St) (j : ℕ) (n : Node) : P8 (mk σ j n) = mk σ j { n with diff := pyAbs (n.k2r - n.k1r) } := by
  unfold part8_of_general_poloidal_advection_step_impl_loop5 mk upd2
  simp only [and_self, if_true, ite_ite_else]

theorem p9_eq (σ : St) (j : ℕ) (n : Node) : P9 (mk σ j n) = mk σ j { n with norm := if n.diff > n.norm then n.diff else n.norm } := by
  unfold part9_of_general_poloidal_advection_step_impl_loop5 mk
  by_cases h : n.diff > n.norm
  · simp only [h, if_true]
  · simp only [h, if_false]

theorem p10_eq (σ : St) (j : ℕ) (n : Node) : P10 (mk σ j n) = mk σ j { n with k1q := n.k2q, k1r := n.k2r } := by
  unfold part10_of_general_poloidal_advection_step_impl_loop5 mk upd2
  simp only [and_self, if_true, ite_ite_else]

/-- one iteration of the sweep on the scalars of a node whose table entries are `d0`, `t0` and whose coordinates are `q`, `r`: the ten parts of the
    generated body, in order -/
def nodeStep (c : Consts) (d0 t0 q r : ℚ) (n : Node) : Node :=
  let n : Node := { n with k1q := pyMod n.k1q (2 * c.pi) }
  let n : Node := { n with drk := drkOf c n, dtk := dtkOf c n }
  let n : Node := { n with k2q := pyMod (q - (d0 + n.drk) * c.mf) (2 * c.pi), k2r := r + (t0 + n.dtk) * c.mf }
  let n : Node := { n with k2r := clipOf c n.k2r }
  let n : Node := { n with diff := pyAbs (n.k2q - n.k1q) }
  let n : Node := { n with diff := if n.diff > c.pi then 2 * c.pi - n.diff else n.diff }
  let n : Node := { n with norm := if n.diff > n.norm then n.diff else n.norm }
  let n : Node := { n with diff := pyAbs (n.k2r - n.k1r) }
  let n : Node := { n with norm := if n.diff > n.norm then n.diff else n.norm }
  { n with k1q := n.k2q, k1r := n.k2r }

local notation "B5" => body_of_general_poloidal_advection_step_impl_loop5
local notation "L5" => general_poloidal_advection_step_impl_loop5
local notation "L4" => general_poloidal_advection_step_impl_loop4
local notation "L3" => general_poloidal_advection_step_impl_loop3

/-- **one iteration of the generated sweep body in closed form**: node `(σ.i, j)` goes through `nodeStep`, nothing else changes -/
theorem body5_eq (σ : St) (j : ℕ) :
    B5 σ j = mk σ j (nodeStep (consts σ) (σ.drPhi_0 σ.i j) (σ.dthetaPhi_0 σ.i j) (σ.qPts σ.i) (σ.rPts j) (view σ j)) := by
  unfold body_of_general_poloidal_advection_step_impl_loop5
  simp only [← mk_view, p1_eq, p2_eq, p3_eq, p4_eq, p5_eq, p6_eq, p7_eq, p8_eq, p9_eq, p10_eq]
  rfl


/-! ### what `nodeStep` computes, and the model's `implNode` -/

/-- the radial velocity test of the source: the current end point lies in `[rPts[0], rMax]` -/
def inDom (c : Consts) (k1r : ℚ) : Prop := ¬ (k1r < c.rPts 0 ∨ k1r > c.rMax)
instance (c : Consts) (k1r : ℚ) : Decidable (inDom c k1r) := by unfold inDom; infer_instance

/-- new `endPts_k2_q[i, j]` (= new `endPts_k1_q[i, j]`) from the table entry `d0`, the node angle `q` and the current end point -/
def ptQ (c : Consts) (d0 q k1q k1r : ℚ) : ℚ :=
  pyMod (q - (d0 + (if inDom c k1r then c.drS (pyMod k1q (2 * c.pi)) k1r / k1r else 0)) * c.mf) (2 * c.pi)
/-- new `endPts_k2_r[i, j]` (= new `endPts_k1_r[i, j]`), clipped -/
def ptR (c : Consts) (t0 r k1q k1r : ℚ) : ℚ :=
  clipOf c (r + (t0 + (if inDom c k1r then c.dqS (pyMod k1q (2 * c.pi)) k1r / k1r else 0)) * c.mf)
/-- the angular displacement between two sweeps, through the shorter arc -/
def dQ (c : Consts) (d0 q k1q k1r : ℚ) : ℚ :=
  if pyAbs (ptQ c d0 q k1q k1r - pyMod k1q (2 * c.pi)) > c.pi then 2 * c.pi - pyAbs (ptQ c d0 q k1q k1r - pyMod k1q (2 * c.pi))
  else pyAbs (ptQ c d0 q k1q k1r - pyMod k1q (2 * c.pi))
/-- the radial displacement between two sweeps -/
def dR (c : Consts) (t0 r k1q k1r : ℚ) : ℚ := pyAbs (ptR c t0 r k1q k1r - k1r)
/-- `if (diff > norm): norm = diff`, for the two displacements of a node -/
def normUpdG (nm d1 d2 : ℚ) : ℚ := if d2 > (if d1 > nm then d1 else nm) then d2 else (if d1 > nm then d1 else nm)

theorem nodeStep_k1q (c : Consts) (d0 t0 q r : ℚ) (n : Node) : (nodeStep c d0 t0 q r n).k1q = ptQ c d0 q n.k1q n.k1r := rfl
theorem nodeStep_k1r (c : Consts) (d0 t0 q r : ℚ) (n : Node) : (nodeStep c d0 t0 q r n).k1r = ptR c t0 r n.k1q n.k1r := rfl
theorem nodeStep_k2q (c : Consts) (d0 t0 q r : ℚ) (n : Node) : (nodeStep c d0 t0 q r n).k2q = ptQ c d0 q n.k1q n.k1r := rfl
theorem nodeStep_k2r (c : Consts) (d0 t0 q r : ℚ) (n : Node) : (nodeStep c d0 t0 q r n).k2r = ptR c t0 r n.k1q n.k1r := rfl
theorem nodeStep_norm (c : Consts) (d0 t0 q r : ℚ) (n : Node) :
    (nodeStep c d0 t0 q r n).norm = normUpdG n.norm (dQ c d0 q n.k1q n.k1r) (dR c t0 r n.k1q n.k1r) := rfl

theorem pyAbs_eq_abs (x : ℚ) : pyAbs x = |x| := by
  unfold pyAbs
  split
  · next h => rw [abs_of_neg h]
  · next h => rw [abs_of_nonneg (not_lt.mp h)]

/-- the model's `Evals` for the constants of a state -/
def evalsOf (c : Consts) : Evals ℚ := { drPhi := c.drS, dqPhi := c.dqS, fhat := c.fS, wrap := fun x => pyMod x (2 * c.pi) }
/-- the model's `Params` for the constants of a state -/
def paramsOf (dt B0 : ℚ) (c : Consts) : Params ℚ := { dt := dt, B0 := B0, v := c.v, rMin := c.rPts 0, rMax := c.rMax, nul := c.nul }

/-- the generated `%` is the model's `pmod` -/
theorem pyMod_eq_pmod (x p : ℚ) : pyMod x p = PolAdv.pmod p x := rfl

/-- **one node of the generated sweep is the model's `implNode`** (period `2*pi`, half period `pi`), when `multFactor` holds `dt/B0 · 1/2` and the
    table entries of the node are the evaluator's values there divided by the radius -/
theorem node_eq_implNode (c : Consts) (dt B0 : ℚ) (hmf : c.mf = dt / B0 * (1 / 2)) (q r k1q k1r : ℚ) :
    implNode (evalsOf c) (paramsOf dt B0 c) (2 * c.pi) c.pi q r (k1q, k1r) =
      ((ptQ c (c.drS q r / r) q k1q k1r, ptR c (c.dqS q r / r) r k1q k1r), (dQ c (c.drS q r / r) q k1q k1r, dR c (c.dqS q r / r) r k1q k1r)) := by
  unfold implNode dQ dR ptQ ptR velAt clip clipOf inDom multFactor evalsOf paramsOf
  simp only [hmf, pyAbs_eq_abs]
  by_cases h : k1r < c.rPts 0 ∨ k1r > c.rMax
  · simp only [h, not_true_eq_false, if_false]
  · simp only [h, not_false_eq_true, if_true]

theorem normUpdG_eq (nm d1 d2 : ℚ) : normUpdG nm d1 d2 = normUpd nm (d1, d2) := rfl


/-! ## the sweep: the two loops over the nodes -/

/-- `(endPts_k1_q[a, b], endPts_k1_r[a, b])` -/
def K1 (σ : St) (a b : ℕ) : ℚ × ℚ := (σ.endPts_k1_q a b, σ.endPts_k1_r a b)
/-- `(endPts_k2_q[a, b], endPts_k2_r[a, b])` -/
def K2 (σ : St) (a b : ℕ) : ℚ × ℚ := (σ.endPts_k2_q a b, σ.endPts_k2_r a b)
/-- the new end point of node `(a, b)` after one sweep, from the entries of `σ` at `(a, b)` -/
def PT (σ : St) (a b : ℕ) : ℚ × ℚ :=
  (ptQ (consts σ) (σ.drPhi_0 a b) (σ.qPts a) (σ.endPts_k1_q a b) (σ.endPts_k1_r a b),
   ptR (consts σ) (σ.dthetaPhi_0 a b) (σ.rPts b) (σ.endPts_k1_q a b) (σ.endPts_k1_r a b))
/-- the update of `norm` by node `(a, b)` -/
def NU (σ : St) (a b : ℕ) (nm : ℚ) : ℚ :=
  normUpdG nm (dQ (consts σ) (σ.drPhi_0 a b) (σ.qPts a) (σ.endPts_k1_q a b) (σ.endPts_k1_r a b))
    (dR (consts σ) (σ.dthetaPhi_0 a b) (σ.rPts b) (σ.endPts_k1_q a b) (σ.endPts_k1_r a b))

/-- what the sweep loops leave alone -/
structure Frame (σ σ' : St) : Prop where
  consts : consts σ' = consts σ
  dr0 : σ'.drPhi_0 = σ.drPhi_0
  dt0 : σ'.dthetaPhi_0 = σ.dthetaPhi_0
  f : σ'.f = σ.f

theorem Frame.refl (σ : St) : Frame σ σ := ⟨rfl, rfl, rfl, rfl⟩
theorem Frame.trans {σ σ' σ'' : St} (h : Frame σ σ') (h' : Frame σ' σ'') : Frame σ σ'' :=
  ⟨h'.consts.trans h.consts, h'.dr0.trans h.dr0, h'.dt0.trans h.dt0, h'.f.trans h.f⟩

/-- `PT` / `NU` of a node only read the constants, the two tables and the entries of `endPts_k1_*` at that node -/
theorem PT_congr (σ τ : St) (a b : ℕ) (h : Frame σ τ) (hq : τ.qPts = σ.qPts) (hr : τ.rPts = σ.rPts) (hk : K1 τ a b = K1 σ a b) : PT τ a b = PT σ a b := by
  have h1 : τ.endPts_k1_q a b = σ.endPts_k1_q a b := congrArg Prod.fst hk
  have h2 : τ.endPts_k1_r a b = σ.endPts_k1_r a b := congrArg Prod.snd hk
  unfold PT
  rw [h.consts, h.dr0, h.dt0, hq, hr, h1, h2]
theorem NU_congr (σ τ : St) (a b : ℕ) (h : Frame σ τ) (hq : τ.qPts = σ.qPts) (hr : τ.rPts = σ.rPts) (hk : K1 τ a b = K1 σ a b) : NU τ a b = NU σ a b := by
  have h1 : τ.endPts_k1_q a b = σ.endPts_k1_q a b := congrArg Prod.fst hk
  have h2 : τ.endPts_k1_r a b = σ.endPts_k1_r a b := congrArg Prod.snd hk
  unfold NU
  rw [h.consts, h.dr0, h.dt0, hq, hr, h1, h2]

theorem consts_qPts (σ τ : St) (h : consts τ = consts σ) : τ.qPts = σ.qPts := congrArg Consts.qPts h
theorem consts_rPts (σ τ : St) (h : consts τ = consts σ) : τ.rPts = σ.rPts := congrArg Consts.rPts h

/-- the state after one iteration of the sweep body, field by field -/
theorem body5_frame (σ : St) (j : ℕ) : Frame σ (B5 σ j) := by rw [body5_eq]; exact ⟨rfl, rfl, rfl, rfl⟩
theorem body5_i (σ : St) (j : ℕ) : (B5 σ j).i = σ.i := by rw [body5_eq]; rfl
theorem body5_K1 (σ : St) (j a b : ℕ) : K1 (B5 σ j) a b = if a = σ.i ∧ b = j then PT σ a b else K1 σ a b := by
  rw [body5_eq]
  by_cases h : a = σ.i ∧ b = j
  · rw [if_pos h, h.1, h.2]
    show (upd2 _ _ _ _ _ _, upd2 _ _ _ _ _ _) = _
    rw [upd2_self, upd2_self]
    rfl
  · rw [if_neg h]
    show (upd2 _ _ _ _ _ _, upd2 _ _ _ _ _ _) = _
    rw [upd2_ne _ _ _ _ _ _ h, upd2_ne _ _ _ _ _ _ h]
    rfl
theorem body5_K2 (σ : St) (j a b : ℕ) : K2 (B5 σ j) a b = if a = σ.i ∧ b = j then PT σ a b else K2 σ a b := by
  rw [body5_eq]
  by_cases h : a = σ.i ∧ b = j
  · rw [if_pos h, h.1, h.2]
    show (upd2 _ _ _ _ _ _, upd2 _ _ _ _ _ _) = _
    rw [upd2_self, upd2_self]
    rfl
  · rw [if_neg h]
    show (upd2 _ _ _ _ _ _, upd2 _ _ _ _ _ _) = _
    rw [upd2_ne _ _ _ _ _ _ h, upd2_ne _ _ _ _ _ _ h]
    rfl
theorem body5_norm (σ : St) (j : ℕ) : (B5 σ j).norm = NU σ σ.i j σ.norm := by rw [body5_eq]; rfl

theorem loop5_succ (U : ℕ → ℚ) (F n j : ℕ) (σ : St) : L5 U F (n + 1) j σ = L5 U F n (j + 1) (B5 σ j) := rfl

/-- `for j in range(nPts_r):` of the sweep, at fixed `i`, started at `j0` with `n` iterations left: the nodes `(σ.i, j0 .. j0+n-1)` receive their new
    end points (in `endPts_k1_*` and in `endPts_k2_*`), `norm` is updated node after node, nothing else that matters changes -/
theorem loop5_eq (U : ℕ → ℚ) (F : ℕ) : ∀ (n j0 : ℕ) (σ : St),
    ∃ σ', L5 U F n j0 σ = .ok σ' ∧ Frame σ σ' ∧ σ'.i = σ.i ∧
      (∀ a b, K1 σ' a b = if a = σ.i ∧ j0 ≤ b ∧ b < j0 + n then PT σ a b else K1 σ a b) ∧
      (∀ a b, K2 σ' a b = if a = σ.i ∧ j0 ≤ b ∧ b < j0 + n then PT σ a b else K2 σ a b) ∧
      σ'.norm = (List.range' j0 n).foldl (fun nm b => NU σ σ.i b nm) σ.norm := by
  intro n
  induction n with
  | zero =>
    intro j0 σ
    exact ⟨σ, rfl, Frame.refl σ, rfl, fun a b => by rw [if_neg (by omega)], fun a b => by rw [if_neg (by omega)], rfl⟩
  | succ n ih =>
    intro j0 σ
    obtain ⟨σ', hrun, hfr, hi, hk1, hk2, hnorm⟩ := ih (j0 + 1) (B5 σ j0)
    have hF := body5_frame σ j0
    have hq := consts_qPts σ _ hF.consts
    have hr := consts_rPts σ _ hF.consts
    rw [body5_i] at hi hk1 hk2 hnorm
    refine ⟨σ', by rw [loop5_succ, hrun], hF.trans hfr, hi, ?_, ?_, ?_⟩
    · intro a b
      rw [hk1 a b]
      by_cases h1 : a = σ.i ∧ j0 + 1 ≤ b ∧ b < j0 + 1 + n
      · rw [if_pos h1, if_pos (by omega)]
        exact PT_congr σ _ a b hF hq hr (by rw [body5_K1, if_neg (by omega)])
      · rw [if_neg h1, body5_K1]
        by_cases h2 : a = σ.i ∧ b = j0
        · rw [if_pos h2, if_pos (by omega)]
        · rw [if_neg h2, if_neg (by omega)]
    · intro a b
      rw [hk2 a b]
      by_cases h1 : a = σ.i ∧ j0 + 1 ≤ b ∧ b < j0 + 1 + n
      · rw [if_pos h1, if_pos (by omega)]
        exact PT_congr σ _ a b hF hq hr (by rw [body5_K1, if_neg (by omega)])
      · rw [if_neg h1, body5_K2]
        by_cases h2 : a = σ.i ∧ b = j0
        · rw [if_pos h2, if_pos (by omega)]
        · rw [if_neg h2, if_neg (by omega)]
    · rw [hnorm, body5_norm, List.range'_succ, List.foldl_cons]
      apply List.foldl_ext
      intro nm b hb
      rw [List.mem_range'_1] at hb
      exact congrFun (NU_congr σ _ σ.i b hF hq hr (by rw [body5_K1, if_neg (by omega)])) nm


theorem consts_nr (σ τ : St) (h : consts τ = consts σ) : τ.nPts_r = σ.nPts_r := congrArg Consts.nr h
theorem consts_nq (σ τ : St) (h : consts τ = consts σ) : τ.nPts_q = σ.nPts_q := congrArg Consts.nq h

/-- `norm` after the nodes of the rows `i0 .. i0+n-1` (each row left to right) -/
def rowsNorm (σ : St) (i0 n : ℕ) (nm : ℚ) : ℚ :=
  (List.range' i0 n).foldl (fun nm a => (List.range' 0 σ.nPts_r).foldl (fun nm b => NU σ a b nm) nm) nm

/-- `for i in range(nPts_q):` of the sweep, started at row `i0` with `n` rows left -/
theorem loop4_eq (U : ℕ → ℚ) (F : ℕ) : ∀ (n i0 : ℕ) (σ : St),
    ∃ σ', L4 U F n i0 σ = .ok σ' ∧ Frame σ σ' ∧
      (∀ a b, K1 σ' a b = if (i0 ≤ a ∧ a < i0 + n) ∧ b < σ.nPts_r then PT σ a b else K1 σ a b) ∧
      (∀ a b, K2 σ' a b = if (i0 ≤ a ∧ a < i0 + n) ∧ b < σ.nPts_r then PT σ a b else K2 σ a b) ∧
      σ'.norm = rowsNorm σ i0 n σ.norm := by
  intro n
  induction n with
  | zero =>
    intro i0 σ
    exact ⟨σ, rfl, Frame.refl σ, fun a b => by rw [if_neg (by omega)], fun a b => by rw [if_neg (by omega)], rfl⟩
  | succ n ih =>
    intro i0 σ
    obtain ⟨σ1, h5run, h5fr, -, h5k1, h5k2, h5norm⟩ := loop5_eq U F (σ.nPts_r - 0) 0 { σ with i := i0 }
    have h5fr' : Frame σ σ1 := (⟨rfl, rfl, rfl, rfl⟩ : Frame σ { σ with i := i0 }).trans h5fr
    have h5k1' : ∀ a b, K1 σ1 a b = if a = i0 ∧ 0 ≤ b ∧ b < 0 + (σ.nPts_r - 0) then PT σ a b else K1 σ a b := h5k1
    have h5k2' : ∀ a b, K2 σ1 a b = if a = i0 ∧ 0 ≤ b ∧ b < 0 + (σ.nPts_r - 0) then PT σ a b else K2 σ a b := h5k2
    have h5norm' : σ1.norm = (List.range' 0 (σ.nPts_r - 0)).foldl (fun nm b => NU σ i0 b nm) σ.norm := h5norm
    obtain ⟨σ', hrun, hfr, hk1, hk2, hnorm⟩ := ih (i0 + 1) σ1
    have hq := consts_qPts σ _ h5fr'.consts
    have hr := consts_rPts σ _ h5fr'.consts
    have hnr := consts_nr σ _ h5fr'.consts
    rw [hnr] at hk1 hk2
    have hstep : L4 U F (n + 1) i0 σ = L4 U F n (i0 + 1) σ1 := by
      show (match L5 U F (σ.nPts_r - 0) 0 { σ with i := i0 } with
        | .ok σ => L4 U F n (i0 + 1) σ
        | .done o => .done o) = _
      rw [h5run]
    refine ⟨σ', by rw [hstep, hrun], h5fr'.trans hfr, ?_, ?_, ?_⟩
    · intro a b
      rw [hk1 a b]
      by_cases h1 : (i0 + 1 ≤ a ∧ a < i0 + 1 + n) ∧ b < σ.nPts_r
      · rw [if_pos h1, if_pos (by omega)]
        exact PT_congr σ _ a b h5fr' hq hr (by rw [h5k1', if_neg (by omega)])
      · rw [if_neg h1, h5k1']
        by_cases h2 : a = i0 ∧ 0 ≤ b ∧ b < 0 + (σ.nPts_r - 0)
        · rw [if_pos h2, if_pos (by omega)]
        · rw [if_neg h2, if_neg (by omega)]
    · intro a b
      rw [hk2 a b]
      by_cases h1 : (i0 + 1 ≤ a ∧ a < i0 + 1 + n) ∧ b < σ.nPts_r
      · rw [if_pos h1, if_pos (by omega)]
        exact PT_congr σ _ a b h5fr' hq hr (by rw [h5k1', if_neg (by omega)])
      · rw [if_neg h1, h5k2']
        by_cases h2 : a = i0 ∧ 0 ≤ b ∧ b < 0 + (σ.nPts_r - 0)
        · rw [if_pos h2, if_pos (by omega)]
        · rw [if_neg h2, if_neg (by omega)]
    · rw [hnorm, h5norm']
      unfold rowsNorm
      rw [List.range'_succ, List.foldl_cons, hnr, Nat.sub_zero]
      apply List.foldl_ext
      intro nm a ha
      rw [List.mem_range'_1] at ha
      apply List.foldl_ext
      intro nm' b _
      exact congrFun (NU_congr σ _ a b h5fr' hq hr (by rw [h5k1', if_neg (by omega)])) nm'


/-! ## arrays over the nodes as row-major lists (the model's representation) -/

/-- the entries `g i j`, `i < nq`, `j < nr`, in the order of the loops (`i` outer, `j` inner) -/
def grid {α : Type} (g : ℕ → ℕ → α) (nq nr : ℕ) : List α := (List.range nq).flatMap (fun i => (List.range nr).map (fun j => g i j))

theorem nodeList_eq_grid (q r : ℕ → ℚ) (nq nr : ℕ) : nodeList q r nq nr = grid (fun i j => (q i, r j)) nq nr := rfl

theorem grid_map {α β : Type} (φ : α → β) (g : ℕ → ℕ → α) (nq nr : ℕ) : (grid g nq nr).map φ = grid (fun i j => φ (g i j)) nq nr := by
  unfold grid
  rw [List.map_flatMap]
  simp only [List.map_map, Function.comp_def]

theorem grid_congr {α : Type} (g h : ℕ → ℕ → α) (nq nr : ℕ) (hgh : ∀ i j, i < nq → j < nr → g i j = h i j) : grid g nq nr = grid h nq nr := by
  unfold grid
  apply List.flatMap_congr
  intro i hi
  apply List.map_congr_left
  intro j hj
  exact hgh i j (List.mem_range.mp hi) (List.mem_range.mp hj)

theorem grid_length {α : Type} (g : ℕ → ℕ → α) (nq nr : ℕ) : (grid g nq nr).length = nq * nr := by
  unfold grid
  induction nq with
  | zero => simp
  | succ m ihm => rw [List.range_succ, List.flatMap_append, List.length_append, ihm]; simp [Nat.succ_mul]

theorem grid_zip {α β : Type} (g : ℕ → ℕ → α) (h : ℕ → ℕ → β) (nq nr : ℕ) :
    (grid g nq nr).zip (grid h nq nr) = grid (fun i j => (g i j, h i j)) nq nr := by
  induction nq with
  | zero => rfl
  | succ n ih =>
    have hl := (grid_length g n nr).trans (grid_length h n nr).symm
    unfold grid at ih hl ⊢
    rw [List.range_succ, List.flatMap_append, List.flatMap_append, List.flatMap_append, List.zip_append hl, ih]
    congr 1
    simp only [List.flatMap_cons, List.flatMap_nil, List.append_nil, List.zip_map', List.zip_map]

theorem grid_foldl {α β : Type} (op : β → α → β) (g : ℕ → ℕ → α) (nq nr : ℕ) (z : β) :
    (grid g nq nr).foldl op z = (List.range nq).foldl (fun acc i => (List.range nr).foldl (fun acc j => op acc (g i j)) acc) z := by
  unfold grid
  rw [List.foldl_flatMap]
  simp only [List.foldl_map]


/-! ## one sweep = the model's `sweep` -/

/-- the two tables hold, at every node of the box, the evaluator's value there divided by the radius (what the first double loop leaves, under
    the contract on `eval_spline_2d_cross`: `init_tabOK`) -/
def TabOK (σ : St) : Prop := ∀ a b, a < σ.nPts_q → b < σ.nPts_r →
  σ.drPhi_0 a b = (consts σ).drS (σ.qPts a) (σ.rPts b) / σ.rPts b ∧ σ.dthetaPhi_0 a b = (consts σ).dqS (σ.qPts a) (σ.rPts b) / σ.rPts b

theorem TabOK.frame {σ σ' : St} (h : TabOK σ) (hf : Frame σ σ') : TabOK σ' := by
  intro a b ha hb
  rw [consts_nq σ σ' hf.consts] at ha
  rw [consts_nr σ σ' hf.consts] at hb
  rw [hf.dr0, hf.dt0, hf.consts, consts_qPts σ σ' hf.consts, consts_rPts σ σ' hf.consts]
  exact h a b ha hb

/-- the model's sweep on the row-major lists of the nodes and of the current end points, in terms of the generated code's `PT` and `NU` -/
theorem sweep_model (σ : St) (dt B0 : ℚ) (hmf : σ.multFactor = dt / B0 * (1 / 2)) (htab : TabOK σ) :
    sweep (evalsOf (consts σ)) (paramsOf dt B0 (consts σ)) (2 * σ.pi) σ.pi (nodeList σ.qPts σ.rPts σ.nPts_q σ.nPts_r)
        (grid (K1 σ) σ.nPts_q σ.nPts_r) =
      (grid (PT σ) σ.nPts_q σ.nPts_r, rowsNorm σ 0 σ.nPts_q 0) := by
  have hnode : ∀ i j, i < σ.nPts_q → j < σ.nPts_r →
      implNode (evalsOf (consts σ)) (paramsOf dt B0 (consts σ)) (2 * σ.pi) σ.pi (σ.qPts i) (σ.rPts j) (K1 σ i j) =
        (PT σ i j, (dQ (consts σ) (σ.drPhi_0 i j) (σ.qPts i) (σ.endPts_k1_q i j) (σ.endPts_k1_r i j),
                    dR (consts σ) (σ.dthetaPhi_0 i j) (σ.rPts j) (σ.endPts_k1_q i j) (σ.endPts_k1_r i j))) := by
    intro i j hi hj
    have := node_eq_implNode (consts σ) dt B0 hmf (σ.qPts i) (σ.rPts j) (σ.endPts_k1_q i j) (σ.endPts_k1_r i j)
    rw [← (htab i j hi hj).1, ← (htab i j hi hj).2] at this
    exact this
  unfold sweep
  simp only
  rw [nodeList_eq_grid, grid_zip, grid_map, grid_map, grid_map, grid_foldl]
  congr 1
  · apply grid_congr
    intro i j hi hj
    show (implNode _ _ _ _ (σ.qPts i) (σ.rPts j) (K1 σ i j)).1 = _
    rw [hnode i j hi hj]
  · unfold rowsNorm
    rw [← List.range_eq_range', ← List.range_eq_range']
    apply List.foldl_ext
    intro nm i hi
    apply List.foldl_ext
    intro nm' j hj
    show normUpd nm' (implNode _ _ _ _ (σ.qPts i) (σ.rPts j) (K1 σ i j)).2 = _
    rw [hnode i j (List.mem_range.mp hi) (List.mem_range.mp hj)]
    rfl

/-- **one pass of the generated `while` body over all nodes is the model's sweep, including the norm it computes**: `norm = 0.0` and the double
    loop, from any state `σ` whose tables are `TabOK` and whose `multFactor` is `dt/B0 · 1/2`: the call of the loop returns; the row-major list of the
    new `(endPts_k1_q, endPts_k1_r)` and the new `norm` are the two components of `PolAdv.sweep` on the list of the old ones; inside the box
    `endPts_k2_*` holds the same points; outside the box nothing changes; constants, tables and `f` are untouched -/
theorem gen_impl_sweep_eq (U : ℕ → ℚ) (F : ℕ) (σ : St) (dt B0 : ℚ) (hmf : σ.multFactor = dt / B0 * (1 / 2)) (htab : TabOK σ) :
    ∃ σ', L4 U F (σ.nPts_q - 0) 0 { σ with norm := 0 } = .ok σ' ∧ Frame σ σ' ∧
      (grid (K1 σ') σ.nPts_q σ.nPts_r, σ'.norm) =
        sweep (evalsOf (consts σ)) (paramsOf dt B0 (consts σ)) (2 * σ.pi) σ.pi (nodeList σ.qPts σ.rPts σ.nPts_q σ.nPts_r)
          (grid (K1 σ) σ.nPts_q σ.nPts_r) ∧
      (∀ a b, a < σ.nPts_q → b < σ.nPts_r → K2 σ' a b = K1 σ' a b) ∧
      (∀ a b, ¬ (a < σ.nPts_q ∧ b < σ.nPts_r) → K1 σ' a b = K1 σ a b ∧ K2 σ' a b = K2 σ a b) := by
  obtain ⟨σ', hrun, hfr, hk1, hk2, hnorm⟩ := loop4_eq U F (σ.nPts_q - 0) 0 { σ with norm := 0 }
  have hfr' : Frame σ σ' := (⟨rfl, rfl, rfl, rfl⟩ : Frame σ { σ with norm := 0 }).trans hfr
  have hk1' : ∀ a b, K1 σ' a b = if (0 ≤ a ∧ a < 0 + (σ.nPts_q - 0)) ∧ b < σ.nPts_r then PT σ a b else K1 σ a b := hk1
  have hk2' : ∀ a b, K2 σ' a b = if (0 ≤ a ∧ a < 0 + (σ.nPts_q - 0)) ∧ b < σ.nPts_r then PT σ a b else K2 σ a b := hk2
  have hnorm' : σ'.norm = rowsNorm σ 0 (σ.nPts_q - 0) 0 := hnorm
  refine ⟨σ', hrun, hfr', ?_, ?_, ?_⟩
  · rw [sweep_model σ dt B0 hmf htab, hnorm', Nat.sub_zero]
    congr 1
    apply grid_congr
    intro a b ha hb
    rw [hk1', if_pos (by omega)]
  · intro a b ha hb
    rw [hk1', hk2', if_pos (by omega), if_pos (by omega)]
  · intro a b h
    rw [hk1', hk2', if_neg (by omega), if_neg (by omega)]
    exact ⟨rfl, rfl⟩


/-! ## the `while` loop = the model's `implLoop` -/

/-- the model's fixed-point loop for the constants `c` (exact arithmetic: `rnd = id`; period `2*pi`, half period `pi`) -/
def mLoop (c : Consts) (dt B0 : ℚ) (N : ℕ) (state : List (ℚ × ℚ)) (cnt : ℕ) (norms : List ℚ) : Option (List (ℚ × ℚ) × ℕ × List ℚ) :=
  implLoop (evalsOf c) (paramsOf dt B0 c) (2 * c.pi) c.pi c.tol id (nodeList c.qPts c.rPts c.nq c.nr) N state cnt norms

theorem map_rnd_id (l : List (ℚ × ℚ)) : l.map (fun p => (id p.1, id p.2)) = l := by
  simp only [id, Prod.mk.eta, List.map_id']

theorem loop3_succ_pos (U : ℕ → ℚ) (F f : ℕ) (σ σ1 : St) (h : σ.norm > σ.tol)
    (h4 : L4 U F (σ.nPts_q - 0) 0 { σ with norm := 0 } = .ok σ1) : L3 U F (f + 1) σ = L3 U F f σ1 := by
  show (if σ.norm > σ.tol then
      (match L4 U F (σ.nPts_q - 0) 0 { σ with norm := 0 } with
        | .ok σ => L3 U F f σ
        | .done o => .done o)
    else Res.ok σ) = _
  rw [if_pos h, h4]

theorem loop3_succ_neg (U : ℕ → ℚ) (F f : ℕ) (σ : St) (h : ¬ σ.norm > σ.tol) : L3 U F (f + 1) σ = .ok σ := by
  show (if σ.norm > σ.tol then
      (match L4 U F (σ.nPts_q - 0) 0 { σ with norm := 0 } with
        | .ok σ => L3 U F f σ
        | .done o => .done o)
    else Res.ok σ) = _
  rw [if_neg h]

/-- **the generated `while (norm > tol)` follows the model's `implLoop`**: entered with `norm > tol` (the source sets `norm = tol + 1`), tables `TabOK`,
    `multFactor = dt/B0 · 1/2`; if the model's loop with fuel `N` (at most `N` sweeps) returns from the row-major list of the current end points,
    the generated loop with fuel `f ≥ N + 1` (it TESTS the condition once more than it sweeps) returns; the list of the final `(endPts_k1_q,
    endPts_k1_r)` is the model's, `endPts_k2_*` holds the same points inside the box, `norm ≤ tol` at the end; constants, tables and `f` untouched -/
theorem gen_impl_while_eq (U : ℕ → ℚ) (F : ℕ) (dt B0 : ℚ) : ∀ (N f : ℕ) (σ : St) (cnt : ℕ) (norms : List ℚ) (res : List (ℚ × ℚ) × ℕ × List ℚ),
    N + 1 ≤ f → σ.norm > σ.tol → σ.multFactor = dt / B0 * (1 / 2) → TabOK σ →
    mLoop (consts σ) dt B0 N (grid (K1 σ) σ.nPts_q σ.nPts_r) cnt norms = some res →
    ∃ σ', L3 U F f σ = .ok σ' ∧ Frame σ σ' ∧ grid (K1 σ') σ.nPts_q σ.nPts_r = res.1 ∧ ¬ σ'.norm > σ'.tol ∧
      (∀ a b, a < σ.nPts_q → b < σ.nPts_r → K2 σ' a b = K1 σ' a b) := by
  intro N
  induction N with
  | zero =>
    intro f σ cnt norms res _ _ _ _ h
    simp [mLoop, implLoop] at h
  | succ N ih =>
    intro f σ cnt norms res hf hn hmf htab h
    obtain ⟨f', rfl⟩ : ∃ f', f = f' + 1 := ⟨f - 1, by omega⟩
    obtain ⟨σ1, h4run, hfr, hsw, hk2, -⟩ := gen_impl_sweep_eq U F σ dt B0 hmf htab
    have hsw' : sweep (evalsOf (consts σ)) (paramsOf dt B0 (consts σ)) (2 * (consts σ).pi) (consts σ).pi
        (nodeList (consts σ).qPts (consts σ).rPts (consts σ).nq (consts σ).nr) (grid (K1 σ) σ.nPts_q σ.nPts_r)
        = (grid (K1 σ1) σ.nPts_q σ.nPts_r, σ1.norm) := hsw.symm
    have hnq := consts_nq σ σ1 hfr.consts
    have hnr := consts_nr σ σ1 hfr.consts
    have htol : σ1.tol = σ.tol := congrArg Consts.tol hfr.consts
    have hmf1 : σ1.multFactor = dt / B0 * (1 / 2) := (congrArg Consts.mf hfr.consts).trans hmf
    unfold mLoop implLoop at h
    simp only [hsw', map_rnd_id] at h
    by_cases hc : σ1.norm > σ1.tol
    · have hc' : σ1.norm > (consts σ).tol := by rw [htol] at hc; exact hc
      rw [if_pos hc'] at h
      have h' : mLoop (consts σ1) dt B0 N (grid (K1 σ1) σ1.nPts_q σ1.nPts_r) (cnt + 1) (norms ++ [σ1.norm]) = some res := by
        rw [hfr.consts, hnq, hnr]
        exact h
      obtain ⟨σ', hrun, hfr', hg, hnn, hk2'⟩ := ih f' σ1 (cnt + 1) _ res (by omega) hc hmf1 (htab.frame hfr) h'
      rw [hnq, hnr] at hg hk2'
      exact ⟨σ', by rw [loop3_succ_pos U F f' σ σ1 hn h4run, hrun], hfr.trans hfr', hg, hnn, hk2'⟩
    · have hc' : ¬ σ1.norm > (consts σ).tol := by rw [htol] at hc; exact hc
      rw [if_neg hc'] at h
      obtain ⟨f'', rfl⟩ : ∃ f'', f' = f'' + 1 := ⟨f' - 1, by omega⟩
      refine ⟨σ1, by rw [loop3_succ_pos U F (f'' + 1) σ σ1 hn h4run, loop3_succ_neg U F f'' σ1 hc], hfr, ?_, hc, hk2⟩
      rw [← Option.some.inj h]


/-! ## the value at the converged feet (second double loop; same statements as in the explicit scheme, Props/C12Gen.lean) -/

local notation "B7" => body_of_general_poloidal_advection_step_impl_loop7
local notation "B9" => body_of_general_poloidal_advection_step_impl_loop9
local notation "L6" => general_poloidal_advection_step_impl_loop6
local notation "L7" => general_poloidal_advection_step_impl_loop7
local notation "L8" => general_poloidal_advection_step_impl_loop8
local notation "L9" => general_poloidal_advection_step_impl_loop9

theorem loop7_succ (U : ℕ → ℚ) (F n j : ℕ) (σ : St) : L7 U F (n + 1) j σ = L7 U F n (j + 1) (B7 σ j) := rfl
theorem loop9_succ (U : ℕ → ℚ) (F n j : ℕ) (σ : St) : L9 U F (n + 1) j σ = L9 U F n (j + 1) (B9 σ j) := rfl

/-- what the second double loop stores in `f[i, j]` for the foot `(fq, fr)` -/
def finalGen (c : Consts) (fq fr : ℚ) : ℚ :=
  if fr < c.rPts 0 then (if c.nul = true then 0 else c.feq (c.rPts 0) c.v)
  else if fr > c.rMax then (if c.nul = true then 0 else c.feq fr c.v)
  else c.fS (pyMod fq (2 * c.pi)) fr


theorem body7_consts (σ : St) (j : ℕ) : consts (B7 σ j) = consts σ := by
  unfold body_of_general_poloidal_advection_step_impl_loop7 part1_of_general_poloidal_advection_step_impl_loop7
  exact C12Gen.ite_proj consts _ _ _ _ (fun _ => rfl) (fun _ => C12Gen.ite_proj consts _ _ _ _ (fun _ => rfl) (fun _ => rfl))
theorem body7_i (σ : St) (j : ℕ) : (B7 σ j).i = σ.i := by
  unfold body_of_general_poloidal_advection_step_impl_loop7 part1_of_general_poloidal_advection_step_impl_loop7
  exact C12Gen.ite_proj St.i _ _ _ _ (fun _ => rfl) (fun _ => C12Gen.ite_proj St.i _ _ _ _ (fun _ => rfl) (fun _ => rfl))
theorem body7_k2r (σ : St) (j : ℕ) : (B7 σ j).endPts_k2_r = σ.endPts_k2_r := by
  unfold body_of_general_poloidal_advection_step_impl_loop7 part1_of_general_poloidal_advection_step_impl_loop7
  exact C12Gen.ite_proj St.endPts_k2_r _ _ _ _ (fun _ => rfl) (fun _ => C12Gen.ite_proj St.endPts_k2_r _ _ _ _ (fun _ => rfl) (fun _ => rfl))
theorem body7_k2q (σ : St) (j a b : ℕ) (h : ¬ (a = σ.i ∧ b = j)) : (B7 σ j).endPts_k2_q a b = σ.endPts_k2_q a b := by
  unfold body_of_general_poloidal_advection_step_impl_loop7 part1_of_general_poloidal_advection_step_impl_loop7
  exact C12Gen.ite_proj (fun s => St.endPts_k2_q s a b) _ _ _ _ (fun _ => rfl)
    (fun _ => C12Gen.ite_proj (fun s => St.endPts_k2_q s a b) _ _ _ _ (fun _ => rfl) (fun _ => if_neg h))
theorem body7_f (σ : St) (j a b : ℕ) (hn : (consts σ).nul = true) : (B7 σ j).f a b =
    if a = σ.i ∧ b = j then finalGen (consts σ) (σ.endPts_k2_q σ.i j) (σ.endPts_k2_r σ.i j) else σ.f a b := by
  have hn' : σ.nulBound = true := hn
  unfold body_of_general_poloidal_advection_step_impl_loop7 part1_of_general_poloidal_advection_step_impl_loop7 finalGen
  simp only [consts, hn']
  by_cases h1 : σ.endPts_k2_r σ.i j < σ.rPts 0
  · simp only [h1, if_true, Bool.false_eq_true, if_false]
  · by_cases h2 : σ.endPts_k2_r σ.i j > σ.rMax
    · simp only [h1, h2, if_true, if_false, Bool.false_eq_true]
    · simp only [h1, h2, if_false, eq_self, and_self, if_true]
theorem body9_consts (σ : St) (j : ℕ) : consts (B9 σ j) = consts σ := by
  unfold body_of_general_poloidal_advection_step_impl_loop9 part1_of_general_poloidal_advection_step_impl_loop9
  exact C12Gen.ite_proj consts _ _ _ _ (fun _ => rfl) (fun _ => C12Gen.ite_proj consts _ _ _ _ (fun _ => rfl) (fun _ => rfl))
theorem body9_i (σ : St) (j : ℕ) : (B9 σ j).i = σ.i := by
  unfold body_of_general_poloidal_advection_step_impl_loop9 part1_of_general_poloidal_advection_step_impl_loop9
  exact C12Gen.ite_proj St.i _ _ _ _ (fun _ => rfl) (fun _ => C12Gen.ite_proj St.i _ _ _ _ (fun _ => rfl) (fun _ => rfl))
theorem body9_k2r (σ : St) (j : ℕ) : (B9 σ j).endPts_k2_r = σ.endPts_k2_r := by
  unfold body_of_general_poloidal_advection_step_impl_loop9 part1_of_general_poloidal_advection_step_impl_loop9
  exact C12Gen.ite_proj St.endPts_k2_r _ _ _ _ (fun _ => rfl) (fun _ => C12Gen.ite_proj St.endPts_k2_r _ _ _ _ (fun _ => rfl) (fun _ => rfl))
theorem body9_k2q (σ : St) (j a b : ℕ) (h : ¬ (a = σ.i ∧ b = j)) : (B9 σ j).endPts_k2_q a b = σ.endPts_k2_q a b := by
  unfold body_of_general_poloidal_advection_step_impl_loop9 part1_of_general_poloidal_advection_step_impl_loop9
  exact C12Gen.ite_proj (fun s => St.endPts_k2_q s a b) _ _ _ _ (fun _ => rfl)
    (fun _ => C12Gen.ite_proj (fun s => St.endPts_k2_q s a b) _ _ _ _ (fun _ => rfl) (fun _ => if_neg h))
theorem body9_f (σ : St) (j a b : ℕ) (hn : (consts σ).nul = false) : (B9 σ j).f a b =
    if a = σ.i ∧ b = j then finalGen (consts σ) (σ.endPts_k2_q σ.i j) (σ.endPts_k2_r σ.i j) else σ.f a b := by
  have hn' : σ.nulBound = false := hn
  unfold body_of_general_poloidal_advection_step_impl_loop9 part1_of_general_poloidal_advection_step_impl_loop9 finalGen
  simp only [consts, hn']
  by_cases h1 : σ.endPts_k2_r σ.i j < σ.rPts 0
  · simp only [h1, if_true, Bool.false_eq_true, if_false]
  · by_cases h2 : σ.endPts_k2_r σ.i j > σ.rMax
    · simp only [h1, h2, if_true, if_false, Bool.false_eq_true]
    · simp only [h1, h2, if_false, eq_self, and_self, if_true]


/-- inner loop of the second double loop under `nulBound == true`, at fixed `i`, started at `j0` with `n` iterations left: `f[σ.i, j0 .. j0+n)`
    receive `finalGen` of the feet stored for those nodes; the other entries of `f`, the feet of all other nodes and the constants are untouched -/
theorem loop7_eq (U : ℕ → ℚ) (F : ℕ) : ∀ (n j0 : ℕ) (σ : St), (consts σ).nul = true →
    ∃ σ', L7 U F n j0 σ = .ok σ' ∧ consts σ' = consts σ ∧ σ'.i = σ.i ∧
      σ'.endPts_k2_r = σ.endPts_k2_r ∧
      (∀ a b, ¬ (a = σ.i ∧ j0 ≤ b ∧ b < j0 + n) → σ'.endPts_k2_q a b = σ.endPts_k2_q a b) ∧
      (∀ a b, σ'.f a b = if a = σ.i ∧ j0 ≤ b ∧ b < j0 + n then finalGen (consts σ) (σ.endPts_k2_q a b) (σ.endPts_k2_r a b)
        else σ.f a b) := by
  intro n
  induction n with
  | zero =>
    intro j0 σ _
    exact ⟨σ, rfl, rfl, rfl, rfl, fun _ _ _ => rfl, fun a b => by rw [if_neg (by omega)]⟩
  | succ n ih =>
    intro j0 σ hn
    obtain ⟨σ', hrun, hc, hi, hr, hq, hf⟩ := ih (j0 + 1) (B7 σ j0) (by rw [body7_consts]; exact hn)
    rw [body7_i] at hi
    simp only [body7_i] at hq hf
    rw [body7_consts, body7_k2r] at hf
    refine ⟨σ', by rw [loop7_succ, hrun], hc.trans (body7_consts σ j0), hi, hr.trans (body7_k2r σ j0), ?_, ?_⟩
    · intro a b h
      rw [hq a b (by omega), body7_k2q σ j0 a b (by omega)]
    · intro a b
      rw [hf a b]
      by_cases h1 : a = σ.i ∧ j0 + 1 ≤ b ∧ b < j0 + 1 + n
      · rw [if_pos h1, if_pos (by omega), body7_k2q σ j0 a b (by omega)]
      · rw [if_neg h1, body7_f σ j0 a b hn]
        by_cases h2 : a = σ.i ∧ b = j0
        · rw [if_pos h2, if_pos (by omega), h2.1, h2.2]
        · rw [if_neg h2, if_neg (by omega)]

/-- the second double loop under `nulBound == true`, started at row `i0` with `n` rows left -/
theorem loop6_eq (U : ℕ → ℚ) (F : ℕ) : ∀ (n i0 : ℕ) (σ : St), (consts σ).nul = true →
    ∃ σ', L6 U F n i0 σ = .ok σ' ∧ consts σ' = consts σ ∧
      σ'.endPts_k2_r = σ.endPts_k2_r ∧
      (∀ a b, ¬ ((i0 ≤ a ∧ a < i0 + n) ∧ b < (consts σ).nr) → σ'.endPts_k2_q a b = σ.endPts_k2_q a b) ∧
      (∀ a b, σ'.f a b = if (i0 ≤ a ∧ a < i0 + n) ∧ b < (consts σ).nr then
        finalGen (consts σ) (σ.endPts_k2_q a b) (σ.endPts_k2_r a b) else σ.f a b) := by
  intro n
  induction n with
  | zero =>
    intro i0 σ _
    exact ⟨σ, rfl, rfl, rfl, fun _ _ _ => rfl, fun a b => by rw [if_neg (by omega)]⟩
  | succ n ih =>
    intro i0 σ hn
    obtain ⟨σ1, h2run, h2c, h2i, h2r, h2q, h2f⟩ := loop7_eq U F (σ.nPts_r - 0) 0 { σ with i := i0 } hn
    have h2c' : consts σ1 = consts σ := h2c
    obtain ⟨σ', hrun, hc, hr, hq, hf⟩ := ih (i0 + 1) σ1 (by rw [h2c']; exact hn)
    have hnr : (consts σ).nr = σ.nPts_r := rfl
    have h2r' : σ1.endPts_k2_r = σ.endPts_k2_r := h2r
    rw [h2c', h2r'] at hf
    rw [h2c'] at hq
    have hstep : L6 U F (n + 1) i0 σ
        = L6 U F n (i0 + 1) σ1 := by
      show (match L7 U F (σ.nPts_r - 0) 0 { σ with i := i0 } with
        | .ok σ => L6 U F n (i0 + 1) σ
        | .done o => .done o) = _
      rw [h2run]
    have h2q' : ∀ a b, ¬ (a = i0 ∧ 0 ≤ b ∧ b < 0 + (σ.nPts_r - 0)) → σ1.endPts_k2_q a b = σ.endPts_k2_q a b := h2q
    have h2f' : ∀ a b, σ1.f a b = if a = i0 ∧ 0 ≤ b ∧ b < 0 + (σ.nPts_r - 0) then
        finalGen (consts σ) (σ.endPts_k2_q a b) (σ.endPts_k2_r a b) else σ.f a b := h2f
    refine ⟨σ', by rw [hstep, hrun], hc.trans h2c', hr.trans h2r', ?_, ?_⟩
    · intro a b h
      rw [hq a b (by omega), h2q' a b (by omega)]
    · intro a b
      rw [hf a b]
      by_cases h1 : (i0 + 1 ≤ a ∧ a < i0 + 1 + n) ∧ b < (consts σ).nr
      · rw [if_pos h1, if_pos (by omega), h2q' a b (by omega)]
      · rw [if_neg h1, h2f' a b]
        by_cases h2 : a = i0 ∧ 0 ≤ b ∧ b < 0 + (σ.nPts_r - 0)
        · rw [if_pos h2, if_pos (by omega)]
        · rw [if_neg h2, if_neg (by omega)]

/-- inner loop of the second double loop under `nulBound == false`, at fixed `i`, started at `j0` with `n` iterations left: `f[σ.i, j0 .. j0+n)`
    receive `finalGen` of the feet stored for those nodes; the other entries of `f`, the feet of all other nodes and the constants are untouched -/
theorem loop9_eq (U : ℕ → ℚ) (F : ℕ) : ∀ (n j0 : ℕ) (σ : St), (consts σ).nul = false →
    ∃ σ', L9 U F n j0 σ = .ok σ' ∧ consts σ' = consts σ ∧ σ'.i = σ.i ∧
      σ'.endPts_k2_r = σ.endPts_k2_r ∧
      (∀ a b, ¬ (a = σ.i ∧ j0 ≤ b ∧ b < j0 + n) → σ'.endPts_k2_q a b = σ.endPts_k2_q a b) ∧
      (∀ a b, σ'.f a b = if a = σ.i ∧ j0 ≤ b ∧ b < j0 + n then finalGen (consts σ) (σ.endPts_k2_q a b) (σ.endPts_k2_r a b)
        else σ.f a b) := by
  intro n
  induction n with
  | zero =>
    intro j0 σ _
    exact ⟨σ, rfl, rfl, rfl, rfl, fun _ _ _ => rfl, fun a b => by rw [if_neg (by omega)]⟩
  | succ n ih =>
    intro j0 σ hn
    obtain ⟨σ', hrun, hc, hi, hr, hq, hf⟩ := ih (j0 + 1) (B9 σ j0) (by rw [body9_consts]; exact hn)
    rw [body9_i] at hi
    simp only [body9_i] at hq hf
    rw [body9_consts, body9_k2r] at hf
    refine ⟨σ', by rw [loop9_succ, hrun], hc.trans (body9_consts σ j0), hi, hr.trans (body9_k2r σ j0), ?_, ?_⟩
    · intro a b h
      rw [hq a b (by omega), body9_k2q σ j0 a b (by omega)]
    · intro a b
      rw [hf a b]
      by_cases h1 : a = σ.i ∧ j0 + 1 ≤ b ∧ b < j0 + 1 + n
      · rw [if_pos h1, if_pos (by omega), body9_k2q σ j0 a b (by omega)]
      · rw [if_neg h1, body9_f σ j0 a b hn]
        by_cases h2 : a = σ.i ∧ b = j0
        · rw [if_pos h2, if_pos (by omega), h2.1, h2.2]
        · rw [if_neg h2, if_neg (by omega)]

/-- the second double loop under `nulBound == false`, started at row `i0` with `n` rows left -/
theorem loop8_eq (U : ℕ → ℚ) (F : ℕ) : ∀ (n i0 : ℕ) (σ : St), (consts σ).nul = false →
    ∃ σ', L8 U F n i0 σ = .ok σ' ∧ consts σ' = consts σ ∧
      σ'.endPts_k2_r = σ.endPts_k2_r ∧
      (∀ a b, ¬ ((i0 ≤ a ∧ a < i0 + n) ∧ b < (consts σ).nr) → σ'.endPts_k2_q a b = σ.endPts_k2_q a b) ∧
      (∀ a b, σ'.f a b = if (i0 ≤ a ∧ a < i0 + n) ∧ b < (consts σ).nr then
        finalGen (consts σ) (σ.endPts_k2_q a b) (σ.endPts_k2_r a b) else σ.f a b) := by
  intro n
  induction n with
  | zero =>
    intro i0 σ _
    exact ⟨σ, rfl, rfl, rfl, fun _ _ _ => rfl, fun a b => by rw [if_neg (by omega)]⟩
  | succ n ih =>
    intro i0 σ hn
    obtain ⟨σ1, h2run, h2c, h2i, h2r, h2q, h2f⟩ := loop9_eq U F (σ.nPts_r - 0) 0 { σ with i := i0 } hn
    have h2c' : consts σ1 = consts σ := h2c
    obtain ⟨σ', hrun, hc, hr, hq, hf⟩ := ih (i0 + 1) σ1 (by rw [h2c']; exact hn)
    have hnr : (consts σ).nr = σ.nPts_r := rfl
    have h2r' : σ1.endPts_k2_r = σ.endPts_k2_r := h2r
    rw [h2c', h2r'] at hf
    rw [h2c'] at hq
    have hstep : L8 U F (n + 1) i0 σ
        = L8 U F n (i0 + 1) σ1 := by
      show (match L9 U F (σ.nPts_r - 0) 0 { σ with i := i0 } with
        | .ok σ => L8 U F n (i0 + 1) σ
        | .done o => .done o) = _
      rw [h2run]
    have h2q' : ∀ a b, ¬ (a = i0 ∧ 0 ≤ b ∧ b < 0 + (σ.nPts_r - 0)) → σ1.endPts_k2_q a b = σ.endPts_k2_q a b := h2q
    have h2f' : ∀ a b, σ1.f a b = if a = i0 ∧ 0 ≤ b ∧ b < 0 + (σ.nPts_r - 0) then
        finalGen (consts σ) (σ.endPts_k2_q a b) (σ.endPts_k2_r a b) else σ.f a b := h2f
    refine ⟨σ', by rw [hstep, hrun], hc.trans h2c', hr.trans h2r', ?_, ?_⟩
    · intro a b h
      rw [hq a b (by omega), h2q' a b (by omega)]
    · intro a b
      rw [hf a b]
      by_cases h1 : (i0 + 1 ≤ a ∧ a < i0 + 1 + n) ∧ b < (consts σ).nr
      · rw [if_pos h1, if_pos (by omega), h2q' a b (by omega)]
      · rw [if_neg h1, h2f' a b]
        by_cases h2 : a = i0 ∧ 0 ≤ b ∧ b < 0 + (σ.nPts_r - 0)
        · rw [if_pos h2, if_pos (by omega)]
        · rw [if_neg h2, if_neg (by omega)]

/-- the second double loop stores the model's `finalVal` -/
theorem finalGen_eq_finalVal (c : Consts) (dt B0 : ℚ) (foot : ℚ × ℚ) :
    finalGen c foot.1 foot.2 = C12Gen.interp c.feq (finalVal (evalsOf c) (paramsOf dt B0 c) foot) := by
  unfold finalGen finalVal evalsOf paramsOf
  dsimp only
  split_ifs <;> rfl

/-- the second double loop, both values of `nulBound` -/
theorem phase2_eq (U : ℕ → ℚ) (F : ℕ) (σ : St) :
    ∃ σ', (if σ.nulBound = true then
          (match L6 U F (σ.nPts_q - 0) 0 σ with
            | .ok σ => Out.ret σ
            | .done o => o)
        else
          (match L8 U F (σ.nPts_q - 0) 0 σ with
            | .ok σ => Out.ret σ
            | .done o => o)) = .ret σ' ∧
      ∀ a b, σ'.f a b = if a < (consts σ).nq ∧ b < (consts σ).nr then
        finalGen (consts σ) (σ.endPts_k2_q a b) (σ.endPts_k2_r a b) else σ.f a b := by
  have hnq : (consts σ).nq = σ.nPts_q := rfl
  cases hn : σ.nulBound with
  | true =>
    obtain ⟨σ', hrun, -, -, -, hf⟩ := loop6_eq U F (σ.nPts_q - 0) 0 σ hn
    refine ⟨σ', ?_, fun a b => ?_⟩
    · rw [if_pos rfl, hrun]
    · rw [hf a b]
      by_cases h : a < (consts σ).nq ∧ b < (consts σ).nr
      · rw [if_pos h, if_pos (by omega)]
      · rw [if_neg h, if_neg (by omega)]
  | false =>
    obtain ⟨σ', hrun, -, -, -, hf⟩ := loop8_eq U F (σ.nPts_q - 0) 0 σ hn
    refine ⟨σ', ?_, fun a b => ?_⟩
    · rw [if_neg (by decide), hrun]
    · rw [hf a b]
      by_cases h : a < (consts σ).nq ∧ b < (consts σ).nr
      · rw [if_pos h, if_pos (by omega)]
      · rw [if_neg h, if_neg (by omega)]


/-! ## the first double loop: tables divided by the radius, Euler predictor -/

local notation "B2" => body_of_general_poloidal_advection_step_impl_loop2
local notation "L1" => general_poloidal_advection_step_impl_loop1
local notation "L2" => general_poloidal_advection_step_impl_loop2

/-- `(drPhi_0[a, b], dthetaPhi_0[a, b], (endPts_k1_q[a, b], endPts_k1_r[a, b]))` -/
def T0 (σ : St) (a b : ℕ) : ℚ × ℚ × (ℚ × ℚ) := (σ.drPhi_0 a b, σ.dthetaPhi_0 a b, K1 σ a b)
/-- the same after the body of the first double loop has visited node `(a, b)` -/
def INIT (σ : St) (a b : ℕ) : ℚ × ℚ × (ℚ × ℚ) :=
  (σ.drPhi_0 a b / σ.rPts b, σ.dthetaPhi_0 a b / σ.rPts b,
   (σ.qPts a - σ.drPhi_0 a b / σ.rPts b * σ.multFactor, σ.rPts b + σ.dthetaPhi_0 a b / σ.rPts b * σ.multFactor))

theorem INIT_congr (σ τ : St) (a b : ℕ) (hc : consts τ = consts σ) (ht : T0 τ a b = T0 σ a b) : INIT τ a b = INIT σ a b := by
  have h1 : τ.drPhi_0 a b = σ.drPhi_0 a b := congrArg Prod.fst ht
  have h2 : τ.dthetaPhi_0 a b = σ.dthetaPhi_0 a b := congrArg (fun t => t.2.1) ht
  have hm : τ.multFactor = σ.multFactor := congrArg Consts.mf hc
  unfold INIT
  rw [h1, h2, hm, consts_qPts σ τ hc, consts_rPts σ τ hc]

/-- one iteration of the body of the first double loop in closed form -/
def body2C (σ : St) (j : ℕ) : St :=
  { σ with j := j,
           drPhi_0 := upd2 σ.drPhi_0 σ.i j (σ.drPhi_0 σ.i j / σ.rPts j), dthetaPhi_0 := upd2 σ.dthetaPhi_0 σ.i j (σ.dthetaPhi_0 σ.i j / σ.rPts j),
           endPts_k1_q := upd2 σ.endPts_k1_q σ.i j (σ.qPts σ.i - σ.drPhi_0 σ.i j / σ.rPts j * σ.multFactor),
           endPts_k1_r := upd2 σ.endPts_k1_r σ.i j (σ.rPts j + σ.dthetaPhi_0 σ.i j / σ.rPts j * σ.multFactor) }

theorem body2_eq (σ : St) (j : ℕ) : B2 σ j = body2C σ j := by
  unfold body_of_general_poloidal_advection_step_impl_loop2 part1_of_general_poloidal_advection_step_impl_loop2 body2C upd2
  simp only [and_self, if_true]

theorem body2_consts (σ : St) (j : ℕ) : consts (B2 σ j) = consts σ := by rw [body2_eq]; rfl
theorem body2_i (σ : St) (j : ℕ) : (B2 σ j).i = σ.i := by rw [body2_eq]; rfl
theorem body2_f (σ : St) (j : ℕ) : (B2 σ j).f = σ.f := by rw [body2_eq]; rfl
theorem body2_K2 (σ : St) (j : ℕ) : K2 (B2 σ j) = K2 σ := by rw [body2_eq]; rfl
theorem body2_T0 (σ : St) (j a b : ℕ) : T0 (B2 σ j) a b = if a = σ.i ∧ b = j then INIT σ a b else T0 σ a b := by
  rw [body2_eq]
  by_cases h : a = σ.i ∧ b = j
  · rw [if_pos h, h.1, h.2]
    show (upd2 _ _ _ _ _ _, upd2 _ _ _ _ _ _, (upd2 _ _ _ _ _ _, upd2 _ _ _ _ _ _)) = _
    rw [upd2_self, upd2_self, upd2_self, upd2_self]
    rfl
  · rw [if_neg h]
    show (upd2 _ _ _ _ _ _, upd2 _ _ _ _ _ _, (upd2 _ _ _ _ _ _, upd2 _ _ _ _ _ _)) = _
    rw [upd2_ne _ _ _ _ _ _ h, upd2_ne _ _ _ _ _ _ h, upd2_ne _ _ _ _ _ _ h, upd2_ne _ _ _ _ _ _ h]
    rfl

theorem loop2_succ (U : ℕ → ℚ) (F n j : ℕ) (σ : St) : L2 U F (n + 1) j σ = L2 U F n (j + 1) (B2 σ j) := rfl

/-- inner loop of the first double loop at fixed `i`, started at `j0` with `n` iterations left -/
theorem loop2_eq (U : ℕ → ℚ) (F : ℕ) : ∀ (n j0 : ℕ) (σ : St),
    ∃ σ', L2 U F n j0 σ = .ok σ' ∧ consts σ' = consts σ ∧ σ'.i = σ.i ∧ σ'.f = σ.f ∧ K2 σ' = K2 σ ∧
      (∀ a b, T0 σ' a b = if a = σ.i ∧ j0 ≤ b ∧ b < j0 + n then INIT σ a b else T0 σ a b) := by
  intro n
  induction n with
  | zero =>
    intro j0 σ
    exact ⟨σ, rfl, rfl, rfl, rfl, rfl, fun a b => by rw [if_neg (by omega)]⟩
  | succ n ih =>
    intro j0 σ
    obtain ⟨σ', hrun, hc, hi, hf, hk2, ht⟩ := ih (j0 + 1) (B2 σ j0)
    rw [body2_i] at hi ht
    refine ⟨σ', by rw [loop2_succ, hrun], hc.trans (body2_consts σ j0), hi, hf.trans (body2_f σ j0), hk2.trans (body2_K2 σ j0), ?_⟩
    intro a b
    rw [ht a b]
    by_cases h1 : a = σ.i ∧ j0 + 1 ≤ b ∧ b < j0 + 1 + n
    · rw [if_pos h1, if_pos (by omega)]
      exact INIT_congr σ _ a b (body2_consts σ j0) (by rw [body2_T0, if_neg (by omega)])
    · rw [if_neg h1, body2_T0]
      by_cases h2 : a = σ.i ∧ b = j0
      · rw [if_pos h2, if_pos (by omega)]
      · rw [if_neg h2, if_neg (by omega)]

/-- the first double loop, started at row `i0` with `n` rows left -/
theorem loop1_eq (U : ℕ → ℚ) (F : ℕ) : ∀ (n i0 : ℕ) (σ : St),
    ∃ σ', L1 U F n i0 σ = .ok σ' ∧ consts σ' = consts σ ∧ σ'.f = σ.f ∧ K2 σ' = K2 σ ∧
      (∀ a b, T0 σ' a b = if (i0 ≤ a ∧ a < i0 + n) ∧ b < σ.nPts_r then INIT σ a b else T0 σ a b) := by
  intro n
  induction n with
  | zero =>
    intro i0 σ
    exact ⟨σ, rfl, rfl, rfl, rfl, fun a b => by rw [if_neg (by omega)]⟩
  | succ n ih =>
    intro i0 σ
    obtain ⟨σ1, h2run, h2c, -, h2f, h2k, h2t⟩ := loop2_eq U F (σ.nPts_r - 0) 0 { σ with i := i0 }
    have h2c' : consts σ1 = consts σ := h2c
    have h2f' : σ1.f = σ.f := h2f
    have h2k' : K2 σ1 = K2 σ := h2k
    have h2t' : ∀ a b, T0 σ1 a b = if a = i0 ∧ 0 ≤ b ∧ b < 0 + (σ.nPts_r - 0) then INIT σ a b else T0 σ a b := h2t
    obtain ⟨σ', hrun, hc, hf, hk, ht⟩ := ih (i0 + 1) σ1
    rw [consts_nr σ σ1 h2c'] at ht
    have hstep : L1 U F (n + 1) i0 σ = L1 U F n (i0 + 1) σ1 := by
      show (match L2 U F (σ.nPts_r - 0) 0 { σ with i := i0 } with
        | .ok σ => L1 U F n (i0 + 1) σ
        | .done o => .done o) = _
      rw [h2run]
    refine ⟨σ', by rw [hstep, hrun], hc.trans h2c', hf.trans h2f', hk.trans h2k', ?_⟩
    intro a b
    rw [ht a b]
    by_cases h1 : (i0 + 1 ≤ a ∧ a < i0 + 1 + n) ∧ b < σ.nPts_r
    · rw [if_pos h1, if_pos (by omega)]
      exact INIT_congr σ _ a b h2c' (by rw [h2t', if_neg (by omega)])
    · rw [if_neg h1, h2t']
      by_cases h2 : a = i0 ∧ 0 ≤ b ∧ b < 0 + (σ.nPts_r - 0)
      · rw [if_pos h2, if_pos (by omega)]
      · rw [if_neg h2, if_neg (by omega)]


/-! ## the whole call -/

/-- `run` applied to the parameter fields of a record `p` (its fields for locals are not used): every call of the generated function is of this form -/
def runOn (U : ℕ → ℚ) (F : ℕ) (p : St) : Out St :=
  run U F p.pi p.f_eq p.f p.dt p.v p.rPts p.rPts_len p.qPts p.qPts_len p.drPhi_0 p.drPhi_0_len0 p.drPhi_0_len1 p.dthetaPhi_0 p.dthetaPhi_0_len0 p.dthetaPhi_0_len1 p.drPhi_k p.dthetaPhi_k p.endPts_k1_q p.endPts_k1_r p.endPts_k2_q p.endPts_k2_r p.kts1Phi p.kts1Phi_len p.kts2Phi p.kts2Phi_len p.coeffsPhi p.coeffsPhi_len0 p.coeffsPhi_len1 p.deg1Phi p.deg2Phi p.kts1Pol p.kts1Pol_len p.kts2Pol p.kts2Pol_len p.coeffsPol p.coeffsPol_len0 p.coeffsPol_len1 p.deg1Pol p.deg2Pol p.CN0 p.kN0 p.deltaRN0 p.rp p.CTi p.kTi p.deltaRTi p.B0 p.tol p.nulBound p.eval_spline_2d_cross p.eval_spline_2d_scalar

/-- the table `eval_spline_2d_cross(qPts, rPts, kts1Phi, deg1Phi, kts2Phi, deg2Phi, coeffsPhi, drPhi_0, 0, 1)` leaves in `drPhi_0` -/
def crossDr (p : St) : ℕ → ℕ → ℚ :=
  p.eval_spline_2d_cross p.qPts p.qPts_len p.rPts p.rPts_len p.kts1Phi p.kts1Phi_len p.deg1Phi p.kts2Phi p.kts2Phi_len p.deg2Phi
    p.coeffsPhi p.coeffsPhi_len0 p.coeffsPhi_len1 p.drPhi_0 p.drPhi_0_len0 p.drPhi_0_len1 0 1
/-- the table `eval_spline_2d_cross(…, dthetaPhi_0, 1, 0)` leaves in `dthetaPhi_0` -/
def crossDq (p : St) : ℕ → ℕ → ℚ :=
  p.eval_spline_2d_cross p.qPts p.qPts_len p.rPts p.rPts_len p.kts1Phi p.kts1Phi_len p.deg1Phi p.kts2Phi p.kts2Phi_len p.deg2Phi
    p.coeffsPhi p.coeffsPhi_len0 p.coeffsPhi_len1 p.dthetaPhi_0 p.dthetaPhi_0_len0 p.dthetaPhi_0_len1 1 0

/-- the state in which the first double loop starts -/
def initSt (p : St) : St :=
  { p with multFactor := p.dt / p.B0, drPhi_0 := crossDr p, dthetaPhi_0 := crossDq p,
           nPts_r := p.rPts_len, nPts_q := p.qPts_len, idx := p.rPts_len - 1, rMax := p.rPts (p.rPts_len - 1), i := 0, j := 0, norm := 0, diff := 0 }

/-- the state in which the `while` loop starts, from the state `σ` the first double loop leaves: `multFactor *= 0.5`, `norm = tol + 1` -/
def whileSt (σ : St) : St := { σ with multFactor := σ.multFactor * ((1 : ℚ) / 2), norm := σ.tol + 1 }

/-- the model's evaluators for a call with the parameters `p`: the uninterpreted `eval_spline_2d_scalar` on the phi spline (`der` = (0,1), (1,0))
    and on the spline of `f` (`der` = (0,0)); `wrap x = x % (2*pi)` -/
def modelE (p : St) : Evals ℚ where
  drPhi := fun q r => p.eval_spline_2d_scalar q r p.kts1Phi p.kts1Phi_len p.deg1Phi p.kts2Phi p.kts2Phi_len p.deg2Phi p.coeffsPhi p.coeffsPhi_len0 p.coeffsPhi_len1 0 1
  dqPhi := fun q r => p.eval_spline_2d_scalar q r p.kts1Phi p.kts1Phi_len p.deg1Phi p.kts2Phi p.kts2Phi_len p.deg2Phi p.coeffsPhi p.coeffsPhi_len0 p.coeffsPhi_len1 1 0
  fhat := fun q r => p.eval_spline_2d_scalar q r p.kts1Pol p.kts1Pol_len p.deg1Pol p.kts2Pol p.kts2Pol_len p.deg2Pol p.coeffsPol p.coeffsPol_len0 p.coeffsPol_len1 0 0
  wrap := fun x => pyMod x (2 * p.pi)

/-- the model's parameters for a call with the parameters `p` (what `PoloidalAdvection.step` passes: `Model/PolAdv.mkParams`) -/
def modelP (p : St) : Params ℚ := mkParams p.dt p.B0 p.v p.rPts p.rPts_len p.nulBound

/-- `Val.feq r v` read as `f_eq(r, v, CN0, kN0, deltaRN0, rp, CTi, kTi, deltaRTi)` -/
def interpP (p : St) : Val ℚ → ℚ := C12Gen.interp (fun r v => p.f_eq r v p.CN0 p.kN0 p.deltaRN0 p.rp p.CTi p.kTi p.deltaRTi)

theorem runOn_eq (U : ℕ → ℚ) (F : ℕ) (p : St) : runOn U F p =
    (match L1 U F (p.qPts_len - 0) 0 (initSt p) with
      | .ok σ =>
        (match L3 U F F (whileSt σ) with
          | .ok σ =>
            if σ.nulBound = true then
              (match L6 U F (σ.nPts_q - 0) 0 σ with
                | .ok σ => Out.ret σ
                | .done o => o)
            else
              (match L8 U F (σ.nPts_q - 0) 0 σ with
                | .ok σ => Out.ret σ
                | .done o => o)
          | .done o => o)
      | .done o => o) := rfl


/-- the constants during the `while` loop and after it, for a call with the parameters `p` -/
def constsW (p : St) : Consts := { consts (initSt p) with mf := p.dt / p.B0 * ((1 : ℚ) / 2) }

theorem evalsOf_constsW (p : St) : evalsOf (constsW p) = modelE p := rfl
theorem paramsOf_constsW (p : St) : paramsOf p.dt p.B0 (constsW p) = modelP p := rfl

/-- **the generated `general_poloidal_advection_step_impl` computes what the model `PolAdv.implStep` prescribes**: for all parameters `p` (arrays of
    every extent, every `dt`, `v`, `B0`, `tol`, `pi`, both values of `nulBound`, all uninterpreted functions, every previous content of `f` and of the
    eight work arrays), under the CONTRACT that the two tables `eval_spline_2d_cross` fills hold, at every node inside the box, the value of
    `eval_spline_2d_scalar` there: whenever the model's implicit step with fuel `N` (at most `N` sweeps, exact arithmetic `rnd = id`, period `2*pi`,
    half period `pi`) returns `res`, the generated function with fuel `F ≥ N + 1` (its `while` TESTS the condition once more than it sweeps)
    returns, the row-major list of `f[i, j]`, `i < len(qPts)`, `j < len(rPts)`, is the model's list of values `res.1` read through `interpP`
    (`Val.feq r v` = the call of `f_eq`), and every other entry of `f` is what it was -/
theorem gen_pol_impl_eq (U : ℕ → ℚ) (F : ℕ) (p : St)
    (hcross : ∀ i j, i < p.qPts_len → j < p.rPts_len →
      crossDr p i j = (modelE p).drPhi (p.qPts i) (p.rPts j) ∧ crossDq p i j = (modelE p).dqPhi (p.qPts i) (p.rPts j))
    (N : ℕ) (res : List (Val ℚ) × List (ℚ × ℚ) × ℕ × List ℚ)
    (hmodel : implStep (modelE p) (modelP p) (2 * p.pi) p.pi p.tol id N p.qPts p.rPts p.qPts_len p.rPts_len = some res)
    (hF : N + 1 ≤ F) :
    ∃ σ', runOn U F p = .ret σ' ∧
      grid σ'.f p.qPts_len p.rPts_len = res.1.map (interpP p) ∧
      (∀ i j, ¬ (i < p.qPts_len ∧ j < p.rPts_len) → σ'.f i j = p.f i j) := by
  -- the first double loop
  obtain ⟨σ1, h1run, h1c, h1f, -, h1t⟩ := loop1_eq U F (p.qPts_len - 0) 0 (initSt p)
  have h1t' : ∀ a b, T0 σ1 a b = if (0 ≤ a ∧ a < 0 + (p.qPts_len - 0)) ∧ b < p.rPts_len then INIT (initSt p) a b else T0 (initSt p) a b := h1t
  have hcW : consts (whileSt σ1) = constsW p := by
    show ({ consts σ1 with mf := σ1.multFactor * ((1 : ℚ) / 2) } : Consts) = _
    rw [show σ1.multFactor = p.dt / p.B0 from congrArg Consts.mf h1c, h1c]
    rfl
  have hnq : (whileSt σ1).nPts_q = p.qPts_len := congrArg Consts.nq hcW
  have hnr : (whileSt σ1).nPts_r = p.rPts_len := congrArg Consts.nr hcW
  have hq : (whileSt σ1).qPts = p.qPts := congrArg Consts.qPts hcW
  have hr : (whileSt σ1).rPts = p.rPts := congrArg Consts.rPts hcW
  have hbox : ∀ a b, a < p.qPts_len → b < p.rPts_len → T0 σ1 a b = INIT (initSt p) a b := by
    intro a b ha hb
    rw [h1t', if_pos (by omega)]
  -- the state at the start of the `while`
  have htab : TabOK (whileSt σ1) := by
    intro a b ha hb
    rw [hnq] at ha
    rw [hnr] at hb
    rw [hcW, hq, hr]
    have h1 : σ1.drPhi_0 a b = crossDr p a b / p.rPts b := congrArg Prod.fst (hbox a b ha hb)
    have h2 : σ1.dthetaPhi_0 a b = crossDq p a b / p.rPts b := congrArg (fun t => t.2.1) (hbox a b ha hb)
    show σ1.drPhi_0 a b = _ ∧ σ1.dthetaPhi_0 a b = _
    rw [h1, h2, (hcross a b ha hb).1, (hcross a b ha hb).2]
    exact ⟨rfl, rfl⟩
  have hK1 : ∀ a b, a < p.qPts_len → b < p.rPts_len → K1 (whileSt σ1) a b = implInit (modelE p) (modelP p) (p.qPts a) (p.rPts b) := by
    intro a b ha hb
    have h3 : K1 σ1 a b = (INIT (initSt p) a b).2.2 := congrArg (fun t => t.2.2) (hbox a b ha hb)
    show K1 σ1 a b = _
    rw [h3]
    show (p.qPts a - crossDr p a b / p.rPts b * (p.dt / p.B0), p.rPts b + crossDq p a b / p.rPts b * (p.dt / p.B0)) = _
    rw [(hcross a b ha hb).1, (hcross a b ha hb).2]
    rfl
  have hmfW : (whileSt σ1).multFactor = p.dt / p.B0 * (1 / 2) := congrArg Consts.mf hcW
  have hnorm : (whileSt σ1).norm > (whileSt σ1).tol := by
    show σ1.tol + 1 > σ1.tol
    linarith
  -- the model's loop
  unfold implStep at hmodel
  obtain ⟨r, hloop, hres⟩ := Option.map_eq_some_iff.mp hmodel
  have hinit : (nodeList p.qPts p.rPts p.qPts_len p.rPts_len).map
      (fun n => let q := implInit (modelE p) (modelP p) n.1 n.2; (id q.1, id q.2)) = grid (K1 (whileSt σ1)) p.qPts_len p.rPts_len := by
    rw [nodeList_eq_grid, grid_map]
    apply grid_congr
    intro a b ha hb
    rw [hK1 a b ha hb]
    rfl
  rw [hinit] at hloop
  have hmloop : mLoop (consts (whileSt σ1)) p.dt p.B0 N (grid (K1 (whileSt σ1)) (whileSt σ1).nPts_q (whileSt σ1).nPts_r) 0 [] = some r := by
    rw [hcW, hnq, hnr]
    exact hloop
  obtain ⟨σ3, h3run, h3fr, h3g, -, h3k2⟩ := gen_impl_while_eq U F p.dt p.B0 N F (whileSt σ1) 0 [] r hF hnorm hmfW htab hmloop
  rw [hnq, hnr] at h3g h3k2
  have hc3 : consts σ3 = constsW p := h3fr.consts.trans hcW
  -- the values at the feet
  obtain ⟨σ', h4run, h4f⟩ := phase2_eq U F σ3
  have hf3 : σ3.f = p.f := h3fr.f.trans h1f
  rw [hc3] at h4f
  have hfin : ∀ a b, a < p.qPts_len → b < p.rPts_len →
      σ'.f a b = interpP p (finalVal (modelE p) (modelP p) (K1 σ3 a b)) := by
    intro a b ha hb
    rw [h4f a b, if_pos ⟨ha, hb⟩]
    have hk : (σ3.endPts_k2_q a b, σ3.endPts_k2_r a b) = K1 σ3 a b := h3k2 a b ha hb
    have := finalGen_eq_finalVal (constsW p) p.dt p.B0 (K1 σ3 a b)
    rw [evalsOf_constsW, paramsOf_constsW] at this
    rw [show σ3.endPts_k2_q a b = (K1 σ3 a b).1 from congrArg Prod.fst hk, show σ3.endPts_k2_r a b = (K1 σ3 a b).2 from congrArg Prod.snd hk]
    exact this
  refine ⟨σ', ?_, ?_, ?_⟩
  · rw [runOn_eq, h1run]
    show (match L3 U F F (whileSt σ1) with
      | .ok σ =>
        if σ.nulBound = true then
          (match L6 U F (σ.nPts_q - 0) 0 σ with
            | .ok σ => Out.ret σ
            | .done o => o)
        else
          (match L8 U F (σ.nPts_q - 0) 0 σ with
            | .ok σ => Out.ret σ
            | .done o => o)
      | .done o => o) = _
    rw [h3run]
    exact h4run
  · rw [← hres]
    show _ = (r.1.map (finalVal (modelE p) (modelP p))).map (interpP p)
    rw [← h3g, grid_map, grid_map]
    apply grid_congr
    intro a b ha hb
    exact hfin a b ha hb
  · intro a b h
    rw [h4f a b, if_neg (show ¬ (a < (constsW p).nq ∧ b < (constsW p).nr) from h), hf3]


/-! ## concrete instance: 3 × 3 nodes `θ ∈ {0, 2, 4}`, `r ∈ {1, 2, 3}`, `pi = 3` (period 6), `dt = 1`, `B0 = 2`, `v = 1/2`, `tol = 1/2`; toy evaluators
    `∂_r φ = q/2 + r`, `∂_θ φ = 2r - q`, interpolant of `f`: `3q + 5r`; `f_eq(r, v, CN0, …) = 100 + r + v + CN0`, `CN0 = 7`; the table procedure fills
    `out[i, j]` with the scalar evaluator at `(qPts[i], rPts[j])`; `f` holds 9 and every work array 7 before the call.  The iteration makes THREE
    sweeps (norms 1, 21/32, 33/266); five of the nine feet are clipped to `r = 1` or `r = 3`. -/
def cSc (q r : ℚ) (d1 d2 : ℕ) : ℚ := if d1 = 0 ∧ d2 = 1 then q / 2 + r else if d1 = 1 ∧ d2 = 0 then 2 * r - q else 3 * q + 5 * r
def cQ : ℕ → ℚ := fun i => ([0, 2, 4, 1000] : List ℚ).getD i 0
def cR : ℕ → ℚ := fun i => ([1, 2, 3, 1000] : List ℚ).getD i 0
def cP (nul : Bool) : St :=
  { pi := 3, f_eq := fun r v CN0 _ _ _ _ _ _ => 100 + r + v + CN0, f := fun _ _ => 9, dt := 1, v := 1 / 2, rPts := cR, rPts_len := 3,
    qPts := cQ, qPts_len := 3, drPhi_0 := fun _ _ => 7, dthetaPhi_0 := fun _ _ => 7, drPhi_k := fun _ _ => 7, dthetaPhi_k := fun _ _ => 7,
    endPts_k1_q := fun _ _ => 7, endPts_k1_r := fun _ _ => 7, endPts_k2_q := fun _ _ => 7, endPts_k2_r := fun _ _ => 7,
    CN0 := 7, B0 := 2, tol := 1 / 2, nulBound := nul,
    eval_spline_2d_cross := fun q _ r _ _ _ _ _ _ _ _ _ _ _ _ _ d1 d2 => fun i j => cSc (q i) (r j) d1 d2,
    eval_spline_2d_scalar := fun q r _ _ _ _ _ _ _ _ _ d1 d2 => cSc q r d1 d2 }

/-- the model's implicit step on the instance with fuel 3 -/
def cModel (nul : Bool) := implStep (modelE (cP nul)) (modelP (cP nul)) (2 * (cP nul).pi) (cP nul).pi (cP nul).tol id 3 cQ cR 3 3

/-- the model converges on the instance within 3 sweeps (and not within 2) -/
example : ([true, false].map fun nul => ((cModel nul).map fun r => (r.2.2.1, r.2.2.2)))
    = [some (3, [1, 21 / 32, 33 / 266]), some (3, [1, 21 / 32, 33 / 266])] := by decide +kernel
example : implStep (modelE (cP true)) (modelP (cP true)) (2 * (cP true).pi) (cP true).pi (cP true).tol id 2 cQ cR 3 3 = none := by decide +kernel

example (nul : Bool) (res : List (Val ℚ) × List (ℚ × ℚ) × ℕ × List ℚ) (h : cModel nul = some res) :
    ∃ σ', runOn (fun _ => 7) 4 (cP nul) = .ret σ' ∧ grid σ'.f 3 3 = res.1.map (interpP (cP nul)) ∧
      ∀ i j, ¬ (i < 3 ∧ j < 3) → σ'.f i j = 9 :=
  gen_pol_impl_eq (fun _ => 7) 4 (cP nul) (fun _ _ _ _ => ⟨rfl, rfl⟩) 3 res h (by norm_num)
/-- the generated code itself, evaluated with fuel 4 (three sweeps = four tests of `norm > tol`): the nine new values of `f` are the model's,
    entry by entry, for `nulBound` true and false -/
example : ([true, false].map fun nul => match runOn (fun _ => 7) 4 (cP nul) with
    | .ret σ => some (grid σ.f 3 3) | _ => none) =
    [true, false].map fun nul => (cModel nul).map fun r => r.1.map (interpP (cP nul)) := by decide +kernel
/-- … in numbers, on rows / columns 0..3 (row 3 and column 3 are outside the loops); the same numbers (as floats) are what
    `general_poloidal_advection_step_impl` of /repo returns on these inputs with `numpy.pi` set to 3.0 (clipping keeps every foot inside the radial
    domain, so `nulBound` makes no difference here) -/
example : ([true, false].map fun nul => match runOn (fun _ => 7) 4 (cP nul) with
    | .ret σ => (List.range 4).map (fun i => (List.range 4).map (σ.f i)) | _ => []) =
    [[[5975 / 304, 543849 / 19376, 23687 / 768, 9], [7997 / 816, 273 / 16, 10991 / 576, 9], [3335 / 256, 92741 / 4656, 56683 / 2304, 9], [9, 9, 9, 9]],
     [[5975 / 304, 543849 / 19376, 23687 / 768, 9], [7997 / 816, 273 / 16, 10991 / 576, 9], [3335 / 256, 92741 / 4656, 56683 / 2304, 9], [9, 9, 9, 9]]] := by
  decide +kernel
/-- with fuel 3 the generated `while` runs out of fuel after the third sweep (it needs a fourth test of the condition): `N + 1 ≤ F` is sharp -/
example : (match runOn (fun _ => 7) 3 (cP true) with | .outOfFuel => true | _ => false) = true := by decide +kernel

end PygyroVerif.C12Gen2
