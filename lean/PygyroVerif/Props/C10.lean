/-
C10 — Flux-surface advection is a field-aligned shift along z.

Model: Model/FluxAdv.lean (`shifts`, `lagrangeCoeffs`, `getLagrangeVals`, `fluxAdvection`, `fluxStep`).
Contracts (inputs): `S i x` = theta-spline of row `i` produced by the real interpolator, evaluated at `x`;
`pts j q` = the reduced evaluation point `(theta_q + dtheta*s_j) % 2pi`; `zDist = -v*bz*dt`, `dtheta = dz*iota/R0`.
All theorems hold for every ordered field (`ℚ` in the driver), every grid size `nz > 0`, every number of Lagrange points
`nL > 0` (6 in the code's default), every `zDist` of either sign (multi-cell displacements included).
-/
import PygyroVerif.Lemmas.FieldLine
import Mathlib.Algebra.Order.Floor.Ring
import Mathlib.Algebra.Order.Field.Rat
import Mathlib.Data.Rat.Floor
import Mathlib.Tactic.FieldSimp
import Mathlib.Tactic.NormNum

namespace PygyroVerif.C10
open PygyroVerif.FieldLine PygyroVerif.FluxAdv

variable {K : Type*} [Field K]

/-- The two loops of the kernel (`get_lagrange_vals` for every row, with its `(i - s) % nz` scatter into the scratch
    array, then `flux_advection`) compute the closed form
    `f'(theta_q, z_i) = Σ_k c_k · S_{(i+s_k) mod nz}(pts k q)`, whatever the scratch array held before. -/
theorem flux_step_formula {nz nL : ℕ} (hnz : 0 < nz) (hL : 0 < nL) (S : ℕ → K → K) (pts : ℕ → ℕ → K)
    (sh : ℕ → ℤ) (c : ℕ → K) (vals0 : ℕ → ℕ → ℕ → K) (q i : ℕ) (hi : i < nz) :
    fluxStep nz nL S pts sh c vals0 q i =
      sumRange nL (fun k => c k * S (pmod ((i : ℤ) + sh k) nz) (pts k q)) :=
  fluxStep_eq_fieldSum hnz hL S pts sh c vals0 q i hi

example : fluxStep 3 2 (fun i x => (i : ℚ) + x) (fun _ q => q) (fun k => (k : ℤ) - 4) (fun k => (k : ℚ) + 1)
    (fun _ _ _ => 77) 5 1 = 1 * ((0 : ℚ) + 5) + 2 * (1 + 5) := by
  rw [flux_step_formula (by norm_num) (by norm_num) _ _ _ _ _ _ _ (by norm_num)]
  simp [sumRange, List.range_succ, pmod]
  norm_num

section ordered
variable [LinearOrder K] [FloorRing K]

/-- The stencil is centred on the foot: node `centre` ≤ foot < node `centre + 1` (for `dz > 0`), for displacements
    of either sign and any size. -/
theorem stencil_centred [IsStrictOrderedRing K] (z zDist : K) {dz : K} (hdz : 0 < dz) {nL : ℕ} (hL : 0 < nL) :
    zPts z dz (shifts zDist dz nL) (centre nL) ≤ z + zDist ∧
    z + zDist < zPts z dz (shifts zDist dz nL) (centre nL + 1) := by
  have h1 : shifts zDist dz nL (centre nL + 1) = ⌊zDist / dz⌋ + 1 := by
    unfold shifts stencilStart centre; omega
  unfold zPts
  rw [shifts_centre zDist dz hL, h1]
  have f1 : ((⌊zDist / dz⌋ : ℤ) : K) ≤ zDist / dz := Int.floor_le _
  have f2 : zDist / dz < ((⌊zDist / dz⌋ : ℤ) : K) + 1 := Int.lt_floor_add_one _
  rw [le_div_iff₀ hdz] at f1
  rw [div_lt_iff₀ hdz] at f2
  push_cast
  constructor
  · linarith
  · linarith

example : zPts (1/4 : ℚ) (1/4) (shifts (-5/8 : ℚ) (1/4) 6) 2 ≤ 1/4 + (-5/8) ∧
    (1/4 : ℚ) + (-5/8) < zPts (1/4 : ℚ) (1/4) (shifts (-5/8 : ℚ) (1/4) 6) 3 :=
  stencil_centred (1/4) (-5/8) (by norm_num) (by norm_num : 0 < 6)

/-- The coefficients computed by `_getLagrangePts` (first barycentric formula *and* its `np.where` branch) are the
    Lagrange basis polynomials of the `nL` stencil nodes evaluated at the foot `z + zDist`. -/
theorem lagrange_weights_are_basis (z zDist : K) {dz : K} (hdz : dz ≠ 0) {nL : ℕ} (j : ℕ) (hj : j < nL) :
    lagrangeCoeffs z dz zDist nL (shifts zDist dz nL) j =
      Polynomial.eval (z + zDist) (Lagrange.basis (Finset.range nL) (zPts z dz (shifts zDist dz nL)) j) :=
  lagrangeCoeffs_eq_basis z dz zDist nL _ (shifts_injOn z zDist hdz nL) j hj

example : lagrangeCoeffs (1/4 : ℚ) (1/4) (-5/8) 6 (shifts (-5/8 : ℚ) (1/4) 6) 3 =
    Polynomial.eval ((1/4 : ℚ) + (-5/8))
      (Lagrange.basis (Finset.range 6) (zPts (1/4 : ℚ) (1/4) (shifts (-5/8 : ℚ) (1/4) 6)) 3) :=
  lagrange_weights_are_basis _ _ (by norm_num) 3 (by norm_num)

/-- The Lagrange coefficients sum to one (foot on a node or not). -/
theorem lagrange_weights_sum_one (z zDist : K) {dz : K} (hdz : dz ≠ 0) {nL : ℕ} (hL : 0 < nL) :
    sumRange nL (lagrangeCoeffs z dz zDist nL (shifts zDist dz nL)) = 1 := by
  rw [sumRange_eq_finset]
  rw [Finset.sum_congr rfl (fun j hj => lagrange_weights_are_basis z zDist hdz j (Finset.mem_range.mp hj)),
    ← Polynomial.eval_finsetSum,
    Lagrange.sum_basis (shifts_injOn z zDist hdz nL) (Finset.nonempty_range_iff.mpr (by omega)),
    Polynomial.eval_one]

example : sumRange 6 (lagrangeCoeffs (1/4 : ℚ) (1/4) (-5/8) 6 (shifts (-5/8 : ℚ) (1/4) 6)) = 1 :=
  lagrange_weights_sum_one _ _ (by norm_num) (by norm_num)

/-- When the foot is a node (`zDist = m·dz`), the stencil is `m + (-2..3)` and the coefficients are the indicator of
    the centre node: this is the `np.where(zPts == zPos, 1, ...)` branch together with `omega = 0` for the others. -/
theorem lagrange_on_node [IsStrictOrderedRing K] (z : K) {dz : K} (hdz : dz ≠ 0) (m : ℤ) {nL : ℕ} (hL : 0 < nL) (j : ℕ) (hj : j < nL) :
    shifts (dz * (m : K)) dz nL (centre nL) = m ∧
    lagrangeCoeffs z dz (dz * (m : K)) nL (shifts (dz * (m : K)) dz nL) j = if j = centre nL then 1 else 0 := by
  have hs : shifts (dz * (m : K)) dz nL (centre nL) = m := by
    rw [shifts_centre _ _ hL, mul_div_cancel_left₀ _ hdz, Int.floor_intCast]
  refine ⟨hs, ?_⟩
  have hc : centre nL ∈ Finset.range nL := Finset.mem_range.mpr (by unfold centre; omega)
  have hfoot : z + dz * (m : K) = zPts z dz (shifts (dz * (m : K)) dz nL) (centre nL) := by
    unfold zPts; rw [hs]
  rw [lagrange_weights_are_basis z _ hdz j hj, hfoot]
  by_cases h : j = centre nL
  · rw [if_pos h, h, Lagrange.eval_basis_self (shifts_injOn z _ hdz nL) hc]
  · rw [if_neg h, Lagrange.eval_basis_of_ne h hc]

example : lagrangeCoeffs (1/4 : ℚ) (1/4) ((1/4) * ((-7 : ℤ) : ℚ)) 6 (shifts ((1/4 : ℚ) * ((-7 : ℤ) : ℚ)) (1/4) 6) 2 = 1 := by
  have := (lagrange_on_node (1/4 : ℚ) (dz := 1/4) (by norm_num) (-7) (nL := 6) (by norm_num) 2 (by norm_num)).2
  simpa [centre] using this

/-- Constants are preserved (given that the theta-interpolant of a constant is that constant, C08). -/
theorem flux_preserves_constants {nz nL : ℕ} (hnz : 0 < nz) (hL : 0 < nL) (z zDist : K) {dz : K} (hdz : dz ≠ 0)
    (S : ℕ → K → K) (C : K) (hS : ∀ i x, S i x = C) (pts : ℕ → ℕ → K) (vals0 : ℕ → ℕ → ℕ → K)
    (q i : ℕ) (hi : i < nz) :
    fluxStep nz nL S pts (shifts zDist dz nL) (lagrangeCoeffs z dz zDist nL (shifts zDist dz nL)) vals0 q i = C := by
  rw [fluxStep_eq_fieldSum hnz hL _ _ _ _ _ _ _ hi, fieldSum_const _ _ _ _ _ _ C _ _ (fun j _ => hS _ _),
    lagrange_weights_sum_one z zDist hdz hL, one_mul]

example : fluxStep 8 6 (fun _ _ => (7/2 : ℚ)) (fun _ _ => 0) (shifts (11/8 : ℚ) (1/4) 6)
    (lagrangeCoeffs 0 (1/4) (11/8) 6 (shifts (11/8 : ℚ) (1/4) 6)) (fun _ _ _ => 0) 3 5 = 7/2 :=
  flux_preserves_constants (by norm_num) (by norm_num) _ _ (by norm_num) _ _ (fun _ _ => rfl) _ _ _ _ (by norm_num)

/-- Exact circular shift: no twist (`dtheta = 0`, i.e. iota = 0) and a displacement of a whole number `m` of cells;
    with the interpolation contract "the theta-spline of row `i` reproduces the data at the (reduced) nodes", the step
    returns `f(theta_q, z_{(i+m) mod nz})` exactly. -/
theorem flux_exact_shift [IsStrictOrderedRing K] {nz nL : ℕ} (hnz : 0 < nz) (hL : 0 < nL) (z : K) {dz : K} (hdz : dz ≠ 0) (m : ℤ)
    (wrap : K → K) (theta : ℕ → K) (S : ℕ → K → K) (f : ℕ → ℕ → K)
    (hinterp : ∀ i q, i < nz → S i (wrap (theta q)) = f q i)
    (vals0 : ℕ → ℕ → ℕ → K) (q i : ℕ) (hi : i < nz) :
    fluxStep nz nL S (fieldPts wrap theta 0 (shifts (dz * (m : K)) dz nL)) (shifts (dz * (m : K)) dz nL)
      (lagrangeCoeffs z dz (dz * (m : K)) nL (shifts (dz * (m : K)) dz nL)) vals0 q i =
      f q (pmod ((i : ℤ) + m) nz) := by
  rw [fluxStep_eq_fieldSum hnz hL _ _ _ _ _ _ _ hi]
  unfold fieldSum
  have hc : centre nL ∈ Finset.range nL := Finset.mem_range.mpr (by unfold centre; omega)
  rw [sumRange_eq_finset, Finset.sum_eq_single (centre nL)]
  · have h := lagrange_on_node z hdz m hL (centre nL) (Finset.mem_range.mp hc)
    rw [h.2, h.1, if_pos rfl, one_mul]
    simp only [fieldPts, zero_mul, add_zero]
    exact hinterp _ _ (pmod_lt _ hnz)
  · intro j hj hne
    rw [(lagrange_on_node z hdz m hL j (Finset.mem_range.mp hj)).2, if_neg hne, zero_mul]
  · intro h; exact absurd hc h

example : fluxStep 8 6 (fun i x => (i : ℚ) * 10 + x) (fieldPts id (fun q => (q : ℚ)) 0 (shifts ((1/4 : ℚ) * ((-7 : ℤ) : ℚ)) (1/4) 6))
    (shifts ((1/4 : ℚ) * ((-7 : ℤ) : ℚ)) (1/4) 6)
    (lagrangeCoeffs (1/4) (1/4) ((1/4 : ℚ) * ((-7 : ℤ) : ℚ)) 6 (shifts ((1/4 : ℚ) * ((-7 : ℤ) : ℚ)) (1/4) 6))
    (fun _ _ _ => 0) 3 2 = ((pmod ((2 : ℤ) + (-7)) 8 : ℕ) : ℚ) * 10 + 3 := by
  have := flux_exact_shift (K := ℚ) (nz := 8) (nL := 6) (by norm_num) (by norm_num) (1/4) (dz := 1/4) (by norm_num) (-7)
    id (fun q => (q : ℚ)) (fun i x => (i : ℚ) * 10 + x) (fun q i => (i : ℚ) * 10 + q) (fun _ _ _ => rfl)
    (fun _ _ _ => 0) 3 2 (by norm_num)
  simpa using this

end ordered

/-- The step is linear in the data (through the theta-splines, which are linear in the data: `splineFn_linear`
    + linearity of the interpolation solve). -/
theorem flux_linear {nz nL : ℕ} (hnz : 0 < nz) (hL : 0 < nL) (S1 S2 S3 : ℕ → K → K) (α β : K)
    (h : ∀ i x, S3 i x = α * S1 i x + β * S2 i x) (pts : ℕ → ℕ → K) (sh : ℕ → ℤ) (c : ℕ → K)
    (v1 v2 v3 : ℕ → ℕ → ℕ → K) (q i : ℕ) (hi : i < nz) :
    fluxStep nz nL S3 pts sh c v3 q i =
      α * fluxStep nz nL S1 pts sh c v1 q i + β * fluxStep nz nL S2 pts sh c v2 q i := by
  rw [fluxStep_eq_fieldSum hnz hL _ _ _ _ _ _ _ hi, fluxStep_eq_fieldSum hnz hL _ _ _ _ _ _ _ hi,
    fluxStep_eq_fieldSum hnz hL _ _ _ _ _ _ _ hi]
  exact fieldSum_linear nz nL S1 S2 S3 pts sh c α β h i q

example : fluxStep 3 2 (fun i x => 2 * ((i : ℚ) + x) + 3 * x) (fun _ q => q) (fun k => (k : ℤ)) (fun _ => (1/2 : ℚ))
    (fun _ _ _ => 0) 1 0 =
    2 * fluxStep 3 2 (fun i x => (i : ℚ) + x) (fun _ q => q) (fun k => (k : ℤ)) (fun _ => (1/2 : ℚ)) (fun _ _ _ => 0) 1 0 +
    3 * fluxStep (K := ℚ) 3 2 (fun _ x => x) (fun _ q => q) (fun k => (k : ℤ)) (fun _ => (1/2 : ℚ)) (fun _ _ _ => 5) 1 0 :=
  flux_linear (K := ℚ) (by norm_num) (by norm_num) _ _ _ 2 3 (fun _ _ => rfl) _ _ _ _ _ _ _ _ (by norm_num)

/-- the same with the rows given by spline coefficient arrays (the hypothesis of `flux_linear` discharged by the
    B-spline model: evaluation is linear in the coefficients) -/
theorem flux_linear_coeffs [LinearOrder K] {nz nL : ℕ} (hnz : 0 < nz) (hL : 0 < nL) (t : ℕ → K) (nk deg : ℕ)
    (c1 c2 c3 : ℕ → ℕ → K) (α β : K) (h : ∀ i k, c3 i k = α * c1 i k + β * c2 i k)
    (pts : ℕ → ℕ → K) (sh : ℕ → ℤ) (c : ℕ → K) (v : ℕ → ℕ → ℕ → K) (q i : ℕ) (hi : i < nz) :
    fluxStep nz nL (fun r => splineFn t nk deg (c3 r)) pts sh c v q i =
      α * fluxStep nz nL (fun r => splineFn t nk deg (c1 r)) pts sh c v q i +
      β * fluxStep nz nL (fun r => splineFn t nk deg (c2 r)) pts sh c v q i :=
  flux_linear hnz hL _ _ _ α β (fun r x => splineFn_linear t nk deg (c1 r) (c2 r) (c3 r) α β (h r) x)
    pts sh c v v v q i hi

example := flux_linear_coeffs (K := ℚ) (nz := 3) (nL := 2) (by norm_num) (by norm_num) (fun k => (k : ℚ)) 8 1
  (fun i k => (i : ℚ) + k) (fun i k => (i : ℚ) * k) (fun i k => 2 * ((i : ℚ) + k) + 3 * ((i : ℚ) * k)) 2 3
  (fun _ _ => rfl) (fun _ q => (q : ℚ)) (fun k => (k : ℤ)) (fun _ => 1/2) (fun _ _ _ => 0) 1 0 (by norm_num)

/-- The step commutes with cyclic shifts in z: if the input rows are rolled by `m`
    (`S' i = S ((i+m) mod nz)`), the output is rolled by `m`. -/
theorem flux_commutes_z_shift {nz nL : ℕ} (hnz : 0 < nz) (hL : 0 < nL) (S S' : ℕ → K → K) (m : ℤ)
    (h : ∀ i x, i < nz → S' i x = S (pmod ((i : ℤ) + m) nz) x) (pts : ℕ → ℕ → K) (sh : ℕ → ℤ) (c : ℕ → K)
    (v v' : ℕ → ℕ → ℕ → K) (q i : ℕ) (hi : i < nz) :
    fluxStep nz nL S' pts sh c v' q i = fluxStep nz nL S pts sh c v q (pmod ((i : ℤ) + m) nz) := by
  rw [fluxStep_eq_fieldSum hnz hL _ _ _ _ _ _ _ hi, fluxStep_eq_fieldSum hnz hL _ _ _ _ _ _ _ (pmod_lt _ hnz)]
  exact fieldSum_shift hnz nL S S' pts sh c m h i q

example : fluxStep 4 2 (fun i x => ((pmod ((i : ℤ) + 3) 4 : ℕ) : ℚ) + x) (fun _ q => q) (fun k => (k : ℤ)) (fun _ => (1/2 : ℚ))
    (fun _ _ _ => 0) 1 2 =
    fluxStep 4 2 (fun i x => (i : ℚ) + x) (fun _ q => q) (fun k => (k : ℤ)) (fun _ => (1/2 : ℚ)) (fun _ _ _ => 0) 1
      (pmod ((2 : ℤ) + 3) 4) :=
  flux_commutes_z_shift (by norm_num) (by norm_num) (fun i x => (i : ℚ) + x) _ 3 (fun _ _ _ => rfl) _ _ _ _ _ _ _
    (by norm_num)

end PygyroVerif.C10
