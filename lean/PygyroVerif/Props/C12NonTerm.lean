/-
C12 — "… and the implicit iteration terminates": the clause is FALSE of the code for data outside the contraction regime
(finding F28).  `C12Extra.pol_impl_terminates_of_contraction` proves termination for `q = |dt|·L/2 < 1`; the hypothesis
cannot be dropped: here is an instance of the model (`Model/PolAdv.lean`, the transcription of
`poloidal_advection_step_impl`, tied to the source by `Props/C12Gen2.lean`) on which the `while (norm > tol)` loop runs
for ever — for EVERY fuel the model reports "out of fuel".

Instance (exact arithmetic, ℚ): one node `(θ, r) = (1, 2)`, radial domain `[1, 5]`, `dt = 2`, `B0 = 1`, a potential with
`∂_r φ = 0` and `∂_θ φ (θ, r) = r (3 − r)` (smooth; `L = 1`, so `q = |dt|·L/2 = 1`: the border of the hypothesis).  The
fixed-point map of the node is `y ↦ 6 − y` on the radius: started at the Euler foot `r = 4` the iterates are
4, 2, 4, 2, …, every sweep reports the norm 2, and no `tol < 2` is ever reached.  Clipping does not interfere (both
iterates are inside `[1, 5]`).  The real code shows the same behaviour on a spline potential (replay:
harness/props/c12.py, `known_nontermination`): `step` does not return.
-/
import PygyroVerif.Model.PolAdv
import Mathlib.Tactic.NormNum
import Mathlib.Tactic.Linarith

namespace PygyroVerif.C12NonTerm

open PygyroVerif.PolAdv

/-- evaluators of the instance: `∂_r φ = 0`, `∂_θ φ = r (3 − r)`, no angle reduction needed (θ never moves) -/
def cycE : Evals ℚ := { drPhi := fun _ _ => 0, dqPhi := fun _ r => r * (3 - r), fhat := fun _ _ => 0, wrap := id }

def cycP : Params ℚ := { dt := 2, B0 := 1, v := 0, rMin := 1, rMax := 5, nul := true }

theorem sweep_at_4 : sweep cycE cycP 6 3 [((1 : ℚ), (2 : ℚ))] [((1 : ℚ), (4 : ℚ))] = ([((1 : ℚ), (2 : ℚ))], 2) := by
  simp only [sweep, List.zip_cons_cons, List.zip_nil_right, List.map_cons, List.map_nil, List.foldl_cons, List.foldl_nil,
    implNode, cycE, cycP, velAt, clip, multFactor, normUpd, id]
  norm_num

theorem sweep_at_2 : sweep cycE cycP 6 3 [((1 : ℚ), (2 : ℚ))] [((1 : ℚ), (2 : ℚ))] = ([((1 : ℚ), (4 : ℚ))], 2) := by
  simp only [sweep, List.zip_cons_cons, List.zip_nil_right, List.map_cons, List.map_nil, List.foldl_cons, List.foldl_nil,
    implNode, cycE, cycP, velAt, clip, multFactor, normUpd, id]
  norm_num

/-- from either point of the 2-cycle the loop never stops, whatever the fuel, for every `tol < 2` -/
theorem loop_cycles (tol : ℚ) (htol : tol < 2) : ∀ (fuel cnt : ℕ) (norms : List ℚ),
    implLoop cycE cycP 6 3 tol id [((1 : ℚ), (2 : ℚ))] fuel [((1 : ℚ), (4 : ℚ))] cnt norms = none ∧
    implLoop cycE cycP 6 3 tol id [((1 : ℚ), (2 : ℚ))] fuel [((1 : ℚ), (2 : ℚ))] cnt norms = none
  | 0, _, _ => ⟨rfl, rfl⟩
  | fuel + 1, cnt, norms => by
    have ih := loop_cycles tol htol fuel
    constructor
    · simp only [implLoop, sweep_at_4, List.map_cons, List.map_nil, id, if_pos htol]
      exact (ih _ _).2
    · simp only [implLoop, sweep_at_2, List.map_cons, List.map_nil, id, if_pos htol]
      exact (ih _ _).1

/-- **the implicit iteration need not terminate**: on this instance `implStep` (the model of
    `poloidal_advection_step_impl`, exact arithmetic) is out of fuel for every fuel and every tolerance below 2 — in
    particular for the default `tol = 10⁻¹⁰`.  The unconditional clause "the implicit iteration terminates" of the property is
    therefore not provable; what is proved is `C12Extra.pol_impl_terminates_of_contraction` (`|dt|·L/2 < 1`). -/
theorem pol_impl_need_not_terminate (tol : ℚ) (htol : tol < 2) (fuel : ℕ) :
    implStep cycE cycP 6 3 tol id fuel (fun _ => 1) (fun _ => 2) 1 1 = none := by
  have hnodes : nodeList (fun _ => (1 : ℚ)) (fun _ => (2 : ℚ)) 1 1 = [((1 : ℚ), (2 : ℚ))] := by
    simp [nodeList]
  have hinit : ([((1 : ℚ), (2 : ℚ))] : List (ℚ × ℚ)).map
      (fun n => (id (implInit cycE cycP n.1 n.2).1, id (implInit cycE cycP n.1 n.2).2)) = [((1 : ℚ), (4 : ℚ))] := by
    simp only [List.map_cons, List.map_nil, implInit, cycE, cycP, multFactor, id]
    norm_num
  unfold implStep
  simp only [hnodes]
  rw [hinit, (loop_cycles tol htol fuel 0 []).1]
  rfl

/-- the default tolerance of the code -/
example (fuel : ℕ) : implStep cycE cycP 6 3 (1 / 10 ^ 10) id fuel (fun _ => 1) (fun _ => 2) 1 1 = none :=
  pol_impl_need_not_terminate _ (by norm_num) fuel

/-- the instance sits exactly at the border of the proved hypothesis: the velocity `r ↦ (3 − r)` is 1-Lipschitz and
    `|dt|·L/2 = 1` -/
example : |cycP.dt| * 1 / 2 = (1 : ℚ) := by norm_num [cycP]

end PygyroVerif.C12NonTerm
