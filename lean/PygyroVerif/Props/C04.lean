/-
C04 — Grid layout changes and save/restore behave like a single global array.  Property theorems only.
Model: Model/GridSM.lean (buffer-index state machine of grid.py over the transpose contract of C01/C03).
-/
import PygyroVerif.Model.GridSM

namespace PygyroVerif.C04
open PygyroVerif.GridSM

/-- what the grid shows: the data block holds the spec's field in the spec's layout; a held save holds the
    saved field in the layout of save time; the three indices address different blocks -/
structure Rel (s : GState) (t : Spec) : Prop where
  hasSave : s.hasSave = t.hasSave
  distinct : s.dataIdx ≠ s.buffIdx ∧ s.dataIdx ≠ s.saveIdx ∧ s.buffIdx ≠ s.saveIdx
  inRange : s.dataIdx < s.cells.length ∧ s.buffIdx < s.cells.length ∧ (s.hasSave = true → s.saveIdx < s.cells.length)
  layout : s.current = t.layout
  data : cellAt s s.dataIdx = .holds t.field t.layout
  saved : match t.saved with
    | none => s.notSaved = true
    | some (f, l) => s.notSaved = false ∧ s.savedLayout = l ∧ cellAt s s.saveIdx = .holds f l

theorem getD_set_same (cells : List Cell) (i : Nat) (c : Cell) (h : i < cells.length) :
    (cells.set i c).getD i .garbage = c := by
  simp [List.getD_eq_getElem?_getD, h]

theorem getD_set_other (cells : List Cell) (i j : Nat) (c : Cell) (h : i ≠ j) :
    (cells.set i c).getD j .garbage = cells.getD j .garbage := by
  simp [List.getD_eq_getElem?_getD, h]

/-- one step: the implementation refuses exactly when the specification refuses, and otherwise the relation
    is preserved (layout changes never alter the field, a held save is never the scratch or destination of a
    transpose nor overwritten by a write, restore returns field and layout of save time) -/
theorem step_refines (s : GState) (t : Spec) (op : Op) (h : Rel s t) :
    match step s op, t.step op with
    | some s', some t' => Rel s' t'
    | none, none => True
    | _, _ => False := by
  obtain ⟨hS, ⟨hd1, hd2, hd3⟩, ⟨hr1, hr2, hr3⟩, hl, hdata, hsaved⟩ := h
  cases op with
  | setLayout l =>
    simp only [step, Spec.step]
    unfold cellAt at hdata
    by_cases hc : (s.hasSave && s.notSaved) = true
    · -- spare buffer = save block (no save is held)
      simp only [hc, ↓reduceIte, transposeCells, hdata]
      simp only [Bool.and_eq_true] at hc
      have hsv := hr3 hc.1
      refine ⟨hS, ⟨Ne.symm hd1, hd3, hd2⟩, ⟨by simpa using hr2, by simpa using hr1, fun _ => by simpa using hsv⟩, rfl, ?_, ?_⟩
      · simp only [cellAt]
        rw [getD_set_same _ _ _ (by simpa using hr2)]
      · cases hts : t.saved with
        | none => simp only [hts] at hsaved ⊢; exact hsaved
        | some fl => obtain ⟨f, l'⟩ := fl; simp only [hts] at hsaved; rw [hsaved.1] at hc; simp at hc
    · -- no spare buffer (a save is held, or there is no save memory): source is scratch
      simp only [hc, Bool.false_eq_true, ↓reduceIte, transposeCells, hdata]
      refine ⟨hS, ⟨Ne.symm hd1, hd3, hd2⟩, ⟨by simpa using hr2, by simpa using hr1, fun h => by simpa using hr3 h⟩, rfl, ?_, ?_⟩
      · simp only [cellAt]
        rw [getD_set_same _ _ _ (by simpa using hr2)]
      · cases hts : t.saved with
        | none => simp only [hts] at hsaved ⊢; exact hsaved
        | some fl =>
          obtain ⟨f, l'⟩ := fl
          simp only [hts] at hsaved ⊢
          refine ⟨hsaved.1, hsaved.2.1, ?_⟩
          simp only [cellAt]
          rw [getD_set_other _ _ _ _ hd3, getD_set_other _ _ _ _ hd2]
          exact hsaved.2.2
  | write v =>
    simp only [step, Spec.step]
    refine ⟨hS, ⟨hd1, hd2, hd3⟩, ⟨by simpa using hr1, by simpa using hr2, fun h => by simpa using hr3 h⟩, hl, ?_, ?_⟩
    · simp only [cellAt]; rw [getD_set_same _ _ _ hr1, hl]
    · cases hts : t.saved with
      | none => simp only [hts] at hsaved ⊢; exact hsaved
      | some fl =>
        obtain ⟨f, l'⟩ := fl
        simp only [hts] at hsaved ⊢
        refine ⟨hsaved.1, hsaved.2.1, ?_⟩
        simp only [cellAt]; rw [getD_set_other _ _ _ _ hd2]; exact hsaved.2.2
  | save =>
    simp only [step, Spec.step]
    cases hts : t.saved with
    | none =>
      simp only [hts] at hsaved
      by_cases hh : s.hasSave = true
      · have hsv := hr3 hh
        simp only [hh, hsaved, Bool.and_self, ↓reduceIte, ← hS, Option.isNone_none]
        refine ⟨by simpa [hh] using hS, ⟨hd1, hd2, hd3⟩, ⟨by simpa using hr1, by simpa using hr2, fun _ => by simpa using hsv⟩, hl, ?_, ?_⟩
        · simp only [cellAt]; rw [getD_set_other _ _ _ _ (Ne.symm hd2)]; exact hdata
        · simp only [cellAt, true_and]
          refine ⟨hl, ?_⟩
          rw [getD_set_same _ _ _ hsv]; exact hdata
      · have hf : s.hasSave = false := by simpa using hh
        simp [hf, ← hS]
    | some fl =>
      obtain ⟨f, l'⟩ := fl
      simp only [hts] at hsaved
      simp [hsaved.1]
  | free =>
    simp only [step, Spec.step]
    cases hts : t.saved with
    | none => simp only [hts] at hsaved; simp [hsaved]
    | some fl =>
      obtain ⟨f, l'⟩ := fl
      simp only [hts] at hsaved
      by_cases hh : s.hasSave = true
      · simp only [hh, hsaved.1, Bool.not_false, Bool.and_self, ↓reduceIte, ← hS, Option.isSome_some]
        exact ⟨by simpa [hh] using hS, ⟨hd1, hd2, hd3⟩, ⟨hr1, hr2, fun _ => hr3 hh⟩, hl, hdata, rfl⟩
      · have hf : s.hasSave = false := by simpa using hh
        simp [hf, ← hS]
  | restore =>
    simp only [step, Spec.step]
    cases hts : t.saved with
    | none => simp only [hts] at hsaved; simp [hsaved]
    | some fl =>
      obtain ⟨f, l'⟩ := fl
      simp only [hts] at hsaved
      by_cases hh : s.hasSave = true
      · have hsv := hr3 hh
        simp only [hh, hsaved.1, Bool.not_false, Bool.and_self, ↓reduceIte, ← hS]
        refine ⟨by simpa [hh] using hS, ⟨Ne.symm hd3, Ne.symm hd2, Ne.symm hd1⟩, ⟨hsv, hr2, fun _ => hr1⟩, hsaved.2.1, ?_, rfl⟩
        simpa [cellAt] using hsaved.2.2
      · have hf : s.hasSave = false := by simpa using hh
        simp [hf, ← hS]

/-- **Refinement**: for every history (any length), the grid refuses exactly the operations the single global
    array refuses (save twice, restore/free without a save, save without save memory) and ends in a related
    state; since this holds for every history it holds after every prefix. -/
theorem grid_refines_spec (ops : List Op) (s : GState) (t : Spec) (h : Rel s t) :
    (run s ops).2 = (t.run ops).2 ∧ Rel (run s ops).1 (t.run ops).1 := by
  induction ops generalizing s t with
  | nil => exact ⟨rfl, h⟩
  | cons op ops ih =>
    have hs := step_refines s t op h
    simp only [run, Spec.run]
    cases h1 : step s op with
    | none =>
      cases h2 : t.step op with
      | none => simp only [h1, h2] at hs ⊢; obtain ⟨e, r⟩ := ih s t h; exact ⟨by rw [e], r⟩
      | some t' => simp [h1, h2] at hs
    | some s' =>
      cases h2 : t.step op with
      | none => simp [h1, h2] at hs
      | some t' => simp only [h1, h2] at hs ⊢; obtain ⟨e, r⟩ := ih s' t' hs; exact ⟨by rw [e], r⟩

/-- a freshly constructed and filled grid is related to the single array (with and without save memory) -/
theorem init_related (hasSave : Bool) (layout f : Nat) :
    Rel (init hasSave layout f) { field := f, layout := layout, saved := none, hasSave := hasSave } := by
  cases hasSave <;> (refine ⟨rfl, by simp [init], by simp [init], rfl, ?_, rfl⟩; simp [init, cellAt])

/-- corollary in the words of the property: after any history starting from a fresh grid the visible data is
    the spec's field in the spec's layout and the accepted/refused pattern is the spec's -/
theorem history_behaves_like_global_array (hasSave : Bool) (layout f : Nat) (ops : List Op) :
    let s := (run (init hasSave layout f) ops)
    let t := (Spec.run { field := f, layout := layout, saved := none, hasSave := hasSave } ops)
    s.2 = t.2 ∧ cellAt s.1 s.1.dataIdx = .holds t.1.field t.1.layout ∧ s.1.current = t.1.layout := by
  obtain ⟨e, r⟩ := grid_refines_spec ops _ _ (init_related hasSave layout f)
  exact ⟨e, r.data, r.layout⟩

/-- non-vacuity / the interaction the rationale singles out: save, change layout several times, write, restore -/
example : (run (init true 0 7) [.save, .setLayout 1, .setLayout 2, .write 9, .setLayout 0, .save, .restore, .restore, .free]).2
    = [true, true, true, true, true, false, true, false, false] := by decide

end PygyroVerif.C04
