/-
C13 (extra) — the analytic clause of C13, "the parallel gradient converges with the stated order", which `Props/C13.lean`
only states (`C13.fd_converges_with_order_statement`).
Helper lemmas: Lemmas/FDTaylor.lean (Taylor polynomial as a `Polynomial ℝ`, Lagrange remainder from
`Mathlib.Analysis.Calculus.Taylor`, stencil offsets bounded by `order + 1`).

  * `fd_error_explicit`              explicit constant: `|FD(f,x,h)/h − f'(x)| ≤ B/(order+1)! · Σ_j|c_j||s_j|^(order+1) · |h|^order`
                                     whenever `|f^(order+1)| ≤ B` on an interval `[x−R, x+R]` containing the stencil
  * `fd_converges_with_order`        proves `C13.fd_converges_with_order_statement` (the exact statement, unchanged)
  * `fd_converges_uniformly`         the same with `C`, `δ` uniform for `x` in a compact interval `[a, b]`
  * `pargrad_converges_with_order`   in the vocabulary of the code: the model's `parallelGradient`, applied to rows whose
                                     theta-splines reproduce a `C^(order+1)` function `F` of `z` along the field line through
                                     `(q, a)`, is within `|bz|·C·dz^order` of `bz·F'(z)`, `C` and `δ` uniform for `z ∈ [zlo, zhi]`
                                     and independent of `nz`, `dz`, `bz`, the rows and the positions

What is *not* covered here (as in `Props/C13.lean`): the theta-interpolation error (the hypothesis `hline` of
`pargrad_converges_with_order` says that the theta-splines reproduce `F` at the stencil points; C08 is about that error),
and floating-point rounding.
-/
import PygyroVerif.Props.C13
import PygyroVerif.Lemmas.FDTaylor
import Mathlib.Analysis.Normed.Group.Bounded
import Mathlib.Topology.Order.Compact
import Mathlib.Analysis.SpecialFunctions.ExpDeriv

namespace PygyroVerif.C13
open PygyroVerif.FieldLine PygyroVerif.ParGrad PygyroVerif.FDTaylor

/-- the order-2 weights `(-1/2, 0, 1/2)` solve the moment system over `ℝ` (as `moment_order2` over `ℚ`) -/
theorem moment_order2_real : MomentSystem (K := ℝ) 2 (fun j => if j = 0 then -1/2 else if j = 1 then 0 else 1/2) := by
  intro i hi
  have hsh : ∀ j, fdShift 2 j = (j : ℤ) - 1 := fun j => by unfold fdShift fdStart; omega
  simp only [sumRange, List.range_succ, List.range_zero, List.nil_append, List.cons_append, List.map_cons,
    List.map_nil, List.sum_cons, List.sum_nil, hsh]
  interval_cases i <;> norm_num

/-- the `(order+1)`-st derivative of a `C^(order+1)` function is bounded on every compact interval -/
theorem iteratedDeriv_bounded_on_Icc {n : ℕ} {f : ℝ → ℝ} (hf : ContDiff ℝ (n + 1) f) (a b : ℝ) :
    ∃ B, ∀ t ∈ Set.Icc a b, |iteratedDeriv (n + 1) f t| ≤ B := by
  have hc : Continuous (iteratedDeriv (n + 1) f) :=
    ContDiff.continuous_iteratedDeriv (n + 1) hf (by exact_mod_cast le_rfl)
  obtain ⟨B, hB⟩ := isCompact_Icc.exists_bound_of_continuousOn (s := Set.Icc a b) hc.continuousOn
  exact ⟨B, fun t ht => by simpa [Real.norm_eq_abs] using hB t ht⟩

/-- Explicit error constant of the finite-difference derivative (`getCoeffsFirstDeriv` weights `c`, shifts `s_j`):
    if `|f^(order+1)| ≤ B` on `[x − R, x + R]` and the stencil `x + s_j h` stays inside (`|h|·(order+1) ≤ R`), then
    `|Σ_j c_j f(x + s_j h) / h − f'(x)| ≤ B/(order+1)! · (Σ_j |c_j|·|s_j|^(order+1)) · |h|^order`.
    With `h = dz` and after multiplication by `bz` this is the truncation error of `parallel_gradient` along a field line. -/
theorem fd_error_explicit {order : ℕ} (ho : 1 ≤ order) (c : ℕ → ℝ) (hm : MomentSystem order c)
    (f : ℝ → ℝ) (hf : ContDiff ℝ (order + 1) f) (x R B : ℝ)
    (hB : ∀ t ∈ Set.Icc (x - R) (x + R), |iteratedDeriv (order + 1) f t| ≤ B)
    (h : ℝ) (h0 : h ≠ 0) (hR : |h| * ((order : ℝ) + 1) ≤ R) :
    |sumRange (order + 1) (fun j => c j * f (x + ((fdShift order j : ℤ) : ℝ) * h)) / h - deriv f x| ≤
      B / ((order + 1).factorial : ℝ) *
        sumRange (order + 1) (fun j => |c j| * |((fdShift order j : ℤ) : ℝ)| ^ (order + 1)) * |h| ^ order :=
  FDTaylor.fd_error_explicit ho c hm f hf x R B hB h h0 hR

/-- order 2, `f = exp`, `x = 0`, `R = 1`: `|exp'''| = exp ≤ exp 1` on `[-1, 1]`; any `h` with `0 < |h| ≤ 1/3` -/
example (h : ℝ) (h0 : h ≠ 0) (hh : |h| * ((2 : ℕ) + 1 : ℝ) ≤ 1) :
    |sumRange 3 (fun j => (if j = 0 then -1/2 else if j = 1 then 0 else 1/2 : ℝ) *
        Real.exp (0 + ((fdShift 2 j : ℤ) : ℝ) * h)) / h - deriv Real.exp 0| ≤
      Real.exp 1 / ((2 + 1).factorial : ℝ) *
        sumRange 3 (fun j => |(if j = 0 then -1/2 else if j = 1 then 0 else 1/2 : ℝ)| * |((fdShift 2 j : ℤ) : ℝ)| ^ 3) *
        |h| ^ 2 :=
  fd_error_explicit (order := 2) (by norm_num) _ moment_order2_real Real.exp Real.contDiff_exp 0 1 (Real.exp 1)
    (fun t ht => by
      rw [iteratedDeriv_eq_iterate, Real.iter_deriv_exp, abs_of_pos (Real.exp_pos t)]
      exact Real.exp_le_exp.mpr (by have := ht.2; linarith))
    h h0 hh

/-- Uniform version on a compact interval: one constant `C` and one `δ` for all `x ∈ [a, b]`
    (`δ = 1/(order+1)`, `C = sup_{[a−1, b+1]} |f^(order+1)| / (order+1)! · Σ_j |c_j|·|s_j|^(order+1)`). -/
theorem fd_converges_uniformly {order : ℕ} (ho : 1 ≤ order) (c : ℕ → ℝ) (hm : MomentSystem order c)
    (f : ℝ → ℝ) (hf : ContDiff ℝ (order + 1) f) (a b : ℝ) :
    ∃ C δ : ℝ, 0 < δ ∧ ∀ x ∈ Set.Icc a b, ∀ h : ℝ, 0 < |h| → |h| < δ →
      |sumRange (order + 1) (fun j => c j * f (x + ((fdShift order j : ℤ) : ℝ) * h)) / h - deriv f x| ≤
        C * |h| ^ order := by
  obtain ⟨B, hB⟩ := iteratedDeriv_bounded_on_Icc hf (a - 1) (b + 1)
  have hpos : (0 : ℝ) < (order : ℝ) + 1 := by positivity
  refine ⟨B / ((order + 1).factorial : ℝ) *
      sumRange (order + 1) (fun j => |c j| * |((fdShift order j : ℤ) : ℝ)| ^ (order + 1)),
    1 / ((order : ℝ) + 1), by positivity, fun x hx h h0 hh => ?_⟩
  refine fd_error_explicit ho c hm f hf x 1 B (fun t ht => hB t ⟨?_, ?_⟩) h (abs_pos.mp h0) ?_
  · have := ht.1; have := hx.1; linarith
  · have := ht.2; have := hx.2; linarith
  · rw [lt_div_iff₀ hpos] at hh; exact hh.le

example : ∃ C δ : ℝ, 0 < δ ∧ ∀ x ∈ Set.Icc (0 : ℝ) 1, ∀ h : ℝ, 0 < |h| → |h| < δ →
    |sumRange 3 (fun j => (if j = 0 then -1/2 else if j = 1 then 0 else 1/2 : ℝ) *
        Real.exp (x + ((fdShift 2 j : ℤ) : ℝ) * h)) / h - deriv Real.exp x| ≤ C * |h| ^ 2 :=
  fd_converges_uniformly (order := 2) (by norm_num) _ moment_order2_real Real.exp Real.contDiff_exp 0 1

/-- **Convergence with the stated order** (the analytic clause of C13; this is `fd_converges_with_order_statement` of
    `Props/C13.lean`, unchanged): for every order ≥ 1, every weight vector returned by `solve(A, b)` in
    `getCoeffsFirstDeriv` (contract `MomentSystem`), every `C^(order+1)` function `f` and every point `x` there are
    `C` and `δ > 0` such that the finite-difference estimate `Σ_j c_j f(x + s_j h) / h` of the derivative is within
    `C·|h|^order` of `f'(x)` for all `0 < |h| < δ`.  Proof: Taylor's theorem with Lagrange remainder gives the
    polynomial and the remainder bound needed by the truncation bound (`FDTaylor.fd_truncation_bound_real`, which is
    `fd_truncation_bound` with the remainder hypothesis required at the stencil points only, so that no global bound
    on `f` is needed), exactness on polynomials (`fd_exact_for_polynomials_partial`) does the rest. -/
theorem fd_converges_with_order : fd_converges_with_order_statement := by
  intro order ho c hm f hf x
  obtain ⟨C, δ, hδ, hC⟩ := fd_converges_uniformly ho c hm f hf x x
  exact ⟨C, δ, hδ, fun h h0 hh => hC x ⟨le_rfl, le_rfl⟩ h h0 hh⟩

/-- order 2, centred weights `(-1/2, 0, 1/2)`, `f = exp`, `x = 3`: second-order convergence of `(e^(3+h) − e^(3−h))/(2h)` -/
example : ∃ C δ : ℝ, 0 < δ ∧ ∀ h : ℝ, 0 < |h| → |h| < δ →
    |sumRange 3 (fun j => (if j = 0 then -1/2 else if j = 1 then 0 else 1/2 : ℝ) *
        Real.exp (3 + ((fdShift 2 j : ℤ) : ℝ) * h)) / h - deriv Real.exp 3| ≤ C * |h| ^ 2 :=
  fd_converges_with_order 2 (by norm_num) _ moment_order2_real Real.exp Real.contDiff_exp 3

/-- In the vocabulary of the code.  Let `F` be a `C^(order+1)` function of `z` (the potential restricted to a field
    line).  There are `C` and `δ > 0`, uniform for `z ∈ [zlo, zhi]` and independent of the grid (`nz`, `dz < δ`), of `bz`
    and of the data, such that: whenever `parallel_gradient` runs (`= some d`) on rows whose theta-splines `S`,
    evaluated at the field-line positions `pts j q` of `_getThetaVals`, reproduce `F` at the stencil points
    `z + s_j·dz` of the field line through node `(q, a)` (hypothesis `hline`; periodic wrap `% nz` in the row index),
    the result `der[a, q]` is within `|bz|·C·dz^order` of `bz·F'(z)`. -/
theorem pargrad_converges_with_order {order : ℕ} (ho : 1 ≤ order) (c : ℕ → ℝ) (hm : MomentSystem order c)
    (F : ℝ → ℝ) (hF : ContDiff ℝ (order + 1) F) (zlo zhi : ℝ) :
    ∃ C δ : ℝ, 0 < δ ∧ ∀ (nz : ℕ) (S : ℕ → ℝ → ℝ) (pts : ℕ → ℕ → ℝ) (bz dz : ℝ) (d : ℕ → ℕ → ℝ) (a q : ℕ) (z : ℝ),
      z ∈ Set.Icc zlo zhi → 0 < dz → dz < δ → parallelGradient nz order S pts c bz dz = some d → a < nz →
      (∀ j, j < order + 1 →
        S (pmod ((a : ℤ) + fdShift order j) nz) (pts j q) = F (z + ((fdShift order j : ℤ) : ℝ) * dz)) →
      |d a q - bz * deriv F z| ≤ |bz| * C * dz ^ order := by
  obtain ⟨C, δ, hδ, hC⟩ := fd_converges_uniformly ho c hm F hF zlo zhi
  refine ⟨C, δ, hδ, fun nz S pts bz dz d a q z hz hdz hdzδ hd ha hline => ?_⟩
  have hnz : order < nz := by
    by_contra hn
    rw [(pargrad_refused_iff nz order S pts c bz dz).mpr hn] at hd; cases hd
  obtain ⟨e, he, hv⟩ := pargrad_formula hnz S pts c bz dz
  rw [hd] at he; cases he
  have hsum : sumRange (order + 1) (fun j => c j * S (pmod ((a : ℤ) + fdShift order j) nz) (pts j q)) =
      sumRange (order + 1) (fun j => c j * F (z + ((fdShift order j : ℤ) : ℝ) * dz)) :=
    sumRange_congr (fun j hj => by rw [hline j hj])
  have habs : |dz| = dz := abs_of_pos hdz
  have hb := hC z hz dz (by rw [habs]; exact hdz) (by rw [habs]; exact hdzδ)
  rw [habs] at hb
  have heq : d a q - bz * deriv F z =
      bz * (sumRange (order + 1) (fun j => c j * F (z + ((fdShift order j : ℤ) : ℝ) * dz)) / dz - deriv F z) := by
    rw [hv a q ha, hsum]; ring
  rw [heq, abs_mul, mul_assoc]
  exact mul_le_mul_of_nonneg_left hb (abs_nonneg _)

/-- a concrete instance of the hypotheses: order 2, `F = exp`, all rows carry `exp` (`S i θ = exp θ`) and the positions
    are the stencil points themselves (`pts j q = 1/2 + s_j·dz`), so `hline` holds by `rfl`; `bz = 3/5`, `nz = 8`, row 7
    (whose stencil wraps around) -/
example : ∃ C δ : ℝ, 0 < δ ∧ ∀ (dz : ℝ) (d : ℕ → ℕ → ℝ), 0 < dz → dz < δ →
    parallelGradient 8 2 (fun _ θ => Real.exp θ) (fun j _ => 1/2 + ((fdShift 2 j : ℤ) : ℝ) * dz)
      (fun j => if j = 0 then -1/2 else if j = 1 then 0 else 1/2) (3/5) dz = some d →
    |d 7 0 - 3/5 * deriv Real.exp (1/2)| ≤ |(3/5 : ℝ)| * C * dz ^ 2 := by
  obtain ⟨C, δ, hδ, hC⟩ := pargrad_converges_with_order (order := 2) (by norm_num) _ moment_order2_real Real.exp
    Real.contDiff_exp 0 1
  exact ⟨C, δ, hδ, fun dz d hdz hdzδ hd =>
    hC 8 _ _ (3/5) dz d 7 0 (1/2) ⟨by norm_num, by norm_num⟩ hdz hdzδ hd (by norm_num) (fun _ _ => rfl)⟩

end PygyroVerif.C13
