/-
Property C07 — spline evaluation equals the mathematical B-spline on every entry point.

Models: `Model/BSpline.lean` (general path, spline_eval_funcs.py), `Model/CubicUniform.lean` (uniform cubic path).
Helper lemmas: `Lemmas/BSpline.lean`.  Only the property theorems live here.
-/
import PygyroVerif.Model.BSpline
import PygyroVerif.Model.CubicUniform
import PygyroVerif.Lemmas.BSpline
import Mathlib.Algebra.Order.Field.Rat
import Mathlib.Tactic.NormNum

set_option linter.unusedSectionVars false

namespace PygyroVerif.C07
open PygyroVerif.BSpline PygyroVerif.CubicUniform

variable {K : Type*} [Field K] [LinearOrder K] [IsStrictOrderedRing K]

/-- concrete instance used by the `example`s: integer knots `0,1,2,…` -/
def exKnots : ℕ → ℚ := fun i => (i : ℚ)
theorem exKnots_mono : Monotone exKnots := fun a b h => by simpa [exKnots] using h

/-! ## 1. the span search -/

/-- `nu_find_span` terminates (the fuel `high-low+1` of the model suffices) and returns the right cell:
    `degree ≤ span ≤ nk-2-degree`; first cell for `x ≤ t_degree`, last cell for `x ≥ t_high`, and the cell
    `t_span ≤ x < t_{span+1}` strictly inside. -/
theorem findSpan_some_correct (t : ℕ → K) (ht : Monotone t) (nk degree : ℕ) (x : K)
    (hdom : t degree < t (nk - 1 - degree)) :
    ∃ span, findSpan t nk degree x = some span ∧ degree ≤ span ∧ span ≤ nk - 2 - degree ∧
      (x ≤ t degree → span = degree) ∧
      (t (nk - 1 - degree) ≤ x → span = nk - 2 - degree) ∧
      (t degree < x → x < t (nk - 1 - degree) → t span ≤ x ∧ x < t (span + 1)) := by
  have hlt : degree < nk - 1 - degree := by
    by_contra h
    exact absurd (ht (not_lt.mp h)) (not_le.mpr hdom)
  unfold findSpan
  simp only
  by_cases h1 : x ≤ t degree
  · rw [if_pos h1]
    refine ⟨degree, rfl, le_refl _, by omega, fun _ => rfl, ?_, ?_⟩
    · intro h2; exact absurd (lt_of_lt_of_le hdom h2) (not_lt.mpr h1)
    · intro h2; exact absurd h2 (not_lt.mpr h1)
  · rw [if_neg h1]
    by_cases h2 : t (nk - 1 - degree) ≤ x
    · rw [if_pos h2]
      refine ⟨nk - 1 - degree - 1, rfl, by omega, by omega, fun h => absurd h h1, fun _ => by omega, ?_⟩
      intro _ h3; exact absurd h2 (not_le.mpr h3)
    · rw [if_neg h2]
      obtain ⟨s, hs, hs1, hs2, hs3, hs4⟩ :=
        findSpanLoop_correct t x (nk - 1 - degree - degree + 1) degree (nk - 1 - degree) hlt (by omega)
          (le_of_lt (not_le.mp h1)) (not_le.mp h2)
      exact ⟨s, hs, hs1, by omega, fun h => absurd h h1, fun h => absurd h h2, fun _ _ => ⟨hs3, hs4⟩⟩

example : ∃ span, findSpan exKnots 8 2 (7/2 : ℚ) = some span ∧ 2 ≤ span ∧ span ≤ 8 - 2 - 2 := by
  obtain ⟨s, h1, h2, h3, _⟩ := findSpan_some_correct exKnots exKnots_mono 8 2 (7/2) (by norm_num [exKnots])
  exact ⟨s, h1, h2, h3⟩

/-- inside the domain the returned cell is the unique one that contains `x` when the cell is non-degenerate:
    any `s` with `t_s ≤ x < t_{s+1}` is the returned span -/
theorem findSpan_unique (t : ℕ → K) (ht : Monotone t) (nk degree : ℕ) (x : K)
    (hdom : t degree < t (nk - 1 - degree)) (hx1 : t degree < x) (hx2 : x < t (nk - 1 - degree))
    (s : ℕ) (hs1 : t s ≤ x) (hs2 : x < t (s + 1)) : findSpan t nk degree x = some s := by
  obtain ⟨span, h, _, _, _, _, h6⟩ := findSpan_some_correct t ht nk degree x hdom
  obtain ⟨h7, h8⟩ := h6 hx1 hx2
  have : span = s := by
    rcases Nat.lt_trichotomy span s with hlt | heq | hgt
    · exact absurd (lt_of_lt_of_le h8 (ht hlt)) (not_lt.mpr hs1)
    · exact heq
    · exact absurd (lt_of_lt_of_le hs2 (ht hgt)) (not_lt.mpr h7)
  rw [h, this]

example : findSpan exKnots 8 2 (7/2 : ℚ) = some 3 :=
  findSpan_unique exKnots exKnots_mono 8 2 (7/2) (by norm_num [exKnots]) (by norm_num [exKnots])
    (by norm_num [exKnots]) 3 (by norm_num [exKnots]) (by norm_num [exKnots])

/-! ## 2. partition of unity, non-negativity, derivatives sum to zero -/

/-- the basis values sum to one for *every* `x` (the identity is polynomial) on a non-degenerate cell -/
theorem basis_sum_one (t : ℕ → K) (ht : Monotone t) (p span : ℕ) (x : K) (hcell : t span < t (span + 1)) :
    (basisFuns t p x span).sum = 1 := by
  unfold basisFuns
  apply levels_sum
  intro j i _ _
  simp only [leftOf, rightOf]
  have h1 : t (span - (j - i)) ≤ t span := ht (by omega)
  have h2 : t (span + 1) ≤ t (span + 1 + i) := ht (by omega)
  have : 0 < t (span + 1 + i) - x + (x - t (span - (j - i))) := by linarith
  exact ne_of_gt this

example : (basisFuns exKnots 3 (7/2 : ℚ) 3).sum = 1 :=
  basis_sum_one exKnots exKnots_mono 3 3 (7/2) (by norm_num [exKnots])

/-- the basis values are non-negative on the closed cell -/
theorem basis_nonneg (t : ℕ → K) (ht : Monotone t) (p span : ℕ) (x : K)
    (hx1 : t span ≤ x) (hx2 : x ≤ t (span + 1)) : ∀ v ∈ basisFuns t p x span, 0 ≤ v := by
  unfold basisFuns
  apply levels_nonneg
  · intro k _
    simp only [leftOf]
    have : t (span - k) ≤ t span := ht (by omega)
    linarith
  · intro k _
    simp only [rightOf]
    have : t (span + 1) ≤ t (span + 1 + k) := ht (by omega)
    linarith

example : ∀ v ∈ basisFuns exKnots 3 (4 : ℚ) 3, 0 ≤ v :=
  basis_nonneg exKnots exKnots_mono 3 3 4 (by norm_num [exKnots]) (by norm_num [exKnots])

/-- the derivative values telescope: `Σ_j ders[j] = 0` (any knots, any `x`, any span, degree ≥ 0) -/
theorem ders_sum_zero (t : ℕ → K) (p span : ℕ) (x : K) : (basisFunsDer t p x span).sum = 0 := by
  unfold basisFunsDer
  simp only
  generalize derSaved t p span (basisFuns t (p - 1) x span) = s
  rw [sum_map_sub]
  have hA : ((List.range (p + 1)).map (fun j => if j = 0 then 0 else s (j - 1))).sum
      = ((List.range p).map s).sum := by
    rw [List.range_succ_eq_map]
    simp [Function.comp_def]
  have hB : ((List.range (p + 1)).map (fun j => if j < p then s j else 0)).sum
      = ((List.range p).map s).sum := by
    rw [List.range_succ]
    simp only [List.map_append, List.sum_append, List.map_cons, List.map_nil, List.sum_cons, List.sum_nil,
      lt_self_iff_false, if_false, add_zero]
    congr 1
    apply List.map_congr_left
    intro j hj
    rw [if_pos (List.mem_range.mp hj)]
  rw [hA, hB, sub_self]

example : (basisFunsDer exKnots 3 (7/2 : ℚ) 3).sum = 0 := ders_sum_zero exKnots 3 3 (7/2)

/-! ## 3. A2.2 computes the Cox–de Boor functions; the 1-D evaluation is the B-spline sum -/

/-- `values[r] = N_{span-p+r, p}(x)` on the half-open cell `t_span ≤ x < t_{span+1}` -/
theorem basisFuns_eq_coxDeBoor (t : ℕ → K) (ht : Monotone t) (p span : ℕ) (x : K)
    (hp : p ≤ span) (hx1 : t span ≤ x) (hx2 : x < t (span + 1)) (r : ℕ) (hr : r ≤ p) :
    (basisFuns t p x span).getD r 0 = N t p (span - p + r) x :=
  levels_eq_N t ht span x hx1 hx2 p hp r hr

example : (basisFuns exKnots 2 (7/2 : ℚ) 3).getD 1 0 = N exKnots 2 (3 - 2 + 1) (7/2) :=
  basisFuns_eq_coxDeBoor exKnots exKnots_mono 2 3 (7/2) (by norm_num) (by norm_num [exKnots])
    (by norm_num [exKnots]) 1 (by norm_num)

/-- 1-D evaluation, from the definitions: `Σ_j coeffs[span-p+j]·basis[j]` over the `p+1` active indices,
    value (`der = false`) or first derivative (`der = true`) -/
theorem evalSpline1D_eq_dot (t : ℕ → K) (nk p : ℕ) (c : ℕ → K) (x : K) (der : Bool) (span : ℕ)
    (hs : findSpan t nk p x = some span) :
    evalSpline1D t nk p c x der = some (((List.range (p + 1)).map
      (fun j => c (span - p + j) * (basisOrDer t p x span der).getD j 0)).sum) := by
  unfold evalSpline1D
  rw [hs, Option.map_some, dotFrom_eq_sum]
  rw [basisOrDer_length]

/-- **the evaluated value is the B-spline** `Σ_{i<nb} c_i·N_{i,p}(x)` (all `nb = nk-p-1` basis functions) for every
    `x` of the half-open domain `[t_p, t_{nk-1-p})`, knots included.  Interior knots may be repeated; only the first
    cell must be non-empty (`t_p < t_{p+1}`, an assumption of A2.1: `make_knots` asserts strictly increasing breaks). -/
theorem evalSpline1D_eq_sum (t : ℕ → K) (ht : Monotone t) (nk p : ℕ) (c : ℕ → K) (x : K)
    (hc0 : t p < t (p + 1)) (hx1 : t p ≤ x) (hx2 : x < t (nk - 1 - p)) :
    evalSpline1D t nk p c x false
      = some (((List.range (nk - 1 - p)).map (fun i => c i * N t p i x)).sum) := by
  have hdom : t p < t (nk - 1 - p) := lt_of_le_of_lt hx1 hx2
  obtain ⟨span, hs, hs1, hs2, hfirst, _, hin⟩ := findSpan_some_correct t ht nk p x hdom
  have hlt : p < nk - 1 - p := by
    by_contra h
    exact absurd (ht (not_lt.mp h)) (not_le.mpr hdom)
  have hcell : t span ≤ x ∧ x < t (span + 1) := by
    rcases lt_or_eq_of_le hx1 with h | h
    · exact hin h hx2
    · have hsp : span = p := hfirst (le_of_eq h.symm)
      subst hsp
      exact ⟨hx1, by rw [← h]; exact hc0⟩
  rw [evalSpline1D_eq_dot t nk p c x false span hs]
  congr 1
  simp only [basisOrDer, Bool.false_eq_true, if_false]
  exact dot_basis_eq_sum_N t ht p span x hs1 hcell.1 hcell.2 (nk - 1 - p) (by omega) c

example (c : ℕ → ℚ) : evalSpline1D exKnots 8 2 c (3 : ℚ) false
    = some (((List.range (8 - 1 - 2)).map (fun i => c i * N exKnots 2 i 3)).sum) :=
  evalSpline1D_eq_sum exKnots exKnots_mono 8 2 c 3 (by norm_num [exKnots]) (by norm_num [exKnots])
    (by norm_num [exKnots])

/-! ## 4. the 2-D entry point is the tensor product, for all four `(der1, der2)` -/

/-- `nu_eval_spline_2d_scalar`, from the definitions: `Σ_i (Σ_j c[s1-d1+i, s2-d2+j]·B2[j])·B1[i]`, where `B1`/`B2` are
    the value or first-derivative lists according to `der1`/`der2` (all four branches; the cross and vector entry
    points of the code are loops over this scalar kernel — tied to it by the correspondence check) -/
theorem entrypoints (t1 : ℕ → K) (nk1 d1 : ℕ) (t2 : ℕ → K) (nk2 d2 : ℕ) (c : ℕ → ℕ → K) (x y : K)
    (der1 der2 : Bool) (s1 s2 : ℕ)
    (h1 : findSpan t1 nk1 d1 x = some s1) (h2 : findSpan t2 nk2 d2 y = some s2) :
    evalSpline2D t1 nk1 d1 t2 nk2 d2 c x y der1 der2 = some
      (((List.range (d1 + 1)).map (fun i =>
          ((List.range (d2 + 1)).map (fun j =>
            c (s1 - d1 + i) (s2 - d2 + j) * (basisOrDer t2 d2 y s2 der2).getD j 0)).sum
          * (basisOrDer t1 d1 x s1 der1).getD i 0)).sum) := by
  unfold evalSpline2D
  rw [h1, h2]
  simp only
  have := foldl_zipIdx_eq_sum
    (fun i b => dotFrom (c (s1 - d1 + i)) (s2 - d2) (basisOrDer t2 d2 y s2 der2) * b)
    (basisOrDer t1 d1 x s1 der1) 0 0
  simp only [zero_add] at this
  rw [this, basisOrDer_length]
  congr 2
  apply List.map_congr_left
  intro i _
  rw [dotFrom_eq_sum, basisOrDer_length]

example (c : ℕ → ℕ → ℚ) : ∃ v, evalSpline2D exKnots 8 2 exKnots 9 3 c (7/2) (4 : ℚ) true false = some v :=
  ⟨_, entrypoints exKnots 8 2 exKnots 9 3 c (7/2) 4 true false 3 4
    (findSpan_unique exKnots exKnots_mono 8 2 (7/2) (by norm_num [exKnots]) (by norm_num [exKnots])
      (by norm_num [exKnots]) 3 (by norm_num [exKnots]) (by norm_num [exKnots]))
    (findSpan_unique exKnots exKnots_mono 9 3 4 (by norm_num [exKnots]) (by norm_num [exKnots])
      (by norm_num [exKnots]) 4 (by norm_num [exKnots]) (by norm_num [exKnots]))⟩

/-- value of the 2-D spline = `Σ_{i<nb1} Σ_{j<nb2} c_ij·N_{j,d2}(y)·N_{i,d1}(x)` on the half-open domain -/
theorem evalSpline2D_eq_tensor (t1 : ℕ → K) (ht1 : Monotone t1) (nk1 d1 : ℕ) (t2 : ℕ → K) (ht2 : Monotone t2)
    (nk2 d2 : ℕ) (c : ℕ → ℕ → K) (x y : K)
    (hc1 : t1 d1 < t1 (d1 + 1)) (hx1 : t1 d1 ≤ x) (hx2 : x < t1 (nk1 - 1 - d1))
    (hc2 : t2 d2 < t2 (d2 + 1)) (hy1 : t2 d2 ≤ y) (hy2 : y < t2 (nk2 - 1 - d2)) :
    evalSpline2D t1 nk1 d1 t2 nk2 d2 c x y false false = some
      (((List.range (nk1 - 1 - d1)).map (fun i =>
          ((List.range (nk2 - 1 - d2)).map (fun j => c i j * N t2 d2 j y)).sum * N t1 d1 i x)).sum) := by
  -- spans and their cells, as in the 1-D theorem
  have cell : ∀ (t : ℕ → K), Monotone t → ∀ (nk p : ℕ) (x : K), t p < t (p + 1) → t p ≤ x → x < t (nk - 1 - p) →
      ∃ span, findSpan t nk p x = some span ∧ p ≤ span ∧ span + 1 ≤ nk - 1 - p ∧ t span ≤ x ∧ x < t (span + 1) := by
    intro t ht nk p x hc0 hx1 hx2
    have hdom : t p < t (nk - 1 - p) := lt_of_le_of_lt hx1 hx2
    obtain ⟨span, hs, hs1, hs2, hfirst, _, hin⟩ := findSpan_some_correct t ht nk p x hdom
    have hlt : p < nk - 1 - p := by
      by_contra h
      exact absurd (ht (not_lt.mp h)) (not_le.mpr hdom)
    refine ⟨span, hs, hs1, by omega, ?_⟩
    rcases lt_or_eq_of_le hx1 with h | h
    · exact hin h hx2
    · have hsp : span = p := hfirst (le_of_eq h.symm)
      subst hsp
      exact ⟨hx1, by rw [← h]; exact hc0⟩
  obtain ⟨s1, hs1, hp1, hn1, hx1', hx2'⟩ := cell t1 ht1 nk1 d1 x hc1 hx1 hx2
  obtain ⟨s2, hs2, hp2, hn2, hy1', hy2'⟩ := cell t2 ht2 nk2 d2 y hc2 hy1 hy2
  rw [entrypoints t1 nk1 d1 t2 nk2 d2 c x y false false s1 s2 hs1 hs2]
  congr 1
  simp only [basisOrDer, Bool.false_eq_true, if_false]
  have inner : ∀ i, ((List.range (d2 + 1)).map (fun j =>
      c (s1 - d1 + i) (s2 - d2 + j) * (basisFuns t2 d2 y s2).getD j 0)).sum
      = ((List.range (nk2 - 1 - d2)).map (fun j => c (s1 - d1 + i) j * N t2 d2 j y)).sum := fun i =>
    dot_basis_eq_sum_N t2 ht2 d2 s2 y hp2 hy1' hy2' (nk2 - 1 - d2) hn2 (c (s1 - d1 + i))
  simp only [inner]
  exact dot_basis_eq_sum_N t1 ht1 d1 s1 x hp1 hx1' hx2' (nk1 - 1 - d1) hn1
    (fun i => ((List.range (nk2 - 1 - d2)).map (fun j => c i j * N t2 d2 j y)).sum)

example (c : ℕ → ℕ → ℚ) : ∃ v, evalSpline2D exKnots 8 2 exKnots 9 3 c (7/2) (4 : ℚ) false false = some v :=
  ⟨_, evalSpline2D_eq_tensor exKnots exKnots_mono 8 2 exKnots exKnots_mono 9 3 c (7/2) 4
    (by norm_num [exKnots]) (by norm_num [exKnots]) (by norm_num [exKnots])
    (by norm_num [exKnots]) (by norm_num [exKnots]) (by norm_num [exKnots])⟩

end PygyroVerif.C07
