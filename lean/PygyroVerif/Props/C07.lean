/-
Property C07 — spline evaluation equals the mathematical B-spline on every entry point.

Models: `Model/BSpline.lean` (general path, spline_eval_funcs.py), `Model/CubicUniform.lean` (uniform cubic path).
Helper lemmas: `Lemmas/BSpline.lean`.  Only the property theorems live here.
-/
import PygyroVerif.Model.BSpline
import PygyroVerif.Model.CubicUniform
import PygyroVerif.Lemmas.BSpline
import Mathlib.Algebra.Order.Field.Rat
import Mathlib.Tactic.NormNum
import Mathlib.Data.Rat.Floor

set_option linter.unusedSectionVars false

namespace PygyroVerif.C07
open PygyroVerif.BSpline PygyroVerif.CubicUniform Polynomial

variable {K : Type*} [Field K] [LinearOrder K] [IsStrictOrderedRing K]

/-- concrete instance used by the `example`s: integer knots `0,1,2,…` -/
def exKnots : ℕ → ℚ := fun i => (i : ℚ)
theorem exKnots_mono : Monotone exKnots := fun a b h => by simpa [exKnots] using h

/-! ## 1. the span search -/

/-- `nu_find_span` terminates (the fuel `high-low+1` of the model suffices) and returns the right cell:
    `degree ≤ span ≤ nk-2-degree`; first cell for `x ≤ t_degree`, last cell for `x ≥ t_high`, and the cell
    `t_span ≤ x < t_{span+1}` strictly inside. -/
theorem findSpan_some_correct (t : ℕ → K) (ht : Monotone t) (nk degree : ℕ) (x : K)
    (hdom : t degree < t (nk - 1 - degree)) :
    ∃ span, findSpan t nk degree x = some span ∧ degree ≤ span ∧ span ≤ nk - 2 - degree ∧
      (x ≤ t degree → span = degree) ∧
      (t (nk - 1 - degree) ≤ x → span = nk - 2 - degree) ∧
      (t degree < x → x < t (nk - 1 - degree) → t span ≤ x ∧ x < t (span + 1)) := by
  have hlt : degree < nk - 1 - degree := by
    by_contra h
    exact absurd (ht (not_lt.mp h)) (not_le.mpr hdom)
  unfold findSpan
  simp only
  by_cases h1 : x ≤ t degree
  · rw [if_pos h1]
    refine ⟨degree, rfl, le_refl _, by omega, fun _ => rfl, ?_, ?_⟩
    · intro h2; exact absurd (lt_of_lt_of_le hdom h2) (not_lt.mpr h1)
    · intro h2; exact absurd h2 (not_lt.mpr h1)
  · rw [if_neg h1]
    by_cases h2 : t (nk - 1 - degree) ≤ x
    · rw [if_pos h2]
      refine ⟨nk - 1 - degree - 1, rfl, by omega, by omega, fun h => absurd h h1, fun _ => by omega, ?_⟩
      intro _ h3; exact absurd h2 (not_le.mpr h3)
    · rw [if_neg h2]
      obtain ⟨s, hs, hs1, hs2, hs3, hs4⟩ :=
        findSpanLoop_correct t x (nk - 1 - degree - degree + 1) degree (nk - 1 - degree) hlt (by omega)
          (le_of_lt (not_le.mp h1)) (not_le.mp h2)
      exact ⟨s, hs, hs1, by omega, fun h => absurd h h1, fun h => absurd h h2, fun _ _ => ⟨hs3, hs4⟩⟩

example : ∃ span, findSpan exKnots 8 2 (7/2 : ℚ) = some span ∧ 2 ≤ span ∧ span ≤ 8 - 2 - 2 := by
  obtain ⟨s, h1, h2, h3, _⟩ := findSpan_some_correct exKnots exKnots_mono 8 2 (7/2) (by norm_num [exKnots])
  exact ⟨s, h1, h2, h3⟩

/-- inside the domain the returned cell is the unique one that contains `x` when the cell is non-degenerate:
    any `s` with `t_s ≤ x < t_{s+1}` is the returned span -/
theorem findSpan_unique (t : ℕ → K) (ht : Monotone t) (nk degree : ℕ) (x : K)
    (hdom : t degree < t (nk - 1 - degree)) (hx1 : t degree < x) (hx2 : x < t (nk - 1 - degree))
    (s : ℕ) (hs1 : t s ≤ x) (hs2 : x < t (s + 1)) : findSpan t nk degree x = some s := by
  obtain ⟨span, h, _, _, _, _, h6⟩ := findSpan_some_correct t ht nk degree x hdom
  obtain ⟨h7, h8⟩ := h6 hx1 hx2
  have : span = s := by
    rcases Nat.lt_trichotomy span s with hlt | heq | hgt
    · exact absurd (lt_of_lt_of_le h8 (ht hlt)) (not_lt.mpr hs1)
    · exact heq
    · exact absurd (lt_of_lt_of_le hs2 (ht hgt)) (not_lt.mpr h7)
  rw [h, this]

example : findSpan exKnots 8 2 (7/2 : ℚ) = some 3 :=
  findSpan_unique exKnots exKnots_mono 8 2 (7/2) (by norm_num [exKnots]) (by norm_num [exKnots])
    (by norm_num [exKnots]) 3 (by norm_num [exKnots]) (by norm_num [exKnots])

/-! ## 2. partition of unity, non-negativity, derivatives sum to zero -/

/-- the basis values sum to one for *every* `x` (the identity is polynomial) on a non-degenerate cell -/
theorem basis_sum_one (t : ℕ → K) (ht : Monotone t) (p span : ℕ) (x : K) (hcell : t span < t (span + 1)) :
    (basisFuns t p x span).sum = 1 := by
  unfold basisFuns
  apply levels_sum
  intro j i _ _
  simp only [leftOf, rightOf]
  have h1 : t (span - (j - i)) ≤ t span := ht (by omega)
  have h2 : t (span + 1) ≤ t (span + 1 + i) := ht (by omega)
  have : 0 < t (span + 1 + i) - x + (x - t (span - (j - i))) := by linarith
  exact ne_of_gt this

example : (basisFuns exKnots 3 (7/2 : ℚ) 3).sum = 1 :=
  basis_sum_one exKnots exKnots_mono 3 3 (7/2) (by norm_num [exKnots])

/-- the basis values are non-negative on the closed cell -/
theorem basis_nonneg (t : ℕ → K) (ht : Monotone t) (p span : ℕ) (x : K)
    (hx1 : t span ≤ x) (hx2 : x ≤ t (span + 1)) : ∀ v ∈ basisFuns t p x span, 0 ≤ v := by
  unfold basisFuns
  apply levels_nonneg
  · intro k _
    simp only [leftOf]
    have : t (span - k) ≤ t span := ht (by omega)
    linarith
  · intro k _
    simp only [rightOf]
    have : t (span + 1) ≤ t (span + 1 + k) := ht (by omega)
    linarith

example : ∀ v ∈ basisFuns exKnots 3 (4 : ℚ) 3, 0 ≤ v :=
  basis_nonneg exKnots exKnots_mono 3 3 4 (by norm_num [exKnots]) (by norm_num [exKnots])

/-- the derivative values telescope: `Σ_j ders[j] = 0` (any knots, any `x`, any span, degree ≥ 0) -/
theorem ders_sum_zero (t : ℕ → K) (p span : ℕ) (x : K) : (basisFunsDer t p x span).sum = 0 := by
  unfold basisFunsDer
  simp only
  generalize derSaved t p span (basisFuns t (p - 1) x span) = s
  rw [sum_map_sub]
  have hA : ((List.range (p + 1)).map (fun j => if j = 0 then 0 else s (j - 1))).sum
      = ((List.range p).map s).sum := by
    rw [List.range_succ_eq_map]
    simp [Function.comp_def]
  have hB : ((List.range (p + 1)).map (fun j => if j < p then s j else 0)).sum
      = ((List.range p).map s).sum := by
    rw [List.range_succ]
    simp only [List.map_append, List.sum_append, List.map_cons, List.map_nil, List.sum_cons, List.sum_nil,
      lt_self_iff_false, if_false, add_zero]
    congr 1
    apply List.map_congr_left
    intro j hj
    rw [if_pos (List.mem_range.mp hj)]
  rw [hA, hB, sub_self]

example : (basisFunsDer exKnots 3 (7/2 : ℚ) 3).sum = 0 := ders_sum_zero exKnots 3 3 (7/2)

/-! ## 3. A2.2 computes the Cox–de Boor functions; the 1-D evaluation is the B-spline sum -/

/-- `values[r] = N_{span-p+r, p}(x)` on the half-open cell `t_span ≤ x < t_{span+1}` -/
theorem basisFuns_eq_coxDeBoor (t : ℕ → K) (ht : Monotone t) (p span : ℕ) (x : K)
    (hp : p ≤ span) (hx1 : t span ≤ x) (hx2 : x < t (span + 1)) (r : ℕ) (hr : r ≤ p) :
    (basisFuns t p x span).getD r 0 = N t p (span - p + r) x :=
  levels_eq_N t ht span x hx1 hx2 p hp r hr

example : (basisFuns exKnots 2 (7/2 : ℚ) 3).getD 1 0 = N exKnots 2 (3 - 2 + 1) (7/2) :=
  basisFuns_eq_coxDeBoor exKnots exKnots_mono 2 3 (7/2) (by norm_num) (by norm_num [exKnots])
    (by norm_num [exKnots]) 1 (by norm_num)

/-- 1-D evaluation, from the definitions: `Σ_j coeffs[span-p+j]·basis[j]` over the `p+1` active indices,
    value (`der = false`) or first derivative (`der = true`) -/
theorem evalSpline1D_eq_dot (t : ℕ → K) (nk p : ℕ) (c : ℕ → K) (x : K) (der : Bool) (span : ℕ)
    (hs : findSpan t nk p x = some span) :
    evalSpline1D t nk p c x der = some (((List.range (p + 1)).map
      (fun j => c (span - p + j) * (basisOrDer t p x span der).getD j 0)).sum) := by
  unfold evalSpline1D
  rw [hs, Option.map_some, dotFrom_eq_sum]
  rw [basisOrDer_length]

example (c : ℕ → ℚ) : evalSpline1D exKnots 8 2 c (7/2 : ℚ) true = some (((List.range (2 + 1)).map
    (fun j => c (3 - 2 + j) * (basisOrDer exKnots 2 (7/2) 3 true).getD j 0)).sum) :=
  evalSpline1D_eq_dot exKnots 8 2 c (7/2) true 3
    (findSpan_unique exKnots exKnots_mono 8 2 (7/2) (by norm_num [exKnots]) (by norm_num [exKnots])
      (by norm_num [exKnots]) 3 (by norm_num [exKnots]) (by norm_num [exKnots]))

/-- **the evaluated value is the B-spline** `Σ_{i<nb} c_i·N_{i,p}(x)` (all `nb = nk-p-1` basis functions) for every
    `x` of the half-open domain `[t_p, t_{nk-1-p})`, knots included.  Interior knots may be repeated; only the first
    cell must be non-empty (`t_p < t_{p+1}`, an assumption of A2.1: `make_knots` asserts strictly increasing breaks). -/
theorem evalSpline1D_eq_sum (t : ℕ → K) (ht : Monotone t) (nk p : ℕ) (c : ℕ → K) (x : K)
    (hc0 : t p < t (p + 1)) (hx1 : t p ≤ x) (hx2 : x < t (nk - 1 - p)) :
    evalSpline1D t nk p c x false
      = some (((List.range (nk - 1 - p)).map (fun i => c i * N t p i x)).sum) := by
  have hdom : t p < t (nk - 1 - p) := lt_of_le_of_lt hx1 hx2
  obtain ⟨span, hs, hs1, hs2, hfirst, _, hin⟩ := findSpan_some_correct t ht nk p x hdom
  have hlt : p < nk - 1 - p := by
    by_contra h
    exact absurd (ht (not_lt.mp h)) (not_le.mpr hdom)
  have hcell : t span ≤ x ∧ x < t (span + 1) := by
    rcases lt_or_eq_of_le hx1 with h | h
    · exact hin h hx2
    · have hsp : span = p := hfirst (le_of_eq h.symm)
      subst hsp
      exact ⟨hx1, by rw [← h]; exact hc0⟩
  rw [evalSpline1D_eq_dot t nk p c x false span hs]
  congr 1
  simp only [basisOrDer, Bool.false_eq_true, if_false]
  exact dot_basis_eq_sum_N t ht p span x hs1 hcell.1 hcell.2 (nk - 1 - p) (by omega) c

example (c : ℕ → ℚ) : evalSpline1D exKnots 8 2 c (3 : ℚ) false
    = some (((List.range (8 - 1 - 2)).map (fun i => c i * N exKnots 2 i 3)).sum) :=
  evalSpline1D_eq_sum exKnots exKnots_mono 8 2 c 3 (by norm_num [exKnots]) (by norm_num [exKnots])
    (by norm_num [exKnots])

/-- **right end point** `x = t_{nk-1-p}`: the code evaluates the last cell's polynomial there, i.e. the B-spline sum with the
    left-continuous convention (limit from inside the domain).  The last cell must be non-empty. -/
theorem evalSpline1D_right_end (t : ℕ → K) (ht : Monotone t) (nk p : ℕ) (c : ℕ → K)
    (hdom : t p < t (nk - 1 - p)) (hlast : t (nk - 2 - p) < t (nk - 1 - p)) :
    evalSpline1D t nk p c (t (nk - 1 - p)) false
      = some (((List.range (nk - 1 - p)).map (fun i => c i * Nleft t p i (t (nk - 1 - p)))).sum) := by
  obtain ⟨span, hs, hs1, hs2, _, hl, _⟩ := findSpan_some_correct t ht nk p (t (nk - 1 - p)) hdom
  have hlt : p < nk - 1 - p := by
    by_contra h
    exact absurd (ht (not_lt.mp h)) (not_le.mpr hdom)
  have hsp : span = nk - 2 - p := hl (le_refl _)
  have e1 : nk - 2 - p + 1 = nk - 1 - p := by omega
  rw [evalSpline1D_eq_dot t nk p c _ false span hs]
  congr 1
  simp only [basisOrDer, Bool.false_eq_true, if_false]
  subst hsp
  exact dot_basis_eq_sum_Nleft t ht p (nk - 2 - p) _ hs1 hlast (by rw [e1]) (nk - 1 - p) (by omega) c

example (c : ℕ → ℚ) : evalSpline1D exKnots 8 2 c (exKnots (8 - 1 - 2)) false
    = some (((List.range (8 - 1 - 2)).map (fun i => c i * Nleft exKnots 2 i (exKnots (8 - 1 - 2)))).sum) :=
  evalSpline1D_right_end exKnots exKnots_mono 8 2 c (by norm_num [exKnots]) (by norm_num [exKnots])

/-! ## 4. the 2-D entry point is the tensor product, for all four `(der1, der2)` -/

/-- `nu_eval_spline_2d_scalar`, from the definitions: `Σ_i (Σ_j c[s1-d1+i, s2-d2+j]·B2[j])·B1[i]`, where `B1`/`B2` are
    the value or first-derivative lists according to `der1`/`der2` (all four branches; the cross and vector entry
    points of the code are loops over this scalar kernel — tied to it by the correspondence check) -/
theorem entrypoints (t1 : ℕ → K) (nk1 d1 : ℕ) (t2 : ℕ → K) (nk2 d2 : ℕ) (c : ℕ → ℕ → K) (x y : K)
    (der1 der2 : Bool) (s1 s2 : ℕ)
    (h1 : findSpan t1 nk1 d1 x = some s1) (h2 : findSpan t2 nk2 d2 y = some s2) :
    evalSpline2D t1 nk1 d1 t2 nk2 d2 c x y der1 der2 = some
      (((List.range (d1 + 1)).map (fun i =>
          ((List.range (d2 + 1)).map (fun j =>
            c (s1 - d1 + i) (s2 - d2 + j) * (basisOrDer t2 d2 y s2 der2).getD j 0)).sum
          * (basisOrDer t1 d1 x s1 der1).getD i 0)).sum) := by
  unfold evalSpline2D
  rw [h1, h2]
  simp only
  have := foldl_zipIdx_eq_sum
    (fun i b => dotFrom (c (s1 - d1 + i)) (s2 - d2) (basisOrDer t2 d2 y s2 der2) * b)
    (basisOrDer t1 d1 x s1 der1) 0 0
  simp only [zero_add] at this
  rw [this, basisOrDer_length]
  congr 2
  apply List.map_congr_left
  intro i _
  rw [dotFrom_eq_sum, basisOrDer_length]

example (c : ℕ → ℕ → ℚ) : ∃ v, evalSpline2D exKnots 8 2 exKnots 9 3 c (7/2) (4 : ℚ) true false = some v :=
  ⟨_, entrypoints exKnots 8 2 exKnots 9 3 c (7/2) 4 true false 3 4
    (findSpan_unique exKnots exKnots_mono 8 2 (7/2) (by norm_num [exKnots]) (by norm_num [exKnots])
      (by norm_num [exKnots]) 3 (by norm_num [exKnots]) (by norm_num [exKnots]))
    (findSpan_unique exKnots exKnots_mono 9 3 4 (by norm_num [exKnots]) (by norm_num [exKnots])
      (by norm_num [exKnots]) 4 (by norm_num [exKnots]) (by norm_num [exKnots]))⟩

/-- value of the 2-D spline = `Σ_{i<nb1} Σ_{j<nb2} c_ij·N_{j,d2}(y)·N_{i,d1}(x)` on the half-open domain -/
theorem evalSpline2D_eq_tensor (t1 : ℕ → K) (ht1 : Monotone t1) (nk1 d1 : ℕ) (t2 : ℕ → K) (ht2 : Monotone t2)
    (nk2 d2 : ℕ) (c : ℕ → ℕ → K) (x y : K)
    (hc1 : t1 d1 < t1 (d1 + 1)) (hx1 : t1 d1 ≤ x) (hx2 : x < t1 (nk1 - 1 - d1))
    (hc2 : t2 d2 < t2 (d2 + 1)) (hy1 : t2 d2 ≤ y) (hy2 : y < t2 (nk2 - 1 - d2)) :
    evalSpline2D t1 nk1 d1 t2 nk2 d2 c x y false false = some
      (((List.range (nk1 - 1 - d1)).map (fun i =>
          ((List.range (nk2 - 1 - d2)).map (fun j => c i j * N t2 d2 j y)).sum * N t1 d1 i x)).sum) := by
  -- spans and their cells, as in the 1-D theorem
  have cell : ∀ (t : ℕ → K), Monotone t → ∀ (nk p : ℕ) (x : K), t p < t (p + 1) → t p ≤ x → x < t (nk - 1 - p) →
      ∃ span, findSpan t nk p x = some span ∧ p ≤ span ∧ span + 1 ≤ nk - 1 - p ∧ t span ≤ x ∧ x < t (span + 1) := by
    intro t ht nk p x hc0 hx1 hx2
    have hdom : t p < t (nk - 1 - p) := lt_of_le_of_lt hx1 hx2
    obtain ⟨span, hs, hs1, hs2, hfirst, _, hin⟩ := findSpan_some_correct t ht nk p x hdom
    have hlt : p < nk - 1 - p := by
      by_contra h
      exact absurd (ht (not_lt.mp h)) (not_le.mpr hdom)
    refine ⟨span, hs, hs1, by omega, ?_⟩
    rcases lt_or_eq_of_le hx1 with h | h
    · exact hin h hx2
    · have hsp : span = p := hfirst (le_of_eq h.symm)
      subst hsp
      exact ⟨hx1, by rw [← h]; exact hc0⟩
  obtain ⟨s1, hs1, hp1, hn1, hx1', hx2'⟩ := cell t1 ht1 nk1 d1 x hc1 hx1 hx2
  obtain ⟨s2, hs2, hp2, hn2, hy1', hy2'⟩ := cell t2 ht2 nk2 d2 y hc2 hy1 hy2
  rw [entrypoints t1 nk1 d1 t2 nk2 d2 c x y false false s1 s2 hs1 hs2]
  congr 1
  simp only [basisOrDer, Bool.false_eq_true, if_false]
  have inner : ∀ i, ((List.range (d2 + 1)).map (fun j =>
      c (s1 - d1 + i) (s2 - d2 + j) * (basisFuns t2 d2 y s2).getD j 0)).sum
      = ((List.range (nk2 - 1 - d2)).map (fun j => c (s1 - d1 + i) j * N t2 d2 j y)).sum := fun i =>
    dot_basis_eq_sum_N t2 ht2 d2 s2 y hp2 hy1' hy2' (nk2 - 1 - d2) hn2 (c (s1 - d1 + i))
  simp only [inner]
  exact dot_basis_eq_sum_N t1 ht1 d1 s1 x hp1 hx1' hx2' (nk1 - 1 - d1) hn1
    (fun i => ((List.range (nk2 - 1 - d2)).map (fun j => c i j * N t2 d2 j y)).sum)

example (c : ℕ → ℕ → ℚ) : ∃ v, evalSpline2D exKnots 8 2 exKnots 9 3 c (7/2) (4 : ℚ) false false = some v :=
  ⟨_, evalSpline2D_eq_tensor exKnots exKnots_mono 8 2 exKnots exKnots_mono 9 3 c (7/2) 4
    (by norm_num [exKnots]) (by norm_num [exKnots]) (by norm_num [exKnots])
    (by norm_num [exKnots]) (by norm_num [exKnots]) (by norm_num [exKnots])⟩

/-! ## 5. the uniform-cubic fast path is the general path on the uniform knot vector `t_i = xmin + (i-3)·dx` -/

/-- concrete `int(·)` for the examples: the floor of a rational -/
def exTrunc : ℚ → ℤ := fun q => ⌊q⌋
theorem exTrunc_spec : ∀ q : ℚ, 0 ≤ q → ((exTrunc q : ℤ) : ℚ) ≤ q ∧ q < ((exTrunc q : ℤ) : ℚ) + 1 :=
  fun q _ => ⟨Int.floor_le q, Int.lt_floor_add_one q⟩

/-- closed forms of `cu_basis_funs` / `cu_basis_funs_1st_der` = A2.2 / degree-lowering of degree 3 on the uniform knots,
    for the offset the cubic code uses (`offset = (x-xmin)/dx - (span-3)`), as identities in `x` (any `x`, `dx ≠ 0`) -/
theorem cubic_eq_general (xmin dx : K) (hdx : dx ≠ 0) (span : ℕ) (hs : 3 ≤ span) (x : K) :
    cuBasisFuns ((x - xmin) / dx - ((span : K) - 3)) = basisFuns (uniformKnots xmin dx) 3 x span ∧
    cuBasisFunsDer ((x - xmin) / dx - ((span : K) - 3)) dx = basisFunsDer (uniformKnots xmin dx) 3 x span := by
  obtain ⟨s, rfl⟩ : ∃ s, span = s + 3 := ⟨span - 3, by omega⟩
  have ho : (x - xmin) / dx - (((s + 3 : ℕ) : K) - 3) = (x - xmin) / dx - (s : K) := by push_cast; ring
  rw [ho]
  set o := (x - xmin) / dx - (s : K) with hodef
  have h := fun k hk => uniform_left_right xmin dx hdx s x k hk
  have hl0 := (h 0 (by norm_num)).1; have hr0 := (h 0 (by norm_num)).2
  have hl1 := (h 1 (by norm_num)).1; have hr1 := (h 1 (by norm_num)).2
  have hl2 := (h 2 (by norm_num)).1; have hr2 := (h 2 (by norm_num)).2
  rw [← hodef] at hl0 hl1 hl2 hr0 hr1 hr2
  constructor
  · unfold basisFuns
    rw [levels_uniform3 _ _ o dx hdx (by rw [hl0]; push_cast; ring) (by rw [hl1]; push_cast; ring)
      (by rw [hl2]; push_cast; ring) (by rw [hr0]; push_cast; ring) (by rw [hr1]; push_cast; ring)
      (by rw [hr2]; push_cast; ring)]
  · unfold basisFunsDer basisFuns
    simp only [Nat.add_one_sub_one, Nat.reduceAdd]
    rw [levels_uniform2 _ _ o dx hdx (by rw [hl0]; push_cast; ring) (by rw [hl1]; push_cast; ring)
      (by rw [hr0]; push_cast; ring) (by rw [hr1]; push_cast; ring)]
    have hr4 : List.range 4 = [0, 1, 2, 3] := by decide
    have hk : ∀ m, 3 ≤ m → uniformKnots xmin dx m - uniformKnots xmin dx (m - 3) = 3 * dx := by
      intro m hm
      simp only [uniformKnots]
      rw [Nat.cast_sub hm]; push_cast; ring
    simp only [hr4, List.map_cons, List.map_nil, derSaved, if_true, Nat.reduceSub, Nat.reduceLT, Nat.reduceEqDiff,
      if_false, List.getD_cons_zero, List.getD_cons_succ, hk _ (by omega : 3 ≤ s + 3 + 0 + 1),
      hk _ (by omega : 3 ≤ s + 3 + 1 + 1), hk _ (by omega : 3 ≤ s + 3 + 2 + 1), cuBasisFunsDer]
    push_cast
    simp only [List.cons.injEq, and_true]
    refine ⟨?_, ?_, ?_, ?_⟩
    all_goals field_simp
    all_goals try ring

/-- `cu_find_span` on the closed domain: for `xmin ≤ x ≤ xmin + ncells·dx` the returned pair is a cell index
    `3 ≤ s ≤ ncells+2` of the uniform knot vector with `t_s ≤ x ≤ t_{s+1}` (`x < t_{s+1}` except at the right end)
    and `offset = (x-xmin)/dx - (s-3) ∈ [0,1]` -/
theorem cuFindSpan_correct (trunc : K → ℤ) (htr : ∀ q : K, 0 ≤ q → ((trunc q : ℤ) : K) ≤ q ∧ q < ((trunc q : ℤ) : K) + 1)
    (xmin dx x : K) (hdx : 0 < dx) (ncells : ℕ) (hn : 1 ≤ ncells) (hx1 : xmin ≤ x) (hx2 : x ≤ xmin + (ncells : K) * dx) :
    ∃ s : ℕ, (cuFindSpan trunc xmin dx x (ncells : ℤ)).1 = (s : ℤ) ∧ 3 ≤ s ∧ s ≤ ncells + 2 ∧
      (cuFindSpan trunc xmin dx x (ncells : ℤ)).2 = (x - xmin) / dx - ((s : K) - 3) ∧
      0 ≤ (cuFindSpan trunc xmin dx x (ncells : ℤ)).2 ∧ (cuFindSpan trunc xmin dx x (ncells : ℤ)).2 ≤ 1 ∧
      uniformKnots xmin dx s ≤ x ∧ x ≤ uniformKnots xmin dx (s + 1) ∧
      (x < xmin + (ncells : K) * dx → x < uniformKnots xmin dx (s + 1)) := by
  have hq0 : 0 ≤ (x - xmin) / dx := div_nonneg (by linarith) (le_of_lt hdx)
  have hqn : (x - xmin) / dx ≤ (ncells : K) := by
    rw [div_le_iff₀ hdx]; linarith
  obtain ⟨h1, h2⟩ := htr _ hq0
  set q := (x - xmin) / dx with hq
  have hxq : x = xmin + q * dx := by rw [hq]; field_simp; ring
  -- the truncated value is a natural number ≤ ncells
  have hk0 : 0 ≤ trunc q := by
    by_contra hneg
    have : trunc q ≤ -1 := by omega
    have : ((trunc q : ℤ) : K) ≤ -1 := by exact_mod_cast this
    linarith
  obtain ⟨k, hk⟩ := Int.eq_ofNat_of_zero_le hk0
  rw [hk] at h1 h2
  have h1' : (k : K) ≤ q := by exact_mod_cast h1
  have h2' : q < (k : K) + 1 := by exact_mod_cast h2
  have hkn : k ≤ ncells := by
    have : (k : K) ≤ (ncells : K) := le_trans h1' hqn
    exact_mod_cast this
  unfold cuFindSpan
  simp only [← hq, hk]
  by_cases hend : (k : ℤ) = (ncells : ℤ)
  · rw [if_pos hend]
    have hkn' : k = ncells := by exact_mod_cast hend
    subst hkn'
    have hqk : q = (k : K) := le_antisymm hqn h1'
    refine ⟨k + 2, by push_cast; ring, by omega, by omega, ?_, by norm_num, by norm_num, ?_, ?_, ?_⟩
    · simp only; rw [hqk]; push_cast; ring
    · simp only [uniformKnots]; rw [hxq, hqk]; push_cast; nlinarith
    · simp only [uniformKnots]; rw [hxq, hqk]; push_cast; nlinarith
    · intro hlt; rw [hxq, hqk] at hlt; exact absurd hlt (lt_irrefl _)
  · rw [if_neg hend]
    have hklt : k < ncells := by
      rcases Nat.lt_or_ge k ncells with h | h
      · exact h
      · exact absurd (by exact_mod_cast (le_antisymm hkn h)) hend
    refine ⟨k + 3, by push_cast; ring, by omega, by omega, ?_, ?_, ?_, ?_, ?_, ?_⟩
    · simp only; push_cast; ring
    · simp only; linarith
    · simp only; linarith
    · simp only [uniformKnots]; rw [hxq]; push_cast; nlinarith
    · simp only [uniformKnots]; rw [hxq]; push_cast; nlinarith
    · intro _; simp only [uniformKnots]; rw [hxq]; push_cast; nlinarith

example : cuBasisFuns (((5/4 : ℚ) - 0) / (1/2) - (((5 : ℕ) : ℚ) - 3)) = basisFuns (uniformKnots 0 (1/2)) 3 (5/4) 5 :=
  (cubic_eq_general (0 : ℚ) (1/2) (by norm_num) 5 (by norm_num) (5/4)).1

example : ∃ s : ℕ, (cuFindSpan exTrunc (0 : ℚ) (1/2) 2 ((4 : ℕ) : ℤ)).1 = (s : ℤ) ∧ 3 ≤ s ∧ s ≤ 4 + 2 := by
  obtain ⟨s, h1, h2, h3, _⟩ := cuFindSpan_correct exTrunc exTrunc_spec 0 (1/2) 2 (by norm_num) 4 (by norm_num)
    (by norm_num) (by norm_num)
  exact ⟨s, h1, h2, h3⟩

/-- the general span search on the uniform knot vector picks the cell that `cu_find_span` picks -/
theorem cubic_same_cell (trunc : K → ℤ) (htr : ∀ q : K, 0 ≤ q → ((trunc q : ℤ) : K) ≤ q ∧ q < ((trunc q : ℤ) : K) + 1)
    (xmin dx x : K) (hdx : 0 < dx) (ncells : ℕ) (hn : 1 ≤ ncells) (hx1 : xmin ≤ x) (hx2 : x ≤ xmin + (ncells : K) * dx) :
    ∃ s : ℕ, (cuFindSpan trunc xmin dx x (ncells : ℤ)).1 = (s : ℤ) ∧ 3 ≤ s ∧
      findSpan (uniformKnots xmin dx) (ncells + 7) 3 x = some s := by
  obtain ⟨s, h1, h2, h3, _, _, _, h7, h8, h9⟩ := cuFindSpan_correct trunc htr xmin dx x hdx ncells hn hx1 hx2
  refine ⟨s, h1, h2, ?_⟩
  have hsm := uniformKnots_strictMono xmin dx hdx
  have hm : Monotone (uniformKnots xmin dx) := hsm.monotone
  have e3 : uniformKnots xmin dx 3 = xmin := by simp [uniformKnots]
  have ehigh : uniformKnots xmin dx (ncells + 7 - 1 - 3) = xmin + (ncells : K) * dx := by
    have : ncells + 7 - 1 - 3 = ncells + 3 := by omega
    rw [this]; simp only [uniformKnots]; push_cast; ring
  have hdom : uniformKnots xmin dx 3 < uniformKnots xmin dx (ncells + 7 - 1 - 3) := hsm (by omega)
  obtain ⟨sp, hs, hs1, hs2, hfirst, hlast, hin⟩ := findSpan_some_correct (uniformKnots xmin dx) hm (ncells + 7) 3 x hdom
  rw [hs]
  congr 1
  rcases lt_or_eq_of_le hx1 with hlt | heq
  · rcases lt_or_eq_of_le hx2 with hlt2 | heq2
    · -- strictly inside: both cells contain x
      obtain ⟨ha, hb⟩ := hin (by rw [e3]; exact hlt) (by rw [ehigh]; exact hlt2)
      have hb' := h9 hlt2
      rcases Nat.lt_trichotomy sp s with h | h | h
      · exact absurd (lt_of_lt_of_le hb (hm h)) (not_lt.mpr h7)
      · exact h
      · exact absurd (lt_of_lt_of_le hb' (hm h)) (not_lt.mpr ha)
    · -- right end
      have hsp : sp = ncells + 7 - 2 - 3 := hlast (by rw [ehigh, heq2])
      have : ¬ (s + 1 < ncells + 3) := by
        intro hlt3
        have := hsm hlt3
        rw [(by omega : ncells + 3 = ncells + 7 - 1 - 3), ehigh, ← heq2] at this
        exact absurd h8 (not_le.mpr this)
      omega
  · -- left end
    have hsp : sp = 3 := hfirst (by rw [e3, heq])
    have : ¬ (3 < s) := by
      intro hlt3
      have := hsm hlt3
      rw [e3] at this
      exact absurd h7 (not_le.mpr (lt_of_eq_of_lt heq.symm this))
    omega

example : ∃ s : ℕ, (cuFindSpan exTrunc (0 : ℚ) (1/2) (5/4) ((4 : ℕ) : ℤ)).1 = (s : ℤ) ∧ 3 ≤ s ∧
    findSpan (uniformKnots (0 : ℚ) (1/2)) (4 + 7) 3 (5/4) = some s :=
  cubic_same_cell exTrunc exTrunc_spec 0 (1/2) (5/4) (by norm_num) 4 (by norm_num) (by norm_num) (by norm_num)

/-- what the cubic path feeds to the accumulation loops is what the general path computes on the uniform knots -/
theorem cubic_span_basis (trunc : K → ℤ) (htr : ∀ q : K, 0 ≤ q → ((trunc q : ℤ) : K) ≤ q ∧ q < ((trunc q : ℤ) : K) + 1)
    (xmin dx x : K) (hdx : 0 < dx) (ncells : ℕ) (hn : 1 ≤ ncells) (hx1 : xmin ≤ x) (hx2 : x ≤ xmin + (ncells : K) * dx) :
    ∃ s : ℕ, findSpan (uniformKnots xmin dx) (ncells + 7) 3 x = some s ∧
      ((cuFindSpan trunc xmin dx x (ncells : ℤ)).1 - 3).toNat = s - 3 ∧
      ∀ der, cuBasisOrDer (cuFindSpan trunc xmin dx x (ncells : ℤ)).2 dx der
        = basisOrDer (uniformKnots xmin dx) 3 x s der := by
  obtain ⟨s, h1, h2, _, h4, _⟩ := cuFindSpan_correct trunc htr xmin dx x hdx ncells hn hx1 hx2
  obtain ⟨s', h1', _, hfs⟩ := cubic_same_cell trunc htr xmin dx x hdx ncells hn hx1 hx2
  have hss : s' = s := by exact_mod_cast (h1'.symm.trans h1)
  subst hss
  refine ⟨s', hfs, by rw [h1]; omega, ?_⟩
  intro der
  rw [h4]
  obtain ⟨e1, e2⟩ := cubic_eq_general xmin dx (ne_of_gt hdx) s' h2 x
  cases der
  · simp only [cuBasisOrDer, basisOrDer, Bool.false_eq_true, if_false]; exact e1
  · simp only [cuBasisOrDer, basisOrDer, if_true]; exact e2

example := cubic_span_basis exTrunc exTrunc_spec 0 (1/2) (5/4) (by norm_num) 4 (by norm_num) (by norm_num) (by norm_num)

/-- **the uniform-cubic fast path and the general path give the same function** (value and first derivative) on the whole
    closed domain `[xmin, xmin + ncells·dx]`, right end point included -/
theorem cubic_path_eq_general_path (trunc : K → ℤ)
    (htr : ∀ q : K, 0 ≤ q → ((trunc q : ℤ) : K) ≤ q ∧ q < ((trunc q : ℤ) : K) + 1)
    (xmin dx x : K) (hdx : 0 < dx) (ncells : ℕ) (hn : 1 ≤ ncells) (hx1 : xmin ≤ x) (hx2 : x ≤ xmin + (ncells : K) * dx)
    (c : ℕ → K) (der : Bool) :
    evalSpline1D (uniformKnots xmin dx) (ncells + 7) 3 c x der
      = some (cuEvalSpline1D trunc xmin dx (ncells : ℤ) c x der) := by
  obtain ⟨s, hfs, hidx, hb⟩ := cubic_span_basis trunc htr xmin dx x hdx ncells hn hx1 hx2
  unfold evalSpline1D cuEvalSpline1D
  rw [hfs, Option.map_some]
  simp only
  rw [hidx, hb der]

/-- the same for the 2-D scalar kernels, all four `(der1, der2)` -/
theorem cubic_path_eq_general_path_2d (trunc : K → ℤ)
    (htr : ∀ q : K, 0 ≤ q → ((trunc q : ℤ) : K) ≤ q ∧ q < ((trunc q : ℤ) : K) + 1)
    (xmin dx x : K) (hdx : 0 < dx) (ncx : ℕ) (hnx : 1 ≤ ncx) (hx1 : xmin ≤ x) (hx2 : x ≤ xmin + (ncx : K) * dx)
    (ymin dy y : K) (hdy : 0 < dy) (ncy : ℕ) (hny : 1 ≤ ncy) (hy1 : ymin ≤ y) (hy2 : y ≤ ymin + (ncy : K) * dy)
    (c : ℕ → ℕ → K) (der1 der2 : Bool) :
    evalSpline2D (uniformKnots xmin dx) (ncx + 7) 3 (uniformKnots ymin dy) (ncy + 7) 3 c x y der1 der2
      = some (cuEvalSpline2D trunc xmin dx (ncx : ℤ) ymin dy (ncy : ℤ) c x y der1 der2) := by
  obtain ⟨s1, hfs1, hidx1, hb1⟩ := cubic_span_basis trunc htr xmin dx x hdx ncx hnx hx1 hx2
  obtain ⟨s2, hfs2, hidx2, hb2⟩ := cubic_span_basis trunc htr ymin dy y hdy ncy hny hy1 hy2
  unfold evalSpline2D cuEvalSpline2D
  rw [hfs1, hfs2]
  simp only
  rw [hidx1, hidx2, hb1 der1, hb2 der2]

example (c : ℕ → ℚ) (der : Bool) : evalSpline1D (uniformKnots (0 : ℚ) (1/2)) (4 + 7) 3 c 2 der
    = some (cuEvalSpline1D exTrunc 0 (1/2) ((4 : ℕ) : ℤ) c 2 der) :=
  cubic_path_eq_general_path exTrunc exTrunc_spec 0 (1/2) 2 (by norm_num) 4 (by norm_num) (by norm_num) (by norm_num) c der

example (c : ℕ → ℕ → ℚ) : evalSpline2D (uniformKnots (0 : ℚ) (1/2)) (4 + 7) 3 (uniformKnots (1 : ℚ) 2) (3 + 7) 3 c 2 7 true true
    = some (cuEvalSpline2D exTrunc 0 (1/2) ((4 : ℕ) : ℤ) 1 2 ((3 : ℕ) : ℤ) c 2 7 true true) :=
  cubic_path_eq_general_path_2d exTrunc exTrunc_spec 0 (1/2) 2 (by norm_num) 4 (by norm_num) (by norm_num) (by norm_num)
    1 2 7 (by norm_num) 3 (by norm_num) (by norm_num) (by norm_num) c true true

/-! ## 6. the derivative entry points return the derivative of the cell polynomial -/

/-- on a non-empty cell every basis value is a polynomial function of `x` (A2.2 run in `K[X]`: its denominators are
    differences of knots) and `nu_basis_funs_1st_der` returns the value of the **formal derivative** of that polynomial -/
theorem ders_is_derivative (t : ℕ → K) (ht : Monotone t) (p span : ℕ) (hcell : t span < t (span + 1))
    (r : ℕ) (hr : r ≤ p) :
    ∃ q : K[X], (∀ x, (basisFuns t p x span).getD r 0 = q.eval x) ∧
      (∀ x, (basisFunsDer t p x span).getD r 0 = (derivative q).eval x) :=
  ⟨cellPoly t span p r, fun x => (cellPoly_eval t span p r hr x).symm,
    fun x => (cellPoly_derivative_eval t ht span p r hcell hr x).symm⟩

example : ∃ q : ℚ[X], (∀ x, (basisFuns exKnots 3 x 3).getD 1 0 = q.eval x) ∧
    (∀ x, (basisFunsDer exKnots 3 x 3).getD 1 0 = (derivative q).eval x) :=
  ders_is_derivative exKnots exKnots_mono 3 3 (by norm_num [exKnots]) 1 (by norm_num)

/-- consequently the 1-D entry point with `der = 1` returns the derivative of the polynomial it returns with `der = 0`
    on the cell the span search selects -/
theorem evalSpline1D_der_is_derivative (t : ℕ → K) (ht : Monotone t) (nk p : ℕ) (c : ℕ → K) (span : ℕ)
    (hcell : t span < t (span + 1)) :
    ∃ q : K[X], ∀ x, findSpan t nk p x = some span →
      evalSpline1D t nk p c x false = some (q.eval x) ∧ evalSpline1D t nk p c x true = some ((derivative q).eval x) := by
  refine ⟨((List.range (p + 1)).map (fun j => C (c (span - p + j)) * cellPoly t span p j)).sum, ?_⟩
  intro x hs
  rw [evalSpline1D_eq_dot t nk p c x false span hs, evalSpline1D_eq_dot t nk p c x true span hs]
  have h0 : ∀ q : K[X], q.eval x = evalRingHom x q := fun q => rfl
  constructor
  · congr 1
    rw [h0, map_list_sum, List.map_map]
    apply congrArg
    apply List.map_congr_left
    intro j hj
    have hj' : j ≤ p := by have := List.mem_range.mp hj; omega
    simp only [Function.comp, coe_evalRingHom, eval_mul, eval_C, basisOrDer, Bool.false_eq_true, if_false]
    rw [cellPoly_eval t span p j hj' x]
  · congr 1
    rw [map_list_sum, h0, map_list_sum, List.map_map, List.map_map]
    apply congrArg
    apply List.map_congr_left
    intro j hj
    have hj' : j ≤ p := by have := List.mem_range.mp hj; omega
    simp only [Function.comp, coe_evalRingHom, derivative_mul, derivative_C, zero_mul, zero_add, eval_mul, eval_C,
      basisOrDer, if_true]
    rw [cellPoly_derivative_eval t ht span p j hcell hj' x]

example (c : ℕ → ℚ) : ∃ q : ℚ[X], ∀ x, findSpan exKnots 8 2 x = some 3 →
    evalSpline1D exKnots 8 2 c x false = some (q.eval x) ∧ evalSpline1D exKnots 8 2 c x true = some ((derivative q).eval x) :=
  evalSpline1D_der_is_derivative exKnots exKnots_mono 8 2 c 3 (by norm_num [exKnots])

/-! ## 7. periodic splines: both ends of the period -/

/-- translation invariance: evaluating (value or first derivative) in cell `span+n` at `x+L` with coefficients periodic
    over the active window gives what cell `span` gives at `x` (A2.2 only uses differences `x - t_i`) -/
theorem periodic_shift (t : ℕ → K) (n : ℕ) (L : K) (hper : ∀ i, t (i + n) = t i + L) (p span : ℕ)
    (hp : p ≤ span) (c : ℕ → K) (hc : ∀ j, j ≤ p → c (span - p + j + n) = c (span - p + j)) (x : K) (der : Bool) :
    dotFrom c (span + n - p) (basisOrDer t p (x + L) (span + n) der)
      = dotFrom c (span - p) (basisOrDer t p x span der) := by
  have hb : basisOrDer t p (x + L) (span + n) der = basisOrDer t p x span der := by
    unfold basisOrDer
    cases der
    · simp only [Bool.false_eq_true, if_false]; exact basisFuns_shift t n L hper p span (by omega) x
    · simp only [if_true]; exact basisFunsDer_shift t n L hper p span (by omega) x
  rw [hb, dotFrom_eq_sum, dotFrom_eq_sum, basisOrDer_length]
  apply congrArg
  apply List.map_congr_left
  intro j hj
  have hj' : j ≤ p := by have := List.mem_range.mp hj; omega
  have : span + n - p + j = span - p + j + n := by omega
  rw [this, hc j hj']

example (c : ℕ → ℚ) (hc : ∀ j, j ≤ 2 → c (3 - 2 + j + 4) = c (3 - 2 + j)) :
    dotFrom c (3 + 4 - 2) (basisOrDer exKnots 2 (7/2 + 4) (3 + 4) true)
      = dotFrom c (3 - 2) (basisOrDer exKnots 2 (7/2) 3 true) :=
  periodic_shift exKnots 4 4 (fun i => by simp [exKnots]) 2 3 (by norm_num) c hc (7/2) true

/-- **periodic splines take equal values (degree ≥ 1) and equal slopes (degree ≥ 2) at both ends of the period**:
    knots with `t_{i+n} = t_i + L` (as built by `make_knots`), `nk = n + 2p + 1`, coefficients wrapped
    `c_{n+i} = c_i` for `i < p` (the convention `coeffs[n:n+p] = coeffs[0:p]` of the code base) -/
theorem periodic_ends_equal (t : ℕ → K) (hst : StrictMono t) (n p : ℕ) (L : K) (c : ℕ → K)
    (hp : 1 ≤ p) (hn : 1 ≤ n) (hper : ∀ i, t (i + n) = t i + L) (hc : ∀ i, i < p → c (n + i) = c i) :
    evalSpline1D t (n + 2 * p + 1) p c (t (p + n)) false = evalSpline1D t (n + 2 * p + 1) p c (t p) false ∧
    (2 ≤ p → evalSpline1D t (n + 2 * p + 1) p c (t (p + n)) true = evalSpline1D t (n + 2 * p + 1) p c (t p) true) := by
  have ht : Monotone t := hst.monotone
  have ehigh : n + 2 * p + 1 - 1 - p = p + n := by omega
  have hdom : t p < t (n + 2 * p + 1 - 1 - p) := by rw [ehigh]; exact hst (by omega)
  -- the two spans
  have hsb : findSpan t (n + 2 * p + 1) p (t (p + n)) = some (p + n - 1) := by
    obtain ⟨sp, hs, _, _, _, hl, _⟩ := findSpan_some_correct t ht (n + 2 * p + 1) p (t (p + n)) hdom
    rw [hs, hl (by rw [ehigh])]
    congr 1; omega
  have hsa : findSpan t (n + 2 * p + 1) p (t p) = some p := by
    obtain ⟨sp, hs, _, _, hf, _, _⟩ := findSpan_some_correct t ht (n + 2 * p + 1) p (t p) hdom
    rw [hs, hf (le_refl _)]
  have key : ∀ der, ShiftCont (basisOrDer t p (t (p + n)) (p + n - 1) der) (basisOrDer t p (t (p + n)) (p + n) der) p →
      evalSpline1D t (n + 2 * p + 1) p c (t (p + n)) der = evalSpline1D t (n + 2 * p + 1) p c (t p) der := by
    intro der hsc
    unfold evalSpline1D
    rw [hsb, hsa, Option.map_some, Option.map_some]
    congr 1
    -- translate cell `p` at `t_p` to cell `p+n` at `t_p + L = t_{p+n}`
    have hshift : basisOrDer t p (t p) p der = basisOrDer t p (t (p + n)) (p + n) der := by
      rw [hper p]
      unfold basisOrDer
      cases der
      · simp only [Bool.false_eq_true, if_false]; exact (basisFuns_shift t n L hper p p (by omega) (t p)).symm
      · simp only [if_true]; exact (basisFunsDer_shift t n L hper p p (by omega) (t p)).symm
    rw [hshift]
    apply shiftCont_dot _ _ p hsc (basisOrDer_length _ _ _ _ _) (basisOrDer_length _ _ _ _ _)
    intro j hj
    have : p + n - 1 - p + (j + 1) = n + j := by omega
    rw [this, hc j hj]
    congr 1; omega
  have e1 : p + n - 1 + 1 = p + n := by omega
  have h1 : t (p + n - 1) < t (p + n - 1 + 1) := hst (by omega)
  have h2 : t (p + n - 1 + 1) < t (p + n - 1 + 2) := hst (by omega)
  constructor
  · apply key
    have := basis_continuous_at_knot t ht (p + n - 1) p hp (by omega) h1 h2
    rw [e1] at this
    simpa [basisOrDer] using this
  · intro hp2
    apply key
    have := ders_continuous_at_knot t ht (p + n - 1) p hp2 (by omega) h1 h2
    rw [e1] at this
    simpa [basisOrDer] using this

example (c : ℕ → ℚ) (hc : ∀ i, i < 2 → c (4 + i) = c i) :
    evalSpline1D exKnots (4 + 2 * 2 + 1) 2 c (exKnots (2 + 4)) true = evalSpline1D exKnots (4 + 2 * 2 + 1) 2 c (exKnots 2) true :=
  (periodic_ends_equal exKnots (fun a b h => by simpa [exKnots] using h) 4 2 4 c (by norm_num) (by norm_num)
    (fun i => by simp [exKnots]) hc).2 (by norm_num)
end PygyroVerif.C07
