/-
C04 (continued) — the time loop of the driver, as REGENERATED from fullSimulation.py by harness/translate_driver.py
(`Generated/TimeLoop.lean`), never issues a refused grid operation on the distribution function and re-enters the loop
in the same abstract state: "save, change layout several times, restore" — the interaction singled out by the property.
Kept in its own file because it depends on the generated module (`./check C04` runs the translator first).
-/
import PygyroVerif.Props.C04
import PygyroVerif.Generated.TimeLoop

namespace PygyroVerif.C04
open PygyroVerif.GridSM PygyroVerif.Generated
open PygyroVerif.Ckpt (Lay Call Simple Stmt Program)

/-- numbering of the layouts of the distribution function's handler -/
def layIdx : Lay → Nat
  | .flux_surface => 0 | .v_parallel => 1 | .poloidal => 2
  | .v_parallel_2d => 3 | .mode_solve => 4 | .v_parallel_1d => 5

/-- the grid operations a driver call performs on the distribution function: layout changes, save / restore, and the
    advection steps, which overwrite the values in place -/
def gridOps : Call → List Op
  | .setLayout .distribFunc l => [.setLayout (layIdx l)]
  | .saveGridValues .distribFunc => [.save]
  | .restoreGridValues .distribFunc => [.restore]
  | .fluxStep .distribFunc => [.write 0]
  | .vParStep .distribFunc _ _ => [.write 0]
  | .vParStepKeep .distribFunc _ => [.write 0]
  | .polStep .distribFunc _ _ => [.write 0]
  | _ => []

def simpleOps : Simple → List Op
  | .call c => gridOps c
  | _ => []

def stmtOps : Stmt → List Op
  | .s x => simpleOps x
  | .ifc _ body => body.flatMap simpleOps

/-- grid operations of one pass through the loop body / of the part before the loop -/
def bodyOps : List Op := driver.body.flatMap stmtOps
def preOps : List Op := driver.pre.flatMap stmtOps

/-- what decides acceptance: whether a save is held.  `none` = some operation is refused. -/
def acc : Bool → List GridSM.Op → Option Bool
  | sv, [] => some sv
  | sv, .save :: r => if sv then none else acc true r
  | sv, .restore :: r => if sv then acc false r else none
  | sv, .free :: r => if sv then acc false r else none
  | sv, .setLayout _ :: r => acc sv r
  | sv, .write _ :: r => acc sv r

theorem acc_spec : ∀ (ops : List GridSM.Op) (t : Spec) (b : Bool), t.hasSave = true → acc t.saved.isSome ops = some b →
    (t.run ops).2.all id = true ∧ (t.run ops).1.saved.isSome = b ∧ (t.run ops).1.hasSave = true := by
  intro ops
  induction ops with
  | nil => intro t b hs h; simp [acc] at h; simp [Spec.run, h, hs]
  | cons op r ih =>
    intro t b hs h
    cases op with
    | setLayout l =>
      simp only [acc] at h
      have := ih { t with layout := l } b hs h
      simpa [Spec.run, Spec.step] using this
    | write v =>
      simp only [acc] at h
      have := ih { t with field := v } b hs h
      simpa [Spec.run, Spec.step] using this
    | save =>
      simp only [acc] at h
      cases hsv : t.saved with
      | some x => simp [hsv] at h
      | none =>
        simp only [hsv, Option.isSome_none, Bool.false_eq_true, ↓reduceIte] at h
        have := ih { t with saved := some (t.field, t.layout) } b hs (by simpa using h)
        simpa [Spec.run, Spec.step, hs, hsv] using this
    | restore =>
      simp only [acc] at h
      cases hsv : t.saved with
      | none => simp [hsv] at h
      | some x =>
        obtain ⟨f, l⟩ := x
        simp only [hsv, Option.isSome_some, ↓reduceIte] at h
        have := ih { t with field := f, layout := l, saved := none } b hs (by simpa using h)
        simpa [Spec.run, Spec.step, hs, hsv] using this
    | free =>
      simp only [acc] at h
      cases hsv : t.saved with
      | none => simp [hsv] at h
      | some x =>
        simp only [hsv, Option.isSome_some, ↓reduceIte] at h
        have := ih { t with saved := none } b hs (by simpa using h)
        simpa [Spec.run, Spec.step, hs, hsv] using this

/-- the generated loop body, entered without a held save, is accepted throughout and ends without a held save
    (kernel-evaluated on whatever the translator produced from the current source) -/
theorem body_acc : acc false bodyOps = some false := by decide

theorem pre_acc : acc false preOps = some false := by decide

theorem run_append (s : GState) (a b : List Op) :
    run s (a ++ b) = ((run (run s a).1 b).1, (run s a).2 ++ (run (run s a).1 b).2) := by
  induction a generalizing s with
  | nil => simp [run]
  | cons op t ih =>
    simp only [List.cons_append, run]
    cases h : step s op with
    | none => simp [ih]
    | some s' => simp [ih]

theorem spec_run_append (t : Spec) (a b : List Op) :
    t.run (a ++ b) = (((t.run a).1.run b).1, (t.run a).2 ++ ((t.run a).1.run b).2) := by
  induction a generalizing t with
  | nil => simp [Spec.run]
  | cons op tl ih =>
    simp only [List.cons_append, Spec.run]
    cases h : t.step op with
    | none => simp [ih]
    | some t' => simp [ih]

theorem acc_append : ∀ (a b : List GridSM.Op) (sv : Bool), acc sv (a ++ b) = (acc sv a).bind (fun s => acc s b) := by
  intro a
  induction a with
  | nil => intro b sv; simp [acc]
  | cons op r ih =>
    intro b sv
    cases op <;> simp only [List.cons_append, acc] <;> (try split) <;> simp [ih]

/-- any number of passes -/
theorem passes_acc (n : Nat) : acc false (List.replicate n bodyOps).flatten = some false := by
  induction n with
  | zero => simp [acc]
  | succ n ih =>
    simp only [List.replicate_succ, List.flatten_cons]
    rw [acc_append, body_acc]
    simpa using ih

/-- **driver_script_ok**: on a real grid with save memory, freshly set up in layout `l` with field `f`, the grid
    operations of the part before the loop followed by any number of passes through the loop body are all accepted
    (no save-twice, no restore without save) by the implementation state machine of grid.py — by refinement — and no
    save is held when the loop is re-entered. -/
theorem driver_script_ok (n : Nat) (f l : Nat) :
    (run (init true l f) (preOps ++ (List.replicate n bodyOps).flatten)).2.all id = true ∧
    (run (init true l f) (preOps ++ (List.replicate n bodyOps).flatten)).1.notSaved = true := by
  have href := grid_refines_spec (preOps ++ (List.replicate n bodyOps).flatten) _ _ (init_related true l f)
  have hacc : acc false (preOps ++ (List.replicate n bodyOps).flatten) = some false := by
    rw [acc_append, pre_acc]; simpa using passes_acc n
  obtain ⟨h1, h2, _⟩ := acc_spec _ { field := f, layout := l, saved := none, hasSave := true } false rfl (by simpa using hacc)
  refine ⟨by rw [href.1]; exact h1, ?_⟩
  have hsv := href.2.saved
  cases hs : (Spec.run { field := f, layout := l, saved := none, hasSave := true }
      (preOps ++ (List.replicate n bodyOps).flatten)).1.saved with
  | none => rw [hs] at hsv; exact hsv
  | some x => rw [hs] at h2; simp at h2

/-- the generated body really contains the save / several layout changes / restore interaction -/
example : bodyOps.count .save = 1 ∧ bodyOps.count .restore = 1 ∧ 8 ≤ bodyOps.length := by decide

end PygyroVerif.C04
