/-
C06 (extra) — "every rank picks the same route between layouts … for all interpreter string-hash seeds".
Property theorems only.  Model: `Handler.routeMap` (Model/Handler.lean), lemmas: Lemmas/RouteDet.lean, Lemmas/RouteValid.lean.

`LayoutManager._makeConnectionMap` (pygyro/model/layout.py:241-329) runs on every rank separately.  Its only input that
may differ between ranks (or between interpreter runs) is the iteration order of the Python `set` of unvisited layout
names, which depends on the interpreter's string-hash seed: `min(unvisitedNodes, key=…)` returns the first minimal
element in that order.  In the model this order is the argument `order : List Nat`.  The theorems below show that the
stored distances, the stored routes and the "all connected" flag do not depend on it, and say what is stored
(layouts numbered in dict order, `hi > lo`):
  * `distanceMap[hi][lo] = distanceMap[lo][hi]` = the length of a shortest path of direct connections,
  * `route_map[hi][lo]` = the shortest path `hi → lo` whose list of names is least in Python's list order,
  * `route_map[lo][hi]` = that path walked backwards (which need not be the least path `lo → hi`).
The hypothesis `names.Nodup` (the names are keys of one dict) cannot be dropped: `route_nodup_needed`.
-/
import PygyroVerif.Lemmas.RouteDet

namespace PygyroVerif.C06
open PygyroVerif PygyroVerif.Handler PygyroVerif.Route PygyroVerif.RouteValid PygyroVerif.RouteDet

/-- **route_deterministic**: for direct connections that are listed once, symmetric and irreflexive (what the
    constructors build, `connectionsOf_ok`), distinct layout names, and any two iteration orders of the set of
    unvisited names (permutations of the layouts), `_makeConnectionMap` stores the same route and the same distance
    for every pair of layouts and returns the same "all layouts are connected" flag.  Hence all ranks of a run, and all
    runs whatever `PYTHONHASHSEED`, follow the same sequence of intermediate layouts in `transpose`. -/
theorem route_deterministic (names : List String) (hnd : names.Nodup) (conn : List (List Nat))
    (hc : ConnOK conn names.length) (order₁ order₂ : List Nat)
    (h₁ : order₁.Perm (List.range names.length)) (h₂ : order₂.Perm (List.range names.length)) :
    (∀ a b, a < names.length → b < names.length →
      (routeMap names conn order₁).1.r a b = (routeMap names conn order₂).1.r a b ∧
      (routeMap names conn order₁).1.d a b = (routeMap names conn order₂).1.d a b) ∧
    (routeMap names conn order₁).2 = (routeMap names conn order₂).2 := by
  obtain ⟨h, hflag⟩ := routeMap_deterministic names hnd conn hc order₁ order₂
    (mem_of_perm_range _ _ h₁) (mem_of_perm_range _ _ h₂)
  exact ⟨fun a b ha hb => ⟨(h a b ha hb).2, (h a b ha hb).1⟩, hflag⟩

/-- the hypotheses of `route_deterministic` on a concrete instance: three layouts in a chain, names whose alphabetical
    order differs from the dict order -/
example :
    (routeMap ["v_parallel", "poloidal", "flux_surface"] (connectionsOf 3 (fun hi lo => hi = lo + 1)) [0, 1, 2]).1.r 2 0 =
    (routeMap ["v_parallel", "poloidal", "flux_surface"] (connectionsOf 3 (fun hi lo => hi = lo + 1)) [2, 0, 1]).1.r 2 0 :=
  ((route_deterministic ["v_parallel", "poloidal", "flux_surface"] (by decide) _ (connectionsOf_ok _ _)
    [0, 1, 2] [2, 0, 1] (by decide) (by decide)).1 2 0 (by decide) (by decide)).1

/-- **handler_routes_deterministic**: the same statement for the route map of a `LayoutHandler` / `LayoutSwapper`
    (`Handler.routes`): direct connections are computed from `compatible` by the constructor's pair loop. -/
theorem handler_routes_deterministic (h : Handler) (hnd : h.names.Nodup) (order₁ order₂ : List Nat)
    (h₁ : order₁.Perm (List.range h.names.length)) (h₂ : order₂.Perm (List.range h.names.length)) :
    (∀ a b, a < h.names.length → b < h.names.length →
      (h.routes order₁).1.r a b = (h.routes order₂).1.r a b ∧
      (h.routes order₁).1.d a b = (h.routes order₂).1.d a b) ∧
    (h.routes order₁).2 = (h.routes order₂).2 := by
  have hc : ConnOK h.connections h.names.length := by
    unfold Handler.connections Handler.nLayouts
    exact connectionsOf_ok _ _
  exact route_deterministic h.names hnd h.connections hc order₁ order₂ h₁ h₂

/-- a handler with the three layouts of the 3-D test set-ups on a 2 × 2 process grid -/
example : ({ nprocs := [2, 2], ext := [4, 4, 4], names := ["0123", "0213", "1203"],
             orders := [[0, 1, 2], [0, 2, 1], [1, 2, 0]] } : Handler).names.Nodup ∧
    [1, 2, 0].Perm (List.range 3) := by decide

/-- **route_canonical**: what is stored, independently of the tie-break order.  For layouts `lo < hi` (dict order):
    the stored distance is symmetric and not larger than the length of any path of direct connections `hi → lo`; no path
    `hi → lo` of that length has a list of names that Python's `<` puts before the names of the stored route
    `route_map[hi][lo]`; and, when the layouts are connected, `route_map[lo][hi]` is the stored route `hi → lo` walked
    backwards (`lo :: route[lo][hi]` is the reverse of `hi :: route[hi][lo]`). -/
theorem route_canonical (names : List String) (conn : List (List Nat)) (hc : ConnOK conn names.length)
    (hn : names.length ≠ 1) (order : List Nat) (ho : order.Perm (List.range names.length))
    (hi lo : Nat) (hhi : hi < names.length) (hlo : lo < hi) :
    (routeMap names conn order).1.d lo hi = (routeMap names conn order).1.d hi lo ∧
    (∀ q, IsPath (Adj conn) hi q → lastOf hi q = lo → (routeMap names conn order).1.d hi lo ≤ q.length) ∧
    (∀ q, IsPath (Adj conn) hi q → lastOf hi q = lo → q.length = (routeMap names conn order).1.d hi lo →
      lexLt (nm names q) (nm names ((routeMap names conn order).1.r hi lo)) = false) ∧
    ((routeMap names conn order).1.d hi lo < names.length + 1 →
      lo :: (routeMap names conn order).1.r lo hi = (hi :: (routeMap names conn order).1.r hi lo).reverse) := by
  have s := routeMap_settled names conn order hc hn (mem_of_perm_range _ _ ho)
  obtain ⟨hmin, hlex⟩ := s.done hi lo hhi (by omega) hhi (Or.inl hlo)
  exact ⟨s.inv.sym lo hi, hmin, hlex, s.extra.sync hi lo⟩

/-- an instance of the path hypotheses of `route_canonical`: in the 4-cycle `0 — 1 — 3 — 2 — 0` both `[1, 0]` and `[2, 0]`
    are paths from layout 3 to layout 0 -/
example : IsPath (Adj (connectionsOf 4 (fun hi lo => (hi, lo) ∈ [(1, 0), (2, 0), (3, 1), (3, 2)]))) 3 [1, 0] ∧
    lastOf 3 [1, 0] = 0 ∧
    IsPath (Adj (connectionsOf 4 (fun hi lo => (hi, lo) ∈ [(1, 0), (2, 0), (3, 1), (3, 2)]))) 3 [2, 0] :=
  ⟨⟨by decide, by decide, trivial⟩, rfl, ⟨by decide, by decide, trivial⟩⟩

/-- **route_nodup_needed**: the hypothesis "the names are distinct" of `route_deterministic` cannot be dropped from the
    model: with four equal names on the 4-cycle `0 — 1 — 3 — 2 — 0` the two paths `0 → 3` have the same list of names, the
    tie-break `<` never fires, and the stored route is the one through the node that `min` returned first.  (Not
    reachable in the Python code: the names are the keys of one dict.) -/
theorem route_nodup_needed :
    (routeMap ["a", "a", "a", "a"] (connectionsOf 4 (fun hi lo => (hi, lo) ∈ [(1, 0), (2, 0), (3, 1), (3, 2)]))
      [0, 1, 2, 3]).1.r 0 3 ≠
    (routeMap ["a", "a", "a", "a"] (connectionsOf 4 (fun hi lo => (hi, lo) ∈ [(1, 0), (2, 0), (3, 1), (3, 2)]))
      [0, 2, 1, 3]).1.r 0 3 := by decide +kernel

end PygyroVerif.C06
