/-
C17 — Diagnostics and global reductions equal serial quadrature of the global field.
Property theorems only.  Model: Model/Diagnostics.lean; helper lemmas: Lemmas/Reductions.lean, Lemmas/Blocks.lean.
-/
import PygyroVerif.Model.Diagnostics
import PygyroVerif.Lemmas.Reductions
import Mathlib.Algebra.Order.Field.Basic
import Mathlib.Tactic.Ring
import Mathlib.Tactic.Linarith

namespace PygyroVerif.C17
open PygyroVerif PygyroVerif.Diag List

variable {K : Type} [Field K] [LinearOrder K]

/-- axis `k` of the block of process `c` is the range `[starts[k], ends[k])` of the balanced split (C02) of the
    dimension `ord[k]` over `nprocs[k]` processes (one process when `nprocs` is shorter than `ord`) -/
theorem local_axes_are_layout_ranges (ext : List ℕ) : ∀ (ds ps c : List ℕ) (k : ℕ), k < ds.length →
    (localAxes ext ds ps c).getD k (0, 0, 0)
      = (ds.getD k 0, blockStart (ext.getD (ds.getD k 0) 0) (ps.getD k 1) (c.getD k 0),
          blockLen (ext.getD (ds.getD k 0) 0) (ps.getD k 1) (c.getD k 0))
  | [], _, _, k, h => by simp at h
  | d :: ds, ps, c, 0, _ => by
    cases ps <;> cases c <;> simp [localAxes]
  | d :: ds, ps, c, k + 1, h => by
    have := local_axes_are_layout_ranges ext ds ps.tail c.tail k (by simpa using h)
    cases ps <;> cases c <;> simpa [localAxes] using this

omit [LinearOrder K] in
/-- **the per-rank quadrature weights are the slices `[start:end]` of the global weight vectors.**
For every element of the local block, the entry of `_factor1` that numpy broadcasting pairs with it is
`drMult[i_r]·r[i_r]·dvMult[i_v]` (·`v[i_v]²` for the kinetic energy) at the element's *global* radial and velocity
indices — in both branches `idx_r < idx_v` and `idx_r > idx_v` of the constructors. -/
theorem local_weights_are_global_slices (kind : Kind) (ord ps c : List ℕ) (e : Grids K)
    (hord : ord ~ [0, 1, 2, 3]) (a : Pt) (ha : a ∈ boxA (localAxes (e.ext 4) ord ps c)) :
    factor1Flat kind e (ord.idxOf 0) (ord.idxOf 3)
        (axStart (localAxes (e.ext 4) ord ps c) 0) (axLen (localAxes (e.ext 4) ord ps c) 0)
        (axStart (localAxes (e.ext 4) ord ps c) 3) (axLen (localAxes (e.ext 4) ord ps c) 3)
        (bcastOffset (ord.idxOf 0) (ord.idxOf 3)
          (axLen (localAxes (e.ext 4) ord ps c) 0) (axLen (localAxes (e.ext 4) ord ps c) 3)
          (a.get 0 - axStart (localAxes (e.ext 4) ord ps c) 0) (a.get 3 - axStart (localAxes (e.ext 4) ord ps c) 3))
      = rWeight e (a.get 0) * vWeight kind e (a.get 3) := by
  have hdims := localAxes_dims (e.ext 4) ord ps c
  have hnd : ((localAxes (e.ext 4) ord ps c).map (·.1)).Nodup := by
    rw [hdims]; exact hord.nodup_iff.2 (by decide)
  have h0 := get_bounds _ hnd a ha 0 (by rw [hdims]; exact hord.mem_iff.2 (by decide))
  have h3 := get_bounds _ hnd a ha 3 (by rw [hdims]; exact hord.mem_iff.2 (by decide))
  generalize axStart (localAxes (e.ext 4) ord ps c) 0 = sR at *
  generalize axLen (localAxes (e.ext 4) ord ps c) 0 = nrl at *
  generalize axStart (localAxes (e.ext 4) ord ps c) 3 = sV at *
  generalize axLen (localAxes (e.ext 4) ord ps c) 3 = nvl at *
  have eR : sR + (a.get 0 - sR) = a.get 0 := by omega
  have eV : sV + (a.get 3 - sV) = a.get 3 := by omega
  have lR : a.get 0 - sR < nrl := by omega
  have lV : a.get 3 - sV < nvl := by omega
  unfold factor1Flat bcastOffset rWeight vWeight
  by_cases hb : ord.idxOf 0 < ord.idxOf 3
  · have hpos : 0 < nvl := by omega
    have d1 : ((a.get 0 - sR) * nvl + (a.get 3 - sV)) / nvl = a.get 0 - sR := by
      rw [Nat.add_comm, Nat.add_mul_div_right _ _ hpos, Nat.div_eq_of_lt lV, Nat.zero_add]
    have m1 : ((a.get 0 - sR) * nvl + (a.get 3 - sV)) % nvl = a.get 3 - sV := by
      rw [Nat.add_comm, Nat.add_mul_mod_self_right, Nat.mod_eq_of_lt lV]
    simp only [hb, if_true, d1, m1, eR, eV]
  · have hpos : 0 < nrl := by omega
    have d1 : ((a.get 3 - sV) * nrl + (a.get 0 - sR)) / nrl = a.get 3 - sV := by
      rw [Nat.add_comm, Nat.add_mul_div_right _ _ hpos, Nat.div_eq_of_lt lR, Nat.zero_add]
    have m1 : ((a.get 3 - sV) * nrl + (a.get 0 - sR)) % nrl = a.get 0 - sR := by
      rw [Nat.add_comm, Nat.add_mul_mod_self_right, Nat.mod_eq_of_lt lR]
    simp only [hb, if_false, d1, m1, eR, eV]

/-- non-vacuity, both ordering branches: `v_parallel = [0,2,1,3]` has `idx_r < idx_v`, `poloidal = [3,2,1,0]` not -/
example : ([0, 2, 1, 3] : List ℕ) ~ [0, 1, 2, 3] ∧ ([0, 2, 1, 3] : List ℕ).idxOf 0 < ([0, 2, 1, 3] : List ℕ).idxOf 3
    ∧ ([3, 2, 1, 0] : List ℕ) ~ [0, 1, 2, 3] ∧ ¬ ([3, 2, 1, 0] : List ℕ).idxOf 0 < ([3, 2, 1, 0] : List ℕ).idxOf 3 := by
  decide

omit [LinearOrder K] in
private theorem sumL_mul_right {α : Type*} (l : List α) (f : α → K) (k : K) :
    sumL l (fun a => f a * k) = sumL l f * k := by
  induction l with
  | nil => simp
  | cons a l ih => simp only [sumL_cons, ih]; ring

omit [LinearOrder K] in
private theorem sumL_mul_left {α : Type*} (l : List α) (f : α → K) (k : K) :
    sumL l (fun a => k * f a) = k * sumL l f := by
  induction l with
  | nil => simp
  | cons a l ih => simp only [sumL_cons, ih]; ring

omit [LinearOrder K] in
private theorem sumL_const (n : ℕ) (k : K) : sumL (range n) (fun _ => k) = n * k := by
  induction n with
  | zero => simp
  | succ n ih => rw [sumL_range_succ, ih]; push_cast; ring

/-- every process' local diagnostic is the quadrature, with the global weights, of its own block -/
theorem localDiag_eq_block_quadrature (kind : Kind) (ord ps c : List ℕ) (e : Grids K) (G : List ℕ → K × K)
    (hord : ord ~ List.range ord.length) (hnd : ord.length = 4 ∨ ord.length = 3) :
    localDiag kind ord ps c e G
      = sumL (boxA (localAxes (e.ext ord.length) ord ps c)) (fun a =>
          gOf kind (G (a.toIdx ord.length)) * (rWeight e (a.get 0) * (if ord.length = 4 then vWeight kind e (a.get 3) else 1)))
        * fac2 kind e := by
  unfold localDiag
  rcases hnd with h4 | h3
  · have hord' : ord ~ [0, 1, 2, 3] := by rw [h4] at hord; exact hord
    simp only [h4, if_true]
    congr 1
    refine sumL_congr _ (fun a ha => ?_)
    rw [local_weights_are_global_slices kind ord ps c e hord' a ha]
  · have hne : ¬ (ord.length = 4) := by omega
    simp only [hne, if_false, mul_one]
    congr 1
    refine sumL_congr _ (fun a ha => ?_)
    have hdims := localAxes_dims (e.ext ord.length) ord ps c
    have hnod : ((localAxes (e.ext ord.length) ord ps c).map (·.1)).Nodup := by
      rw [hdims]; exact hord.nodup_iff.2 List.nodup_range
    have h0 := get_bounds _ hnod a ha 0 (by rw [hdims]; exact hord.mem_iff.2 (by rw [h3]; decide))
    have eR : axStart (localAxes (e.ext ord.length) ord ps c) 0
        + (a.get 0 - axStart (localAxes (e.ext ord.length) ord ps c) 0) = a.get 0 := by omega
    rw [eR]; rfl

/-- **the sum over the processes — in any order — of the local diagnostics is the serial quadrature of the global
field**, for every layout (`ord` any arrangement of the dimensions), every process grid, real or complex fields,
every one of the four diagnostics, in 4-D (distribution function) and 3-D (potential). -/
theorem sum_over_ranks_eq_global (kind : Kind) (ord ps : List ℕ) (e : Grids K) (G : List ℕ → K × K)
    (hord : ord ~ List.range ord.length) (hnd : ord.length = 4 ∨ ord.length = 3)
    (hps : ∀ p ∈ ps, 0 < p) (ranks : List (List ℕ)) (hr : ranks ~ coordsBox ord ps) :
    sumL ranks (fun c => localDiag kind ord ps c e G) = serialQuad kind ord.length e G := by
  rw [sumL_perm hr]
  simp only [localDiag_eq_block_quadrature kind ord ps _ e G hord hnd]
  rw [sumL_mul_right, sumBox_ranks (e.ext ord.length) ord ps hps]
  unfold serialQuad
  congr 1
  exact sumBox_perm (globalAxes_perm _ hord) _
    (permInv_of_get (fun g => g) (fun g => gOf kind (G ((List.range ord.length).map g))
      * (rWeight e (g 0) * (if ord.length = 4 then vWeight kind e (g 3) else 1))))

/-- a layout that lives on a sub-grid of the processes and is replicated `R` times along the other process direction
(the `v_parallel_1d` and `poloidal` layouts of the potential): every replica computes the same local value, and the sum
over *all* processes is `R` times the serial quadrature -/
theorem sum_over_ranks_replicated (kind : Kind) (ord ps : List ℕ) (e : Grids K) (G : List ℕ → K × K)
    (hord : ord ~ List.range ord.length) (hnd : ord.length = 4 ∨ ord.length = 3)
    (hps : ∀ p ∈ ps, 0 < p) (R : ℕ) (ranks : List (List ℕ))
    (hr : ranks ~ (List.range R).flatMap (fun _ => coordsBox ord ps)) :
    sumL ranks (fun c => localDiag kind ord ps c e G) = R * serialQuad kind ord.length e G := by
  rw [sumL_perm hr, sumL_flatMap]
  simp only [sum_over_ranks_eq_global kind ord ps e G hord hnd hps _ (List.Perm.refl _)]
  exact sumL_const R _

/-- non-vacuity: `v_parallel` on a 2×3 process grid has six processes, `coordsBox` lists them -/
example : coordsBox [0, 2, 1, 3] [2, 3] = [[0,0,0,0],[0,1,0,0],[0,2,0,0],[1,0,0,0],[1,1,0,0],[1,2,0,0]] := by decide

/-! ### f ≡ 1 : the analytic volume factor -/

private theorem get4 (ir iq iz iv : ℕ) :
    Pt.get [(0, ir), (1, iq), (2, iz), (3, iv)] 0 = ir ∧ Pt.get [(0, ir), (1, iq), (2, iz), (3, iv)] 3 = iv := by
  simp [Pt.get]

private theorem get3 (ir iq iz : ℕ) : Pt.get [(0, ir), (1, iq), (2, iz)] 0 = ir := by
  simp [Pt.get]

omit [LinearOrder K] in
/-- Σ_i drMult[i]·r[i] = (r_max² − r_min²)/2 : the trapezoidal rule is exact for the Jacobian `r`, on any grid -/
theorem radial_weights_sum (x : ℕ → K) (m : ℕ) :
    sumL (range (m + 2)) (fun i => trapMult x (m + 2) i * x i) = (x (m + 1) ^ 2 - x 0 ^ 2) / 2 := by
  rw [trap_sum x x m]
  have : ∀ i, (x (i + 1) - x i) * ((x i + x (i + 1)) * (1 / 2)) = (fun j => x j ^ 2 / 2) (i + 1) - (fun j => x j ^ 2 / 2) i := by
    intro i; ring
  simp only [this]
  rw [telescope (fun j => x j ^ 2 / 2) (m + 1)]
  ring

variable [IsStrictOrderedRing K]

/-- Σ_i dvMult[i] = v_max − v_min -/
theorem plain_weights_sum (x : ℕ → K) (m : ℕ) :
    sumL (range (m + 2)) (fun i => trapMult x (m + 2) i) = x (m + 1) - x 0 := by
  have h := trap_sum x (fun _ => (1 : K)) m
  simp only [mul_one] at h
  rw [h]
  have : ∀ i, (x (i + 1) - x i) * (((1 : K) + 1) * (1 / 2)) = x (i + 1) - x i := by intro i; norm_num
  simp only [this]
  exact telescope x (m + 1)


/-- **for a field equal to one the quadrature is the analytic volume factor**, any grid sizes, any (non-uniform)
radial and velocity grids: `(r_max² − r_min²)/2 · (v_max − v_min) · (n_θ·dθ) · (n_z·dz)` for the squared L2 norm,
the L1 norm and the particle number of a 4-D field -/
theorem trapezoid_volume_of_one (kind : Kind) (hk : kind ≠ Kind.ke) (e : Grids K) (mr mv : ℕ)
    (hr : e.nr = mr + 2) (hv : e.nv = mv + 2) :
    serialQuad kind 4 e (fun _ => (1, 0))
      = (e.r (mr + 1) ^ 2 - e.r 0 ^ 2) / 2 * (e.v (mv + 1) - e.v 0)
          * (e.nq * (e.q 2 - e.q 1)) * (e.nz * (e.z 2 - e.z 1)) := by
  have hg : gOf kind ((1 : K), (0 : K)) = 1 := by
    cases kind <;> simp [gOf]
  have hvw : ∀ i, vWeight kind e i = trapMult e.v e.nv i := by
    intro i; cases kind <;> first | rfl | exact absurd rfl hk
  have hf : fac2 kind e = (e.q 2 - e.q 1) * (e.z 2 - e.z 1) := by
    cases kind <;> first | rfl | exact absurd rfl hk
  unfold serialQuad
  simp only [Grids.ext, List.take, globalAxes, List.range_succ, List.range_zero, List.nil_append, List.cons_append,
    List.getD_cons_zero, List.getD_cons_succ, sumL_boxA_cons, sumL_boxA_nil, Nat.zero_add, (get4 _ _ _ _).1,
    (get4 _ _ _ _).2, hg, one_mul, if_true, hvw, hf]
  unfold rWeight
  simp only [sumL_mul_left, sumL_const, hr, hv]
  rw [sumL_mul_right, radial_weights_sum, plain_weights_sum]
  ring

/-- the 3-D case (squared L2 norm of the potential): `(r_max² − r_min²)/2 · (n_θ·dθ) · (n_z·dz)` -/
theorem trapezoid_volume_of_one_3d (kind : Kind) (hk : kind ≠ Kind.ke) (e : Grids K) (mr : ℕ) (hr : e.nr = mr + 2) :
    serialQuad kind 3 e (fun _ => (1, 0))
      = (e.r (mr + 1) ^ 2 - e.r 0 ^ 2) / 2 * (e.nq * (e.q 2 - e.q 1)) * (e.nz * (e.z 2 - e.z 1)) := by
  have hg : gOf kind ((1 : K), (0 : K)) = 1 := by
    cases kind <;> simp [gOf]
  have hf : fac2 kind e = (e.q 2 - e.q 1) * (e.z 2 - e.z 1) := by
    cases kind <;> first | rfl | exact absurd rfl hk
  unfold serialQuad
  simp only [Grids.ext, List.take, globalAxes, List.range_succ, List.range_zero, List.nil_append, List.cons_append,
    List.getD_cons_zero, List.getD_cons_succ, sumL_boxA_cons, sumL_boxA_nil, Nat.zero_add, get3, hg, one_mul,
    (by decide : ¬ (3 = 4)), if_false, mul_one, hf]
  unfold rWeight
  simp only [sumL_const, hr]
  have : ∀ j, (e.nq : K) * (e.nz * (trapMult e.r (mr + 2) j * e.r j))
      = (e.nq * e.nz) * (trapMult e.r (mr + 2) j * e.r j) := by intro j; ring
  simp only [this, sumL_mul_left]
  rw [radial_weights_sum]
  ring

/-- kinetic energy of f ≡ 1: the radial factor is closed, the velocity factor is the trapezoidal sum of `v²` -/
theorem trapezoid_volume_of_one_ke (e : Grids K) (mr : ℕ) (hr : e.nr = mr + 2) :
    serialQuad Kind.ke 4 e (fun _ => (1, 0))
      = (e.r (mr + 1) ^ 2 - e.r 0 ^ 2) / 2 * sumL (range e.nv) (fun j => trapMult e.v e.nv j * e.v j ^ 2)
          * (e.nq * (e.q 2 - e.q 1)) * (e.nz * (e.z 2 - e.z 1)) * (1 / 2) := by
  unfold serialQuad
  simp only [Grids.ext, List.take, globalAxes, List.range_succ, List.range_zero, List.nil_append, List.cons_append,
    List.getD_cons_zero, List.getD_cons_succ, sumL_boxA_cons, sumL_boxA_nil, Nat.zero_add, (get4 _ _ _ _).1,
    (get4 _ _ _ _).2, gOf, one_mul, if_true, fac2, vWeight]
  unfold rWeight
  simp only [sumL_mul_left, sumL_const, hr]
  rw [sumL_mul_right, radial_weights_sum]
  ring

/-- non-vacuity: a 3×3×3×2 grid with a non-uniform radial grid -/
example : serialQuad (K := ℚ) Kind.l2 4
    { r := fun i => [1, 2, 4].getD i 0, q := fun i => i, z := fun i => 2 * i, v := fun i => [-1, 3].getD i 0,
      nr := 3, nq := 3, nz := 3, nv := 2 } (fun _ => (1, 0)) = (4 ^ 2 - 1 ^ 2) / 2 * (3 - (-1)) * (3 * 1) * (3 * 2) := by
  rw [trapezoid_volume_of_one Kind.l2 (by decide) _ 1 0 rfl rfl]
  norm_num

end PygyroVerif.C17
