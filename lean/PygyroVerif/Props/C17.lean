/-
C17 — Diagnostics and global reductions equal serial quadrature of the global field.
Property theorems only.  Model: Model/Diagnostics.lean; helper lemmas: Lemmas/Reductions.lean, Lemmas/Blocks.lean.
-/
import PygyroVerif.Model.Diagnostics
import PygyroVerif.Lemmas.Reductions
import Mathlib.Algebra.Order.Field.Basic
import Mathlib.Tactic.Ring
import Mathlib.Tactic.Linarith

namespace PygyroVerif.C17
open PygyroVerif PygyroVerif.Diag List

variable {K : Type} [Field K] [LinearOrder K]

/-- axis `k` of the block of process `c` is the range `[starts[k], ends[k])` of the balanced split (C02) of the
    dimension `ord[k]` over `nprocs[k]` processes (one process when `nprocs` is shorter than `ord`) -/
theorem local_axes_are_layout_ranges (ext : List ℕ) : ∀ (ds ps c : List ℕ) (k : ℕ), k < ds.length →
    (localAxes ext ds ps c).getD k (0, 0, 0)
      = (ds.getD k 0, blockStart (ext.getD (ds.getD k 0) 0) (ps.getD k 1) (c.getD k 0),
          blockLen (ext.getD (ds.getD k 0) 0) (ps.getD k 1) (c.getD k 0))
  | [], _, _, k, h => by simp at h
  | d :: ds, ps, c, 0, _ => by
    cases ps <;> cases c <;> simp [localAxes]
  | d :: ds, ps, c, k + 1, h => by
    have := local_axes_are_layout_ranges ext ds ps.tail c.tail k (by simpa using h)
    cases ps <;> cases c <;> simpa [localAxes] using this

omit [LinearOrder K] in
/-- **the per-rank quadrature weights are the slices `[start:end]` of the global weight vectors.**
For every element of the local block, the entry of `_factor1` that numpy broadcasting pairs with it is
`drMult[i_r]·r[i_r]·dvMult[i_v]` (·`v[i_v]²` for the kinetic energy) at the element's *global* radial and velocity
indices — in both branches `idx_r < idx_v` and `idx_r > idx_v` of the constructors. -/
theorem local_weights_are_global_slices (kind : Kind) (ord ps c : List ℕ) (e : Grids K)
    (hord : ord ~ [0, 1, 2, 3]) (a : Pt) (ha : a ∈ boxA (localAxes (e.ext 4) ord ps c)) :
    factor1Flat kind e (ord.idxOf 0) (ord.idxOf 3)
        (axStart (localAxes (e.ext 4) ord ps c) 0) (axLen (localAxes (e.ext 4) ord ps c) 0)
        (axStart (localAxes (e.ext 4) ord ps c) 3) (axLen (localAxes (e.ext 4) ord ps c) 3)
        (bcastOffset (ord.idxOf 0) (ord.idxOf 3)
          (axLen (localAxes (e.ext 4) ord ps c) 0) (axLen (localAxes (e.ext 4) ord ps c) 3)
          (a.get 0 - axStart (localAxes (e.ext 4) ord ps c) 0) (a.get 3 - axStart (localAxes (e.ext 4) ord ps c) 3))
      = rWeight e (a.get 0) * vWeight kind e (a.get 3) := by
  have hdims := localAxes_dims (e.ext 4) ord ps c
  have hnd : ((localAxes (e.ext 4) ord ps c).map (·.1)).Nodup := by
    rw [hdims]; exact hord.nodup_iff.2 (by decide)
  have h0 := get_bounds _ hnd a ha 0 (by rw [hdims]; exact hord.mem_iff.2 (by decide))
  have h3 := get_bounds _ hnd a ha 3 (by rw [hdims]; exact hord.mem_iff.2 (by decide))
  generalize axStart (localAxes (e.ext 4) ord ps c) 0 = sR at *
  generalize axLen (localAxes (e.ext 4) ord ps c) 0 = nrl at *
  generalize axStart (localAxes (e.ext 4) ord ps c) 3 = sV at *
  generalize axLen (localAxes (e.ext 4) ord ps c) 3 = nvl at *
  have eR : sR + (a.get 0 - sR) = a.get 0 := by omega
  have eV : sV + (a.get 3 - sV) = a.get 3 := by omega
  have lR : a.get 0 - sR < nrl := by omega
  have lV : a.get 3 - sV < nvl := by omega
  unfold factor1Flat bcastOffset rWeight vWeight
  by_cases hb : ord.idxOf 0 < ord.idxOf 3
  · have hpos : 0 < nvl := by omega
    have d1 : ((a.get 0 - sR) * nvl + (a.get 3 - sV)) / nvl = a.get 0 - sR := by
      rw [Nat.add_comm, Nat.add_mul_div_right _ _ hpos, Nat.div_eq_of_lt lV, Nat.zero_add]
    have m1 : ((a.get 0 - sR) * nvl + (a.get 3 - sV)) % nvl = a.get 3 - sV := by
      rw [Nat.add_comm, Nat.add_mul_mod_self_right, Nat.mod_eq_of_lt lV]
    simp only [hb, if_true, d1, m1, eR, eV]
  · have hpos : 0 < nrl := by omega
    have d1 : ((a.get 3 - sV) * nrl + (a.get 0 - sR)) / nrl = a.get 3 - sV := by
      rw [Nat.add_comm, Nat.add_mul_div_right _ _ hpos, Nat.div_eq_of_lt lR, Nat.zero_add]
    have m1 : ((a.get 3 - sV) * nrl + (a.get 0 - sR)) % nrl = a.get 0 - sR := by
      rw [Nat.add_comm, Nat.add_mul_mod_self_right, Nat.mod_eq_of_lt lR]
    simp only [hb, if_false, d1, m1, eR, eV]

/-- non-vacuity, both ordering branches: `v_parallel = [0,2,1,3]` has `idx_r < idx_v`, `poloidal = [3,2,1,0]` not -/
example : ([0, 2, 1, 3] : List ℕ) ~ [0, 1, 2, 3] ∧ ([0, 2, 1, 3] : List ℕ).idxOf 0 < ([0, 2, 1, 3] : List ℕ).idxOf 3
    ∧ ([3, 2, 1, 0] : List ℕ) ~ [0, 1, 2, 3] ∧ ¬ ([3, 2, 1, 0] : List ℕ).idxOf 0 < ([3, 2, 1, 0] : List ℕ).idxOf 3 := by
  decide

/-- every process' local diagnostic is the quadrature, with the global weights, of its own block -/
theorem localDiag_eq_block_quadrature (kind : Kind) (ord ps c : List ℕ) (e : Grids K) (G : List ℕ → K × K)
    (hord : ord ~ List.range ord.length) (hnd : ord.length = 4 ∨ ord.length = 3) :
    localDiag kind ord ps c e G
      = sumL (boxA (localAxes (e.ext ord.length) ord ps c)) (fun a =>
          gOf kind (G (a.toIdx ord.length)) * (rWeight e (a.get 0) * (if ord.length = 4 then vWeight kind e (a.get 3) else 1)))
        * fac2 kind e := by
  unfold localDiag
  rcases hnd with h4 | h3
  · have hord' : ord ~ [0, 1, 2, 3] := by rw [h4] at hord; exact hord
    simp only [h4, if_true]
    congr 1
    refine sumL_congr _ (fun a ha => ?_)
    rw [local_weights_are_global_slices kind ord ps c e hord' a ha]
  · have hne : ¬ (ord.length = 4) := by omega
    simp only [hne, if_false, mul_one]
    congr 1
    refine sumL_congr _ (fun a ha => ?_)
    have hdims := localAxes_dims (e.ext ord.length) ord ps c
    have hnod : ((localAxes (e.ext ord.length) ord ps c).map (·.1)).Nodup := by
      rw [hdims]; exact hord.nodup_iff.2 List.nodup_range
    have h0 := get_bounds _ hnod a ha 0 (by rw [hdims]; exact hord.mem_iff.2 (by rw [h3]; decide))
    have eR : axStart (localAxes (e.ext ord.length) ord ps c) 0
        + (a.get 0 - axStart (localAxes (e.ext ord.length) ord ps c) 0) = a.get 0 := by omega
    rw [eR]; rfl

/-- **the sum over the processes — in any order — of the local diagnostics is the serial quadrature of the global
field**, for every layout (`ord` any arrangement of the dimensions), every process grid, real or complex fields,
every one of the four diagnostics, in 4-D (distribution function) and 3-D (potential). -/
theorem sum_over_ranks_eq_global (kind : Kind) (ord ps : List ℕ) (e : Grids K) (G : List ℕ → K × K)
    (hord : ord ~ List.range ord.length) (hnd : ord.length = 4 ∨ ord.length = 3)
    (hps : ∀ p ∈ ps, 0 < p) (ranks : List (List ℕ)) (hr : ranks ~ coordsBox ord ps) :
    sumL ranks (fun c => localDiag kind ord ps c e G) = serialQuad kind ord.length e G := by
  rw [sumL_perm hr]
  simp only [localDiag_eq_block_quadrature kind ord ps _ e G hord hnd]
  rw [sumL_mul_right, sumBox_ranks (e.ext ord.length) ord ps hps]
  unfold serialQuad
  congr 1
  exact sumBox_perm (globalAxes_perm _ hord) _
    (permInv_of_get (fun g => g) (fun g => gOf kind (G ((List.range ord.length).map g))
      * (rWeight e (g 0) * (if ord.length = 4 then vWeight kind e (g 3) else 1))))

/-- a layout that lives on a sub-grid of the processes and is replicated `R` times along the other process direction
(the `v_parallel_1d` and `poloidal` layouts of the potential): every replica computes the same local value, and the sum
over *all* processes is `R` times the serial quadrature -/
theorem sum_over_ranks_replicated (kind : Kind) (ord ps : List ℕ) (e : Grids K) (G : List ℕ → K × K)
    (hord : ord ~ List.range ord.length) (hnd : ord.length = 4 ∨ ord.length = 3)
    (hps : ∀ p ∈ ps, 0 < p) (R : ℕ) (ranks : List (List ℕ))
    (hr : ranks ~ (List.range R).flatMap (fun _ => coordsBox ord ps)) :
    sumL ranks (fun c => localDiag kind ord ps c e G) = R * serialQuad kind ord.length e G := by
  rw [sumL_perm hr, sumL_flatMap]
  simp only [sum_over_ranks_eq_global kind ord ps e G hord hnd hps _ (List.Perm.refl _)]
  exact sumL_const R _

/-- non-vacuity: `v_parallel` on a 2×3 process grid has six processes, `coordsBox` lists them -/
example : coordsBox [0, 2, 1, 3] [2, 3] = [[0,0,0,0],[0,1,0,0],[0,2,0,0],[1,0,0,0],[1,1,0,0],[1,2,0,0]] := by decide

/-! ### f ≡ 1 : the analytic volume factor -/

omit [LinearOrder K] in
/-- Σ_i drMult[i]·r[i] = (r_max² − r_min²)/2 : the trapezoidal rule is exact for the Jacobian `r`, on any grid -/
theorem radial_weights_sum (x : ℕ → K) (m : ℕ) :
    sumL (range (m + 2)) (fun i => trapMult x (m + 2) i * x i) = (x (m + 1) ^ 2 - x 0 ^ 2) / 2 := by
  rw [trap_sum x x m]
  have : ∀ i, (x (i + 1) - x i) * ((x i + x (i + 1)) * (1 / 2)) = (fun j => x j ^ 2 / 2) (i + 1) - (fun j => x j ^ 2 / 2) i := by
    intro i; ring
  simp only [this]
  rw [telescope (fun j => x j ^ 2 / 2) (m + 1)]
  ring

variable [IsStrictOrderedRing K]

/-- Σ_i dvMult[i] = v_max − v_min -/
theorem plain_weights_sum (x : ℕ → K) (m : ℕ) :
    sumL (range (m + 2)) (fun i => trapMult x (m + 2) i) = x (m + 1) - x 0 := by
  have h := trap_sum x (fun _ => (1 : K)) m
  simp only [mul_one] at h
  rw [h]
  have : ∀ i, (x (i + 1) - x i) * (((1 : K) + 1) * (1 / 2)) = x (i + 1) - x i := by intro i; norm_num
  simp only [this]
  exact telescope x (m + 1)


/-- **for a field equal to one the quadrature is the analytic volume factor**, any grid sizes, any (non-uniform)
radial and velocity grids: `(r_max² − r_min²)/2 · (v_max − v_min) · (n_θ·dθ) · (n_z·dz)` for the squared L2 norm,
the L1 norm and the particle number of a 4-D field -/
theorem trapezoid_volume_of_one (kind : Kind) (hk : kind ≠ Kind.ke) (e : Grids K) (mr mv : ℕ)
    (hr : e.nr = mr + 2) (hv : e.nv = mv + 2) :
    serialQuad kind 4 e (fun _ => (1, 0))
      = (e.r (mr + 1) ^ 2 - e.r 0 ^ 2) / 2 * (e.v (mv + 1) - e.v 0)
          * (e.nq * (e.q 2 - e.q 1)) * (e.nz * (e.z 2 - e.z 1)) := by
  have hg : gOf kind ((1 : K), (0 : K)) = 1 := by
    cases kind <;> simp [gOf]
  have hvw : ∀ i, vWeight kind e i = trapMult e.v e.nv i := by
    intro i; cases kind <;> first | rfl | exact absurd rfl hk
  have hf : fac2 kind e = (e.q 2 - e.q 1) * (e.z 2 - e.z 1) := by
    cases kind <;> first | rfl | exact absurd rfl hk
  unfold serialQuad
  simp only [Grids.ext, List.take, globalAxes, List.range_succ, List.range_zero, List.nil_append, List.cons_append,
    List.getD_cons_zero, List.getD_cons_succ, sumL_boxA_cons, sumL_boxA_nil, Nat.zero_add, (get4 _ _ _ _).1,
    (get4 _ _ _ _).2, hg, one_mul, if_true, hvw, hf]
  unfold rWeight
  simp only [sumL_mul_left, sumL_const, hr, hv]
  rw [sumL_mul_right, radial_weights_sum, plain_weights_sum]
  ring

/-- the 3-D case (squared L2 norm of the potential): `(r_max² − r_min²)/2 · (n_θ·dθ) · (n_z·dz)` -/
theorem trapezoid_volume_of_one_3d (kind : Kind) (hk : kind ≠ Kind.ke) (e : Grids K) (mr : ℕ) (hr : e.nr = mr + 2) :
    serialQuad kind 3 e (fun _ => (1, 0))
      = (e.r (mr + 1) ^ 2 - e.r 0 ^ 2) / 2 * (e.nq * (e.q 2 - e.q 1)) * (e.nz * (e.z 2 - e.z 1)) := by
  have hg : gOf kind ((1 : K), (0 : K)) = 1 := by
    cases kind <;> simp [gOf]
  have hf : fac2 kind e = (e.q 2 - e.q 1) * (e.z 2 - e.z 1) := by
    cases kind <;> first | rfl | exact absurd rfl hk
  unfold serialQuad
  simp only [Grids.ext, List.take, globalAxes, List.range_succ, List.range_zero, List.nil_append, List.cons_append,
    List.getD_cons_zero, List.getD_cons_succ, sumL_boxA_cons, sumL_boxA_nil, Nat.zero_add, get3, hg, one_mul,
    (by decide : ¬ (3 = 4)), if_false, mul_one, hf]
  unfold rWeight
  simp only [sumL_const, hr]
  have : ∀ j, (e.nq : K) * (e.nz * (trapMult e.r (mr + 2) j * e.r j))
      = (e.nq * e.nz) * (trapMult e.r (mr + 2) j * e.r j) := by intro j; ring
  simp only [this, sumL_mul_left]
  rw [radial_weights_sum]
  ring

/-- kinetic energy of f ≡ 1: the radial factor is closed, the velocity factor is the trapezoidal sum of `v²` -/
theorem trapezoid_volume_of_one_ke (e : Grids K) (mr : ℕ) (hr : e.nr = mr + 2) :
    serialQuad Kind.ke 4 e (fun _ => (1, 0))
      = (e.r (mr + 1) ^ 2 - e.r 0 ^ 2) / 2 * sumL (range e.nv) (fun j => trapMult e.v e.nv j * e.v j ^ 2)
          * (e.nq * (e.q 2 - e.q 1)) * (e.nz * (e.z 2 - e.z 1)) * (1 / 2) := by
  unfold serialQuad
  simp only [Grids.ext, List.take, globalAxes, List.range_succ, List.range_zero, List.nil_append, List.cons_append,
    List.getD_cons_zero, List.getD_cons_succ, sumL_boxA_cons, sumL_boxA_nil, Nat.zero_add, (get4 _ _ _ _).1,
    (get4 _ _ _ _).2, gOf, one_mul, if_true, fac2, vWeight]
  unfold rWeight
  simp only [sumL_mul_left, sumL_const, hr]
  rw [sumL_mul_right, radial_weights_sum]
  ring

/-- non-vacuity: a 3×3×3×2 grid with a non-uniform radial grid -/
example : serialQuad (K := ℚ) Kind.l2 4
    { r := fun i => [1, 2, 4].getD i 0, q := fun i => i, z := fun i => 2 * i, v := fun i => [-1, 3].getD i 0,
      nr := 3, nq := 3, nz := 3, nv := 2 } (fun _ => (1, 0)) = (4 ^ 2 - 1 ^ 2) / 2 * (3 - (-1)) * (3 * 1) * (3 * 2) := by
  rw [trapezoid_volume_of_one Kind.l2 (by decide) _ 1 0 rfl rfl]
  norm_num

/-! ### minima and maxima -/

section minmax
variable {K : Type} [LinearOrder K]

/-- `Grid.getMin(drawingRank, axis, fixValue)`: the `MIN`-reduction over all processes (in any order) of what each
hands in — `+∞` for an empty block, the block minimum for the whole grid, the minimum of the slice when the process
covers every fixed index, `+∞` otherwise — is the minimum of the selected slice of the global field -/
theorem min_of_blocks (nd : ℕ) (ext ord ps : List ℕ) (G : List ℕ → K) (sel : List (ℕ × ℕ))
    (hord : ord ~ List.range nd) (hps : ∀ p ∈ ps, 0 < p)
    (hsel : (sel.map (·.1)).Nodup) (hin : ∀ s ∈ sel, s.1 < nd ∧ s.2 < ext.getD s.1 0)
    (ranks : List (List ℕ)) (hr : ranks ~ coordsBox ord ps) :
    reduceAll min ⊤ (ranks.map (fun c => minContribution nd (localAxes ext ord ps c) sel G))
      = blockFold min ⊤ (fun (x : K) => (x : WithTop K)) nd (applySel (globalAxes ext (List.range nd)) sel) G := by
  simp only [minContribution_eq]
  rw [reduceAll_min_eq, sumL_perm hr, sum_contribM nd ext ord ps sel _ hord hps hsel hin, blockFold_min_eq]

/-- the same for `Grid.getMax` with `-∞` as the neutral element -/
theorem max_of_blocks (nd : ℕ) (ext ord ps : List ℕ) (G : List ℕ → K) (sel : List (ℕ × ℕ))
    (hord : ord ~ List.range nd) (hps : ∀ p ∈ ps, 0 < p)
    (hsel : (sel.map (·.1)).Nodup) (hin : ∀ s ∈ sel, s.1 < nd ∧ s.2 < ext.getD s.1 0)
    (ranks : List (List ℕ)) (hr : ranks ~ coordsBox ord ps) :
    reduceAll max ⊥ (ranks.map (fun c => maxContribution nd (localAxes ext ord ps c) sel G))
      = blockFold max ⊥ (fun (x : K) => (x : WithBot K)) nd (applySel (globalAxes ext (List.range nd)) sel) G := by
  simp only [maxContribution_eq]
  rw [reduceAll_max_eq, sumL_perm hr, sum_contribM nd ext ord ps sel _ hord hps hsel hin, blockFold_max_eq]

/-- **reported minima and maxima equal those of the global field** (all four branches of `getMin`/`getMax`) -/
theorem min_max_of_blocks (nd : ℕ) (ext ord ps : List ℕ) (G : List ℕ → K) (sel : List (ℕ × ℕ))
    (hord : ord ~ List.range nd) (hps : ∀ p ∈ ps, 0 < p)
    (hsel : (sel.map (·.1)).Nodup) (hin : ∀ s ∈ sel, s.1 < nd ∧ s.2 < ext.getD s.1 0)
    (ranks : List (List ℕ)) (hr : ranks ~ coordsBox ord ps) :
    reduceAll min ⊤ (ranks.map (fun c => minContribution nd (localAxes ext ord ps c) sel G))
        = blockFold min ⊤ (fun (x : K) => (x : WithTop K)) nd (applySel (globalAxes ext (List.range nd)) sel) G
    ∧ reduceAll max ⊥ (ranks.map (fun c => maxContribution nd (localAxes ext ord ps c) sel G))
        = blockFold max ⊥ (fun (x : K) => (x : WithBot K)) nd (applySel (globalAxes ext (List.range nd)) sel) G :=
  ⟨min_of_blocks nd ext ord ps G sel hord hps hsel hin ranks hr,
   max_of_blocks nd ext ord ps G sel hord hps hsel hin ranks hr⟩

/-- the collector's path (`f.getMin()` without drawing rank, then `Reduce(MIN)` / `Reduce(MAX)`): when no block is
empty every process has a local extremum and their reduction is the global extremum -/
theorem extrema_of_local_extrema (nd : ℕ) (ext ord ps : List ℕ) (G : List ℕ → K)
    (hord : ord ~ List.range nd) (hps : ∀ p ∈ ps, 0 < p)
    (hne : ∀ c ∈ coordsBox ord ps, blockSize (localAxes ext ord ps c) ≠ 0)
    (ranks : List (List ℕ)) (hr : ranks ~ coordsBox ord ps) :
    (∀ c ∈ ranks, localMin nd (localAxes ext ord ps c) G = some (minContribution nd (localAxes ext ord ps c) [] G)
        ∧ localMax nd (localAxes ext ord ps c) G = some (maxContribution nd (localAxes ext ord ps c) [] G))
    ∧ reduceAll min ⊤ (ranks.map (fun c => minContribution nd (localAxes ext ord ps c) [] G))
        = blockFold min ⊤ (fun (x : K) => (x : WithTop K)) nd (globalAxes ext (List.range nd)) G
    ∧ reduceAll max ⊥ (ranks.map (fun c => maxContribution nd (localAxes ext ord ps c) [] G))
        = blockFold max ⊥ (fun (x : K) => (x : WithBot K)) nd (globalAxes ext (List.range nd)) G := by
  refine ⟨fun c hc => ?_, ?_, ?_⟩
  · have h := hne c (hr.mem_iff.1 hc)
    simp [localMin, localMax, minContribution, maxContribution, contribution, h]
  · exact min_of_blocks nd ext ord ps G [] hord hps (by simp) (by simp) ranks hr
  · exact max_of_blocks nd ext ord ps G [] hord hps (by simp) (by simp) ranks hr

/-- what `blockFold min` returns *is* the minimum: a lower bound of all values of the block, attained when the
block is not empty (`⊤` only for an empty block); dually for `max` -/
theorem blockFold_is_extremum (nd : ℕ) (axes : List Axis) (G : List ℕ → K) :
    (∀ a ∈ boxA axes, blockFold min ⊤ (fun (x : K) => (x : WithTop K)) nd axes G ≤ (G (a.toIdx nd) : WithTop K))
    ∧ (boxA axes ≠ [] → ∃ a ∈ boxA axes,
        blockFold min ⊤ (fun (x : K) => (x : WithTop K)) nd axes G = (G (a.toIdx nd) : WithTop K))
    ∧ (∀ a ∈ boxA axes, (G (a.toIdx nd) : WithBot K) ≤ blockFold max ⊥ (fun (x : K) => (x : WithBot K)) nd axes G)
    ∧ (boxA axes ≠ [] → ∃ a ∈ boxA axes,
        blockFold max ⊥ (fun (x : K) => (x : WithBot K)) nd axes G = (G (a.toIdx nd) : WithBot K)) := by
  refine ⟨fun a ha => foldr_min_le (List.mem_map_of_mem ha), fun h => ?_,
    fun a ha => le_foldr_max (List.mem_map_of_mem ha), fun h => ?_⟩
  · have := foldr_min_mem (l := (boxA axes).map (fun a => (G (a.toIdx nd) : WithTop K))) (by simpa using h)
    obtain ⟨a, ha, e⟩ := List.mem_map.1 this
    exact ⟨a, ha, e.symm⟩
  · have := foldr_max_mem (l := (boxA axes).map (fun a => (G (a.toIdx nd) : WithBot K))) (by simpa using h)
    obtain ⟨a, ha, e⟩ := List.mem_map.1 this
    exact ⟨a, ha, e.symm⟩

/-- non-vacuity: 4 points on 2 processes, slice at global index 3 of dimension 0: only the second process owns it -/
example : (coordsBox [0] [2]).map (fun c => minContribution (K := ℤ) 1 (localAxes [4] [0] [2] c) [(0, 3)]
    (fun i => [5, -2, 7, 1].getD (i.getD 0 0) 0)) = [⊤, ((1 : ℤ) : WithTop ℤ)] := by decide

end minmax

/-! ### the collector's time slot -/

/-- **collected diagnostics go to the slot of the step they belong to**: with integer `t = k·dt`, `dt > 0`,
the slot is `k mod saveStep`, inside the table -/
theorem collect_slot (k dt saveStep : Int) (hdt : 0 < dt) (hs : 0 < saveStep) :
    collectSlot (.int (k * dt)) (.int dt) saveStep = some (k % saveStep)
    ∧ 0 ≤ k % saveStep ∧ k % saveStep < saveStep := by
  refine ⟨?_, Int.emod_nonneg _ (ne_of_gt hs), Int.emod_lt_of_pos _ hs⟩
  unfold collectSlot
  have h0 : dt ≠ 0 := ne_of_gt hdt
  simp only [h0, if_false]
  rw [Int.fdiv_eq_ediv_of_nonneg _ (le_of_lt hdt), Int.fmod_eq_emod_of_nonneg _ (le_of_lt hs),
    Int.mul_ediv_cancel _ h0]

/-- for any integer time (not only multiples of `dt`): slot = ⌊t/dt⌋ mod saveStep -/
theorem collect_slot_floor (t dt saveStep : Int) (hdt : 0 < dt) (hs : 0 < saveStep) :
    collectSlot (.int t) (.int dt) saveStep = some ((t / dt) % saveStep) := by
  unfold collectSlot
  have h0 : dt ≠ 0 := ne_of_gt hdt
  simp only [h0, if_false]
  rw [Int.fdiv_eq_ediv_of_nonneg _ (le_of_lt hdt), Int.fmod_eq_emod_of_nonneg _ (le_of_lt hs)]

/-- two steps less than `saveStep` apart never share a slot: nothing is overwritten between two outputs -/
theorem collect_slot_injective_in_window (k k' saveStep : Int) (hs : 0 < saveStep)
    (h1 : k ≤ k') (h2 : k' - k < saveStep) (h : k % saveStep = k' % saveStep) : k = k' := by
  have := Int.emod_emod_of_dvd k (dvd_refl saveStep)
  have hd : saveStep ∣ k' - k := by
    exact Int.dvd_of_emod_eq_zero (by rw [Int.sub_emod, h]; simp)
  obtain ⟨q, hq⟩ := hd
  have : q = 0 := by
    by_contra hne
    rcases lt_or_gt_of_ne hne with hlt | hgt
    · have : saveStep * q ≤ saveStep * (-1) := Int.mul_le_mul_of_nonneg_left (by omega) (le_of_lt hs)
      omega
    · have : saveStep * 1 ≤ saveStep * q := Int.mul_le_mul_of_nonneg_left (by omega) (le_of_lt hs)
      omega
  subst this
  omega

/-- a non-integer time or time step is *refused* (numpy raises `IndexError` for the float index), never mis-slotted -/
theorem collect_slot_refuses_float (t dt : PyNum) (saveStep : Int) :
    collectSlot t dt saveStep = none ↔ (∃ x, t = .float x) ∨ (∃ x, dt = .float x) ∨ dt = .int 0 := by
  unfold collectSlot
  cases t <;> cases dt <;> simp

example : collectSlot (.int 14) (.int 2) 5 = some 2 ∧ collectSlot (.int 14) (.float 2) 5 = none := by decide

end PygyroVerif.C17
