/-
C12, tie by translation, part 3: the TABLE CONTRACT of Props/C12Gen.lean (`gen_pol_expl_eq`) and Props/C12Gen2.lean (`gen_pol_impl_eq`) discharged.

Both theorems are about the generated poloidal steps with the evaluators `eval_spline_2d_scalar` / `eval_spline_2d_cross` as UNINTERPRETED function parameters
(fields of the parameter record `p`, universally quantified), under the hypothesis `hcross`: "inside the box the two tables `eval_spline_2d_cross` fills hold
the scalar evaluation at the nodes".  Since the parameters are arbitrary total functions, they can be INSTANTIATED with the generated evaluators of round 4 / round 5:

  * `nuScalar U F` / `cuScalar U F`  — the value the generated `nu_eval_spline_2d_scalar` / `cu_eval_spline_2d_scalar` (Generated/Eval2DGen.lean) returns
                                       (0 when the call does not return: the parameter is a total function);
  * `nuCross U F` / `cuCross U F`    — the array the generated `nu_eval_spline_2d_cross` / `cu_eval_spline_2d_cross` (Generated/Cross2DGen.lean) leaves in
                                       `z` (the previous contents when the call does not return) — which is how the translation of the poloidal steps models the
                                       procedure parameter ("its one non-Final array := g(all arguments, previous contents included)").
For these instances `hcross` is a THEOREM (`nu_table_contract`, `cu_table_contract`, from `C07Gen6.gen_nu_cross_eq_scalar` / `gen_cu_cross_eq_scalar`), so:

  * `gen_pol_expl_eq_nu` / `gen_pol_impl_eq_nu`: for the general path on sorted knot vectors of the phi spline with non-degenerate domains (and fuel for the
    span searches), the conclusions of `gen_pol_expl_eq` / `gen_pol_impl_eq` hold WITHOUT the contract hypothesis;
  * `gen_pol_expl_eq_cu` / `gen_pol_impl_eq_cu`: the same for the uniform-cubic path, guard `deg1Phi = deg2Phi = 3` (no other guard: `Int.toNat` corners on both sides).
The integer parameters of the poloidal kernels are naturals in their translation (`int_type = Nat`) and integers in the uniform-cubic kernels: the instances
cast them (`((n : ℕ) : ℤ)`).  What remains uninterpreted in these corollaries: `f_eq`, `pi`.  Props/C12Gen.lean and C12Gen2.lean are unchanged.
-/
import PygyroVerif.Props.C12Gen2
import PygyroVerif.Props.C07Gen6

namespace PygyroVerif.C12Gen3
open PygyroVerif PygyroVerif.BSpline PygyroVerif.PolAdv

/-! ## the generated evaluators as total functions of the type the poloidal kernels take -/

/-- `eval_spline_2d_scalar := nu_eval_spline_2d_scalar` (generated) -/
def nuScalar (U : ℕ → ℚ) (F : ℕ) : ℚ → ℚ → (ℕ → ℚ) → ℕ → ℕ → (ℕ → ℚ) → ℕ → ℕ → (ℕ → ℕ → ℚ) → ℕ → ℕ → ℕ → ℕ → ℚ :=
  fun q r t1 nk1 d1 t2 nk2 d2 c _ _ der1 der2 =>
    match PygyroVerif.Gen.Eval2DNu.nu_eval_spline_2d_scalar_.run U F q r t1 nk1 d1 t2 nk2 d2 c der1 der2 with
    | .ret σ => σ.ret_
    | _ => 0

/-- `eval_spline_2d_cross := nu_eval_spline_2d_cross` (generated): the contents of `z` after the call -/
def nuCross (U : ℕ → ℚ) (F : ℕ) : (ℕ → ℚ) → ℕ → (ℕ → ℚ) → ℕ → (ℕ → ℚ) → ℕ → ℕ → (ℕ → ℚ) → ℕ → ℕ → (ℕ → ℕ → ℚ) → ℕ → ℕ → (ℕ → ℕ → ℚ) → ℕ → ℕ →
    ℕ → ℕ → ℕ → ℕ → ℚ :=
  fun X Xl Y Yl t1 nk1 d1 t2 nk2 d2 c _ _ z _ _ der1 der2 =>
    match PygyroVerif.Gen.Cross2DNu.nu_eval_spline_2d_cross_.run U F X Xl Y Yl t1 nk1 d1 t2 nk2 d2 c z der1 der2 with
    | .ret σ => σ.z
    | _ => z

/-- `eval_spline_2d_scalar := cu_eval_spline_2d_scalar` (generated; the integer arguments are cast) -/
def cuScalar (U : ℕ → ℚ) (F : ℕ) : ℚ → ℚ → (ℕ → ℚ) → ℕ → ℕ → (ℕ → ℚ) → ℕ → ℕ → (ℕ → ℕ → ℚ) → ℕ → ℕ → ℕ → ℕ → ℚ :=
  fun q r t1 nk1 d1 t2 nk2 d2 c _ _ der1 der2 =>
    match PygyroVerif.Gen.Eval2DCu.cu_eval_spline_2d_scalar_.run U F q r t1 nk1 (d1 : ℤ) t2 nk2 (d2 : ℤ) c (der1 : ℤ) (der2 : ℤ) with
    | .ret σ => σ.ret_
    | _ => 0

/-- `eval_spline_2d_cross := cu_eval_spline_2d_cross` (generated; the integer arguments are cast) -/
def cuCross (U : ℕ → ℚ) (F : ℕ) : (ℕ → ℚ) → ℕ → (ℕ → ℚ) → ℕ → (ℕ → ℚ) → ℕ → ℕ → (ℕ → ℚ) → ℕ → ℕ → (ℕ → ℕ → ℚ) → ℕ → ℕ → (ℕ → ℕ → ℚ) → ℕ → ℕ →
    ℕ → ℕ → ℕ → ℕ → ℚ :=
  fun X Xl Y Yl t1 nk1 d1 t2 nk2 d2 c _ _ z _ _ der1 der2 =>
    match PygyroVerif.Gen.Cross2DCu.cu_eval_spline_2d_cross_.run U F X Xl Y Yl t1 nk1 (d1 : ℤ) t2 nk2 (d2 : ℤ) c z (der1 : ℤ) (der2 : ℤ) with
    | .ret σ => σ.z
    | _ => z

/-- **the table contract for the general path**: on sorted knots with non-degenerate domains, inside the box the table the generated cross function
    leaves equals the generated scalar function at the nodes (value or first derivative in each direction) -/
theorem nu_table_contract (U : ℕ → ℚ) (F : ℕ) (X : ℕ → ℚ) (Xl : ℕ) (Y : ℕ → ℚ) (Yl : ℕ) (t1 : ℕ → ℚ) (ht1 : Monotone t1) (nk1 deg1 : ℕ)
    (t2 : ℕ → ℚ) (ht2 : Monotone t2) (nk2 deg2 : ℕ) (c : ℕ → ℕ → ℚ) (l0 l1 : ℕ) (z : ℕ → ℕ → ℚ) (zl0 zl1 : ℕ) (der1 der2 : Bool)
    (hd1 : t1 deg1 < t1 (nk1 - 1 - deg1)) (hd2 : t2 deg2 < t2 (nk2 - 1 - deg2))
    (hF1 : (nk1 - 1 - deg1) - deg1 + 1 ≤ F) (hF2 : (nk2 - 1 - deg2) - deg2 + 1 ≤ F) (i j : ℕ) (hi : i < Xl) (hj : j < Yl) :
    nuCross U F X Xl Y Yl t1 nk1 deg1 t2 nk2 deg2 c l0 l1 z zl0 zl1 (if der1 then 1 else 0) (if der2 then 1 else 0) i j =
      nuScalar U F (X i) (Y j) t1 nk1 deg1 t2 nk2 deg2 c l0 l1 (if der1 then 1 else 0) (if der2 then 1 else 0) := by
  obtain ⟨σ', hrun, hin, -⟩ := C07Gen6.gen_nu_cross_eq_scalar U F X Xl Y Yl t1 nk1 deg1 t2 nk2 deg2 c z der1 der2
    (fun a => (findSpan t1 nk1 deg1 (X a)).getD 0) (fun b => (findSpan t2 nk2 deg2 (Y b)).getD 0)
    (fun a _ => by
      obtain ⟨s, hs, hd, -⟩ := C07.findSpan_some_correct t1 ht1 nk1 deg1 (X a) hd1
      rw [hs]; exact ⟨rfl, hd⟩)
    (fun b _ => by
      obtain ⟨s, hs, hd, -⟩ := C07.findSpan_some_correct t2 ht2 nk2 deg2 (Y b) hd2
      rw [hs]; exact ⟨rfl, hd⟩) hF1 hF2
  obtain ⟨σs, hs, hv⟩ := hin i j hi hj
  unfold nuCross nuScalar
  simp only [hrun, hs]
  exact hv

/-- **the table contract for the uniform-cubic path** (guard: both degrees are 3) -/
theorem cu_table_contract (U : ℕ → ℚ) (F : ℕ) (X : ℕ → ℚ) (Xl : ℕ) (Y : ℕ → ℚ) (Yl : ℕ) (t1 : ℕ → ℚ) (nk1 : ℕ) (t2 : ℕ → ℚ) (nk2 : ℕ)
    (c : ℕ → ℕ → ℚ) (l0 l1 : ℕ) (z : ℕ → ℕ → ℚ) (zl0 zl1 : ℕ) (der1 der2 : Bool) (i j : ℕ) (hi : i < Xl) (hj : j < Yl) :
    cuCross U F X Xl Y Yl t1 nk1 3 t2 nk2 3 c l0 l1 z zl0 zl1 (if der1 then 1 else 0) (if der2 then 1 else 0) i j =
      cuScalar U F (X i) (Y j) t1 nk1 3 t2 nk2 3 c l0 l1 (if der1 then 1 else 0) (if der2 then 1 else 0) := by
  obtain ⟨σ', hrun, hin, -⟩ := C07Gen6.gen_cu_cross_eq_scalar U F X Xl Y Yl t1 nk1 t2 nk2 c z der1 der2
  obtain ⟨σs, hs, hv⟩ := hin i j hi hj
  have e1 : (((if der1 then 1 else 0 : ℕ) : ℕ) : ℤ) = if der1 then 1 else 0 := by cases der1 <;> rfl
  have e2 : (((if der2 then 1 else 0 : ℕ) : ℕ) : ℤ) = if der2 then 1 else 0 := by cases der2 <;> rfl
  unfold cuCross cuScalar
  simp only [e1, e2, Nat.cast_ofNat, hrun, hs]
  exact hv

/-! ## the explicit step (`Props/C12Gen.lean`) -/
section Expl
open PygyroVerif.Gen.PolExpl PygyroVerif.Gen.PolExpl.general_poloidal_advection_step_expl_ PygyroVerif.C12Gen

/-- **`gen_pol_expl_eq` with the generated general-path evaluators in place of the uninterpreted ones, the table contract DISCHARGED**: when the explicit
    poloidal step is handed the generated `nu_eval_spline_2d_scalar` / `nu_eval_spline_2d_cross`, on sorted knot vectors of the phi spline with non-degenerate
    domains, the call returns and every node gets what the model prescribes (the model's evaluators being the generated scalar kernel) -/
theorem gen_pol_expl_eq_nu (U : ℕ → ℚ) (F : ℕ) (U' : ℕ → ℚ) (F' : ℕ) (p : St)
    (hS : p.eval_spline_2d_scalar = nuScalar U' F') (hC : p.eval_spline_2d_cross = nuCross U' F')
    (ht1 : Monotone p.kts1Phi) (ht2 : Monotone p.kts2Phi)
    (hd1 : p.kts1Phi p.deg1Phi < p.kts1Phi (p.kts1Phi_len - 1 - p.deg1Phi)) (hd2 : p.kts2Phi p.deg2Phi < p.kts2Phi (p.kts2Phi_len - 1 - p.deg2Phi))
    (hF1 : (p.kts1Phi_len - 1 - p.deg1Phi) - p.deg1Phi + 1 ≤ F') (hF2 : (p.kts2Phi_len - 1 - p.deg2Phi) - p.deg2Phi + 1 ≤ F') :
    ∃ σ', runOn U F p = .ret σ' ∧
      ∀ i j, σ'.f i j = if i < p.qPts_len ∧ j < p.rPts_len then
        interpP p (finalVal (modelE p) (modelP p) (explFoot (modelE p) (modelP p) (p.qPts i) (p.rPts j))) else p.f i j := by
  refine gen_pol_expl_eq U F p (fun i j hi hj => ⟨?_, ?_⟩)
  · show p.eval_spline_2d_cross _ _ _ _ _ _ _ _ _ _ _ _ _ _ _ _ _ _ i j = p.eval_spline_2d_scalar _ _ _ _ _ _ _ _ _ _ _ _ _
    rw [hC, hS]
    exact nu_table_contract U' F' p.qPts p.qPts_len p.rPts p.rPts_len p.kts1Phi ht1 p.kts1Phi_len p.deg1Phi p.kts2Phi ht2 p.kts2Phi_len p.deg2Phi
      p.coeffsPhi p.coeffsPhi_len0 p.coeffsPhi_len1 p.drPhi_0 p.drPhi_0_len0 p.drPhi_0_len1 false true hd1 hd2 hF1 hF2 i j hi hj
  · show p.eval_spline_2d_cross _ _ _ _ _ _ _ _ _ _ _ _ _ _ _ _ _ _ i j = p.eval_spline_2d_scalar _ _ _ _ _ _ _ _ _ _ _ _ _
    rw [hC, hS]
    exact nu_table_contract U' F' p.qPts p.qPts_len p.rPts p.rPts_len p.kts1Phi ht1 p.kts1Phi_len p.deg1Phi p.kts2Phi ht2 p.kts2Phi_len p.deg2Phi
      p.coeffsPhi p.coeffsPhi_len0 p.coeffsPhi_len1 p.dthetaPhi_0 p.dthetaPhi_0_len0 p.dthetaPhi_0_len1 true false hd1 hd2 hF1 hF2 i j hi hj

/-- the same with the generated uniform-cubic evaluators (guard: the phi spline is cubic in both directions) -/
theorem gen_pol_expl_eq_cu (U : ℕ → ℚ) (F : ℕ) (U' : ℕ → ℚ) (F' : ℕ) (p : St)
    (hS : p.eval_spline_2d_scalar = cuScalar U' F') (hC : p.eval_spline_2d_cross = cuCross U' F') (h1 : p.deg1Phi = 3) (h2 : p.deg2Phi = 3) :
    ∃ σ', runOn U F p = .ret σ' ∧
      ∀ i j, σ'.f i j = if i < p.qPts_len ∧ j < p.rPts_len then
        interpP p (finalVal (modelE p) (modelP p) (explFoot (modelE p) (modelP p) (p.qPts i) (p.rPts j))) else p.f i j := by
  refine gen_pol_expl_eq U F p (fun i j hi hj => ⟨?_, ?_⟩)
  · show p.eval_spline_2d_cross _ _ _ _ _ _ _ _ _ _ _ _ _ _ _ _ _ _ i j = p.eval_spline_2d_scalar _ _ _ _ _ _ _ _ _ _ _ _ _
    rw [hC, hS, h1, h2]
    exact cu_table_contract U' F' p.qPts p.qPts_len p.rPts p.rPts_len p.kts1Phi p.kts1Phi_len p.kts2Phi p.kts2Phi_len
      p.coeffsPhi p.coeffsPhi_len0 p.coeffsPhi_len1 p.drPhi_0 p.drPhi_0_len0 p.drPhi_0_len1 false true i j hi hj
  · show p.eval_spline_2d_cross _ _ _ _ _ _ _ _ _ _ _ _ _ _ _ _ _ _ i j = p.eval_spline_2d_scalar _ _ _ _ _ _ _ _ _ _ _ _ _
    rw [hC, hS, h1, h2]
    exact cu_table_contract U' F' p.qPts p.qPts_len p.rPts p.rPts_len p.kts1Phi p.kts1Phi_len p.kts2Phi p.kts2Phi_len
      p.coeffsPhi p.coeffsPhi_len0 p.coeffsPhi_len1 p.dthetaPhi_0 p.dthetaPhi_0_len0 p.dthetaPhi_0_len1 true false i j hi hj

end Expl

/-! ## the implicit step (`Props/C12Gen2.lean`) -/
section Impl
open PygyroVerif.Gen.PolImpl PygyroVerif.Gen.PolImpl.general_poloidal_advection_step_impl_ PygyroVerif.C12Gen2

/-- **`gen_pol_impl_eq` with the generated general-path evaluators, the table contract DISCHARGED** -/
theorem gen_pol_impl_eq_nu (U : ℕ → ℚ) (F : ℕ) (U' : ℕ → ℚ) (F' : ℕ) (p : St)
    (hS : p.eval_spline_2d_scalar = nuScalar U' F') (hC : p.eval_spline_2d_cross = nuCross U' F')
    (ht1 : Monotone p.kts1Phi) (ht2 : Monotone p.kts2Phi)
    (hd1 : p.kts1Phi p.deg1Phi < p.kts1Phi (p.kts1Phi_len - 1 - p.deg1Phi)) (hd2 : p.kts2Phi p.deg2Phi < p.kts2Phi (p.kts2Phi_len - 1 - p.deg2Phi))
    (hF1 : (p.kts1Phi_len - 1 - p.deg1Phi) - p.deg1Phi + 1 ≤ F') (hF2 : (p.kts2Phi_len - 1 - p.deg2Phi) - p.deg2Phi + 1 ≤ F')
    (N : ℕ) (res : List (VParAdv.Val ℚ) × List (ℚ × ℚ) × ℕ × List ℚ)
    (hmodel : implStep (modelE p) (modelP p) (2 * p.pi) p.pi p.tol id N p.qPts p.rPts p.qPts_len p.rPts_len = some res) (hF : N + 1 ≤ F) :
    ∃ σ', runOn U F p = .ret σ' ∧
      grid σ'.f p.qPts_len p.rPts_len = res.1.map (interpP p) ∧
      (∀ i j, ¬ (i < p.qPts_len ∧ j < p.rPts_len) → σ'.f i j = p.f i j) := by
  refine gen_pol_impl_eq U F p (fun i j hi hj => ⟨?_, ?_⟩) N res hmodel hF
  · show p.eval_spline_2d_cross _ _ _ _ _ _ _ _ _ _ _ _ _ _ _ _ _ _ i j = p.eval_spline_2d_scalar _ _ _ _ _ _ _ _ _ _ _ _ _
    rw [hC, hS]
    exact nu_table_contract U' F' p.qPts p.qPts_len p.rPts p.rPts_len p.kts1Phi ht1 p.kts1Phi_len p.deg1Phi p.kts2Phi ht2 p.kts2Phi_len p.deg2Phi
      p.coeffsPhi p.coeffsPhi_len0 p.coeffsPhi_len1 p.drPhi_0 p.drPhi_0_len0 p.drPhi_0_len1 false true hd1 hd2 hF1 hF2 i j hi hj
  · show p.eval_spline_2d_cross _ _ _ _ _ _ _ _ _ _ _ _ _ _ _ _ _ _ i j = p.eval_spline_2d_scalar _ _ _ _ _ _ _ _ _ _ _ _ _
    rw [hC, hS]
    exact nu_table_contract U' F' p.qPts p.qPts_len p.rPts p.rPts_len p.kts1Phi ht1 p.kts1Phi_len p.deg1Phi p.kts2Phi ht2 p.kts2Phi_len p.deg2Phi
      p.coeffsPhi p.coeffsPhi_len0 p.coeffsPhi_len1 p.dthetaPhi_0 p.dthetaPhi_0_len0 p.dthetaPhi_0_len1 true false hd1 hd2 hF1 hF2 i j hi hj

/-- the same with the generated uniform-cubic evaluators (guard: the phi spline is cubic in both directions) -/
theorem gen_pol_impl_eq_cu (U : ℕ → ℚ) (F : ℕ) (U' : ℕ → ℚ) (F' : ℕ) (p : St)
    (hS : p.eval_spline_2d_scalar = cuScalar U' F') (hC : p.eval_spline_2d_cross = cuCross U' F') (h1 : p.deg1Phi = 3) (h2 : p.deg2Phi = 3)
    (N : ℕ) (res : List (VParAdv.Val ℚ) × List (ℚ × ℚ) × ℕ × List ℚ)
    (hmodel : implStep (modelE p) (modelP p) (2 * p.pi) p.pi p.tol id N p.qPts p.rPts p.qPts_len p.rPts_len = some res) (hF : N + 1 ≤ F) :
    ∃ σ', runOn U F p = .ret σ' ∧
      grid σ'.f p.qPts_len p.rPts_len = res.1.map (interpP p) ∧
      (∀ i j, ¬ (i < p.qPts_len ∧ j < p.rPts_len) → σ'.f i j = p.f i j) := by
  refine gen_pol_impl_eq U F p (fun i j hi hj => ⟨?_, ?_⟩) N res hmodel hF
  · show p.eval_spline_2d_cross _ _ _ _ _ _ _ _ _ _ _ _ _ _ _ _ _ _ i j = p.eval_spline_2d_scalar _ _ _ _ _ _ _ _ _ _ _ _ _
    rw [hC, hS, h1, h2]
    exact cu_table_contract U' F' p.qPts p.qPts_len p.rPts p.rPts_len p.kts1Phi p.kts1Phi_len p.kts2Phi p.kts2Phi_len
      p.coeffsPhi p.coeffsPhi_len0 p.coeffsPhi_len1 p.drPhi_0 p.drPhi_0_len0 p.drPhi_0_len1 false true i j hi hj
  · show p.eval_spline_2d_cross _ _ _ _ _ _ _ _ _ _ _ _ _ _ _ _ _ _ i j = p.eval_spline_2d_scalar _ _ _ _ _ _ _ _ _ _ _ _ _
    rw [hC, hS, h1, h2]
    exact cu_table_contract U' F' p.qPts p.qPts_len p.rPts p.rPts_len p.kts1Phi p.kts1Phi_len p.kts2Phi p.kts2Phi_len
      p.coeffsPhi p.coeffsPhi_len0 p.coeffsPhi_len1 p.dthetaPhi_0 p.dthetaPhi_0_len0 p.dthetaPhi_0_len1 true false i j hi hj

end Impl

/-! ## concrete instance, end to end: the explicit step with the generated uniform-cubic evaluators
`pi = 3` (period 6); theta spline `[0, 6, 3/2, 4]`, r spline `[1, 3, 1/2, 4]` (cubic, 7×7 coefficients `ePhi` for phi, `ePol` for the interpolant of `f`); nodes
`theta ∈ {1/2, 4}`, `r ∈ {1, 2, 3}`; `dt = 1/4`, `B0 = 2`, `v = 1/2`; `f_eq(r, v, CN0, …) = 100 + r + v + CN0`, `CN0 = 7`; `f` holds 9 and every work array 7 before the call.
Nothing is uninterpreted here except `f_eq`: the tables are filled by the generated `cu_eval_spline_2d_cross`, the feet are evaluated by the generated
`cu_eval_spline_2d_scalar`. -/
section Example
open PygyroVerif.Gen.PolExpl PygyroVerif.Gen.PolExpl.general_poloidal_advection_step_expl_ PygyroVerif.C12Gen

def eK1 : ℕ → ℚ := fun i => ([0, 6, 3 / 2, 4] : List ℚ).getD i 0
def eK2 : ℕ → ℚ := fun i => ([1, 3, 1 / 2, 4] : List ℚ).getD i 0
def ePhi : ℕ → ℕ → ℚ := fun i j => ((i : ℚ) - 3) * ((j : ℚ) - 2) / 8 + (j : ℚ) * j / 16
def ePol : ℕ → ℕ → ℚ := fun i j => 1 + (i : ℚ) / 2 + (j : ℚ) * j / 4 - (i : ℚ) * j / 8
def eQ : ℕ → ℚ := fun i => ([1 / 2, 4, 1000] : List ℚ).getD i 0
def eR : ℕ → ℚ := fun i => ([1, 2, 3, 1000] : List ℚ).getD i 0
def eP (nul : Bool) : St :=
  { pi := 3, f_eq := fun r v CN0 _ _ _ _ _ _ => 100 + r + v + CN0, f := fun _ _ => 9, dt := 1 / 4, v := 1 / 2, rPts := eR, rPts_len := 3,
    qPts := eQ, qPts_len := 2, drPhi_0 := fun _ _ => 7, dthetaPhi_0 := fun _ _ => 7, drPhi_k := fun _ _ => 7, dthetaPhi_k := fun _ _ => 7,
    endPts_k1_q := fun _ _ => 7, endPts_k1_r := fun _ _ => 7, endPts_k2_q := fun _ _ => 7, endPts_k2_r := fun _ _ => 7,
    kts1Phi := eK1, kts1Phi_len := 4, kts2Phi := eK2, kts2Phi_len := 4, coeffsPhi := ePhi, coeffsPhi_len0 := 7, coeffsPhi_len1 := 7, deg1Phi := 3, deg2Phi := 3,
    kts1Pol := eK1, kts1Pol_len := 4, kts2Pol := eK2, kts2Pol_len := 4, coeffsPol := ePol, coeffsPol_len0 := 7, coeffsPol_len1 := 7, deg1Pol := 3, deg2Pol := 3,
    CN0 := 7, B0 := 2, nulBound := nul,
    eval_spline_2d_cross := cuCross (fun _ => 7) 0, eval_spline_2d_scalar := cuScalar (fun _ => 7) 0 }

/-- the corollary applies: no contract hypothesis is left -/
example (nul : Bool) : ∃ σ', runOn (fun _ => 7) 0 (eP nul) = .ret σ' ∧
    ∀ i j, σ'.f i j = if i < 2 ∧ j < 3 then
      interpP (eP nul) (finalVal (modelE (eP nul)) (modelP (eP nul)) (explFoot (modelE (eP nul)) (modelP (eP nul)) (eQ i) (eR j))) else 9 :=
  gen_pol_expl_eq_cu (fun _ => 7) 0 (fun _ => 7) 0 (eP nul) rfl rfl rfl rfl
/-- the generated code itself, evaluated on rows 0..2 / columns 0..3 (row 2 and column 3 are outside the loops), `nulBound` true and false; the same numbers (as
    floats: 3.5122568460305…, 3.7978865800783…, 108.5, 110.505208…) are what `general_poloidal_advection_step_expl` of /repo returns on these inputs when it is handed
    the real `cu_eval_spline_2d_cross` / `cu_eval_spline_2d_scalar`, with `numpy.pi` set to 3.0 and the toy `f_eq` -/
example : ([true, false].map fun nul => match runOn (fun _ => 7) 0 (eP nul) with
    | .ret σ => (List.range 3).map (fun i => (List.range 4).map (σ.f i)) | _ => []) =
    [[[0, 15353244677 / 4371333120, 0, 9], [0, 11067884929 / 2914222080, 0, 9], [9, 9, 9, 9]],
     [[217 / 2, 15353244677 / 4371333120, 21217 / 192, 9], [217 / 2, 11067884929 / 2914222080, 21217 / 192, 9], [9, 9, 9, 9]]] := by decide +kernel

end Example

end PygyroVerif.C12Gen3
