/-
C02 — Block decomposition is an exact balanced partition; accessors agree with it.
Property theorems only (helper lemmas: Lemmas/Blocks.lean).  Model: Model/Blocks.lean, Model/Layout.lean.
-/
import PygyroVerif.Model.Layout
import PygyroVerif.Lemmas.Blocks
import Mathlib.Algebra.BigOperators.Group.List.Basic

namespace PygyroVerif.C02
open PygyroVerif

/-- the first range starts at 0 -/
theorem blockStart_zero (n p : Nat) : blockStart n p 0 = 0 := blockStart_zero' n p

/-- the last range ends at the extent: together with `blocks_tile`, no gap at either end -/
theorem blockStart_last (n p : Nat) (hp : 0 < p) : blockStart n p p = n := blockStart_last' n p hp

/-- every block has `n/p` or `n/p + 1` points -/
theorem blockLen_bounds (n p k : Nat) (hp : 0 < p) :
    n / p ≤ blockLen n p k ∧ blockLen n p k ≤ n / p + 1 := by
  have h1 := blockStart_succ_ge n p k hp
  have h2 := blockStart_succ_le n p k hp
  unfold blockLen; generalize n / p = s at *; omega

/-- block lengths differ by at most one -/
theorem blockLen_diff_le_one (n p j k : Nat) (hp : 0 < p) : blockLen n p j ≤ blockLen n p k + 1 := by
  have := blockLen_bounds n p j hp; have := blockLen_bounds n p k hp; omega

/-- with `p ≤ n` nobody is empty -/
theorem blockLen_pos (n p k : Nat) (hp : 0 < p) (hpn : p ≤ n) : 1 ≤ blockLen n p k := by
  have := (blockLen_bounds n p k hp).1
  have : 1 ≤ n / p := (Nat.le_div_iff_mul_le hp).2 (by omega)
  omega

/-- ranges tile `[0,n)` exactly once, in rank order: every global index has exactly one owner -/
theorem blocks_tile (n p : Nat) (hp : 0 < p) (g : Nat) (hg : g < n) :
    ∃! k, k < p ∧ blockStart n p k ≤ g ∧ g < blockStart n p (k+1) := by
  obtain ⟨k, hk, h1, h2⟩ := owner_exists n p hp g hg
  refine ⟨k, ⟨hk, h1, h2⟩, ?_⟩
  intro j ⟨_, hj1, hj2⟩
  exact owner_unique n p hp g j k ⟨hj1, hj2⟩ ⟨h1, h2⟩

/-- rank order: starts are monotone in the rank -/
theorem blocks_rank_order (n p j k : Nat) (hp : 0 < p) (h : j ≤ k) :
    blockStart n p j ≤ blockStart n p k := blockStart_mono n p hp h

/-- `start + length = next start` (ranges are contiguous) -/
theorem blocks_contiguous (n p k : Nat) (hp : 0 < p) :
    blockStart n p k + blockLen n p k = blockStart n p (k+1) := by
  have := blockStart_le_succ n p k hp
  unfold blockLen; omega

/-- the lengths add up to the extent -/
theorem lengths_sum (n p : Nat) (hp : 0 < p) : (mpiLengths n p).sum = n := by
  have key : ∀ m, ((List.range m).map (blockLen n p)).sum = blockStart n p m := by
    intro m
    induction m with
    | zero => simp [blockStart_zero']
    | succ m ih =>
      rw [List.range_succ, List.map_append, List.sum_append, ih]
      simp only [List.map_cons, List.map_nil, List.sum_cons, List.sum_nil, Nat.add_zero]
      exact blocks_contiguous n p m hp
  unfold mpiLengths
  rw [key p, blockStart_last' n p hp]

/-- the advertised maximum block length is an upper bound … -/
theorem maxBlock_is_upper (n p k : Nat) (hp : 0 < p) (_hk : k < p) : blockLen n p k ≤ maxBlock n p := by
  unfold maxBlock
  split
  · exact (blockLen_bounds n p k hp).2
  · rename_i h
    have hb : n % p = 0 := by omega
    have h0 : blockStart n p (k+1) = n / p * (k+1) := by simp [blockStart, hb]
    have h1 : blockStart n p k = n / p * k := by simp [blockStart, hb]
    unfold blockLen; rw [h0, h1, Nat.mul_succ]; generalize n / p * k = a; generalize n / p = s; omega

/-- … and is attained (by the last rank) -/
theorem maxBlock_attained (n p : Nat) (hp : 0 < p) : blockLen n p (p-1) = maxBlock n p := by
  have hlast : blockStart n p (p - 1 + 1) = n := by
    rw [Nat.sub_add_cancel hp]; exact blockStart_last' n p hp
  have hb : n % p < p := Nat.mod_lt _ hp
  unfold blockLen; rw [hlast]
  unfold maxBlock blockStart
  have hn := Nat.div_add_mod' n p
  generalize n / p = s at *; generalize n % p = b at *
  split
  · rename_i hpos
    -- b*(p-1)/p = b-1
    have : b * (p - 1) / p = b - 1 := by
      have e : b * (p - 1) = (b - 1) * p + (p - b) := by
        have hp1 : p - 1 + 1 = p := Nat.sub_add_cancel hp
        have hb1 : b - 1 + 1 = b := Nat.sub_add_cancel hpos
        zify [hp, hpos, Nat.le_of_lt hb]; ring
      rw [e, Nat.add_comm, Nat.add_mul_div_right _ _ hp, Nat.div_eq_of_lt (by omega)]; omega
    rw [this]
    have hsp : s * (p - 1) = s * p - s := by rw [Nat.mul_sub_one]
    have : s ≤ s * p := Nat.le_mul_of_pos_right _ hp
    omega
  · have hb0 : b = 0 := by omega
    rw [hb0] at hn ⊢
    have hsp : s * (p - 1) = s * p - s := by rw [Nat.mul_sub_one]
    have : s ≤ s * p := Nat.le_mul_of_pos_right _ hp
    simp; omega

/-! ### the advertised shape / starts / size agree with the ranges -/

/-- the local extent along axis `i` is the length of the owner's range -/
theorem shape_is_blockLen (L : Layout) (c : List Nat) (i : Nat) (hi : i < L.ndims) :
    (L.shape c).getD i 0 = blockLen (L.extAt i) (L.procsAt i) (c.getD i 0) := by
  simp [Layout.shape, Layout.endAt, Layout.startAt, blockLen, hi]

/-- `mpi_starts(i)[k]`, `mpi_lengths(i)[k]` are the range of rank `k` -/
theorem mpi_tables_agree (L : Layout) (i k : Nat) (hk : k < L.procsAt i) :
    (L.mpiStartsAt i).getD k 0 = blockStart (L.extAt i) (L.procsAt i) k ∧
    (L.mpiLengthsAt i).getD k 0 = blockLen (L.extAt i) (L.procsAt i) k := by
  simp [Layout.mpiStartsAt, Layout.mpiLengthsAt, mpiStarts, mpiLengths, hk]

/-- every local extent is bounded by the advertised maximum block shape -/
theorem shape_le_maxShape (L : Layout) (c : List Nat) (i : Nat) (hi : i < L.ndims)
    (hp : 0 < L.procsAt i) (hc : c.getD i 0 < L.procsAt i) :
    (L.shape c).getD i 0 ≤ L.maxShape.getD i 0 := by
  rw [shape_is_blockLen L c i hi]
  simp only [Layout.maxShape, hi, List.getD_eq_getElem?_getD, List.getElem?_map, List.getElem?_range,
    Option.map_some, Option.getD_some]
  exact maxBlock_is_upper _ _ _ hp hc

/-! ### accessors -/

/-- `getGlobalIdxVals(i)` enumerates exactly the owned range, in order -/
theorem globalIdxVals_spec (L : Layout) (c : List Nat) (i j : Nat)
    (hj : j < (L.shape c).getD i 0) (hi : i < L.ndims) :
    (L.globalIdxVals c i).getD j 0 = L.startAt c i + j ∧
    (L.globalIdxVals c i).length = (L.shape c).getD i 0 := by
  have hs : (L.shape c).getD i 0 = L.endAt c i - L.startAt c i := by simp [Layout.shape, hi]
  rw [hs] at hj
  constructor
  · simp [Layout.globalIdxVals, hj, Nat.add_comm]
  · simp [Layout.globalIdxVals, Layout.shape, hi]

/-- `getGlobalIndices`: entry `d` of the result is the local index along the axis that stores `d`
    plus that axis' start -/
theorem toGlobal_spec (L : Layout) (c idx : List Nat) (d : Nat) (hd : d < L.ndims) :
    (L.toGlobal c idx).getD d 0 = idx.getD (L.ord.idxOf d) 0 + L.startAt c (L.ord.idxOf d) := by
  simp [Layout.toGlobal, hd]

/-- per-axis bijection local ↔ global: `(k, j) ↦ start k + j` hits every global index exactly once -/
theorem axis_local_global_bijective (n p : Nat) (hp : 0 < p) (g : Nat) (hg : g < n) :
    ∃! kj : Nat × Nat, kj.1 < p ∧ kj.2 < blockLen n p kj.1 ∧ blockStart n p kj.1 + kj.2 = g := by
  obtain ⟨k, hk, h1, h2⟩ := owner_exists n p hp g hg
  have hc := blocks_contiguous n p k hp
  refine ⟨(k, g - blockStart n p k), ⟨hk, by show g - blockStart n p k < blockLen n p k; omega,
    by show blockStart n p k + (g - blockStart n p k) = g; omega⟩, ?_⟩
  rintro ⟨k', j'⟩ ⟨_, hj', he⟩
  simp only at hj' he
  have hc' := blocks_contiguous n p k' hp
  have : k' = k := owner_unique n p hp g k' k ⟨by omega, by omega⟩ ⟨h1, h2⟩
  subst this
  simp only [Prod.mk.injEq, true_and]; omega

/-- non-vacuity: a concrete uneven split -/
example : mpiStarts 10 3 = [0, 3, 6] ∧ mpiLengths 10 3 = [3, 3, 4] ∧ maxBlock 10 3 = 4 := by decide

end PygyroVerif.C02
