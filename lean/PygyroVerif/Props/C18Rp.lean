/-
C18 — the parameter file with the real setters of `rMin` / `rMax` (which move `rp`) and an `rp` given in the file
(findings F25, F29; Model/Checkpoint.lean §4b: `setAttr`, `assignB`, `sweepB`, `getConstantsB`, `getConstantsRp`).

The earlier theorems on the parameter file (Props/C18.lean §5, Lemmas/ConstantsOrder.lean) are about `getConstants`, a parser
whose assignments have no side effect.  The real class moves `rp` whenever `rMin` or `rMax` is assigned.  Here:

  * `constants_rp_explicit`     with `rp` in the file, `getConstantsRp` (the parser as it is now) IS the side-effect free parser
                                followed by the defaults — no hypothesis on the expressions (they may read `rp`): all theorems of
                                §5 (order independence, print → parse) hold for it, `rp` included;
  * `getConstantsA_simulates`   without `rp` in the file: the parser with the real setters and the side-effect free one run the
                                same sweeps and agree on every constant except `rp` (expressions local, not reading `rp`);
  * `constants_rp_derived`      without `rp` in the file, `rp` is `mid rMin rMax` when both ends are set and unset otherwise,
                                in every order of the keys;
  * `constants_rp_order_independent`, `constants_print_parse_roundtrip_rp`  the two user-level statements;
  * `old_parser_rp_depends_on_order`  the parser without the final assignment (the code before F25) returns different
                                `rp` for two orders of one file; `f25_parser_expr_depends_on_order`: the parser between F25 and
                                F29 gives an expression that reads `rp` two values for two orders.  The defects, as theorems.
Not proved: order independence of expressions that read a DERIVED `rp` (no `rp` in the file): the code defers them until both
ends are known (`eval_expr` returns `None` while `rp` is unset); exercised by the correspondence only.
-/
import PygyroVerif.Model.Checkpoint
import PygyroVerif.Lemmas.Reductions
import PygyroVerif.Lemmas.ConstantsOrder
import PygyroVerif.Props.C18

namespace PygyroVerif.C18Rp
open PygyroVerif.Ckpt List

variable {V : Type}

/-- the two tables agree on every constant except `rp` -/
def AgreeOff (eA e : String → Option V) : Prop := ∀ k, k ≠ "rp" → eA k = e k

/-- what is assumed of an entry: its expression only reads the constants it names, and `rp` is not one of them -/
def EntryRp (kp : String × PVal V) : Prop := kp.2.Local ∧ "rp" ∉ kp.2.deps

theorem evalP_agree (eA e : String → Option V) (pv : PVal V) (hloc : pv.Local) (hrp : "rp" ∉ pv.deps)
    (h : AgreeOff eA e) : evalP eA pv = evalP e pv := by
  cases pv with
  | lit v => rfl
  | expr deps f =>
    simp only [PVal.deps] at hrp
    have hag : ∀ d ∈ deps, eA d = e d := fun d hd => h d (fun hd' => hrp (hd' ▸ hd))
    have hall : deps.all (fun k => (eA k).isSome) = deps.all (fun k => (e k).isSome) := by
      rw [Bool.eq_iff_iff, List.all_eq_true, List.all_eq_true]
      exact ⟨fun hh d hd => by rw [← hag d hd]; exact hh d hd, fun hh d hd => by rw [hag d hd]; exact hh d hd⟩
    simp only [evalP, hall]
    rw [hloc eA e hag]

theorem setAttr_agree (mid : V → V → V) (eA e : String → Option V) (k : String) (v : V) (h : AgreeOff eA e) :
    AgreeOff (setAttr mid eA k v) (setEnv e k v) := by
  intro k' hk'
  have h' := h k' hk'
  have drop : ∀ (env : String → Option V) (w : V), setEnv env "rp" w k' = env k' := by
    intro env w; unfold setEnv; rw [if_neg hk']
  unfold setAttr
  by_cases h1 : k = "rMin"
  · rw [if_pos h1]
    cases eA "rMax" with
    | none => simp only [setEnv, h1]; rw [h']
    | some b => simp only [drop]; simp only [setEnv, h1]; rw [h']
  · rw [if_neg h1]
    by_cases h2 : k = "rMax"
    · rw [if_pos h2]
      cases eA "rMin" with
      | none => simp only [setEnv, h2]; rw [h']
      | some a => simp only [drop]; simp only [setEnv, h2]; rw [h']
    · rw [if_neg h2]; simp only [setEnv]; rw [h']

/-- one sweep: same pending entries, tables agree off `rp` -/
theorem sweepA_agree (mid : V → V → V) : ∀ (items : List (String × PVal V)) (eA e : String → Option V)
    (um : List (String × PVal V)), (∀ kp ∈ items, EntryRp kp) → AgreeOff eA e →
      (sweepA mid items eA um).2 = (sweep items e um).2 ∧ AgreeOff (sweepA mid items eA um).1 (sweep items e um).1
  | [], _, _, _, _, h => ⟨rfl, h⟩
  | (k, pv) :: rest, eA, e, um, hE, h => by
    have hkp := hE (k, pv) (by simp)
    have hev := evalP_agree eA e pv hkp.1 hkp.2 h
    simp only [sweepA, sweep, hev]
    cases hv : evalP e pv with
    | some v => exact sweepA_agree mid rest _ _ um (fun kp hm => hE kp (by simp [hm])) (setAttr_agree mid eA e k v h)
    | none => exact sweepA_agree mid rest _ _ _ (fun kp hm => hE kp (by simp [hm])) h

/-- the entries left pending by a sweep are entries it was given -/
theorem sweep_pending_mem : ∀ (items : List (String × PVal V)) (e : String → Option V) (um : List (String × PVal V)),
    ∀ kp ∈ (sweep items e um).2, kp ∈ items ∨ kp ∈ um
  | [], _, _, kp, h => Or.inr h
  | (k, pv) :: rest, e, um, kp, h => by
    simp only [sweep] at h
    cases hv : evalP e pv with
    | some v =>
      rw [hv] at h
      rcases sweep_pending_mem rest _ um kp h with h1 | h1
      · exact Or.inl (by simp [h1])
      · exact Or.inr h1
    | none =>
      rw [hv] at h
      rcases sweep_pending_mem rest _ _ kp h with h1 | h1
      · exact Or.inl (by simp [h1])
      · rcases List.mem_append.1 h1 with h2 | h2
        · exact Or.inr h2
        · simp at h2; exact Or.inl (by simp [h2])

/-- **the parser with the real setters simulates the side-effect free one**: same success, tables agree off `rp` -/
theorem getConstantsA_simulates (mid : V → V → V) : ∀ (fuel : Nat) (data : List (String × PVal V)) (eA e : String → Option V),
    (∀ kp ∈ data, EntryRp kp) → AgreeOff eA e →
      (getConstantsA mid fuel data eA = none ↔ getConstants fuel data e = none) ∧
      ∀ rA r, getConstantsA mid fuel data eA = some rA → getConstants fuel data e = some r → AgreeOff rA r
  | fuel, [], eA, e, _, h => by
    cases fuel <;> simp only [getConstantsA, getConstants] <;>
      exact ⟨by simp, fun rA r h1 h2 => by cases h1; cases h2; exact h⟩
  | 0, _ :: _, _, _, _, _ => by simp [getConstantsA, getConstants]
  | fuel + 1, d :: ds, eA, e, hE, h => by
    have hs := sweepA_agree mid (d :: ds).reverse eA e [] (fun kp hm => hE kp (List.mem_reverse.1 hm)) h
    have hE' : ∀ kp ∈ (sweep (d :: ds).reverse e []).2, EntryRp kp := by
      intro kp hm
      rcases sweep_pending_mem _ _ _ kp hm with h1 | h1
      · exact hE kp (List.mem_reverse.1 h1)
      · simp at h1
    simp only [getConstantsA, getConstants, hs.1]
    by_cases hlt : (sweep (d :: ds).reverse e []).2.length < (d :: ds).length
    · rw [if_pos hlt, if_pos hlt]
      exact getConstantsA_simulates mid fuel _ _ _ hE' hs.2
    · rw [if_neg hlt, if_neg hlt]; simp

theorem lookup_of_mem_nodup : ∀ (D : List (String × PVal V)) (k : String) (pv : PVal V), (D.map (·.1)).Nodup → (k, pv) ∈ D →
    D.lookup k = some pv
  | [], _, _, _, h => by simp at h
  | (k', pv') :: ds, k, pv, hnd, h => by
    simp only [List.map_cons, List.nodup_cons] at hnd
    by_cases hk : k = k'
    · subst hk
      rcases List.mem_cons.1 h with h1 | h1
      · cases h1; simp [List.lookup]
      · exact absurd (List.mem_map.2 ⟨(k, pv), h1, rfl⟩) hnd.1
    · rcases List.mem_cons.1 h with h1 | h1
      · cases h1; exact absurd rfl hk
      · rw [List.lookup_cons]
        have : (k == k') = false := by simpa using hk
        rw [this]
        exact lookup_of_mem_nodup ds k pv hnd.2 h1

theorem lookup_none_of_not_mem : ∀ (D : List (String × PVal V)) (k : String), k ∉ D.map (·.1) → D.lookup k = none
  | [], _, _ => rfl
  | (k', pv') :: ds, k, h => by
    simp only [List.map_cons, List.mem_cons, not_or] at h
    rw [List.lookup_cons]
    have : (k == k') = false := by simpa using h.1
    rw [this]
    exact lookup_none_of_not_mem ds k h.2

/-- the defaults: same branch, tables still agree off `rp` -/
theorem applyDefaults_agree (mid : V → V → V) : ∀ (dflt : List (String × V)) (eA e : String → Option V),
    "rp" ∉ dflt.map (·.1) → AgreeOff eA e → AgreeOff (applyDefaults (setAttr mid) dflt eA) (applyDefaults setEnv dflt e)
  | [], _, _, _, h => h
  | (k, v) :: ds, eA, e, hno, h => by
    simp only [List.map_cons, List.mem_cons, not_or] at hno
    have hk : eA k = e k := h k (Ne.symm hno.1)
    simp only [applyDefaults, List.foldl_cons, hk]
    by_cases hn : (e k).isNone = true
    · simp only [hn, if_true]
      exact applyDefaults_agree mid ds _ _ hno.2 (setAttr_agree mid eA e k v h)
    · simp only [hn]
      exact applyDefaults_agree mid ds _ _ hno.2 h

/-- a constant that is set is not touched by the defaults -/
theorem applyDefaults_keeps : ∀ (dflt : List (String × V)) (e : String → Option V) (k : String) (w : V), e k = some w →
    applyDefaults setEnv dflt e k = some w
  | [], _, _, _, h => h
  | (k', v) :: ds, e, k, w, h => by
    simp only [applyDefaults, List.foldl_cons]
    by_cases hn : (e k').isNone = true
    · simp only [hn, if_true]
      refine applyDefaults_keeps ds _ k w ?_
      have : k ≠ k' := by
        intro hkk; rw [hkk] at h; rw [h] at hn; simp at hn
      unfold setEnv; rw [if_neg this]; exact h
    · simp only [hn]
      exact applyDefaults_keeps ds e k w h

/-- the defaults do not assign a name they do not list -/
theorem applyDefaults_other : ∀ (dflt : List (String × V)) (e : String → Option V) (k : String), k ∉ dflt.map (·.1) →
    applyDefaults setEnv dflt e k = e k
  | [], _, _, _ => rfl
  | (k', v) :: ds, e, k, hno => by
    simp only [List.map_cons, List.mem_cons, not_or] at hno
    simp only [applyDefaults, List.foldl_cons]
    by_cases hn : (e k').isNone = true
    · simp only [hn, if_true]
      have := applyDefaults_other ds (setEnv e k' v) k hno.2
      simp only [applyDefaults] at this
      rw [this]; unfold setEnv; rw [if_neg hno.1]
    · simp only [hn]
      exact applyDefaults_other ds e k hno.2

/-- with `rp` in the file, `assign` is an assignment without side effect -/
theorem assignB_given (mid : V → V → V) (env : String → Option V) (k : String) (v : V) :
    assignB mid true env k v = setEnv env k v := by
  funext k'
  unfold assignB
  by_cases h1 : k = "rMin"
  · subst h1
    simp only [Bool.true_and, beq_self_eq_true, Bool.true_or, if_true]
    by_cases hk : k' = "rp"
    · subst hk; simp [setEnv]
    · rw [if_neg hk]
      unfold setAttr
      cases env "rMax" <;> simp [setEnv, hk]
  · by_cases h2 : k = "rMax"
    · subst h2
      simp only [Bool.true_and, beq_self_eq_true, Bool.or_true, if_true]
      by_cases hk : k' = "rp"
      · subst hk; simp [setEnv]
      · rw [if_neg hk]
        unfold setAttr
        cases env "rMin" <;> simp [setEnv, hk]
    · have e1 : (k == "rMin") = false := by simpa using h1
      have e2 : (k == "rMax") = false := by simpa using h2
      simp only [e1, e2, Bool.or_false, Bool.and_false, Bool.false_eq_true, if_false]
      unfold setAttr
      rw [if_neg h1, if_neg h2]

theorem assignB_not_given (mid : V → V → V) (env : String → Option V) (k : String) (v : V) :
    assignB mid false env k v = setAttr mid env k v := by
  simp [assignB]

theorem sweepB_given (mid : V → V → V) : ∀ (items : List (String × PVal V)) (env : String → Option V)
    (um : List (String × PVal V)), sweepB mid true items env um = sweep items env um
  | [], _, _ => rfl
  | (k, pv) :: rest, env, um => by
    simp only [sweepB, sweep]
    cases evalP env pv with
    | some v => simp only [assignB_given]; exact sweepB_given mid rest _ um
    | none => exact sweepB_given mid rest env _

theorem sweepB_not_given (mid : V → V → V) : ∀ (items : List (String × PVal V)) (env : String → Option V)
    (um : List (String × PVal V)), sweepB mid false items env um = sweepA mid items env um
  | [], _, _ => rfl
  | (k, pv) :: rest, env, um => by
    simp only [sweepB, sweepA]
    cases evalP env pv with
    | some v => simp only [assignB_not_given]; exact sweepB_not_given mid rest _ um
    | none => exact sweepB_not_given mid rest env _

theorem getConstantsB_given (mid : V → V → V) : ∀ (fuel : Nat) (data : List (String × PVal V)) (env : String → Option V),
    getConstantsB mid true fuel data env = getConstants fuel data env
  | fuel, [], env => by cases fuel <;> rfl
  | 0, _ :: _, _ => rfl
  | fuel + 1, d :: ds, env => by
    simp only [getConstantsB, getConstants, sweepB_given]
    split
    · exact getConstantsB_given mid fuel _ _
    · rfl

theorem getConstantsB_not_given (mid : V → V → V) : ∀ (fuel : Nat) (data : List (String × PVal V)) (env : String → Option V),
    getConstantsB mid false fuel data env = getConstantsA mid fuel data env
  | fuel, [], env => by cases fuel <;> rfl
  | 0, _ :: _, _ => rfl
  | fuel + 1, d :: ds, env => by
    simp only [getConstantsB, getConstantsA, sweepB_not_given]
    split
    · exact getConstantsB_not_given mid fuel _ _
    · rfl

/-- **an `rp` given in the file is a constant like any other**: the parser as it is now — real setters, `assign`, the defaults,
    the final assignment — returns exactly what the side-effect free parser followed by side-effect free defaults returns, `rp`
    included, and fails exactly when that parser fails.  No hypothesis on the expressions: they may read `rp`. -/
theorem constants_rp_explicit (mid : V → V → V) (dflt : List (String × V)) (hd : "rp" ∉ dflt.map (·.1))
    (D : List (String × PVal V)) (hrp : (D.lookup "rp").isSome = true) (fuel : Nat) :
    getConstantsRp mid dflt fuel D = (getConstants fuel D (fun _ => none)).map (applyDefaults setEnv dflt) := by
  unfold getConstantsRp
  simp only [hrp, getConstantsB_given, if_true]
  cases h : getConstants fuel D (fun _ => none) with
  | none => rfl
  | some env =>
    simp only [Option.map_some, Option.some.injEq]
    funext k
    by_cases hk : k = "rp"
    · subst hk
      simp only [if_true]
      exact (applyDefaults_other dflt env "rp" hd).symm
    · simp only [if_neg hk]
      exact applyDefaults_agree mid dflt env env hd (fun _ _ => rfl) k hk

/-- without `rp` in the file the parser is the one with the plain setters -/
theorem getConstantsRp_not_given (mid : V → V → V) (dflt : List (String × V)) (D : List (String × PVal V))
    (hno : D.lookup "rp" = none) (fuel : Nat) : getConstantsRp mid dflt fuel D = getConstantsOld mid dflt fuel D := by
  unfold getConstantsRp getConstantsOld
  simp only [hno, Option.isSome_none, getConstantsB_not_given, Bool.false_eq_true, if_false]
  cases getConstantsA mid fuel D (fun _ => none) <;> rfl

/-- invariant of the setters: `rp` is the middle of the domain as soon as both ends are set, and unset before -/
def MidInv (mid : V → V → V) (env : String → Option V) : Prop :=
  match env "rMin", env "rMax" with
  | some a, some b => env "rp" = some (mid a b)
  | _, _ => env "rp" = none

theorem setAttr_MidInv (mid : V → V → V) (env : String → Option V) (k : String) (v : V) (hk : k ≠ "rp")
    (h : MidInv mid env) : MidInv mid (setAttr mid env k v) := by
  unfold MidInv at h ⊢
  unfold setAttr
  by_cases h1 : k = "rMin"
  · subst h1
    cases hb : env "rMax" with
    | none =>
      rw [hb] at h
      have hrp : env "rp" = none := by cases ha : env "rMin" <;> (rw [ha] at h; exact h)
      simp [setEnv, hb, hrp]
    | some b => simp [setEnv, hb]
  · by_cases h2 : k = "rMax"
    · subst h2
      cases ha : env "rMin" with
      | none =>
        rw [ha] at h
        simp [setEnv, ha, h]
      | some a => simp [setEnv, ha]
    · have e1 : setEnv env k v "rMin" = env "rMin" := by unfold setEnv; rw [if_neg (Ne.symm h1)]
      have e2 : setEnv env k v "rMax" = env "rMax" := by unfold setEnv; rw [if_neg (Ne.symm h2)]
      have e3 : setEnv env k v "rp" = env "rp" := by unfold setEnv; rw [if_neg (Ne.symm hk)]
      rw [if_neg h1, if_neg h2, e1, e2, e3]
      exact h

theorem sweepA_MidInv (mid : V → V → V) : ∀ (items : List (String × PVal V)) (env : String → Option V)
    (um : List (String × PVal V)), (∀ kp ∈ items, kp.1 ≠ "rp") → MidInv mid env → MidInv mid (sweepA mid items env um).1
  | [], _, _, _, h => h
  | (k, pv) :: rest, env, um, hk, h => by
    simp only [sweepA]
    cases hv : evalP env pv with
    | some v =>
      exact sweepA_MidInv mid rest _ um (fun kp hm => hk kp (by simp [hm]))
        (setAttr_MidInv mid env k v (hk (k, pv) (by simp)) h)
    | none => exact sweepA_MidInv mid rest _ _ (fun kp hm => hk kp (by simp [hm])) h

theorem sweepA_pending_mem (mid : V → V → V) : ∀ (items : List (String × PVal V)) (e : String → Option V)
    (um : List (String × PVal V)), ∀ kp ∈ (sweepA mid items e um).2, kp ∈ items ∨ kp ∈ um
  | [], _, _, kp, h => Or.inr h
  | (k, pv) :: rest, e, um, kp, h => by
    simp only [sweepA] at h
    cases hv : evalP e pv with
    | some v =>
      rw [hv] at h
      rcases sweepA_pending_mem mid rest _ um kp h with h1 | h1
      · exact Or.inl (by simp [h1])
      · exact Or.inr h1
    | none =>
      rw [hv] at h
      rcases sweepA_pending_mem mid rest _ _ kp h with h1 | h1
      · exact Or.inl (by simp [h1])
      · rcases List.mem_append.1 h1 with h2 | h2
        · exact Or.inr h2
        · simp at h2; exact Or.inl (by simp [h2])

theorem getConstantsA_MidInv (mid : V → V → V) : ∀ (fuel : Nat) (data : List (String × PVal V)) (env res : String → Option V),
    (∀ kp ∈ data, kp.1 ≠ "rp") → MidInv mid env → getConstantsA mid fuel data env = some res → MidInv mid res
  | fuel, [], env, res, _, h, hg => by
    cases fuel <;> (simp only [getConstantsA] at hg; cases hg; exact h)
  | 0, _ :: _, _, _, _, _, hg => by simp [getConstantsA] at hg
  | fuel + 1, d :: ds, env, res, hk, h, hg => by
    simp only [getConstantsA] at hg
    have hk' : ∀ kp ∈ (d :: ds).reverse, kp.1 ≠ "rp" := fun kp hm => hk kp (List.mem_reverse.1 hm)
    have hs := sweepA_MidInv mid (d :: ds).reverse env [] hk' h
    by_cases hlt : (sweepA mid (d :: ds).reverse env []).2.length < (d :: ds).length
    · rw [if_pos hlt] at hg
      refine getConstantsA_MidInv mid fuel _ _ res ?_ hs hg
      intro kp hm
      rcases sweepA_pending_mem mid _ _ _ kp hm with h1 | h1
      · exact hk' kp h1
      · simp at h1
    · rw [if_neg hlt] at hg; exact absurd hg (by simp)

theorem applyDefaults_MidInv (mid : V → V → V) : ∀ (dflt : List (String × V)) (env : String → Option V),
    "rp" ∉ dflt.map (·.1) → MidInv mid env → MidInv mid (applyDefaults (setAttr mid) dflt env)
  | [], _, _, h => h
  | (k, v) :: ds, env, hno, h => by
    simp only [List.map_cons, List.mem_cons, not_or] at hno
    simp only [applyDefaults, List.foldl_cons]
    by_cases hn : (env k).isNone = true
    · simp only [hn, if_true]
      exact applyDefaults_MidInv mid ds _ hno.2 (setAttr_MidInv mid env k v (Ne.symm hno.1) h)
    · simp only [hn]
      exact applyDefaults_MidInv mid ds env hno.2 h

/-- **without `rp` in the file, `rp` is the middle of the radial domain** — in every order of the keys: `mid rMin rMax` when
    the file or the defaults set both ends (the defaults of the code do), unset otherwise. -/
theorem constants_rp_derived (mid : V → V → V) (dflt : List (String × V)) (hd : "rp" ∉ dflt.map (·.1))
    (D : List (String × PVal V)) (hno : "rp" ∉ D.map (·.1)) (fuel : Nat)
    (res : String → Option V) (h : getConstantsRp mid dflt fuel D = some res) : MidInv mid res := by
  rw [getConstantsRp_not_given mid dflt D (lookup_none_of_not_mem D "rp" hno) fuel] at h
  unfold getConstantsOld at h
  cases hA : getConstantsA mid fuel D (fun _ => none) with
  | none => rw [hA] at h; simp at h
  | some envA =>
    rw [hA] at h
    simp only [Option.map_some, Option.some.injEq] at h
    subst h
    refine applyDefaults_MidInv mid dflt envA hd ?_
    refine getConstantsA_MidInv mid fuel D (fun _ => none) envA ?_ (by simp [MidInv]) hA
    intro kp hm hk
    exact hno (List.mem_map.2 ⟨kp, hm, hk⟩)

/-- **the constants, `rp` included, do not depend on the order of the keys** (with `rp` in the file; expressions local, they may
    read `rp`): two successful runs on two orderings of one file return the same table on all keys of the file. -/
theorem constants_rp_order_independent (mid : V → V → V) (dflt : List (String × V)) (hd : "rp" ∉ dflt.map (·.1))
    (D1 D2 : List (String × PVal V)) (hperm : D1 ~ D2)
    (hnd : (D1.map (·.1)).Nodup) (hloc : ∀ kp ∈ D1, kp.2.Local) (pv : PVal V) (hrp : ("rp", pv) ∈ D1)
    (fuel : Nat) (r1 r2 : String → Option V)
    (h1 : getConstantsRp mid dflt fuel D1 = some r1) (h2 : getConstantsRp mid dflt fuel D2 = some r2) :
    ∀ k ∈ D1.map (·.1), r1 k = r2 k := by
  have hnd2 : (D2.map (·.1)).Nodup := (hperm.map _).nodup_iff.1 hnd
  have l1 : (D1.lookup "rp").isSome = true := by rw [lookup_of_mem_nodup D1 "rp" pv hnd hrp]; rfl
  have l2 : (D2.lookup "rp").isSome = true := by rw [lookup_of_mem_nodup D2 "rp" pv hnd2 (hperm.mem_iff.1 hrp)]; rfl
  rw [constants_rp_explicit mid dflt hd D1 l1 fuel] at h1
  rw [constants_rp_explicit mid dflt hd D2 l2 fuel] at h2
  cases g1 : getConstants fuel D1 (fun _ => none) with
  | none => rw [g1] at h1; simp at h1
  | some e1 =>
    cases g2 : getConstants fuel D2 (fun _ => none) with
    | none => rw [g2] at h2; simp at h2
    | some e2 =>
      rw [g1] at h1; rw [g2] at h2
      simp only [Option.map_some, Option.some.injEq] at h1 h2
      have hsol := getConstants_Solution D1 hnd hloc fuel e1 g1
      have := PygyroVerif.C18.constants_order_independent_partial D1 D2 hperm hloc e1 hsol fuel fuel e1 e2 g1 g2
      intro k hk
      obtain ⟨kp, hkp, rfl⟩ := List.mem_map.1 hk
      obtain ⟨w, hw⟩ := Option.isSome_iff_exists.1 (hsol kp hkp).2
      have hw2 : e2 kp.1 = some w := by rw [← (this kp.1 hk).2.2]; exact hw
      rw [← h1, ← h2, applyDefaults_keeps dflt e1 kp.1 w hw, applyDefaults_keeps dflt e2 kp.1 w hw2]

/-- **print → parse with the real setters**: a file of literals with distinct names (what `Constants.__str__` prints: it
    always contains `rp`) is read back, in any order of the entries, to a table that gives every name its literal —
    `rp` included, although `rMin` and `rMax` are assigned after it. -/
theorem constants_print_parse_roundtrip_rp (mid : V → V → V) (dflt : List (String × V)) (hd : "rp" ∉ dflt.map (·.1))
    (D : List (String × PVal V))
    (hl : ∀ kp ∈ D, ∃ v, kp.2 = PVal.lit v) (hnd : (D.map (·.1)).Nodup) (vrp : V) (hrp : ("rp", PVal.lit vrp) ∈ D) (fuel : Nat) :
    ∃ env, getConstantsRp mid dflt (fuel + 1) D = some env ∧ ∀ k v, (k, PVal.lit v) ∈ D → env k = some v := by
  obtain ⟨e, he, hv⟩ := PygyroVerif.C18.constants_print_parse_roundtrip D hl hnd fuel
  have l1 : (D.lookup "rp").isSome = true := by rw [lookup_of_mem_nodup D "rp" _ hnd hrp]; rfl
  refine ⟨applyDefaults setEnv dflt e, ?_, fun k v hm => applyDefaults_keeps dflt e k v (hv k v hm)⟩
  rw [constants_rp_explicit mid dflt hd D l1 (fuel + 1), he]
  rfl

/-- **the parser without the final assignment (the code before the fix F25) depends on the order of the keys**: one file, two
    orders, two values of `rp` (`popitem` takes the last entry first: in the first order `rp` is assigned last and stays,
    in the second it is assigned first and `rMax`, `rMin` move it to the middle); and an `rp` is lost whenever one end of the
    domain comes from the defaults.  The parser as it is now returns the given `rp` on the same files. -/
theorem old_parser_rp_depends_on_order :
    (getConstantsOld (fun a b : Int => (a + b) / 2) [("rMin", 0), ("rMax", 14)] 4 [("rp", .lit 5), ("rMin", .lit 0), ("rMax", .lit 14)]).map (· "rp")
      = some (some 5) ∧
    (getConstantsOld (fun a b : Int => (a + b) / 2) [("rMin", 0), ("rMax", 14)] 4 [("rMin", .lit 0), ("rMax", .lit 14), ("rp", .lit 5)]).map (· "rp")
      = some (some 7) ∧
    (getConstantsOld (fun a b : Int => (a + b) / 2) [("rMin", 0), ("rMax", 14)] 4 [("rp", .lit 5), ("rMax", .lit 14)]).map (· "rp")
      = some (some 7) ∧
    (getConstantsRp (fun a b : Int => (a + b) / 2) [("rMin", 0), ("rMax", 14)] 4 [("rMin", .lit 0), ("rMax", .lit 14), ("rp", .lit 5)]).map (· "rp")
      = some (some 5) ∧
    (getConstantsRp (fun a b : Int => (a + b) / 2) [("rMin", 0), ("rMax", 14)] 4 [("rp", .lit 5), ("rMax", .lit 14)]).map (· "rp")
      = some (some 5) := by decide

/-- **between F25 and F29 an expression that reads `rp` depended on the order of the keys**: `deltaR = 2·rp` with `rp = 5` in the
    file is 10 when the expression is read right after `rp` and 14 (twice the middle of the domain) when the ends are read in between; the parser
    as it is now gives 10 in both orders. -/
theorem f25_parser_expr_depends_on_order :
    let dbl : PVal Int := .expr ["rp"] (fun e => 2 * (e "rp").getD 0)
    (getConstantsF25 (fun a b : Int => (a + b) / 2) [] 4 [("rMin", .lit 0), ("rMax", .lit 14), ("deltaR", dbl), ("rp", .lit 5)]).map (· "deltaR")
      = some (some 10) ∧
    (getConstantsF25 (fun a b : Int => (a + b) / 2) [] 4 [("deltaR", dbl), ("rMin", .lit 0), ("rMax", .lit 14), ("rp", .lit 5)]).map (· "deltaR")
      = some (some 14) ∧
    (getConstantsRp (fun a b : Int => (a + b) / 2) [] 4 [("rMin", .lit 0), ("rMax", .lit 14), ("deltaR", dbl), ("rp", .lit 5)]).map (· "deltaR")
      = some (some 10) ∧
    (getConstantsRp (fun a b : Int => (a + b) / 2) [] 4 [("deltaR", dbl), ("rMin", .lit 0), ("rMax", .lit 14), ("rp", .lit 5)]).map (· "deltaR")
      = some (some 10) := by decide

/-- non-vacuity of `constants_rp_explicit` / `constants_rp_derived`: an expression for `rp`, ends given in both orders or by the
    defaults -/
example : (getConstantsRp (fun a b : Int => (a + b) / 2) [("rMin", 0), ("rMax", 20)] 4
      [("rMax", .lit 14), ("rp", .expr ["rMin"] (fun e => (e "rMin").getD 0 + 4)), ("rMin", .lit 2)]).map (fun e => (e "rMin", e "rMax", e "rp"))
      = some (some 2, some 14, some 6) ∧
    (getConstantsRp (fun a b : Int => (a + b) / 2) [("rMin", 0), ("rMax", 20)] 4 [("rMax", .lit 14), ("rMin", .lit 2)]).map (fun e => (e "rMin", e "rMax", e "rp"))
      = some (some 2, some 14, some 8) ∧
    (getConstantsRp (fun a b : Int => (a + b) / 2) [("rMin", 0), ("rMax", 20)] 4 [("rMax", .lit 14), ("kN0", .lit 3)]).map (fun e => (e "rMin", e "rMax", e "rp"))
      = some (some 0, some 14, some 7) ∧
    (getConstantsRp (fun a b : Int => (a + b) / 2) [] 4 [("rMax", .lit 14), ("kN0", .lit 3)]).map (fun e => (e "rMin", e "rMax", e "rp"))
      = some (none, some 14, none) := by decide

/-! ### the folder of a run -/

theorem firstFree_spec (isdir : Nat → Bool) : ∀ (fuel i k : Nat), firstFree isdir fuel i = some k →
    i ≤ k ∧ isdir k = false ∧ ∀ j, i ≤ j → j < k → isdir j = true
  | 0, _, _, h => by simp [firstFree] at h
  | fuel + 1, i, k, h => by
    simp only [firstFree] at h
    by_cases hd : isdir i = true
    · rw [if_pos hd] at h
      obtain ⟨h1, h2, h3⟩ := firstFree_spec isdir fuel (i + 1) k h
      refine ⟨by omega, h2, fun j hj hjk => ?_⟩
      by_cases hji : j = i
      · rw [hji]; exact hd
      · exact h3 j (by omega) hjk
    · rw [if_neg hd] at h
      simp only [Option.some.injEq] at h
      subst h
      exact ⟨le_refl _, by simpa using hd, fun j hj hjk => by omega⟩

/-- **a run that lets `setupSave` choose its folder gets a NEW one**: the index returned is that of no existing folder (and it is the
    smallest such index) — whatever gaps the numbering of the existing folders has. -/
theorem setupSave_folder_is_new (existing : List Nat) (fuel k : Nat)
    (h : firstFree (fun i => existing.contains i) fuel 0 = some k) :
    k ∉ existing ∧ ∀ j < k, j ∈ existing := by
  obtain ⟨_, h2, h3⟩ := firstFree_spec _ fuel 0 k h
  refine ⟨?_, fun j hj => ?_⟩
  · intro hk
    have : existing.contains k = true := by simpa using hk
    rw [this] at h2; exact absurd h2 (by simp)
  · have := h3 j (Nat.zero_le _) hj
    simpa using this

/-- the search succeeds: with all existing indices below `n`, `n + 1` steps of fuel suffice from index 0 -/
theorem firstFree_total (existing : List Nat) (n : Nat) (hb : ∀ j ∈ existing, j < n) : ∀ (fuel i : Nat), n ≤ i + fuel →
    (firstFree (fun j => existing.contains j) (fuel + 1) i).isSome = true
  | fuel, i, h => by
    simp only [firstFree]
    by_cases hd : existing.contains i = true
    · rw [if_pos hd]
      have hi : i < n := hb i (by simpa using hd)
      cases fuel with
      | zero => omega
      | succ f => exact firstFree_total existing n hb f (i + 1) (by omega)
    · rw [if_neg hd]; rfl

/-- counting the existing folders instead (seeded change C18-21) returns an EXISTING folder as soon as the numbering has a gap -/
theorem count_is_not_fresh : countFree [0, 2] ∈ [0, 2] ∧ firstFree (fun i => [0, 2].contains i) 3 0 = some 1 := by decide

end PygyroVerif.C18Rp
