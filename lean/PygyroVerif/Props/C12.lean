/-
C12 — Poloidal advection traces 2nd-order ExB characteristics, interpolates at the foot.   LEVEL: other (partial proof).

Model: `Model/PolAdv.lean` (`general_poloidal_advection_step_expl/_impl`).  `E : Evals K` holds the spline evaluators
(`drPhi`, `dqPhi`, `fhat`) and the angle reduction `wrap`; `P : Params K` the scalars (`rMin = rPts[0]`,
`rMax = rPts[-1]`).  Theorems about the implicit scheme are for `rnd = id` (exact iteration).

Proved here: the Heun/trapezoidal formula with the factors ½ and 1/(r·B0); the boundary rule; identity for a constant
potential and exact rigid rotation for φ = ω r²/2 (both schemes; the implicit iteration stops after one sweep); the
implicit scheme always ends inside the radial domain (clipping).
NOT provable here (analytic), measured by the harness and labelled as tests: "explicit and implicit agree to third order
in dt"; termination of the fixed-point iteration for arbitrary data (false without a contraction hypothesis — the model
takes fuel).  Provable parts: `pol_impl_fixed_point_stops` (a sweep with norm ≤ tol ends the loop) and
`pol_impl_terminates_partial` (geometric decrease of the sweep norms ⇒ a finite fuel suffices).
-/
import Mathlib.Algebra.Order.Field.Rat
import Mathlib.Tactic.NormNum
import Mathlib.Algebra.Order.Archimedean.Basic
import PygyroVerif.Lemmas.Advection

namespace PygyroVerif.C12

open PygyroVerif.VParAdv PygyroVerif.PolAdv PygyroVerif.Advection

variable {K : Type*} [Field K] [LinearOrder K]

/-- The predictor is one explicit Euler step of length `dt` along the drift `(-∂_rφ, ∂_θφ)/(r·B0)`, and (when the
    predictor lies in the radial domain) the foot is the trapezoidal rule: node + dt/2·(drift(node) + drift(predictor)),
    the angle reduced by `wrap`.  When the predictor leaves the radial domain the second drift is replaced by 0. -/
theorem pol_heun_formula (E : Evals K) (P : Params K) (q r : K) :
    predictor E P q r = (E.wrap (q + P.dt * (drift E P q r).1), r + P.dt * (drift E P q r).2) ∧
    (P.rMin ≤ (predictor E P q r).2 → (predictor E P q r).2 ≤ P.rMax →
      explFoot E P q r =
        (E.wrap (q + P.dt / 2 * ((drift E P q r).1 + (drift E P (predictor E P q r).1 (predictor E P q r).2).1)),
         r + P.dt / 2 * ((drift E P q r).2 + (drift E P (predictor E P q r).1 (predictor E P q r).2).2))) ∧
    ((predictor E P q r).2 < P.rMin ∨ (predictor E P q r).2 > P.rMax →
      explFoot E P q r =
        (E.wrap (q + P.dt / 2 * (drift E P q r).1), r + P.dt / 2 * (drift E P q r).2)) := by
  refine ⟨?_, ?_, ?_⟩
  · simp only [predictor, drift, multFactor]
    congr 2 <;> ring
  · intro h1 h2
    simp only [explFoot, velAt_in E P _ _ h1 h2, drift, multFactor]
    congr 2 <;> ring
  · intro h
    simp only [explFoot, velAt_out E P _ _ h, drift, multFactor]
    congr 2 <;> ring

example : explFoot exE (exP true) 1 2 =
    (exE.wrap (1 + (exP true).dt / 2 * ((drift exE (exP true) 1 2).1 +
      (drift exE (exP true) (predictor exE (exP true) 1 2).1 (predictor exE (exP true) 1 2).2).1)),
     2 + (exP true).dt / 2 * ((drift exE (exP true) 1 2).2 +
      (drift exE (exP true) (predictor exE (exP true) 1 2).1 (predictor exE (exP true) 1 2).2).2)) :=
  (pol_heun_formula exE (exP true) 1 2).2.1 (by norm_num [predictor, exE, exP, multFactor])
    (by norm_num [predictor, exE, exP, multFactor])

/-- Boundary rule (both schemes share `finalVal`): a foot inside the inner radius gets 0 or `FEQ rMin v`; a foot beyond
    the outer radius gets 0 or `FEQ foot_r v`; otherwise the interpolant of `f` at the foot, angle reduced. -/
theorem pol_boundary_rule (E : Evals K) (P : Params K) (foot : K × K) :
    (foot.2 < P.rMin → finalVal E P foot = if P.nul then .num 0 else .feq P.rMin P.v) ∧
    (P.rMin ≤ foot.2 → P.rMax < foot.2 → finalVal E P foot = if P.nul then .num 0 else .feq foot.2 P.v) ∧
    (P.rMin ≤ foot.2 → foot.2 ≤ P.rMax → finalVal E P foot = .num (E.fhat (E.wrap foot.1) foot.2)) := by
  refine ⟨fun h => by simp [finalVal, h], fun h1 h2 => by simp [finalVal, not_lt.mpr h1, h2],
    fun h1 h2 => finalVal_in E P foot h1 h2⟩

example : finalVal exE (exP false) (0, 1 / 2) = .feq 1 1 ∧ finalVal exE (exP false) (0, 5) = .feq 5 1 ∧
    finalVal exE (exP true) (0, 5) = .num 0 := by
  refine ⟨?_, ?_, ?_⟩
  · simpa [exP] using (pol_boundary_rule exE (exP false) (0, 1 / 2)).1 (by norm_num [exP])
  · simpa [exP] using (pol_boundary_rule exE (exP false) (0, 5)).2.1 (by norm_num [exP]) (by norm_num [exP])
  · simpa [exP] using (pol_boundary_rule exE (exP true) (0, 5)).2.1 (by norm_num [exP]) (by norm_num [exP])

/-- The implicit scheme never uses the boundary values: after the clipping of :329-332 every foot it returns lies in
    `[rMin, rMax]`, so every new value is the interpolant at the (clipped) foot. -/
theorem pol_impl_feet_in_domain (E : Evals K) (P : Params K) (period half tol : K) (hr : P.rMin ≤ P.rMax) (fuel : ℕ)
    (qPts rPts : ℕ → K) (nq nr : ℕ) (res : List (Val K) × List (K × K) × ℕ × List K)
    (h : implStep E P period half tol id fuel qPts rPts nq nr = some res) :
    (∀ p ∈ res.2.1, P.rMin ≤ p.2 ∧ p.2 ≤ P.rMax) ∧
    res.1 = res.2.1.map (fun p => .num (E.fhat (E.wrap p.1) p.2)) := by
  unfold implStep at h
  simp only [Option.map_eq_some_iff] at h
  obtain ⟨r, hr', rfl⟩ := h
  have hin := implLoop_feet_in_domain E P period half tol hr _ fuel _ _ _ r hr'
  refine ⟨hin, ?_⟩
  apply List.map_congr_left
  intro p hp
  exact finalVal_in E P p (hin p hp).1 (hin p hp).2

/-- Constant potential (both derivative evaluators vanish identically): the foot of every node is the node itself, for
    the explicit scheme and for the implicit one, which stops after its first sweep; if the interpolant reproduces the
    nodal values the step leaves `f` unchanged.  (`wrap q = q`: the nodal angles are reduced; `0 ≤ half`, `0 ≤ tol`.) -/
theorem pol_constant_potential_identity [IsStrictOrderedRing K] (E : Evals K) (P : Params K) (period half tol : K) (fuel : ℕ)
    (qPts rPts : ℕ → K) (nq nr : ℕ) (f : K × K → K)
    (hdr : ∀ q r, E.drPhi q r = 0) (hdq : ∀ q r, E.dqPhi q r = 0)
    (hw : ∀ i, i < nq → E.wrap (qPts i) = qPts i)
    (hr : ∀ j, j < nr → P.rMin ≤ rPts j ∧ rPts j ≤ P.rMax)
    (hf : ∀ i, i < nq → ∀ j, j < nr → E.fhat (qPts i) (rPts j) = f (qPts i, rPts j))
    (hhalf : 0 ≤ half) (htol : 0 ≤ tol) :
    (∀ i, i < nq → ∀ j, j < nr → explFoot E P (qPts i) (rPts j) = (qPts i, rPts j)) ∧
    explStep E P qPts rPts nq nr =
      (List.range nq).map (fun i => (List.range nr).map (fun j => .num (f (qPts i, rPts j)))) ∧
    implStep E P period half tol id (fuel + 1) qPts rPts nq nr =
      some ((nodeList qPts rPts nq nr).map (fun n => .num (f n)), nodeList qPts rPts nq nr, 1, [0]) := by
  have hfoot : ∀ i, i < nq → ∀ j, j < nr → explFoot E P (qPts i) (rPts j) = (qPts i, rPts j) := by
    intro i hi j hj
    have h1 := (hr j hj).1
    have h2 := (hr j hj).2
    simp [explFoot, predictor, hdr, hdq, velAt_in E P _ _ h1 h2, hw i hi]
  refine ⟨hfoot, ?_, ?_⟩
  · unfold explStep
    apply List.map_congr_left
    intro i hi
    apply List.map_congr_left
    intro j hj
    have hi' := List.mem_range.mp hi
    have hj' := List.mem_range.mp hj
    rw [hfoot i hi' j hj', finalVal_in E P _ (hr j hj').1 (hr j hj').2]
    simp [hw i hi', hf i hi' j hj']
  · have hnode : ∀ n ∈ nodeList qPts rPts nq nr,
        implNode E P period half n.1 n.2 (implInit E P n.1 n.2) = (id n, (0, 0)) := by
      intro n hn
      obtain ⟨i, hi, j, hj, rfl⟩ := (mem_nodeList qPts rPts nq nr n).mp hn
      have h1 := (hr j hj).1
      have h2 := (hr j hj).2
      simp [implNode, implInit, hdr, hdq, velAt_in E P _ _ h1 h2, hw i hi, clip_of_mem P _ h1 h2,
        not_lt.mpr hhalf]
    rw [implStep_one_sweep E P period half tol fuel qPts rPts nq nr id htol hnode]
    simp only [List.map_id]
    congr 2
    apply List.map_congr_left
    intro n hn
    obtain ⟨i, hi, j, hj, rfl⟩ := (mem_nodeList qPts rPts nq nr n).mp hn
    rw [finalVal_in E P _ (hr j hj).1 (hr j hj).2]
    simp [hw i hi, hf i hi j hj]

example : implStep exE0 (exP false) 6 3 (1 / 1000) id 5 (fun i => (i : ℚ)) (fun j => (j : ℚ) + 1) 3 3 =
    some ((nodeList (fun i => (i : ℚ)) (fun j => (j : ℚ) + 1) 3 3).map (fun n => .num (n.1 + n.2)),
      nodeList (fun i => (i : ℚ)) (fun j => (j : ℚ) + 1) 3 3, 1, [0]) :=
  (pol_constant_potential_identity exE0 (exP false) 6 3 (1 / 1000) 4 (fun i => (i : ℚ)) (fun j => (j : ℚ) + 1) 3 3
    (fun n => n.1 + n.2) (fun _ _ => rfl) (fun _ _ => rfl) (fun i hi => pmod6_nat i hi)
    (fun j hj => by
      have : (j : ℚ) ≤ 2 := by exact_mod_cast Nat.le_of_lt_succ hj
      constructor <;> norm_num [exP]; linarith)
    (fun _ _ _ _ => rfl) (by norm_num) (by norm_num)).2.2

/-- Rigid rotation: for the evaluators of φ = ω r²/2 (∂_rφ = ω r, ∂_θφ = 0) the explicit Heun foot of a node
    `(q, r)`, `r ≠ 0` inside the radial domain, is exactly `((q − ω·dt/B0) mod 2π, r)`; the implicit iteration reaches the
    same foot and stops after one sweep (both differences are 0).  The new value is the interpolant of `f` there. -/
theorem pol_rigid_rotation [IsStrictOrderedRing K] (E : Evals K) (P : Params K) (ω period half tol : K) (fuel : ℕ)
    (qPts rPts : ℕ → K) (nq nr : ℕ)
    (hdr : ∀ q r, E.drPhi q r = ω * r) (hdq : ∀ q r, E.dqPhi q r = 0)
    (hidem : ∀ x, E.wrap (E.wrap x) = E.wrap x)
    (hr : ∀ j, j < nr → rPts j ≠ 0 ∧ P.rMin ≤ rPts j ∧ rPts j ≤ P.rMax)
    (hhalf : 0 ≤ half) (htol : 0 ≤ tol) :
    (∀ i, i < nq → ∀ j, j < nr →
      explFoot E P (qPts i) (rPts j) = (E.wrap (qPts i - ω * P.dt / P.B0), rPts j) ∧
      finalVal E P (explFoot E P (qPts i) (rPts j)) = .num (E.fhat (E.wrap (qPts i - ω * P.dt / P.B0)) (rPts j))) ∧
    implStep E P period half tol id (fuel + 1) qPts rPts nq nr =
      some ((nodeList qPts rPts nq nr).map (fun n => .num (E.fhat (E.wrap (n.1 - ω * P.dt / P.B0)) n.2)),
        (nodeList qPts rPts nq nr).map (fun n => (E.wrap (n.1 - ω * P.dt / P.B0), n.2)), 1, [0]) := by
  have hdiv : ∀ j, j < nr → ω * rPts j / rPts j = ω := fun j hj => mul_div_cancel_right₀ ω (hr j hj).1
  constructor
  · intro i hi j hj
    obtain ⟨h0, h1, h2⟩ := hr j hj
    have hfoot : explFoot E P (qPts i) (rPts j) = (E.wrap (qPts i - ω * P.dt / P.B0), rPts j) := by
      have hp : (predictor E P (qPts i) (rPts j)).2 = rPts j := by simp [predictor, hdq]
      have h2' : (2 : K) ≠ 0 := two_ne_zero
      simp only [explFoot, hp]
      rw [velAt_in E P _ _ h1 h2]
      simp only [hdr, hdq, hdiv j hj, multFactor]
      congr 2
      · congr 1; field_simp; ring
      · simp
    refine ⟨hfoot, ?_⟩
    rw [hfoot, finalVal_in E P _ h1 h2]
    simp [hidem]
  · have hnode : ∀ n ∈ nodeList qPts rPts nq nr,
        implNode E P period half n.1 n.2 (implInit E P n.1 n.2) =
          ((fun n : K × K => (E.wrap (n.1 - ω * P.dt / P.B0), n.2)) n, (0, 0)) := by
      intro n hn
      obtain ⟨i, hi, j, hj, rfl⟩ := (mem_nodeList qPts rPts nq nr n).mp hn
      obtain ⟨h0, h1, h2⟩ := hr j hj
      have hk1 : (implInit E P (qPts i) (rPts j)) = (qPts i - ω * multFactor P, rPts j) := by
        simp [implInit, hdr, hdq, hdiv j hj]
      have h2' : (2 : K) ≠ 0 := two_ne_zero
      have e1 : qPts i - (ω + ω) * (multFactor P * (1 / 2)) = qPts i - ω * multFactor P := by
        field_simp; ring
      have e2 : qPts i - ω * multFactor P = qPts i - ω * P.dt / P.B0 := by simp only [multFactor]; ring
      simp only [implNode, hk1, velAt_in E P _ _ h1 h2, hdr, hdq, hdiv j hj, e1]
      simp [clip_of_mem P _ h1 h2, not_lt.mpr hhalf, e2]
    rw [implStep_one_sweep E P period half tol fuel qPts rPts nq nr _ htol hnode]
    congr 2
    rw [List.map_map]
    apply List.map_congr_left
    intro n hn
    obtain ⟨i, hi, j, hj, rfl⟩ := (mem_nodeList qPts rPts nq nr n).mp hn
    obtain ⟨h0, h1, h2⟩ := hr j hj
    simp only [Function.comp]
    rw [finalVal_in E P _ h1 h2]
    simp [hidem]

example : explFoot exE (exP true) 1 2 = (exE.wrap (1 - 3 * (exP true).dt / (exP true).B0), 2) :=
  ((pol_rigid_rotation exE (exP true) 3 6 3 (1 / 1000) 0 (fun _ => 1) (fun j => (j : ℚ) + 2) 1 2
    (fun _ _ => rfl) (fun _ _ => rfl) (fun x => pmod_idem 6 x (by norm_num))
    (fun j hj => by
      have : (j : ℚ) ≤ 1 := by exact_mod_cast Nat.le_of_lt_succ hj
      refine ⟨by positivity, ?_, ?_⟩ <;> norm_num [exP] <;> linarith)
    (by norm_num) (by norm_num)).1 0 (by norm_num) 0 (by norm_num)).1 |> (by simpa using ·)

/-- Partial termination statement: whenever a sweep reports a norm ≤ tol the loop stops with that sweep's end points
    (whatever the data); in particular a fixed point of the sweep ends the iteration for every `tol ≥ 0`.
    Termination for arbitrary data is not claimed (the code has no iteration cap). -/
theorem pol_impl_fixed_point_stops (E : Evals K) (P : Params K) (period half tol : K) (nodes state : List (K × K))
    (fuel cnt : ℕ) (norms : List K) (h : (sweep E P period half nodes state).2 ≤ tol) :
    implLoop E P period half tol id nodes (fuel + 1) state cnt norms =
      some ((sweep E P period half nodes state).1, cnt + 1, norms ++ [(sweep E P period half nodes state).2]) := by
  simp [implLoop, not_lt.mpr h]

example : implLoop exE0 (exP false) 6 3 0 id [((1 : ℚ), (2 : ℚ))] 1 [((1 : ℚ), (2 : ℚ))] 0 [] =
    some ((sweep exE0 (exP false) 6 3 [((1 : ℚ), (2 : ℚ))] [((1 : ℚ), (2 : ℚ))]).1, 1,
      [] ++ [(sweep exE0 (exP false) 6 3 [((1 : ℚ), (2 : ℚ))] [((1 : ℚ), (2 : ℚ))]).2]) :=
  pol_impl_fixed_point_stops exE0 (exP false) 6 3 0 _ _ 0 0 [] (by
    have h := sweep_of_nodes exE0 (exP false) 6 3 id id [((1 : ℚ), (2 : ℚ))] (by
      intro n hn
      simp only [List.mem_singleton] at hn
      subst hn
      have hw : pmod (6 : ℚ) 1 = 1 := by simpa using pmod6_nat 1 (by norm_num)
      simp [implNode, exE0, exP, velAt, clip, hw]
      norm_num)
    simp only [List.map_id] at h
    rw [h])

/-- Partial termination theorem (the general clause "the implicit iteration terminates" is analytic and false without a
    hypothesis): if along the iteration started at `state` the norm reported by each sweep is at most `ρ < 1` times the
    previous one — which is what a `ρ`-contraction of the fixed-point map in the code's own distance gives — then for
    every `tol > 0` a finite number of sweeps suffices (Archimedean field). -/
theorem pol_impl_terminates_partial [IsStrictOrderedRing K] [Archimedean K] (E : Evals K) (P : Params K)
    (period half tol ρ : K) (nodes state : List (K × K)) (htol : 0 < tol) (hρ0 : 0 ≤ ρ) (hρ1 : ρ < 1)
    (hcontr : ∀ k, (sweep E P period half nodes (iterState E P period half nodes (k + 1) state)).2 ≤
      ρ * (sweep E P period half nodes (iterState E P period half nodes k state)).2) :
    ∃ fuel, ∀ cnt norms, (implLoop E P period half tol id nodes fuel state cnt norms).isSome := by
  set n : ℕ → K := fun k => (sweep E P period half nodes (iterState E P period half nodes k state)).2 with hn
  have hgeo : ∀ k, n k ≤ ρ ^ k * n 0 := by
    intro k
    induction k with
    | zero => simp
    | succ k ih =>
      calc n (k + 1) ≤ ρ * n k := hcontr k
        _ ≤ ρ * (ρ ^ k * n 0) := mul_le_mul_of_nonneg_left ih hρ0
        _ = ρ ^ (k + 1) * n 0 := by ring
  have : ∃ k, n k ≤ tol := by
    by_cases h0 : n 0 ≤ tol
    · exact ⟨0, h0⟩
    · have hpos : 0 < n 0 := lt_trans htol (not_le.mp h0)
      obtain ⟨k, hk⟩ := exists_pow_lt_of_lt_one (div_pos htol hpos) hρ1
      refine ⟨k, le_trans (hgeo k) ?_⟩
      rw [lt_div_iff₀ hpos] at hk
      exact hk.le
  obtain ⟨k, hk⟩ := this
  exact ⟨k + 1, fun cnt norms => implLoop_isSome_of_small_norm E P period half tol nodes (k + 1) state cnt norms
    ⟨k, by omega, hk⟩⟩

/-- the full clause of the property, not provable (and not true) without a hypothesis on the data -/
def pol_impl_terminates_statement : Prop :=
  ∀ (E : Evals ℚ) (P : Params ℚ) (period half tol : ℚ) (nodes state : List (ℚ × ℚ)), 0 < tol →
    ∃ fuel, (implLoop E P period half tol id nodes fuel state 0 []).isSome

example : ∃ fuel, ∀ cnt norms,
    (implLoop exE0 (exP false) 6 3 (1 / 1000) id [((1 : ℚ), (2 : ℚ))] fuel [((1 : ℚ), (2 : ℚ))] cnt norms).isSome := by
  have hs : sweep exE0 (exP false) 6 3 [((1 : ℚ), (2 : ℚ))] [((1 : ℚ), (2 : ℚ))] = ([((1 : ℚ), (2 : ℚ))], 0) := by
    have h := sweep_of_nodes exE0 (exP false) 6 3 id id [((1 : ℚ), (2 : ℚ))] (by
      intro n hn
      simp only [List.mem_singleton] at hn
      subst hn
      have hw : pmod (6 : ℚ) 1 = 1 := by simpa using pmod6_nat 1 (by norm_num)
      simp [implNode, exE0, exP, velAt, clip, hw]
      norm_num)
    simpa using h
  have hit : ∀ k, iterState exE0 (exP false) 6 3 [((1 : ℚ), (2 : ℚ))] k [((1 : ℚ), (2 : ℚ))] = [((1 : ℚ), (2 : ℚ))] := by
    intro k
    induction k with
    | zero => rfl
    | succ k ih =>
      unfold iterState at ih ⊢
      rw [Function.iterate_succ_apply', ih, hs]
  exact pol_impl_terminates_partial exE0 (exP false) 6 3 (1 / 1000) (1 / 2) _ _ (by norm_num) (by norm_num)
    (by norm_num) (fun k => by rw [hit, hit, hs]; norm_num)

end PygyroVerif.C12
